/- Finite sums over lists of node ids and over the values of a dict (rational weights). -/
import SkNet.Lemmas.MergeW
import Mathlib.Tactic.Linarith
import Mathlib.Tactic.Ring
import Mathlib.Algebra.Order.Field.Rat
import Mathlib.Algebra.BigOperators.Group.List.Basic

set_option linter.unusedSimpArgs false

namespace SkNet.Agg
open SkNet SkNet.Dendro

/-- `Σ_{x ∈ l} f x` -/
def S (l : List Nat) (f : Nat → ℚ) : ℚ := (l.map f).sum

theorem S_nil (f : Nat → ℚ) : S [] f = 0 := rfl
theorem S_cons (a : Nat) (l : List Nat) (f : Nat → ℚ) : S (a :: l) f = f a + S l f := by simp [S]
theorem S_append (a b : List Nat) (f : Nat → ℚ) : S (a ++ b) f = S a f + S b f := by simp [S]
theorem S_add (l : List Nat) (f g : Nat → ℚ) : S l (fun x => f x + g x) = S l f + S l g := by
  simp [S, List.sum_map_add]

theorem S_congr {l : List Nat} {f g : Nat → ℚ} (h : ∀ x ∈ l, f x = g x) : S l f = S l g := by
  unfold S; rw [List.map_congr_left h]

theorem S_nonneg {l : List Nat} {f : Nat → ℚ} (h : ∀ x ∈ l, 0 ≤ f x) : 0 ≤ S l f := by
  induction l with
  | nil => simp [S]
  | cons a as ih =>
    rw [S_cons]
    have := h a List.mem_cons_self
    have := ih (fun x hx => h x (List.mem_cons_of_mem _ hx))
    linarith

/-- taking one element out of a sum over a list without repetition -/
theorem S_erase {l : List Nat} (hnd : l.Nodup) {i : Nat} (hi : i ∈ l) (f : Nat → ℚ) :
    S l f = f i + S (l.filter (· != i)) f := by
  induction l with
  | nil => simp at hi
  | cons a as ih =>
    have hnd' := List.nodup_cons.mp hnd
    by_cases e : a = i
    · subst e
      have : (a :: as).filter (· != a) = as := by
        rw [List.filter_cons]
        simp only [bne_self_eq_false, Bool.false_eq_true, if_false]
        apply List.filter_eq_self.mpr
        intro x hx
        simp only [bne_iff_ne, ne_eq]
        intro e; exact hnd'.1 (e ▸ hx)
      rw [this, S_cons]
    · have hi' : i ∈ as := by
        rcases List.mem_cons.mp hi with h | h
        · exact absurd h.symm e
        · exact h
      have hb : (a != i) = true := by simpa using e
      rw [List.filter_cons, hb]
      simp only [if_true, S_cons]
      rw [ih hnd'.2 hi']
      ring

/-- taking two elements out -/
theorem S_erase2 {l : List Nat} (hnd : l.Nodup) {i j : Nat} (hi : i ∈ l) (hj : j ∈ l) (hij : i ≠ j)
    (f : Nat → ℚ) :
    S l f = f i + f j + S ((l.filter (· != i)).filter (· != j)) f := by
  rw [S_erase hnd hi, S_erase (hnd.filter _) (List.mem_filter.mpr ⟨hj, by simpa using Ne.symm hij⟩)]
  ring

/-! ### dict values -/

def sumD (d : Dict ℚ) : ℚ := (d.map (·.2)).sum

theorem sumD_erase {d : Dict ℚ} (hd : (Dict.keys d).Nodup) {k : Nat} {s : ℚ} (h : d.get? k = some s) :
    sumD (d.erase k) + s = sumD d := by
  induction d with
  | nil => simp at h
  | cons p r ih =>
    obtain ⟨k', v'⟩ := p
    simp only [Dict.keys, List.map_cons, List.nodup_cons] at hd
    by_cases e : k' = k
    · subst e
      simp only [Dict.get?_cons, if_true, Option.some.injEq] at h
      subst h
      have : Dict.erase r k' = r := by
        unfold Dict.erase
        apply List.filter_eq_self.mpr
        intro a ha
        have : a.1 ∈ Dict.keys r := List.mem_map.mpr ⟨a, ha, rfl⟩
        simp only [bne_iff_ne, ne_eq]
        intro e; exact hd.1 (e ▸ this)
      have hb : ((k', v').1 != k') = false := by simp
      simp only [Dict.erase, List.filter_cons, hb, Bool.false_eq_true, if_false] at this ⊢
      rw [this]
      simp [sumD]; ring
    · simp only [Dict.get?_cons, e, if_false] at h
      have hb : ((k', v').1 != k) = true := by simp [e]
      have := ih hd.2 h
      simp only [Dict.erase, List.filter_cons, hb, if_true, sumD, List.map_cons, List.sum_cons] at this ⊢
      linarith

theorem sumD_nonneg {d : Dict ℚ} (h : ∀ p ∈ d, 0 ≤ p.2) : 0 ≤ sumD d := by
  induction d with
  | nil => simp [sumD]
  | cons p r ih =>
    have h1 := h p List.mem_cons_self
    have h2 := ih (fun q hq => h q (List.mem_cons_of_mem _ hq))
    simp only [sumD, List.map_cons, List.sum_cons] at h2 ⊢
    linarith

end SkNet.Agg
