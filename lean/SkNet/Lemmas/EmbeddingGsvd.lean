/-
C09, GSVD / SVD / PCA: the operator handed to the solver denotes the documented matrix, the embedding is formed
from the returned triplets as documented, and `predict` on a row of the fitted matrix reproduces that row.
-/
import SkNet.Lemmas.EmbeddingSLR
import SkNet.Lemmas.EmbeddingSort
import SkNet.Lemmas.EmbeddingNormalize
import SkNet.Lemmas.EmbeddingSpectral

set_option linter.unusedSectionVars false

open Finset

namespace SkNet.Embedding

variable {α : Type} [Field α] [LinearOrder α] [IsStrictOrderedRing α]

/-- row weights `A_reg · 1` computed through `SparseLR._matvec` are the row sums of `A + α 11ᵀ/n_col` -/
theorem regOf_rowWeights (nRow nCol : Nat) (hc : 0 < nCol) (a : Mat α) (r : Option α) (i : Nat) (hi : i < nRow) :
    vget ((regOf nRow nCol a r).matvec (tab nCol fun _ => 1)) i = Spec.gsvdWeightRow nCol a (r.getD 0) i := by
  have hc' : (nCol : α) ≠ 0 := Nat.cast_ne_zero.mpr (Nat.pos_iff_ne_zero.mp hc)
  cases r with
  | none =>
    simp only [regOf, matvec_ofMat nRow nCol a _ i hi, Spec.gsvdWeightRow, Spec.aReg, sumN_eq_sum, Option.getD_none,
      zero_div, add_zero]
    simp +contextual only [vget_tab, if_true, mul_one]
  | some r =>
    simp only [regOf, regularizer_eq, matvec_rank1 nRow nCol a _ _ _ i hi, Spec.gsvdWeightRow, Spec.aReg, sumN_eq_sum,
      Option.getD_some]
    simp +contextual only [vget_tab, if_true, hi, mul_one, one_mul]
    simp only [Finset.sum_add_distrib, Finset.sum_const, Finset.card_range, nsmul_eq_mul]
    field_simp

/-- column weights `A_regᵀ · 1` through the transposed operator -/
theorem regOf_colWeights (nRow nCol : Nat) (hc : 0 < nCol) (a : Mat α) (r : Option α) (j : Nat) (hj : j < nCol) :
    vget ((regOf nRow nCol a r).transpose.matvec (tab nRow fun _ => 1)) j
      = Spec.gsvdWeightCol nRow nCol a (r.getD 0) j := by
  have hc' : (nCol : α) ≠ 0 := Nat.cast_ne_zero.mpr (Nat.pos_iff_ne_zero.mp hc)
  cases r with
  | none =>
    simp only [regOf, transpose_ofMat, matvec_ofMat nCol nRow _ _ j hj, Spec.gsvdWeightCol, Spec.aReg, sumN_eq_sum,
      Option.getD_none, zero_div, add_zero]
    simp +contextual only [vget_tab, mget_mkMat, hj, if_true, mul_one]
  | some r =>
    simp only [regOf, regularizer_eq, transpose_rank1, matvec_rank1 nCol nRow _ _ _ _ j hj, Spec.gsvdWeightCol,
      Spec.aReg, sumN_eq_sum, Option.getD_some]
    simp +contextual only [vget_tab, mget_mkMat, if_true, hj, mul_one, one_mul]
    simp only [Finset.sum_add_distrib, Finset.sum_const, Finset.card_range, nsmul_eq_mul]
    field_simp

variable (F : Fn α) (nRow nCol : Nat) (a : Mat α) (p : GsvdParams α)

/-- `diag_row` of `GSVD.fit` -/
theorem gsvd_diagRow (hc : 0 < nCol) (i : Nat) (hi : i < nRow) :
    vget (gsvdOperator F nRow nCol a p).2.2.1 i
      = pinv (F.pow (Spec.gsvdWeightRow nCol a (p.regularization.getD 0) i) p.factorRow) := by
  simp only [gsvdOperator, vget_tab, hi, if_true]
  rw [regOf_rowWeights nRow nCol hc a _ i hi]

/-- `diag_col` of `GSVD.fit` -/
theorem gsvd_diagCol (hc : 0 < nCol) (j : Nat) (hj : j < nCol) :
    vget (gsvdOperator F nRow nCol a p).2.2.2.1 j
      = pinv (F.pow (Spec.gsvdWeightCol nRow nCol a (p.regularization.getD 0) j) p.factorCol) := by
  simp only [gsvdOperator, vget_tab, hj, if_true]
  rw [regOf_colWeights nRow nCol hc a _ j hj]

/-- `weights_col_` kept by `GSVD.fit` -/
theorem gsvd_weightsCol (hc : 0 < nCol) (j : Nat) (hj : j < nCol) :
    vget (gsvdOperator F nRow nCol a p).2.1 j = Spec.gsvdWeightCol nRow nCol a (p.regularization.getD 0) j := by
  simp only [gsvdOperator]
  rw [regOf_colWeights nRow nCol hc a _ j hj]

/-- `diag(dr) · regOf · diag(dc)` entry by entry -/
theorem entry_diag_regOf (n m : Nat) (x : Mat α) (r : Option α) (dr dc : Vec α) (i j : Nat) (hi : i < n) (hj : j < m) :
    (((regOf n m x r).rightDiag dc).leftDiag dr).entry i j = vget dr i * Spec.aReg m x (r.getD 0) i j * vget dc j := by
  cases r with
  | none => simp [regOf, entry_diag_ofMat n m x dr dc i j hi hj, Spec.aReg]
  | some r =>
    rw [regOf, regularizer_eq, entry_diag_rank1 _ _ _ _ _ _ _ _ _ hi hj, ← regularizer_eq,
      entry_regularizer n m x r i j hi hj]
    rfl

/-- **`gsvd_operator_denote`**: the operator `GSVD.fit` hands to the solver is
    `D₁^{-α₁} (A + α 11ᵀ/n_col) D₂^{-α₂}` (pseudo-inverses), entry by entry. -/
theorem gsvdOperator_entry (hc : 0 < nCol) (i j : Nat) (hi : i < nRow) (hj : j < nCol) :
    (gsvdOperator F nRow nCol a p).2.2.2.2.entry i j
      = Spec.gsvdEntry F nRow nCol a (p.regularization.getD 0) p.factorRow p.factorCol i j := by
  have h1 := gsvd_diagRow F nRow nCol a p hc i hi
  have h2 := gsvd_diagCol F nRow nCol a p hc j hj
  have : (gsvdOperator F nRow nCol a p).2.2.2.2
      = ((regOf nRow nCol a p.regularization).rightDiag (gsvdOperator F nRow nCol a p).2.2.2.1).leftDiag
          (gsvdOperator F nRow nCol a p).2.2.1 := rfl
  rw [this, entry_diag_regOf nRow nCol a _ _ _ i j hi hj, h1, h2]
  rfl

/-! ### after the solver -/

/-- **solver contract of `GSVD.fit` / `PCA.fit`**: `(σ_c, u_c, v_c)` are singular triplets of the operator `m` -/
def IsSingularTriplets (m : SLR α) (sv : Vec α) (u v : Mat α) : Prop :=
  ∀ c, c < sv.length →
    (∀ i, i < m.nRow → ∑ j ∈ range m.nCol, m.entry i j * mget v j c = vget sv c * mget u i c) ∧
    (∀ j, j < m.nCol → ∑ i ∈ range m.nRow, m.entry i j * mget u i c = vget sv c * mget v j c)

/-- the positions selected by `np.argsort(-singular_values)` -/
abbrev svIndex (sv : Vec α) : List Nat := argsort (sv.map fun x => -x)

theorem svIndex_length (sv : Vec α) : (svIndex sv).length = sv.length := by
  simp [svIndex, argsort, length_argsortN]

theorem svIndex_lt (sv : Vec α) (c : Nat) (hc : c < sv.length) : (svIndex sv).getD c 0 < sv.length := by
  have := getD_argsortN_lt (sv.map fun x => -x).length (vget (sv.map fun x => -x)) 0 c
    (by simp [length_argsortN]; exact hc)
  simpa [svIndex, argsort] using this

variable (k : Nat) (dr dc wc : Vec α) (sv : Vec α) (u v : Mat α)

theorem gsvdPost_sv_length : (gsvdPost F nRow nCol p k dr dc wc sv u v).singularValues.length = sv.length := by
  simp [gsvdPost, svIndex_length]

theorem gsvdPost_sv (c : Nat) (hc : c < sv.length) :
    vget (gsvdPost F nRow nCol p k dr dc wc sv u v).singularValues c = vget sv ((svIndex sv).getD c 0) := by
  simp only [gsvdPost]
  rw [vget_map_lt _ _ 0 c (by rw [svIndex_length]; exact hc)]

theorem gsvdPost_left (i c : Nat) (hi : i < nRow) (hc : c < sv.length) :
    mget (gsvdPost F nRow nCol p k dr dc wc sv u v).left i c = mget u i ((svIndex sv).getD c 0) := by
  simp only [gsvdPost]
  rw [mget_selectCols nRow u _ i c hi (by rw [svIndex_length]; exact hc)]

theorem gsvdPost_right (j c : Nat) (hj : j < nCol) (hc : c < sv.length) :
    mget (gsvdPost F nRow nCol p k dr dc wc sv u v).right j c = mget v j ((svIndex sv).getD c 0) := by
  simp only [gsvdPost]
  rw [mget_selectCols nCol v _ j c hj (by rw [svIndex_length]; exact hc)]

/-- un-normalised row embedding `D₁^{-α₁} U Σ^{1−α}` formed from the *returned* triplets -/
def gsvdRowRaw (i c : Nat) : α :=
  F.pow (vget (gsvdPost F nRow nCol p k dr dc wc sv u v).singularValues c) (1 - p.factorSingular)
    * (vget dr i * mget (gsvdPost F nRow nCol p k dr dc wc sv u v).left i c)

/-- un-normalised column embedding `D₂^{-α₂} V Σ^{α}` -/
def gsvdColRaw (j c : Nat) : α :=
  F.pow (vget (gsvdPost F nRow nCol p k dr dc wc sv u v).singularValues c) p.factorSingular
    * (vget dc j * mget (gsvdPost F nRow nCol p k dr dc wc sv u v).right j c)

/-- **`gsvd_embedding`**: `embedding_row_ = D₁^{-α₁} U Σ^{1−α}` and `embedding_col_ = D₂^{-α₂} V Σ^{α}`, row-normalised
    when `normalized` -/
theorem gsvdPost_embedding :
    (gsvdPost F nRow nCol p k dr dc wc sv u v).embeddingRow
      = (if p.normalized then normalize2 F nRow sv.length (mkMat nRow sv.length (gsvdRowRaw F nRow nCol p k dr dc wc sv u v))
         else mkMat nRow sv.length (gsvdRowRaw F nRow nCol p k dr dc wc sv u v)) ∧
    (gsvdPost F nRow nCol p k dr dc wc sv u v).embeddingCol
      = (if p.normalized then normalize2 F nCol sv.length (mkMat nCol sv.length (gsvdColRaw F nRow nCol p k dr dc wc sv u v))
         else mkMat nCol sv.length (gsvdColRaw F nRow nCol p k dr dc wc sv u v)) := by
  have hl := svIndex_length sv
  have hrow : mkMat nRow (svIndex sv).length (fun i c =>
        vget (List.map (fun s => F.pow s (1 - p.factorSingular)) (List.map (vget sv) (svIndex sv))) c
          * (vget dr i * mget (selectCols nRow u (svIndex sv)) i c))
      = mkMat nRow sv.length (gsvdRowRaw F nRow nCol p k dr dc wc sv u v) := by
    rw [hl]
    refine mkMat_congr fun i _ c hc => ?_
    unfold gsvdRowRaw
    simp only [gsvdPost]
    rw [vget_map_lt _ _ 0 c (by simp [hl, hc])]
    rfl
  have hcol : mkMat nCol (svIndex sv).length (fun j c =>
        vget (List.map (fun s => F.pow s p.factorSingular) (List.map (vget sv) (svIndex sv))) c
          * (vget dc j * mget (selectCols nCol v (svIndex sv)) j c))
      = mkMat nCol sv.length (gsvdColRaw F nRow nCol p k dr dc wc sv u v) := by
    rw [hl]
    refine mkMat_congr fun j _ c hc => ?_
    unfold gsvdColRaw
    simp only [gsvdPost]
    rw [vget_map_lt _ _ 0 c (by simp [hl, hc])]
    rfl
  constructor
  · show (if p.normalized then normalize2 F nRow (svIndex sv).length _ else _) = _
    rw [hrow, hl]
  · show (if p.normalized then normalize2 F nCol (svIndex sv).length _ else _) = _
    rw [hcol, hl]

/-- the values selected by `np.argsort(-s)` are non-increasing -/
theorem sorted_svIndex (sv : Vec α) : ((svIndex sv).map (vget sv)).Pairwise (· ≥ ·) := by
  rw [List.pairwise_map]
  have hs := sorted_argsortN (sv.map fun x => -x).length (vget (sv.map fun x => -x))
  have hm : ∀ x, x ∈ argsortN (sv.map fun x => -x).length (vget (sv.map fun x => -x)) → x < sv.length := by
    intro x hx
    have := (mem_argsortN _ _ x).mp hx
    simpa using this
  refine List.Pairwise.imp_of_mem ?_ hs
  intro x y hx hy hxy
  rw [vget_map_lt sv _ 0 x (hm x hx), vget_map_lt sv _ 0 y (hm y hy)] at hxy
  have : sv.getD x 0 = vget sv x := rfl
  have h2 : sv.getD y 0 = vget sv y := rfl
  rw [this, h2] at hxy
  linarith

/-- **documented order**: `singular_values_` is in decreasing order -/
theorem gsvdPost_order : (gsvdPost F nRow nCol p k dr dc wc sv u v).singularValues.Pairwise (· ≥ ·) := by
  simp only [gsvdPost]
  exact sorted_svIndex sv

/-- `SparseLR.matmat` of the weighted operator is the product with the denoted matrix -/
theorem matmat_diag_regOf (n m kk : Nat) (x : Mat α) (r : Option α) (d1 d2 : Vec α) (b : Mat α)
    (i c : Nat) (hi : i < n) (hc : c < kk) :
    mget ((((regOf n m x r).rightDiag d2).leftDiag d1).matmat kk b) i c
      = ∑ j ∈ range m, (((regOf n m x r).rightDiag d2).leftDiag d1).entry i j * mget b j c := by
  cases r with
  | none =>
    simp only [regOf, rightDiag_ofMat, leftDiag_ofMat, entry_ofMat]
    exact matmat_ofMat n m kk _ b i c hi hc
  | some r =>
    simp only [regOf, regularizer_eq, rightDiag_rank1, leftDiag_rank1]
    exact matmat_rank1 n m kk _ _ _ b i c hi hc

/-- rows that agree are normalised to rows that agree (the matrices may have different heights) -/
theorem normalize2_row_congr (n n' kk : Nat) (m m' : Mat α) (i i' : Nat) (hi : i < n) (hi' : i' < n')
    (h : ∀ c, c < kk → mget m i c = mget m' i' c) (c : Nat) (hc : c < kk) :
    mget (normalize2 F n kk m) i c = mget (normalize2 F n' kk m') i' c := by
  rw [mget_normalize2 F n kk m i c hi hc, mget_normalize2 F n' kk m' i' c hi' hc, h c hc]
  congr 3
  unfold sqNorm
  exact Finset.sum_congr rfl fun j hj => by rw [h j (Finset.mem_range.mp hj)]

/-- **`gsvd_predict_row`**: `predict` on a batch `x` whose row `r` is row `i` of the fitted matrix returns `embedding_row_[i]` in row `r`
    (with or without regularisation and normalisation), provided the solver output satisfies its contract and
    `pow` splits every returned singular value: `σ^{1−α} σ^{α} = σ`, `σ^{α} ≠ 0` (true for `σ > 0`). -/
theorem gsvd_predict_row (hc : 0 < nCol)
    (hsol : IsSingularTriplets (gsvdOperator F nRow nCol a p).2.2.2.2 sv u v)
    (i : Nat) (hi : i < nRow) (nVec r : Nat) (hr : r < nVec) (x : Mat α) (hx : ∀ j, j < nCol → mget x r j = mget a i j)
    (hpow : ∀ c, c < sv.length →
      F.pow (vget sv c) (1 - p.factorSingular) * F.pow (vget sv c) p.factorSingular = vget sv c ∧
      F.pow (vget sv c) p.factorSingular ≠ 0)
    (c : Nat) (hcs : c < sv.length) :
    mget (gsvdPredictCore F p nCol
        (gsvdPost F nRow nCol p k (gsvdOperator F nRow nCol a p).2.2.1 (gsvdOperator F nRow nCol a p).2.2.2.1
          (gsvdOperator F nRow nCol a p).2.1 sv u v).singularValues
        (gsvdPost F nRow nCol p k (gsvdOperator F nRow nCol a p).2.2.1 (gsvdOperator F nRow nCol a p).2.2.2.1
          (gsvdOperator F nRow nCol a p).2.1 sv u v).right
        (gsvdPost F nRow nCol p k (gsvdOperator F nRow nCol a p).2.2.1 (gsvdOperator F nRow nCol a p).2.2.2.1
          (gsvdOperator F nRow nCol a p).2.1 sv u v).weightsCol nVec x) r c
      = mget (gsvdPost F nRow nCol p k (gsvdOperator F nRow nCol a p).2.2.1 (gsvdOperator F nRow nCol a p).2.2.2.1
          (gsvdOperator F nRow nCol a p).2.1 sv u v).embeddingRow i c := by
  generalize hdr : (gsvdOperator F nRow nCol a p).2.2.1 = dr
  generalize hdc : (gsvdOperator F nRow nCol a p).2.2.2.1 = dc
  generalize hwc : (gsvdOperator F nRow nCol a p).2.1 = wc
  generalize hout : gsvdPost F nRow nCol p k dr dc wc sv u v = out
  have hlen : out.singularValues.length = sv.length := by rw [← hout]; exact gsvdPost_sv_length F nRow nCol p k dr dc wc sv u v
  have hwcout : out.weightsCol = wc := by rw [← hout]; rfl
  -- the raw (un-normalised) predicted row equals the raw embedding row
  have hraw : ∀ c, c < sv.length →
      (vget (tab nVec fun i' => pinv (F.pow (vget ((regOf nVec nCol x p.regularization).matvec (tab nCol fun _ => 1)) i')
            p.factorRow)) r
        * mget ((((regOf nVec nCol x p.regularization).rightDiag
            (tab nCol fun j => pinv (F.pow (vget out.weightsCol j) p.factorCol))).leftDiag
            (tab nVec fun i' => pinv (F.pow (vget ((regOf nVec nCol x p.regularization).matvec (tab nCol fun _ => 1)) i')
              p.factorRow))).matmat sv.length out.right) r c)
        / F.pow (vget out.singularValues c) p.factorSingular
      = gsvdRowRaw F nRow nCol p k dr dc wc sv u v i c := by
    intro c hcs
    have hc' := svIndex_lt sv c hcs
    generalize hcidx : (svIndex sv).getD c 0 = c' at hc'
    -- weights of the new row = weights of row i
    have hwr : vget ((regOf nVec nCol x p.regularization).matvec (tab nCol fun _ => 1)) r
        = Spec.gsvdWeightRow nCol a (p.regularization.getD 0) i := by
      rw [regOf_rowWeights nVec nCol hc x _ r hr]
      unfold Spec.gsvdWeightRow Spec.aReg
      exact sumN_congr fun j hj => by rw [hx j hj]
    have hdr0 : vget (tab nVec fun i' => pinv (F.pow (vget ((regOf nVec nCol x p.regularization).matvec
          (tab nCol fun _ => 1)) i') p.factorRow)) r = vget dr i := by
      rw [vget_tab_lt _ hr, hwr, ← hdr, gsvd_diagRow F nRow nCol a p hc i hi]
    have hdcj : ∀ j, j < nCol → vget (tab nCol fun j => pinv (F.pow (vget out.weightsCol j) p.factorCol)) j = vget dc j := by
      intro j hj
      rw [vget_tab_lt _ hj, hwcout, ← hwc, gsvd_weightsCol F nRow nCol a p hc j hj, ← hdc,
        gsvd_diagCol F nRow nCol a p hc j hj]
    rw [matmat_diag_regOf nVec nCol _ x _ _ _ _ r c hr hcs]
    -- every entry of the weighted new row is the entry of the fitted operator
    have hent : ∀ j, j < nCol →
        (((regOf nVec nCol x p.regularization).rightDiag
            (tab nCol fun j => pinv (F.pow (vget out.weightsCol j) p.factorCol))).leftDiag
            (tab nVec fun i' => pinv (F.pow (vget ((regOf nVec nCol x p.regularization).matvec (tab nCol fun _ => 1)) i')
              p.factorRow))).entry r j * mget out.right j c
        = (gsvdOperator F nRow nCol a p).2.2.2.2.entry i j * mget v j c' := by
      intro j hj
      rw [entry_diag_regOf nVec nCol x _ _ _ r j hr hj, hdr0, hdcj j hj,
        gsvdOperator_entry F nRow nCol a p hc i j hi hj]
      have hr : mget out.right j c = mget v j c' := by
        rw [← hout, gsvdPost_right F nRow nCol p k dr dc wc sv u v j c hj hcs, hcidx]
      rw [hr]
      unfold Spec.gsvdEntry Spec.aReg
      rw [hx j hj, ← hdr, ← hdc, gsvd_diagRow F nRow nCol a p hc i hi, gsvd_diagCol F nRow nCol a p hc j hj]
    rw [Finset.sum_congr rfl fun j hj => hent j (Finset.mem_range.mp hj)]
    have hnr : (gsvdOperator F nRow nCol a p).2.2.2.2.nRow = nRow := by
      unfold gsvdOperator; cases p.regularization <;> rfl
    have hnc : (gsvdOperator F nRow nCol a p).2.2.2.2.nCol = nCol := by
      unfold gsvdOperator; cases p.regularization <;> rfl
    have hcontract := (hsol c' hc').1 i (by rw [hnr]; exact hi)
    rw [hnc] at hcontract
    rw [hcontract, hdr0]
    unfold gsvdRowRaw
    have hs : vget out.singularValues c = vget sv c' := by
      rw [← hout, gsvdPost_sv F nRow nCol p k dr dc wc sv u v c hcs, hcidx]
    have hl : mget out.left i c = mget u i c' := by
      rw [← hout, gsvdPost_left F nRow nCol p k dr dc wc sv u v i c hi hcs, hcidx]
    rw [hout, hs, hl]
    obtain ⟨h1, h2⟩ := hpow c' hc'
    generalize F.pow (vget sv c') p.factorSingular = ps at h1 h2
    generalize F.pow (vget sv c') (1 - p.factorSingular) = pl at h1
    rw [← h1]
    field_simp
  -- assemble, with or without normalisation
  have hemb := (gsvdPost_embedding F nRow nCol p k dr dc wc sv u v).1
  rw [hout] at hemb
  rw [hemb]
  unfold gsvdPredictCore
  simp only []
  by_cases hnm : p.normalized = true
  · simp only [hnm, if_true]
    rw [hlen]
    refine normalize2_row_congr F nVec nRow sv.length _ _ r i hr hi ?_ c hcs
    intro c hc2
    rw [mget_mkMat_lt _ hr hc2, mget_mkMat_lt _ hi hc2]
    exact hraw c hc2
  · simp only [hnm, if_false, Bool.false_eq_true]
    rw [hlen, mget_mkMat_lt _ hr hcs, mget_mkMat_lt _ hi hcs]
    exact hraw c hcs

/-- the re-ordered triplets kept as `singular_values_`, `singular_vectors_left_`, `singular_vectors_right_` are still
    singular triplets of the operator -/
theorem gsvdPost_triplets (m : SLR α) (hr : m.nRow = nRow) (hcn : m.nCol = nCol)
    (hsol : IsSingularTriplets m sv u v) :
    IsSingularTriplets m (gsvdPost F nRow nCol p k dr dc wc sv u v).singularValues
      (gsvdPost F nRow nCol p k dr dc wc sv u v).left (gsvdPost F nRow nCol p k dr dc wc sv u v).right := by
  intro c hc
  rw [gsvdPost_sv_length] at hc
  have hc' := svIndex_lt sv c hc
  obtain ⟨h1, h2⟩ := hsol _ hc'
  rw [gsvdPost_sv F nRow nCol p k dr dc wc sv u v c hc]
  constructor
  · intro i hi
    rw [hr] at hi
    rw [gsvdPost_left F nRow nCol p k dr dc wc sv u v i c hi hc, ← h1 i (by rw [hr]; exact hi), hcn]
    exact Finset.sum_congr rfl fun j hj => by
      rw [gsvdPost_right F nRow nCol p k dr dc wc sv u v j c (Finset.mem_range.mp hj) hc]
  · intro j hj
    rw [hcn] at hj
    rw [gsvdPost_right F nRow nCol p k dr dc wc sv u v j c hj hc, ← h2 j (by rw [hcn]; exact hj), hr]
    exact Finset.sum_congr rfl fun i hi => by
      rw [gsvdPost_left F nRow nCol p k dr dc wc sv u v i c (Finset.mem_range.mp hi) hc]

theorem gsvdOperator_shape : (gsvdOperator F nRow nCol a p).2.2.2.2.nRow = nRow ∧
    (gsvdOperator F nRow nCol a p).2.2.2.2.nCol = nCol := by
  unfold gsvdOperator; cases p.regularization <;> exact ⟨rfl, rfl⟩

/-! ### `LanczosSVD.fit` -/

/-- the triplets `LanczosSVD.fit` exposes are those of `svds`, re-ordered by decreasing singular value -/
theorem lanczosSvdPost_order (s : Vec α) (uu vt : Mat α) :
    (lanczosSvdPost nRow nCol uu s vt).1.Pairwise (· ≥ ·) ∧ (lanczosSvdPost nRow nCol uu s vt).1.length = s.length := by
  constructor
  · simp only [lanczosSvdPost]
    exact sorted_svIndex s
  · simp [lanczosSvdPost, svIndex_length]

/-- `predict` accepts every batch of the right length without negative entry (in particular empty rows) -/
theorem predictRefused_eq_false (nVec : Nat) (x : Mat α)
    (hnn : ∀ i j, i < nVec → j < nCol → 0 ≤ mget x i j) : predictRefused nCol nVec nCol x = false := by
  unfold predictRefused
  rw [bne_self_eq_false, Bool.false_or, List.any_eq_false]
  intro i hi
  rw [List.any_eq_true]
  rintro ⟨j, hj, hlt⟩
  have := hnn i j (List.mem_range.mp hi) (List.mem_range.mp hj)
  exact absurd (of_decide_eq_true hlt) (not_lt.mpr this)

/-! ### PCA -/

theorem pcaMeans_eq (j : Nat) (hj : j < nCol) :
    vget (pcaMeans nRow nCol a) j = (∑ i ∈ range nRow, mget a i j) / (nRow : α) := by
  simp [pcaMeans, hj, sumN_eq_sum]

/-- **`pca_centred_denote`**: the operator `PCA.fit` hands to the solver is the column-centred matrix `A − 1μᵀ` -/
theorem pcaOperator_entry (i j : Nat) (hi : i < nRow) (hj : j < nCol) :
    (pcaOperator nRow nCol a).entry i j = Spec.centredEntry nRow a i j := by
  rw [pcaOperator_eq, entry_rank1, pcaMeans_eq nRow nCol a j hj]
  simp only [vget_tab, hi, if_true, Spec.centredEntry, sumN_eq_sum]
  ring

/-- every column of the centred matrix sums to zero -/
theorem centred_colsum_zero (hr : 0 < nRow) (j : Nat) : ∑ i ∈ range nRow, Spec.centredEntry nRow a i j = 0 := by
  have hr' : (nRow : α) ≠ 0 := Nat.cast_ne_zero.mpr (Nat.pos_iff_ne_zero.mp hr)
  simp only [Spec.centredEntry, sumN_eq_sum, Finset.sum_sub_distrib, Finset.sum_const, Finset.card_range,
    nsmul_eq_mul]
  field_simp
  ring

/-- **`pca_predict_row`**: `PCA.predict` on row `i` of the fitted matrix reproduces `embedding_row_[i]`, provided the
    solver output satisfies its contract and the singular values are not zero. -/
theorem pca_predict_row (nm : Bool)
    (hsol : IsSingularTriplets (pcaOperator nRow nCol a) sv u v)
    (i : Nat) (hi : i < nRow) (nVec r : Nat) (hr : r < nVec) (x : Mat α) (hx : ∀ j, j < nCol → mget x r j = mget a i j)
    (hsv : ∀ c, c < sv.length → vget sv c ≠ 0)
    (c : Nat) (hcs : c < sv.length) :
    mget (pcaPredictCore F nm nCol sv v (pcaMeans nRow nCol a) nVec x) r c
      = mget (pcaPost F nRow nCol nm (pcaMeans nRow nCol a) sv u v).embeddingRow i c := by
  have hraw : ∀ c, c < sv.length →
      ((sumN nCol fun j => mget x r j * mget v j c)
        - vget (tab sv.length fun c => sumN nCol fun j => vget (pcaMeans nRow nCol a) j * mget v j c) c) / vget sv c
      = mget u i c := by
    intro c hcs
    have hcon := (hsol c hcs).1 i hi
    have hnc : (pcaOperator nRow nCol a).nCol = nCol := rfl
    rw [hnc] at hcon
    rw [vget_tab_lt _ hcs, sumN_eq_sum, sumN_eq_sum, ← Finset.sum_sub_distrib]
    have : ∀ j ∈ range nCol, mget x r j * mget v j c - vget (pcaMeans nRow nCol a) j * mget v j c
        = (pcaOperator nRow nCol a).entry i j * mget v j c := by
      intro j hj
      have hj' := Finset.mem_range.mp hj
      rw [pcaOperator_eq, entry_rank1, vget_tab_lt _ hi, hx j hj']
      ring
    rw [Finset.sum_congr rfl this, hcon]
    field_simp [hsv c hcs]
  unfold pcaPredictCore pcaPost
  simp only []
  by_cases hnm : nm = true
  · simp only [hnm, if_true]
    refine normalize2_row_congr F nVec nRow sv.length _ _ r i hr hi ?_ c hcs
    intro c hc2
    rw [mget_mkMat_lt _ hr hc2]
    exact hraw c hc2
  · simp only [hnm, if_false, Bool.false_eq_true]
    rw [mget_mkMat_lt _ hr hcs]
    exact hraw c hcs

end SkNet.Embedding
