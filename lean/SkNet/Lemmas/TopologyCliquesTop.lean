/-
C11 helper lemmas: `count_cliques` end to end — the box built by `ListingBox.__cinit__` and the DAG built by
`get_dag` satisfy the invariant of the top level, hence the kernel returns the recursive count of the orientation,
which is the brute-force clique count.
-/
import SkNet.Lemmas.TopologyKernel
import SkNet.Lemmas.TopologyDag

set_option linter.unusedSimpArgs false

namespace SkNet.Topology

/-! ### `indptr` of a list of rows -/

theorem indptrOf_last (rows : List (List Nat)) : (indptrOf rows).getD rows.length 0 = rows.flatten.length := by
  induction rows with
  | nil => rfl
  | cons r rs ih =>
    rw [List.length_cons, indptrOf_succ r rs rs.length (Nat.le_refl _), ih]
    simp; omega

theorem indptrOf_le (rows : List (List Nat)) (v w : Nat) (hvw : v ≤ w) (hw : w ≤ rows.length) :
    (indptrOf rows).getD v 0 ≤ (indptrOf rows).getD w 0 := by
  induction w with
  | zero => have : v = 0 := by omega
            subst this; exact Nat.le_refl _
  | succ w ih =>
    by_cases h : v = w + 1
    · subst h; exact Nat.le_refl _
    · have := ih (by omega) (by omega)
      rw [indptrOf_mono rows w (by omega)]
      omega

theorem kernelCtx_csrOfRows (rows : List (List Nat)) (m : Nat) (hm : ∀ v, v < rows.length → (rows.getD v []).length ≤ m) :
    KernelCtx (csrOfRows rows).indptr rows.length (csrOfRows rows).indices.length m := by
  refine ⟨fun v w h1 h2 => indptrOf_le rows v w h1 h2, ?_, ?_⟩
  · show (indptrOf rows).getD rows.length 0 ≤ rows.flatten.length
    rw [indptrOf_last]; exact Nat.le_refl _
  · intro v hv
    show (indptrOf rows).getD (v+1) 0 - (indptrOf rows).getD v 0 ≤ m
    rw [indptrOf_mono rows v hv]
    have := hm v hv
    omega

/-! ### the box of `ListingBox.__cinit__` -/

theorem le_foldl_max (l : List Nat) (a : Nat) : a ≤ l.foldl max a ∧ ∀ x ∈ l, x ≤ l.foldl max a := by
  induction l generalizing a with
  | nil => exact ⟨Nat.le_refl _, fun _ h => by simp at h⟩
  | cons y ys ih =>
    rw [List.foldl_cons]
    obtain ⟨h1, h2⟩ := ih (max a y)
    refine ⟨by omega, ?_⟩
    intro x hx
    rcases List.mem_cons.1 hx with e | e
    · subst e; omega
    · exact h2 x e

/-- maximal out-degree, as `__cinit__` computes it -/
def maxDegOf (indptr : List Nat) : Nat :=
  (tab (indptr.length - 1) fun i => indptr.getD (i+1) 0 - indptr.getD i 0).foldl max 0

theorem deg_le_maxDegOf (indptr : List Nat) (v : Nat) (hv : v < indptr.length - 1) :
    indptr.getD (v+1) 0 - indptr.getD v 0 ≤ maxDegOf indptr := by
  unfold maxDegOf
  apply (le_foldl_max _ 0).2
  unfold tab
  exact List.mem_map.2 ⟨v, List.mem_range.2 hv, rfl⟩

theorem boxInit_shape (indptr : List Nat) (k : Nat) :
    (boxInit indptr k).Shape k (indptr.length - 1) (maxDegOf indptr) := by
  refine ⟨by simp [boxInit], by simp [boxInit], by simp [boxInit], by simp [boxInit], ?_, ?_, ?_⟩
  · intro l h1 h2
    show ((tab (k+1) _).getD l []).length = _
    rw [tab_getD, if_pos (by omega)]
    by_cases hlk : l = k
    · rw [if_pos hlk]; simp
    · rw [if_neg hlk, if_pos h1]; simp
  · intro l h1 h2
    show ((tab (k+1) _).getD l []).length = _
    rw [tab_getD, if_pos (by omega), if_neg (by omega), if_pos h1]
    simp [maxDegOf]
  · show ((tab (k+1) _).getD k []).length = _
    rw [tab_getD, if_pos (by omega), if_pos rfl]; simp

theorem boxInit_nsAt (indptr : List Nat) (k : Nat) : (boxInit indptr k).nsAt k = indptr.length - 1 := by
  show ((List.replicate (k+1) 0).set k (indptr.length - 1)).getD k 0 = _
  rw [getD_set_self _ _ _ _ (by simp)]

theorem boxInit_sub (indptr : List Nat) (k i : Nat) (hi : i < indptr.length - 1) : (boxInit indptr k).sub k i = i := by
  show ((tab (k+1) _).getD k []).getD i 0 = i
  rw [tab_getD, if_pos (by omega), if_pos rfl, tab_getD, if_pos hi]

theorem boxInit_deg (indptr : List Nat) (k v : Nat) (hv : v < indptr.length - 1) :
    (boxInit indptr k).deg k v = indptr.getD (v+1) 0 - indptr.getD v 0 := by
  show ((tab (k+1) _).getD k []).getD v 0 = _
  rw [tab_getD, if_pos (by omega), if_pos rfl, tab_getD, if_pos hv]

theorem boxInit_labAt (indptr : List Nat) (k v : Nat) (hv : v < indptr.length - 1) : (boxInit indptr k).labAt v = k := by
  show (List.replicate (indptr.length - 1) k).getD v 0 = k
  rw [List.getD_eq_getElem?_getD, List.getElem?_replicate, if_pos hv]; rfl

theorem boxInit_subList (indptr : List Nat) (k : Nat) :
    subList (boxInit indptr k) k = List.range (indptr.length - 1) := by
  unfold subList
  rw [boxInit_nsAt]
  conv => rhs; rw [← List.map_id (List.range (indptr.length - 1))]
  apply List.map_congr_left
  intro i hi
  exact boxInit_sub indptr k i (List.mem_range.1 hi)

/-! ### recursive count: orientations that agree on the candidates -/

theorem orientedCount_congr (p q : Nat → Nat → Bool) :
    ∀ (k : Nat) (S : List Nat), (∀ a ∈ S, ∀ b ∈ S, p a b = q a b) → orientedCount p k S = orientedCount q k S := by
  intro k
  induction k with
  | zero => intro S _; rfl
  | succ k ih =>
    intro S h
    show (S.map fun u => orientedCount p k (S.filter (p u))).sum = (S.map fun u => orientedCount q k (S.filter (q u))).sum
    congr 1
    apply List.map_congr_left
    intro u hu
    have : S.filter (p u) = S.filter (q u) := List.filter_congr (fun y hy => h u hu y hy)
    rw [this]
    apply ih
    intro a ha b hb
    exact h a (List.mem_filter.1 ha).1 b (List.mem_filter.1 hb).1

/-! ### the kernel on the DAG of `get_dag` -/

theorem getDag_eq_csrOfRows (n : Nat) (edge : Nat → Nat → Bool) (order : List Int) :
    getDag n edge order =
      csrOfRows (rowsOf n (dagEntries n edge order)) := rfl

/-- the box of `ListingBox.__cinit__` and the DAG of `get_dag` satisfy the invariant of the top level -/
theorem top_level_inv (n : Nat) (edge : Nat → Nat → Bool) (order : List Int) (hlen : order.length = n) (k : Nat) :
    KernelCtx (getDag n edge order).indptr n (getDag n edge order).indices.length
        (maxDegOf (getDag n edge order).indptr) ∧
      LevelInv (getDag n edge order).indptr (fun i j => edge i j && keepPred order i j) k n
        (maxDegOf (getDag n edge order).indptr) (getDag n edge order).indices.length k
        (getDag n edge order).indices (boxInit (getDag n edge order).indptr k) ∧
      subList (boxInit (getDag n edge order).indptr k) k = List.range n := by
  have hn : (getDag n edge order).indptr.length - 1 = n := getDag_nodes n edge order
  generalize hrows : rowsOf n (dagEntries n edge order) = rows
  have hrl : rows.length = n := by rw [← hrows, rowsOf_length]
  have hd : getDag n edge order = csrOfRows rows := by rw [getDag_eq_csrOfRows, hrows]
  have hrow : ∀ v, v < n → (csrOfRows rows).row v = (List.range n).filter fun j => edge v j && keepPred order v j := by
    intro v hv; rw [← hd]; exact getDag_row n edge order hlen v hv
  rw [hd] at hn ⊢
  have K : KernelCtx (csrOfRows rows).indptr n (csrOfRows rows).indices.length (maxDegOf (csrOfRows rows).indptr) := by
    have := kernelCtx_csrOfRows rows (maxDegOf (csrOfRows rows).indptr) (by
      intro v hv
      have h1 := deg_le_maxDegOf (csrOfRows rows).indptr v (by rw [hn]; omega)
      have h2 : (csrOfRows rows).indptr.getD (v+1) 0 = (csrOfRows rows).indptr.getD v 0 + (rows.getD v []).length :=
        indptrOf_mono rows v hv
      omega)
    rw [hrl] at this; exact this
  have hsl : subList (boxInit (csrOfRows rows).indptr k) k = List.range n := by rw [boxInit_subList, hn]
  refine ⟨K, ?_, hsl⟩
  have hsh := boxInit_shape (csrOfRows rows).indptr k
  rw [hn] at hsh
  refine ⟨hsh, rfl, by rw [hsl]; exact List.nodup_range, ?_, ?_, ?_, ?_⟩
  · intro v hv; rw [hsl] at hv; exact List.mem_range.1 hv
  · intro v hv; rw [hsl] at hv
    have hv' := List.mem_range.1 hv
    rw [boxInit_deg _ _ _ (by rw [hn]; exact hv')]
    have := K.mono v (v+1) (by omega) (by omega)
    omega
  · intro v hv; rw [hsl] at hv ⊢
    have hv' := List.mem_range.1 hv
    unfold prefOf
    rw [boxInit_deg _ _ _ (by rw [hn]; exact hv')]
    have hm := K.mono v (v+1) (by omega) (by omega)
    have : (csrOfRows rows).indptr.getD v 0 + ((csrOfRows rows).indptr.getD (v+1) 0 - (csrOfRows rows).indptr.getD v 0)
        = (csrOfRows rows).indptr.getD (v+1) 0 := by omega
    rw [this]
    have := hrow v hv'
    unfold Dag.row at this
    rw [this]
  · intro v hv; rw [hsl] at hv
    exact boxInit_labAt _ _ _ (by rw [hn]; exact List.mem_range.1 hv)

/-- the kernel on the DAG that `get_dag` builds from `order` returns the recursive count of the orientation
    `edge i j ∧ 0 ≤ order i < order j` on all nodes -/
theorem cliquesFrom_getDag (n : Nat) (edge : Nat → Nat → Bool) (order : List Int) (hlen : order.length = n)
    (k : Nat) (hk : 2 ≤ k) :
    (cliquesFrom (getDag n edge order).indptr k (getDag n edge order).indices
        (boxInit (getDag n edge order).indptr k)).1 =
      orientedCount (fun i j => edge i j && keepPred order i j) k (List.range n) := by
  obtain ⟨K, inv, hsl⟩ := top_level_inv n edge order hlen k
  have spec := cliquesFrom_spec (getDag n edge order).indptr (fun i j => edge i j && keepPred order i j) k n
    (maxDegOf (getDag n edge order).indptr) (getDag n edge order).indices.length K (k - 2) (by omega)
  have hk2 : k - 2 + 2 = k := by omega
  rw [hk2] at spec
  rw [(spec _ _ inv).1, hsl]

end SkNet.Topology

namespace SkNet.Topology

/-! ### the order handed to `get_dag` by `count_cliques` -/

/-- rank of a node under the order `np.argsort(values)` (a list of node ids used as an `order` array) -/
def rankOf (perm : List Nat) (v : Nat) : Int := (perm.map fun x => Int.ofNat x).getD v 0

theorem rankOf_nonneg (perm : List Nat) (v : Nat) : 0 ≤ rankOf perm v := by
  unfold rankOf
  rw [List.getD_eq_getElem?_getD, List.getElem?_map]
  cases perm[v]? with
  | none => simp
  | some x => simp

theorem rankOf_inj (perm : List Nat) (hnd : perm.Nodup) (a b : Nat) (ha : a < perm.length) (hb : b < perm.length)
    (h : rankOf perm a = rankOf perm b) : a = b := by
  unfold rankOf at h
  rw [List.getD_eq_getElem?_getD, List.getD_eq_getElem?_getD, List.getElem?_map, List.getElem?_map,
    List.getElem?_eq_getElem ha, List.getElem?_eq_getElem hb] at h
  simp only [Option.map_some, Option.getD_some] at h
  have h' : perm[a] = perm[b] := by exact Int.ofNat.inj h
  rw [List.nodup_iff_pairwise_ne] at hnd
  have hp := List.pairwise_iff_getElem.1 hnd
  by_cases hlt : a < b
  · exact absurd h' (hp a b ha hb hlt)
  · by_cases hgt : b < a
    · exact absurd h'.symm (hp b a hb ha hgt)
    · omega

/-- `count_cliques` with any duplicate-free order of the right length (in particular any permutation of the
    nodes) returns the brute-force clique count -/
theorem countCliquesWith_eq (n : Nat) (adj : Nat → Nat → Bool) (hsym : ∀ a b, adj a b = adj b a) (k : Nat)
    (hk : 2 ≤ k) (perm : List Nat) (hlen : perm.length = n) (hnd : perm.Nodup) :
    countCliquesWith n adj k perm = .ok (cliqueCountOn adj k (List.range n)) := by
  unfold countCliquesWith
  rw [if_neg (by omega)]
  simp only
  congr 1
  rw [cliquesFrom_getDag n adj _ (by simp [hlen]) k hk]
  rw [orientedCount_congr _ (orient adj (rankOf perm)) k (List.range n)]
  · exact orientedCount_eq adj hsym (rankOf perm) k (List.range n) List.nodup_range
      (fun a ha b hb e => rankOf_inj perm hnd a b (by rw [hlen]; exact List.mem_range.1 ha)
        (by rw [hlen]; exact List.mem_range.1 hb) e)
  · intro a _ b _
    unfold orient keepPred
    have h0 := rankOf_nonneg perm a
    show (adj a b && (decide (0 ≤ rankOf perm a) && decide (rankOf perm a < rankOf perm b))) = _
    rw [decide_eq_true h0, Bool.true_and]

/-! ### the stable argsort of the model is a permutation -/

theorem insertBy_perm (key : Nat → Int) (v : Nat) (l : List Nat) : (insertBy key v l).Perm (v :: l) := by
  induction l with
  | nil => exact List.Perm.refl _
  | cons w ws ih =>
    unfold insertBy
    by_cases h : key v ≤ key w
    · rw [if_pos h]
    · rw [if_neg h]
      exact (List.Perm.cons w ih).trans (List.Perm.swap v w ws)

theorem argsort_perm (d : List Int) : (argsort d).Perm (List.range d.length) := by
  unfold argsort
  generalize List.range d.length = l
  induction l with
  | nil => exact List.Perm.refl _
  | cons x xs ih =>
    rw [List.foldr_cons]
    exact (insertBy_perm _ x _).trans (List.Perm.cons x ih)

end SkNet.Topology
