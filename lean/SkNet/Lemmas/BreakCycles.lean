/- Lemmas about the adjacency state of `break_cycles` (Model/Cycles.lean): entries are only ever removed. -/
import SkNet.Model.Cycles

namespace SkNet.Cycles
open SkNet SkNet.Connectivity

/-- `a` is a sub-pattern of `b`: same number of rows, every stored entry of `a` is stored in `b` -/
def Rows.Sub (a b : Rows) : Prop := a.length = b.length ∧ ∀ i j, j ∈ a.row i → j ∈ b.row i

theorem Rows.Sub.refl (a : Rows) : a.Sub a := ⟨rfl, fun _ _ h => h⟩

theorem Rows.Sub.trans {a b c : Rows} (h₁ : a.Sub b) (h₂ : b.Sub c) : a.Sub c :=
  ⟨h₁.1.trans h₂.1, fun i j h => h₂.2 i j (h₁.2 i j h)⟩

theorem Rows.row_remove (a : Rows) (i j k : Nat) :
    (a.remove i j).row k = if i = k then (a.row k).filter (· != j) else a.row k := by
  unfold Rows.remove Rows.row
  rw [List.getD_eq_getElem?_getD, List.getD_eq_getElem?_getD, List.getElem?_modify]
  by_cases hik : i = k
  · subst hik
    cases h : a[i]? <;> simp
  · cases h : a[k]? <;> simp [hik]

theorem Rows.remove_sub (a : Rows) (i j : Nat) : (a.remove i j).Sub a := by
  refine ⟨by simp [Rows.remove], fun k x hx => ?_⟩
  rw [Rows.row_remove] at hx
  split at hx
  · exact (List.mem_filter.mp hx).1
  · exact hx

/-- the removed entry is gone -/
theorem Rows.not_mem_remove (a : Rows) (i j : Nat) : j ∉ (a.remove i j).row i := by
  rw [Rows.row_remove]
  simp

theorem breakNeighborsDir_sub (cur : Nat) (rpath : List Nat) (nbs : List Nat) (a : Rows) (stack : List (List Nat)) :
    (breakNeighborsDir cur rpath nbs (a, stack)).1.Sub a := by
  induction nbs generalizing a stack with
  | nil => exact Rows.Sub.refl a
  | cons nb rest ih =>
    unfold breakNeighborsDir
    split
    · exact (ih _ _).trans (Rows.remove_sub a cur nb)
    · exact ih _ _

theorem breakLoopDir_sub (setOrder : List Nat → List Nat) (cycleNodes : List Nat) (fuel : Nat) (a : Rows)
    (stack : List (List Nat)) (r : Rows) (h : breakLoopDir setOrder cycleNodes fuel a stack = some r) : r.Sub a := by
  induction fuel generalizing a stack with
  | zero => simp [breakLoopDir] at h
  | succ fuel ih =>
    unfold breakLoopDir at h
    split at h
    · cases h; exact Rows.Sub.refl _
    · split at h
      · exact ih _ _ h
      · simp only at h
        have := ih _ _ h
        exact this.trans (breakNeighborsDir_sub _ _ _ _ _)

theorem breakLabels_sub (setOrder : List Nat → List Nat) (ccLabels : List Nat) (distances : List Int) (fuel : Nat)
    (labels : List Nat) (a r : Rows) (h : breakLabels setOrder ccLabels distances fuel labels a = some r) : r.Sub a := by
  induction labels generalizing a with
  | nil => simp [breakLabels] at h; cases h; exact Rows.Sub.refl _
  | cons l rest ih =>
    unfold breakLabels at h
    simp only at h
    split at h
    · cases h
    · rename_i a' ha'
      exact (ih _ h).trans (breakLoopDir_sub _ _ _ _ _ _ ha')

theorem breakNeighborsUnd_sub (cur : Nat) (rpath : List Nat) (nbs : List Nat) (a : Rows) (stack : List (List Nat)) :
    (breakNeighborsUnd cur rpath nbs (a, stack)).1.Sub a := by
  induction nbs generalizing a stack with
  | nil => exact Rows.Sub.refl a
  | cons nb rest ih =>
    unfold breakNeighborsUnd
    split
    · exact ih _ _
    · split
      · exact (ih _ _).trans ((Rows.remove_sub _ nb cur).trans (Rows.remove_sub a cur nb))
      · exact ih _ _

theorem breakLoopUnd_sub (fuel : Nat) (a : Rows) (stack : List (List Nat)) (r : Rows)
    (h : breakLoopUnd fuel a stack = some r) : r.Sub a := by
  induction fuel generalizing a stack with
  | zero => simp [breakLoopUnd] at h
  | succ fuel ih =>
    unfold breakLoopUnd at h
    split at h
    · cases h; exact Rows.Sub.refl _
    · split at h
      · exact ih _ _ h
      · simp only at h
        exact (ih _ _ h).trans (breakNeighborsUnd_sub _ _ _ _ _)

theorem breakStarts_sub (fuel : Nat) (starts : List Nat) (a r : Rows)
    (h : breakStarts fuel starts a = some r) : r.Sub a := by
  induction starts generalizing a with
  | nil => simp [breakStarts] at h; cases h; exact Rows.Sub.refl _
  | cons s rest ih =>
    unfold breakStarts at h
    split at h
    · cases h
    · rename_i a' ha'
      exact (ih _ h).trans (breakLoopUnd_sub _ _ _ _ ha')

end SkNet.Cycles

namespace SkNet.Cycles
open SkNet SkNet.Connectivity

theorem mem_insertSorted (a x : Nat) (l : List Nat) : x ∈ insertSorted a l ↔ x = a ∨ x ∈ l := by
  induction l with
  | nil => simp [insertSorted]
  | cons b l ih =>
    unfold insertSorted
    split
    · simp
    · simp [ih, or_left_comm]

theorem mem_sortNat (x : Nat) (l : List Nat) : x ∈ sortNat l ↔ x ∈ l := by
  induction l with
  | nil => simp [sortNat]
  | cons a l ih =>
    have : sortNat (a :: l) = insertSorted a (sortNat l) := rfl
    rw [this, mem_insertSorted, ih]; simp

theorem mem_noLoopRows (m : Mat) (i j : Nat) :
    j ∈ (noLoopRows m).row i ↔ i < m.nRow ∧ j ∈ m.adj i ∧ j ≠ i := by
  unfold noLoopRows Rows.row
  rw [tab_getD]
  by_cases h : i < m.nRow
  · simp [h, mem_sortNat]
  · simp [h]

/-- Every entry of the result of `break_cycles` is an entry of the input off the diagonal. -/
theorem breakCyclesWith_rows_sub (fuel : Nat) (ext : BreakExt) (m : Mat) (root : Option (List Nat))
    (directed : Option Bool) (a : Rows)
    (h : breakCyclesWith fuel ext m root directed = .ok (.rows a)) : a.Sub (noLoopRows m) := by
  unfold breakCyclesWith at h
  split at h
  · cases h
  · cases h
  · split at h
    · cases h
    · split at h
      · cases h
      · split at h
        · cases h
        · unfold breakDirected at h
          simp only at h
          split at h
          · cases h
          · split at h
            · cases h
            · cases h
            · split at h
              · cases h
              · rename_i a' ha'
                cases h
                exact breakLabels_sub _ _ _ _ _ _ _ ha'
        · unfold breakUndirected at h
          simp only at h
          split at h
          · cases h
          · rename_i a' ha'
            cases h
            exact breakStarts_sub _ _ _ _ ha'

end SkNet.Cycles
