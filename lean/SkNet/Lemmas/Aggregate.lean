/- `aggregate_dendrogram` on a valid dendrogram: the suffix re-indexed by rank is a valid dendrogram over the clusters
   that are alive after the first `n - k` merges, weighted by their sizes. -/
import SkNet.Lemmas.Rename
import SkNet.Lemmas.Reorder
import SkNet.Lemmas.Valid
import SkNet.Spec.Cut

set_option linter.unusedSimpArgs false

namespace SkNet.Cut
open SkNet SkNet.Dendro

variable {α : Type}

/-! ### `sorted(set(...))` -/

theorem mem_insertSet (x y : Nat) (l : List Nat) : y ∈ insertSet x l ↔ y = x ∨ y ∈ l := by
  induction l with
  | nil => simp [insertSet]
  | cons z zs ih =>
    simp only [insertSet]
    split
    · simp
    · split
      · rename_i h; subst h; simp
      · simp only [List.mem_cons, ih]
        constructor
        · rintro (h | h | h)
          · exact Or.inr (Or.inl h)
          · exact Or.inl h
          · exact Or.inr (Or.inr h)
        · rintro (h | h | h)
          · exact Or.inr (Or.inl h)
          · exact Or.inl h
          · exact Or.inr (Or.inr h)

theorem insertSet_sorted (x : Nat) (l : List Nat) (hl : l.Pairwise (· < ·)) : (insertSet x l).Pairwise (· < ·) := by
  induction l with
  | nil => simp [insertSet]
  | cons z zs ih =>
    have hz := List.pairwise_cons.mp hl
    simp only [insertSet]
    split
    · rename_i hlt
      refine List.pairwise_cons.mpr ⟨?_, hl⟩
      intro b hb
      rcases List.mem_cons.mp hb with e | e
      · subst e; exact hlt
      · exact Nat.lt_trans hlt (hz.1 b e)
    · split
      · exact hl
      · rename_i h1 h2
        refine List.pairwise_cons.mpr ⟨?_, ih hz.2⟩
        intro b hb
        rcases (mem_insertSet x b zs).mp hb with e | e
        · subst e; omega
        · exact hz.1 b e

theorem mem_sortedSet (l : List Nat) (y : Nat) : y ∈ sortedSet l ↔ y ∈ l := by
  unfold sortedSet
  induction l with
  | nil => simp
  | cons x xs ih => simp only [List.foldr_cons, mem_insertSet, ih, List.mem_cons]

theorem sortedSet_sorted (l : List Nat) : (sortedSet l).Pairwise (· < ·) := by
  unfold sortedSet
  induction l with
  | nil => simp
  | cons x xs ih => simp only [List.foldr_cons]; exact insertSet_sorted x _ ih

/-- two strictly increasing lists with the same elements are equal -/
theorem sorted_ext : ∀ (a b : List Nat), a.Pairwise (· < ·) → b.Pairwise (· < ·) → (∀ x, x ∈ a ↔ x ∈ b) → a = b := by
  intro a
  induction a with
  | nil =>
    intro b _ _ h
    cases b with
    | nil => rfl
    | cons y ys => exact absurd ((h y).mpr List.mem_cons_self) (by simp)
  | cons x xs ih =>
    intro b ha hb h
    cases b with
    | nil => exact absurd ((h x).mp List.mem_cons_self) (by simp)
    | cons y ys =>
      have hxa := List.pairwise_cons.mp ha
      have hyb := List.pairwise_cons.mp hb
      have hxy : x = y := by
        have h1 := (h x).mp List.mem_cons_self
        have h2 := (h y).mpr List.mem_cons_self
        rcases List.mem_cons.mp h1 with e | e
        · exact e
        · rcases List.mem_cons.mp h2 with e' | e'
          · exact e'.symm
          · have := hyb.1 x e; have := hxa.1 y e'; omega
      subst hxy
      congr 1
      apply ih ys hxa.2 hyb.2
      intro z
      constructor
      · intro hz
        rcases List.mem_cons.mp ((h z).mp (List.mem_cons_of_mem _ hz)) with e | e
        · subst e; have := hxa.1 z hz; omega
        · exact e
      · intro hz
        rcases List.mem_cons.mp ((h z).mpr (List.mem_cons_of_mem _ hz)) with e | e
        · subst e; have := hyb.1 z hz; omega
        · exact e

/-! ### replaying a suffix under a renaming -/

theorem sim_suffix {n k : Nat} (φ : Nat → Nat) : ∀ (rs : List (Row α)) (t u : Nat) (L L' : Dict Nat),
    LInv n t L → liveAfter n t rs L = some L' →
    (∀ a, (a ∈ Dict.keys L ∨ (n + t ≤ a ∧ a < n + t + rs.length)) →
      ∀ b, (b ∈ Dict.keys L ∨ (n + t ≤ b ∧ b < n + t + rs.length)) → φ a = φ b → a = b) →
    (∀ v, v < rs.length → φ (n + t + v) = k + u + v) →
    liveAfter k u (rs.map fun r => { r with i := φ r.i, j := φ r.j }) (mapKeys φ L) = some (mapKeys φ L') := by
  intro rs
  induction rs with
  | nil => intro t u L L' _ h _ _; simp only [liveAfter, Option.some.injEq] at h; subst h; rfl
  | cons r rs ih =>
    intro t u L L' hinv h hinj hnew
    simp only [liveAfter] at h
    cases hs : liveStep n t r L with
    | none => simp [hs] at h
    | some L1 =>
      simp only [hs, Option.bind_some] at h
      obtain ⟨_, _, _, _, _, _, hl1, _, hget⟩ := liveStep_spec hinv hs
      have hstep := liveStep_rename (n' := k) (t' := u) φ hinv hs
        (by
          intro a ha b hb e
          refine hinj a ?_ b ?_ e
          · rcases ha with ha | ha
            · exact Or.inl ha
            · exact Or.inr (by simp only [List.length_cons]; omega)
          · rcases hb with hb | hb
            · exact Or.inl hb
            · exact Or.inr (by simp only [List.length_cons]; omega))
        (by have := hnew 0 (by simp); simpa using this)
      simp only [List.map_cons, liveAfter, hstep, Option.bind_some]
      have hkeys : ∀ x ∈ Dict.keys L1, x ∈ Dict.keys L ∨ x = n + t := by
        intro x hx
        by_cases e : x = n + t
        · exact Or.inr e
        · left
          have hne : L1.get? x ≠ none := fun e' => (Dict.get?_eq_none_iff _ _).mp e' hx
          rw [hget] at hne
          simp only [e, if_false] at hne
          by_cases e2 : x = r.j
          · simp [e2] at hne
          · by_cases e3 : x = r.i
            · simp [e2, e3] at hne
            · simp only [e2, e3, if_false] at hne
              cases hg : L.get? x with
              | none => exact absurd hg hne
              | some s => exact Dict.get?_some_key_mem hg
      refine ih (t + 1) (u + 1) L1 L' hl1 h ?_ ?_
      · intro a ha b hb e
        refine hinj a ?_ b ?_ e
        · rcases ha with ha | ha
          · rcases hkeys a ha with h1 | h1
            · exact Or.inl h1
            · exact Or.inr (by simp only [List.length_cons]; omega)
          · exact Or.inr (by simp only [List.length_cons]; omega)
        · rcases hb with hb | hb
          · rcases hkeys b hb with h1 | h1
            · exact Or.inl h1
            · exact Or.inr (by simp only [List.length_cons]; omega)
          · exact Or.inr (by simp only [List.length_cons]; omega)
      · intro v hv
        have := hnew (v + 1) (by simp only [List.length_cons]; omega)
        have e1 : n + (t + 1) + v = n + t + (v + 1) := by omega
        have e2 : k + (u + 1) + v = k + u + (v + 1) := by omega
        rw [e1, e2]; exact this


/-- the node created by a row that is no longer alive at the end was merged by a later row -/
theorem created_consumed {n : Nat} : ∀ (rs : List (Row α)) (t : Nat) (L L' : Dict Nat),
    LInv n t L → AscKeys L → liveAfter n t rs L = some L' →
    ∀ v, v < rs.length → n + t + v ∉ Dict.keys L' → n + t + v ∈ childList rs := by
  intro rs
  induction rs with
  | nil => intro t L L' _ _ _ v hv; simp at hv
  | cons r rs ih =>
    intro t L L' hinv hasc h v hv hnot
    simp only [liveAfter] at h
    cases hs : liveStep n t r L with
    | none => simp [hs] at h
    | some L1 =>
      simp only [hs, Option.bind_some] at h
      obtain ⟨_, _, _, _, _, _, hl1, _, hget⟩ := liveStep_spec hinv hs
      have hcl : childList (r :: rs) = r.i :: r.j :: childList rs := by simp [childList]
      rw [hcl]
      cases v with
      | zero =>
        have hk : n + t ∈ Dict.keys L1 := by
          have : L1.get? (n + t) = some r.s := by rw [hget]; simp
          exact Dict.get?_some_key_mem this
        have := (liveAfter_facts rs (t + 1) L1 L' hl1 (liveStep_asc hinv hasc hs) h).2.2.1 (n + t) hk
          (by simpa using hnot)
        exact List.mem_cons_of_mem _ (List.mem_cons_of_mem _ this)
      | succ v =>
        have := ih (t + 1) L1 L' hl1 (liveStep_asc hinv hasc hs) h v (by simpa using hv)
          (by have e : n + (t + 1) + v = n + t + (v + 1) := by omega
              rw [e]; exact hnot)
        have e : n + (t + 1) + v = n + t + (v + 1) := by omega
        rw [e] at this
        exact List.mem_cons_of_mem _ (List.mem_cons_of_mem _ this)

theorem mapKeys_eq_liveInit (φ : Nat → Nat) (d : Dict Nat)
    (h : ∀ c x, (Dict.keys d)[c]? = some x → φ x = c) : mapKeys φ d = liveInit (d.map (·.2)) := by
  apply List.ext_getElem
  · simp [mapKeys, liveInit]
  · intro c h1 h2
    simp only [mapKeys, List.length_map] at h1
    have hk : (Dict.keys d)[c]? = some d[c].1 := by
      simp [Dict.keys, h1]
    simp only [mapKeys, liveInit, List.getElem_map, List.getElem_range, List.length_map]
    rw [h c _ hk]
    simp [List.getD_eq_getElem?_getD, h1]

theorem mapM_ok {β γ : Type} (f : β → Except PyErr γ) (g : β → γ) :
    ∀ (l : List β), (∀ x ∈ l, f x = .ok (g x)) → l.mapM f = .ok (l.map g) := by
  intro l
  induction l with
  | nil => intro _; rfl
  | cons a as ih =>
    intro h
    rw [List.mapM_cons, h a List.mem_cons_self, ih (fun x hx => h x (List.mem_cons_of_mem _ hx))]
    rfl


/-! ### the main statement, `n_clusters ≥ 2` -/

theorem idxOf_append_left {a b : List Nat} {x : Nat} (hx : x ∈ a) : (a ++ b).idxOf x = a.idxOf x := by
  induction a with
  | nil => simp at hx
  | cons y ys ih =>
    by_cases e : y = x
    · subst e; simp
    · rcases List.mem_cons.mp hx with h | h
      · exact absurd h.symm e
      · rw [List.cons_append, idxOf_cons_ne' _ _ e, idxOf_cons_ne' _ _ e, ih h]

/-- the leaves of a merge are the leaves of its two children, when these were created before -/
theorem leaves_node {n : Nat} {D : Dendro α} {t : Nat} {r : Row α} (hi : r.i < n + t) (hj : r.j < n + t)
    (h : D[t]? = some r) : leaves n D (n + t) = leaves n D r.i ++ leaves n D r.j := by
  obtain ⟨hD, hl⟩ := split_at h
  have := leaves_row n (D.take t) r (D.drop (t + 1)) (by rw [hl]; exact hi) (by rw [hl]; exact hj)
  rw [← hD, hl] at this
  exact this

/-- in a valid dendrogram the size of a node (1 for a leaf, the size column for a merge) is its number of leaves -/
theorem szW_eq_leaves {n : Nat} {D : Dendro α} (hv : ValidDendro n D = true) {x : Nat} (hx : x < n + D.length) :
    szW (List.replicate n 1) D x = (leaves n D x).length := by
  unfold szW
  simp only [List.length_replicate]
  by_cases hxn : x < n
  · rw [if_pos hxn, leaves_leaf n D hxn]
    simp [List.getD_eq_getElem?_getD, hxn]
  · rw [if_neg hxn]
    have ht : x - n < D.length := by omega
    obtain ⟨hD, hl⟩ := split_at (List.getElem?_eq_getElem ht)
    have hv' : ValidDendro n (D.take (x - n) ++ D[x - n] :: D.drop (x - n + 1)) = true := by rw [← hD]; exact hv
    obtain ⟨_, _, _, _, hsz⟩ := valid_row hv'
    rw [← hD, hl] at hsz
    have e : n + (x - n) = x := by omega
    rw [e] at hsz
    simp [List.getElem?_eq_getElem ht, hsz]

theorem aggregate_ge2 {D : Dendro α} {n k : Nat} (hv : ValidDendro n D = true) (hk2 : 2 ≤ k) (hkn : k ≤ n)
    (cnt : Bool) :
    ∃ out w, aggregateDendrogram D k cnt = .ok out ∧ w.length = k ∧ w.sum = n ∧
      ValidDendroW w out.dendro = true ∧
      out.dendro.map (·.h) = (D.drop (n - k)).map (·.h) ∧ (cnt = true → out.counts = some w) ∧
      w = (liveNodes n D (n - k)).map (fun x => (leaves n D x).length) ∧
      (∀ u, u < k - 1 → ∀ v, v < n → (v ∈ leaves n D (n + (n - k) + u) ↔
        ∃ c ∈ leaves k out.dendro (k + u), v ∈ leaves n D ((liveNodes n D (n - k)).getD c 0))) := by
  have hlen := valid_length hv
  have hs := static_of_valid (w := List.replicate n 1) hv
  have hn1 : (List.replicate n 1).length = n := by simp
  -- the full replay and its state after the first n - k rows
  have hvl : validLoop n 0 D (liveInit (List.replicate n 1)) = true := by
    unfold ValidDendro ValidDendroW at hv
    simp only [Bool.and_eq_true, List.length_replicate] at hv
    exact hv.2
  rw [validLoop_eq_isSome] at hvl
  obtain ⟨Lf, hLf⟩ := Option.isSome_iff_exists.mp hvl
  have hinit : LInv n 0 (liveInit (List.replicate n 1)) := by simpa using linv_init (List.replicate n 1)
  have hm : n - k ≤ D.length := by omega
  obtain ⟨Lm, hLm⟩ := liveAfter_take (n - k) hLf
  have htl : (D.take (n - k)).length = n - k := by simp [Nat.min_eq_left hm]
  have hLmInv : LInv n (n - k) Lm := by
    have := (liveAfter_linv (D.take (n - k)) 0 _ Lm hinit hLm).1
    rwa [htl, Nat.zero_add] at this
  have hLmLen : Lm.length = k := by
    have := (liveAfter_linv (D.take (n - k)) 0 _ Lm hinit hLm).2
    rw [htl] at this
    simp only [liveInit, List.length_map, List.length_range, List.length_replicate] at this
    omega
  obtain ⟨hLmAsc, hLmSum, _, _, _⟩ := liveAfter_facts (D.take (n - k)) 0 _ Lm hinit (ascKeys_init _) hLm
  have hsuf : liveAfter n (n - k) (D.drop (n - k)) Lm = some Lf := by
    have := hLf
    rw [← List.take_append_drop (n - k) D, liveAfter_append, hLm] at this
    simpa [htl] using this
  have hdl : (D.drop (n - k)).length = k - 1 := by simp; omega
  obtain ⟨_, _, g3, g4, g5⟩ := liveAfter_facts (D.drop (n - k)) (n - k) Lm Lf hLmInv hLmAsc hsuf
  -- the last live set is the root alone
  have hLfLen : Lf.length = 1 := by
    have := (liveAfter_linv (D.drop (n - k)) (n - k) Lm Lf hLmInv hsuf).2
    omega
  have hLfInv : LInv n D.length Lf := by
    have := (liveAfter_linv D 0 _ Lf hinit hLf).1
    simpa using this
  have hchildB : ∀ c ∈ childList D, c < 2 * n - 2 := by
    intro c hc
    simp only [childList, List.mem_flatMap] at hc
    obtain ⟨r, hr, hc⟩ := hc
    obtain ⟨t, ht, hrt⟩ := List.getElem_of_mem hr
    have hb := hs.bound t r (by rw [List.getElem?_eq_getElem ht, hrt])
    rw [hn1] at hb
    simp only [List.mem_cons, List.not_mem_nil, or_false] at hc
    rcases hc with e | e <;> omega
  have hroot : ∀ x ∈ Dict.keys Lf, x = 2 * n - 2 := by
    -- the root is alive at the end, and there is a single live cluster
    have hrootin : 2 * n - 2 ∈ Dict.keys Lf := by
      have hc := (live_char (List.replicate n 1) D D.length Lf (Nat.le_refl _) (by simpa using hLf)).2 (2 * n - 2)
      rw [List.take_length, hn1] at hc
      have hnot : 2 * n - 2 ∉ childList D := fun hm => by have := hchildB _ hm; omega
      have hlt : 2 * n - 2 < n + D.length := by omega
      simp only [hlt, hnot, not_false_eq_true, and_self, if_true] at hc
      exact Dict.get?_some_key_mem hc
    intro x hx
    have hk : (Dict.keys Lf).length = 1 := by simp [Dict.keys, hLfLen]
    match hkeys : Dict.keys Lf, hk with
    | [y], _ =>
      rw [hkeys] at hx hrootin
      simp only [List.mem_cons, List.not_mem_nil, or_false] at hx hrootin
      omega
  -- the sorted node set is: the live clusters, then the merges of the suffix but the last
  let ext := Dict.keys Lm
  let ints := (List.range (k - 2)).map fun v => n + (n - k) + v
  have hextlen : ext.length = k := by simp [ext, Dict.keys, hLmLen]
  have hextB : ∀ x ∈ ext, x < n + (n - k) := fun x hx => hLmInv.bound x hx
  have hsufChild : ∀ x, x ∈ ((D.drop (n - k)).map (·.i) ++ (D.drop (n - k)).map (·.j)) ↔
      x ∈ childList (D.drop (n - k)) := by
    intro x
    simp only [childList, List.mem_append, List.mem_map, List.mem_flatMap, List.mem_cons, List.not_mem_nil,
      or_false]
    constructor
    · rintro (⟨r, hr, e⟩ | ⟨r, hr, e⟩)
      · exact ⟨r, hr, Or.inl e.symm⟩
      · exact ⟨r, hr, Or.inr e.symm⟩
    · rintro ⟨r, hr, e | e⟩
      · exact Or.inl ⟨r, hr, e.symm⟩
      · exact Or.inr ⟨r, hr, e.symm⟩
  have hnodes : sortedSet ((D.drop (n - k)).map (·.i) ++ (D.drop (n - k)).map (·.j)) = ext ++ ints := by
    apply sorted_ext _ _ (sortedSet_sorted _)
    · refine List.pairwise_append.mpr ⟨hLmAsc, ?_, ?_⟩
      · rw [List.pairwise_map]
        exact List.pairwise_lt_range.imp (by intro a b h; omega)
      · intro a ha b hb
        obtain ⟨v, _, rfl⟩ := List.mem_map.mp hb
        have := hextB a ha; omega
    · intro x
      rw [mem_sortedSet, hsufChild, List.mem_append]
      constructor
      · intro hx
        have hxD : x ∈ childList D := by
          rw [← List.take_append_drop (n - k) D, childList_append]
          exact List.mem_append_right _ hx
        have hxb := hchildB x hxD
        rcases g5 x hx with h1 | h1
        · exact Or.inl h1
        · refine Or.inr (List.mem_map.mpr ⟨x - (n + (n - k)), ?_, by omega⟩)
          rw [List.mem_range]; omega
      · rintro (hx | hx)
        · refine g3 x hx ?_
          intro hf
          have := hroot x hf
          have := hextB x hx
          omega
        · obtain ⟨v, hv, rfl⟩ := List.mem_map.mp hx
          rw [List.mem_range] at hv
          refine created_consumed (D.drop (n - k)) (n - k) Lm Lf hLmInv hLmAsc hsuf v (by omega) ?_
          intro hf
          have := hroot _ hf
          omega
  -- the renaming
  let φ : Nat → Nat := fun x => (ext ++ ints).idxOf x
  have hnd : (ext ++ ints).Nodup := by
    rw [← hnodes]; exact (sortedSet_sorted _).imp (fun h => Nat.ne_of_lt h)
  have hφext : ∀ c x, ext[c]? = some x → φ x = c := by
    intro c x hc
    have hcl : c < ext.length := (List.getElem?_eq_some_iff.mp hc).1
    exact idxOf_of_getElem hnd (by rw [List.getElem?_append_left hcl]; exact hc)
  have hφint : ∀ v, v < k - 1 → φ (n + (n - k) + v) = k + 0 + v := by
    intro v hv
    by_cases hv2 : v < k - 2
    · have : (ext ++ ints)[k + v]? = some (n + (n - k) + v) := by
        rw [List.getElem?_append_right (by omega), hextlen]
        simp [ints, hv2]
      simpa using idxOf_of_getElem hnd this
    · -- the root is not a node of the set: `idxOf` is the length
      have hv' : v = k - 2 := by omega
      subst hv'
      have hnot : n + (n - k) + (k - 2) ∉ ext ++ ints := by
        intro hmem
        rcases List.mem_append.mp hmem with h1 | h1
        · have := hextB _ h1; omega
        · obtain ⟨v', hv', e⟩ := List.mem_map.mp h1
          rw [List.mem_range] at hv'; omega
      show (ext ++ ints).idxOf _ = _
      rw [List.idxOf_eq_length hnot]
      simp [hextlen, ints]
  have hφinj : ∀ a, (a ∈ Dict.keys Lm ∨ (n + (n - k) ≤ a ∧ a < n + (n - k) + (D.drop (n - k)).length)) →
      ∀ b, (b ∈ Dict.keys Lm ∨ (n + (n - k) ≤ b ∧ b < n + (n - k) + (D.drop (n - k)).length)) →
      φ a = φ b → a = b := by
    -- every such id is a member of the node set, or the root (whose index is the length)
    have hcase : ∀ a, (a ∈ Dict.keys Lm ∨ (n + (n - k) ≤ a ∧ a < n + (n - k) + (D.drop (n - k)).length)) →
        (a ∈ ext ++ ints) ∨ (a = n + (n - k) + (k - 2) ∧ φ a = (ext ++ ints).length) := by
      intro a ha
      rcases ha with ha | ha
      · exact Or.inl (List.mem_append_left _ ha)
      · rw [hdl] at ha
        by_cases hlast : a = n + (n - k) + (k - 2)
        · refine Or.inr ⟨hlast, ?_⟩
          have := hφint (k - 2) (by omega)
          rw [← hlast] at this
          rw [this]; simp [hextlen, ints]
        · refine Or.inl (List.mem_append_right _ (List.mem_map.mpr ⟨a - (n + (n - k)), ?_, by omega⟩))
          rw [List.mem_range]; omega
    intro a ha b hb e
    rcases hcase a ha with h1 | ⟨h1, h1'⟩ <;> rcases hcase b hb with h2 | ⟨h2, h2'⟩
    · exact idxOf_inj h1 h2 e
    · have := List.idxOf_lt_length_of_mem h1
      show a = b
      have e' : (ext ++ ints).idxOf a = (ext ++ ints).length := by rw [← h2']; exact e
      omega
    · have := List.idxOf_lt_length_of_mem h2
      have e' : (ext ++ ints).idxOf b = (ext ++ ints).length := by rw [← h1']; exact e.symm
      omega
    · omega
  have hsim := sim_suffix (n := n) (k := k) φ (D.drop (n - k)) (n - k) 0 Lm Lf hLmInv hsuf hφinj
    (by intro v hv; rw [hdl] at hv; exact hφint v hv)
  rw [mapKeys_eq_liveInit φ Lm hφext] at hsim
  -- the model's output
  let w := Lm.map (·.2)
  have hwlen : w.length = k := by simp [w, hLmLen]
  let newD : Dendro α := (D.drop (n - k)).map fun r => { r with i := φ r.i, j := φ r.j }
  have hcountOf : ∀ x ∈ ext, countOf D n x = .ok (szW (List.replicate n 1) D x) := by
    intro x hx
    have hxb := hextB x hx
    unfold countOf szW
    rw [hn1]
    by_cases hxn : x < n
    · simp [hxn, List.getD_eq_getElem?_getD]
    · simp only [hxn, if_false]
      have : x - n < D.length := by omega
      simp [List.getElem?_eq_getElem this]
  have hwsz : w = ext.map (szW (List.replicate n 1) D) := by
    have hc := (live_char (List.replicate n 1) D (n - k) Lm hm (by rw [hn1]; exact hLm)).2
    apply List.ext_getElem
    · simp [w, ext, Dict.keys]
    · intro c h1 h2
      simp only [w, List.length_map] at h1
      simp only [w, ext, Dict.keys, List.getElem_map]
      have hmem : Lm[c] ∈ Lm := List.getElem_mem h1
      have hg := Dict.mem_get?_of_nodup hLmInv.nodup (k := Lm[c].1) (v := Lm[c].2) hmem
      rw [hc] at hg
      split at hg
      · exact (Option.some.inj hg).symm
      · cases hg
  have hnewValid : ValidDendroW w newD = true := by
    unfold ValidDendroW
    simp only [Bool.and_eq_true, beq_iff_eq]
    refine ⟨by simp [newD, hdl, hwlen]; omega, ?_⟩
    rw [validLoop_eq_isSome, hwlen]
    show (liveAfter k 0 newD (liveInit w)).isSome = true
    rw [hsim]; rfl
  have hnewStatic := static_of_valid hnewValid
  have hc := (live_char (List.replicate n 1) D (n - k) Lm hm (by rw [hn1]; exact hLm)).2
  have hext : ext = liveNodes n D (n - k) := by
    apply sorted_ext _ _ hLmAsc
    · unfold liveNodes
      exact (List.pairwise_lt_range).filter _
    · intro x
      unfold liveNodes
      have hused : ((D.take (n - k)).flatMap fun r => [r.i, r.j]) = childList (D.take (n - k)) := rfl
      simp only [List.mem_filter, List.mem_range, hused]
      have hx := hc x
      rw [hn1] at hx
      constructor
      · intro hm'
        have hsome : ∃ v, Lm.get? x = some v := by
          cases hg : Lm.get? x with
          | none => exact absurd hm' ((Dict.get?_eq_none_iff _ _).mp hg)
          | some v => exact ⟨v, rfl⟩
        obtain ⟨v, hv'⟩ := hsome
        rw [hx] at hv'
        split at hv'
        · rename_i hcond
          refine ⟨hcond.1, ?_⟩
          simpa using hcond.2
        · cases hv'
      · rintro ⟨h1, h2⟩
        have hnot : x ∉ childList (D.take (n - k)) := by simpa using h2
        rw [if_pos ⟨h1, hnot⟩] at hx
        exact Dict.get?_some_key_mem hx
  -- rows of the aggregated dendrogram have the leaves of the last merges
  have htie : ∀ u, u < k - 1 → ∀ v, v < n → (v ∈ leaves n D (n + (n - k) + u) ↔
      ∃ c ∈ leaves k newD (k + u), v ∈ leaves n D (ext.getD c 0)) := by
    intro u
    induction u using Nat.strongRecOn with
    | _ u ih =>
      intro hu v hv'
      have hlt : n - k + u < D.length := by omega
      have hrow : D[n - k + u]? = some D[n - k + u] := List.getElem?_eq_getElem hlt
      generalize hr : D[n - k + u] = r at hrow
      have hrowS : (D.drop (n - k))[u]? = some r := by rw [List.getElem?_drop]; exact hrow
      have hnewRow : newD[u]? = some { r with i := φ r.i, j := φ r.j } := by
        simp only [newD, List.getElem?_map, hrowS, Option.map_some]
      obtain ⟨hbi, hbj, _⟩ := hs.bound (n - k + u) r hrow
      rw [hn1] at hbi hbj
      have hL : leaves n D (n + (n - k + u)) = leaves n D r.i ++ leaves n D r.j := leaves_node hbi hbj hrow
      have hnb := hnewStatic.bound u _ hnewRow
      rw [hwlen] at hnb
      have hR : leaves k newD (k + u) = leaves k newD (φ r.i) ++ leaves k newD (φ r.j) :=
        leaves_node hnb.1 hnb.2.1 hnewRow
      have hchild : ∀ x, (x = r.i ∨ x = r.j) → x < n + (n - k + u) →
          (v ∈ leaves n D x ↔ ∃ c ∈ leaves k newD (φ x), v ∈ leaves n D (ext.getD c 0)) := by
        intro x hx hxb
        have hxc : x ∈ childList (D.drop (n - k)) := by
          simp only [childList, List.mem_flatMap]
          exact ⟨r, List.mem_of_getElem? hrowS, by rcases hx with e | e <;> simp [e]⟩
        rcases g5 x hxc with h1 | ⟨h1, h2⟩
        · obtain ⟨c0, hc0l, hc0⟩ := List.getElem_of_mem h1
          have hφ := hφext c0 x (by rw [List.getElem?_eq_getElem hc0l, hc0])
          rw [hφ, leaves_leaf k newD (by rw [← hextlen]; exact hc0l)]
          have : ext.getD c0 0 = x := by
            rw [List.getD_eq_getElem?_getD, List.getElem?_eq_getElem hc0l, hc0]; rfl
          simp only [List.mem_cons, List.not_mem_nil, or_false, exists_eq_left, this]
        · have hu' : x - (n + (n - k)) < u := by omega
          have hφ := hφint (x - (n + (n - k))) (by omega)
          have ex : n + (n - k) + (x - (n + (n - k))) = x := by omega
          rw [ex] at hφ
          rw [hφ]
          have := ih (x - (n + (n - k))) hu' (by omega) v hv'
          rw [ex] at this
          simpa using this
      have e1 : n + (n - k) + u = n + (n - k + u) := by omega
      rw [e1, hL, hR]
      simp only [List.mem_append]
      rw [hchild r.i (Or.inl rfl) hbi, hchild r.j (Or.inr rfl) hbj]
      constructor
      · rintro (⟨c, hc', h⟩ | ⟨c, hc', h⟩)
        · exact ⟨c, Or.inl hc', h⟩
        · exact ⟨c, Or.inr hc', h⟩
      · rintro ⟨c, hc' | hc', h⟩
        · exact Or.inl ⟨c, hc', h⟩
        · exact Or.inr ⟨c, hc', h⟩
  refine ⟨{ dendro := newD, counts := if cnt then some w else none }, w, ?_, hwlen, ?_, hnewValid, ?_, ?_, ?_, ?_⟩
  · unfold aggregateDendrogram
    have e1 : ¬ (k > D.length + 1) := by omega
    have e2 : ¬ (k < 1) := by omega
    simp only [bind, Except.bind, throw, throwThe, MonadExceptOf.throw, e1, e2, if_false, pure, Except.pure]
    have hD1 : D.length + 1 - k = n - k := by omega
    rw [hD1, hnodes]
    cases cnt with
    | false => simp only [Bool.false_eq_true, if_false]; rfl
    | true =>
      simp only [if_true]
      have hk1 : k > 1 := by omega
      simp only [hk1, if_true]
      have htake : (ext ++ ints).take k = ext := by
        rw [List.take_append_of_le_length (by omega), List.take_of_length_le (by omega)]
      rw [htake]
      have := mapM_ok (countOf D (D.length + 1)) (szW (List.replicate n 1) D) ext
        (by intro x hx; rw [hlen]; exact hcountOf x hx)
      rw [this, ← hwsz]
  · have : w.sum = sumVals Lm := rfl
    rw [this, hLmSum]
    have hrep : (List.range n).map (fun x => (List.replicate n 1).getD x 0) = List.replicate n 1 := by
      apply List.ext_getElem
      · simp
      · intro i h1 h2
        simp only [List.length_map, List.length_range] at h1
        simp [h1, List.getD_eq_getElem?_getD]
    simp only [sumVals, liveInit, List.map_map, Function.comp_def, List.length_replicate]
    rw [hrep]; simp
  · simp [newD, Function.comp_def]
  · intro hc; simp [hc]
  · -- the weights are the leaf counts of the clusters alive after the first n - k merges
    rw [hwsz, ← hext]
    apply List.map_congr_left
    intro x hx
    exact szW_eq_leaves hv (by have := hextB x hx; omega)
  · rw [← hext]; exact htie

/-- the clusters alive after the first `m` merges of a valid dendrogram: their number, their sizes -/
theorem liveNodes_weights {D : Dendro α} {n m : Nat} (hv : ValidDendro n D = true) (hm : m ≤ D.length) :
    (liveNodes n D m).length + m = n ∧
    ((liveNodes n D m).map (fun x => (leaves n D x).length)).sum = n := by
  have hlen := valid_length hv
  have hn1 : (List.replicate n 1).length = n := by simp
  have hvl : validLoop n 0 D (liveInit (List.replicate n 1)) = true := by
    unfold ValidDendro ValidDendroW at hv
    simp only [Bool.and_eq_true, List.length_replicate] at hv
    exact hv.2
  rw [validLoop_eq_isSome] at hvl
  obtain ⟨Lf, hLf⟩ := Option.isSome_iff_exists.mp hvl
  have hinit : LInv n 0 (liveInit (List.replicate n 1)) := by simpa using linv_init (List.replicate n 1)
  obtain ⟨Lm, hLm⟩ := liveAfter_take m hLf
  have htl : (D.take m).length = m := by simp [Nat.min_eq_left hm]
  have hLmInv : LInv n m Lm := by
    have := (liveAfter_linv (D.take m) 0 _ Lm hinit hLm).1
    rwa [htl, Nat.zero_add] at this
  have hLmLen : Lm.length + m = n := by
    have := (liveAfter_linv (D.take m) 0 _ Lm hinit hLm).2
    rw [htl] at this
    simpa [liveInit] using this
  obtain ⟨hLmAsc, hLmSum, _, _, _⟩ := liveAfter_facts (D.take m) 0 _ Lm hinit (ascKeys_init _) hLm
  have hc := (live_char (List.replicate n 1) D m Lm hm (by rw [hn1]; exact hLm)).2
  have hext : Dict.keys Lm = liveNodes n D m := by
    apply sorted_ext _ _ hLmAsc
    · unfold liveNodes
      exact (List.pairwise_lt_range).filter _
    · intro x
      unfold liveNodes
      have hused : ((D.take m).flatMap fun r => [r.i, r.j]) = childList (D.take m) := rfl
      simp only [List.mem_filter, List.mem_range, hused]
      have hx := hc x
      rw [hn1] at hx
      constructor
      · intro hm'
        have hsome : ∃ v, Lm.get? x = some v := by
          cases hg : Lm.get? x with
          | none => exact absurd hm' ((Dict.get?_eq_none_iff _ _).mp hg)
          | some v => exact ⟨v, rfl⟩
        obtain ⟨v, hv'⟩ := hsome
        rw [hx] at hv'
        split at hv'
        · rename_i hcond
          refine ⟨hcond.1, ?_⟩
          simpa using hcond.2
        · cases hv'
      · rintro ⟨h1, h2⟩
        have hnot : x ∉ childList (D.take m) := by simpa using h2
        rw [if_pos ⟨h1, hnot⟩] at hx
        exact Dict.get?_some_key_mem hx
  have hvals : Lm.map (·.2) = (liveNodes n D m).map (fun x => (leaves n D x).length) := by
    rw [← hext]
    apply List.ext_getElem
    · simp [Dict.keys]
    · intro c h1 h2
      simp only [List.length_map] at h1
      simp only [Dict.keys, List.getElem_map]
      have hmem : Lm[c] ∈ Lm := List.getElem_mem h1
      have hg := Dict.mem_get?_of_nodup hLmInv.nodup (k := Lm[c].1) (v := Lm[c].2) hmem
      rw [hc] at hg
      split at hg
      · rename_i hcond
        rw [hn1] at hcond
        rw [← szW_eq_leaves hv (by have := hcond.1; omega)]
        exact (Option.some.inj hg).symm
      · cases hg
  constructor
  · rw [← hext]; simpa [Dict.keys] using hLmLen
  · rw [← hvals]
    have : (Lm.map (·.2)).sum = sumVals Lm := rfl
    rw [this, hLmSum]
    have hrep : (List.range n).map (fun x => (List.replicate n 1).getD x 0) = List.replicate n 1 := by
      apply List.ext_getElem
      · simp
      · intro i h1 h2
        simp only [List.length_map, List.length_range] at h1
        simp [h1, List.getD_eq_getElem?_getD]
    simp only [sumVals, liveInit, List.map_map, Function.comp_def, List.length_replicate]
    rw [hrep]; simp

end SkNet.Cut
