/-
Soundness of the index-kind checker of the kernel IR (property C17, `kinds_sound`).

`Sat Γ σ`  : the state respects the declared kinds — every variable lies in its kind, every fixed array
             has at least its declared number of cells, every stored element lies in the element kind.
`kinds_sound` : if `check Γ ill [] body = true` and the initial state satisfies `Γ`, then for every
             step budget and every oracle (floating comparisons, container orders, `rand()`), the
             interpreter never reports an out-of-bounds access at a site outside `ill`.
-/
import SkNet.Model.KernelIR

namespace SkNet.IR

/-! ### what kinds mean -/

def Kind.mem (dims : Nat → Nat) (k : Kind) (v : Int) : Prop :=
  (∀ c, k.lo = some c → c ≤ v) ∧ (∀ d c, k.hi = some (d, c) → v < (dims d : Int) + c)

structure Sat (Γ : Env) (σ : State) : Prop where
  dim0 : σ.dims 0 = 0
  vars : ∀ x v, σ.vars x = some v → (Γ.var x).mem σ.dims v
  size : ∀ a d c, (Γ.arr a).size = some (d, c) → (σ.dims d : Int) + c ≤ ((σ.arrs a).length : Int)
  elem : ∀ a v, v ∈ σ.arrs a → (Γ.arr a).elem.mem σ.dims v

def FactsHold (σ : State) (F : Facts) : Prop :=
  ∀ p ∈ F, ∃ u v, σ.vars p.1 = some u ∧ evalE σ p.2 = .ok v ∧ u < v

/-- an error is acceptable: out of bounds only at a waived site (reads of unassigned variables are a
    different class of failure, not judged by the kinds) -/
def Err.okFor (ill : List Nat) : Err → Prop
  | .oob s => s ∈ ill
  | .uninit _ => True

theorem Kind.any_mem (dims : Nat → Nat) (v : Int) : Kind.any.mem dims v := by
  constructor <;> intro _ <;> simp [Kind.any]

theorem Kind.sub_sound {dims : Nat → Nat} (h0 : dims 0 = 0) {k1 k2 : Kind} {v : Int}
    (hs : k1.sub k2 = true) (hm : k1.mem dims v) : k2.mem dims v := by
  obtain ⟨lo1, hi1⟩ := k1
  obtain ⟨lo2, hi2⟩ := k2
  obtain ⟨hlo, hhi⟩ := hm
  simp only [Kind.sub, Bool.and_eq_true] at hs
  obtain ⟨h1, h2⟩ := hs
  constructor
  · intro c hc
    simp only at hc
    subst hc
    cases lo1 with
    | none => simp at h1
    | some a =>
      simp only [decide_eq_true_eq] at h1
      have := hlo a rfl
      omega
  · intro d c hc
    simp only at hc
    subst hc
    cases hi1 with
    | none => simp at h2
    | some p =>
      obtain ⟨d1, a⟩ := p
      simp only [Bool.and_eq_true, Bool.or_eq_true, beq_iff_eq, decide_eq_true_eq] at h2
      have := hhi d1 a rfl
      rcases h2 with ⟨hd | hd, hle⟩
      · subst hd; omega
      · subst hd; rw [h0] at this; omega

theorem Kind.ofConst_mem (dims : Nat → Nat) (h0 : dims 0 = 0) (c : Int) : (Kind.ofConst c).mem dims c := by
  constructor
  · intro a ha
    simp only [Kind.ofConst, Option.some.injEq] at ha
    omega
  · intro d a ha
    simp only [Kind.ofConst, Option.some.injEq, Prod.mk.injEq] at ha
    obtain ⟨hd, ha⟩ := ha
    subst hd; subst ha
    rw [h0]; omega

theorem Kind.addK_mem {dims : Nat → Nat} (h0 : dims 0 = 0) {k1 k2 : Kind} {x y : Int}
    (h1 : k1.mem dims x) (h2 : k2.mem dims y) : (k1.addK k2).mem dims (x + y) := by
  obtain ⟨lo1, hi1⟩ := k1
  obtain ⟨lo2, hi2⟩ := k2
  obtain ⟨hl1, hh1⟩ := h1
  obtain ⟨hl2, hh2⟩ := h2
  constructor
  · intro c hc
    cases lo1 <;> cases lo2 <;> simp only [Kind.addK, Option.some.injEq, reduceCtorEq] at hc
    rename_i a b
    have := hl1 a rfl
    have := hl2 b rfl
    omega
  · intro d c hc
    cases hi1 <;> cases hi2 <;> simp only [Kind.addK, reduceCtorEq] at hc
    rename_i p q
    obtain ⟨d1, c1⟩ := p
    obtain ⟨d2, c2⟩ := q
    have e1 := hh1 d1 c1 rfl
    have e2 := hh2 d2 c2 rfl
    simp only at hc
    by_cases hd2 : d2 = 0
    · simp only [hd2, if_true, Option.some.injEq, Prod.mk.injEq] at hc
      obtain ⟨rfl, rfl⟩ := hc
      subst hd2; rw [h0] at e2; omega
    · by_cases hd1 : d1 = 0
      · simp only [hd2, hd1, if_true, if_false, Option.some.injEq, Prod.mk.injEq] at hc
        obtain ⟨rfl, rfl⟩ := hc
        subst hd1; rw [h0] at e1; omega
      · simp [hd2, hd1] at hc

theorem Kind.subK_mem {dims : Nat → Nat} (h0 : dims 0 = 0) {k1 k2 : Kind} {x y : Int}
    (h1 : k1.mem dims x) (h2 : k2.mem dims y) : (k1.subK k2).mem dims (x - y) := by
  obtain ⟨lo1, hi1⟩ := k1
  obtain ⟨lo2, hi2⟩ := k2
  obtain ⟨hl1, hh1⟩ := h1
  obtain ⟨hl2, hh2⟩ := h2
  constructor
  · intro c hc
    cases lo1 <;> cases hi2 <;> simp only [Kind.subK, reduceCtorEq] at hc
    rename_i a q
    obtain ⟨d2, c2⟩ := q
    simp only at hc
    by_cases hd2 : d2 = 0
    · simp only [hd2, if_true, Option.some.injEq] at hc
      have := hl1 a rfl
      have e2 := hh2 d2 c2 rfl
      subst hd2; rw [h0] at e2; omega
    · simp [hd2] at hc
  · intro d c hc
    cases hi1 <;> cases lo2 <;> simp only [Kind.subK, reduceCtorEq] at hc
    rename_i p b
    obtain ⟨d1, c1⟩ := p
    simp only [Option.some.injEq, Prod.mk.injEq] at hc
    obtain ⟨rfl, rfl⟩ := hc
    have := hh1 d1 c1 rfl
    have := hl2 b rfl
    omega

/-! ### expressions -/

theorem inb_spec {v : Int} {l : List Int} (h : inb v l = true) : 0 ≤ v ∧ v.toNat < l.length := by
  simp only [inb, Bool.and_eq_true, decide_eq_true_eq] at h
  omega

theorem getD_mem_of_inb {v : Int} {l : List Int} (h : inb v l = true) : l.getD v.toNat 0 ∈ l := by
  have := (inb_spec h).2
  rw [List.getD_eq_getElem?_getD, List.getElem?_eq_getElem this]
  simp

theorem kindOf_sound {Γ : Env} {σ : State} (hs : Sat Γ σ) :
    ∀ (e : Expr) (v : Int), evalE σ e = .ok v → (kindOf Γ e).mem σ.dims v := by
  intro e
  induction e with
  | const c =>
    intro v h
    simp only [evalE, Except.ok.injEq] at h
    subst h
    exact Kind.ofConst_mem _ hs.dim0 c
  | var x =>
    intro v h
    simp only [evalE] at h
    cases hx : σ.vars x with
    | none => simp [hx] at h
    | some w =>
      simp only [hx, Except.ok.injEq] at h
      subst h
      exact hs.vars x w hx
  | dim d =>
    intro v h
    simp only [evalE, Except.ok.injEq] at h
    subst h
    constructor
    · intro c hc
      simp only [kindOf, Option.some.injEq] at hc
      omega
    · intro d' c hc
      simp only [kindOf, Option.some.injEq, Prod.mk.injEq] at hc
      obtain ⟨rfl, rfl⟩ := hc
      omega
  | size a =>
    intro v h
    simp only [evalE, Except.ok.injEq] at h
    subst h
    constructor
    · intro c hc
      simp only [kindOf, Kind.nonneg, Option.some.injEq] at hc
      omega
    · intro d' c hc
      simp [kindOf, Kind.nonneg] at hc
  | load s a i _ =>
    intro v h
    simp only [evalE] at h
    cases hi : evalE σ i with
    | error e => simp [hi] at h
    | ok iv =>
      simp only [hi] at h
      by_cases hb : inb iv (σ.arrs a) = true
      · simp only [hb, if_true, Except.ok.injEq] at h
        subst h
        exact hs.elem a _ (getD_mem_of_inb hb)
      · simp [hb] at h
  | add a b iha ihb =>
    intro v h
    simp only [evalE] at h
    cases ha : evalE σ a with
    | error e => simp [ha] at h
    | ok x =>
      cases hb : evalE σ b with
      | error e => simp [ha, hb] at h
      | ok y =>
        simp only [ha, hb, Except.ok.injEq] at h
        subst h
        exact Kind.addK_mem hs.dim0 (iha x ha) (ihb y hb)
  | sub a b iha ihb =>
    intro v h
    simp only [evalE] at h
    cases ha : evalE σ a with
    | error e => simp [ha] at h
    | ok x =>
      cases hb : evalE σ b with
      | error e => simp [ha, hb] at h
      | ok y =>
        simp only [ha, hb, Except.ok.injEq] at h
        subst h
        exact Kind.subK_mem hs.dim0 (iha x ha) (ihb y hb)

theorem idxKind_sound {Γ : Env} {σ : State} {F : Facts} (hs : Sat Γ σ) (hF : FactsHold σ F)
    (i : Expr) (v : Int) (h : evalE σ i = .ok v) : (idxKind Γ F i).mem σ.dims v := by
  have base := kindOf_sound hs i v h
  unfold idxKind
  cases i with
  | var x =>
    simp only
    cases hk : (kindOf Γ (.var x)).hi with
    | some _ => simpa using base
    | none =>
      simp only
      cases hf : F.find? (fun p => p.1 == x && ((kindOf Γ p.2).hi).isSome) with
      | none => simpa using base
      | some p =>
        simp only
        cases hp : (kindOf Γ p.2).hi with
        | none => simpa using base
        | some q =>
          obtain ⟨d, c⟩ := q
          simp only
          have hmem := List.mem_of_find?_eq_some hf
          have hprop := List.find?_some hf
          simp only [Bool.and_eq_true, beq_iff_eq] at hprop
          obtain ⟨u, w, hu, hw, hlt⟩ := hF p hmem
          have hkw := kindOf_sound hs p.2 w hw
          have hwb := hkw.2 d c hp
          simp only [evalE] at h
          rw [hprop.1] at hu
          simp only [hu, Except.ok.injEq] at h
          subst h
          constructor
          · intro c' hc'
            exact base.1 c' hc'
          · intro d' c' hc'
            simp only [Option.some.injEq, Prod.mk.injEq] at hc'
            obtain ⟨rfl, rfl⟩ := hc'
            omega
  | const c => simpa using base
  | dim d => simpa using base
  | size a => simpa using base
  | load s a i => simpa using base
  | add a b => simpa using base
  | sub a b => simpa using base

theorem idxOk_sound {Γ : Env} {σ : State} {F : Facts} (hs : Sat Γ σ) (hF : FactsHold σ F)
    {a : Nat} {i : Expr} {v : Int} (hok : idxOk Γ F a i = true) (h : evalE σ i = .ok v) :
    inb v (σ.arrs a) = true := by
  have hk := idxKind_sound hs hF i v h
  unfold idxOk at hok
  generalize idxKind Γ F i = k at hk hok
  obtain ⟨lo, hi⟩ := k
  cases lo with
  | none => simp at hok
  | some l =>
    cases hi with
    | none => simp at hok
    | some p =>
      obtain ⟨d, c⟩ := p
      cases hsz : (Γ.arr a).size with
      | none => simp [hsz] at hok
      | some q =>
        obtain ⟨d', c'⟩ := q
        simp only [hsz, Bool.and_eq_true, decide_eq_true_eq, Bool.or_eq_true, beq_iff_eq] at hok
        obtain ⟨⟨hl, hd⟩, hc⟩ := hok
        have h1 := hk.1 l rfl
        have h2 := hk.2 d c rfl
        have h3 := hs.size a d' c' hsz
        simp only [inb, Bool.and_eq_true, decide_eq_true_eq]
        rcases hd with hd | hd
        · subst hd; omega
        · subst hd; rw [hs.dim0] at h2; omega

theorem exprOk_sound {Γ : Env} {σ : State} {F : Facts} {ill : List Nat} (hs : Sat Γ σ) (hF : FactsHold σ F) :
    ∀ (e : Expr) (s : Err), exprOk Γ ill F e = true → evalE σ e = .error s → s.okFor ill := by
  intro e
  induction e with
  | const c => intro s _ h; simp [evalE] at h
  | var x =>
    intro s _ h
    simp only [evalE] at h
    cases hx : σ.vars x with
    | none =>
      simp only [hx, Except.error.injEq] at h
      subst h
      trivial
    | some w => simp [hx] at h
  | dim d => intro s _ h; simp [evalE] at h
  | size a => intro s _ h; simp [evalE] at h
  | load st a i ih =>
    intro s hok h
    simp only [exprOk, Bool.and_eq_true, Bool.or_eq_true] at hok
    simp only [evalE] at h
    cases hi : evalE σ i with
    | error e =>
      simp only [hi, Except.error.injEq] at h
      subst h
      exact ih e hok.1 hi
    | ok iv =>
      simp only [hi] at h
      by_cases hb : inb iv (σ.arrs a) = true
      · simp [hb] at h
      · simp only [hb, Bool.false_eq_true, if_false, Except.error.injEq] at h
        subst h
        rcases hok.2 with h2 | h2
        · exact absurd (idxOk_sound hs hF h2 hi) hb
        · exact (by simpa using h2 : st ∈ ill)
  | add a b iha ihb =>
    intro s hok h
    simp only [exprOk, Bool.and_eq_true] at hok
    simp only [evalE] at h
    cases ha : evalE σ a with
    | error e =>
      simp only [ha, Except.error.injEq] at h
      subst h
      exact iha e hok.1 ha
    | ok x =>
      cases hb : evalE σ b with
      | error e =>
        simp only [ha, hb, Except.error.injEq] at h
        subst h
        exact ihb e hok.2 hb
      | ok y => simp [ha, hb] at h
  | sub a b iha ihb =>
    intro s hok h
    simp only [exprOk, Bool.and_eq_true] at hok
    simp only [evalE] at h
    cases ha : evalE σ a with
    | error e =>
      simp only [ha, Except.error.injEq] at h
      subst h
      exact iha e hok.1 ha
    | ok x =>
      cases hb : evalE σ b with
      | error e =>
        simp only [ha, hb, Except.error.injEq] at h
        subst h
        exact ihb e hok.2 hb
      | ok y => simp [ha, hb] at h

theorem cmp2_err {Γ : Env} {σ : State} {F : Facts} {ill : List Nat} (hs : Sat Γ σ) (hF : FactsHold σ F)
    {a b : Expr} {f : Int → Int → Bool} {s : Err}
    (ha : exprOk Γ ill F a = true) (hb : exprOk Γ ill F b = true) (h : cmp2 σ a b f = .error s) : s.okFor ill := by
  unfold cmp2 at h
  cases hx : evalE σ a with
  | error e =>
    simp only [hx, Except.error.injEq] at h
    subst h
    exact exprOk_sound hs hF a e ha hx
  | ok x =>
    cases hy : evalE σ b with
    | error e =>
      simp only [hx, hy, Except.error.injEq] at h
      subst h
      exact exprOk_sound hs hF b e hb hy
    | ok y => simp [hx, hy] at h

theorem condOk_sound {Γ : Env} {σ : State} {F : Facts} {ill : List Nat} (hs : Sat Γ σ) (hF : FactsHold σ F) :
    ∀ (c : Cond) (s : Err), condOk Γ ill F c = true → evalC σ c = .error s → s.okFor ill := by
  intro c
  induction c with
  | lt a b =>
    intro s hok h
    simp only [condOk, Bool.and_eq_true] at hok
    exact cmp2_err hs hF hok.1 hok.2 h
  | le a b =>
    intro s hok h
    simp only [condOk, Bool.and_eq_true] at hok
    exact cmp2_err hs hF hok.1 hok.2 h
  | eq a b =>
    intro s hok h
    simp only [condOk, Bool.and_eq_true] at hok
    exact cmp2_err hs hF hok.1 hok.2 h
  | ne a b =>
    intro s hok h
    simp only [condOk, Bool.and_eq_true] at hok
    exact cmp2_err hs hF hok.1 hok.2 h
  | nondet k => intro s _ h; simp [evalC] at h
  | acc st a i rest ih =>
    intro s hok h
    simp only [condOk, Bool.and_eq_true, Bool.or_eq_true] at hok
    simp only [evalC] at h
    cases hi : evalE σ i with
    | error e =>
      simp only [hi, Except.error.injEq] at h
      subst h
      exact exprOk_sound hs hF i e hok.1.1 hi
    | ok iv =>
      simp only [hi] at h
      by_cases hb : inb iv (σ.arrs a) = true
      · simp only [hb, if_true] at h
        exact ih s hok.2 h
      · simp only [hb, Bool.false_eq_true, if_false, Except.error.injEq] at h
        subst h
        rcases hok.1.2 with h2 | h2
        · exact absurd (idxOk_sound hs hF h2 hi) hb
        · exact (by simpa using h2 : st ∈ ill)
  | and c d ihc ihd =>
    intro s hok h
    simp only [condOk, Bool.and_eq_true] at hok
    simp only [evalC] at h
    cases hc : evalC σ c with
    | error e =>
      simp only [hc, Except.error.injEq] at h
      subst h
      exact ihc e hok.1 hc
    | ok b =>
      cases b with
      | false => simp [hc] at h
      | true =>
        simp only [hc] at h
        exact ihd s hok.2 h
  | or c d ihc ihd =>
    intro s hok h
    simp only [condOk, Bool.and_eq_true] at hok
    simp only [evalC] at h
    cases hc : evalC σ c with
    | error e =>
      simp only [hc, Except.error.injEq] at h
      subst h
      exact ihc e hok.1 hc
    | ok b =>
      cases b with
      | true => simp [hc] at h
      | false =>
        simp only [hc] at h
        exact ihd s hok.2 h
  | not c ih =>
    intro s hok h
    simp only [condOk] at hok
    simp only [evalC] at h
    cases hc : evalC σ c with
    | error e =>
      simp only [hc, Except.error.injEq] at h
      subst h
      exact ih e hok hc
    | ok b => simp [hc] at h

theorem condFacts_sound {σ : State} : ∀ (c : Cond), evalC σ c = .ok true → FactsHold σ (condFacts c) := by
  intro c
  induction c with
  | lt a b =>
    intro h
    cases a with
    | var x =>
      intro p hp
      simp only [condFacts, List.mem_singleton] at hp
      subst hp
      simp only [evalC, cmp2, evalE] at h
      cases hx : σ.vars x with
      | none => simp [hx] at h
      | some u =>
        cases hb : evalE σ b with
        | error e => simp [hx, hb] at h
        | ok y =>
          simp only [hx, hb, Except.ok.injEq, decide_eq_true_eq] at h
          exact ⟨u, y, rfl, rfl, h⟩
    | const c => intro p hp; simp [condFacts] at hp
    | dim d => intro p hp; simp [condFacts] at hp
    | size a => intro p hp; simp [condFacts] at hp
    | load s a i => intro p hp; simp [condFacts] at hp
    | add a b => intro p hp; simp [condFacts] at hp
    | sub a b => intro p hp; simp [condFacts] at hp
  | le a b => intro _ p hp; simp [condFacts] at hp
  | eq a b => intro _ p hp; simp [condFacts] at hp
  | ne a b => intro _ p hp; simp [condFacts] at hp
  | nondet k => intro _ p hp; simp [condFacts] at hp
  | acc s a i rest _ => intro _ p hp; simp [condFacts] at hp
  | and c d ihc ihd =>
    intro h p hp
    simp only [condFacts, List.mem_append] at hp
    simp only [evalC] at h
    cases hc : evalC σ c with
    | error e => simp [hc] at h
    | ok b =>
      cases b with
      | false => simp [hc] at h
      | true =>
        simp only [hc] at h
        rcases hp with hp | hp
        · exact ihc hc p hp
        · exact ihd h p hp
  | or c d _ _ => intro _ p hp; simp [condFacts] at hp
  | not c _ => intro _ p hp; simp [condFacts] at hp

/-! ### frame lemmas -/

theorem evalE_setVar (σ : State) (y : Nat) (w : Int) :
    ∀ (e : Expr), e.usesVar y = false → evalE (σ.setVar y w) e = evalE σ e := by
  intro e
  induction e with
  | const c => intro _; rfl
  | var x =>
    intro h
    simp only [Expr.usesVar, beq_eq_false_iff_ne, ne_eq] at h
    simp [evalE, State.setVar, h]
  | dim d => intro _; rfl
  | size a => intro _; rfl
  | load s a i ih =>
    intro h
    simp only [Expr.usesVar] at h
    simp only [evalE, ih h]
    rfl
  | add a b iha ihb =>
    intro h
    simp only [Expr.usesVar, Bool.or_eq_false_iff] at h
    simp only [evalE, iha h.1, ihb h.2]
  | sub a b iha ihb =>
    intro h
    simp only [Expr.usesVar, Bool.or_eq_false_iff] at h
    simp only [evalE, iha h.1, ihb h.2]

theorem evalE_setArr (σ : State) (b : Nat) (l : List Int) :
    ∀ (e : Expr), e.usesArr b = false → evalE (σ.setArr b l) e = evalE σ e := by
  intro e
  induction e with
  | const c => intro _; rfl
  | var x => intro _; rfl
  | dim d => intro _; rfl
  | size a =>
    intro h
    simp only [Expr.usesArr, beq_eq_false_iff_ne, ne_eq] at h
    simp [evalE, State.setArr, h]
  | load s a i ih =>
    intro h
    simp only [Expr.usesArr, Bool.or_eq_false_iff, beq_eq_false_iff_ne, ne_eq] at h
    simp only [evalE, ih h.2]
    simp [State.setArr, h.1]
  | add x y iha ihb =>
    intro h
    simp only [Expr.usesArr, Bool.or_eq_false_iff] at h
    simp only [evalE, iha h.1, ihb h.2]
  | sub x y iha ihb =>
    intro h
    simp only [Expr.usesArr, Bool.or_eq_false_iff] at h
    simp only [evalE, iha h.1, ihb h.2]

theorem evalE_step (σ : State) : ∀ (e : Expr), evalE σ.step e = evalE σ e := by
  intro e
  induction e with
  | const c => rfl
  | var x => rfl
  | dim d => rfl
  | size a => rfl
  | load s a i ih => simp only [evalE, ih]; rfl
  | add a b iha ihb => simp only [evalE, iha, ihb]
  | sub a b iha ihb => simp only [evalE, iha, ihb]

theorem FactsHold.nil (σ : State) : FactsHold σ [] := by
  intro p hp; simp at hp

theorem FactsHold.append {σ : State} {F G : Facts} (hF : FactsHold σ F) (hG : FactsHold σ G) :
    FactsHold σ (F ++ G) := by
  intro p hp
  rcases List.mem_append.1 hp with h | h
  · exact hF p h
  · exact hG p h

theorem FactsHold.step {σ : State} {F : Facts} (hF : FactsHold σ F) : FactsHold σ.step F := by
  intro p hp
  obtain ⟨u, v, hu, hv, hlt⟩ := hF p hp
  exact ⟨u, v, hu, by rw [evalE_step]; exact hv, hlt⟩

theorem FactsHold.killVar {σ : State} {F : Facts} (hF : FactsHold σ F) (y : Nat) (w : Int) :
    FactsHold (σ.setVar y w) (F.killVar y) := by
  intro p hp
  simp only [Facts.killVar, List.mem_filter, Bool.not_eq_true', Bool.or_eq_false_iff,
    beq_eq_false_iff_ne, ne_eq] at hp
  obtain ⟨hmem, hne, huse⟩ := hp
  obtain ⟨u, v, hu, hv, hlt⟩ := hF p hmem
  refine ⟨u, v, ?_, by rw [evalE_setVar _ _ _ _ huse]; exact hv, hlt⟩
  simp [State.setVar, hne, hu]

theorem FactsHold.killArr {σ : State} {F : Facts} (hF : FactsHold σ F) (a : Nat) (l : List Int) :
    FactsHold (σ.setArr a l) (F.killArr a) := by
  intro p hp
  simp only [Facts.killArr, List.mem_filter, Bool.not_eq_true'] at hp
  obtain ⟨hmem, huse⟩ := hp
  obtain ⟨u, v, hu, hv, hlt⟩ := hF p hmem
  exact ⟨u, v, hu, by rw [evalE_setArr _ _ _ _ huse]; exact hv, hlt⟩

theorem Sat.step {Γ : Env} {σ : State} (hs : Sat Γ σ) : Sat Γ σ.step :=
  ⟨hs.dim0, hs.vars, hs.size, hs.elem⟩

theorem Sat.setVar {Γ : Env} {σ : State} (hs : Sat Γ σ) (x : Nat) (v : Int)
    (hv : (Γ.var x).mem σ.dims v) : Sat Γ (σ.setVar x v) := by
  refine ⟨hs.dim0, ?_, hs.size, hs.elem⟩
  intro y w hw
  by_cases hy : y = x
  · subst hy
    simp only [State.setVar, if_true, Option.some.injEq] at hw
    subst hw
    exact hv
  · simp only [State.setVar, hy, if_false] at hw
    exact hs.vars y w hw

theorem Sat.setArr {Γ : Env} {σ : State} (hs : Sat Γ σ) (a : Nat) (l : List Int)
    (hsize : ∀ d c, (Γ.arr a).size = some (d, c) → (σ.dims d : Int) + c ≤ (l.length : Int))
    (helem : ∀ v, v ∈ l → (Γ.arr a).elem.mem σ.dims v) : Sat Γ (σ.setArr a l) := by
  refine ⟨hs.dim0, hs.vars, ?_, ?_⟩
  · intro b d c hb
    by_cases hba : b = a
    · subst hba
      simpa [State.setArr] using hsize d c hb
    · simpa [State.setArr, hba] using hs.size b d c hb
  · intro b v hv
    by_cases hba : b = a
    · subst hba
      simp only [State.setArr, if_true] at hv
      exact helem v hv
    · simp only [State.setArr, hba, if_false] at hv
      exact hs.elem b v hv

/-! ### the main invariant -/

/-- what a result must satisfy: a normal state keeps the kinds (and the surviving facts, and the
    dimensions), an out-of-bounds report is at a waived site -/
def Good (Γ : Env) (ill : List Nat) (σ : State) (F' : Facts) : Res → Prop
  | .ok σ' => Sat Γ σ' ∧ FactsHold σ' F' ∧ σ'.dims = σ.dims
  | .err e => e.okFor ill
  | .done => True
  | .fuel => True

theorem rangeOk_sound {Γ : Env} {σ : State} (hs : Sat Γ σ) {x : Nat} {lo hi : Expr} {l h : Int}
    (hok : rangeOk Γ x lo hi = true) (hl : evalE σ lo = .ok l) (hh : evalE σ hi = .ok h)
    (cur : Int) (h1 : l ≤ cur) (h2 : cur < h) : (Γ.var x).mem σ.dims cur := by
  have kl := kindOf_sound hs lo l hl
  have kh := kindOf_sound hs hi h hh
  simp only [rangeOk, Bool.and_eq_true] at hok
  obtain ⟨ha, hb⟩ := hok
  constructor
  · intro c hc
    rw [hc] at ha
    cases hlo : (kindOf Γ lo).lo with
    | none => simp [hlo] at ha
    | some a =>
      simp only [hlo, decide_eq_true_eq] at ha
      have := kl.1 a hlo
      omega
  · intro d c hc
    rw [hc] at hb
    cases hhi : (kindOf Γ hi).hi with
    | none => simp [hhi] at hb
    | some p =>
      obtain ⟨d1, a⟩ := p
      simp only [hhi, Bool.and_eq_true, Bool.or_eq_true, beq_iff_eq, decide_eq_true_eq] at hb
      have := kh.2 d1 a hhi
      rcases hb with ⟨hd | hd, hle⟩
      · subst hd; omega
      · subst hd; rw [hs.dim0] at this; omega

theorem iter_sound {Γ : Env} {ill : List Nat} (stepf : State → Res) (x : Nat) (dims : Nat → Nat)
    (hstep : ∀ σ, Sat Γ σ → σ.dims = dims → ∃ F', Good Γ ill σ F' (stepf σ)) :
    ∀ (k : Nat) (cur : Int) (σ : State), Sat Γ σ → σ.dims = dims →
      (∀ c, cur ≤ c → c < cur + k → (Γ.var x).mem dims c) →
      Good Γ ill σ [] (iter stepf x k cur σ) := by
  intro k
  induction k with
  | zero =>
    intro cur σ hs _ _
    exact ⟨hs, FactsHold.nil _, rfl⟩
  | succ k ih =>
    intro cur σ hs hd hx
    simp only [iter]
    have hs' : Sat Γ (σ.setVar x cur) := hs.setVar x cur (by rw [hd]; exact hx cur (by omega) (by omega))
    obtain ⟨F', hg⟩ := hstep (σ.setVar x cur) hs' hd
    cases hr : stepf (σ.setVar x cur) with
    | ok σ' =>
      rw [hr] at hg
      obtain ⟨hs2, _, hd2⟩ := hg
      have hd3 : σ'.dims = dims := by rw [hd2]; exact hd
      have := ih (cur + 1) σ' hs2 hd3 (fun c h1 h2 => hx c (by omega) (by omega))
      simp only
      cases hr2 : iter stepf x k (cur + 1) σ' with
      | ok σ'' =>
        rw [hr2] at this
        obtain ⟨a, b, c⟩ := this
        exact ⟨a, b, by rw [c, hd2]; rfl⟩
      | err e => rw [hr2] at this; exact this
      | done => trivial
      | fuel => trivial
    | err e => rw [hr] at hg; exact hg
    | done => trivial
    | fuel => trivial

theorem exec_sound (Γ : Env) (ill : List Nat) :
    ∀ (fuel : Nat) (s : Stmt) (σ : State) (F : Facts), Sat Γ σ → FactsHold σ F → check Γ ill F s = true →
      Good Γ ill σ (post F s) (exec fuel s σ) := by
  intro fuel
  induction fuel with
  | zero => intro s σ F _ _ _; simp [exec, Good]
  | succ f ih =>
    intro s σ F hs hF hc
    cases s with
    | skip => exact ⟨hs, hF, rfl⟩
    | seq s t =>
      simp only [check, Bool.and_eq_true] at hc
      simp only [exec]
      have h1 := ih s σ F hs hF hc.1
      cases hr : exec f s σ with
      | ok σ' =>
        rw [hr] at h1
        obtain ⟨hs', hF', hd'⟩ := h1
        have h2 := ih t σ' (post F s) hs' hF' hc.2
        simp only [post]
        cases hr2 : exec f t σ' with
        | ok σ'' =>
          rw [hr2] at h2
          obtain ⟨a, b, c⟩ := h2
          exact ⟨a, b, by rw [c, hd']⟩
        | err e => rw [hr2] at h2; exact h2
        | done => trivial
        | fuel => trivial
      | err e => rw [hr] at h1; exact h1
      | done => trivial
      | fuel => trivial
    | assign x e =>
      simp only [check, Bool.and_eq_true] at hc
      simp only [exec]
      cases he : evalE σ e with
      | error st => exact exprOk_sound hs hF e st hc.1 he
      | ok v =>
        have hk := Kind.sub_sound hs.dim0 hc.2 (kindOf_sound hs e v he)
        exact ⟨hs.setVar x v hk, hF.killVar x v, rfl⟩
    | havoc x =>
      simp only [check] at hc
      simp only [exec]
      have hk := Kind.sub_sound hs.dim0 hc (Kind.any_mem σ.dims (σ.orc σ.tick 0))
      exact ⟨(hs.setVar x _ hk).step, (hF.killVar x _).step, rfl⟩
    | pick x a =>
      simp only [check] at hc
      simp only [exec]
      cases hg : (σ.arrs a)[(σ.orc σ.tick 0).toNat % (σ.arrs a).length]? with
      | none => trivial
      | some v =>
        have hm : v ∈ σ.arrs a := List.mem_of_getElem? hg
        have hk := Kind.sub_sound hs.dim0 hc (hs.elem a v hm)
        exact ⟨(hs.setVar x v hk).step, (hF.killVar x v).step, rfl⟩
    | store st a i v =>
      simp only [check, Bool.and_eq_true, Bool.or_eq_true] at hc
      obtain ⟨⟨⟨hi, hv⟩, hidx⟩, hsub⟩ := hc
      simp only [exec]
      cases hei : evalE σ i with
      | error e => exact exprOk_sound hs hF i e hi hei
      | ok iv =>
        cases hev : evalE σ v with
        | error e => exact exprOk_sound hs hF v e hv hev
        | ok vv =>
          simp only
          by_cases hb : inb iv (σ.arrs a) = true
          · simp only [hb, if_true]
            have hk := Kind.sub_sound hs.dim0 hsub (kindOf_sound hs v vv hev)
            refine ⟨hs.setArr a _ ?_ ?_, hF.killArr a _, rfl⟩
            · intro d c hsz
              rw [List.length_set]
              exact hs.size a d c hsz
            · intro w hw
              rcases List.mem_or_eq_of_mem_set hw with h | h
              · exact hs.elem a w h
              · subst h; exact hk
          · simp only [hb, Bool.false_eq_true, if_false]
            rcases hidx with h2 | h2
            · exact absurd (idxOk_sound hs hF h2 hei) hb
            · exact (by simpa using h2 : st ∈ ill)
    | touch st a i =>
      simp only [check, Bool.and_eq_true, Bool.or_eq_true] at hc
      simp only [exec]
      cases hei : evalE σ i with
      | error e => exact exprOk_sound hs hF i e hc.1 hei
      | ok iv =>
        simp only
        by_cases hb : inb iv (σ.arrs a) = true
        · simp only [hb, if_true]
          exact ⟨hs, hF, rfl⟩
        · simp only [hb, Bool.false_eq_true, if_false]
          rcases hc.2 with h2 | h2
          · exact absurd (idxOk_sound hs hF h2 hei) hb
          · exact (by simpa using h2 : st ∈ ill)
    | push a v =>
      simp only [check, Bool.and_eq_true] at hc
      obtain ⟨⟨hv, hdyn⟩, hsub⟩ := hc
      simp only [exec]
      cases hev : evalE σ v with
      | error e => exact exprOk_sound hs hF v e hv hev
      | ok vv =>
        have hk := Kind.sub_sound hs.dim0 hsub (kindOf_sound hs v vv hev)
        refine ⟨hs.setArr a _ ?_ ?_, hF.killArr a _, rfl⟩
        · intro d c hsz
          rw [hsz] at hdyn
          simp at hdyn
        · intro w hw
          rcases List.mem_append.1 hw with h | h
          · exact hs.elem a w h
          · simp only [List.mem_singleton] at h
            subst h; exact hk
    | pop st a =>
      simp only [check, Bool.and_eq_true] at hc
      simp only [exec]
      by_cases he : (σ.arrs a).isEmpty = true
      · simp only [he, if_true]
        exact (by simpa using hc.2 : st ∈ ill)
      · simp only [he, Bool.false_eq_true, if_false]
        refine ⟨(hs.setArr a _ ?_ ?_).step, (hF.killArr a _).step, rfl⟩
        · intro d c hsz
          have := hc.1
          rw [hsz] at this
          simp at this
        · intro w hw
          exact hs.elem a w (List.mem_of_mem_eraseIdx hw)
    | clear a =>
      simp only [check] at hc
      simp only [exec]
      refine ⟨hs.setArr a _ ?_ ?_, hF.killArr a _, rfl⟩
      · intro d c hsz
        rw [hsz] at hc
        simp at hc
      · intro w hw
        simp at hw
    | forRange x lo hi body =>
      simp only [check, Bool.and_eq_true] at hc
      obtain ⟨⟨⟨hlo, hhi⟩, hr⟩, hbody⟩ := hc
      simp only [exec]
      cases hel : evalE σ lo with
      | error e => exact exprOk_sound hs hF lo e hlo hel
      | ok l =>
        cases heh : evalE σ hi with
        | error e => exact exprOk_sound hs hF hi e hhi heh
        | ok h =>
          simp only [post]
          refine iter_sound (exec f body) x σ.dims ?_ _ l σ hs rfl ?_
          · intro σ' hs' _
            exact ⟨post [] body, ih body σ' [] hs' (FactsHold.nil _) hbody⟩
          · intro c h1 h2
            exact rangeOk_sound hs hr hel heh c h1 (by omega)
    | «while» c body =>
      simp only [check, Bool.and_eq_true] at hc
      simp only [exec]
      cases hec : evalC σ c with
      | error e => exact condOk_sound hs (FactsHold.nil σ) c e hc.1 hec
      | ok b =>
        cases b with
        | false => exact ⟨hs.step, FactsHold.nil _, rfl⟩
        | true =>
          simp only
          have hf := (condFacts_sound c hec).step
          have h1 := ih body σ.step (condFacts c) hs.step hf hc.2
          cases hr : exec f body σ.step with
          | ok σ' =>
            rw [hr] at h1
            obtain ⟨hs', _, hd'⟩ := h1
            have h2 := ih (.while c body) σ' [] hs' (FactsHold.nil _) (by
              simp only [check, Bool.and_eq_true]; exact hc)
            simp only [post] at h2 ⊢
            cases hr2 : exec f (.while c body) σ' with
            | ok σ'' =>
              rw [hr2] at h2
              obtain ⟨a, b, c'⟩ := h2
              exact ⟨a, b, by rw [c', hd']; rfl⟩
            | err e => rw [hr2] at h2; exact h2
            | done => trivial
            | fuel => trivial
          | err e => rw [hr] at h1; exact h1
          | done => trivial
          | fuel => trivial
    | ite c s t =>
      simp only [check, Bool.and_eq_true] at hc
      obtain ⟨⟨hcond, hthen⟩, helse⟩ := hc
      simp only [exec]
      cases hec : evalC σ c with
      | error e => exact condOk_sound hs hF c e hcond hec
      | ok b =>
        cases b with
        | true =>
          simp only
          have hf := (hF.append (condFacts_sound c hec)).step
          have h1 := ih s σ.step _ hs.step hf hthen
          cases hr : exec f s σ.step with
          | ok σ' =>
            rw [hr] at h1
            exact ⟨h1.1, FactsHold.nil _, h1.2.2⟩
          | err e => rw [hr] at h1; exact h1
          | done => trivial
          | fuel => trivial
        | false =>
          simp only
          have h1 := ih t σ.step _ hs.step hF.step helse
          cases hr : exec f t σ.step with
          | ok σ' =>
            rw [hr] at h1
            exact ⟨h1.1, FactsHold.nil _, h1.2.2⟩
          | err e => rw [hr] at h1; exact h1
          | done => trivial
          | fuel => trivial
    | ret => trivial

/-- **Soundness of the index kinds.** A kernel that passes the checker with waived sites `ill`, run on
    any state that satisfies the declared kinds, with any step budget and any oracle, never reports
    an out-of-bounds access outside `ill`. -/
theorem kinds_sound (K : Kernel) (ill : List Nat) (h : K.checkWith ill = true) (σ : State)
    (hσ : Sat K.env σ) (fuel : Nat) (site : Nat) (hr : exec fuel K.body σ = .err (.oob site)) : site ∈ ill := by
  have := exec_sound K.env ill fuel K.body σ [] hσ (FactsHold.nil σ) h
  rw [hr] at this
  exact this

/-- A well-kinded kernel stays within its buffers. -/
theorem wellKinded_inbounds (K : Kernel) (h : K.wellKinded = true) (σ : State) (hσ : Sat K.env σ)
    (fuel : Nat) (site : Nat) : exec fuel K.body σ ≠ .err (.oob site) := by
  intro hr
  have := kinds_sound K [] h σ hσ fuel site hr
  simp at this

/-! ### inputs -/

theorem Kind.memB_sound {dims : Nat → Nat} {k : Kind} {v : Int} (h : k.memB dims v = true) : k.mem dims v := by
  obtain ⟨lo, hi⟩ := k
  simp only [Kind.memB, Bool.and_eq_true] at h
  obtain ⟨h1, h2⟩ := h
  constructor
  · intro c hc
    simp only at hc
    subst hc
    simpa using h1
  · intro d c hc
    simp only at hc
    subst hc
    simpa using h2

/-- The decidable check on concrete inputs implies the invariant `Sat` on the initial state of the kernel,
    for every oracle. -/
theorem Inputs.satisfies_sound {Γ : Env} {inp : Inputs} (h : inp.satisfies Γ = true) (orc : Nat → Nat → Int) :
    Sat Γ (inp.state orc) := by
  simp only [Inputs.satisfies, Bool.and_eq_true, beq_iff_eq, List.all_eq_true] at h
  obtain ⟨⟨h0, hsc⟩, harr⟩ := h
  have hall : ∀ a, inp.arrOk Γ a = true := by
    intro a
    by_cases ha : a < Γ.arrs.length
    · exact harr a (List.mem_range.2 ha)
    · have hd : Γ.arr a = ArrInfo.dyn := by
        simp only [Env.arr]
        rw [List.getD_eq_getElem?_getD, List.getElem?_eq_none (by omega)]
        rfl
      simp [Inputs.arrOk, hd, ArrInfo.dyn, Kind.memB, Kind.any]
  refine ⟨h0, ?_, ?_, ?_⟩
  · intro x v hv
    simp only [Inputs.state, Option.map_eq_some_iff] at hv
    obtain ⟨p, hp, rfl⟩ := hv
    have hmem := List.mem_of_find?_eq_some hp
    have hpx := List.find?_some hp
    simp only [beq_iff_eq] at hpx
    have := Kind.memB_sound (hsc p hmem)
    rw [hpx] at this
    exact this
  · intro a d c hsz
    have := hall a
    simp only [Inputs.arrOk, hsz, Bool.and_eq_true, decide_eq_true_eq] at this
    exact this.1
  · intro a v hv
    have := hall a
    simp only [Inputs.arrOk, Bool.and_eq_true, List.all_eq_true] at this
    exact Kind.memB_sound (this.2 v hv)

/-- **Well-kinded kernels stay within their buffers on every input that satisfies the declared shapes**:
    for every oracle (floating comparisons, container orders, `rand()`), every step budget. -/
theorem kinds_sound_inputs (K : Kernel) (ill : List Nat) (h : K.checkWith ill = true) (inp : Inputs)
    (hin : inp.satisfies K.env = true) (orc : Nat → Nat → Int) (fuel : Nat) (site : Nat)
    (hr : exec fuel K.body (inp.state orc) = .err (.oob site)) : site ∈ ill :=
  kinds_sound K ill h (inp.state orc) (Inputs.satisfies_sound hin orc) fuel site hr

end SkNet.IR
