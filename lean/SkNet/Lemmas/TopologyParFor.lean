/-
C11 helper lemmas: the `prange` loop at the level of atomic loads and stores. Every thread owns a private copy of
the reduction variable; an iteration is a load of that copy followed by a store of the loaded value plus the
iteration's contribution. The loop is race-free, hence *every interleaving* of the threads' events that lets all
threads finish leaves in every private copy the sum of the contributions of the iterations given to that thread
(`interleaving_free`). This is the event-level justification of `parReduce` (Model/Topology.lean).
The generic part (`RaceFree`, `PInv`, `raceFree_sound`) is the compiled probe design-notes/probe_parfor_racefree.
-/
import SkNet.Lemmas.TopologyReduce

set_option linter.unusedSimpArgs false
set_option linter.unusedVariables false

namespace SkNet.Topology.ParFor

abbrev Loc := Nat
abbrev Val := Nat
abbrev Mem := Loc → Val

inductive Ev where
  | load (l : Loc)
  | store (l : Loc) (f : List Val → Val)

def Ev.loc : Ev → Loc
  | .load l => l
  | .store l _ => l

def Ev.isStore : Ev → Bool
  | .load _ => false
  | .store _ _ => true

structure Cfg where
  mem : Mem
  pc : Nat → Nat
  regs : Nat → List Val

def upd {α} (f : Nat → α) (i : Nat) (v : α) : Nat → α := fun j => if j = i then v else f j

/-- one event of thread-local execution against a memory -/
def execEv (e : Ev) (m : Mem) (r : List Val) : Mem × List Val :=
  match e with
  | .load l => (m, r ++ [m l])
  | .store l f => (upd m l (f r), r)

/-- thread `t` takes one step (no-op if finished) -/
def step (prog : Nat → List Ev) (c : Cfg) (t : Nat) : Cfg :=
  match (prog t)[c.pc t]? with
  | none => c
  | some e =>
    let (m', r') := execEv e c.mem (c.regs t)
    { mem := m', pc := upd c.pc t (c.pc t + 1), regs := upd c.regs t r' }

/-- an interleaving: the list of the thread ids in the order in which they take their steps -/
def run (prog : Nat → List Ev) (c : Cfg) (s : List Nat) : Cfg := s.foldl (step prog) c

/-- thread `t` alone, first `k` events, from `m0` -/
def solo (es : List Ev) (m0 : Mem) : Nat → Mem × List Val
  | 0 => (m0, [])
  | k+1 =>
    let (m, r) := solo es m0 k
    match es[k]? with
    | none => (m, r)
    | some e => execEv e m r

def writes (es : List Ev) (l : Loc) : Prop := ∃ e ∈ es, e.isStore = true ∧ e.loc = l
def touches (es : List Ev) (l : Loc) : Prop := ∃ e ∈ es, e.loc = l

def RaceFree (prog : Nat → List Ev) : Prop :=
  ∀ t u l, t ≠ u → writes (prog t) l → ¬ touches (prog u) l

structure PInv (prog : Nat → List Ev) (m0 : Mem) (c : Cfg) : Prop where
  regs : ∀ t, c.regs t = (solo (prog t) m0 (c.pc t)).2
  foot : ∀ t l, touches (prog t) l → c.mem l = (solo (prog t) m0 (c.pc t)).1 l
  rest : ∀ l, (∀ t, ¬ writes (prog t) l) → c.mem l = m0 l

theorem inv_init (prog) (m0 : Mem) : PInv prog m0 { mem := m0, pc := fun _ => 0, regs := fun _ => [] } :=
  ⟨fun _ => rfl, fun _ _ _ => rfl, fun _ _ => rfl⟩

theorem inv_step (prog) (hrf : RaceFree prog) (m0 : Mem) (c : Cfg) (h : PInv prog m0 c) (t : Nat) :
    PInv prog m0 (step prog c t) := by
  unfold step
  cases he : (prog t)[c.pc t]? with
  | none => simpa using h
  | some e =>
    have hmem : e ∈ prog t := List.mem_of_getElem? he
    have hsolo : solo (prog t) m0 (c.pc t + 1)
        = execEv e (solo (prog t) m0 (c.pc t)).1 (solo (prog t) m0 (c.pc t)).2 := by
      simp [solo, he]
    cases e with
    | load l =>
      have htl : touches (prog t) l := ⟨_, hmem, rfl⟩
      simp only [execEv]
      refine ⟨?_, ?_, ?_⟩
      · intro u
        by_cases hu : u = t
        · subst hu; simp [upd, hsolo, execEv, h.regs u, h.foot u l htl]
        · simp [upd, hu, h.regs u]
      · intro u l' hl'
        by_cases hu : u = t
        · subst hu; simp [upd, hsolo, execEv, h.foot u l' hl']
        · simp [upd, hu, h.foot u l' hl']
      · exact h.rest
    | store l f =>
      have hwl : writes (prog t) l := ⟨_, hmem, rfl, rfl⟩
      simp only [execEv]
      refine ⟨?_, ?_, ?_⟩
      · intro u
        by_cases hu : u = t
        · subst hu; simp [upd, hsolo, execEv, h.regs u]
        · simp [upd, hu, h.regs u]
      · intro u l' hl'
        by_cases hu : u = t
        · subst hu
          simp only [upd, hsolo, execEv, if_true]
          by_cases hll : l' = l
          · simp [hll, h.regs u]
          · simp [hll, h.foot u l' hl']
        · have hne : l' ≠ l := by
            intro hll; subst hll
            exact hrf t u l' (fun e => hu e.symm) hwl hl'
          simp [upd, hu, hne, h.foot u l' hl']
      · intro l' hl'
        have hne : l' ≠ l := by
          intro hll; subst hll; exact hl' t hwl
        simp [upd, hne, h.rest l' hl']

theorem inv_run (prog) (hrf : RaceFree prog) (m0 : Mem) (s : List Nat) (c : Cfg) (h : PInv prog m0 c) :
    PInv prog m0 (run prog c s) := by
  induction s generalizing c with
  | nil => exact h
  | cons t s ih => exact ih _ (inv_step prog hrf m0 c h t)

/-! ### the reduction loop -/

/-- the two events of one iteration of `n_triangles += f i` executed by thread `t` on its private copy -/
def iterEvents (f : Nat → Nat) (t i : Nat) : List Ev :=
  [.load t, .store t (fun regs => regs.getLastD 0 + f i)]

/-- the program of thread `t`: its iterations, in its order -/
def threadProg (f : Nat → Nat) (parts : List (List Nat)) (t : Nat) : List Ev :=
  (parts.getD t []).flatMap (iterEvents f t)

theorem mem_threadProg_loc (f : Nat → Nat) (parts : List (List Nat)) (t : Nat) (e : Ev)
    (he : e ∈ threadProg f parts t) : e.loc = t := by
  unfold threadProg at he
  obtain ⟨i, _, hi⟩ := List.mem_flatMap.1 he
  unfold iterEvents at hi
  rcases List.mem_cons.1 hi with rfl | hi
  · rfl
  · rcases List.mem_cons.1 hi with rfl | hi
    · rfl
    · simp at hi

/-- threads only touch their own private copy: the loop is race-free -/
theorem raceFree_threadProg (f : Nat → Nat) (parts : List (List Nat)) : RaceFree (threadProg f parts) := by
  rintro t u l htu ⟨e, he, _, hl⟩ ⟨e', he', hl'⟩
  have h1 := mem_threadProg_loc f parts t e he
  have h2 := mem_threadProg_loc f parts u e' he'
  rw [h1] at hl
  rw [h2] at hl'
  exact htu (hl.trans hl'.symm)

/-- `solo` is a left fold over the first `k` events -/
theorem solo_eq_foldl (es : List Ev) (m0 : Mem) (k : Nat) :
    solo es m0 k = (es.take k).foldl (fun (mr : Mem × List Val) e => execEv e mr.1 mr.2) (m0, []) := by
  induction k with
  | zero => simp [solo]
  | succ k ih =>
    rw [solo, ih]
    cases he : es[k]? with
    | none =>
      have hk : es.length ≤ k := by
        rcases Nat.lt_or_ge k es.length with h | h
        · rw [List.getElem?_eq_getElem h] at he; cases he
        · exact h
      simp only
      rw [List.take_of_length_le hk, List.take_of_length_le (by omega)]
    | some e =>
      have hk : k < es.length := by
        rcases Nat.lt_or_ge k es.length with h | h
        · exact h
        · rw [List.getElem?_eq_none h] at he; cases he
      simp only
      have : es.take (k+1) = es.take k ++ [e] := by
        rw [List.take_add_one, he]; rfl
      rw [this, List.foldl_append]
      rfl

/-- running all the events of a thread alone adds the contributions of its iterations to its private copy and
    touches nothing else -/
theorem fold_thread (f : Nat → Nat) (t : Nat) (its : List Nat) (m : Mem) (r : List Val) :
    ((its.flatMap (iterEvents f t)).foldl (fun (mr : Mem × List Val) e => execEv e mr.1 mr.2) (m, r)).1 t
        = m t + (its.map f).sum ∧
      ∀ l, l ≠ t → ((its.flatMap (iterEvents f t)).foldl
        (fun (mr : Mem × List Val) e => execEv e mr.1 mr.2) (m, r)).1 l = m l := by
  induction its generalizing m r with
  | nil => exact ⟨by simp, fun _ _ => rfl⟩
  | cons i is ih =>
    rw [List.flatMap_cons, List.foldl_append]
    have hstep : (iterEvents f t i).foldl (fun (mr : Mem × List Val) e => execEv e mr.1 mr.2) (m, r)
        = (upd m t (m t + f i), r ++ [m t]) := by
      simp [iterEvents, execEv]
    rw [hstep]
    obtain ⟨h1, h2⟩ := ih (upd m t (m t + f i)) (r ++ [m t])
    refine ⟨?_, ?_⟩
    · rw [h1]
      show (if t = t then m t + f i else m t) + (is.map f).sum = m t + ((i :: is).map f).sum
      rw [if_pos rfl, List.map_cons, List.sum_cons, Nat.add_assoc]
    · intro l hl
      rw [h2 l hl]; simp [upd, hl]

/-- the initial configuration: all private copies 0, nothing executed -/
def c0 : Cfg := { mem := fun _ => 0, pc := fun _ => 0, regs := fun _ => [] }

/-- ★ every interleaving of the atomic loads and stores of the threads that lets every thread finish leaves in
    the private copy of each thread the sum of the contributions of its iterations -/
theorem interleaving_free (f : Nat → Nat) (parts : List (List Nat)) (s : List Nat)
    (hdone : ∀ t, (run (threadProg f parts) c0 s).pc t = (threadProg f parts t).length) (t : Nat) :
    (run (threadProg f parts) c0 s).mem t = partialSum f (parts.getD t []) := by
  have inv : PInv (threadProg f parts) (fun _ => 0) (run (threadProg f parts) c0 s) :=
    inv_run (threadProg f parts) (raceFree_threadProg f parts) (fun _ => 0) s c0
      (inv_init (threadProg f parts) (fun _ => 0))
  rw [partialSum_eq]
  by_cases hne : threadProg f parts t = []
  · -- no event: nobody writes `t`
    have hno : ∀ u, ¬ writes (threadProg f parts u) t := by
      rintro u ⟨e, he, _, hl⟩
      have := mem_threadProg_loc f parts u e he
      have hut : u = t := this.symm.trans hl
      subst hut
      rw [hne] at he; simp at he
    have h0 : (run (threadProg f parts) c0 s).mem t = 0 := inv.rest t hno
    rw [h0]
    unfold threadProg at hne
    have : ∀ i ∈ parts.getD t [], False := by
      intro i hi
      have : (.load t : Ev) ∈ (parts.getD t []).flatMap (iterEvents f t) :=
        List.mem_flatMap.2 ⟨i, hi, by simp [iterEvents]⟩
      rw [hne] at this; simp at this
    cases hp : parts.getD t [] with
    | nil => rfl
    | cons i is => exact absurd (this i (by rw [hp]; exact List.mem_cons_self)) id
  · obtain ⟨e, he⟩ := List.exists_mem_of_ne_nil _ hne
    have htouch : touches (threadProg f parts t) t := ⟨e, he, mem_threadProg_loc f parts t e he⟩
    have := inv.foot t t htouch
    rw [this, hdone t, solo_eq_foldl, List.take_of_length_le (Nat.le_refl _)]
    have := (fold_thread f t (parts.getD t []) (fun _ => 0) []).1
    unfold threadProg
    rw [this]; simp

/-- the value of the shared variable after the region: the initial value plus the private copies, combined in
    any tree — whatever the interleaving was, this is `parReduce` -/
theorem region_value (f : Nat → Nat) (sch : Schedule) (init : Nat) (s : List Nat)
    (hdone : ∀ t, (run (threadProg f sch.parts) c0 s).pc t = (threadProg f sch.parts t).length) :
    init + sch.comb.eval (fun t => (run (threadProg f sch.parts) c0 s).mem t) = parReduce f sch init := by
  unfold parReduce
  congr 2
  funext t
  exact interleaving_free f sch.parts s hdone t

/-- a complete interleaving exists (thread after thread), so the hypothesis of `interleaving_free` is not vacuous:
    here two threads with iterations `[2, 0]` and `[1]`, events interleaved as t0 t1 t0 t1 t0 t0 -/
example : ∀ t, (run (threadProg (fun i => i + 1) [[2, 0], [1]]) c0 [0, 1, 0, 1, 0, 0]).pc t =
    (threadProg (fun i => i + 1) [[2, 0], [1]] t).length := by
  intro t
  match t with
  | 0 => decide
  | 1 => decide
  | t+2 =>
    have h1 : threadProg (fun i => i + 1) [[2, 0], [1]] (t+2) = [] := by simp [threadProg]
    rw [h1]
    simp [run, step, threadProg, iterEvents, c0, upd, execEv]

end SkNet.Topology.ParFor

namespace SkNet.Topology.ParFor

/-! ### why the descriptor must say "reduction": a shared accumulator loses updates -/

/-- `acc[0] += 1` from two threads on the *same* location, as a load followed by a store -/
def sharedProg : Nat → List Ev := fun t =>
  if t < 2 then [.load 0, .store 0 (fun regs => regs.getLastD 0 + 1)] else []

/-- thread after thread the two updates arrive; interleaved load-load-store-store one of them is lost -/
theorem shared_accumulator_loses_update :
    (run sharedProg c0 [0, 0, 1, 1]).mem 0 = 2 ∧ (run sharedProg c0 [0, 1, 0, 1]).mem 0 = 1 := by decide

theorem sharedProg_not_raceFree : ¬ RaceFree sharedProg := by
  intro h
  exact h 0 1 0 (by decide)
    ⟨.store 0 (fun regs => regs.getLastD 0 + 1), by simp [sharedProg], rfl, rfl⟩
    ⟨.load 0, by simp [sharedProg], rfl⟩

end SkNet.Topology.ParFor
