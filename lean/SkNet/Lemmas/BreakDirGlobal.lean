/- `break_cycles`, directed branch, across the strongly connected components: the result has no cycle and every node
   reachable from a root stays reachable. -/
import SkNet.Model.Cycles
import SkNet.Spec.Connectivity
import SkNet.Lemmas.BreakDir
import SkNet.Lemmas.Connectivity

namespace SkNet.Cycles
open SkNet SkNet.Connectivity

/-! ### small facts -/

/-- `ds.foldl min (ds.headD 0)` is a lower bound of the list, attained when the list is not empty -/
theorem foldl_min_le (ds : List Int) (d0 : Int) : ∀ d ∈ ds, ds.foldl min d0 ≤ d := by
  induction ds generalizing d0 with
  | nil => intro d hd; cases hd
  | cons a l ih =>
    intro d hd
    simp only [List.foldl_cons]
    rcases List.mem_cons.mp hd with rfl | hd
    · have : ∀ (l : List Int) (x : Int), l.foldl min x ≤ x := by
        intro l
        induction l with
        | nil => intro x; exact Int.le_refl _
        | cons b l ih2 => intro x; exact Int.le_trans (ih2 _) (Int.min_le_left _ _)
      exact Int.le_trans (this l _) (Int.min_le_right _ _)
    · exact ih _ d hd

theorem foldl_min_mem (ds : List Int) (d0 : Int) : ds.foldl min d0 = d0 ∨ ds.foldl min d0 ∈ ds := by
  induction ds generalizing d0 with
  | nil => left; rfl
  | cons a l ih =>
    simp only [List.foldl_cons]
    rcases ih (min d0 a) with h | h
    · rcases Int.le_total d0 a with hle | hle
      · left; rw [h, Int.min_eq_left hle]
      · right; rw [h, Int.min_eq_right hle]; exact List.mem_cons_self
    · right; exact List.mem_cons_of_mem _ h

theorem dmin_attained (ds : List Int) (h : ds ≠ []) : ds.foldl min (ds.headD 0) ∈ ds := by
  obtain ⟨a, l, rfl⟩ := List.exists_cons_of_ne_nil h
  rcases foldl_min_mem (a :: l) a with h1 | h1
  · simp only [List.headD_cons]; rw [h1]; exact List.mem_cons_self
  · exact h1

theorem isChain_filter (adj : Nat → List Nat) (p : Nat → Bool) (l : List Nat) (h : isChain adj l = true)
    (hp : ∀ v ∈ l, p v = true) : isChain (fun u => (adj u).filter p) l = true := by
  match l with
  | [] => rfl
  | [_] => rfl
  | x :: y :: l =>
    rw [isChain_cons_cons] at h ⊢
    simp only [Bool.and_eq_true, List.contains_iff_mem] at h ⊢
    refine ⟨List.mem_filter.mpr ⟨h.1, hp y (by simp)⟩, ?_⟩
    exact isChain_filter adj p (y :: l) h.2 (fun v hv => hp v (List.mem_cons_of_mem _ hv))

end SkNet.Cycles

namespace SkNet.Cycles
open SkNet SkNet.Connectivity

/-- the fixed data of a run of the directed branch -/
structure DirCtx where
  n : Nat
  a0 : Rows
  labels : List Nat
  root : List Nat
  dist : List Int
  setOrder : List Nat → List Nat

namespace DirCtx

/-- label of a node -/
def lab (c : DirCtx) (v : Nat) : Nat := c.labels.getD v 0
/-- the nodes of the component labelled `L` -/
def S (c : DirCtx) (L : Nat) : List Nat := argwhereEq c.labels L
/-- reachable from a root -/
def RR (c : DirCtx) (g : Rows) (v : Nat) : Prop := ∃ r ∈ c.root, Reach g.row r v

/-- what is assumed of the data: scipy's contract for the strong components of the loop-free adjacency,
    `get_distances` returns hop distances from the roots (property C10), a set is enumerated without loss -/
structure OK (c : DirCtx) : Prop where
  wf : ∀ u v, v ∈ c.a0.row u → u < c.n ∧ v < c.n
  noloop : ∀ u, u ∉ c.a0.row u
  lab : IsLabelling c.n c.a0.row true c.labels
  set1 : ∀ l x, x ∈ c.setOrder l → x ∈ l
  set2 : ∀ l x, x ∈ l → x ∈ c.setOrder l
  d_reach : ∀ v, v < c.n → (0 ≤ c.dist.getD v (-1) ↔ c.RR c.a0 v)
  d_zero : ∀ v, v < c.n → c.dist.getD v (-1) = 0 → v ∈ c.root
  d_pred : ∀ v, v < c.n → 0 < c.dist.getD v (-1) →
    ∃ x, v ∈ c.a0.row x ∧ c.dist.getD x (-1) = c.dist.getD v (-1) - 1

theorem mem_S {c : DirCtx} (hok : c.OK) {L v : Nat} : v ∈ c.S L ↔ v < c.n ∧ c.lab v = L := by
  unfold S lab
  rw [mem_argwhereEq, hok.lab.1]

theorem sameLabel_iff {c : DirCtx} (hok : c.OK) {u v : Nat} (hu : u < c.n) (hv : v < c.n) :
    c.lab u = c.lab v ↔ Reach c.a0.row u v ∧ Reach c.a0.row v u := by
  have := hok.lab.2 u v hu hv
  simp only [SameComp, ↓reduceIte] at this
  exact this

theorem reach_lt {c : DirCtx} (hok : c.OK) {u v : Nat} (hu : u < c.n) (h : Reach c.a0.row u v) : v < c.n :=
  Reach.lt (fun x _ y hy => (hok.wf x y hy).2) h hu

/-- inside a component whose edges are all still there, what reaches back is reached -/
theorem reach_intra {c : DirCtx} (hok : c.OK) {L : Nat} {a : Rows}
    (hintra : ∀ x y, y ∈ c.a0.row x → c.lab x = L → c.lab y = L → y ∈ a.row x)
    {σ : Nat} (hσ : σ < c.n) (hσL : c.lab σ = L) {w : Nat} (h1 : Reach c.a0.row σ w) (h2 : Reach c.a0.row w σ) :
    Reach a.row σ w := by
  induction h1 with
  | refl => exact Reach.refl _
  | @tail x y hp he ih =>
    have hx2 : Reach c.a0.row x σ := (Reach.edge he).trans h2
    have hxn := reach_lt hok hσ hp
    have hyn := (hok.wf x y he).2
    have hxL : c.lab x = L := by rw [← hσL]; exact ((sameLabel_iff hok hσ hxn).mpr ⟨hp, hx2⟩).symm
    have hyL : c.lab y = L := by
      rw [← hσL]; exact ((sameLabel_iff hok hσ hyn).mpr ⟨hp.trans (Reach.edge he), h2⟩).symm
    exact Reach.tail (ih hx2) (hintra x y he hxL hyL)

end DirCtx
end SkNet.Cycles

namespace SkNet.Cycles
open SkNet SkNet.Connectivity
namespace DirCtx

/-- the sub-roots of the component `L`: its nodes closest to the roots, in the order of the set -/
def subroots (c : DirCtx) (L : Nat) : List Nat :=
  let ds := (c.S L).map fun v => c.dist.getD v (-1)
  let dmin := ds.foldl min (ds.headD 0)
  c.setOrder ((c.S L).filter fun v => c.dist.getD v (-1) == dmin)

/-- the stack `break_cycles` starts the component with -/
def startStack (c : DirCtx) (L : Nat) : List (List Nat) := ((c.subroots L).map fun s => [s]).reverse

theorem subroot_facts {c : DirCtx} (hok : c.OK) {L σ : Nat} (h : σ ∈ c.subroots L) :
    σ ∈ c.S L ∧ ∀ v ∈ c.S L, c.dist.getD σ (-1) ≤ c.dist.getD v (-1) := by
  unfold subroots at h
  simp only at h
  have h1 := hok.set1 _ _ h
  obtain ⟨hS, hd⟩ := List.mem_filter.mp h1
  refine ⟨hS, fun v hv => ?_⟩
  have hd' : c.dist.getD σ (-1) = ((c.S L).map fun v => c.dist.getD v (-1)).foldl min
      (((c.S L).map fun v => c.dist.getD v (-1)).headD 0) := by simpa using hd
  rw [hd']
  exact foldl_min_le _ _ _ (List.mem_map.mpr ⟨v, hv, rfl⟩)

theorem subroots_ne_nil {c : DirCtx} (hok : c.OK) {L v : Nat} (hv : v ∈ c.S L) : ∃ σ, σ ∈ c.subroots L := by
  have hne : ((c.S L).map fun v => c.dist.getD v (-1)) ≠ [] := by
    intro h
    have : (c.S L) = [] := by simpa using h
    rw [this] at hv; cases hv
  have := dmin_attained _ hne
  obtain ⟨w, hw, hwd⟩ := List.mem_map.mp this
  refine ⟨w, ?_⟩
  unfold subroots
  apply hok.set2
  exact List.mem_filter.mpr ⟨hw, by simpa using hwd⟩

/-- ★ one component: the loop removes only edges inside the component, keeps every node reachable from the roots
    reachable, and leaves no cycle in the component. -/
theorem stage {c : DirCtx} (hok : c.OK) (L : Nat) (a a' : Rows) (fuel : Nat)
    (hsub : a.Sub c.a0)
    (hintra : ∀ x y, y ∈ c.a0.row x → c.lab x = L → c.lab y = L → y ∈ a.row x)
    (hinter : ∀ x y, y ∈ c.a0.row x → c.lab x ≠ c.lab y → y ∈ a.row x)
    (hΦ : ∀ v, c.RR c.a0 v → c.RR a v)
    (hrun : breakLoopDir c.setOrder (c.S L) fuel a (c.startStack L) = some a') :
    a'.Sub a ∧
    (∀ x y, y ∈ a.row x → y ∉ a'.row x → c.lab x = L ∧ c.lab y = L) ∧
    (∀ v, c.RR c.a0 v → c.RR a' v) ∧
    (∀ C, IsSimpleCycle c.n a'.row true C → (∃ v ∈ C, c.lab v = L) → False) := by
  -- the initial stack
  have hstack : StackD (fun σ => σ ∈ c.subroots L) (fun x => x ∈ c.S L) a (c.startStack L) := by
    refine ⟨?_, ?_, ?_⟩
    · intro q hq
      obtain ⟨s, hs, rfl⟩ := List.mem_map.mp (List.mem_reverse.mp hq)
      exact ⟨by simp, by simp, rfl, fun s' hs' => by simp at hs'; exact hs' ▸ hs⟩
    · apply List.pairwise_of_forall_mem_list
      intro q1 h1 q2 h2
      obtain ⟨s1, _, rfl⟩ := List.mem_map.mp (List.mem_reverse.mp h1)
      obtain ⟨s2, _, rfl⟩ := List.mem_map.mp (List.mem_reverse.mp h2)
      exact List.suffix_refl _
    · intro q hq v hv
      obtain ⟨s, hs, rfl⟩ := List.mem_map.mp (List.mem_reverse.mp hq)
      simp only [List.mem_singleton] at hv
      subst hv
      exact (subroot_facts hok hs).1
  obtain ⟨i1, i2, i3⟩ := breakLoopDir_inv c.setOrder (c.S L) hok.set1 (fun x hx => hx) fuel a _ a' hstack hrun
  obtain ⟨_, hexp⟩ := breakLoopDir_explores c.setOrder (c.S L) hok.set2 fuel a _ a'
    (by intro q hq; obtain ⟨s, _, rfl⟩ := List.mem_map.mp (List.mem_reverse.mp hq); simp) hrun
  have hremoved : ∀ x y, y ∈ a.row x → y ∉ a'.row x → c.lab x = L ∧ c.lab y = L := by
    intro x y hy hny
    obtain ⟨hx, hy'⟩ := i3 x y hy hny
    exact ⟨((mem_S hok).mp hx).2, ((mem_S hok).mp hy').2⟩
  -- a sub-root reaches, in `a`, every node of the component
  have hσreach : ∀ σ, σ ∈ c.subroots L → ∀ w, w < c.n → c.lab w = L → Reach a.row σ w := by
    intro σ hσ w hw hwL
    obtain ⟨hσn, hσL⟩ := (mem_S hok).mp (subroot_facts hok hσ).1
    obtain ⟨h1, h2⟩ := (sameLabel_iff hok hσn hw).mp (hσL.trans hwL.symm)
    exact reach_intra hok hintra hσn hσL h1 h2
  -- every sub-root of a component that the roots reach is reached from the roots after the loop
  have hSig : (∃ x, x < c.n ∧ c.lab x = L ∧ c.RR c.a0 x) → ∀ σ, σ ∈ c.subroots L → c.RR a' σ := by
    intro ⟨x, hxn, hxL, hxR⟩ σ hσ
    obtain ⟨hσS, hσmin⟩ := subroot_facts hok hσ
    obtain ⟨hσn, hσL⟩ := (mem_S hok).mp hσS
    -- σ is reachable in a0
    have hσR : c.RR c.a0 σ := by
      obtain ⟨r, hr, hrx⟩ := hxR
      obtain ⟨h1, _⟩ := (sameLabel_iff hok hxn hσn).mp (hxL.trans hσL.symm)
      exact ⟨r, hr, hrx.trans h1⟩
    have hd0 : 0 ≤ c.dist.getD σ (-1) := (hok.d_reach σ hσn).mpr hσR
    by_cases hz : c.dist.getD σ (-1) = 0
    · exact ⟨σ, hok.d_zero σ hσn hz, Reach.refl _⟩
    · have hpos : 0 < c.dist.getD σ (-1) := by omega
      obtain ⟨x0, hx0e, hx0d⟩ := hok.d_pred σ hσn hpos
      have hx0n : x0 < c.n := (hok.wf x0 σ hx0e).1
      -- x0 is not in the component
      have hx0L : c.lab x0 ≠ L := by
        intro h
        have := hσmin x0 ((mem_S hok).mpr ⟨hx0n, h⟩)
        omega
      have hx0R : c.RR c.a0 x0 := (hok.d_reach x0 hx0n).mp (by omega)
      obtain ⟨r, hr, hrx0⟩ := hΦ x0 hx0R
      -- the walk to x0 does not touch the component
      have hwalk : ∀ z, Reach a.row r z → Reach c.a0.row z x0 → Reach a'.row r z := by
        intro z hz
        induction hz with
        | refl => intro _; exact Reach.refl _
        | @tail p q hp he ih =>
          intro hq
          have hq0 : q ∈ c.a0.row p := hsub.2 p q he
          have hp' := ih ((Reach.edge hq0).trans hq)
          by_cases hkeep : q ∈ a'.row p
          · exact Reach.tail hp' hkeep
          · exfalso
            obtain ⟨_, hqL⟩ := hremoved p q he hkeep
            have hqn : q < c.n := (hok.wf p q hq0).2
            -- q and σ are in the same component, x0 lies between them
            obtain ⟨h1, h2⟩ := (sameLabel_iff hok hqn hσn).mp (hqL.trans hσL.symm)
            have : c.lab x0 = c.lab σ :=
              (sameLabel_iff hok hx0n hσn).mpr ⟨Reach.edge hx0e, h2.trans hq⟩
            exact hx0L (this.trans hσL)
      have hr' := hwalk x0 hrx0 (Reach.refl _)
      have hedge : σ ∈ a'.row x0 := by
        have h1 : σ ∈ a.row x0 := hinter x0 σ hx0e (by rw [hσL]; exact hx0L)
        apply Classical.byContradiction
        intro hne
        exact hx0L (hremoved x0 σ h1 hne).1
      exact ⟨r, hr, Reach.tail hr' hedge⟩
  refine ⟨i1, hremoved, ?_, ?_⟩
  · -- reachability from the roots
    intro v hv
    obtain ⟨r, hr, hrv⟩ := hΦ v hv
    have : ∀ z, Reach a.row r z → c.RR a' z := by
      intro z hz
      induction hz with
      | refl => exact ⟨r, hr, Reach.refl _⟩
      | @tail p q hp he ih =>
        obtain ⟨r1, hr1, hp1⟩ := ih
        by_cases hkeep : q ∈ a'.row p
        · exact ⟨r1, hr1, Reach.tail hp1 hkeep⟩
        · obtain ⟨hpL, hqL⟩ := hremoved p q he hkeep
          have hq0 : q ∈ c.a0.row p := hsub.2 p q he
          have hpn : p < c.n := (hok.wf p q hq0).1
          have hqn : q < c.n := (hok.wf p q hq0).2
          have hpR : c.RR c.a0 p := ⟨r, hr, Reach.mono hsub.2 hp⟩
          obtain ⟨σ0, hσ0⟩ := subroots_ne_nil hok ((mem_S hok).mpr ⟨hpn, hpL⟩)
          obtain ⟨σ', hσ', hσq⟩ := i2 σ0 q hσ0 (hσreach σ0 hσ0 q hqn hqL)
          obtain ⟨r2, hr2, h2⟩ := hSig ⟨p, hpn, hpL, hpR⟩ σ' hσ'
          exact ⟨r2, hr2, h2.trans hσq⟩
    exact this v hrv
  · -- no cycle in the component
    intro C hC ⟨v0, hv0, hv0L⟩
    obtain ⟨hnd, hlt, hcl, _⟩ := id hC
    have hmono : ∀ l, isChain a'.row l = true → isChain c.a0.row l = true := by
      intro l
      induction l with
      | nil => intro _; rfl
      | cons x l ih =>
        cases l with
        | nil => intro _; rfl
        | cons y l =>
          intro h
          rw [isChain_cons_cons] at h ⊢
          simp only [Bool.and_eq_true, List.contains_iff_mem] at h ⊢
          exact ⟨hsub.2 x y (i1.2 x y h.1), ih h.2⟩
    have hC0 : IsClosedChain c.a0.row C := by
      cases C with
      | nil => exact absurd hcl (by simp [IsClosedChain])
      | cons hd t => exact hmono (hd :: t ++ [hd]) hcl
    have hreach0 := closedChain_reach hC0
    have hv0n := hlt v0 hv0
    -- every node of the cycle is in the component
    have hallL : ∀ w ∈ C, c.lab w = L := by
      intro w hw
      rw [← hv0L]
      exact ((sameLabel_iff hok hv0n (hlt w hw)).mpr ⟨hreach0 v0 hv0 w hw, hreach0 w hw v0 hv0⟩).symm
    obtain ⟨σ0, hσ0⟩ := subroots_ne_nil hok ((mem_S hok).mpr ⟨hv0n, hv0L⟩)
    obtain ⟨σ', hσ', hσv⟩ := i2 σ0 v0 hσ0 (hσreach σ0 hσ0 v0 hv0n hv0L)
    obtain ⟨hσ'n, hσ'L⟩ := (mem_S hok).mp (subroot_facts hok hσ').1
    -- the walk from the sub-root to the cycle stays in the component
    have hin : ∀ z, Reach a'.row σ' z → Reach c.a0.row z σ' → Reach (adjS a' (c.S L)) σ' z := by
      intro z hz
      induction hz with
      | refl => intro _; exact Reach.refl _
      | @tail p q hp he ih =>
        intro hq
        have hq0 : q ∈ c.a0.row p := hsub.2 p q (i1.2 p q he)
        have hp' := ih ((Reach.edge hq0).trans hq)
        have hqn : q < c.n := (hok.wf p q hq0).2
        have hqL : c.lab q = L := by
          rw [← hσ'L]
          refine ((sameLabel_iff hok hσ'n hqn).mpr ⟨?_, hq⟩).symm
          exact (Reach.mono (fun x y h => hsub.2 x y (i1.2 x y h)) hp).trans (Reach.edge hq0)
        exact Reach.tail hp' (mem_adjS.mpr ⟨he, (mem_S hok).mpr ⟨hqn, hqL⟩⟩)
    have hback : Reach c.a0.row v0 σ' :=
      ((sameLabel_iff hok hv0n hσ'n).mp (hv0L.trans hσ'L.symm)).1
    have hσv' := hin v0 hσv hback
    -- the cycle is a cycle of the component
    have hCS : IsSimpleCycle c.n (adjS a' (c.S L)) true C := by
      refine ⟨hnd, hlt, ?_, Or.inl rfl⟩
      have hp : ∀ w ∈ C, (c.S L).contains w = true := fun w hw => by
        simpa using (mem_S hok).mpr ⟨hlt w hw, hallL w hw⟩
      cases C with
      | nil => exact absurd hcl (by simp [IsClosedChain])
      | cons hd t =>
        have : isChain a'.row (hd :: t ++ [hd]) = true := hcl
        exact isChain_filter a'.row _ _ this (by
          intro w hw
          rcases List.mem_append.mp hw with h | h
          · exact hp w h
          · simp only [List.mem_singleton] at h; subst h; exact hp _ List.mem_cons_self)
    obtain ⟨ca, cb, y0, tw, _, _, hext, hedge⟩ := path_around_cycle hCS hv0 hσv'
    have hstart : [σ'] ∈ c.startStack L :=
      List.mem_reverse.mpr (List.mem_map.mpr ⟨σ', hσ', rfl⟩)
    exact hexp [σ'] hstart (by simp [edgeGone]) _ hext y0 hedge (by simp)

end DirCtx
end SkNet.Cycles

namespace SkNet.Cycles
open SkNet SkNet.Connectivity

namespace DirCtx

/-- ★ `for label in cycle_labels:` — all components in turn -/
theorem breakLabels_spec {c : DirCtx} (hok : c.OK) (fuel : Nat) (Ls : List Nat) (hLs : Ls.Nodup) (a aEnd : Rows)
    (hsub : a.Sub c.a0)
    (hintra : ∀ L ∈ Ls, ∀ x y, y ∈ c.a0.row x → c.lab x = L → c.lab y = L → y ∈ a.row x)
    (hinter : ∀ x y, y ∈ c.a0.row x → c.lab x ≠ c.lab y → y ∈ a.row x)
    (hΦ : ∀ v, c.RR c.a0 v → c.RR a v)
    (hrun : breakLabels c.setOrder c.labels c.dist fuel Ls a = some aEnd) :
    aEnd.Sub a ∧ (∀ v, c.RR c.a0 v → c.RR aEnd v) ∧
    (∀ L ∈ Ls, ∀ C, IsSimpleCycle c.n aEnd.row true C → (∃ v ∈ C, c.lab v = L) → False) := by
  induction Ls generalizing a with
  | nil =>
    simp only [breakLabels] at hrun
    cases hrun
    exact ⟨Rows.Sub.refl _, hΦ, fun L hL => by cases hL⟩
  | cons L rest ih =>
    unfold breakLabels at hrun
    simp only at hrun
    have hnd := List.nodup_cons.mp hLs
    cases hst : breakLoopDir c.setOrder (c.S L) fuel a (c.startStack L) with
    | none =>
      have : breakLoopDir c.setOrder (argwhereEq c.labels L) fuel a
          ((List.map (fun s => [s]) (c.setOrder (List.filter (fun v => c.dist.getD v (-1) ==
            List.foldl min ((List.map (fun v => c.dist.getD v (-1)) (argwhereEq c.labels L)).headD 0)
              (List.map (fun v => c.dist.getD v (-1)) (argwhereEq c.labels L))) (argwhereEq c.labels L)))).reverse) = none := hst
      rw [this] at hrun
      cases hrun
    | some a' =>
      have : breakLoopDir c.setOrder (argwhereEq c.labels L) fuel a
          ((List.map (fun s => [s]) (c.setOrder (List.filter (fun v => c.dist.getD v (-1) ==
            List.foldl min ((List.map (fun v => c.dist.getD v (-1)) (argwhereEq c.labels L)).headD 0)
              (List.map (fun v => c.dist.getD v (-1)) (argwhereEq c.labels L))) (argwhereEq c.labels L)))).reverse) = some a' := hst
      rw [this] at hrun
      simp only at hrun
      obtain ⟨s1, s2, s3, s4⟩ := stage hok L a a' fuel hsub (hintra L List.mem_cons_self) hinter hΦ hst
      have hintra' : ∀ L' ∈ rest, ∀ x y, y ∈ c.a0.row x → c.lab x = L' → c.lab y = L' → y ∈ a'.row x := by
        intro L' hL' x y hy hx hy'
        have h1 := hintra L' (List.mem_cons_of_mem _ hL') x y hy hx hy'
        apply Classical.byContradiction
        intro hne
        have := (s2 x y h1 hne).1
        rw [hx] at this
        subst this
        exact hnd.1 hL'
      have hinter' : ∀ x y, y ∈ c.a0.row x → c.lab x ≠ c.lab y → y ∈ a'.row x := by
        intro x y hy hne
        have h1 := hinter x y hy hne
        apply Classical.byContradiction
        intro hne'
        obtain ⟨h2, h3⟩ := s2 x y h1 hne'
        exact hne (h2.trans h3.symm)
      obtain ⟨e1, e2, e3⟩ := ih hnd.2 a' (s1.trans hsub) hintra' hinter' s3 hrun
      refine ⟨e1.trans s1, e2, fun L' hL' C hC hv => ?_⟩
      rcases List.mem_cons.mp hL' with rfl | hL'
      · exact s4 C (isSimpleCycle_mono e1.2 hC) hv
      · exact e3 L' hL' C hC hv

end DirCtx
end SkNet.Cycles
