/-
The outer loop of `Louvain.fit` in exact arithmetic: the objective of the returned labels exceeds the
objective of the singletons by exactly the sum of the logged increases, each of which is non-negative.
-/
import SkNet.Lemmas.ModularityLevel

namespace SkNet.Modularity
open Finset

theorem Q_congr (n : Nat) (A : Nat → Nat → Rat) (o i_ : Nat → Rat) (γ : Rat) (c c' : Nat → Nat)
    (h : ∀ u, u < n → c u = c' u) : Q n A o i_ γ c = Q n A o i_ γ c' := by
  unfold Q
  refine sumTo_congr fun u hu => sumTo_congr fun v hv => ?_
  rw [h u hu, h v hv]

/-- `Q` depends on the partition only, not on the names of the clusters -/
theorem Q_partition_congr (n : Nat) (A : Nat → Nat → Rat) (o i_ : Nat → Rat) (γ : Rat) (c c' : Nat → Nat)
    (h : ∀ u v, u < n → v < n → (c u = c v ↔ c' u = c' v)) : Q n A o i_ γ c = Q n A o i_ γ c' := by
  unfold Q
  refine sumTo_congr fun u hu => sumTo_congr fun v hv => ?_
  by_cases hc : c u = c v
  · rw [if_pos hc, if_pos ((h u v hu hv).mp hc)]
  · rw [if_neg hc, if_neg (fun h' => hc ((h u v hu hv).mpr h'))]

theorem list_sum_nonneg (l : List Rat) (h : ∀ x ∈ l, 0 ≤ x) : 0 ≤ l.sum := by
  induction l with
  | nil => simp
  | cons a r ih =>
    rw [List.sum_cons]
    have h1 := h a List.mem_cons_self
    have h2 := ih fun x hx => h x (List.mem_cons_of_mem _ hx)
    linarith

/-! ### `np.unique(..., return_inverse=True)` keeps the partition -/

theorem countP_lt_strict (s : List Nat) (x y : Nat) (hx : x ∈ s) (hxy : x < y) :
    s.countP (· < x) < s.countP (· < y) := by
  induction s with
  | nil => exact absurd hx List.not_mem_nil
  | cons z t ih =>
    have hmono : t.countP (· < x) ≤ t.countP (· < y) :=
      List.countP_mono_left fun a _ ha => by
        simp only [decide_eq_true_eq] at ha ⊢; omega
    simp only [List.countP_cons, decide_eq_true_eq]
    rcases List.mem_cons.mp hx with rfl | hx'
    · have h1 : ¬ x < x := lt_irrefl x
      simp only [h1, if_false, hxy, if_true]
      omega
    · have := ih hx'
      by_cases hz : z < x
      · have hzy : z < y := lt_trans hz hxy
        simp only [hz, hzy, if_true]; omega
      · simp only [hz, if_false]
        split <;> omega

theorem distinct_fold (l s : List Nat) :
    ∀ y, y ∈ l.foldl (fun s x => setInsert x s) s ↔ y ∈ s ∨ y ∈ l := by
  induction l generalizing s with
  | nil => simp
  | cons a r ih =>
    intro y
    simp only [List.foldl_cons, ih, mem_setInsert, List.mem_cons]
    tauto

theorem labOf_map (l : List Nat) (f : Nat → Nat) (u : Nat) (hu : u < l.length) :
    labOf (l.map f) u = f (labOf l u) := by
  unfold labOf
  rw [List.getD_eq_getElem?_getD, List.getD_eq_getElem?_getD, List.getElem?_map,
    List.getElem?_eq_getElem hu]
  rfl

theorem labOf_mem (l : List Nat) (u : Nat) (hu : u < l.length) : labOf l u ∈ l := by
  unfold labOf
  rw [List.getD_eq_getElem?_getD, List.getElem?_eq_getElem hu]
  exact List.getElem_mem hu

theorem uniqueInverse_length (l : List Nat) : (uniqueInverse l).length = l.length := by
  simp [uniqueInverse]

theorem uniqueInverse_iff (l : List Nat) (u v : Nat) (hu : u < l.length) (hv : v < l.length) :
    labOf (uniqueInverse l) u = labOf (uniqueInverse l) v ↔ labOf l u = labOf l v := by
  unfold uniqueInverse
  simp only
  rw [labOf_map _ _ _ hu, labOf_map _ _ _ hv]
  have hmem : ∀ w, w < l.length → labOf l w ∈ l.foldl (fun s x => setInsert x s) [] := fun w hw =>
    (distinct_fold l [] _).mpr (Or.inr (labOf_mem l w hw))
  constructor
  · intro h
    by_contra hne
    rcases Nat.lt_or_gt_of_ne hne with hlt | hgt
    · have := countP_lt_strict _ _ _ (hmem u hu) hlt
      rw [List.countP_eq_length_filter, List.countP_eq_length_filter] at this
      omega
    · have := countP_lt_strict _ _ _ (hmem v hv) hgt
      rw [List.countP_eq_length_filter, List.countP_eq_length_filter] at this
      omega
  · intro h; rw [h]

/-! ### the loop -/

/-- the objective of a level, for a label list -/
abbrev QL (lv : Level) (γ : Rat) (l : List Nat) : Rat := QG lv.graph γ l

theorem labOf_range (n u : Nat) (hu : u < n) : labOf (List.range n) u = u := by
  simp [labOf, List.getD_eq_getElem?_getD, hu]

theorem coreInv_singletons (lv : Level) (hlv : LevelOK lv) :
    CoreInv lv.graph lv.n { labels := arange lv.n, outCl := lv.outW, inCl := lv.inW, cw := tab lv.n fun _ => 0 } where
  len := by simp [arange, Level.graph]
  bound := fun i hi => by
    show labOf (List.range lv.n) i < lv.n
    rw [labOf_range lv.n i hi]; exact hi
  lenO := hlv.lenO
  lenI := hlv.lenI
  lenC := by simp
  cwZero := fun x => by
    show (tab lv.n fun _ => (0 : Rat)).getD x 0 = 0
    rw [tab_getD]; split <;> rfl
  volO := fun x hx => by
    show lv.outW.getD x 0 = vol lv.n (fun i => lv.outW.getD i 0) (labOf (List.range lv.n)) x
    unfold vol
    rw [Finset.sum_eq_single_of_mem x (Finset.mem_range.mpr hx)]
    · rw [labOf_range _ _ hx, if_pos rfl]
    · intro j hj hne
      rw [labOf_range _ _ (Finset.mem_range.mp hj), if_neg hne]
  volI := fun x hx => by
    show lv.inW.getD x 0 = vol lv.n (fun i => lv.inW.getD i 0) (labOf (List.range lv.n)) x
    unfold vol
    rw [Finset.sum_eq_single_of_mem x (Finset.mem_range.mpr hx)]
    · rw [labOf_range _ _ hx, if_pos rfl]
    · intro j hj hne
      rw [labOf_range _ _ (Finset.mem_range.mp hj), if_neg hne]

/-- one aggregation of `Louvain.fit` as compiled (kernel with its bound on the passes) -/
theorem louvain_level_capped (lv : Level) (hlv : LevelOK lv) (res tolOpt : Rat)
    (labels1 : List Nat) (inc : Rat)
    (h : louvainOptimizeCapped lv res tolOpt (arange lv.n) = some (labels1, inc)) :
    0 ≤ inc ∧ (uniqueInverse labels1).length = lv.n ∧
    QL lv res (uniqueInverse labels1) = QL lv res (arange lv.n) + inc ∧
    LevelOK (aggregate (uniqueInverse labels1) lv) ∧
    WithinComp lv.graph (uniqueInverse labels1) := by
  unfold louvainOptimizeCapped at h
  simp only [Option.some.injEq] at h
  obtain ⟨h1, h2, h3, h4, -⟩ := optimizeCoreCapped_spec lv.graph hlv.graphOK res tolOpt lv.n _
    (coreInv_singletons lv hlv)
  rw [h] at h1 h2 h3 h4
  simp only at h1 h2 h3 h4
  have hlen1 : labels1.length = lv.n := h4
  have hlen : (uniqueInverse labels1).length = lv.n := by rw [uniqueInverse_length, hlen1]
  have hQ : QL lv res (uniqueInverse labels1) = QL lv res labels1 := by
    refine Q_partition_congr _ _ _ _ _ _ _ fun u v hu hv => ?_
    exact uniqueInverse_iff labels1 u v (by rw [hlen1]; exact hu) (by rw [hlen1]; exact hv)
  have hw1 : WithinComp lv.graph labels1 :=
    h3.withinComp hlv.graphOK.cols (by simp [arange, Level.graph]) (withinComp_singletons lv.graph)
  refine ⟨h2, hlen, ?_, aggregate_levelOK _ lv hlv hlen, ?_⟩
  · rw [hQ]
    have : inc = QL lv res labels1 - QL lv res (arange lv.n) := h1
    linarith
  · intro u v hu hv huv
    exact hw1 u v hu hv ((uniqueInverse_iff labels1 u v (by rw [hlen1]; exact hu) (by rw [hlen1]; exact hv)).mp huv)

/-- **the outer loop, as compiled.** `lv0` is the first level; `memb` maps its nodes to the nodes of the current level. -/
theorem louvainLoopCapped_spec (res tolOpt tolAgg : Rat) (nAgg : Int) (lv0 : Level) :
    ∀ (fuel count : Nat) (lv : Level) (memb : List Nat) (incs : List Rat) (out : FitOut),
      LevelOK lv → memb.length = lv0.n → (∀ u, u < lv0.n → labOf memb u < lv.n) →
      (∀ c' : Nat → Nat, Q lv.n (adj lv.graph) lv.graph.outW lv.graph.inW res c'
          = Q lv0.n (adj lv0.graph) lv0.graph.outW lv0.graph.inW res (fun u => c' (labOf memb u))) →
      louvainLoopCapped res tolOpt tolAgg nAgg fuel count lv memb incs = some out →
      ∃ extra : List Rat, out.increases = incs ++ extra ∧ (∀ x ∈ extra, 0 ≤ x) ∧
        out.labels.length = lv0.n ∧ QL lv0 res out.labels = QL lv0 res memb + extra.sum := by
  intro fuel
  induction fuel with
  | zero => intro count lv memb incs out _ _ _ _ h; simp [louvainLoopCapped] at h
  | succ f ih =>
    intro count lv memb incs out hlv hmlen hmb hQ h
    simp only [louvainLoopCapped] at h
    split at h
    · cases h
    · rename_i labels1 inc hopt
      obtain ⟨g1, g2, g3, g4, -⟩ := louvain_level_capped lv hlv res tolOpt labels1 inc hopt
      -- the new membership and what it means for the objective
      have hmlen' : (memb.map fun x => (uniqueInverse labels1).getD x 0).length = lv0.n := by simp [hmlen]
      have hcomp : ∀ u, u < lv0.n →
          labOf (memb.map fun x => (uniqueInverse labels1).getD x 0) u
            = labOf (uniqueInverse labels1) (labOf memb u) := by
        intro u hu
        exact labOf_map memb _ u (by rw [hmlen]; exact hu)
      have hQ' : ∀ c' : Nat → Nat,
          Q (aggregate (uniqueInverse labels1) lv).n (adj (aggregate (uniqueInverse labels1) lv).graph)
              (aggregate (uniqueInverse labels1) lv).graph.outW (aggregate (uniqueInverse labels1) lv).graph.inW res c'
            = Q lv0.n (adj lv0.graph) lv0.graph.outW lv0.graph.inW res
                (fun u => c' (labOf (memb.map fun x => (uniqueInverse labels1).getD x 0) u)) := by
        intro c'
        rw [aggregate_Q _ lv hlv g2 res c', hQ]
        exact Q_congr _ _ _ _ _ _ _ fun u hu => by rw [hcomp u hu]
      have hstep : QL lv0 res (memb.map fun x => (uniqueInverse labels1).getD x 0) = QL lv0 res memb + inc := by
        have e1 : QL lv0 res (memb.map fun x => (uniqueInverse labels1).getD x 0)
            = QL lv res (uniqueInverse labels1) := by
          show Q lv0.n _ _ _ res _ = Q lv.n _ _ _ res _
          rw [hQ (labOf (uniqueInverse labels1))]
          exact Q_congr _ _ _ _ _ _ _ fun u hu => hcomp u hu
        have e2 : QL lv res (arange lv.n) = QL lv0 res memb := by
          show Q lv.n _ _ _ res _ = Q lv0.n _ _ _ res _
          rw [hQ (labOf (arange lv.n))]
          exact Q_congr _ _ _ _ _ _ _ fun u hu => labOf_range lv.n _ (hmb u hu)
        rw [e1, g3, e2]
      split at h
      · simp only [Option.some.injEq] at h
        subst h
        exact ⟨[inc], rfl, by simpa using g1, hmlen', by simpa using hstep⟩
      · have hmb' : ∀ u, u < lv0.n →
            labOf (memb.map fun x => (uniqueInverse labels1).getD x 0) u < (aggregate (uniqueInverse labels1) lv).n := by
          intro u hu
          rw [hcomp u hu]
          exact labOf_lt_nLabels _ _ (by rw [g2]; exact hmb u hu)
        obtain ⟨extra, k1, k2, k3, k4⟩ := ih _ _ _ _ out g4 hmlen' hmb' hQ' h
        refine ⟨inc :: extra, by rw [k1]; simp, ?_, k3, ?_⟩
        · intro x hx
          rcases List.mem_cons.mp hx with rfl | hx
          · exact g1
          · exact k2 x hx
        · rw [k4, hstep, List.sum_cons]; ring

end SkNet.Modularity
