/-
`Louvain.fit` with `shuffle_nodes=True`: the fit runs on the adjacency renumbered by the permutation the random state
drew and the labels are brought back; the objective of every kind is invariant under the renumbering, so the
clauses of C06 carry over to every shuffle seed.
-/
import SkNet.Lemmas.ModularityRelabel
import SkNet.Lemmas.ModularityFitComp

namespace SkNet.Modularity
open Finset

/-- sums restricted to pairs of equal label depend on the partition only -/
theorem sameSum_congr (n : Nat) (c c' : Nat → Nat) (F : Nat → Nat → Rat)
    (h : ∀ i j, i < n → j < n → (c i = c j ↔ c' i = c' j)) :
    (sumTo n fun i => sumTo n fun j => if c i = c j then F i j else 0)
      = sumTo n fun i => sumTo n fun j => if c' i = c' j then F i j else 0 := by
  refine sumTo_congr fun i hi => sumTo_congr fun j hj => ?_
  by_cases hc : c i = c j
  · rw [if_pos hc, if_pos ((h i j hi hj).mp hc)]
  · rw [if_neg hc, if_neg (fun h' => hc ((h i j hi hj).mpr h'))]

theorem objective_partition_congr (kind : Kind) (n : Nat) (A : Nat → Nat → Rat) (γ : Rat) (c c' : Nat → Nat)
    (h : ∀ i j, i < n → j < n → (c i = c j ↔ c' i = c' j)) :
    objective kind n A γ c = objective kind n A γ c' := by
  cases kind <;> simp only [objective]
  · rw [sameSum_congr n c c' _ h]
  · rw [sameSum_congr n c c' _ h]
  · rw [sameSum_congr n c c' (fun i j => A i j) h,
      sameSum_congr n c c' (fun _ _ => 1 / ((n : Rat) * (n : Rat))) h]

/-- **the objective of every kind is invariant under a renumbering of the nodes** -/
theorem objective_relabel {n : Nat} {π π' : Nat → Nat} (h : IsPerm n π π') (kind : Kind) (A : Nat → Nat → Rat)
    (γ : Rat) (c : Nat → Nat) :
    objective kind n (relabelMat π' A) γ (relabelVec π' c) = objective kind n A γ c := by
  cases kind <;> simp only [objective, totalWeight_relabel h, outDeg_relabel h, inDeg_relabel h]
  · congr 1
    exact sumTo_perm₂ h fun i j =>
      if c i = c j then A i j - γ * (outDeg n A i * inDeg n A j / totalWeight n A) else 0
  · congr 1
    exact sumTo_perm₂ h fun i j =>
      if c i = c j then A i j - γ * (outDeg n A i * outDeg n A j / totalWeight n A) else 0
  · congr 2
    · exact sumTo_perm₂ h fun i j => if c i = c j then A i j else 0
    · exact sumTo_perm₂ h fun i j => if c i = c j then 1 / ((n : Rat) * (n : Rat)) else 0

/-- the permutation `random_state.permutation(arange(n))` as a pair of inverse maps -/
theorem isPerm_of_index (n : Nat) (index : List Nat) (hp : index.Perm (List.range n)) :
    IsPerm n (fun v => index.idxOf v) (fun a => index.getD a 0) := by
  have hlen : index.length = n := by rw [hp.length_eq, List.length_range]
  have hnd : index.Nodup := hp.nodup_iff.mpr List.nodup_range
  have hmem : ∀ x, x ∈ index ↔ x < n := fun x => by rw [hp.mem_iff, List.mem_range]
  have hget : ∀ a (ha : a < n), index.getD a 0 = index[a]'(by rw [hlen]; exact ha) := by
    intro a ha
    rw [List.getD_eq_getElem?_getD, List.getElem?_eq_getElem (by rw [hlen]; exact ha)]
    rfl
  refine ⟨?_, ?_, ?_, ?_⟩
  · intro i hi
    have : index.idxOf i < index.length := List.idxOf_lt_length_iff.mpr ((hmem i).mpr hi)
    rw [hlen] at this; exact this
  · intro a ha
    rw [hget a ha]
    exact (hmem _).mp (List.getElem_mem _)
  · intro i hi
    have hlt : index.idxOf i < index.length := List.idxOf_lt_length_iff.mpr ((hmem i).mpr hi)
    show index.getD (index.idxOf i) 0 = i
    rw [List.getD_eq_getElem?_getD, List.getElem?_eq_getElem hlt]
    simp
  · intro a ha
    show index.idxOf (index.getD a 0) = a
    rw [hget a ha]
    exact hnd.idxOf_getElem a (by rw [hlen]; exact ha)

theorem connected_relabel {n : Nat} {π π' : Nat → Nat} (h : IsPerm n π π') (A : Nat → Nat → Rat) (a b : Nat)
    (hc : Connected n (relabelMat π' A) a b) : Connected n A (π' a) (π' b) := by
  induction hc with
  | refl ha => exact Connected.refl (h.lt' _ ha)
  | step _ hw hl ih => exact Connected.step ih (h.lt' _ hw) hl

/-- **Louvain.fit with `shuffle_nodes=True`** (as compiled, exact arithmetic), for every permutation the random state
    may draw: objective of the returned labels = objective of the singletons + Σ logged increases, each `≥ 0`, and
    clusters inside connected components — all on the matrix in its original numbering. -/
theorem louvainFitShuffled_spec (kind : Kind) (res tolOpt tolAgg : Rat) (nAgg : Int) (nRow nCol nnz : Nat)
    (B : Nat → Nat → Rat) (fb : Bool) (index : List Nat)
    (hp : index.Perm (List.range (kindAdj kind nRow nCol B fb).1)) (out : FitOut)
    (h : louvainFitShuffled kind res tolOpt tolAgg nAgg nRow nCol nnz B fb index = .ok (some out)) :
    objective kind (kindAdj kind nRow nCol B fb).1 (kindAdj kind nRow nCol B fb).2 res (labOf out.labels)
      = objective kind (kindAdj kind nRow nCol B fb).1 (kindAdj kind nRow nCol B fb).2 res (fun u => u)
        + out.increases.sum ∧
    (∀ x ∈ out.increases, 0 ≤ x) ∧
    ∀ u v, u < (kindAdj kind nRow nCol B fb).1 → v < (kindAdj kind nRow nCol B fb).1 →
      labOf out.labels u = labOf out.labels v →
      Connected (kindAdj kind nRow nCol B fb).1 (kindAdj kind nRow nCol B fb).2 u v := by
  generalize hn : (kindAdj kind nRow nCol B fb).1 = n at hp h ⊢
  generalize hA : (kindAdj kind nRow nCol B fb).2 = A at h ⊢
  have hperm := isPerm_of_index n index hp
  have hlen : index.length = n := by rw [hp.length_eq, List.length_range]
  unfold louvainFitShuffled at h
  rw [hn, hA] at h
  split at h
  · cases h
  · cases h
  · rename_i out' hfit
    simp only [Except.ok.injEq, Option.some.injEq] at h
    subst h
    have hfit' : louvainFitAdj kind res tolOpt tolAgg nAgg n
        (relabelMat (fun a => index.getD a 0) A) nnz = .ok (some out') := hfit
    obtain ⟨k1, k2, k3⟩ := louvainFitAdj_spec kind res tolOpt tolAgg nAgg n _ nnz out' hfit'
    have kc := louvainFitAdj_comp kind res tolOpt tolAgg nAgg n _ nnz out' hfit'
    -- the labels brought back to the original numbering
    have hlab : ∀ v, v < n → labOf (unshuffle index out'.labels) v = labOf out'.labels (index.idxOf v) := by
      intro v hv
      unfold unshuffle labOf
      rw [tab_getD, if_pos (by rw [hlen]; exact hv)]
    refine ⟨?_, k3, ?_⟩
    · have e1 : objective kind n A res (labOf (unshuffle index out'.labels))
          = objective kind n A res (fun v => labOf out'.labels (index.idxOf v)) :=
        objective_partition_congr kind n A res _ _ fun i j hi hj => by rw [hlab i hi, hlab j hj]
      have e2 : objective kind n A res (fun v => labOf out'.labels (index.idxOf v))
          = objective kind n (relabelMat (fun a => index.getD a 0) A) res (labOf out'.labels) := by
        rw [← objective_relabel hperm kind A res (fun v => labOf out'.labels (index.idxOf v))]
        refine objective_partition_congr kind n _ res _ _ fun i j hi hj => ?_
        unfold relabelVec
        simp only [hperm.right i hi, hperm.right j hj]
      have e3 : objective kind n (relabelMat (fun a => index.getD a 0) A) res (fun u => u)
          = objective kind n A res (fun u => u) := by
        have a1 : objective kind n (relabelMat (fun a => index.getD a 0) A) res (fun u => u)
            = objective kind n (relabelMat (fun a => index.getD a 0) A) res
                (relabelVec (fun a => index.getD a 0) (fun v => index.idxOf v)) := by
          refine objective_partition_congr kind n _ res _ _ fun i j hi hj => ?_
          unfold relabelVec
          simp only [hperm.right i hi, hperm.right j hj]
        have a2 : objective kind n A res (fun v => index.idxOf v) = objective kind n A res (fun u => u) := by
          refine objective_partition_congr kind n _ res _ _ fun i j hi hj => ?_
          constructor
          · intro hh
            have hh2 : index.idxOf i = index.idxOf j := hh
            have hh' : index.getD (index.idxOf i) 0 = index.getD (index.idxOf j) 0 := by rw [hh2]
            have li : index.getD (index.idxOf i) 0 = i := hperm.left i hi
            have lj : index.getD (index.idxOf j) 0 = j := hperm.left j hj
            rw [li, lj] at hh'
            exact hh'
          · intro hh; rw [hh]
        rw [a1, objective_relabel hperm kind A res (fun v => index.idxOf v), a2]
      rw [e1, e2, k2, e3]
    · intro u v hu hv huv
      rw [hlab u hu, hlab v hv] at huv
      have := connected_relabel hperm A _ _ (kc _ _ (hperm.lt u hu) (hperm.lt v hv) huv)
      simp only [hperm.left u hu, hperm.left v hv] at this
      exact this

end SkNet.Modularity
