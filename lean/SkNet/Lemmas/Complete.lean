/- Completeness of the traversal of `get_cycles` on a directed graph: every simple path that extends a stacked
   path is explored, hence every back edge of such a path is recorded. -/
import SkNet.Model.Cycles
import SkNet.Spec.Connectivity
import SkNet.Lemmas.GetCycles
import SkNet.Lemmas.Dedup
import SkNet.Lemmas.Reach

namespace SkNet.Cycles
open SkNet SkNet.Connectivity

/-! ### what one pop does (directed graph) -/

theorem cyclesNeighbors_effect (rp : List Nat) (nbs : List Nat) (stack cycles : List (List Nat)) :
    (∀ p ∈ stack, p ∈ (cyclesNeighbors true rp nbs (stack, cycles)).1) ∧
    (∀ c ∈ cycles, c ∈ (cyclesNeighbors true rp nbs (stack, cycles)).2) ∧
    (∀ nb ∈ nbs, nb ∉ rp → (nb :: rp) ∈ (cyclesNeighbors true rp nbs (stack, cycles)).1) ∧
    (∀ nb ∈ nbs, nb ∈ rp → cycleOf rp nb ∈ (cyclesNeighbors true rp nbs (stack, cycles)).2) := by
  induction nbs generalizing stack cycles with
  | nil => simp [cyclesNeighbors]
  | cons nb rest ih =>
    unfold cyclesNeighbors
    simp only [Bool.not_true, Bool.false_and, Bool.false_eq_true, ↓reduceIte]
    by_cases hin : rp.contains nb = true
    · simp only [hin, ↓reduceIte]
      obtain ⟨h1, h2, h3, h4⟩ := ih stack (cycles ++ [cycleOf rp nb])
      refine ⟨h1, fun c hc => h2 c (List.mem_append_left _ hc), ?_, ?_⟩
      · intro x hx hxn
        rcases List.mem_cons.mp hx with rfl | hx
        · exact absurd (by simpa using hin) hxn
        · exact h3 x hx hxn
      · intro x hx hxin
        rcases List.mem_cons.mp hx with rfl | hx
        · exact h2 _ (List.mem_append_right _ (by simp))
        · exact h4 x hx hxin
    · simp only [hin, Bool.false_eq_true, ↓reduceIte]
      obtain ⟨h1, h2, h3, h4⟩ := ih ((nb :: rp) :: stack) cycles
      refine ⟨fun p hp => h1 p (List.mem_cons_of_mem _ hp), h2, ?_, ?_⟩
      · intro x hx hxn
        rcases List.mem_cons.mp hx with rfl | hx
        · exact h1 _ List.mem_cons_self
        · exact h3 x hx hxn
      · intro x hx hxin
        rcases List.mem_cons.mp hx with rfl | hx
        · exact absurd hxin (by simpa using hin)
        · exact h4 x hx hxin

/-- `rp'` is reached from `rp` by pushing successors of the last node that are not yet on the path -/
inductive Extends (adj : Nat → List Nat) : List Nat → List Nat → Prop
  | refl (rp : List Nat) : Extends adj rp rp
  | step {rp rp' : List Nat} {x : Nat} : x ∈ adj (rp.headD 0) → x ∉ rp → Extends adj (x :: rp) rp' → Extends adj rp rp'

/-- ★ exploration: when the loop ends, the cycles recorded so far are kept and every back edge of every simple
    extension of every stacked path has been recorded. -/
theorem cyclesLoop_explores (adj : Nat → List Nat) (fuel : Nat) (stack cycles out : List (List Nat))
    (h : cyclesLoop adj true fuel stack cycles = some out) :
    (∀ c ∈ cycles, c ∈ out) ∧
    ∀ rp ∈ stack, ∀ rp', Extends adj rp rp' → ∀ nb ∈ adj (rp'.headD 0), nb ∈ rp' → cycleOf rp' nb ∈ out := by
  induction fuel generalizing stack cycles with
  | zero => simp [cyclesLoop] at h
  | succ fuel ih =>
    unfold cyclesLoop at h
    match stack with
    | [] =>
      simp only at h
      cases h
      exact ⟨fun c hc => hc, fun rp hrp => by cases hrp⟩
    | rp0 :: rest =>
      simp only at h
      obtain ⟨e1, e2, e3, e4⟩ := cyclesNeighbors_effect rp0 (adj (rp0.headD 0)) rest cycles
      obtain ⟨ihc, ihs⟩ := ih _ _ h
      refine ⟨fun c hc => ihc c (e2 c hc), ?_⟩
      intro rp hrp rp' hext nb hnb hin
      rcases List.mem_cons.mp hrp with rfl | hrp
      · cases hext with
        | refl => exact ihc _ (e4 nb hnb hin)
        | step hx hxn hrest => exact ihs _ (e3 _ hx hxn) rp' hrest nb hnb hin
      · exact ihs rp (e1 rp hrp) rp' hext nb hnb hin

theorem cyclesFromStarts_explores (adj : Nat → List Nat) (fuel : Nat) (starts : List Nat)
    (cycles out : List (List Nat)) (h : cyclesFromStarts adj true fuel starts cycles = some out) :
    (∀ c ∈ cycles, c ∈ out) ∧
    ∀ s ∈ starts, ∀ rp', Extends adj [s] rp' → ∀ nb ∈ adj (rp'.headD 0), nb ∈ rp' → cycleOf rp' nb ∈ out := by
  induction starts generalizing cycles with
  | nil => simp only [cyclesFromStarts] at h; cases h; exact ⟨fun c hc => hc, fun s hs => by cases hs⟩
  | cons s rest ih =>
    unfold cyclesFromStarts at h
    split at h
    · cases h
    · rename_i cycles' hl
      obtain ⟨l1, l2⟩ := cyclesLoop_explores adj fuel [[s]] cycles cycles' hl
      obtain ⟨r1, r2⟩ := ih cycles' h
      refine ⟨fun c hc => r1 c (l1 c hc), ?_⟩
      intro x hx rp' hext nb hnb hin
      rcases List.mem_cons.mp hx with rfl | hx
      · exact r1 _ (l2 [x] (by simp) rp' hext nb hnb hin)
      · exact r2 x hx rp' hext nb hnb hin

/-- a forward simple path that continues `rp` is an extension of `rp` -/
theorem extends_of_chain (adj : Nat → List Nat) (e : List Nat) (rp : List Nat) (hne : rp ≠ [])
    (hch : isChain adj (rp.reverse ++ e) = true) (hnd : (rp.reverse ++ e).Nodup) :
    Extends adj rp (e.reverse ++ rp) := by
  induction e generalizing rp with
  | nil => exact Extends.refl rp
  | cons x e ih =>
    have hre : rp.reverse ++ x :: e = (x :: rp).reverse ++ e := by simp
    have := ih (x :: rp) (by simp) (by rw [← hre]; exact hch) (by rw [← hre]; exact hnd)
    have hgoal : (x :: e).reverse ++ rp = e.reverse ++ x :: rp := by simp
    rw [hgoal]
    refine Extends.step ?_ ?_ this
    · -- the link between the last node of `rp` and `x`
      rw [isChain_append] at hch
      simp only [Bool.and_eq_true] at hch
      have hl := hch.2
      obtain ⟨y, t, rfl⟩ := List.exists_cons_of_ne_nil hne
      simp only [linkB, List.reverse_cons, List.getLast?_append, List.getLast?_singleton, List.head?_cons] at hl
      simpa using hl
    · intro hx
      have : x ∈ rp.reverse := by simpa using hx
      exact (List.nodup_append.mp hnd).2.2 x this x List.mem_cons_self rfl

end SkNet.Cycles

namespace SkNet.Cycles
open SkNet SkNet.Connectivity

/-! ### from reachability to a simple path, stopped at its first node in a given set -/

theorem split_at_first_p (p : Nat → Bool) {l : List Nat} (h : ∃ y ∈ l, p y = true) :
    ∃ tw y rest, l = tw ++ y :: rest ∧ p y = true ∧ ∀ v ∈ tw, p v = false := by
  induction l with
  | nil => obtain ⟨y, hy, _⟩ := h; cases hy
  | cons x t ih =>
    by_cases hx : p x = true
    · exact ⟨[], x, t, rfl, hx, by simp⟩
    · have : ∃ y ∈ t, p y = true := by
        obtain ⟨y, hy, hpy⟩ := h
        rcases List.mem_cons.mp hy with rfl | hy
        · exact absurd hpy hx
        · exact ⟨y, hy, hpy⟩
      obtain ⟨tw, y, rest, hl, hpy, htw⟩ := ih this
      refine ⟨x :: tw, y, rest, by rw [hl]; rfl, hpy, ?_⟩
      intro v hv
      rcases List.mem_cons.mp hv with rfl | hv
      · simpa using hx
      · exact htw v hv

/-- a forward simple path of the graph from `s` to `t` -/
structure FPath (adj : Nat → List Nat) (s t : Nat) (P : List Nat) : Prop where
  head : P.head? = some s
  last : P.getLast? = some t
  chain : isChain adj P = true
  nodup : P.Nodup

theorem FPath.prefix {adj : Nat → List Nat} {s t : Nat} {tw rest : List Nat} {y : Nat}
    (h : FPath adj s t (tw ++ y :: rest)) : FPath adj s y (tw ++ [y]) := by
  have hsplit : tw ++ y :: rest = (tw ++ [y]) ++ rest := by simp
  refine ⟨?_, by simp, ?_, ?_⟩
  · have := h.head
    cases tw with
    | nil => simpa using this
    | cons a tw => simpa using this
  · have := h.chain
    rw [hsplit, isChain_append] at this
    simp only [Bool.and_eq_true] at this
    exact this.1.1
  · have := h.nodup
    rw [hsplit] at this
    exact (List.nodup_append.mp this).1

theorem exists_fpath {adj : Nat → List Nat} {s t : Nat} (h : Reach adj s t) : ∃ P, FPath adj s t P := by
  induction h with
  | refl => exact ⟨[s], rfl, rfl, by simp [isChain], by simp⟩
  | @tail v w _ he ih =>
    obtain ⟨P, hP⟩ := ih
    by_cases hw : w ∈ P
    · obtain ⟨tw, y, rest, hl, hpy, _⟩ := split_at_first_p (fun x => x == w) ⟨w, hw, by simp⟩
      have : y = w := by simpa using hpy
      subst this
      rw [hl] at hP
      exact ⟨tw ++ [y], hP.prefix⟩
    · refine ⟨P ++ [w], ?_, by simp, ?_, ?_⟩
      · have := hP.head
        cases P with
        | nil => simp at this
        | cons a P => simpa using this
      · rw [isChain_append]
        simp only [hP.chain, isChain, Bool.true_and, Bool.and_true]
        simp only [linkB, hP.last, List.head?_cons]
        simpa using he
      · rw [List.nodup_append]
        exact ⟨hP.nodup, by simp, fun a ha b hb => by
          simp only [List.mem_singleton] at hb; subst hb; intro hab; subst hab; exact hw ha⟩

/-- a simple path from `s` that meets the set `inS` exactly at its last node -/
theorem exists_fpath_first_hit {adj : Nat → List Nat} {s t : Nat} (inS : Nat → Bool) (h : Reach adj s t)
    (ht : inS t = true) :
    ∃ tw y, FPath adj s y (tw ++ [y]) ∧ inS y = true ∧ ∀ v ∈ tw, inS v = false := by
  obtain ⟨P, hP⟩ := exists_fpath h
  have hmem : t ∈ P := List.mem_of_getLast? hP.last
  obtain ⟨tw, y, rest, hl, hpy, htw⟩ := split_at_first_p inS ⟨t, hmem, ht⟩
  rw [hl] at hP
  exact ⟨tw, y, hP.prefix, hpy, htw⟩

end SkNet.Cycles

namespace SkNet.Cycles
open SkNet SkNet.Connectivity

theorem takeWhile_append_stop (p : Nat → Bool) (l1 : List Nat) (y : Nat) (l2 : List Nat)
    (h1 : ∀ v ∈ l1, p v = true) (hy : p y = false) : (l1 ++ y :: l2).takeWhile p = l1 := by
  induction l1 with
  | nil => simp [hy]
  | cons a l ih =>
    have ha : p a = true := h1 a List.mem_cons_self
    simp only [List.cons_append, List.takeWhile_cons, ha, ↓reduceIte, List.cons.injEq, true_and]
    exact ih (fun v hv => h1 v (List.mem_cons_of_mem _ hv))

/-- equal up to rotation -/
def IsRotation (c d : List Nat) : Prop := ∃ x y, c = x ++ y ∧ d = y ++ x

/-- a start node that reaches a simple cycle has a simple path onto it and once around it: the reversed path
    `(b ++ a).reverse ++ y0 :: tw.reverse` extends `[s]`, ends at the node before `y0` on the cycle, and `y0` is a
    successor of that last node -/
theorem path_around_cycle {n : Nat} {adj : Nat → List Nat} {s : Nat} {C : List Nat} (hC : IsSimpleCycle n adj true C)
    {c : Nat} (hc : c ∈ C) (hreach : Reach adj s c) :
    ∃ (a b : List Nat) (y0 : Nat) (tw : List Nat), C = a ++ y0 :: b ∧ (y0 :: (b ++ a)).Nodup ∧
      Extends adj [s] ((b ++ a).reverse ++ y0 :: tw.reverse) ∧
      y0 ∈ adj (((b ++ a).reverse ++ y0 :: tw.reverse).headD 0) := by
  obtain ⟨tw, y0, hP, hy0, htw⟩ := exists_fpath_first_hit (adj := adj) (fun v => C.contains v) hreach (by simpa using hc)
  have hy0C : y0 ∈ C := by simpa using hy0
  obtain ⟨a, b, hsplit⟩ := List.append_of_mem hy0C
  -- the cycle written from y0: y0 :: L with L = b ++ a
  have hrot : (y0 :: b) ++ a = y0 :: (b ++ a) := rfl
  have hC' : IsSimpleCycle n adj true (y0 :: (b ++ a)) := by
    have := isSimpleCycle_rotate hC a.length
    rw [hsplit] at this
    simpa using this
  obtain ⟨hnd', _, hcl', _⟩ := hC'
  rw [isClosedChain_iff] at hcl'
  obtain ⟨_, hch', hlink'⟩ := hcl'
  have hperm : (y0 :: (b ++ a)).Perm C := by
    rw [hsplit, ← hrot]; exact List.perm_append_comm
  -- the forward path: tw, then the whole cycle from y0
  have hchF : isChain adj (tw ++ (y0 :: (b ++ a))) = true := by
    have h1 := hP.chain
    rw [isChain_append] at h1 ⊢
    simp only [Bool.and_eq_true] at h1 ⊢
    refine ⟨⟨h1.1.1, hch'⟩, ?_⟩
    have : linkB adj tw (y0 :: (b ++ a)) = linkB adj tw [y0] := by simp [linkB]
    rw [this]; exact h1.2
  have hndF : (tw ++ (y0 :: (b ++ a))).Nodup := by
    rw [List.nodup_append]
    refine ⟨(List.nodup_append.mp hP.nodup).1, hnd', fun u hu v hv huv => ?_⟩
    subst huv
    have h1 : u ∉ C := by simpa using htw u hu
    exact h1 (hperm.mem_iff.mp hv)
  -- its first node is s
  obtain ⟨F', hF'⟩ : ∃ F', tw ++ (y0 :: (b ++ a)) = s :: F' := by
    have := hP.head
    cases tw with
    | nil =>
      have hys : y0 = s := by simpa using this
      exact ⟨b ++ a, by rw [hys]; rfl⟩
    | cons x tw =>
      have hxs : x = s := by simpa using this
      exact ⟨tw ++ (y0 :: (b ++ a)), by rw [hxs]; rfl⟩
  have e1 : [s].reverse ++ F' = tw ++ (y0 :: (b ++ a)) := by rw [hF']; rfl
  have hext : Extends adj [s] (F'.reverse ++ [s]) :=
    extends_of_chain adj F' [s] (by simp) (by rw [e1]; exact hchF) (by rw [e1]; exact hndF)
  have hrp' : F'.reverse ++ [s] = (b ++ a).reverse ++ y0 :: tw.reverse := by
    have h1 : F'.reverse ++ [s] = (s :: F').reverse := by simp
    rw [h1, ← hF']
    simp
  -- the closing edge
  have hlast : (y0 :: (b ++ a)).getLast? = some (((b ++ a).reverse ++ y0 :: tw.reverse).headD 0) := by
    rcases List.eq_nil_or_concat (b ++ a) with hL | ⟨L', z, hL⟩
    · rw [hL]; rfl
    · rw [hL, List.concat_eq_append]
      have h1 : y0 :: (L' ++ [z]) = (y0 :: L') ++ [z] := rfl
      rw [h1, List.getLast?_append]
      simp
  have hedge : y0 ∈ adj (((b ++ a).reverse ++ y0 :: tw.reverse).headD 0) := by
    simp only [linkB, hlast, List.head?_cons] at hlink'
    simpa using hlink'
  exact ⟨a, b, y0, tw, hsplit, hnd', hrp' ▸ hext, hedge⟩

/-- ★ a simple cycle that some start node reaches is recorded by the traversal, written from the node where
    a simple path from the start first meets it -/
theorem cycle_found {n : Nat} {adj : Nat → List Nat} (fuel : Nat) (starts : List Nat)
    (cycles out : List (List Nat)) (h : cyclesFromStarts adj true fuel starts cycles = some out)
    {s : Nat} (hs : s ∈ starts) {C : List Nat} (hC : IsSimpleCycle n adj true C)
    {c : Nat} (hc : c ∈ C) (hreach : Reach adj s c) :
    ∃ d ∈ out, IsRotation C d := by
  obtain ⟨a, b, y0, tw, hsplit, hnd', hext, hedge⟩ := path_around_cycle hC hc hreach
  have hin : y0 ∈ (b ++ a).reverse ++ y0 :: tw.reverse := by simp
  have hfound := (cyclesFromStarts_explores adj fuel starts cycles out h).2 s hs _ hext y0 hedge hin
  refine ⟨_, hfound, a, y0 :: b, hsplit, ?_⟩
  -- the recorded list is the cycle written from y0
  unfold cycleOf
  have hstop : ((b ++ a).reverse ++ y0 :: tw.reverse).takeWhile (· != y0) = (b ++ a).reverse := by
    apply takeWhile_append_stop
    · intro v hv
      have hv' : v ∈ b ++ a := List.mem_reverse.mp hv
      have hne : v ≠ y0 := by
        intro hvy; subst hvy
        exact (List.nodup_cons.mp hnd').1 hv'
      simpa using hne
    · simp
  rw [hstop, List.reverse_reverse]
  rfl

end SkNet.Cycles

namespace SkNet.Cycles
open SkNet SkNet.Connectivity

/-! ### the duplicate removal loses no directed cycle -/

theorem dedupCycles_complete (cycles visited unique : List (List Nat)) (hvu : ∀ k ∈ visited, k ∈ unique) :
    (∀ u ∈ unique, u ∈ dedupCycles true cycles (visited, unique)) ∧
    ∀ c ∈ cycles, rollMin c ∈ dedupCycles true cycles (visited, unique) := by
  induction cycles generalizing visited unique with
  | nil => exact ⟨fun u hu => by simpa [dedupCycles] using hu, fun c hc => by cases hc⟩
  | cons cy rest ih =>
    unfold dedupCycles
    simp only [↓reduceIte]
    by_cases hin : visited.contains (rollMin cy) = true
    · simp only [hin, ↓reduceIte]
      obtain ⟨h1, h2⟩ := ih visited unique hvu
      refine ⟨h1, fun c hc => ?_⟩
      rcases List.mem_cons.mp hc with rfl | hc
      · exact h1 _ (hvu _ (by simpa using hin))
      · exact h2 c hc
    · simp only [hin, Bool.false_eq_true, ↓reduceIte]
      obtain ⟨h1, h2⟩ := ih (rollMin cy :: visited) (unique ++ [rollMin cy]) (by
        intro k hk
        rcases List.mem_cons.mp hk with rfl | hk
        · simp
        · exact List.mem_append_left _ (hvu k hk))
      refine ⟨fun u hu => h1 u (List.mem_append_left _ hu), fun c hc => ?_⟩
      rcases List.mem_cons.mp hc with rfl | hc
      · exact h1 _ (by simp)
      · exact h2 c hc

/-- rotating a rotation of `C` is a rotation of `C` -/
theorem isRotation_drop_take {C d : List Nat} (h : IsRotation C d) (k : Nat) :
    IsRotation C (d.drop k ++ d.take k) := by
  obtain ⟨A, B, rfl, rfl⟩ := h
  by_cases hk : k ≤ B.length
  · refine ⟨A ++ B.take k, B.drop k, by simp, ?_⟩
    rw [List.drop_append_of_le_length hk, List.take_append_of_le_length hk]
    simp
  · have hk' : B.length ≤ k := by omega
    refine ⟨A.take (k - B.length), A.drop (k - B.length) ++ B, ?_, ?_⟩
    · rw [← List.append_assoc, List.take_append_drop]
    · rw [List.drop_append, List.take_append, List.drop_eq_nil_of_le hk', List.take_of_length_le hk']
      simp

theorem isRotation_rollMin {C d : List Nat} (h : IsRotation C d) : IsRotation C (rollMin d) :=
  isRotation_drop_take h _

end SkNet.Cycles

namespace SkNet.Cycles
open SkNet SkNet.Connectivity

/-! ### cycles and reachability -/

theorem chain_reach_head {adj : Nat → List Nat} (x : Nat) (l : List Nat) (h : isChain adj (x :: l) = true) :
    ∀ y ∈ l, Reach adj x y := by
  induction l generalizing x with
  | nil => intro y hy; cases hy
  | cons z l ih =>
    rw [isChain_cons_cons] at h
    simp only [Bool.and_eq_true, List.contains_iff_mem] at h
    intro y hy
    rcases List.mem_cons.mp hy with rfl | hy
    · exact Reach.edge h.1
    · exact (Reach.edge h.1).trans (ih z h.2 y hy)

/-- in a closed chain every node reaches every node -/
theorem closedChain_reach {adj : Nat → List Nat} {C : List Nat} (h : IsClosedChain adj C) :
    ∀ u ∈ C, ∀ v ∈ C, Reach adj u v := by
  cases C with
  | nil => intro u hu; cases hu
  | cons hd t =>
    have hch : isChain adj (hd :: (t ++ [hd])) = true := h
    have hfrom : ∀ v ∈ hd :: t, Reach adj hd v := by
      intro v hv
      rcases List.mem_cons.mp hv with rfl | hv
      · exact Reach.refl _
      · exact chain_reach_head hd _ hch v (List.mem_append_left _ hv)
    have hto : ∀ u ∈ hd :: t, Reach adj u hd := by
      intro u hu
      rcases List.mem_cons.mp hu with rfl | hu
      · exact Reach.refl _
      · obtain ⟨p, q, rfl⟩ := List.append_of_mem hu
        -- the chain from u on: u :: q ++ [hd]
        have h2 : hd :: ((p ++ u :: q) ++ [hd]) = (hd :: p) ++ (u :: (q ++ [hd])) := by simp
        rw [h2, isChain_append] at hch
        simp only [Bool.and_eq_true] at hch
        exact chain_reach_head u _ hch.1.2 hd (by simp)
    intro u hu v hv
    exact (hto u hu).trans (hfrom v hv)

/-- a graph with a cycle has a simple cycle -/
theorem exists_simpleCycle_of_hasCycle {n : Nat} {adj : Nat → List Nat} (hwf : ∀ u, u < n → ∀ v ∈ adj u, v < n)
    (h : HasCycle n adj) : ∃ C, IsSimpleCycle n adj true C := by
  obtain ⟨u, v, hu, hv, hr⟩ := h
  obtain ⟨P, hP⟩ := exists_fpath hr
  have hvn : v < n := hwf u hu v hv
  obtain ⟨x, t, rfl⟩ : ∃ x t, P = x :: t := by
    cases P with
    | nil => have := hP.head; simp at this
    | cons x t => exact ⟨x, t, rfl⟩
  have hx : x = v := by simpa using hP.head
  subst hx
  refine ⟨x :: t, hP.nodup, ?_, ?_, Or.inl rfl⟩
  · intro w hw
    rcases List.mem_cons.mp hw with rfl | hw
    · exact hvn
    · exact Reach.lt hwf (chain_reach_head x t hP.chain w hw) hvn
  · show isChain adj (x :: t ++ [x]) = true
    rw [isChain_append]
    simp only [hP.chain, isChain, Bool.true_and, Bool.and_true]
    simp only [linkB, hP.last, List.head?_cons]
    simpa using hv

/-- a simple cycle is a cycle -/
theorem hasCycle_of_simpleCycle {n : Nat} {adj : Nat → List Nat} {d : Bool} {C : List Nat}
    (h : IsSimpleCycle n adj d C) : HasCycle n adj := by
  obtain ⟨_, hlt, hcl, _⟩ := h
  have hcl2 := (isClosedChain_iff adj C).mp hcl
  obtain ⟨hne, _, hlink⟩ := hcl2
  obtain ⟨hd, t, rfl⟩ := List.exists_cons_of_ne_nil hne
  have hlast : ∃ z, (hd :: t).getLast? = some z := by
    cases hl : (hd :: t).getLast? with
    | none => simp at hl
    | some z => exact ⟨z, rfl⟩
  obtain ⟨z, hz⟩ := hlast
  have hzm : z ∈ hd :: t := List.mem_of_getLast? hz
  simp only [linkB, hz, List.head?_cons] at hlink
  exact ⟨z, hd, hlt z hzm, by simpa using hlink, closedChain_reach hcl hd List.mem_cons_self z hzm⟩

end SkNet.Cycles
