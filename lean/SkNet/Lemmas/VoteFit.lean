/-
`Propagation.fit` (model `SkNet.Vote.fit`): what every sweep preserves is preserved by the stopping loop.
-/
import SkNet.Lemmas.VoteFixed
import Mathlib.Data.List.Nodup
import Mathlib.Data.List.Perm.Subperm
import Mathlib.Logic.Function.Iterate

namespace SkNet.Vote
open SkNet.Classify

attribute [-simp] List.getD_eq_getElem?_getD

/-- anything preserved by one sweep holds of the result of the loop -/
theorem propLoop_invariant (step : List Int → List Int) (key : List Int → List Int) (P : List Int → Prop)
    (hstep : ∀ l, P l → P (step l)) :
    ∀ (fuel : Nat) (nIter : Option Nat) (t : Nat) (seen : List (List Int)) (labels : List Int),
      P labels → ∀ l t', propLoop step key fuel nIter t seen labels = some (l, t') → P l := by
  intro fuel
  induction fuel with
  | zero => intro nIter t seen labels _ l t' h; simp [propLoop] at h
  | succ fuel ih =>
    intro nIter t seen labels hP l t' h
    unfold propLoop at h
    split at h
    · simp only [Option.some.injEq, Prod.mk.injEq] at h
      rw [← h.1]
      exact hP
    · exact ih _ _ _ _ (hstep _ hP) l t' h

theorem mem_argwhere (p : Int → Bool) (l : List Int) (j : Nat) :
    j ∈ argwhere p l ↔ j < l.length ∧ p (l.getD j (-1)) = true := by
  unfold argwhere
  simp [List.mem_filter]

theorem argwhere_nodup (p : Int → Bool) (l : List Int) : (argwhere p l).Nodup := by
  unfold argwhere
  exact List.Nodup.filter _ List.nodup_range

/-- the contract of `np.random.shuffle` / `np.argsort` on `k` positions: a permutation of `0 … k-1`, given as
    `k` distinct positions below `k` -/
def SigmaOK (sigma : Option (List Nat)) (k : Nat) : Prop :=
  ∀ s, sigma = some s → s.Nodup ∧ s.length = k ∧ ∀ q ∈ s, q < k

/-- `k` distinct numbers below `k` are all the numbers below `k` -/
theorem perm_complete (s : List Nat) (k : Nat) (hnd : s.Nodup) (hlen : s.length = k) (hlt : ∀ q ∈ s, q < k) :
    ∀ q, q < k → q ∈ s := by
  have hsub : s ⊆ List.range k := fun q hq => List.mem_range.mpr (hlt q hq)
  have hsp : s.Subperm (List.range k) := List.subperm_of_subset hnd hsub
  have hperm : s.Perm (List.range k) := hsp.perm_of_length_le (by simp [hlen])
  intro q hq
  exact hperm.symm.subset (List.mem_range.mpr hq)

theorem mem_reorder (ix : List Nat) (sigma : Option (List Nat)) (h : SigmaOK sigma ix.length) :
    ∀ j ∈ reorder ix sigma, j ∈ ix := by
  intro j hj
  unfold reorder at hj
  cases sigma with
  | none => exact hj
  | some s =>
    simp only [List.mem_map] at hj
    obtain ⟨q, hq, rfl⟩ := hj
    have hlt := (h s rfl).2.2 q hq
    rw [List.getD_eq_getElem?_getD, List.getElem?_eq_getElem hlt]
    exact List.getElem_mem hlt

/-- every node of the index is visited, whatever the order -/
theorem reorder_complete (ix : List Nat) (sigma : Option (List Nat)) (h : SigmaOK sigma ix.length) :
    ∀ j ∈ ix, j ∈ reorder ix sigma := by
  intro j hj
  unfold reorder
  cases sigma with
  | none => exact hj
  | some s =>
    obtain ⟨hnd, hlen, hlt⟩ := h s rfl
    obtain ⟨q, hq, rfl⟩ := List.mem_iff_getElem.mp hj
    simp only [List.mem_map]
    refine ⟨q, perm_complete s ix.length hnd hlen hlt q hq, ?_⟩
    rw [List.getD_eq_getElem?_getD, List.getElem?_eq_getElem hq]
    rfl

theorem reorder_nodup (ix : List Nat) (sigma : Option (List Nat)) (hix : ix.Nodup)
    (h : SigmaOK sigma ix.length) : (reorder ix sigma).Nodup := by
  unfold reorder
  cases sigma with
  | none => exact hix
  | some s =>
    obtain ⟨hnd, _, hlt⟩ := h s rfl
    simp only
    refine (List.nodup_map_iff_inj_on hnd).mpr ?_
    intro a ha b hb hab
    have h1 := hlt a ha
    have h2 := hlt b hb
    rw [List.getD_eq_getElem?_getD, List.getD_eq_getElem?_getD, List.getElem?_eq_getElem h1,
      List.getElem?_eq_getElem h2] at hab
    simp only [Option.getD_some] at hab
    exact (List.Nodup.getElem_inj_iff hix).mp hab

theorem withWeights_nonneg (c : Csr Rat) (w : Bool) (hw : ∀ p, 0 ≤ c.data.getD p 0) :
    ∀ p, 0 ≤ (withWeights c w).data.getD p 0 := by
  intro p
  unfold withWeights
  cases w with
  | true => exact hw p
  | false =>
    simp only [Bool.false_eq_true, if_false]
    by_cases h : p < c.indices.size
    · simp [Array.getD, h]
    · simp [Array.getD, h]

/-- the labels the loop starts from and the nodes it updates -/
def start (values : List Int) (sigma : Option (List Nat)) : List Int × List Nat :=
  ((instantiateVars values).1, reorder (instantiateVars values).2 sigma)

theorem fit_eq (c : Csr Rat) (values : List Int) (a : PropArgs) (fuel : Nat) :
    fit c values a fuel =
      propLoop (fun l => voteUpdate (withWeights c a.weighted) l (start values a.sigma).2)
        (fun l => config l (start values a.sigma).2) fuel a.nIter 0 [] (start values a.sigma).1 := by
  unfold fit start
  rfl

theorem instantiateVars_length (values : List Int) : (instantiateVars values).1.length = values.length := by
  unfold instantiateVars
  split <;> simp

theorem instantiateVars_index_lt (values : List Int) : ∀ j ∈ (instantiateVars values).2, j < values.length := by
  intro j hj
  unfold instantiateVars at hj
  split at hj
  · simpa using hj
  · dsimp only at hj
    exact ((mem_argwhere _ _ _).mp hj).1

theorem instantiateVars_index_nodup (values : List Int) : (instantiateVars values).2.Nodup := by
  unfold instantiateVars
  split
  · exact List.nodup_range
  · dsimp only
    exact argwhere_nodup _ _

/-- with at least two classes the seeds are not in the update index and start with their label -/
theorem instantiateVars_seed (values : List Int) (hs : singleClass values = false) (i : Nat)
    (hseed : 0 ≤ values.getD i (-1)) :
    i ∉ (instantiateVars values).2 ∧ (instantiateVars values).1.getD i (-1) = values.getD i (-1) := by
  unfold instantiateVars
  simp only [hs, Bool.false_eq_true, if_false]
  constructor
  · intro h
    have := ((mem_argwhere _ _ _).mp h).2
    simp only [decide_eq_true_eq] at this
    omega
  · by_cases hlt : i < values.length
    · rw [List.getD_eq_getElem?_getD, List.getD_eq_getElem?_getD, List.getElem?_map,
        List.getElem?_eq_getElem hlt]
      simp only [Option.map_some, Option.getD_some]
      rw [List.getD_eq_getElem?_getD, List.getElem?_eq_getElem hlt] at hseed
      simp only [Option.getD_some] at hseed
      simp [hseed]
    · rw [List.getD_eq_getElem?_getD, List.getD_eq_getElem?_getD, List.getElem?_eq_none (by simp; omega),
        List.getElem?_eq_none (by omega)]

/-- invariant of the loop of `fit` -/
structure FitInv (values : List Int) (sigma : Option (List Nat)) (l : List Int) : Prop where
  len : l.length = values.length
  sub : ∀ x ∈ l, x ∈ (start values sigma).1
  out : ∀ j d, j ∉ (start values sigma).2 → l.getD j d = (start values sigma).1.getD j d

theorem fitInv_result (c : Csr Rat) (hw : ∀ p, 0 ≤ c.data.getD p 0) (values : List Int) (a : PropArgs)
    (fuel : Nat) (hsig : SigmaOK a.sigma (instantiateVars values).2.length) (l : List Int) (t : Nat)
    (h : fit c values a fuel = some (l, t)) : FitInv values a.sigma l := by
  rw [fit_eq] at h
  have hidx : ∀ j ∈ (start values a.sigma).2, j < values.length := by
    intro j hj
    exact instantiateVars_index_lt values j (mem_reorder _ _ hsig j hj)
  refine propLoop_invariant _ _ (FitInv values a.sigma) ?_ fuel a.nIter 0 [] _ ?_ l t h
  · intro l0 h0
    refine ⟨by rw [voteUpdate_length, h0.len], ?_, ?_⟩
    · intro x hx
      apply h0.sub
      exact voteUpdate_subset _ (withWeights_nonneg c a.weighted hw) l0 _
        (fun i hi => by rw [h0.len]; exact hidx i hi) x hx
    · intro j d hj
      rw [voteUpdate_outside _ _ _ _ _ hj]
      exact h0.out j d hj
  · exact ⟨instantiateVars_length values, fun _ hx => hx, fun _ _ _ => rfl⟩

/-! ### why the loop stopped -/

/-- a sweep changes nothing on the nodes it updates iff it changes nothing at all: the test of the loop on
    `labels[index_remain]` is a test on the whole label vector -/
theorem voteUpdate_config_iff (c : Csr Rat) (labels : List Int) (index : List Nat) :
    config (voteUpdate c labels index) index = config labels index ↔ voteUpdate c labels index = labels := by
  constructor
  · intro h
    unfold config at h
    have hpt := List.map_inj_left.mp h
    have hlen := voteUpdate_length c labels index
    apply List.ext_getElem hlen
    intro j h1 h2
    have hget : ∀ (l : List Int) (hj : j < l.length), l[j] = l.getD j (-1) := by
      intro l hj
      rw [List.getD_eq_getElem?_getD, List.getElem?_eq_getElem hj]
      rfl
    rw [hget _ h1, hget _ h2]
    by_cases hm : j ∈ index
    · exact hpt j hm
    · exact voteUpdate_outside c labels index j (-1) hm
  · intro h
    rw [h]

/-- the result of the loop: either the allowed number of sweeps is exhausted, or the configuration of the result
    was seen before — on entry, or after an earlier sweep; the result is the iterate of the sweep -/
theorem propLoop_stop (step key : List Int → List Int) :
    ∀ (fuel : Nat) (nIter : Option Nat) (t : Nat) (seen : List (List Int)) (labels l : List Int) (t' : Nat),
      propLoop step key fuel nIter t seen labels = some (l, t') →
      t ≤ t' ∧ l = step^[t' - t] labels ∧
      ((∃ m, nIter = some m ∧ t' = t + m) ∨ key l ∈ seen ∨
        ∃ d, d < t' - t ∧ key (step^[d] labels) = key l) := by
  intro fuel
  induction fuel with
  | zero => intro nIter t seen labels l t' h; simp [propLoop] at h
  | succ fuel ih =>
    intro nIter t seen labels l t' h
    unfold propLoop at h
    split at h
    · rename_i hc
      simp only [Option.some.injEq, Prod.mk.injEq] at h
      obtain ⟨rfl, rfl⟩ := h
      refine ⟨le_refl _, by simp, ?_⟩
      simp only [Bool.or_eq_true, beq_iff_eq, List.contains_iff_mem] at hc
      rcases hc with hc | hc
      · exact Or.inl ⟨0, hc, rfl⟩
      · exact Or.inr (Or.inl hc)
    · rename_i hc
      simp only [Bool.or_eq_true, beq_iff_eq, List.contains_iff_mem, not_or] at hc
      obtain ⟨h1, h2, h3⟩ := ih _ _ _ _ _ _ h
      have hsub : t' - t = (t' - (t + 1)) + 1 := by omega
      refine ⟨by omega, ?_, ?_⟩
      · rw [h2, hsub, Function.iterate_succ_apply]
      · rcases h3 with ⟨m', hm', ht'⟩ | hk | ⟨d, hd, hkd⟩
        · left
          cases nIter with
          | none => simp at hm'
          | some m =>
            simp only [Option.map_some, Option.some.injEq] at hm'
            have hm0 : m ≠ 0 := fun h0 => hc.1 (by rw [h0])
            exact ⟨m, rfl, by omega⟩
        · rcases List.mem_cons.mp hk with hk | hk
          · right; right
            exact ⟨0, by omega, by simpa using hk.symm⟩
          · exact Or.inr (Or.inl hk)
        · right; right
          refine ⟨d + 1, by omega, ?_⟩
          rw [Function.iterate_succ_apply]
          exact hkd

/-- with at least two classes the nodes updated are exactly the nodes without a given label; otherwise all nodes -/
theorem mem_instantiateVars_index (values : List Int) (i : Nat) :
    i ∈ (instantiateVars values).2 ↔
      i < values.length ∧ (singleClass values = true ∨ values.getD i (-1) < 0) := by
  unfold instantiateVars
  cases hs : singleClass values with
  | true => simp
  | false =>
    simp only [Bool.false_eq_true, if_false, false_or]
    rw [mem_argwhere]
    simp

end SkNet.Vote
