/-
Well-formedness of the documents built by the models of Model/Svg.lean.

`Inner ps` : the pieces are lexically sound and form a sequence of complete elements / character data that can stand
inside any open element.  Every template is `Inner` when its colour and number tokens are attribute-safe, every name
gives `Inner` character data whatever it contains (`escape_inner`), loops keep `Inner`; a header, `Inner` content and
the closing tag make a well-formed document (`wf_document`).
-/
import SkNet.Lemmas.XmlParse
import SkNet.Model.Svg

namespace SkNet.Svg

/-- the string can stand between double quotes as an attribute value: XML characters other than `<`, `"`, and `&`
    only as the start of a reference -/
def SafeStr (s : PyStr) : Prop := ValOk 34 s

theorem safeStr_iff (s : PyStr) : SafeStr s ↔ attrValOk 34 (s.length + 1) s = true :=
  ⟨fun h => h.check _ (by omega), ValOk.of_check _ _⟩

instance (s : PyStr) : Decidable (SafeStr s) := decidable_of_iff _ (safeStr_iff s).symm

theorem SafeStr.nil : SafeStr [] := ValOk.nil

theorem SafeStr.append {a b : PyStr} (ha : SafeStr a) (hb : SafeStr b) : SafeStr (a ++ b) := ValOk.append ha hb

theorem SafeStr.cons {c : Nat} {b : PyStr} (hc : attrCharOk 34 c = true) (hb : SafeStr b) : SafeStr (c :: b) := by
  simp only [attrCharOk, Bool.and_eq_true, bne_iff_ne, ne_eq] at hc
  exact ValOk.chr c b hc.1.1.1 hc.1.1.2 hc.1.2 hc.2 hb

/-- every string of the list is attribute-safe -/
def AllSafe (l : List PyStr) : Prop := ∀ c ∈ l, SafeStr c

theorem AllSafe.getD {l : List PyStr} (h : AllSafe l) (i : Nat) : SafeStr (l.getD i []) := by
  rw [List.getD_eq_getElem?_getD]
  cases hi : l[i]? with
  | none => exact SafeStr.nil
  | some c => exact h c (List.mem_of_getElem? hi)

theorem AllSafe.replicate (n : Nat) {c : PyStr} (h : SafeStr c) : AllSafe (List.replicate n c) := by
  intro x hx
  rw [List.eq_of_mem_replicate hx]; exact h

theorem AllSafe.set {l : List PyStr} (h : AllSafe l) (k : Nat) {c : PyStr} (hc : SafeStr c) : AllSafe (l.set k c) := by
  intro x hx
  rcases List.mem_or_eq_of_mem_set hx with h1 | h1
  · exact h x h1
  · exact h1 ▸ hc

theorem AllSafe.tab (n : Nat) (f : Nat → PyStr) (h : ∀ i, SafeStr (f i)) : AllSafe (tab n f) := by
  intro x hx
  simp only [SkNet.tab, List.mem_map] at hx
  obtain ⟨i, _, rfl⟩ := hx
  exact h i

/-! ### nesting -/

/-- lexically sound pieces that are transparent for `balanced` inside an open element -/
def Inner (ps : List Piece) : Prop :=
  piecesLexOk ps = true ∧ ∀ (n : PyStr) (stk : List PyStr) (r : List Piece),
    balanced (ps ++ r) (n :: stk) true = balanced r (n :: stk) true

theorem Inner.nil : Inner [] := ⟨rfl, fun _ _ _ => rfl⟩

theorem Inner.append {a b : List Piece} (ha : Inner a) (hb : Inner b) : Inner (a ++ b) := by
  refine ⟨?_, fun n stk r => ?_⟩
  · have h1 := ha.1; have h2 := hb.1
    simp only [piecesLexOk, List.all_append, Bool.and_eq_true] at *
    exact ⟨h1, h2⟩
  · rw [List.append_assoc, ha.2, hb.2]

theorem Inner.chr {c : Nat} (hc : textCharOk c = true) : Inner [.chr c] := by
  refine ⟨by simp [piecesLexOk, pieceLexOk, hc], fun n stk r => ?_⟩
  simp [balanced]

theorem Inner.ref {b : PyStr} (h1 : refOk b = true) (h2 : b.all (fun x => x != 59) = true) : Inner [.ref b] := by
  refine ⟨by simp [piecesLexOk, pieceLexOk, h1, h2], fun n stk r => ?_⟩
  simp [balanced]

theorem Inner.etag {n : PyStr} {as : List Attr} {t : PyStr} (hn : nameOk n = true) (has : as.all attrLexOk = true)
    (hu : attrsUnique as = true) (ht : t.all isWs = true) : Inner [.etag n as t] := by
  refine ⟨by simp [piecesLexOk, pieceLexOk, hn, has, ht], fun m stk r => ?_⟩
  simp [balanced, hu]

/-- `<n as t> body </n>` -/
theorem Inner.elem {n : PyStr} {as : List Attr} {t : PyStr} {body : List Piece} (hn : nameOk n = true)
    (has : as.all attrLexOk = true) (hu : attrsUnique as = true) (ht : t.all isWs = true) (hb : Inner body) :
    Inner (.otag n as t :: (body ++ [.ctag n []])) := by
  refine ⟨?_, fun m stk r => ?_⟩
  · have := hb.1
    simp only [piecesLexOk, List.all_cons, List.all_append, pieceLexOk, hn, has, ht, Bool.and_true, Bool.true_and,
      List.all_nil] at *
    simp [this]
  · simp only [List.cons_append, balanced, List.isEmpty_cons, Bool.false_and, Bool.not_false, hu, Bool.true_and,
      List.append_assoc]
    rw [hb.2]
    simp [balanced]

theorem attrLexOk_att {k v : PyStr} (hk : nameOk k = true) (hv : SafeStr v) : attrLexOk (att k v) = true := by
  have := (safeStr_iff v).mp hv
  simp [attrLexOk, att, hk, this, isWs]

theorem attrLexOk_att2 {k v : PyStr} (hk : nameOk k = true) (hv : SafeStr v) : attrLexOk (att2 k v) = true := by
  have := (safeStr_iff v).mp hv
  simp [attrLexOk, att2, hk, this, isWs]

/-! ### a whole document -/

/-- `<svg …> ws* inner </svg> ws*` is well formed -/
theorem wf_document {as : List Attr} {lead body tail : List Piece} (has : as.all attrLexOk = true)
    (hu : attrsUnique as = true) (hb : Inner body)
    (hlead : lead = [] ∨ lead = [.chr 10]) (htail : tail = [] ∨ tail = [.chr 10]) :
    wf (render (.otag py!"svg" as [] :: (lead ++ (body ++ (.ctag py!"svg" [] :: tail))))) = true := by
  have hlex : piecesLexOk (.otag py!"svg" as [] :: (lead ++ (body ++ (.ctag py!"svg" [] :: tail)))) = true := by
    have h1 := hb.1
    have hl : piecesLexOk lead = true := by rcases hlead with h | h <;> subst h <;> decide
    have ht : piecesLexOk tail = true := by rcases htail with h | h <;> subst h <;> decide
    simp only [piecesLexOk, List.all_cons, List.all_append, pieceLexOk, has, Bool.and_true, Bool.true_and] at *
    simp [h1, hl, ht]
    decide
  rw [wf_render _ hlex]
  have hleadI : Inner lead := by
    rcases hlead with h | h <;> subst h
    · exact Inner.nil
    · exact Inner.chr (by decide)
  simp only [balanced, List.isEmpty_nil, Bool.true_and, Bool.false_eq_true, Bool.and_false, Bool.not_false, hu]
  rw [hleadI.2, hb.2]
  rcases htail with h | h <;> subst h <;> simp [balanced, isWs]

/-! ### sanitising -/

theorem escapeCp_inner (c : Nat) : Inner (escapeCp c) := by
  unfold escapeCp
  split
  · exact Inner.ref (by decide) (by decide)
  split
  · exact Inner.ref (by decide) (by decide)
  split
  · exact Inner.ref (by decide) (by decide)
  split
  · exact Inner.ref (by decide) (by decide)
  split
  · exact Inner.ref (by decide) (by decide)
  split
  · rename_i h1 h2 h3 h4 h5 h6
    exact Inner.chr (by simp [textCharOk, h6, h1, h2, h3])
  · exact Inner.chr (by decide)

/-- `sanitise_safe`: whatever the name, the escaped text is character data that can stand inside an element -/
theorem escape_inner (s : PyStr) : Inner (escape s) := by
  induction s with
  | nil => exact Inner.nil
  | cons c s ih => exact Inner.append (escapeCp_inner c) ih

/-! ### loops -/

theorem foldlM_invariant {α β : Type} {ε : Type} (P : β → Prop) (f : β → α → Except ε β) (l : List α) :
    ∀ (init res : β), P init → (∀ acc x acc', P acc → f acc x = .ok acc' → P acc') →
      l.foldlM f init = .ok res → P res := by
  induction l with
  | nil =>
    intro init res h0 _ h
    simp only [List.foldlM, pure, Except.pure, Except.ok.injEq] at h
    exact h ▸ h0
  | cons x xs ih =>
    intro init res h0 hstep h
    simp only [List.foldlM, bind, Except.bind] at h
    cases hx : f init x with
    | error e => simp [hx] at h
    | ok acc' =>
      simp only [hx] at h
      exact ih acc' res (hstep init x acc' h0 hx) hstep h

theorem Inner.flatMap {α : Type} (l : List α) (f : α → List Piece) (h : ∀ x, Inner (f x)) : Inner (l.flatMap f) := by
  induction l with
  | nil => exact Inner.nil
  | cons x xs ih => simpa using Inner.append (h x) ih

end SkNet.Svg
