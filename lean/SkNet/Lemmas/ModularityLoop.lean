/-
The passes and the `while` loop of the Louvain kernel in exact arithmetic: the returned `increase` is exactly
`Q(labels_out) − Q(labels_in)`, it is non-negative, the invariant holds at the end, and the final labels are
reached by nodes joining, one at a time, the cluster of a stored neighbour (`JoinSteps`).
-/
import SkNet.Lemmas.ModularityStep

namespace SkNet.Modularity

/-- `l'` is reached from `l` by nodes joining, one at a time, the cluster of a stored neighbour -/
inductive JoinSteps (g : Graph Rat) : List Nat → List Nat → Prop
  | refl (l : List Nat) : JoinSteps g l l
  | step {l l' : List Nat} (i : Nat) (e : Nat × Rat) : JoinSteps g l l' → i < g.n → e ∈ g.row i →
      JoinSteps g l (l'.set i (labOf l' e.1))

theorem JoinSteps.trans {g : Graph Rat} {a b c : List Nat} (h1 : JoinSteps g a b) (h2 : JoinSteps g b c) :
    JoinSteps g a c := by
  induction h2 with
  | refl => exact h1
  | step i e _ hi he ih => exact JoinSteps.step i e ih hi he

theorem corePass_fold (g : Graph Rat) (hg : GraphOK g) (res : Rat) (K : Nat) (idx : List Nat)
    (hidx : ∀ i ∈ idx, i < g.n) (st : St Rat) (acc : Rat) (hinv : CoreInv g K st) :
    CoreInv g K (idx.foldl (nodeStep g res) (st, acc)).1 ∧
    (idx.foldl (nodeStep g res) (st, acc)).2 - acc
      = QG g res (idx.foldl (nodeStep g res) (st, acc)).1.labels - QG g res st.labels ∧
    acc ≤ (idx.foldl (nodeStep g res) (st, acc)).2 ∧
    JoinSteps g st.labels (idx.foldl (nodeStep g res) (st, acc)).1.labels ∧
    ((idx.foldl (nodeStep g res) (st, acc)).2 = acc →
      (idx.foldl (nodeStep g res) (st, acc)).1.labels = st.labels) := by
  induction idx generalizing st acc with
  | nil => exact ⟨hinv, by simp, le_refl _, JoinSteps.refl _, fun _ => rfl⟩
  | cons i rest ih =>
    have hi : i < g.n := hidx i List.mem_cons_self
    obtain ⟨s1, s2, s3, s4⟩ := nodeStep_spec g hg res K st acc hinv i hi
    rcases hp : nodeStep g res (st, acc) i with ⟨st', acc'⟩
    rw [hp] at s1 s2 s3 s4
    simp only at s1 s2 s3 s4
    obtain ⟨t1, t2, t3, t4, t5⟩ := ih (fun j hj => hidx j (List.mem_cons_of_mem _ hj)) st' acc' s1
    simp only [List.foldl_cons, hp]
    have hjoin : JoinSteps g st.labels st'.labels := by
      rcases s4 with h | ⟨e, he, h, -, -⟩
      · rw [h]; exact JoinSteps.refl _
      · rw [h]; exact JoinSteps.step i e (JoinSteps.refl _) hi he
    refine ⟨t1, by linarith, le_trans s3 t3, hjoin.trans t4, ?_⟩
    intro heq
    have h1 : acc' = acc := le_antisymm (by rw [← heq]; exact t3) s3
    have h2 : st'.labels = st.labels := by
      rcases s4 with h | ⟨e, he, h, -, hlt⟩
      · exact h
      · rw [h1] at hlt; exact absurd hlt (lt_irrefl _)
    rw [t5 (by rw [heq, h1]), h2]

theorem corePass_spec (g : Graph Rat) (hg : GraphOK g) (res : Rat) (K : Nat) (st : St Rat)
    (hinv : CoreInv g K st) :
    CoreInv g K (corePass g res st).1 ∧
    (corePass g res st).2 = QG g res (corePass g res st).1.labels - QG g res st.labels ∧
    0 ≤ (corePass g res st).2 ∧
    JoinSteps g st.labels (corePass g res st).1.labels ∧
    ((corePass g res st).2 = 0 → (corePass g res st).1.labels = st.labels) := by
  obtain ⟨h1, h2, h3, h4, h5⟩ := corePass_fold g hg res K (List.range g.n)
    (fun i hi => List.mem_range.mp hi) st 0 hinv
  refine ⟨h1, ?_, h3, h4, h5⟩
  have : (corePass g res st).2 - 0 = QG g res (corePass g res st).1.labels - QG g res st.labels := h2
  linarith

theorem coreLoop_spec (g : Graph Rat) (hg : GraphOK g) (res tol : Rat) (K : Nat) (fuel : Nat) (st : St Rat)
    (inc : Rat) (hinv : CoreInv g K st) (st' : St Rat) (inc' : Rat)
    (h : coreLoop g res tol fuel st inc = some (st', inc')) :
    CoreInv g K st' ∧ inc' - inc = QG g res st'.labels - QG g res st.labels ∧ inc ≤ inc' ∧
    JoinSteps g st.labels st'.labels := by
  induction fuel generalizing st inc with
  | zero => simp [coreLoop] at h
  | succ f ih =>
    obtain ⟨p1, p2, p3, p4, -⟩ := corePass_spec g hg res K st hinv
    simp only [coreLoop] at h
    split at h
    · simp only [Option.some.injEq, Prod.mk.injEq] at h
      obtain ⟨rfl, rfl⟩ := h
      refine ⟨p1, ?_, ?_, p4⟩
      · show inc + (corePass g res st).2 - inc = _
        rw [p2]; ring
      · show inc ≤ inc + (corePass g res st).2
        linarith
    · obtain ⟨q1, q2, q3, q4⟩ := ih (corePass g res st).1 _ p1 h
      refine ⟨q1, ?_, ?_, p4.trans q4⟩
      · have e : inc + (corePass g res st).2 = inc + (QG g res (corePass g res st).1.labels - QG g res st.labels) := by
          rw [← p2]
        have q2' : inc' - (inc + (corePass g res st).2)
            = QG g res st'.labels - QG g res (corePass g res st).1.labels := q2
        linarith
      · have q3' : inc + (corePass g res st).2 ≤ inc' := q3
        linarith

/-- **optimize_core, exact arithmetic.** The returned `increase` is the change of `Q`, it is non-negative, and
    the labels are reached by joining neighbours' clusters. -/
theorem optimizeCore_spec (g : Graph Rat) (hg : GraphOK g) (res tol : Rat) (K : Nat) (fuel : Nat) (st : St Rat)
    (hinv : CoreInv g K st) (labels' : List Nat) (inc : Rat)
    (h : optimizeCore g res tol fuel st = some (labels', inc)) :
    inc = QG g res labels' - QG g res st.labels ∧ 0 ≤ inc ∧ JoinSteps g st.labels labels' ∧
    labels'.length = g.n ∧ (∀ i, i < g.n → labOf labels' i < K) := by
  unfold optimizeCore at h
  cases hc : coreLoop g res tol fuel st Scalar.zero with
  | none => rw [hc] at h; simp at h
  | some r =>
    rw [hc] at h
    simp only [Option.map_some, Option.some.injEq, Prod.mk.injEq] at h
    obtain ⟨rfl, rfl⟩ := h
    obtain ⟨q1, q2, q3, q4⟩ := coreLoop_spec g hg res tol K fuel st 0 hinv r.1 r.2 hc
    refine ⟨by linarith, q3, q4, q1.len, q1.bound⟩

/-! ### the loop as compiled: at most `n + 1` passes -/

theorem coreCapped_spec (g : Graph Rat) (hg : GraphOK g) (res tol : Rat) (K : Nat) (passes : Nat) (st : St Rat)
    (inc : Rat) (hinv : CoreInv g K st) :
    CoreInv g K (coreCapped g res tol passes st inc).1 ∧
    (coreCapped g res tol passes st inc).2 - inc
      = QG g res (coreCapped g res tol passes st inc).1.labels - QG g res st.labels ∧
    inc ≤ (coreCapped g res tol passes st inc).2 ∧
    JoinSteps g st.labels (coreCapped g res tol passes st inc).1.labels := by
  induction passes generalizing st inc with
  | zero => exact ⟨hinv, by simp [coreCapped], le_refl _, JoinSteps.refl _⟩
  | succ f ih =>
    obtain ⟨p1, p2, p3, p4, -⟩ := corePass_spec g hg res K st hinv
    simp only [coreCapped]
    split
    · refine ⟨p1, ?_, ?_, p4⟩
      · show inc + (corePass g res st).2 - inc = _
        rw [p2]; ring
      · show inc ≤ inc + (corePass g res st).2
        linarith
    · obtain ⟨q1, q2, q3, q4⟩ := ih (corePass g res st).1 (inc + (corePass g res st).2) p1
      refine ⟨q1, ?_, ?_, p4.trans q4⟩
      · have e : (corePass g res st).2 = QG g res (corePass g res st).1.labels - QG g res st.labels := p2
        linarith
      · linarith

/-- **optimize_core as compiled** (the loop ends by its tolerance or by its bound of `n + 1` passes): the returned
    `increase` is the change of `Q`, non-negative, the labels are reached by joining neighbours' clusters. -/
theorem optimizeCoreCapped_spec (g : Graph Rat) (hg : GraphOK g) (res tol : Rat) (K : Nat) (st : St Rat)
    (hinv : CoreInv g K st) :
    (optimizeCoreCapped g res tol st).2 = QG g res (optimizeCoreCapped g res tol st).1 - QG g res st.labels ∧
    0 ≤ (optimizeCoreCapped g res tol st).2 ∧ JoinSteps g st.labels (optimizeCoreCapped g res tol st).1 ∧
    (optimizeCoreCapped g res tol st).1.length = g.n ∧
    (∀ i, i < g.n → labOf (optimizeCoreCapped g res tol st).1 i < K) := by
  obtain ⟨q1, q2, q3, q4⟩ := coreCapped_spec g hg res tol K (g.n + 1) st 0 hinv
  refine ⟨?_, q3, q4, q1.len, q1.bound⟩
  have : (coreCapped g res tol (g.n + 1) st 0).2 - 0
      = QG g res (coreCapped g res tol (g.n + 1) st 0).1.labels - QG g res st.labels := q2
  show (coreCapped g res tol (g.n + 1) st 0).2
    = QG g res (coreCapped g res tol (g.n + 1) st 0).1.labels - QG g res st.labels
  linarith

/-- whenever the loop without the bound ends within the passes allowed, the compiled loop returns the same -/
theorem coreCapped_of_coreLoop (g : Graph Rat) (res tol : Rat) (passes : Nat) (st : St Rat) (inc : Rat)
    (r : St Rat × Rat) (h : coreLoop g res tol passes st inc = some r) : coreCapped g res tol passes st inc = r := by
  induction passes generalizing st inc with
  | zero => simp [coreLoop] at h
  | succ f ih =>
    simp only [coreLoop] at h
    simp only [coreCapped]
    split at h
    · rename_i hs
      rw [if_pos hs]
      exact Option.some.inj h
    · rename_i hs
      rw [if_neg hs]
      exact ih _ _ h

end SkNet.Modularity
