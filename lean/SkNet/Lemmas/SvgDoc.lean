/-
The templates and loops of Model/Svg.lean produce `Inner` pieces when colours and printed numbers are
attribute-safe — for every name.  Used by Properties/C20.lean.
-/
import SkNet.Lemmas.SvgWf

set_option linter.unusedSimpArgs false

namespace SkNet.Svg

/-- every printed number is an attribute-safe token -/
def SafeNums (ν : Nums) : Prop := ∀ s i j, SafeStr (ν s i j)

/-- `np.argsort` returns a permutation of the positions (its contract; the order among equal keys is not assumed) -/
def SortOk (ν : Nums) : Prop := ∀ d : List Int, (ν.argsort d).Perm (List.range d.length)

/-! ### attribute lists -/

def keysUnique : List PyStr → Bool
  | [] => true
  | k :: ks => !(ks.any (fun b => b == k)) && keysUnique ks

theorem attrsUnique_keys (as : List Attr) : attrsUnique as = keysUnique (as.map (·.key)) := by
  induction as with
  | nil => rfl
  | cons a as ih => simp [attrsUnique, keysUnique, ih, List.any_map, Function.comp_def]

theorem all_attrLexOk_cons {a : Attr} {as : List Attr} (ha : attrLexOk a = true) (has : as.all attrLexOk = true) :
    (a :: as).all attrLexOk = true := by simp [ha, has]

/-! ### colours are escaped where they enter an attribute -/

theorem render_append (a b : List Piece) : render (a ++ b) = render a ++ render b := by
  induction a with
  | nil => rfl
  | cons x xs ih => simp [render, ih, List.append_assoc]

/-- whatever the colour string, its escaped form can stand in an attribute -/
theorem escAttr_safe (c : PyStr) : SafeStr (escAttr c) := by
  unfold escAttr
  induction c with
  | nil => exact SafeStr.nil
  | cons x xs ih =>
    simp only [escape, render_append]
    refine SafeStr.append ?_ ih
    unfold escapeCp
    split
    · decide
    split
    · decide
    split
    · decide
    split
    · decide
    split
    · decide
    split
    · rename_i h1 h2 h3 h4 h5 h6
      show SafeStr [x]
      exact ValOk.chr x [] h6 h2 h1 h4 ValOk.nil
    · decide

/-! ### templates -/

theorem styleVal_safe {f s w : PyStr} (hf : SafeStr f) (hs : SafeStr s) (hw : SafeStr w) : SafeStr (styleVal f s w) := by
  unfold styleVal
  exact SafeStr.append (by decide) (SafeStr.append hf (SafeStr.append (by decide)
    (SafeStr.append hs (SafeStr.append (by decide) hw))))

theorem svgNode_inner {x y size sw : PyStr} (color : PyStr) (hx : SafeStr x) (hy : SafeStr y) (hs : SafeStr size)
    (hw : SafeStr sw) : Inner (svgNode x y size color sw) := by
  have hc := escAttr_safe color
  unfold svgNode
  have h1 : Inner [Piece.etag py!"circle" [att py!"cx" x, att py!"cy" y, att py!"r" size,
      att py!"style" (styleVal (escAttr color) py!"black" sw)] []] := by
    refine Inner.etag (by decide) ?_ ?_ (by decide)
    · exact all_attrLexOk_cons (attrLexOk_att (by decide) hx) (all_attrLexOk_cons (attrLexOk_att (by decide) hy)
        (all_attrLexOk_cons (attrLexOk_att (by decide) hs)
          (all_attrLexOk_cons (attrLexOk_att (by decide) (styleVal_safe hc (by decide) hw)) rfl)))
    · rw [attrsUnique_keys]; simp only [List.map_cons, List.map_nil, att, att2]; decide
  exact Inner.append h1 (Inner.chr (c := 10) (by decide))

/-- blank-separated tokens `a b` -/
theorem safe_sp {a b : PyStr} (ha : SafeStr a) (hb : SafeStr b) : SafeStr (a ++ (32 :: b)) :=
  SafeStr.append ha (SafeStr.cons (by decide) hb)

theorem svgPieSector_inner {t : Nat → PyStr} {sw : PyStr} (color : PyStr) (ht : ∀ k, SafeStr (t k))
    (hw : SafeStr sw) : Inner (svgPieSector t color sw) := by
  have hc := escAttr_safe color
  unfold svgPieSector
  have hd : SafeStr (py!"M " ++ (t 0 ++ (32 :: (t 1 ++ (py!" A " ++ (t 2 ++ (32 :: (t 3 ++ (py!" 0 " ++ (t 4 ++
        (py!" 1 " ++ (t 5 ++ (32 :: (t 6 ++ (py!" L " ++ (t 7 ++ (32 :: t 8))))))))))))))))) := by
    refine SafeStr.append (by decide) (safe_sp (ht 0) (SafeStr.append (ht 1) (SafeStr.append (by decide)
      (safe_sp (ht 2) (SafeStr.append (ht 3) (SafeStr.append (by decide) (SafeStr.append (ht 4)
        (SafeStr.append (by decide) (safe_sp (ht 5) (SafeStr.append (ht 6) (SafeStr.append (by decide)
          (safe_sp (ht 7) (ht 8)))))))))))))
  have h1 : Inner [Piece.etag py!"path" [att py!"d" (py!"M " ++ (t 0 ++ (32 :: (t 1 ++ (py!" A " ++ (t 2 ++
      (32 :: (t 3 ++ (py!" 0 " ++ (t 4 ++ (py!" 1 " ++ (t 5 ++ (32 :: (t 6 ++ (py!" L " ++ (t 7 ++
      (32 :: t 8))))))))))))))))), att py!"style" (styleVal (escAttr color) py!"black" sw)] [32]] := by
    refine Inner.etag (by decide) ?_ ?_ (by decide)
    · exact all_attrLexOk_cons (attrLexOk_att (by decide) hd)
        (all_attrLexOk_cons (attrLexOk_att (by decide) (styleVal_safe hc (by decide) hw)) rfl)
    · rw [attrsUnique_keys]; simp only [List.map_cons, List.map_nil, att, att2]; decide
  exact Inner.append h1 (Inner.chr (c := 10) (by decide))

theorem edge_d_safe {t : Nat → PyStr} (ht : ∀ k, SafeStr (t k)) :
    SafeStr (py!"M " ++ (t 1 ++ (32 :: (t 2 ++ (32 :: (t 3 ++ (32 :: t 4))))))) :=
  SafeStr.append (by decide) (safe_sp (ht 1) (safe_sp (ht 2) (safe_sp (ht 3) (ht 4))))

theorem svgEdge_inner {t : Nat → PyStr} (color : PyStr) (ht : ∀ k, SafeStr (t k)) :
    Inner (svgEdge t color) := by
  have hc := escAttr_safe color
  unfold svgEdge
  have h1 : Inner [Piece.etag py!"path" [att py!"stroke-width" (t 0), att py!"stroke" (escAttr color),
      att py!"d" (py!"M " ++ (t 1 ++ (32 :: (t 2 ++ (32 :: (t 3 ++ (32 :: t 4)))))))] []] := by
    refine Inner.etag (by decide) ?_ ?_ (by decide)
    · exact all_attrLexOk_cons (attrLexOk_att (by decide) (ht 0)) (all_attrLexOk_cons (attrLexOk_att (by decide) hc)
        (all_attrLexOk_cons (attrLexOk_att (by decide) (edge_d_safe ht)) rfl))
    · rw [attrsUnique_keys]; simp only [List.map_cons, List.map_nil, att, att2]; decide
  exact Inner.append h1 (Inner.chr (c := 10) (by decide))

theorem svgEdgeDirected_inner (p1 p2 : Rat × Rat) {t : Nat → PyStr} (color : PyStr) (ht : ∀ k, SafeStr (t k)) :
    Inner (svgEdgeDirected p1 p2 t color) := by
  have hc := escAttr_safe color
  unfold svgEdgeDirected
  split
  · exact Inner.nil
  · have h1 : Inner [Piece.etag py!"path" [att py!"stroke-width" (t 0), att py!"stroke" (escAttr color),
        att py!"d" (py!"M " ++ (t 1 ++ (32 :: (t 2 ++ (32 :: (t 3 ++ (32 :: t 4))))))),
        att py!"marker-end" (py!"url(#arrow-" ++ (escAttr color ++ py!")"))] []] := by
      refine Inner.etag (by decide) ?_ ?_ (by decide)
      · exact all_attrLexOk_cons (attrLexOk_att (by decide) (ht 0)) (all_attrLexOk_cons (attrLexOk_att (by decide) hc)
          (all_attrLexOk_cons (attrLexOk_att (by decide) (edge_d_safe ht))
            (all_attrLexOk_cons (attrLexOk_att (by decide)
              (SafeStr.append (by decide) (SafeStr.append hc (by decide)))) rfl)))
      · rw [attrsUnique_keys]; simp only [List.map_cons, List.map_nil, att, att2]; decide
    exact Inner.append h1 (Inner.chr (c := 10) (by decide))

/-- the text element of a name: well formed for every `text` -/
theorem svgText_inner {t : Nat → PyStr} (text : PyStr) (position : NamePos) (ht : ∀ k, SafeStr (t k)) :
    Inner (svgText t text position) := by
  unfold svgText
  have hanchor : SafeStr (match position with
      | .left => py!"end" | .above => py!"middle" | .below => py!"middle" | .right => py!"start"
      | .other => py!"start") := by cases position <;> decide
  refine Inner.elem (by decide) ?_ ?_ (by decide) (escape_inner text)
  · exact all_attrLexOk_cons (attrLexOk_att (by decide) hanchor) (all_attrLexOk_cons (attrLexOk_att (by decide) (ht 0))
      (all_attrLexOk_cons (attrLexOk_att (by decide) (ht 1)) (all_attrLexOk_cons (attrLexOk_att (by decide) (ht 2)) rfl)))
  · rw [attrsUnique_keys]; simp only [List.map_cons, List.map_nil, att, att2]; decide

theorem svgMarker_inner (color : PyStr) : Inner (svgMarker color) := by
  have hc := escAttr_safe color
  unfold svgMarker
  have hpath : Inner [Piece.etag py!"path" [att py!"d" py!"M0,0 L0,6 L9,3 z", att py!"fill" (escAttr color)] []] := by
    refine Inner.etag (by decide) ?_ ?_ (by decide)
    · exact all_attrLexOk_cons (attrLexOk_att (by decide) (by decide))
        (all_attrLexOk_cons (attrLexOk_att (by decide) hc) rfl)
    · rw [attrsUnique_keys]; simp only [List.map_cons, List.map_nil, att, att2]; decide
  have hbody : Inner ([Piece.chr 10] ++ [Piece.etag py!"path" [att py!"d" py!"M0,0 L0,6 L9,3 z",
      att py!"fill" (escAttr color)] []]) := Inner.append (Inner.chr (by decide)) hpath
  have hmarker := Inner.elem (n := py!"marker")
    (as := [att py!"id" (py!"arrow-" ++ escAttr color), att py!"markerWidth" py!"10", att py!"markerHeight" py!"10",
      att py!"refX" py!"9", att py!"refY" py!"3", ⟨10 :: List.replicate 16 32, py!"orient", 34, py!"auto"⟩])
    (t := [32]) (by decide)
    (all_attrLexOk_cons (attrLexOk_att (by decide) (SafeStr.append (by decide) hc))
      (all_attrLexOk_cons (attrLexOk_att (by decide) (by decide))
        (all_attrLexOk_cons (attrLexOk_att (by decide) (by decide))
          (all_attrLexOk_cons (attrLexOk_att (by decide) (by decide))
            (all_attrLexOk_cons (attrLexOk_att (by decide) (by decide))
              (all_attrLexOk_cons (by decide) rfl))))))
    (by rw [attrsUnique_keys]; simp only [List.map_cons, List.map_nil, att, att2]; decide) (by decide) hbody
  have hdefs := Inner.elem (n := py!"defs") (as := []) (t := []) (by decide) rfl rfl rfl hmarker
  have := Inner.append hdefs (Inner.chr (c := 10) (by decide))
  simpa using this

/-! ### node shapes -/

theorem svgPieChartNode_inner {ν : Nums} (hν : SafeNums ν) (i side : Nat) (row : List Rat) (colors : List PyStr)
    {ps : List Piece} (h : svgPieChartNode ν i side row colors = .ok ps) : Inner ps := by
  unfold svgPieChartNode at h
  split at h
  · simp only [Except.ok.injEq] at h
    exact h ▸ svgNode_inner _ (hν _ _ _) (hν _ _ _) (hν _ _ _) (by decide)
  · refine foldlM_invariant Inner _ _ _ _ Inner.nil ?_ h
    intro acc index acc' hacc hstep
    simp only [bind, Except.bind, pure, Except.pure] at hstep
    split at hstep
    · simp at hstep
    · rename_i c hcol
      simp only [Except.ok.injEq] at hstep
      exact hstep ▸ Inner.append hacc (svgPieSector_inner _ (fun _ => hν _ _ _) (hν _ _ _))

theorem nodeShape_inner {ν : Nums} (hν : SafeNums ν) (side i : Nat) (probs : Option Probs) (colors : List PyStr)
    {ps : List Piece} (h : nodeShape ν side i probs colors = .ok ps) : Inner ps := by
  unfold nodeShape at h
  split at h
  · split at h
    · simp only [Except.ok.injEq] at h
      exact h ▸ svgNode_inner _ (hν _ _ _) (hν _ _ _) (hν _ _ _) (hν _ _ _)
    · simp at h
  · split at h
    · simp at h
    · split at h
      · simp at h
      · simp only at h
        split at h
        · split at h
          · simp only [Except.ok.injEq] at h
            exact h ▸ svgNode_inner _ (hν _ _ _) (hν _ _ _) (hν _ _ _) (hν _ _ _)
          · simp at h
        · exact svgPieChartNode_inner hν _ _ _ _ h

theorem graphNodes_inner {ν : Nums} (hν : SafeNums ν) (order : List Nat) (npos : Nat) (probs : Option Probs)
    (colors : List PyStr) {ps : List Piece}
    (h : graphNodes ν order npos probs colors = .ok ps) : Inner ps := by
  unfold graphNodes at h
  refine foldlM_invariant Inner _ _ _ _ Inner.nil ?_ h
  intro acc i acc' hacc hstep
  split at hstep
  · simp at hstep
  · split at hstep
    · rename_i s hs
      simp only [Except.ok.injEq] at hstep
      exact hstep ▸ Inner.append hacc (nodeShape_inner hν _ _ _ _ hs)
    · simp at hstep

theorem nodeLoop_inner {ν : Nums} (hν : SafeNums ν) (side n : Nat) (probs : Option Probs)
    (colors : List PyStr) {ps : List Piece}
    (h : nodeLoop ν side n probs colors = .ok ps) : Inner ps := by
  unfold nodeLoop at h
  refine foldlM_invariant Inner _ _ _ _ Inner.nil ?_ h
  intro acc i acc' hacc hstep
  split at hstep
  · rename_i s hs
    simp only [Except.ok.injEq] at hstep
    exact hstep ▸ Inner.append hacc (nodeShape_inner hν _ _ _ _ hs)
  · simp at hstep

/-! ### names -/

theorem textLoop_inner {ν : Nums} (hν : SafeNums ν) (side n : Nat) (names : List PyStr) (np : NamePos)
    {ps : List Piece} (h : textLoop ν side n names np = .ok ps) : Inner ps := by
  unfold textLoop at h
  refine foldlM_invariant Inner _ _ _ _ Inner.nil ?_ h
  intro acc i acc' hacc hstep
  split at hstep
  · simp only [Except.ok.injEq] at hstep
    exact hstep ▸ Inner.append hacc (svgText_inner _ _ (fun _ => hν _ _ _))
  · simp at hstep

theorem namesText_inner {ν : Nums} (hν : SafeNums ν) (side n : Nat) (names : Option (List PyStr)) (np : NamePos)
    {ps : List Piece} (h : namesText ν side n names np = .ok ps) : Inner ps := by
  unfold namesText at h
  split at h
  · exact textLoop_inner hν _ _ _ _ h
  · simp only [pure, Except.pure, Except.ok.injEq] at h
    exact h ▸ Inner.nil

/-! ### edges -/

theorem graphEdge_inner {ν : Nums} (hν : SafeNums ν) (directed : Bool) (pos : List (Rat × Rat)) (slot : Nat → Slot)
    (k i j : Nat) (color : PyStr) : Inner (graphEdge ν directed pos slot k i j color) := by
  unfold graphEdge
  split
  · exact svgEdgeDirected_inner _ _ _ (fun _ => hν _ _ _)
  · exact svgEdge_inner _ (fun _ => hν _ _ _)

theorem storedEdges_inner {ν : Nums} (hν : SafeNums ν) (directed : Bool) (es : List Entry) (pos : List (Rat × Rat))
    (ec : EdgeColors) {ps : List Piece}
    (h : storedEdges ν directed es pos ec = .ok ps) : Inner ps := by
  unfold storedEdges at h
  refine foldlM_invariant Inner _ _ _ _ Inner.nil ?_ h
  intro acc ix acc' hacc hstep
  split at hstep
  · simp at hstep
  · simp only at hstep
    split at hstep
    · simp at hstep
    · simp only [Except.ok.injEq] at hstep
      exact hstep ▸ Inner.append hacc (graphEdge_inner hν _ _ _ _ _ _ _)

theorem residEdges_inner {ν : Nums} (hν : SafeNums ν) (directed : Bool) (pos : List (Rat × Rat))
    (r : List (Nat × Nat × PyStr)) : Inner (residEdges ν directed pos r) := by
  unfold residEdges
  exact Inner.flatMap _ _ (fun k => graphEdge_inner hν _ _ _ _ _ _ _)

theorem mem_dedup {c : PyStr} {l : List PyStr} (h : c ∈ dedup l) : c ∈ l := by
  induction l with
  | nil => simp [dedup] at h
  | cons x xs ih =>
    simp only [dedup, List.mem_cons, List.mem_filter] at h
    rcases h with h | h
    · exact h ▸ List.mem_cons_self
    · exact List.mem_cons_of_mem _ (ih h.1)

theorem Inner.flatMap_mem {α : Type} (l : List α) (f : α → List Piece) (h : ∀ x ∈ l, Inner (f x)) :
    Inner (l.flatMap f) := by
  induction l with
  | nil => exact Inner.nil
  | cons x xs ih =>
    simpa using Inner.append (h x List.mem_cons_self) (ih (fun y hy => h y (List.mem_cons_of_mem _ hy)))

theorem graphEdgeParts_inner {ν : Nums} (hν : SafeNums ν) (a : GraphArgs) (pos : List (Rat × Rat))
    {ps : List PyStr × List Piece} (h : graphEdgeParts ν a pos = .ok ps) : Inner ps.2 := by
  unfold graphEdgeParts at h
  split at h
  · split at h
    · simp at h
    · rename_i ec hecol
      split at h
      · simp at h
      · rename_i stored hstored
        split at h
        · simp at h
        · simp only [Except.ok.injEq] at h
          subst h
          exact Inner.append (storedEdges_inner hν _ _ _ _ hstored) (residEdges_inner hν _ _ _)
  · simp only [Except.ok.injEq] at h
    subst h
    exact Inner.nil

theorem bistoredEdges_inner {ν : Nums} (hν : SafeNums ν) (es : List Entry) (ec : EdgeColors)
    {ps : List Piece} (h : bistoredEdges ν es ec = .ok ps) : Inner ps := by
  unfold bistoredEdges at h
  refine foldlM_invariant Inner _ _ _ _ Inner.nil ?_ h
  intro acc ix acc' hacc hstep
  split at hstep
  · simp at hstep
  · simp only [Except.ok.injEq] at hstep
    exact hstep ▸ Inner.append hacc (svgEdge_inner _ (fun _ => hν _ _ _))

theorem biresidEdges_inner {ν : Nums} (hν : SafeNums ν) (r : List (Nat × Nat × PyStr)) :
    Inner (biresidEdges ν r) := by
  unfold biresidEdges
  exact Inner.flatMap _ _ (fun k => svgEdge_inner _ (fun _ => hν _ _ _))

theorem bigraphEdges_inner {ν : Nums} (hν : SafeNums ν) (a : BigraphArgs) {ps : List Piece}
    (h : bigraphEdges ν a = .ok ps) : Inner ps := by
  unfold bigraphEdges at h
  split at h
  · simp only [bind, Except.bind, pure, Except.pure] at h
    split at h
    · simp at h
    · rename_i ec hecol
      split at h
      · simp at h
      · rename_i stored hstored
        simp only [Except.ok.injEq] at h
        subst h
        exact Inner.append (bistoredEdges_inner hν _ _ hstored) (biresidEdges_inner hν _)
  · simp only [pure, Except.pure, Except.ok.injEq] at h
    exact h ▸ Inner.nil

/-! ### dendrograms -/

theorem Inner.map_singleton {α : Type} (l : List α) (f : α → Piece) (h : ∀ x, Inner [f x]) : Inner (l.map f) := by
  induction l with
  | nil => exact Inner.nil
  | cons x xs ih => simpa using Inner.append (h x) ih

theorem dendroPaths_inner {ν : Nums} (hν : SafeNums ν) (t : Nat) (c : PyStr) :
    Inner (dendroPaths ν t c) := by
  have hc := escAttr_safe c
  unfold dendroPaths
  refine Inner.map_singleton _ _ (fun k => ?_)
  refine Inner.etag (by decide) ?_ ?_ (by decide)
  · exact all_attrLexOk_cons (attrLexOk_att (by decide) (hν _ _ _)) (all_attrLexOk_cons (attrLexOk_att (by decide) hc)
      (all_attrLexOk_cons (attrLexOk_att (by decide)
        (SafeStr.append (by decide) (safe_sp (hν _ _ _) (safe_sp (hν _ _ _) (safe_sp (hν _ _ _) (hν _ _ _)))))) rfl))
  · rw [attrsUnique_keys]; simp only [List.map_cons, List.map_nil, att, att2]; decide

/-- the text element of a leaf name: well formed for every `name` -/
theorem dendroText_inner {ν : Nums} (hν : SafeNums ν) (i : Nat) (name : PyStr) (rotate rotateNames : Bool) :
    Inner (dendroText ν i name rotate rotateNames) := by
  unfold dendroText
  simp only
  split
  · refine Inner.elem (by decide) ?_ ?_ (by decide) (escape_inner name)
    · exact all_attrLexOk_cons (attrLexOk_att (by decide) (hν _ _ _))
        (all_attrLexOk_cons (attrLexOk_att (by decide) (hν _ _ _))
          (all_attrLexOk_cons (attrLexOk_att (by decide) (hν _ _ _)) rfl))
    · rw [attrsUnique_keys]; simp only [List.map_cons, List.map_nil, att, att2]; decide
  · split
    · refine Inner.elem (by decide) ?_ ?_ (by decide) (escape_inner name)
      · exact all_attrLexOk_cons (attrLexOk_att (by decide) (hν _ _ _))
          (all_attrLexOk_cons (attrLexOk_att (by decide) (hν _ _ _))
            (all_attrLexOk_cons (attrLexOk_att2 (by decide)
              (SafeStr.append (by decide) (SafeStr.append (hν _ _ _) (SafeStr.append (by decide)
                (SafeStr.append (hν _ _ _) (by decide))))))
              (all_attrLexOk_cons (attrLexOk_att (by decide) (hν _ _ _)) rfl)))
      · rw [attrsUnique_keys]; simp only [List.map_cons, List.map_nil, att, att2]; decide
    · refine Inner.elem (by decide) ?_ ?_ (by decide) (escape_inner name)
      · exact all_attrLexOk_cons (attrLexOk_att (by decide) (hν _ _ _))
          (all_attrLexOk_cons (attrLexOk_att (by decide) (hν _ _ _))
            (all_attrLexOk_cons (attrLexOk_att2 (by decide) (hν _ _ _)) rfl))
      · rw [attrsUnique_keys]; simp only [List.map_cons, List.map_nil, att, att2]; decide

theorem dendroNames_inner {ν : Nums} (hν : SafeNums ν) (a : DendroArgs) (index : List Nat) {ps : List Piece}
    (h : dendroNames ν a index = .ok ps) : Inner ps := by
  unfold dendroNames at h
  split at h
  · simp only [pure, Except.pure, Except.ok.injEq] at h
    exact h ▸ Inner.nil
  · refine foldlM_invariant Inner _ _ _ _ Inner.nil ?_ h
    intro acc i acc' hacc hstep
    split at hstep
    · simp at hstep
    · split at hstep
      · simp at hstep
      · simp only [Except.ok.injEq] at hstep
        exact hstep ▸ Inner.append hacc (dendroText_inner hν _ _ _ _)

theorem dendroStep_inner {ν : Nums} (hν : SafeNums ν) (a : DendroArgs)
    (n : Nat) {st st' : TreeState} (t : Nat) (hst : Inner st.out)
    (h : dendroStep ν a n st t = .ok st') : Inner st'.out := by
  unfold dendroStep at h
  simp only [bind, Except.bind, pure, Except.pure] at h
  repeat' split at h
  all_goals first
    | (simp at h; done)
    | (simp only [Except.ok.injEq] at h
       subst h
       exact Inner.append hst (dendroPaths_inner hν _ _))

theorem dendroTree_inner {ν : Nums} (hν : SafeNums ν) (a : DendroArgs)
    (cut index : List Nat) {ps : List Piece} (h : dendroTree ν a cut index = .ok ps) :
    Inner ps := by
  unfold dendroTree at h
  simp only [bind, Except.bind, pure, Except.pure] at h
  split at h
  · simp at h
  · rename_i st hst
    simp only [Except.ok.injEq] at h
    subst h
    exact foldlM_invariant (fun st => Inner st.out) _ _ _ _ Inner.nil
      (fun acc t acc' hacc hstep => dendroStep_inner hν a _ t hacc hstep) hst

/-- what a successful `svg_dendrogram_top/left` went through -/
theorem svgDendrogram_ok {ν : Nums} {a : DendroArgs} {svg : List Piece} (h : svgDendrogram ν a = .ok svg) :
    ∃ cut index text paths, a.cutLabels = some cut ∧ getIndex a.merges a.reorder = .ok index ∧
      a.merges.isEmpty = false ∧ dendroNames ν a index = .ok text ∧ dendroTree ν a cut index = .ok paths ∧
      svg = svgDoc ν true false (text ++ paths) := by
  unfold svgDendrogram at h
  split at h
  · simp at h
  rename_i cut hcut
  split at h
  · simp at h
  rename_i index hindex
  split at h
  · simp at h
  rename_i hne
  split at h
  · simp at h
  rename_i text htext
  split at h
  · simp at h
  rename_i paths hpaths
  simp only [Except.ok.injEq] at h
  exact ⟨cut, index, text, paths, hcut, hindex, by simpa using hne, htext, hpaths, h.symm⟩

/-- what a successful `visualize_graph` went through -/
theorem visualizeGraph_ok {ν : Nums} {a : GraphArgs} {d : Drawing} (h : visualizeGraph ν a = .ok d) :
    ∃ nodeColors pos edges nodes text,
      finalPos a = .ok pos ∧ graphEdgeParts ν a pos = .ok edges ∧
      graphNodes ν (a.nodeOrder.getD (List.range (graphN a))) pos.length a.probs nodeColors = .ok nodes ∧
      namesText ν 0 (graphN a) a.names a.namePos = .ok text ∧
      writeFile a.filename (svgDoc ν false true (edges.1.flatMap svgMarker ++ (edges.2 ++ (nodes ++ text)))) = .ok d := by
  unfold visualizeGraph at h
  simp only [bind, Except.bind, pure, Except.pure] at h
  split at h
  · simp at h
  split at h
  · simp at h
  rename_i nodeColors hcolors
  split at h
  · simp at h
  rename_i pos hpos
  split at h
  · simp at h
  rename_i edges hedges
  split at h
  · simp at h
  rename_i nodes hnodes
  split at h
  · simp at h
  rename_i text htext
  exact ⟨nodeColors, pos, edges, nodes, text, hpos, hedges, hnodes, htext, h⟩

/-- what a successful `visualize_bigraph` went through -/
theorem visualizeBigraph_ok {ν : Nums} {a : BigraphArgs} {d : Drawing} (h : visualizeBigraph ν a = .ok d) :
    ∃ colorsRow colorsCol edges nodesRow nodesCol textRow textCol,
      bigraphEdges ν a = .ok edges ∧ nodeLoop ν 0 a.nRow a.probsRow colorsRow = .ok nodesRow ∧
      nodeLoop ν 1 a.nCol a.probsCol colorsCol = .ok nodesCol ∧
      namesText ν 0 a.nRow a.namesRow .left = .ok textRow ∧ namesText ν 1 a.nCol a.namesCol .right = .ok textCol ∧
      writeFile a.filename (svgDoc ν true true (edges ++ (nodesRow ++ (nodesCol ++ (textRow ++ textCol))))) = .ok d := by
  unfold visualizeBigraph at h
  simp only [bind, Except.bind, pure, Except.pure] at h
  split at h
  · simp at h
  rename_i colorsRow hrow
  split at h
  · simp at h
  rename_i colorsCol hcol
  split at h
  · simp at h
  split at h
  · simp at h
  split at h
  · simp at h
  split at h
  · simp at h
  split at h
  · simp at h
  rename_i edges hedges
  split at h
  · simp at h
  rename_i nodesRow hnr
  split at h
  · simp at h
  rename_i nodesCol hnc
  split at h
  · simp at h
  rename_i textRow htr
  split at h
  · simp at h
  rename_i textCol htc
  exact ⟨colorsRow, colorsCol, edges, nodesRow, nodesCol, textRow, textCol, hedges, hnr, hnc, htr, htc, h⟩

/-! ### the document -/

theorem writeFile_svg {fn : Option PyStr} {doc : List Piece} {d : Drawing} (h : writeFile fn doc = .ok d) :
    d.svg = doc := by
  unfold writeFile at h
  split at h
  · simp only [Except.ok.injEq] at h; subst h; rfl
  · split at h
    · simp only [Except.ok.injEq] at h; subst h; rfl
    · simp at h


theorem svgDoc_wf {ν : Nums} (hν : SafeNums ν) (twoBlanks newlines : Bool) {body : List Piece} (hb : Inner body) :
    wf (render (svgDoc ν twoBlanks newlines body)) = true := by
  unfold svgDoc
  refine wf_document ?_ ?_ hb ?_ ?_
  · unfold svgHeader
    refine all_attrLexOk_cons (attrLexOk_att (by decide) (hν _ _ _))
      (all_attrLexOk_cons (attrLexOk_att (by decide) (hν _ _ _)) (all_attrLexOk_cons ?_ rfl))
    split
    · exact attrLexOk_att2 (by decide) (by decide)
    · exact attrLexOk_att (by decide) (by decide)
  · rw [attrsUnique_keys]
    unfold svgHeader
    cases twoBlanks <;> simp only [List.map_cons, List.map_nil, att, att2] <;> decide
  · cases newlines <;> simp
  · cases newlines <;> simp

end SkNet.Svg
