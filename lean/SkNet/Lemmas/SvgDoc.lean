/-
The templates and loops of Model/Svg.lean produce `Inner` pieces when colours and printed numbers are
attribute-safe — for every name.  Used by Properties/C20.lean.
-/
import SkNet.Lemmas.SvgWf

set_option linter.unusedSimpArgs false

namespace SkNet.Svg

/-- every printed number is an attribute-safe token -/
def SafeNums (ν : Nums) : Prop := ∀ s i j, SafeStr (ν s i j)

/-- `np.argsort` returns a permutation of the positions (its contract; the order among equal keys is not assumed) -/
def SortOk (ν : Nums) : Prop := ∀ d : List Int, (ν.argsort d).Perm (List.range d.length)

/-! ### attribute lists -/

def keysUnique : List PyStr → Bool
  | [] => true
  | k :: ks => !(ks.any (fun b => b == k)) && keysUnique ks

theorem attrsUnique_keys (as : List Attr) : attrsUnique as = keysUnique (as.map (·.key)) := by
  induction as with
  | nil => rfl
  | cons a as ih => simp [attrsUnique, keysUnique, ih, List.any_map, Function.comp_def]

theorem all_attrLexOk_cons {a : Attr} {as : List Attr} (ha : attrLexOk a = true) (has : as.all attrLexOk = true) :
    (a :: as).all attrLexOk = true := by simp [ha, has]

/-! ### templates -/

theorem styleVal_safe {f s w : PyStr} (hf : SafeStr f) (hs : SafeStr s) (hw : SafeStr w) : SafeStr (styleVal f s w) := by
  unfold styleVal
  exact SafeStr.append (by decide) (SafeStr.append hf (SafeStr.append (by decide)
    (SafeStr.append hs (SafeStr.append (by decide) hw))))

theorem svgNode_inner {x y size color sw : PyStr} (hx : SafeStr x) (hy : SafeStr y) (hs : SafeStr size)
    (hc : SafeStr color) (hw : SafeStr sw) : Inner (svgNode x y size color sw) := by
  unfold svgNode
  have h1 : Inner [Piece.etag py!"circle" [att py!"cx" x, att py!"cy" y, att py!"r" size,
      att py!"style" (styleVal color py!"black" sw)] []] := by
    refine Inner.etag (by decide) ?_ ?_ (by decide)
    · exact all_attrLexOk_cons (attrLexOk_att (by decide) hx) (all_attrLexOk_cons (attrLexOk_att (by decide) hy)
        (all_attrLexOk_cons (attrLexOk_att (by decide) hs)
          (all_attrLexOk_cons (attrLexOk_att (by decide) (styleVal_safe hc (by decide) hw)) rfl)))
    · rw [attrsUnique_keys]; simp only [List.map_cons, List.map_nil, att, att2]; decide
  exact Inner.append h1 (Inner.chr (c := 10) (by decide))

/-- blank-separated tokens `a b` -/
theorem safe_sp {a b : PyStr} (ha : SafeStr a) (hb : SafeStr b) : SafeStr (a ++ (32 :: b)) :=
  SafeStr.append ha (SafeStr.cons (by decide) hb)

theorem svgPieSector_inner {t : Nat → PyStr} {color sw : PyStr} (ht : ∀ k, SafeStr (t k)) (hc : SafeStr color)
    (hw : SafeStr sw) : Inner (svgPieSector t color sw) := by
  unfold svgPieSector
  have hd : SafeStr (py!"M " ++ (t 0 ++ (32 :: (t 1 ++ (py!" A " ++ (t 2 ++ (32 :: (t 3 ++ (py!" 0 " ++ (t 4 ++
        (py!" 1 " ++ (t 5 ++ (32 :: (t 6 ++ (py!" L " ++ (t 7 ++ (32 :: t 8))))))))))))))))) := by
    refine SafeStr.append (by decide) (safe_sp (ht 0) (SafeStr.append (ht 1) (SafeStr.append (by decide)
      (safe_sp (ht 2) (SafeStr.append (ht 3) (SafeStr.append (by decide) (SafeStr.append (ht 4)
        (SafeStr.append (by decide) (safe_sp (ht 5) (SafeStr.append (ht 6) (SafeStr.append (by decide)
          (safe_sp (ht 7) (ht 8)))))))))))))
  have h1 : Inner [Piece.etag py!"path" [att py!"d" (py!"M " ++ (t 0 ++ (32 :: (t 1 ++ (py!" A " ++ (t 2 ++
      (32 :: (t 3 ++ (py!" 0 " ++ (t 4 ++ (py!" 1 " ++ (t 5 ++ (32 :: (t 6 ++ (py!" L " ++ (t 7 ++
      (32 :: t 8))))))))))))))))), att py!"style" (styleVal color py!"black" sw)] [32]] := by
    refine Inner.etag (by decide) ?_ ?_ (by decide)
    · exact all_attrLexOk_cons (attrLexOk_att (by decide) hd)
        (all_attrLexOk_cons (attrLexOk_att (by decide) (styleVal_safe hc (by decide) hw)) rfl)
    · rw [attrsUnique_keys]; simp only [List.map_cons, List.map_nil, att, att2]; decide
  exact Inner.append h1 (Inner.chr (c := 10) (by decide))

theorem edge_d_safe {t : Nat → PyStr} (ht : ∀ k, SafeStr (t k)) :
    SafeStr (py!"M " ++ (t 1 ++ (32 :: (t 2 ++ (32 :: (t 3 ++ (32 :: t 4))))))) :=
  SafeStr.append (by decide) (safe_sp (ht 1) (safe_sp (ht 2) (safe_sp (ht 3) (ht 4))))

theorem svgEdge_inner {t : Nat → PyStr} {color : PyStr} (ht : ∀ k, SafeStr (t k)) (hc : SafeStr color) :
    Inner (svgEdge t color) := by
  unfold svgEdge
  have h1 : Inner [Piece.etag py!"path" [att py!"stroke-width" (t 0), att py!"stroke" color,
      att py!"d" (py!"M " ++ (t 1 ++ (32 :: (t 2 ++ (32 :: (t 3 ++ (32 :: t 4)))))))] []] := by
    refine Inner.etag (by decide) ?_ ?_ (by decide)
    · exact all_attrLexOk_cons (attrLexOk_att (by decide) (ht 0)) (all_attrLexOk_cons (attrLexOk_att (by decide) hc)
        (all_attrLexOk_cons (attrLexOk_att (by decide) (edge_d_safe ht)) rfl))
    · rw [attrsUnique_keys]; simp only [List.map_cons, List.map_nil, att, att2]; decide
  exact Inner.append h1 (Inner.chr (c := 10) (by decide))

theorem svgEdgeDirected_inner (p1 p2 : Rat × Rat) {t : Nat → PyStr} {color : PyStr} (ht : ∀ k, SafeStr (t k))
    (hc : SafeStr color) : Inner (svgEdgeDirected p1 p2 t color) := by
  unfold svgEdgeDirected
  split
  · exact Inner.nil
  · have h1 : Inner [Piece.etag py!"path" [att py!"stroke-width" (t 0), att py!"stroke" color,
        att py!"d" (py!"M " ++ (t 1 ++ (32 :: (t 2 ++ (32 :: (t 3 ++ (32 :: t 4))))))),
        att py!"marker-end" (py!"url(#arrow-" ++ (color ++ py!")"))] []] := by
      refine Inner.etag (by decide) ?_ ?_ (by decide)
      · exact all_attrLexOk_cons (attrLexOk_att (by decide) (ht 0)) (all_attrLexOk_cons (attrLexOk_att (by decide) hc)
          (all_attrLexOk_cons (attrLexOk_att (by decide) (edge_d_safe ht))
            (all_attrLexOk_cons (attrLexOk_att (by decide)
              (SafeStr.append (by decide) (SafeStr.append hc (by decide)))) rfl)))
      · rw [attrsUnique_keys]; simp only [List.map_cons, List.map_nil, att, att2]; decide
    exact Inner.append h1 (Inner.chr (c := 10) (by decide))

/-- the text element of a name: well formed for every `text` -/
theorem svgText_inner {t : Nat → PyStr} (text : PyStr) (position : NamePos) (ht : ∀ k, SafeStr (t k)) :
    Inner (svgText t text position) := by
  unfold svgText
  have hanchor : SafeStr (match position with
      | .left => py!"end" | .above => py!"middle" | .below => py!"middle" | .right => py!"start"
      | .other => py!"start") := by cases position <;> decide
  refine Inner.elem (by decide) ?_ ?_ (by decide) (escape_inner text)
  · exact all_attrLexOk_cons (attrLexOk_att (by decide) hanchor) (all_attrLexOk_cons (attrLexOk_att (by decide) (ht 0))
      (all_attrLexOk_cons (attrLexOk_att (by decide) (ht 1)) (all_attrLexOk_cons (attrLexOk_att (by decide) (ht 2)) rfl)))
  · rw [attrsUnique_keys]; simp only [List.map_cons, List.map_nil, att, att2]; decide

theorem svgMarker_inner {color : PyStr} (hc : SafeStr color) : Inner (svgMarker color) := by
  unfold svgMarker
  have hpath : Inner [Piece.etag py!"path" [att py!"d" py!"M0,0 L0,6 L9,3 z", att py!"fill" color] []] := by
    refine Inner.etag (by decide) ?_ ?_ (by decide)
    · exact all_attrLexOk_cons (attrLexOk_att (by decide) (by decide))
        (all_attrLexOk_cons (attrLexOk_att (by decide) hc) rfl)
    · rw [attrsUnique_keys]; simp only [List.map_cons, List.map_nil, att, att2]; decide
  have hbody : Inner ([Piece.chr 10] ++ [Piece.etag py!"path" [att py!"d" py!"M0,0 L0,6 L9,3 z",
      att py!"fill" color] []]) := Inner.append (Inner.chr (by decide)) hpath
  have hmarker := Inner.elem (n := py!"marker")
    (as := [att py!"id" (py!"arrow-" ++ color), att py!"markerWidth" py!"10", att py!"markerHeight" py!"10",
      att py!"refX" py!"9", att py!"refY" py!"3", ⟨10 :: List.replicate 16 32, py!"orient", 34, py!"auto"⟩])
    (t := [32]) (by decide)
    (all_attrLexOk_cons (attrLexOk_att (by decide) (SafeStr.append (by decide) hc))
      (all_attrLexOk_cons (attrLexOk_att (by decide) (by decide))
        (all_attrLexOk_cons (attrLexOk_att (by decide) (by decide))
          (all_attrLexOk_cons (attrLexOk_att (by decide) (by decide))
            (all_attrLexOk_cons (attrLexOk_att (by decide) (by decide))
              (all_attrLexOk_cons (by decide) rfl))))))
    (by rw [attrsUnique_keys]; simp only [List.map_cons, List.map_nil, att, att2]; decide) (by decide) hbody
  have hdefs := Inner.elem (n := py!"defs") (as := []) (t := []) (by decide) rfl rfl rfl hmarker
  have := Inner.append hdefs (Inner.chr (c := 10) (by decide))
  simpa using this

/-! ### colours -/

/-- the colour arguments are attribute-safe -/
def SafeLabelColors : LabelColors → Prop
  | .none => True
  | .list l => AllSafe l
  | .dict kv => ∀ p ∈ kv, SafeStr p.2

theorem standardColors_safe : AllSafe standardColors := by
  intro c hc
  simp only [standardColors, List.mem_cons, List.mem_nil_iff, or_false] at hc
  rcases hc with h | h | h | h | h | h | h | h | h | h <;> subst h <;> decide

theorem setMany_safe {arr : List PyStr} {kv : List (Nat × PyStr)} {r : List PyStr} (harr : AllSafe arr)
    (hkv : ∀ p ∈ kv, SafeStr p.2) (h : setMany arr kv = .ok r) : AllSafe r := by
  unfold setMany at h
  induction kv generalizing arr with
  | nil =>
    simp only [List.foldlM, pure, Except.pure, Except.ok.injEq] at h
    exact h ▸ harr
  | cons p kv ih =>
    simp only [List.foldlM, bind, Except.bind] at h
    split at h
    · simp at h
    · rename_i acc hacc
      split at hacc
      · simp only [Except.ok.injEq] at hacc
        exact ih (hacc ▸ AllSafe.set harr _ (hkv p (List.mem_cons_self)))
          (fun q hq => hkv q (List.mem_cons_of_mem _ hq)) h
      · simp at hacc

theorem getLabelColors_safe {lc : LabelColors} {l : List PyStr} (hlc : SafeLabelColors lc)
    (h : getLabelColors lc = .ok l) : AllSafe l := by
  cases lc with
  | none =>
    simp only [getLabelColors, Except.ok.injEq] at h
    exact h ▸ standardColors_safe
  | list l' =>
    simp only [getLabelColors, Except.ok.injEq] at h
    exact h ▸ hlc
  | dict kv =>
    cases kv with
    | nil => simp [getLabelColors] at h
    | cons p kv =>
      simp only [getLabelColors] at h
      exact setMany_safe (AllSafe.replicate _ (by decide)) hlc h

theorem scoreColor_safe {ν : Nums} (hν : SafeNums ν) (i side : Nat) : SafeStr (scoreColor ν i side) := by
  unfold scoreColor
  exact SafeStr.append (by decide) (SafeStr.append (hν _ _ _) (by decide))

theorem getNodeColors_safe {ν : Nums} (hν : SafeNums ν) {side n : Nat} {labels : Option Labels}
    {scores : Option Scores} {hm : Bool} {nodeColor : PyStr} {lc : LabelColors} {l : List PyStr}
    (hc : SafeStr nodeColor) (hlc : SafeLabelColors lc)
    (h : getNodeColors ν side n labels scores hm nodeColor lc = .ok l) : AllSafe l := by
  unfold getNodeColors at h
  split at h
  · -- labels
    split at h
    · simp at h
    · split at h
      · simp at h
      · rename_i colors hcol
        split at h
        · simp at h
        · simp only [Except.ok.injEq] at h
          subst h
          unfold colorsFromLabels
          refine AllSafe.tab _ _ (fun i => ?_)
          simp only
          split
          · exact AllSafe.getD (getLabelColors_safe hlc hcol) _
          · exact hc
  · split at h
    · -- scores dict
      split at h
      · simp at h
      refine setMany_safe (AllSafe.replicate _ hc) ?_ h
      intro p hp
      simp only [List.mem_map] at hp
      obtain ⟨k, _, rfl⟩ := hp
      exact scoreColor_safe hν _ _
    · split at h
      · simp at h
      · split at h
        · simp at h
        · simp only [Except.ok.injEq] at h
          subst h
          exact AllSafe.tab _ _ (fun i => scoreColor_safe hν _ _)
    · split at h
      · split at h
        · simp at h
        · exact getLabelColors_safe hlc h
      · simp only [Except.ok.injEq] at h
        exact h ▸ AllSafe.replicate _ hc

/-! ### node shapes -/

theorem modIndex_safe {colors : List PyStr} {i : Nat} {c : PyStr} (hc : AllSafe colors)
    (h : modIndex colors i = .ok c) : SafeStr c := by
  unfold modIndex at h
  split at h
  · simp at h
  · simp only [Except.ok.injEq] at h
    exact h ▸ AllSafe.getD hc _

theorem modIndexNp_safe {colors : List PyStr} {i : Nat} {c : PyStr} (hc : AllSafe colors)
    (h : modIndexNp colors i = .ok c) : SafeStr c := by
  unfold modIndexNp at h
  split at h
  · simp at h
  · simp only [Except.ok.injEq] at h
    exact h ▸ AllSafe.getD hc _

theorem svgPieChartNode_inner {ν : Nums} (hν : SafeNums ν) (i side : Nat) (row : List Rat) {colors : List PyStr}
    (hc : AllSafe colors) {ps : List Piece} (h : svgPieChartNode ν i side row colors = .ok ps) : Inner ps := by
  unfold svgPieChartNode at h
  split at h
  · simp only [Except.ok.injEq] at h
    exact h ▸ svgNode_inner (hν _ _ _) (hν _ _ _) (hν _ _ _) (by decide) (by decide)
  · refine foldlM_invariant Inner _ _ _ _ Inner.nil ?_ h
    intro acc index acc' hacc hstep
    simp only [bind, Except.bind, pure, Except.pure] at hstep
    split at hstep
    · simp at hstep
    · rename_i c hcol
      simp only [Except.ok.injEq] at hstep
      exact hstep ▸ Inner.append hacc (svgPieSector_inner (fun _ => hν _ _ _) (modIndex_safe hc hcol) (hν _ _ _))

theorem nodeShape_inner {ν : Nums} (hν : SafeNums ν) (side i : Nat) (probs : Option Probs) {colors : List PyStr}
    (hc : AllSafe colors) {ps : List Piece} (h : nodeShape ν side i probs colors = .ok ps) : Inner ps := by
  unfold nodeShape at h
  split at h
  · split at h
    · simp only [Except.ok.injEq] at h
      exact h ▸ svgNode_inner (hν _ _ _) (hν _ _ _) (hν _ _ _) (AllSafe.getD hc _) (hν _ _ _)
    · simp at h
  · split at h
    · simp at h
    · split at h
      · simp at h
      · simp only at h
        split at h
        · split at h
          · simp only [Except.ok.injEq] at h
            exact h ▸ svgNode_inner (hν _ _ _) (hν _ _ _) (hν _ _ _) (AllSafe.getD hc _) (hν _ _ _)
          · simp at h
        · exact svgPieChartNode_inner hν _ _ _ hc h

theorem graphNodes_inner {ν : Nums} (hν : SafeNums ν) (order : List Nat) (npos : Nat) (probs : Option Probs)
    {colors : List PyStr} (hc : AllSafe colors) {ps : List Piece}
    (h : graphNodes ν order npos probs colors = .ok ps) : Inner ps := by
  unfold graphNodes at h
  refine foldlM_invariant Inner _ _ _ _ Inner.nil ?_ h
  intro acc i acc' hacc hstep
  split at hstep
  · simp at hstep
  · split at hstep
    · rename_i s hs
      simp only [Except.ok.injEq] at hstep
      exact hstep ▸ Inner.append hacc (nodeShape_inner hν _ _ _ hc hs)
    · simp at hstep

theorem nodeLoop_inner {ν : Nums} (hν : SafeNums ν) (side n : Nat) (probs : Option Probs)
    {colors : List PyStr} (hc : AllSafe colors) {ps : List Piece}
    (h : nodeLoop ν side n probs colors = .ok ps) : Inner ps := by
  unfold nodeLoop at h
  refine foldlM_invariant Inner _ _ _ _ Inner.nil ?_ h
  intro acc i acc' hacc hstep
  split at hstep
  · rename_i s hs
    simp only [Except.ok.injEq] at hstep
    exact hstep ▸ Inner.append hacc (nodeShape_inner hν _ _ _ hc hs)
  · simp at hstep

/-! ### names -/

theorem textLoop_inner {ν : Nums} (hν : SafeNums ν) (side n : Nat) (names : List PyStr) (np : NamePos)
    {ps : List Piece} (h : textLoop ν side n names np = .ok ps) : Inner ps := by
  unfold textLoop at h
  refine foldlM_invariant Inner _ _ _ _ Inner.nil ?_ h
  intro acc i acc' hacc hstep
  split at hstep
  · simp only [Except.ok.injEq] at hstep
    exact hstep ▸ Inner.append hacc (svgText_inner _ _ (fun _ => hν _ _ _))
  · simp at hstep

theorem namesText_inner {ν : Nums} (hν : SafeNums ν) (side n : Nat) (names : Option (List PyStr)) (np : NamePos)
    {ps : List Piece} (h : namesText ν side n names np = .ok ps) : Inner ps := by
  unfold namesText at h
  split at h
  · exact textLoop_inner hν _ _ _ _ h
  · simp only [pure, Except.pure, Except.ok.injEq] at h
    exact h ▸ Inner.nil

/-! ### edges -/

theorem edgeColorArray_safe (m : Nat) (data : List Int) {colors : List PyStr} {edgeColor : PyStr}
    (hc : AllSafe colors) (he : SafeStr edgeColor) : AllSafe (edgeColorArray m data colors edgeColor) := by
  unfold edgeColorArray
  refine AllSafe.tab _ _ (fun k => ?_)
  simp only
  repeat' split
  all_goals first | exact AllSafe.getD hc _ | exact he

/-- residual colours are attribute-safe -/
def ResidSafe (r : List (Nat × Nat × PyStr)) : Prop := ∀ p ∈ r, SafeStr p.2.2

theorem edgeLabelStep_resid {nRow nCol : Nat} {es : List Entry} {colors : List PyStr} (hc : AllSafe colors)
    {st st' : LabelState} {lab : Int × Int × Int} (hst : ResidSafe st.residual)
    (h : edgeLabelStep nRow nCol es colors st lab = .ok st') : ResidSafe st'.residual := by
  unfold edgeLabelStep at h
  simp only at h
  split at h
  · simp at h
  · split at h
    · simp at h
    · split at h
      · split at h
        · simp only [Except.ok.injEq] at h
          subst h; exact hst
        · simp at h
      · simp only [Except.ok.injEq] at h
        subst h
        intro p hp
        simp only [List.mem_append, List.mem_singleton] at hp
        rcases hp with hp | hp
        · exact hst p hp
        · subst hp; exact AllSafe.getD hc _

theorem getEdgeColors_safe {sort : List Int → List Nat} {nRow nCol : Nat} {es : List Entry}
    {labs : List (Int × Int × Int)} {edgeColor : PyStr}
    {lc : LabelColors} {ec : EdgeColors} (he : SafeStr edgeColor) (hlc : SafeLabelColors lc)
    (h : getEdgeColors sort nRow nCol es labs edgeColor lc = .ok ec) : AllSafe ec.colors ∧ ResidSafe ec.residual := by
  unfold getEdgeColors at h
  simp only at h
  split at h
  · simp at h
  split at h
  · simp only [Except.ok.injEq] at h
    subst h
    exact ⟨edgeColorArray_safe _ _ (fun _ hc => by simp at hc) he, fun _ hp => by simp at hp⟩
  · split at h
    · simp at h
    · rename_i colors hcol
      have hcs := getLabelColors_safe hlc hcol
      split at h
      · simp at h
      · rename_i st hst
        simp only [Except.ok.injEq] at h
        subst h
        refine ⟨edgeColorArray_safe _ _ hcs he, ?_⟩
        refine foldlM_invariant (fun st => ResidSafe st.residual) _ _ _ _ (fun _ hp => by simp at hp) ?_ hst
        intro acc x acc' hacc hstep
        exact edgeLabelStep_resid hcs hacc hstep

theorem graphEdge_inner {ν : Nums} (hν : SafeNums ν) (directed : Bool) (pos : List (Rat × Rat)) (slot : Nat → Slot)
    (k i j : Nat) {color : PyStr} (hc : SafeStr color) : Inner (graphEdge ν directed pos slot k i j color) := by
  unfold graphEdge
  split
  · exact svgEdgeDirected_inner _ _ (fun _ => hν _ _ _) hc
  · exact svgEdge_inner (fun _ => hν _ _ _) hc

theorem storedEdges_inner {ν : Nums} (hν : SafeNums ν) (directed : Bool) (es : List Entry) (pos : List (Rat × Rat))
    {ec : EdgeColors} (hc : AllSafe ec.colors) {ps : List Piece}
    (h : storedEdges ν directed es pos ec = .ok ps) : Inner ps := by
  unfold storedEdges at h
  refine foldlM_invariant Inner _ _ _ _ Inner.nil ?_ h
  intro acc ix acc' hacc hstep
  split at hstep
  · simp at hstep
  · simp only at hstep
    split at hstep
    · simp at hstep
    · simp only [Except.ok.injEq] at hstep
      exact hstep ▸ Inner.append hacc (graphEdge_inner hν _ _ _ _ _ _ (AllSafe.getD hc _))

theorem residSafe_getD {r : List (Nat × Nat × PyStr)} (hr : ResidSafe r) (k : Nat) : SafeStr (r.getD k (0, 0, [])).2.2 := by
  rw [List.getD_eq_getElem?_getD]
  cases hk : r[k]? with
  | none => exact SafeStr.nil
  | some p => exact hr p (List.mem_of_getElem? hk)

theorem residEdges_inner {ν : Nums} (hν : SafeNums ν) (directed : Bool) (pos : List (Rat × Rat))
    {r : List (Nat × Nat × PyStr)} (hr : ResidSafe r) : Inner (residEdges ν directed pos r) := by
  unfold residEdges
  exact Inner.flatMap _ _ (fun k => graphEdge_inner hν _ _ _ _ _ _ (residSafe_getD hr k))

theorem defaultEdgeColor_safe {ec : Option PyStr} (h : ∀ c, ec = some c → SafeStr c) (b : Bool) :
    SafeStr (defaultEdgeColor ec b) := by
  unfold defaultEdgeColor
  split
  · exact h _ rfl
  · split <;> decide

theorem mem_dedup {c : PyStr} {l : List PyStr} (h : c ∈ dedup l) : c ∈ l := by
  induction l with
  | nil => simp [dedup] at h
  | cons x xs ih =>
    simp only [dedup, List.mem_cons, List.mem_filter] at h
    rcases h with h | h
    · exact h ▸ List.mem_cons_self
    · exact List.mem_cons_of_mem _ (ih h.1)

theorem Inner.flatMap_mem {α : Type} (l : List α) (f : α → List Piece) (h : ∀ x ∈ l, Inner (f x)) :
    Inner (l.flatMap f) := by
  induction l with
  | nil => exact Inner.nil
  | cons x xs ih =>
    simpa using Inner.append (h x List.mem_cons_self) (ih (fun y hy => h y (List.mem_cons_of_mem _ hy)))

theorem graphEdgeParts_inner {ν : Nums} (hν : SafeNums ν) (a : GraphArgs) (pos : List (Rat × Rat))
    (hec : ∀ c, a.edgeColor = some c → SafeStr c) (hlc : SafeLabelColors a.labelColors)
    {ps : List PyStr × List Piece} (h : graphEdgeParts ν a pos = .ok ps) : AllSafe ps.1 ∧ Inner ps.2 := by
  unfold graphEdgeParts at h
  split at h
  · split at h
    · simp at h
    · rename_i ec hecol
      obtain ⟨h1, h2⟩ := getEdgeColors_safe (defaultEdgeColor_safe hec _) hlc hecol
      split at h
      · simp at h
      · rename_i stored hstored
        split at h
        · simp at h
        · simp only [Except.ok.injEq] at h
          subst h
          refine ⟨?_, Inner.append (storedEdges_inner hν _ _ _ h1 hstored) (residEdges_inner hν _ _ h2)⟩
          simp only
          split
          · exact fun c hc => h1 c (mem_dedup hc)
          · exact fun c hc => by simp at hc
  · simp only [Except.ok.injEq] at h
    subst h
    exact ⟨fun c hc => by simp at hc, Inner.nil⟩

theorem bistoredEdges_inner {ν : Nums} (hν : SafeNums ν) (es : List Entry) {ec : EdgeColors} (hc : AllSafe ec.colors)
    {ps : List Piece} (h : bistoredEdges ν es ec = .ok ps) : Inner ps := by
  unfold bistoredEdges at h
  refine foldlM_invariant Inner _ _ _ _ Inner.nil ?_ h
  intro acc ix acc' hacc hstep
  split at hstep
  · simp at hstep
  · simp only [Except.ok.injEq] at hstep
    exact hstep ▸ Inner.append hacc (svgEdge_inner (fun _ => hν _ _ _) (AllSafe.getD hc _))

theorem biresidEdges_inner {ν : Nums} (hν : SafeNums ν) {r : List (Nat × Nat × PyStr)} (hr : ResidSafe r) :
    Inner (biresidEdges ν r) := by
  unfold biresidEdges
  exact Inner.flatMap _ _ (fun k => svgEdge_inner (fun _ => hν _ _ _) (residSafe_getD hr k))

theorem bigraphEdges_inner {ν : Nums} (hν : SafeNums ν) (a : BigraphArgs)
    (hec : ∀ c, a.edgeColor = some c → SafeStr c) (hlc : SafeLabelColors a.labelColors) {ps : List Piece}
    (h : bigraphEdges ν a = .ok ps) : Inner ps := by
  unfold bigraphEdges at h
  split at h
  · simp only [bind, Except.bind, pure, Except.pure] at h
    split at h
    · simp at h
    · rename_i ec hecol
      obtain ⟨h1, h2⟩ := getEdgeColors_safe (defaultEdgeColor_safe hec _) hlc hecol
      split at h
      · simp at h
      · rename_i stored hstored
        simp only [Except.ok.injEq] at h
        subst h
        exact Inner.append (bistoredEdges_inner hν _ h1 hstored) (biresidEdges_inner hν h2)
  · simp only [pure, Except.pure, Except.ok.injEq] at h
    exact h ▸ Inner.nil

/-! ### dendrograms -/

theorem Inner.map_singleton {α : Type} (l : List α) (f : α → Piece) (h : ∀ x, Inner [f x]) : Inner (l.map f) := by
  induction l with
  | nil => exact Inner.nil
  | cons x xs ih => simpa using Inner.append (h x) ih

theorem dendroPaths_inner {ν : Nums} (hν : SafeNums ν) (t : Nat) {c : PyStr} (hc : SafeStr c) :
    Inner (dendroPaths ν t c) := by
  unfold dendroPaths
  refine Inner.map_singleton _ _ (fun k => ?_)
  refine Inner.etag (by decide) ?_ ?_ (by decide)
  · exact all_attrLexOk_cons (attrLexOk_att (by decide) (hν _ _ _)) (all_attrLexOk_cons (attrLexOk_att (by decide) hc)
      (all_attrLexOk_cons (attrLexOk_att (by decide)
        (SafeStr.append (by decide) (safe_sp (hν _ _ _) (safe_sp (hν _ _ _) (safe_sp (hν _ _ _) (hν _ _ _)))))) rfl))
  · rw [attrsUnique_keys]; simp only [List.map_cons, List.map_nil, att, att2]; decide

/-- the text element of a leaf name: well formed for every `name` -/
theorem dendroText_inner {ν : Nums} (hν : SafeNums ν) (i : Nat) (name : PyStr) (rotate rotateNames : Bool) :
    Inner (dendroText ν i name rotate rotateNames) := by
  unfold dendroText
  simp only
  split
  · refine Inner.elem (by decide) ?_ ?_ (by decide) (escape_inner name)
    · exact all_attrLexOk_cons (attrLexOk_att (by decide) (hν _ _ _))
        (all_attrLexOk_cons (attrLexOk_att (by decide) (hν _ _ _))
          (all_attrLexOk_cons (attrLexOk_att (by decide) (hν _ _ _)) rfl))
    · rw [attrsUnique_keys]; simp only [List.map_cons, List.map_nil, att, att2]; decide
  · split
    · refine Inner.elem (by decide) ?_ ?_ (by decide) (escape_inner name)
      · exact all_attrLexOk_cons (attrLexOk_att (by decide) (hν _ _ _))
          (all_attrLexOk_cons (attrLexOk_att (by decide) (hν _ _ _))
            (all_attrLexOk_cons (attrLexOk_att2 (by decide)
              (SafeStr.append (by decide) (SafeStr.append (hν _ _ _) (SafeStr.append (by decide)
                (SafeStr.append (hν _ _ _) (by decide))))))
              (all_attrLexOk_cons (attrLexOk_att (by decide) (hν _ _ _)) rfl)))
      · rw [attrsUnique_keys]; simp only [List.map_cons, List.map_nil, att, att2]; decide
    · refine Inner.elem (by decide) ?_ ?_ (by decide) (escape_inner name)
      · exact all_attrLexOk_cons (attrLexOk_att (by decide) (hν _ _ _))
          (all_attrLexOk_cons (attrLexOk_att (by decide) (hν _ _ _))
            (all_attrLexOk_cons (attrLexOk_att2 (by decide) (hν _ _ _)) rfl))
      · rw [attrsUnique_keys]; simp only [List.map_cons, List.map_nil, att, att2]; decide

theorem dendroNames_inner {ν : Nums} (hν : SafeNums ν) (a : DendroArgs) (index : List Nat) {ps : List Piece}
    (h : dendroNames ν a index = .ok ps) : Inner ps := by
  unfold dendroNames at h
  split at h
  · simp only [pure, Except.pure, Except.ok.injEq] at h
    exact h ▸ Inner.nil
  · refine foldlM_invariant Inner _ _ _ _ Inner.nil ?_ h
    intro acc i acc' hacc hstep
    split at hstep
    · simp at hstep
    · split at hstep
      · simp at hstep
      · simp only [Except.ok.injEq] at hstep
        exact hstep ▸ Inner.append hacc (dendroText_inner hν _ _ _ _)

theorem dendroStep_inner {ν : Nums} (hν : SafeNums ν) (a : DendroArgs) (hcol : SafeStr a.color)
    (hcols : AllSafe a.colors) (n : Nat) {st st' : TreeState} (t : Nat) (hst : Inner st.out)
    (h : dendroStep ν a n st t = .ok st') : Inner st'.out := by
  unfold dendroStep at h
  simp only [bind, Except.bind, pure, Except.pure] at h
  repeat' split at h
  all_goals first
    | (simp at h; done)
    | (simp only [Except.ok.injEq] at h
       subst h
       refine Inner.append hst (dendroPaths_inner hν _ ?_)
       first
         | exact hcol
         | (rename_i hm; exact modIndexNp_safe hcols (by assumption)))

theorem dendroTree_inner {ν : Nums} (hν : SafeNums ν) (a : DendroArgs) (hcol : SafeStr a.color)
    (hcols : AllSafe a.colors) (cut index : List Nat) {ps : List Piece} (h : dendroTree ν a cut index = .ok ps) :
    Inner ps := by
  unfold dendroTree at h
  simp only [bind, Except.bind, pure, Except.pure] at h
  split at h
  · simp at h
  · rename_i st hst
    simp only [Except.ok.injEq] at h
    subst h
    exact foldlM_invariant (fun st => Inner st.out) _ _ _ _ Inner.nil
      (fun acc t acc' hacc hstep => dendroStep_inner hν a hcol hcols _ t hacc hstep) hst

/-- what a successful `svg_dendrogram_top/left` went through -/
theorem svgDendrogram_ok {ν : Nums} {a : DendroArgs} {svg : List Piece} (h : svgDendrogram ν a = .ok svg) :
    ∃ cut index text paths, a.cutLabels = some cut ∧ getIndex a.merges a.reorder = .ok index ∧
      a.merges.isEmpty = false ∧ dendroNames ν a index = .ok text ∧ dendroTree ν a cut index = .ok paths ∧
      svg = svgDoc ν true false (text ++ paths) := by
  unfold svgDendrogram at h
  split at h
  · simp at h
  rename_i cut hcut
  split at h
  · simp at h
  rename_i index hindex
  split at h
  · simp at h
  rename_i hne
  split at h
  · simp at h
  rename_i text htext
  split at h
  · simp at h
  rename_i paths hpaths
  simp only [Except.ok.injEq] at h
  exact ⟨cut, index, text, paths, hcut, hindex, by simpa using hne, htext, hpaths, h.symm⟩

/-! ### the document -/

theorem writeFile_svg {fn : Option PyStr} {doc : List Piece} {d : Drawing} (h : writeFile fn doc = .ok d) :
    d.svg = doc := by
  unfold writeFile at h
  split at h
  · simp only [Except.ok.injEq] at h; subst h; rfl
  · split at h
    · simp only [Except.ok.injEq] at h; subst h; rfl
    · simp at h


theorem svgDoc_wf {ν : Nums} (hν : SafeNums ν) (twoBlanks newlines : Bool) {body : List Piece} (hb : Inner body) :
    wf (render (svgDoc ν twoBlanks newlines body)) = true := by
  unfold svgDoc
  refine wf_document ?_ ?_ hb ?_ ?_
  · unfold svgHeader
    refine all_attrLexOk_cons (attrLexOk_att (by decide) (hν _ _ _))
      (all_attrLexOk_cons (attrLexOk_att (by decide) (hν _ _ _)) (all_attrLexOk_cons ?_ rfl))
    split
    · exact attrLexOk_att2 (by decide) (by decide)
    · exact attrLexOk_att (by decide) (by decide)
  · rw [attrsUnique_keys]
    unfold svgHeader
    cases twoBlanks <;> simp only [List.map_cons, List.map_nil, att, att2] <;> decide
  · cases newlines <;> simp
  · cases newlines <;> simp

end SkNet.Svg
