/-
Connected components through the whole of `Louvain.fit`: stored entries of an aggregate graph come from stored
entries between the clusters, so the clusters of the final membership lie inside connected components of the
first level, and the stored entries of the first level are non-zero weights of the input matrix.
-/
import SkNet.Lemmas.ModularityPre

namespace SkNet.Modularity

theorem getD_nil_of_le {α : Type} (l : List (List α)) (i : Nat) (h : l.length ≤ i) : l.getD i [] = [] := by
  rw [List.getD_eq_getElem?_getD, List.getElem?_eq_none h]; rfl

theorem plink_lt (lv : Level) (hlv : LevelOK lv) {a b : Nat} (h : PLink lv.graph a b) : a < lv.n ∧ b < lv.n := by
  have key : ∀ x y, (∃ e ∈ lv.graph.row x, e.1 = y) → x < lv.n ∧ y < lv.n := by
    intro x y ⟨e, he, hy⟩
    have hx : x < lv.n := by
      by_contra hx
      have : lv.graph.row x = [] := getD_nil_of_le lv.rows x (by rw [hlv.lenR]; omega)
      rw [this] at he
      exact absurd he List.not_mem_nil
    exact ⟨hx, hy ▸ hlv.cols x hx e he⟩
  rcases h with h | h
  · exact key a b h
  · exact (key b a h).symm

/-- `memb` maps the nodes of the first level `lv0` to the nodes of the current level `lv` -/
structure CompInv (lv0 lv : Level) (memb : List Nat) : Prop where
  within : WithinComp lv0.graph memb
  links : ∀ a b, PLink lv.graph a b → ∃ u v, u < lv0.n ∧ v < lv0.n ∧ labOf memb u = a ∧ labOf memb v = b ∧
    PConn lv0.graph u v

theorem CompInv.conn {lv0 lv : Level} {memb : List Nat} (hinv : CompInv lv0 lv memb) {a b : Nat}
    (h : PConn lv.graph a b) :
    ∀ u v, u < lv0.n → v < lv0.n → labOf memb u = a → labOf memb v = b → PConn lv0.graph u v := by
  induction h with
  | refl => intro u v hu hv hua hvb; exact hinv.within u v hu hv (hua.trans hvb.symm)
  | @step x b _ hl ih =>
    intro u v hu hv hua hvb
    obtain ⟨u', v', hu', hv', hux, hvb', hc⟩ := hinv.links x b hl
    exact ((ih u u' hu hu' hua hux).trans hc).trans (hinv.within v' v hv' hv (hvb'.trans hvb.symm))

theorem compInv_init (lv0 : Level) (hlv : LevelOK lv0) : CompInv lv0 lv0 (arange lv0.n) where
  within := withinComp_singletons lv0.graph
  links := by
    intro a b h
    obtain ⟨ha, hb⟩ := plink_lt lv0 hlv h
    exact ⟨a, b, ha, hb, labOf_range _ _ ha, labOf_range _ _ hb, PConn.single h⟩

theorem compInv_step (lv0 lv : Level) (hlv : LevelOK lv) (memb : List Nat) (hinv : CompInv lv0 lv memb)
    (hmlen : memb.length = lv0.n) (hmb : ∀ u, u < lv0.n → labOf memb u < lv.n)
    (labels : List Nat) (hw : WithinComp lv.graph labels) :
    CompInv lv0 (aggregate labels lv) (memb.map fun x => labels.getD x 0) := by
  have hcomp : ∀ u, u < lv0.n → labOf (memb.map fun x => labels.getD x 0) u = labOf labels (labOf memb u) :=
    fun u hu => labOf_map memb _ u (by rw [hmlen]; exact hu)
  -- a stored entry of the aggregate, seen from the first level
  have key : ∀ a b, (∃ e' ∈ (aggregate labels lv).graph.row a, e'.1 = b) →
      ∃ u v, u < lv0.n ∧ v < lv0.n ∧ labOf (memb.map fun x => labels.getD x 0) u = a ∧
        labOf (memb.map fun x => labels.getD x 0) v = b ∧ PConn lv0.graph u v := by
    intro a b ⟨e', he', hb⟩
    have ha : a < nLabels labels := by
      by_contra ha
      have : (aggregate labels lv).graph.row a = [] :=
        getD_nil_of_le _ a (by simp [aggregate]; omega)
      rw [this] at he'
      exact absurd he' List.not_mem_nil
    obtain ⟨i, hi, hia, e, he, hle⟩ := aggregate_pattern labels lv hlv a ha e' he'
    obtain ⟨u, v, hu, hv, hui, hve, hc⟩ := hinv.links i e.1 (Or.inl ⟨e, he, rfl⟩)
    refine ⟨u, v, hu, hv, ?_, ?_, hc⟩
    · rw [hcomp u hu, hui, hia]
    · rw [hcomp v hv, hve, hle, hb]
  refine ⟨?_, ?_⟩
  · intro u v hu hv huv
    rw [hcomp u hu, hcomp v hv] at huv
    exact hinv.conn (hw _ _ (hmb u hu) (hmb v hv) huv) u v hu hv rfl rfl
  · intro a b h
    rcases h with h | h
    · exact key a b h
    · obtain ⟨u, v, hu, hv, h1, h2, hc⟩ := key b a h
      exact ⟨v, u, hv, hu, h2, h1, hc.symm⟩

/-- the clusters returned by the outer loop lie inside connected components of the first level -/
theorem louvainLoopCapped_comp (res tolOpt tolAgg : Rat) (nAgg : Int) (lv0 : Level) :
    ∀ (fuel count : Nat) (lv : Level) (memb : List Nat) (incs : List Rat) (out : FitOut),
      LevelOK lv → memb.length = lv0.n → (∀ u, u < lv0.n → labOf memb u < lv.n) → CompInv lv0 lv memb →
      louvainLoopCapped res tolOpt tolAgg nAgg fuel count lv memb incs = some out →
      WithinComp lv0.graph out.labels := by
  intro fuel
  induction fuel with
  | zero => intro count lv memb incs out _ _ _ _ h; simp [louvainLoopCapped] at h
  | succ f ih =>
    intro count lv memb incs out hlv hmlen hmb hinv h
    simp only [louvainLoopCapped] at h
    split at h
    · cases h
    · rename_i labels1 inc hopt
      obtain ⟨-, g2, -, g4, g5⟩ := louvain_level_capped lv hlv res tolOpt labels1 inc hopt
      have hinv' := compInv_step lv0 lv hlv memb hinv hmlen hmb (uniqueInverse labels1) g5
      split at h
      · simp only [Option.some.injEq] at h
        subst h
        exact hinv'.within
      · have hmlen' : (memb.map fun x => (uniqueInverse labels1).getD x 0).length = lv0.n := by simp [hmlen]
        have hmb' : ∀ u, u < lv0.n →
            labOf (memb.map fun x => (uniqueInverse labels1).getD x 0) u < (aggregate (uniqueInverse labels1) lv).n := by
          intro u hu
          rw [labOf_map memb _ u (by rw [hmlen]; exact hu)]
          exact labOf_lt_nLabels _ _ (by rw [g2]; exact hmb u hu)
        exact ih _ _ _ _ out g4 hmlen' hmb' hinv' h

/-- stored entries of the first level are non-zero weights of the matrix, in one direction or the other -/
theorem symLevel_plink (n : Nat) (A : Nat → Nat → Rat) (out inn : Nat → Rat) (u v : Nat)
    (h : PLink (symLevel n A out inn).graph u v) : u < n ∧ v < n ∧ linked A u v = true := by
  obtain ⟨hu, hv⟩ := plink_lt _ (symLevel_levelOK n A out inn) h
  have hu' : u < n := hu
  have hv' : v < n := hv
  have key : ∀ x y, x < n → (∃ e ∈ (symLevel n A out inn).graph.row x, e.1 = y) → symm A x y ≠ 0 := by
    intro x y hx ⟨e, he, hy⟩
    have hrow : (symLevel n A out inn).graph.row x
        = ((List.range n).filter fun j => symm A x j != 0).map fun j => (j, symm A x j / symTotal n A) := by
      show (tab n _).getD x [] = _
      rw [tab_getD, if_pos hx]
      rfl
    rw [hrow] at he
    obtain ⟨j, hj, rfl⟩ := List.mem_map.mp he
    have := (List.mem_filter.mp hj).2
    simp only [bne_iff_ne, ne_eq] at this
    rw [← hy]; exact this
  have hne : symm A u v ≠ 0 := by
    rcases h with h | h
    · exact key u v hu' h
    · rw [symm_comm]; exact key v u hv' h
  refine ⟨hu', hv', ?_⟩
  unfold linked
  unfold symm at hne
  by_contra hc
  simp only [Bool.or_eq_true, bne_iff_ne, ne_eq, not_or, not_not] at hc
  rw [hc.1, hc.2] at hne
  exact hne (by norm_num)

theorem symLevel_conn (n : Nat) (A : Nat → Nat → Rat) (out inn : Nat → Rat) (u v : Nat) (hu : u < n)
    (h : PConn (symLevel n A out inn).graph u v) : Connected n A u v := by
  induction h with
  | refl => exact Connected.refl hu
  | step _ hl ih =>
    obtain ⟨-, hw, hlk⟩ := symLevel_plink n A out inn _ _ hl
    exact Connected.step ih hw hlk

/-- **clusters_within_components (Louvain.fit as compiled)**, on the adjacency `get_adjacency` produced -/
theorem louvainFitAdj_comp (kind : Kind) (res tolOpt tolAgg : Rat) (nAgg : Int) (n : Nat) (A : Nat → Nat → Rat)
    (nnz : Nat) (out : FitOut) (h : louvainFitAdj kind res tolOpt tolAgg nAgg n A nnz = .ok (some out)) :
    ∀ u v, u < n → v < n → labOf out.labels u = labOf out.labels v → Connected n A u v := by
  unfold louvainFitAdj at h
  split at h
  · cases h
  · rename_i lv hlv
    simp only [Except.ok.injEq] at h
    obtain ⟨w, hw, rfl⟩ := preProcessAdj_ok _ _ _ _ _ hlv
    have hOK := symLevel_levelOK n A w.1 w.2
    have hwc := louvainLoopCapped_comp res tolOpt tolAgg nAgg _ _ 0 _
      (arange n) [] out hOK (by simp [arange, symLevel])
      (fun u hu => by
        show labOf (List.range n) u < n
        rw [labOf_range n u hu]; exact hu)
      (compInv_init _ hOK) h
    intro u v hu hv huv
    exact symLevel_conn _ _ _ _ u v hu (hwc u v hu hv huv)

theorem louvainFitCapped_comp (kind : Kind) (res tolOpt tolAgg : Rat) (nAgg : Int) (nRow nCol nnz : Nat)
    (B : Nat → Nat → Rat) (fb : Bool) (out : FitOut)
    (h : louvainFitCapped kind res tolOpt tolAgg nAgg nRow nCol nnz B fb = .ok (some out)) :
    ∀ u v, u < (kindAdj kind nRow nCol B fb).1 → v < (kindAdj kind nRow nCol B fb).1 →
      labOf out.labels u = labOf out.labels v →
      Connected (kindAdj kind nRow nCol B fb).1 (kindAdj kind nRow nCol B fb).2 u v :=
  louvainFitAdj_comp kind res tolOpt tolAgg nAgg _ _ nnz out h

end SkNet.Modularity
