/-
Sums over a partition: the algebra behind `probs_` (rows of `normalize(A·M)`) and `aggregate_` (`Mᵀ·A·M`) (C05).
-/
import SkNet.Model.Clustering
import SkNet.Spec.Clustering
import Mathlib.Tactic.Ring
import Mathlib.Tactic.Linarith
import Mathlib.Algebra.Order.Field.Rat

namespace SkNet.Clustering

/-! ### `sumR` -/

@[simp] theorem sumR_nil : sumR [] = 0 := rfl
@[simp] theorem sumR_cons (x : Rat) (l : List Rat) : sumR (x :: l) = x + sumR l := rfl

theorem sumR_append (l₁ l₂ : List Rat) : sumR (l₁ ++ l₂) = sumR l₁ + sumR l₂ := by
  induction l₁ with
  | nil => simp
  | cons x xs ih => simp [ih]; ring

theorem tab_succ {α : Type} (k : Nat) (f : Nat → α) : tab (k + 1) f = tab k f ++ [f k] := by
  simp [tab, List.range_succ]

theorem sumR_tab_succ (k : Nat) (f : Nat → Rat) : sumR (tab (k + 1) f) = sumR (tab k f) + f k := by
  rw [tab_succ, sumR_append]; simp

theorem sumR_tab_zero (k : Nat) : sumR (tab k fun _ => (0 : Rat)) = 0 := by
  induction k with
  | zero => rfl
  | succ k ih => rw [sumR_tab_succ, ih]; ring

theorem sumR_tab_add (k : Nat) (f g : Nat → Rat) :
    sumR (tab k fun c => f c + g c) = sumR (tab k f) + sumR (tab k g) := by
  induction k with
  | zero => simp [tab]
  | succ k ih => rw [sumR_tab_succ, sumR_tab_succ, sumR_tab_succ, ih]; ring

theorem sumR_tab_congr {k : Nat} {f g : Nat → Rat} (h : ∀ c, c < k → f c = g c) :
    sumR (tab k f) = sumR (tab k g) := by
  induction k with
  | zero => rfl
  | succ k ih =>
    rw [sumR_tab_succ, sumR_tab_succ, ih (fun c hc => h c (by omega)), h k (by omega)]

theorem sumR_tab_indicator (k c0 : Nat) (x : Rat) :
    sumR (tab k fun c => if c0 = c then x else 0) = if c0 < k then x else 0 := by
  induction k with
  | zero => simp [tab]
  | succ k ih =>
    rw [sumR_tab_succ, ih]
    by_cases h1 : c0 < k
    · have : c0 ≠ k := by omega
      simp [h1, this]; omega
    · by_cases h2 : c0 = k
      · subst h2; simp
      · have : ¬ c0 < k + 1 := by omega
        simp [h1, h2, this]

theorem sumR_tab_div (k : Nat) (f : Nat → Rat) (d : Rat) :
    sumR (tab k fun c => f c / d) = sumR (tab k f) / d := by
  induction k with
  | zero => simp [tab]
  | succ k ih => rw [sumR_tab_succ, sumR_tab_succ, ih]; ring

theorem sumR_tab_nonneg {k : Nat} {f : Nat → Rat} (h : ∀ c, c < k → 0 ≤ f c) : 0 ≤ sumR (tab k f) := by
  induction k with
  | zero => simp [tab]
  | succ k ih =>
    rw [sumR_tab_succ]
    have := ih (fun c hc => h c (by omega))
    have := h k (by omega)
    linarith

theorem sumR_nonneg {l : List Rat} (h : ∀ x ∈ l, 0 ≤ x) : 0 ≤ sumR l := by
  induction l with
  | nil => simp
  | cons x xs ih =>
    have := h x (by simp)
    have := ih (fun y hy => h y (by simp [hy]))
    simp; linarith

theorem map_tab {α β : Type} (k : Nat) (f : Nat → α) (g : α → β) : (tab k f).map g = tab k fun c => g (f c) := by
  simp [tab]

theorem absR_of_nonneg {x : Rat} (h : 0 ≤ x) : absR x = x := by
  unfold absR; rw [if_neg (by linarith)]

theorem absR_zero : absR 0 = 0 := by simp [absR]

/-! ### sums over the classes of a labelling -/

/-- weight of the entries of `l` carrying label `c` -/
def classSum {α : Type} (l : List α) (lab : α → Nat) (w : α → Rat) (c : Nat) : Rat :=
  sumR ((l.filter fun e => lab e == c).map w)

theorem classSum_cons {α : Type} (e : α) (l : List α) (lab : α → Nat) (w : α → Rat) (c : Nat) :
    classSum (e :: l) lab w c = (if lab e = c then w e else 0) + classSum l lab w c := by
  unfold classSum
  by_cases h : lab e = c
  · simp [List.filter_cons, h]
  · simp [List.filter_cons, h]

theorem classSum_nonneg {α : Type} {l : List α} {lab : α → Nat} {w : α → Rat} (h : ∀ e ∈ l, 0 ≤ w e) (c : Nat) :
    0 ≤ classSum l lab w c := by
  apply sumR_nonneg
  intro x hx
  obtain ⟨e, he, rfl⟩ := List.mem_map.mp hx
  exact h e (List.mem_filter.mp he).1

/-- ★ the class sums of a labelling with labels below `k` add up to the total -/
theorem sum_classSum {α : Type} (l : List α) (lab : α → Nat) (w : α → Rat) (k : Nat)
    (h : ∀ e ∈ l, lab e < k) : sumR (tab k (classSum l lab w)) = sumR (l.map w) := by
  induction l with
  | nil =>
    have : (tab k (classSum ([] : List α) lab w)) = tab k fun _ => (0 : Rat) := by
      simp [tab, classSum]
    rw [this, sumR_tab_zero]; rfl
  | cons e es ih =>
    have he : lab e < k := h e (by simp)
    have : sumR (tab k (classSum (e :: es) lab w)) =
        sumR (tab k fun c => (if lab e = c then w e else 0) + classSum es lab w c) :=
      sumR_tab_congr (fun c _ => classSum_cons e es lab w c)
    rw [this, sumR_tab_add, sumR_tab_indicator, if_pos he, ih (fun x hx => h x (by simp [hx]))]
    simp

/-! ### one row of `probs_` -/

theorem dotMember_row (row : List (Nat × Rat)) (labels : List Nat) (k : Nat) :
    (tab k fun c => sumR ((row.filter fun e => labels.getD e.1 k == c).map (·.2))) =
      tab k (classSum row (fun e => labels.getD e.1 k) (·.2)) := rfl

/-- the normalisation of one row (p = 1) -/
def normalizeRow (row : List Rat) : List Rat :=
  let norm := sumR (row.map absR)
  if norm = 0 then row.map (fun _ => 0) else row.map (· / norm)

theorem normalizeRows_eq (m : List (List Rat)) : normalizeRows m = m.map normalizeRow := rfl

/-- ★ a row of `normalize(A·M)` is non-negative and sums to 1, or to 0 exactly when the row of `A` has no
    weight — for non-negative weights and neighbours carrying a label below `k` -/
theorem probsRow_ok (row : List (Nat × Rat)) (labels : List Nat) (k : Nat)
    (hw : ∀ e ∈ row, 0 ≤ e.2) (hl : ∀ e ∈ row, labels.getD e.1 k < k) :
    ProbsRowOK row (normalizeRow (tab k (classSum row (fun e => labels.getD e.1 k) (·.2)))) k 0 := by
  set s := classSum row (fun e => labels.getD e.1 k) (·.2) with hs
  have hnn : ∀ c, 0 ≤ s c := fun c => classSum_nonneg hw c
  have htot : sumR (tab k s) = rowWeight row := sum_classSum row _ _ k hl
  have hnorm : sumR ((tab k s).map absR) = rowWeight row := by
    rw [map_tab, ← htot]
    exact sumR_tab_congr (fun c _ => absR_of_nonneg (hnn c))
  unfold normalizeRow
  simp only [hnorm]
  by_cases h0 : rowWeight row = 0
  · simp only [h0, if_true]
    refine ⟨by simp, ?_, ?_⟩
    · intro x hx; obtain ⟨_, _, rfl⟩ := List.mem_map.mp hx; exact le_refl _
    · rw [if_pos h0, map_tab]; exact sumR_tab_zero k
  · simp only [h0, if_false]
    have hpos : 0 < rowWeight row := by
      have : 0 ≤ rowWeight row := htot ▸ sumR_tab_nonneg (fun c _ => hnn c)
      exact lt_of_le_of_ne this (Ne.symm h0)
    refine ⟨by simp, ?_, ?_⟩
    · intro x hx
      obtain ⟨y, hy, rfl⟩ := List.mem_map.mp hx
      obtain ⟨c, _, rfl⟩ := List.mem_map.mp hy
      exact div_nonneg (hnn c) hpos.le
    · rw [if_neg h0, map_tab, sumR_tab_div, htot, div_self h0]
      simp [absR]

/-- ★ the entries of a row of `normalize(A·M)`: the weight towards cluster `c` divided by the weight of the row
    (non-negative weights, neighbours with labels below `k`); null when the row has no weight -/
theorem probsRow_entry (row : List (Nat × Rat)) (labels : List Nat) (k : Nat)
    (hw : ∀ e ∈ row, 0 ≤ e.2) (hl : ∀ e ∈ row, labels.getD e.1 k < k) {c : Nat} (hc : c < k) :
    (normalizeRow (tab k (classSum row (fun e => labels.getD e.1 k) (·.2)))).getD c 0 =
      if rowWeight row = 0 then 0
      else classSum row (fun e => labels.getD e.1 k) (·.2) c / rowWeight row := by
  set s := classSum row (fun e => labels.getD e.1 k) (·.2) with hs
  have hnn : ∀ c, 0 ≤ s c := fun c => classSum_nonneg hw c
  have htot : sumR (tab k s) = rowWeight row := sum_classSum row _ _ k hl
  have hnorm : sumR ((tab k s).map absR) = rowWeight row := by
    rw [map_tab, ← htot]
    exact sumR_tab_congr (fun c _ => absR_of_nonneg (hnn c))
  unfold normalizeRow
  simp only [hnorm]
  by_cases h0 : rowWeight row = 0
  · simp only [h0, if_true, map_tab, tab_getD, if_pos hc]
  · simp only [h0, if_false, map_tab, tab_getD, if_pos hc]

end SkNet.Clustering
