/-
Termination of `optimize_core` (`while not stop:` of the Louvain kernel) in exact arithmetic (property C17), on the
model of C06 (`SkNet/Model/ModularityOpt.lean`).

A pass that does not stop the loop has `increase_pass > tol ≥ 0`, and `increase_pass` is exactly the change of the
objective `Q` (`corePass_spec` of C06).  So `Q` strictly increases from one pass to the next: no label vector is
ever seen twice, and there are at most `K^n` label vectors (`n` nodes, `K` cluster slots).
For a negative tolerance the loop need not stop (`coreLoop_negative_tol_diverges`).
-/
import SkNet.Lemmas.ModularityLoop
import Mathlib.Data.List.Perm.Subperm

namespace SkNet.Terminate
open SkNet SkNet.Modularity

/-- all lists of length `m` over `{0, …, K-1}` -/
def allLabelLists (K : Nat) : Nat → List (List Nat)
  | 0 => [[]]
  | m+1 => (allLabelLists K m).flatMap fun l => (List.range K).map fun x => x :: l

theorem mem_allLabelLists (K : Nat) :
    ∀ (m : Nat) (l : List Nat), l.length = m → (∀ x ∈ l, x < K) → l ∈ allLabelLists K m := by
  intro m
  induction m with
  | zero =>
    intro l hl _
    have : l = [] := List.length_eq_zero_iff.mp hl
    simp [allLabelLists, this]
  | succ m ih =>
    intro l hl hS
    cases l with
    | nil => simp at hl
    | cons x xs =>
      simp only [allLabelLists, List.mem_flatMap, List.mem_map, List.mem_range]
      exact ⟨xs, ih xs (by simpa using hl) (fun y hy => hS y (List.mem_cons_of_mem _ hy)), x,
        hS x (List.mem_cons_self ..), rfl⟩

theorem length_allLabelLists (K m : Nat) : (allLabelLists K m).length = K ^ m := by
  induction m with
  | zero => simp [allLabelLists]
  | succ m ih =>
    simp only [allLabelLists, List.length_flatMap, List.length_map, List.length_range]
    rw [List.map_const', ih]
    simp [Nat.pow_succ]

/-- the label vector of a state that satisfies the kernel invariant is one of the `K^n` vectors -/
theorem coreInv_labels_mem {g : Graph Rat} {K : Nat} {st : St Rat} (h : CoreInv g K st) :
    st.labels ∈ allLabelLists K g.n := by
  apply mem_allLabelLists _ _ _ h.len
  intro x hx
  obtain ⟨i, hi, rfl⟩ := List.getElem_of_mem hx
  have := h.bound i (by rw [← h.len]; exact hi)
  simpa [labOf, List.getD_eq_getElem?_getD, List.getElem?_eq_getElem hi] using this

/-- **`optimize_core` terminates in exact arithmetic.**  For a symmetric graph, a state satisfying the kernel
    invariant and a tolerance `tol ≥ 0`, the `while not stop` loop ends within `K^n + 1` passes. -/
theorem coreLoop_terminates (g : Graph Rat) (hg : GraphOK g) (res tol : Rat) (htol : 0 ≤ tol) (K : Nat) :
    ∀ (fuel : Nat) (st : St Rat) (inc : Rat) (seen : List (List Nat)), CoreInv g K st →
      seen.Nodup → (∀ l ∈ seen, l ∈ allLabelLists K g.n) → (∀ l ∈ seen, QG g res l < QG g res st.labels) →
      K ^ g.n + 1 ≤ fuel + seen.length →
      coreLoop g res tol fuel st inc ≠ none := by
  intro fuel
  induction fuel with
  | zero =>
    intro st inc seen _ hn hs _ hlen
    have := (List.subperm_of_subset hn (fun x hx => hs x hx)).length_le
    rw [length_allLabelLists] at this
    omega
  | succ fuel ih =>
    intro st inc seen hinv hn hs hq hlen
    obtain ⟨p1, p2, p3, -, -⟩ := corePass_spec g hg res K st hinv
    simp only [coreLoop]
    split
    · simp
    · rename_i hle
      have hgt : tol < (corePass g res st).2 := by
        by_contra hcon
        apply hle
        show decide ((corePass g res st).2 ≤ tol) = true
        simp only [decide_eq_true_eq]
        exact not_lt.mp hcon
      have hQ : QG g res st.labels < QG g res (corePass g res st).1.labels := by
        have : (0 : Rat) < (corePass g res st).2 := lt_of_le_of_lt htol hgt
        linarith
      have hnot : st.labels ∉ seen := fun hm => lt_irrefl _ (hq _ hm)
      refine ih _ _ (st.labels :: seen) p1 (List.nodup_cons.mpr ⟨hnot, hn⟩) ?_ ?_ ?_
      · intro l hl
        rcases List.mem_cons.mp hl with rfl | hl
        · exact coreInv_labels_mem hinv
        · exact hs l hl
      · intro l hl
        rcases List.mem_cons.mp hl with rfl | hl
        · exact hQ
        · exact lt_trans (hq l hl) hQ
      · simp only [List.length_cons]
        omega

/-- `optimize_core(…)` returns: the number of passes is at most `K^n + 1`. -/
theorem optimizeCore_terminates (g : Graph Rat) (hg : GraphOK g) (res tol : Rat) (htol : 0 ≤ tol) (K : Nat)
    (st : St Rat) (hinv : CoreInv g K st) (fuel : Nat) (hf : K ^ g.n + 1 ≤ fuel) :
    optimizeCore g res tol fuel st ≠ none := by
  unfold optimizeCore
  have := coreLoop_terminates g hg res tol htol K fuel st Scalar.zero [] hinv List.nodup_nil
    (by intro l hl; simp at hl) (by intro l hl; simp at hl) (by simpa using hf)
  cases hc : coreLoop g res tol fuel st Scalar.zero with
  | none => exact absurd hc this
  | some r => simp

/-- With a negative tolerance a pass that changes nothing (`increase_pass = 0 > tol`) does not stop the loop:
    from a state that a pass maps to itself the loop never returns. -/
theorem coreLoop_negative_tol_diverges (g : Graph Rat) (res tol : Rat) (htol : tol < 0) (st : St Rat)
    (hfix : corePass g res st = (st, 0)) : ∀ (fuel : Nat) (inc : Rat), coreLoop g res tol fuel st inc = none := by
  intro fuel
  induction fuel with
  | zero => intro inc; rfl
  | succ fuel ih =>
    intro inc
    simp only [coreLoop, hfix]
    have : Scalar.le (0 : Rat) tol = false := by
      show decide ((0 : Rat) ≤ tol) = false
      simp only [decide_eq_false_iff_not, not_le]
      exact htol
    simp only [this, Bool.false_eq_true, if_false]
    exact ih _

end SkNet.Terminate
