/-
C09: the `SparseLR` operations of the model denote what they should (`entry`, `matvec`, `matmat`, `transpose`,
`leftDiag`, `rightDiag`) for the operators the embedding code builds: a plain matrix (`SLR.ofMat`) or a matrix with
one rank-one term (`Regularizer`, the centring of `PCA`).
-/
import SkNet.Lemmas.Embedding

set_option linter.unusedSectionVars false

open Finset

namespace SkNet.Embedding

variable {α : Type} [Field α] [LinearOrder α] [IsStrictOrderedRing α]

/-- an `SLR` with at most one rank-one term -/
def SLR.rank1 (n m : Nat) (a : Mat α) (x y : Vec α) : SLR α := { nRow := n, nCol := m, sparse := a, lowRank := [(x, y)] }

theorem regularizer_eq (n m : Nat) (a : Mat α) (reg : α) :
    regularizer n m a reg = SLR.rank1 n m a (tab n fun _ => reg * 1) (tab m fun _ => 1 / (m : α)) := rfl

theorem pcaOperator_eq (n m : Nat) (a : Mat α) :
    pcaOperator n m a = SLR.rank1 n m a (tab n fun _ => -1) (pcaMeans n m a) := rfl

@[simp] theorem entry_ofMat (n m : Nat) (a : Mat α) (i j : Nat) : (SLR.ofMat n m a).entry i j = mget a i j := by
  simp [SLR.ofMat, SLR.entry]

@[simp] theorem entry_rank1 (n m : Nat) (a : Mat α) (x y : Vec α) (i j : Nat) :
    (SLR.rank1 n m a x y).entry i j = mget a i j + vget x i * vget y j := by
  simp [SLR.rank1, SLR.entry]

theorem matvec_ofMat (n m : Nat) (a : Mat α) (v : Vec α) (i : Nat) (hi : i < n) :
    vget ((SLR.ofMat n m a).matvec v) i = ∑ j ∈ range m, mget a i j * vget v j := by
  simp [SLR.ofMat, SLR.matvec, hi, sumN_eq_sum]

theorem matvec_rank1 (n m : Nat) (a : Mat α) (x y v : Vec α) (i : Nat) (hi : i < n) :
    vget ((SLR.rank1 n m a x y).matvec v) i
      = (∑ j ∈ range m, mget a i j * vget v j) + vget x i * ∑ j ∈ range m, vget v j * vget y j := by
  simp [SLR.rank1, SLR.matvec, hi, sumN_eq_sum]

/-- `matvec` is the product with the denoted matrix -/
theorem matvec_rank1_entry (n m : Nat) (a : Mat α) (x y v : Vec α) (i : Nat) (hi : i < n) :
    vget ((SLR.rank1 n m a x y).matvec v) i = ∑ j ∈ range m, (SLR.rank1 n m a x y).entry i j * vget v j := by
  rw [matvec_rank1 n m a x y v i hi]
  simp only [entry_rank1, add_mul, Finset.sum_add_distrib, Finset.mul_sum]
  congr 1
  exact Finset.sum_congr rfl fun j _ => by ring

theorem matmat_ofMat (n m k : Nat) (a : Mat α) (b : Mat α) (i c : Nat) (hi : i < n) (hc : c < k) :
    mget ((SLR.ofMat n m a).matmat k b) i c = ∑ j ∈ range m, mget a i j * mget b j c := by
  simp [SLR.ofMat, SLR.matmat, hi, hc, sumN_eq_sum]

theorem matmat_rank1 (n m k : Nat) (a : Mat α) (x y : Vec α) (b : Mat α) (i c : Nat) (hi : i < n) (hc : c < k) :
    mget ((SLR.rank1 n m a x y).matmat k b) i c
      = ∑ j ∈ range m, (SLR.rank1 n m a x y).entry i j * mget b j c := by
  simp only [SLR.rank1, SLR.matmat, List.foldl, mget_mkMat, hi, hc, if_true, vget_tab, sumN_eq_sum, SLR.entry]
  simp only [add_mul, Finset.sum_add_distrib, Finset.mul_sum]
  congr 1
  exact Finset.sum_congr rfl fun j _ => by ring

theorem transpose_rank1 (n m : Nat) (a : Mat α) (x y : Vec α) :
    (SLR.rank1 n m a x y).transpose = SLR.rank1 m n (mkMat m n fun j i => mget a i j) y x := rfl

theorem transpose_ofMat (n m : Nat) (a : Mat α) :
    (SLR.ofMat n m a).transpose = SLR.ofMat m n (mkMat m n fun j i => mget a i j) := rfl

theorem leftDiag_rank1 (n m : Nat) (a : Mat α) (x y d : Vec α) :
    (SLR.rank1 n m a x y).leftDiag d
      = SLR.rank1 n m (mkMat n m fun i j => vget d i * mget a i j) (tab n fun i => vget d i * vget x i) y := rfl

theorem rightDiag_rank1 (n m : Nat) (a : Mat α) (x y d : Vec α) :
    (SLR.rank1 n m a x y).rightDiag d
      = SLR.rank1 n m (mkMat n m fun i j => mget a i j * vget d j) x (tab m fun j => vget d j * vget y j) := rfl

theorem leftDiag_ofMat (n m : Nat) (a : Mat α) (d : Vec α) :
    (SLR.ofMat n m a).leftDiag d = SLR.ofMat n m (mkMat n m fun i j => vget d i * mget a i j) := rfl

theorem rightDiag_ofMat (n m : Nat) (a : Mat α) (d : Vec α) :
    (SLR.ofMat n m a).rightDiag d = SLR.ofMat n m (mkMat n m fun i j => mget a i j * vget d j) := rfl

/-- `diag(dr) · S · diag(dc)` entry by entry -/
theorem entry_diag_rank1 (n m : Nat) (a : Mat α) (x y dr dc : Vec α) (i j : Nat) (hi : i < n) (hj : j < m) :
    (((SLR.rank1 n m a x y).rightDiag dc).leftDiag dr).entry i j
      = vget dr i * (SLR.rank1 n m a x y).entry i j * vget dc j := by
  rw [rightDiag_rank1, leftDiag_rank1, entry_rank1, entry_rank1]
  simp only [mget_mkMat, hi, hj, if_true, vget_tab]
  ring

theorem entry_diag_ofMat (n m : Nat) (a : Mat α) (dr dc : Vec α) (i j : Nat) (hi : i < n) (hj : j < m) :
    (((SLR.ofMat n m a).rightDiag dc).leftDiag dr).entry i j = vget dr i * mget a i j * vget dc j := by
  rw [rightDiag_ofMat, leftDiag_ofMat, entry_ofMat]
  simp only [mget_mkMat, hi, hj, if_true]
  ring

/-- the regularised matrix of the specification is what `Regularizer` denotes -/
theorem entry_regularizer (n m : Nat) (a : Mat α) (reg : α) (i j : Nat) (hi : i < n) (hj : j < m) :
    (regularizer n m a reg).entry i j = Spec.aReg m a reg i j := by
  rw [regularizer_eq, entry_rank1]
  simp only [vget_tab, hi, hj, if_true, Spec.aReg]
  ring

/-- `regOf`: with `None` the matrix itself (`aReg` with factor 0) -/
theorem entry_regOf (n m : Nat) (a : Mat α) (r : Option α) (i j : Nat) (hi : i < n) (hj : j < m) :
    (regOf n m a r).entry i j = Spec.aReg m a (r.getD 0) i j := by
  cases r with
  | none => simp [regOf, Spec.aReg]
  | some r => simpa [regOf] using entry_regularizer n m a r i j hi hj

end SkNet.Embedding
