/- The executable forms used by the `spec` lines of Drive/C12.lean mean what their `Prop` forms say:
   `hasCycleB` decides `HasCycle`, `twoColourableB` decides `TwoColourable`. -/
import SkNet.Model.Connectivity
import SkNet.Spec.Connectivity
import SkNet.Lemmas.Closure

namespace SkNet.Connectivity
open SkNet

/-- ★ `hasCycleB` (when the closure answers) decides the existence of a directed cycle -/
theorem hasCycleB_sound {n : Nat} {adj : Nat → List Nat} (hwf : ∀ u, u < n → ∀ v ∈ adj u, v < n) {b : Bool}
    (h : hasCycleB n adj = some b) : b = true ↔ HasCycle n adj := by
  unfold hasCycleB at h
  cases hrm : reachMatrix n adj with
  | none => simp [hrm] at h
  | some rm =>
    simp only [hrm, Option.bind_eq_bind, Option.bind_some, Option.pure_def, Option.some.injEq] at h
    subst h
    simp only [List.any_eq_true, List.mem_range, HasCycle]
    constructor
    · rintro ⟨u, hu, v, hv, hr⟩
      exact ⟨u, v, hu, hv, (reachMatrix_sound hwf hrm (hwf u hu v hv) u).mp hr⟩
    · rintro ⟨u, v, hu, hv, hr⟩
      exact ⟨u, hu, v, hv, (reachMatrix_sound hwf hrm (hwf u hu v hv) u).mpr hr⟩

/-! ### colourings as bit masks -/

/-- the mask whose bits below `n` are the colours `c` -/
def maskOf (c : Nat → Bool) : Nat → Nat
  | 0 => 0
  | n+1 => maskOf c n + (if c n then 2 ^ n else 0)

theorem maskOf_lt (c : Nat → Bool) (n : Nat) : maskOf c n < 2 ^ n := by
  induction n with
  | zero => simp [maskOf]
  | succ n ih =>
    simp only [maskOf]
    have : 2 ^ (n + 1) = 2 ^ n + 2 ^ n := by rw [Nat.pow_succ]; omega
    split <;> omega

theorem testBit_maskOf (c : Nat → Bool) (n v : Nat) (hv : v < n) : (maskOf c n).testBit v = c v := by
  induction n with
  | zero => omega
  | succ n ih =>
    simp only [maskOf]
    by_cases hvn : v = n
    · subst hvn
      by_cases hc : c v = true
      · simp only [hc, ↓reduceIte]
        rw [Nat.add_comm, Nat.testBit_two_pow_add_eq, Nat.testBit_lt_two_pow (maskOf_lt c v)]
        rfl
      · have hc' : c v = false := by simpa using hc
        simp only [hc', Bool.false_eq_true, ↓reduceIte, Nat.add_zero]
        exact Nat.testBit_lt_two_pow (maskOf_lt c v)
    · have hlt : v < n := by omega
      by_cases hc : c n = true
      · simp only [hc, ↓reduceIte]
        rw [Nat.add_comm, Nat.testBit_two_pow_add_gt hlt]
        exact ih hlt
      · have hc' : c n = false := by simpa using hc
        simp only [hc', Bool.false_eq_true, ↓reduceIte, Nat.add_zero]
        exact ih hlt

/-- ★ `twoColourableB` decides the existence of a proper 2-colouring -/
theorem twoColourableB_iff {n : Nat} {adj : Nat → List Nat} (hwf : ∀ u, u < n → ∀ v ∈ adj u, v < n) :
    twoColourableB n adj = true ↔ TwoColourable n adj := by
  unfold twoColourableB TwoColourable
  simp only [List.any_eq_true, List.mem_range, List.all_eq_true, bne_iff_ne, ne_eq]
  constructor
  · rintro ⟨mask, _, h⟩
    exact ⟨fun v => mask.testBit v, fun u hu v hv => h u hu v hv⟩
  · rintro ⟨c, hc⟩
    refine ⟨maskOf c n, maskOf_lt c n, fun u hu v hv => ?_⟩
    rw [testBit_maskOf c n u hu, testBit_maskOf c n v (hwf u hu v hv)]
    exact hc u hu v hv

end SkNet.Connectivity
