/- Dasgupta's cost computed by the replay of merges equals its definition: Σ_{u,v} p(u,v) · π(lca(u,v)). -/
import SkNet.Spec.HMetrics
import SkNet.Lemmas.DasguptaLeaf
import SkNet.Lemmas.Forest

set_option linter.unusedSimpArgs false

namespace SkNet.HMetrics
open SkNet SkNet.Dendro SkNet.Agg SkNet.Cut

/-! ### small tools -/

theorem find?_range (p : Nat → Bool) : ∀ (m t : Nat),
    (List.range m).find? p = some t ↔ (t < m ∧ p t = true ∧ ∀ t', t' < t → p t' = false) := by
  intro m
  induction m with
  | zero => intro t; simp
  | succ m ih =>
    intro t
    rw [List.range_succ, List.find?_append]
    cases hf : (List.range m).find? p with
    | some t0 =>
      simp only [Option.some_or]
      have h0 := (ih t0).mp hf
      constructor
      · intro e
        cases e
        exact ⟨by omega, h0.2.1, h0.2.2⟩
      · rintro ⟨h1, h2, h3⟩
        -- both t and t0 are the least index satisfying p
        by_cases hlt : t < t0
        · have := h0.2.2 t hlt; rw [h2] at this; cases this
        · by_cases hgt : t0 < t
          · have := h3 t0 hgt; rw [h0.2.1] at this; cases this
          · have : t0 = t := by omega
            rw [this]
    | none =>
      simp only [Option.none_or, List.find?_cons, List.find?_nil]
      have hnone : ∀ t', t' < m → p t' = false := by
        intro t' ht'
        have := List.find?_eq_none.mp hf t' (List.mem_range.mpr ht')
        simpa using this
      by_cases hp : p m = true
      · simp only [hp]
        constructor
        · intro e; cases e; exact ⟨by omega, hp, hnone⟩
        · rintro ⟨h1, h2, h3⟩
          by_cases hlt : t < m
          · have := hnone t hlt; rw [h2] at this; cases this
          · have : t = m := by omega
            rw [this]
      · have hp' : p m = false := by simpa using hp
        simp only [hp']
        constructor
        · intro e; cases e
        · rintro ⟨h1, h2, h3⟩
          by_cases hlt : t < m
          · have := hnone t hlt; rw [h2] at this; cases this
          · have : t = m := by omega
            rw [this, hp'] at h2; cases h2

/-- a sum restricted to the members of a sub-list without repetition -/
theorem S_indicator : ∀ (l m : List Nat) (f : Nat → ℚ), l.Nodup → m.Nodup → (∀ x ∈ l, x ∈ m) →
    S m (fun u => if u ∈ l then f u else 0) = S l f := by
  intro l
  induction l with
  | nil => intro m f _ _ _; simp [S_zero, S_nil]
  | cons a l ih =>
    intro m f hl hm hsub
    have hl' := List.nodup_cons.mp hl
    have ha : a ∈ m := hsub a List.mem_cons_self
    rw [S_erase hm ha, S_cons]
    simp only [List.mem_cons, true_or, if_true]
    congr 1
    rw [← ih (m.filter (· != a)) f hl'.2 (hm.filter _)
      (fun x hx => List.mem_filter.mpr ⟨hsub x (List.mem_cons_of_mem _ hx), by
        have : x ≠ a := fun e => hl'.1 (e ▸ hx)
        simpa using this⟩)]
    apply S_congr
    intro x hx
    have hxa : x ≠ a := by simpa using (List.mem_filter.mp hx).2
    simp [hxa]

theorem B_symm (P : Nat → Nat → ℚ) (hP : ∀ u v, P u v = P v u) (a b : List Nat) : B P a b = B P b a := by
  unfold B
  rw [S_comm]
  apply S_congr; intro v _; apply S_congr; intro u _; exact hP u v

/-- `Σ_{u<n} Σ_{v<n} [u ∈ a ∧ v ∈ b] P u v = B P a b` -/
theorem B_indicator (P : Nat → Nat → ℚ) (n : Nat) (a b : List Nat) (ha : a.Nodup) (hb : b.Nodup)
    (han : ∀ x ∈ a, x < n) (hbn : ∀ x ∈ b, x < n) :
    S (List.range n) (fun u => S (List.range n) (fun v => if u ∈ a ∧ v ∈ b then P u v else 0)) = B P a b := by
  unfold B
  rw [← S_indicator a (List.range n) _ ha List.nodup_range (fun x hx => List.mem_range.mpr (han x hx))]
  apply S_congr
  intro u _
  by_cases hu : u ∈ a
  · simp only [hu, true_and, if_true]
    exact S_indicator b (List.range n) _ hb List.nodup_range (fun x hx => List.mem_range.mpr (hbn x hx))
  · simp [hu, S_zero]


/-! ### the first merge containing two leaves -/

variable {α : Type}

theorem two_in_singleton {l : List Nat} {a : Nat} (hnd : l.Nodup) (h2 : 2 ≤ l.length) (hsub : ∀ x ∈ l, x = a) :
    False := by
  match l, hnd, h2, hsub with
  | x :: y :: _, hnd, _, hsub =>
    have hx := hsub x (by simp)
    have hy := hsub y (by simp)
    rw [hx, hy] at hnd
    simp at hnd

/-- `lcaRow` is row `t` exactly for the pairs separated by that merge (and for the self-pairs of a leaf that is
    merged there) -/
theorem lca_iff {n : Nat} {pre : Dendro α} {r : Row α} {rs : Dendro α}
    (hv : ValidDendro n (pre ++ r :: rs) = true) (u v : Nat) :
    lcaRow n (pre ++ r :: rs) u v = some pre.length ↔
      ((u ∈ leaves n (pre ++ r :: rs) r.i ∧ v ∈ leaves n (pre ++ r :: rs) r.j) ∨
       (u ∈ leaves n (pre ++ r :: rs) r.j ∧ v ∈ leaves n (pre ++ r :: rs) r.i) ∨
       (r.i < n ∧ u ∈ leaves n (pre ++ r :: rs) r.i ∧ v ∈ leaves n (pre ++ r :: rs) r.i) ∨
       (r.j < n ∧ u ∈ leaves n (pre ++ r :: rs) r.j ∧ v ∈ leaves n (pre ++ r :: rs) r.j)) := by
  obtain ⟨st, hc, hh, hr⟩ := hist_at hv
  obtain ⟨hbi, hbj, hne, hsplit, _⟩ := valid_row hv
  have hli : leaves n (pre ++ r :: rs) r.i = leaves n pre r.i := leaves_append_lt n pre _ hbi
  have hlj : leaves n (pre ++ r :: rs) r.j = leaves n pre r.j := leaves_append_lt n pre _ hbj
  have hold : ∀ t', t' < pre.length → leaves n (pre ++ r :: rs) (n + t') = leaves n pre (n + t') :=
    fun t' ht' => leaves_append_lt n pre _ (by omega)
  have hmi := Dict.get?_some_mem hr.ci
  have hmj := Dict.get?_some_mem hr.cj
  -- a live cluster meeting the leaves of `r.i` is the cluster of `r.i`
  have huniq_i : ∀ q ∈ st, ∀ x, x ∈ leaves n pre r.i → x ∈ q.2 → q.2 = leaves n pre r.i := by
    intro q hq x hx hxq
    by_cases e : q.1 = r.i
    · have := Dict.mem_get?_of_nodup hc.nodup (k := q.1) (v := q.2) hq
      rw [e, hr.ci] at this; exact (Option.some.inj this).symm
    · exact absurd hxq (cinv_disjoint hc hmi hq (Ne.symm e) x hx)
  have huniq_j : ∀ q ∈ st, ∀ x, x ∈ leaves n pre r.j → x ∈ q.2 → q.2 = leaves n pre r.j := by
    intro q hq x hx hxq
    by_cases e : q.1 = r.j
    · have := Dict.mem_get?_of_nodup hc.nodup (k := q.1) (v := q.2) hq
      rw [e, hr.cj] at this; exact (Option.some.inj this).symm
    · exact absurd hxq (cinv_disjoint hc hmj hq (Ne.symm e) x hx)
  have hdisj : ∀ x, x ∈ leaves n pre r.i → x ∉ leaves n pre r.j := cinv_disjoint hc hmi hmj hne
  unfold lcaRow
  rw [find?_range]
  simp only [Bool.and_eq_true, List.contains_iff_mem, List.length_append, List.length_cons]
  rw [hsplit, hli, hlj]
  simp only [List.mem_append]
  constructor
  · rintro ⟨_, ⟨hu, hv'⟩, hmin⟩
    -- an earlier row cannot contain both
    have hearly : ∀ x, n ≤ x → x < n + pre.length → u ∈ leaves n pre x → v ∈ leaves n pre x → False := by
      intro x hx1 hx2 hux hvx
      have := hmin (x - n) (by omega)
      rw [show n + (x - n) = x by omega, leaves_append_lt n pre _ hx2] at this
      simp [hux, hvx] at this
    rcases hu with hu | hu <;> rcases hv' with hv' | hv'
    · by_cases hin : r.i < n
      · exact Or.inr (Or.inr (Or.inl ⟨hin, hu, hv'⟩))
      · exact absurd (hearly r.i (by omega) hbi hu hv') id
    · exact Or.inl ⟨hu, hv'⟩
    · exact Or.inr (Or.inl ⟨hu, hv'⟩)
    · by_cases hjn : r.j < n
      · exact Or.inr (Or.inr (Or.inr ⟨hjn, hu, hv'⟩))
      · exact absurd (hearly r.j (by omega) hbj hu hv') id
  · intro hcond
    refine ⟨by omega, ?_, ?_⟩
    · rcases hcond with ⟨a, b⟩ | ⟨a, b⟩ | ⟨_, a, b⟩ | ⟨_, a, b⟩
      · exact ⟨Or.inl a, Or.inr b⟩
      · exact ⟨Or.inr a, Or.inl b⟩
      · exact ⟨Or.inl a, Or.inl b⟩
      · exact ⟨Or.inr a, Or.inr b⟩
    · intro t' ht'
      rw [hold t' ht']
      by_contra hcon
      have hboth : u ∈ leaves n pre (n + t') ∧ v ∈ leaves n pre (n + t') := by
        by_cases h1 : u ∈ leaves n pre (n + t') <;> by_cases h2 : v ∈ leaves n pre (n + t')
        · exact ⟨h1, h2⟩
        · simp [h1, h2] at hcon
        · simp [h1, h2] at hcon
        · simp [h1, h2] at hcon
      obtain ⟨q, hq, hsub⟩ := hh.forest (n + t') (by omega)
      have huq := hsub u hboth.1
      have hvq := hsub v hboth.2
      rcases hcond with ⟨a, b⟩ | ⟨a, b⟩ | ⟨hin, a, b⟩ | ⟨hjn, a, b⟩
      · have e1 := huniq_i q hq u a huq
        have e2 := huniq_j q hq v b hvq
        rw [e1] at e2
        have : v ∈ leaves n pre r.i := by rw [e2]; exact b
        exact hdisj v this b
      · have e1 := huniq_j q hq u a huq
        have e2 := huniq_i q hq v b hvq
        rw [e1] at e2
        have : v ∈ leaves n pre r.j := by rw [e2]; exact b
        exact hdisj v b this
      · have e1 := huniq_i q hq u a huq
        rw [leaves_leaf n pre hin] at e1
        refine two_in_singleton (hh.nodupL (n + t') (by omega)) (hh.two (n + t') (by omega) (by omega))
          (a := r.i) ?_
        intro x hx
        have := hsub x hx
        rw [e1] at this; simpa using this
      · have e1 := huniq_j q hq u a huq
        rw [leaves_leaf n pre hjn] at e1
        refine two_in_singleton (hh.nodupL (n + t') (by omega)) (hh.two (n + t') (by omega) (by omega))
          (a := r.j) ?_
        intro x hx
        have := hsub x hx
        rw [e1] at this; simpa using this


/-! ### `edge_sampling[t]` is the weight of the pairs whose first common merge is `t` -/

theorem S_mul_right (l : List Nat) (f : Nat → ℚ) (c : ℚ) : S l (fun x => f x * c) = S l f * c := by
  induction l with
  | nil => simp [S]
  | cons a as ih => rw [S_cons, S_cons, ih]; ring

theorem edgeAt_eq {n : Nat} {P : Nat → Nat → ℚ} (hP : ∀ u v, P u v = P v u) {pre : Dendro α} {r : Row α}
    {rs : Dendro α} (hv : ValidDendro n (pre ++ r :: rs) = true) :
    edgeAt n P (pre ++ r :: rs) pre.length =
      S (List.range n) (fun u => S (List.range n) (fun v =>
        if lcaRow n (pre ++ r :: rs) u v = some pre.length then P u v else 0)) := by
  obtain ⟨st, hc, hh, hr⟩ := hist_at hv
  obtain ⟨hbi, hbj, hne, _, _⟩ := valid_row hv
  have hli : leaves n (pre ++ r :: rs) r.i = leaves n pre r.i := leaves_append_lt n pre _ hbi
  have hlj : leaves n (pre ++ r :: rs) r.j = leaves n pre r.j := leaves_append_lt n pre _ hbj
  have hmi := Dict.get?_some_mem hr.ci
  have hmj := Dict.get?_some_mem hr.cj
  have hndi : (leaves n pre r.i).Nodup := cinv_nodup_val hc hmi
  have hndj : (leaves n pre r.j).Nodup := cinv_nodup_val hc hmj
  have hlti : ∀ x ∈ leaves n pre r.i, x < n := cinv_lt hc hmi
  have hltj : ∀ x ∈ leaves n pre r.j, x < n := cinv_lt hc hmj
  have hdisj : ∀ x, x ∈ leaves n pre r.i → x ∉ leaves n pre r.j := cinv_disjoint hc hmi hmj hne
  -- rewrite the condition, then split it into its four exclusive cases
  have hrow : (pre ++ r :: rs)[pre.length]? = some r := by
    rw [List.getElem?_append_right (Nat.le_refl _)]; simp
  unfold edgeAt
  rw [hrow]
  simp only [hli, hlj]
  have hcond : ∀ u v, (if lcaRow n (pre ++ r :: rs) u v = some pre.length then P u v else 0) =
      (if u ∈ leaves n pre r.i ∧ v ∈ leaves n pre r.j then P u v else 0) +
      (if u ∈ leaves n pre r.j ∧ v ∈ leaves n pre r.i then P u v else 0) +
      (if r.i < n then (if u ∈ leaves n pre r.i ∧ v ∈ leaves n pre r.i then P u v else 0) else 0) +
      (if r.j < n then (if u ∈ leaves n pre r.j ∧ v ∈ leaves n pre r.j then P u v else 0) else 0) := by
    intro u v
    have hiff := lca_iff hv u v
    rw [hli, hlj] at hiff
    have du := hdisj u
    have dv := hdisj v
    by_cases a1 : u ∈ leaves n pre r.i <;> by_cases a2 : v ∈ leaves n pre r.i <;>
      by_cases a3 : u ∈ leaves n pre r.j <;> by_cases a4 : v ∈ leaves n pre r.j <;>
      by_cases a5 : r.i < n <;> by_cases a6 : r.j < n <;> simp_all
  simp only [hcond, S_add]
  rw [B_indicator P n _ _ hndi hndj hlti hltj, B_indicator P n _ _ hndj hndi hltj hlti,
    B_symm P hP (leaves n pre r.j) (leaves n pre r.i)]
  have h3 : S (List.range n) (fun u => S (List.range n) (fun v =>
      if r.i < n then (if u ∈ leaves n pre r.i ∧ v ∈ leaves n pre r.i then P u v else 0) else 0)) =
      (if r.i < n then B P (leaves n pre r.i) (leaves n pre r.i) else 0) := by
    by_cases h : r.i < n
    · simp only [h, if_true]; exact B_indicator P n _ _ hndi hndi hlti hlti
    · simp [h, S_zero]
  have h4 : S (List.range n) (fun u => S (List.range n) (fun v =>
      if r.j < n then (if u ∈ leaves n pre r.j ∧ v ∈ leaves n pre r.j then P u v else 0) else 0)) =
      (if r.j < n then B P (leaves n pre r.j) (leaves n pre r.j) else 0) := by
    by_cases h : r.j < n
    · simp only [h, if_true]; exact B_indicator P n _ _ hndj hndj hltj hltj
    · simp [h, S_zero]
  rw [h3, h4]
  ring


/-! ### cluster weights, the initial leaf reading, and the final exchange of sums -/

theorem weightAt_eq (degree : Bool) {n : Nat} (a : Mat) {pre : Dendro α} {r : Row α} {rs : Dendro α}
    (hv : ValidDendro n (pre ++ r :: rs) = true) :
    weightAt n (fun x => (probsRow degree n a).getD x 0) (fun x => (probsCol degree n a).getD x 0)
      (pre ++ r :: rs) pre.length = clusterWeight degree n a (pre ++ r :: rs) pre.length := by
  obtain ⟨_, _, _, hsplit, _⟩ := valid_row hv
  have hrow : (pre ++ r :: rs)[pre.length]? = some r := by
    rw [List.getElem?_append_right (Nat.le_refl _)]; simp
  unfold weightAt clusterWeight
  rw [hrow, hsplit, sumR_eq_sum]
  show _ = S (leaves n (pre ++ r :: rs) r.i ++ leaves n (pre ++ r :: rs) r.j) _
  rw [S_append, S_div, S_div, S_add, S_add]
  ring

theorem symmetrize_symm (n : Nat) (a : Mat) (i j : Nat) : (symmetrize n a).get i j = (symmetrize n a).get j i := by
  rw [symmetrize_get, symmetrize_get]
  by_cases h : i < n ∧ j < n
  · have : j < n ∧ i < n := ⟨h.2, h.1⟩
    simp only [h, this, and_self, if_true]; ring
  · have : ¬ (j < n ∧ i < n) := fun hh => h ⟨hh.2, hh.1⟩
    simp [h, this]

/-- the initial aggregate graph, read on the leaves -/
theorem leafInv_init (degree : Bool) (n : Nat) (a : Mat) :
    LeafInv (α := α) n (fun u v => (symmetrize n a).get u v / (symmetrize n a).total)
      (fun x => (probsRow degree n a).getD x 0) (fun x => (probsCol degree n a).getD x 0) []
      (instantiate degree n a) (initCluster n) := by
  have hkeysO : Dict.keys (instantiate degree n a).outW = List.range n := by
    unfold instantiate AggGraph.init; simp [Dict.keys, Function.comp_def]
  refine ⟨cinv_init n, by rw [hkeysO, keys_initCluster], ?_, ?_, ?_, ?_⟩
  · intro x hx y hy
    rw [hkeysO] at hx hy
    simp only [List.mem_range] at hx hy
    rw [init_W, leaves_leaf n [] hx, leaves_leaf n [] hy, B_singleton]
    simp [hx, hy]
  · intro x v hx
    unfold instantiate AggGraph.init at hx
    simp only [tab_length] at hx
    by_cases hxn : x < n
    · rw [Hier.get?_map_range _ n x hxn] at hx
      rw [leaves_leaf n [] hxn, S_cons, S_nil]
      simp only [Option.some.injEq] at hx
      rw [← hx]; ring
    · rw [get?_map_range_none _ n x hxn] at hx; cases hx
  · intro x v hx
    unfold instantiate AggGraph.init at hx
    simp only [tab_length] at hx
    by_cases hxn : x < n
    · rw [Hier.get?_map_range _ n x hxn] at hx
      rw [leaves_leaf n [] hxn, S_cons, S_nil]
      simp only [Option.some.injEq] at hx
      rw [← hx]; ring
    · rw [get?_map_range_none _ n x hxn] at hx; cases hx
  · intro z hz
    simp only [List.length_nil, Nat.add_zero] at hz
    exact ⟨z, by rw [hkeysO]; exact List.mem_range.mpr hz, fun u hu => hu⟩

theorem sum_flatMap_map (l m : List Nat) (f : Nat → Nat → ℚ) :
    (l.flatMap fun u => m.map fun v => f u v).sum = S l (fun u => S m (fun v => f u v)) := by
  induction l with
  | nil => simp [S]
  | cons a as ih => simp only [List.flatMap_cons, List.sum_append, ih, S_cons]; rfl

theorem zip_map_mul (l : List Nat) (f g : Nat → ℚ) :
    ((l.map f).zip (l.map g)).map (fun p => p.1 * p.2) = l.map (fun t => f t * g t) := by
  induction l with
  | nil => rfl
  | cons a as ih => simp only [List.map_cons, List.zip_cons_cons, ih]

/-- selecting the term of a sum by an optional index -/
theorem S_select (m : Nat) (o : Option Nat) (c : Nat → ℚ) (ho : ∀ t, o = some t → t < m) :
    S (List.range m) (fun t => if o = some t then c t else 0) =
      (match (generalizing := false) o with | some t => c t | none => 0) := by
  cases o with
  | none =>
    show S (List.range m) (fun x => if none = some x then c x else 0) = 0
    simp [S_zero]
  | some t =>
    have ht := ho t rfl
    have := S_indicator [t] (List.range m) c (by simp) List.nodup_range (by simpa using ht)
    simp only [S_cons, S_nil, add_zero] at this
    show S (List.range m) (fun x => if some t = some x then c x else 0) = c t
    rw [← this]
    apply S_congr
    intro x _
    by_cases e : x = t
    · simp [e]
    · have : ¬ (some t = some x) := fun h => e (Option.some.inj h).symm
      simp [e, this]

end SkNet.HMetrics
