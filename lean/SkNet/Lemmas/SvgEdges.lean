/-
Edges: `np.argsort` (any sorting permutation) visits every stored entry once, `get_edge_colors` keeps one colour per
entry and one residual entry per edge label on a non-edge, so the edge loops draw one path per displayed edge
(none for a directed edge whose end points coincide).
-/
import SkNet.Lemmas.SvgNodes

set_option linter.unusedSimpArgs false

namespace SkNet.Svg

/-! ### `argsort` is a permutation of the positions -/

theorem insertByKey_perm (key : Nat → Int) (v : Nat) (l : List Nat) : (insertByKey key v l).Perm (v :: l) := by
  induction l with
  | nil => exact List.Perm.refl _
  | cons w ws ih =>
    simp only [insertByKey]
    split
    · exact List.Perm.refl _
    · exact (List.Perm.cons w ih).trans (List.Perm.swap v w ws)

theorem foldr_insert_perm (key : Nat → Int) (l : List Nat) : (l.foldr (insertByKey key) []).Perm l := by
  induction l with
  | nil => exact List.Perm.refl _
  | cons x xs ih =>
    simp only [List.foldr_cons]
    exact (insertByKey_perm key x _).trans (List.Perm.cons x ih)

theorem argsort_perm (d : List Int) : (argsort d).Perm (List.range d.length) :=
  foldr_insert_perm _ _

/-! ### counting through an index -/

theorem range_map_getD {α : Type} (l : List α) (d : α) : (List.range l.length).map (fun i => l.getD i d) = l := by
  apply List.ext_getElem
  · simp
  · intro i h1 h2
    simp only [List.getElem_map, List.getElem_range]
    rw [List.getD_eq_getElem?_getD, List.getElem?_eq_getElem h2]
    rfl

theorem filter_range_getD {α : Type} (l : List α) (d : α) (p : α → Bool) :
    ((List.range l.length).filter (fun i => p (l.getD i d))).length = (l.filter p).length := by
  have h := range_map_getD l d
  have : (l.filter p).length = (((List.range l.length).map (fun i => l.getD i d)).filter p).length := by rw [h]
  rw [this, List.filter_map, List.length_map]
  rfl

/-- visiting the positions in the order of a permutation counts the same entries as visiting them in storage order -/
theorem count_argsort {α : Type} (l : List α) (d : α) (order : List Nat) (m : Nat)
    (hperm : order.Perm (List.range m)) (hlen : m = l.length)
    (p : α → Bool) : (order.filter (fun i => p (l.getD i d))).length = (l.filter p).length := by
  have hp := hperm.filter (fun i => p (l.getD i d))
  rw [hp.length_eq, hlen, filter_range_getD]

/-! ### `get_edge_colors` -/

/-- the edge labels put on pairs without an edge, in order -/
def residPairs (es : List Entry) (labels : List (Int × Int × Int)) : List (Nat × Nat) :=
  (labels.filter fun l => entryAt es l.1.toNat l.2.1.toNat = 0).map fun l => (l.1.toNat, l.2.1.toNat)

theorem edgeLabelStep_struct {nRow nCol : Nat} {es : List Entry} {colors : List PyStr} {st st' : LabelState}
    {lab : Int × Int × Int} {m : Nat} {pre : List (Int × Int × Int)}
    (h1 : st.data.length = m) (h2 : st.residual.map (fun r => (r.1, r.2.1)) = residPairs es pre)
    (h : edgeLabelStep nRow nCol es colors st lab = .ok st') :
    st'.data.length = m ∧ st'.residual.map (fun r => (r.1, r.2.1)) = residPairs es (pre ++ [lab]) := by
  unfold edgeLabelStep at h
  simp only at h
  split at h
  · simp at h
  split at h
  · simp at h
  split at h
  · rename_i hne
    split at h
    · simp only [Except.ok.injEq] at h
      subst h
      refine ⟨by simpa using h1, ?_⟩
      simp only [residPairs, List.filter_append, List.map_append] at h2 ⊢
      have : (List.filter (fun l => decide (entryAt es l.1.toNat l.2.1.toNat = 0)) [lab]) = [] := by
        simp [List.filter_cons, hne]
      simp [this, h2]
    · simp at h
  · rename_i hz
    have hz' : entryAt es lab.1.toNat lab.2.1.toNat = 0 := by
      by_contra hc; exact hz hc
    simp only [Except.ok.injEq] at h
    subst h
    refine ⟨h1, ?_⟩
    simp only [residPairs, List.filter_append, List.map_append] at h2 ⊢
    have : (List.filter (fun l => decide (entryAt es l.1.toNat l.2.1.toNat = 0)) [lab]) = [lab] := by
      simp [List.filter_cons, hz']
    simp [this, h2]

theorem getEdgeColors_struct {sort : List Int → List Nat} {nRow nCol : Nat} {es : List Entry}
    {labels : List (Int × Int × Int)} {edgeColor : PyStr}
    {lc : LabelColors} {ec : EdgeColors} (h : getEdgeColors sort nRow nCol es labels edgeColor lc = .ok ec) :
    (∃ data : List Int, ec.order = sort data ∧ data.length = es.length) ∧
    ec.residual.map (fun r => (r.1, r.2.1)) = residPairs es labels := by
  unfold getEdgeColors at h
  simp only at h
  split at h
  · simp at h
  split at h
  · rename_i hempty
    simp only [Except.ok.injEq] at h
    subst h
    have : labels = [] := by simpa using hempty
    subst this
    exact ⟨⟨_, rfl, by simp⟩, rfl⟩
  · split at h
    · simp at h
    split at h
    · simp at h
    rename_i st hst
    simp only [Except.ok.injEq] at h
    subst h
    have := foldlM_prefix (fun pre (st : LabelState) => st.data.length = es.length ∧
        st.residual.map (fun r => (r.1, r.2.1)) = residPairs es pre) _ _ [] _ st
      ⟨by simp, rfl⟩ (fun pre x acc acc' hacc hstep => edgeLabelStep_struct hacc.1 hacc.2 hstep) hst
    simp only [List.nil_append] at this
    exact ⟨⟨_, rfl, this.1⟩, this.2⟩

/-! ### the edge loops of `visualize_graph` -/

/-- is the edge `i → j` drawn?  (an undirected edge always, a directed one unless its end points coincide) -/
def drawn (directed : Bool) (pos : List (Rat × Rat)) (i j : Nat) : Bool :=
  !(directed && decide ((pos.getD j (0, 0)).1 - (pos.getD i (0, 0)).1 = 0 ∧
      (pos.getD j (0, 0)).2 - (pos.getD i (0, 0)).2 = 0))

theorem filter_snoc_length {α : Type} (p : α → Bool) (pre : List α) (x : α) :
    ((pre ++ [x]).filter p).length = (pre.filter p).length + (if p x = true then 1 else 0) := by
  by_cases h : p x = true
  · simp [List.filter_append, List.filter_cons, h]
  · simp [List.filter_append, List.filter_cons, h]

theorem filter_cons_length {α : Type} (p : α → Bool) (x : α) (xs : List α) :
    ((x :: xs).filter p).length = (if p x = true then 1 else 0) + (xs.filter p).length := by
  by_cases h : p x = true
  · simp [List.filter_cons, h]; omega
  · simp [List.filter_cons, h]

theorem graphEdge_shape (ν : Nums) (directed : Bool) (pos : List (Rat × Rat)) (slot : Nat → Slot) (k i j : Nat)
    (color : PyStr) :
    Shape (graphEdge ν directed pos slot k i j color) ⟨0, 0, if drawn directed pos i j = true then 1 else 0, []⟩ := by
  unfold graphEdge drawn
  cases directed with
  | false =>
    simp only [Bool.false_eq_true, if_false, Bool.false_and, Bool.not_false, if_true]
    exact svgEdge_shape _ _
  | true =>
    have h := svgEdgeDirected_shape (pos.getD i (0, 0)) (pos.getD j (0, 0)) (fun t => ν (slot t) k 0) color
    by_cases hc : (pos.getD j (0, 0)).1 - (pos.getD i (0, 0)).1 = 0 ∧ (pos.getD j (0, 0)).2 - (pos.getD i (0, 0)).2 = 0
    · rw [if_pos hc] at h
      have hd := decide_eq_true hc
      simp only [if_true, Bool.true_and, hd, Bool.not_true, Bool.false_eq_true, if_false]
      exact h
    · rw [if_neg hc] at h
      have hd := decide_eq_false hc
      simp only [if_true, Bool.true_and, hd, Bool.not_false]
      exact h

theorem storedEdges_shape {ν : Nums} {directed : Bool} {es : List Entry} {pos : List (Rat × Rat)} {ec : EdgeColors}
    {ps : List Piece} (h : storedEdges ν directed es pos ec = .ok ps) :
    Shape ps ⟨0, 0, (ec.order.filter fun ix =>
      drawn directed pos (es.getD ix (0, 0, 0)).1 (es.getD ix (0, 0, 0)).2.1).length, []⟩ := by
  unfold storedEdges at h
  have := foldlM_prefix (fun pre acc => Shape acc ⟨0, 0, (pre.filter fun ix =>
      drawn directed pos (es.getD ix (0, 0, 0)).1 (es.getD ix (0, 0, 0)).2.1).length, []⟩) _ _ [] [] ps Shape.nil ?_ h
  · simpa using this
  · intro pre x acc acc' hacc hstep
    split at hstep
    · simp at hstep
    · simp only at hstep
      split at hstep
      · simp at hstep
      · simp only [Except.ok.injEq] at hstep
        subst hstep
        refine (Shape.append hacc (graphEdge_shape ν directed pos Slot.edge x _ _ _)).cast ?_
        rw [filter_snoc_length]
        rfl

theorem flatMap_shape {α : Type} (l : List α) (f : α → List Piece) (c : α → Bool)
    (h : ∀ x, Shape (f x) ⟨0, 0, if c x = true then 1 else 0, []⟩) :
    Shape (l.flatMap f) ⟨0, 0, (l.filter c).length, []⟩ := by
  induction l with
  | nil => exact Shape.nil
  | cons x xs ih =>
    refine (Shape.append (h x) ih).cast ?_
    rw [filter_cons_length]
    rfl

theorem residEdges_shape (ν : Nums) (directed : Bool) (pos : List (Rat × Rat)) (residual : List (Nat × Nat × PyStr)) :
    Shape (residEdges ν directed pos residual)
      ⟨0, 0, ((residual.map fun r => (r.1, r.2.1)).filter fun p => drawn directed pos p.1 p.2).length, []⟩ := by
  unfold residEdges
  refine (flatMap_shape _ _ (fun k => drawn directed pos (residual.getD k (0, 0, [])).1
    (residual.getD k (0, 0, [])).2.1) (fun k => graphEdge_shape ν directed pos Slot.redge k _ _ _)).cast ?_
  have := filter_range_getD residual (0, 0, []) (fun r => drawn directed pos r.1 r.2.1)
  simp only [Summary.mk.injEq, true_and, and_true]
  rw [this, List.filter_map, List.length_map]
  rfl

/-- the number of edge paths `visualize_graph` draws for the final positions `pos` -/
def graphEdgeCount (a : GraphArgs) (pos : List (Rat × Rat)) : Nat :=
  if a.displayEdges then
    ((graphEs a).filter fun e => drawn (graphDirected a) pos e.1 e.2.1).length +
    ((residPairs (graphEs a) a.edgeLabels).filter fun p => drawn (graphDirected a) pos p.1 p.2).length
  else 0

theorem graphEdgeParts_shape {ν : Nums} {a : GraphArgs} {pos : List (Rat × Rat)} {ps : List PyStr × List Piece}
    (hsort : SortOk ν) (h : graphEdgeParts ν a pos = .ok ps) :
    Shape ps.2 ⟨0, 0, graphEdgeCount a pos, []⟩ := by
  unfold graphEdgeParts at h
  unfold graphEdgeCount
  split at h
  · rename_i hde
    simp only [hde, if_true]
    split at h
    · simp at h
    rename_i ec hec
    split at h
    · simp at h
    rename_i stored hstored
    split at h
    · simp at h
    simp only [Except.ok.injEq] at h
    subst h
    obtain ⟨⟨data, hord, hdata⟩, hres⟩ := getEdgeColors_struct hec
    have h1 := storedEdges_shape hstored
    rw [hord, count_argsort (graphEs a) (0, 0, 0) _ _ (hsort data) hdata
      (fun e => drawn (graphDirected a) pos e.1 e.2.1)] at h1
    have h2 := residEdges_shape ν (graphDirected a) pos ec.residual
    rw [hres] at h2
    exact (Shape.append h1 h2).cast (by simp [Summary.add])
  · rename_i hde
    simp only [Except.ok.injEq] at h
    subst h
    simp only [hde, Bool.false_eq_true, if_false]
    exact Shape.nil

end SkNet.Svg
