/- Paris (repaired code): the height of a merge is clamped by the heights of the clusters it merges, so the rows
   written never decrease towards the root; with `reorder_valid` the reordered dendrogram is valid and sorted. -/
import SkNet.Lemmas.Paris
import SkNet.Lemmas.Reorder
import Mathlib.Algebra.Order.Field.Rat

set_option linter.unusedSimpArgs false

namespace SkNet.Paris
open SkNet SkNet.Dendro SkNet.Agg SkNet.Cut

/-! ### heights with `+inf` over the rationals are linearly ordered -/

theorem hlt_fin (x y : ℚ) : (HInf.fin x < HInf.fin y) ↔ x < y := Iff.rfl
theorem hlt_fin_inf (x : ℚ) : HInf.fin x < (HInf.inf : HInf ℚ) := trivial
theorem not_hlt_inf (a : HInf ℚ) : ¬ (HInf.inf : HInf ℚ) < a := fun h => h

theorem hlt_irrefl (a : HInf ℚ) : ¬ a < a := by
  cases a with
  | fin x => exact lt_irrefl x
  | inf => exact not_hlt_inf _

theorem hlt_trans {a b c : HInf ℚ} (h1 : a < b) (h2 : b < c) : a < c := by
  cases a with
  | inf => exact absurd h1 (not_hlt_inf _)
  | fin x =>
    cases b with
    | inf => exact absurd h2 (not_hlt_inf _)
    | fin y =>
      cases c with
      | inf => exact trivial
      | fin z =>
        have a1 : x < y := h1
        have a2 : y < z := h2
        exact (lt_trans a1 a2 : x < z)

theorem hlt_tri (a b : HInf ℚ) : a < b ∨ a = b ∨ b < a := by
  cases a with
  | fin x =>
    cases b with
    | fin y =>
      rcases lt_trichotomy x y with h | h | h
      · exact Or.inl h
      · exact Or.inr (Or.inl (by rw [h]))
      · exact Or.inr (Or.inr h)
    | inf => exact Or.inl trivial
  | inf =>
    cases b with
    | fin y => exact Or.inr (Or.inr trivial)
    | inf => exact Or.inr (Or.inl rfl)

instance : DecidableEq (HInf ℚ) := fun a b =>
  match a, b with
  | .fin x, .fin y => if h : x = y then isTrue (by rw [h]) else isFalse (fun e => h (by cases e; rfl))
  | .fin _, .inf => isFalse (fun e => by cases e)
  | .inf, .fin _ => isFalse (fun e => by cases e)
  | .inf, .inf => isTrue rfl

instance instLinearOrderHInf : LinearOrder (HInf ℚ) where
  le a b := ¬ b < a
  lt a b := a < b
  le_refl a := hlt_irrefl a
  le_trans a b c hab hbc := by
    intro hca
    rcases hlt_tri a b with h | h | h
    · exact hbc (hlt_trans hca h)
    · subst h; exact hbc hca
    · exact hab h
  lt_iff_le_not_ge a b := by
    constructor
    · intro h
      refine ⟨fun hba => hlt_irrefl a (hlt_trans h hba), fun hn => hn h⟩
    · rintro ⟨_, h2⟩
      rcases hlt_tri a b with h | h | h
      · exact h
      · subst h; exact absurd (hlt_irrefl a) h2
      · exact absurd (fun hab => hlt_irrefl a (hlt_trans hab h)) h2
  le_antisymm a b hab hba := by
    rcases hlt_tri a b with h | h | h
    · exact absurd h hba
    · exact h
    · exact absurd h hab
  le_total a b := by
    rcases hlt_tri a b with h | h | h
    · exact Or.inl (fun hba => hlt_irrefl a (hlt_trans h hba))
    · subst h; exact Or.inl (hlt_irrefl a)
    · exact Or.inr (fun hab => hlt_irrefl a (hlt_trans hab h))
  toDecidableLE := fun a b => inferInstanceAs (Decidable (¬ b < a))
  toDecidableLT := fun a b => inferInstanceAs (Decidable (a < b))

/-! ### the clamp -/

theorem maxH_ge_left (a b : HInf ℚ) : ¬ maxH a b < a := by
  unfold maxH
  split
  · rename_i h; exact fun hba => hlt_irrefl a (hlt_trans h hba)
  · exact hlt_irrefl a

theorem maxH_ge_right (a b : HInf ℚ) : ¬ maxH a b < b := by
  unfold maxH
  split
  · exact hlt_irrefl b
  · rename_i h; exact h

theorem not_lt_of_not_lt {a b c : HInf ℚ} (h1 : ¬ a < b) (h2 : ¬ b < c) : ¬ a < c := by
  intro hac
  rcases hlt_tri b a with h | h | h
  · exact h2 (hlt_trans h hac)
  · subst h; exact h2 hac
  · exact h1 h

/-- the clamped height is not below the height of either merged cluster -/
theorem clampHeight_ge (n : Nat) (rows : List (Row (HInf ℚ))) (h0 : HInf ℚ) (node nn c : Nat) (rc : Row (HInf ℚ))
    (hc : c = node ∨ c = nn) (hcn : n ≤ c) (hrow : rows[c - n]? = some rc) :
    ¬ clampHeight n rows h0 node nn < rc.h := by
  unfold clampHeight
  rcases hc with e | e
  · subst e
    have h1 : heightOf n rows c h0 = rc.h := by unfold heightOf; simp [hcn, hrow]
    have h2 : ¬ maxH h0 (heightOf n rows c h0) < rc.h := by rw [h1]; exact maxH_ge_right _ _
    exact not_lt_of_not_lt (maxH_ge_left _ _) h2
  · subst e
    have h1 : heightOf n rows c (maxH h0 (heightOf n rows node h0)) = rc.h := by
      unfold heightOf; simp [hcn, hrow]
    rw [h1]; exact maxH_ge_right _ _


/-! ### the rows never decrease towards the root -/

theorem monoRows_append {n : Nat} {rows : List (Row (HInf ℚ))} (hM : MonoRows n rows rows) (r : Row (HInf ℚ))
    (hr : ∀ c, (c = r.i ∨ c = r.j) → n ≤ c → ∃ rc, rows[c - n]? = some rc ∧ ¬ r.h < rc.h) :
    MonoRows n (rows ++ [r]) (rows ++ [r]) := by
  intro r' hr' c hc hcn
  rcases List.mem_append.mp hr' with hm | hm
  · obtain ⟨rc, hrc, hle⟩ := hM r' hm c hc hcn
    have := (List.getElem?_eq_some_iff.mp hrc).1
    exact ⟨rc, by rw [List.getElem?_append_left this]; exact hrc, hle⟩
  · simp only [List.mem_cons, List.not_mem_nil, or_false] at hm
    subst hm
    obtain ⟨rc, hrc, hle⟩ := hr c hc hcn
    have := (List.getElem?_eq_some_iff.mp hrc).1
    exact ⟨rc, by rw [List.getElem?_append_left this]; exact hrc, hle⟩

theorem chainStep_mono {n : Nat} (round32 : ℚ → ℚ) {st st1 : PState ℚ} {L : Dict Nat}
    (hP : PInv n st.g st.rows st.comps L) (hM : MonoRows n st.rows st.rows)
    (hs : chainStep round32 n st = .ok (some st1)) : MonoRows n st1.rows st1.rows := by
  obtain ⟨g, chain, rows, comps⟩ := st
  unfold chainStep at hs
  split at hs
  · split at hs
    · cases hs
    · simp only [Except.ok.injEq, Option.some.injEq] at hs; subst hs; exact hM
  · split at hs
    · cases hs
    · simp only at hs
      split at hs
      · split at hs
        · cases hs
        · simp only [Except.ok.injEq, Option.some.injEq] at hs; subst hs; exact hM
      · split at hs
        · split at hs
          · split at hs
            · rename_i node _ _ _ _ _ _ _ _ _ s1 s2 h1 h2
              simp only [Except.ok.injEq, Option.some.injEq] at hs; subst hs
              refine monoRows_append hM _ ?_
              intro c hc hcn
              -- the merged clusters exist, hence their rows
              have hb : c < n + rows.length := by
                rcases hc with e | e
                · rw [e]; exact hP.linv.bound _ (Dict.get?_some_key_mem (hP.sizes _ _ h1))
                · rw [e]; exact hP.linv.bound _ (Dict.get?_some_key_mem (hP.sizes _ _ h2))
              have hlt : c - n < rows.length := by omega
              refine ⟨rows[c - n], List.getElem?_eq_getElem hlt, ?_⟩
              exact clampHeight_ge n rows _ _ _ c _ hc hcn (List.getElem?_eq_getElem hlt)
            · cases hs
          · simp only [Except.ok.injEq, Option.some.injEq] at hs; subst hs; exact hM
        · simp only [Except.ok.injEq, Option.some.injEq] at hs; subst hs; exact hM

theorem chainLoop_mono {n : Nat} (round32 : ℚ → ℚ) : ∀ (fuel : Nat) (st st' : PState ℚ) (L : Dict Nat),
    PInv n st.g st.rows st.comps L → MonoRows n st.rows st.rows →
    chainLoop round32 n fuel st = .ok (some st') → MonoRows n st'.rows st'.rows := by
  intro fuel
  induction fuel with
  | zero => intro st st' L _ _ h; simp [chainLoop] at h
  | succ fuel ih =>
    intro st st' L hinv hM h
    unfold chainLoop at h
    split at h
    · cases h
    · simp only [Except.ok.injEq, Option.some.injEq] at h
      subst h; exact hM
    · rename_i st1 hstep
      obtain ⟨L1, h1⟩ := chainStep_pinv round32 n hinv hstep
      exact ih st1 st' L1 h1 (chainStep_mono round32 hinv hM hstep) h

/-- the joins of the connected components are written at infinite height -/
theorem join_mono (n : Nat) : ∀ (others : List (Nat × Nat)) (rows : List (Row (HInf ℚ))) (node size : Nat),
    MonoRows n rows rows → node < n + rows.length → (∀ p ∈ others, p.1 < n + rows.length) →
    MonoRows n (others.foldl joinStep (rows, node, size, n + rows.length)).1
      (others.foldl joinStep (rows, node, size, n + rows.length)).1 := by
  intro others
  induction others with
  | nil => intro rows node size hM _ _; exact hM
  | cons p ps ih =>
    intro rows node size hM hnode hoth
    simp only [List.foldl_cons, joinStep]
    have hl : (rows ++ [({ i := node, j := p.1, h := HInf.inf, s := size + p.2 } : Row (HInf ℚ))]).length =
        rows.length + 1 := by simp
    have hM' : MonoRows n (rows ++ [({ i := node, j := p.1, h := HInf.inf, s := size + p.2 } : Row (HInf ℚ))])
        (rows ++ [({ i := node, j := p.1, h := HInf.inf, s := size + p.2 } : Row (HInf ℚ))]) := by
      refine monoRows_append hM _ ?_
      intro c hc hcn
      have hb : c < n + rows.length := by
        rcases hc with e | e
        · rw [e]; exact hnode
        · rw [e]; exact hoth p List.mem_cons_self
      have hlt : c - n < rows.length := by omega
      exact ⟨rows[c - n], List.getElem?_eq_getElem hlt, not_hlt_inf _⟩
    have := ih (rows ++ [({ i := node, j := p.1, h := HInf.inf, s := size + p.2 } : Row (HInf ℚ))])
      (n + rows.length) (size + p.2) hM' (by rw [hl]; omega)
      (fun q hq => by rw [hl]; have := hoth q (List.mem_cons_of_mem _ hq); omega)
    rw [hl] at this
    have e : n + rows.length + 1 = n + (rows.length + 1) := by omega
    rw [e]; exact this

end SkNet.Paris
