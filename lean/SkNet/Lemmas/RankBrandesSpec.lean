/-
Brandes' dependency in the vocabulary of the specification (Spec/Rank.lean): for the state the BFS from `s` ends in,
    dep(v) = Σ_{t ≠ v, s} pairDep s t v        (σ_sv·σ_vt/σ_st when d(s,v)+d(v,t) = d(s,t)),
distances and path counts being those of the walk-based specification of C10.
-/
import SkNet.Lemmas.RankBrandesThm
import SkNet.Properties.C10

open Finset

namespace SkNet.Rank.Brandes

/-- the edge predicate of adjacency lists -/
def edgeOf (nbr : ℕ → List ℕ) (u w : ℕ) : Bool := decide (w ∈ nbr u)

variable {n : ℕ} {nbr : ℕ → List ℕ}

/-! ### walks from an arbitrary node -/

theorem paths_zero (a v : ℕ) : paths n nbr a 0 v = if v = a then 1 else 0 := rfl

theorem paths_succ (a d v : ℕ) :
    paths n nbr a (d+1) v = ∑ u ∈ range n, (nbr u).count v * paths n nbr a d u := rfl

/-- decomposition of a walk on its first edge -/
theorem paths_first (hnbr : ∀ u, ∀ v ∈ nbr u, v < n) {a : ℕ} (ha : a < n) (k t : ℕ) :
    paths n nbr a (k+1) t = ∑ w ∈ range n, (nbr a).count w * paths n nbr w k t := by
  induction k generalizing t with
  | zero =>
    rw [paths_succ]
    simp only [paths_zero]
    have h1 : ∑ u ∈ range n, (nbr u).count t * (if u = a then 1 else 0) = (nbr a).count t := by
      rw [sum_eq_single a]
      · simp
      · intro u _ hu; simp [hu]
      · intro h; exact absurd (mem_range.mpr ha) h
    rw [h1]
    by_cases ht : t ∈ nbr a
    · have htn := hnbr a t ht
      rw [sum_eq_single t]
      · simp
      · intro w _ hw; simp [Ne.symm hw]
      · intro h; exact absurd (mem_range.mpr htn) h
    · rw [List.count_eq_zero_of_not_mem ht]
      symm; apply sum_eq_zero; intro w _
      by_cases hw : t = w
      · subst hw; rw [List.count_eq_zero_of_not_mem ht, zero_mul]
      · simp [hw]
  | succ k ih =>
    rw [paths_succ]
    rw [sum_congr rfl fun u _ => by rw [ih u]]
    simp only [mul_sum]
    rw [sum_comm]
    apply sum_congr rfl; intro w _
    rw [paths_succ, mul_sum]
    apply sum_congr rfl; intro u _
    ring

/-- walks of the specification of C10 are the walks counted by `paths` -/
theorem walk_iff_paths (hnbr : ∀ u, ∀ v ∈ nbr u, v < n) {a : ℕ} (ha : a < n) (d v : ℕ) :
    SkNet.Path.Walk n (edgeOf nbr) (fun x => x == a) d v ↔ 0 < paths n nbr a d v := by
  induction d generalizing v with
  | zero =>
    rw [SkNet.Path.Walk.zero_iff, paths_zero]
    constructor
    · rintro ⟨_, h⟩
      have : v = a := by simpa using h
      simp [this]
    · intro h
      have : v = a := by by_contra hne; simp [hne] at h
      subst this; exact ⟨ha, by simp⟩
  | succ d ih =>
    rw [SkNet.Path.Walk.succ_iff, paths_succ_pos]
    constructor
    · rintro ⟨_, u, hw, he⟩
      have hu := hw.lt
      exact ⟨u, hu, by simpa [edgeOf] using he, (ih u).mp hw⟩
    · rintro ⟨u, hu, hv, hp⟩
      exact ⟨hnbr u v hv, u, (ih u).mpr hp, by simpa [edgeOf] using hv⟩

theorem isDist_iff (hnbr : ∀ u, ∀ v ∈ nbr u, v < n) {a : ℕ} (ha : a < n) (v d : ℕ) :
    IsDist n nbr a v d ↔ SkNet.Path.IsDist n (edgeOf nbr) (fun x => x == a) v d := by
  unfold IsDist SkNet.Path.IsDist
  rw [walk_iff_paths hnbr ha]
  constructor
  · rintro ⟨h1, h2⟩
    refine ⟨h1, fun d' hd' hw => ?_⟩
    have := (walk_iff_paths hnbr ha d' v).mp hw
    rw [h2 d' hd'] at this; exact lt_irrefl _ this
  · rintro ⟨h1, h2⟩
    refine ⟨h1, fun d' hd' => ?_⟩
    by_contra hne
    exact h2 d' hd' ((walk_iff_paths hnbr ha d' v).mpr (Nat.pos_of_ne_zero hne))

/-- the hop distance of the specification, from `paths` -/
theorem hopDist_of_isDist (hnbr : ∀ u, ∀ v ∈ nbr u, v < n) {a : ℕ} (ha : a < n) {v d : ℕ} (h : IsDist n nbr a v d) :
    SkNet.RankSpec.dist n (edgeOf nbr) a v = d :=
  ((SkNet.C10.hopDist_spec n (edgeOf nbr) (fun x => x == a) v).1 d).mpr ((isDist_iff hnbr ha v d).mp h)

theorem hopDist_of_unreachable (hnbr : ∀ u, ∀ v ∈ nbr u, v < n) {a : ℕ} (ha : a < n) {v : ℕ}
    (h : ∀ d, paths n nbr a d v = 0) : SkNet.RankSpec.dist n (edgeOf nbr) a v = -1 := by
  refine (SkNet.C10.hopDist_spec n (edgeOf nbr) (fun x => x == a) v).2.mpr fun d hw => ?_
  have := (walk_iff_paths hnbr ha d v).mp hw
  rw [h d] at this; exact lt_irrefl _ this

/-- the hop distance is a distance in the sense of `paths`, or the node is unreachable -/
theorem dist_cases (hnbr : ∀ u, ∀ v ∈ nbr u, v < n) {a : ℕ} (ha : a < n) (v : ℕ) :
    (SkNet.RankSpec.dist n (edgeOf nbr) a v = -1 ∧ ∀ d, paths n nbr a d v = 0) ∨
    (∃ d : ℕ, SkNet.RankSpec.dist n (edgeOf nbr) a v = d ∧ IsDist n nbr a v d) := by
  by_cases h : ∀ d, paths n nbr a d v = 0
  · exact Or.inl ⟨hopDist_of_unreachable hnbr ha h, h⟩
  · right
    -- least d with a walk
    have hex : ∃ d, 0 < paths n nbr a d v := by
      by_contra hc
      apply h; intro d
      by_contra hne
      exact hc ⟨d, Nat.pos_of_ne_zero hne⟩
    classical
    let d := Nat.find hex
    have hd : 0 < paths n nbr a d v := Nat.find_spec hex
    have hmin : ∀ d', d' < d → paths n nbr a d' v = 0 := by
      intro d' hd'
      by_contra hne
      exact Nat.find_min hex hd' (Nat.pos_of_ne_zero hne)
    exact ⟨d, hopDist_of_isDist hnbr ha ⟨hd, hmin⟩, hd, hmin⟩

/-! ### the final state of the BFS from `s` -/

/-- everything the final state of the BFS from `s` provides -/
structure Full (n : ℕ) (nbr : ℕ → List ℕ) (s : ℕ) (st : BState) : Prop where
  done : Done n nbr s st
  hnbr : ∀ u, ∀ v ∈ nbr u, v < n
  hs : s < n
  s_lvl : D st s = 0
  closed : ∀ u, u < n → 0 ≤ D st u → ∀ v ∈ nbr u, 0 ≤ D st v
  dist_ok : ∀ v, v < n → 0 ≤ D st v → IsDist n nbr s v (lvl st v)
  unreach : ∀ v, v < n → D st v < 0 → ∀ d, paths n nbr s d v = 0
  sigma_eq : ∀ v, v < n → 0 ≤ D st v → S st v = paths n nbr s (lvl st v) v
  cmul_eq : ∀ v w, w < n → cmul st v w
    = if v < n ∧ 0 ≤ D st v ∧ D st v + 1 = D st w then (nbr v).count w else 0

theorem full_of_bfs (hnbr : ∀ u, ∀ v ∈ nbr u, v < n) {s : ℕ} (hs : s < n) {st : BState}
    (h : brandesBfs nbr (n + 1) (initState n s) = some st) : Full n nbr s st := by
  obtain ⟨L, hI, hP, hq⟩ := bfs_inv' hnbr (n + 1) 0 _ st (init_inv nbr hs) (init_pinv n nbr s) h
  have hsig := brandes_sigma hnbr hs (n + 1) st h
  have hseen : ∀ v, v < n → (v ∈ st.seen ↔ 0 ≤ D st v) := by
    intro v hv; rw [hI.disc v hv, hq]; simp
  refine ⟨done_of_inv hI hP hq, hnbr, hs, ?_, ?_, fun v hv h0 => hI.dist_ok v hv h0, ?_, ?_, ?_⟩
  · have h0 := hI.src_disc
    have := hI.dist_ok s hs h0
    have hz : (D st s).toNat = 0 := by
      by_contra hne
      have := this.2 0 (Nat.pos_of_ne_zero hne)
      simp [paths] at this
    omega
  · intro u hu h0 v hv
    exact hI.closed u ((hseen u hu).mpr h0) v hv
  · intro v hv hneg d
    rcases hsig v hv with ⟨_, h2⟩ | ⟨h1, _⟩
    · exact h2 d
    · omega
  · intro v hv h0
    exact hI.final v ((hseen v hv).mpr h0)
  · intro v w hw
    show (Pr st w).count v = _
    rw [hP.preds_ok w hw v]
    by_cases hc : v ∈ st.seen ∧ D st v + 1 = D st w
    · have hvn := hI.slt v hc.1
      rw [if_pos hc, if_pos ⟨hvn, (hseen v hvn).mp hc.1, hc.2⟩]
    · rw [if_neg hc, if_neg]
      rintro ⟨h1, h2, h3⟩
      exact hc ⟨(hseen v h1).mpr h2, h3⟩

variable {s : ℕ} {st : BState}

theorem lvl_cast (h : 0 ≤ D st v) : ((lvl st v : ℕ) : ℤ) = D st v := by
  unfold lvl; omega

/-- an edge increases the level by at most one -/
theorem edge_lvl (hF : Full n nbr s st) {u w : ℕ} (hu : u < n) (h0 : 0 ≤ D st u) (hw : w ∈ nbr u) :
    0 ≤ D st w ∧ lvl st w ≤ lvl st u + 1 := by
  have hw0 := hF.closed u hu h0 w hw
  refine ⟨hw0, ?_⟩
  by_contra hc
  have hwd := hF.dist_ok w (hF.hnbr u w hw) hw0
  have hp : 0 < paths n nbr s (lvl st u + 1) w := paths_succ_pos.mpr ⟨u, hu, hw, (hF.dist_ok u hu h0).1⟩
  have := hwd.2 (lvl st u + 1) (by omega)
  omega

/-- a walk of length `k` from `a` reaches nodes at most `k` levels deeper -/
theorem walk_lvl (hF : Full n nbr s st) {a : ℕ} (ha : a < n) (h0 : 0 ≤ D st a) (k t : ℕ)
    (hp : 0 < paths n nbr a k t) : t < n ∧ 0 ≤ D st t ∧ lvl st t ≤ lvl st a + k := by
  induction k generalizing t with
  | zero =>
    have : t = a := by
      by_contra hne; simp [paths, hne] at hp
    subst this; exact ⟨ha, h0, le_refl _⟩
  | succ k ih =>
    obtain ⟨u, hu, htu, hpu⟩ := paths_succ_pos.mp hp
    obtain ⟨_, hu0, hul⟩ := ih u hpu
    obtain ⟨ht0, htl⟩ := edge_lvl hF hu hu0 htu
    exact ⟨hF.hnbr u t htu, ht0, by omega⟩

/-- inside the shortest-path DAG, the continuations from `v` to `t` are the walks of length `lvl t − lvl v` -/
theorem dp_eq_paths (hF : Full n nbr s st) (k : ℕ) : ∀ v t, v < n → 0 ≤ D st v → t < n → 0 ≤ D st t →
    lvl st t = lvl st v + k → dp n st k v t = paths n nbr v k t := by
  induction k with
  | zero =>
    intro v t _ _ _ _ _
    show (if v = t then 1 else 0) = if t = v then 1 else 0
    by_cases h : v = t
    · simp [h]
    · have : ¬ t = v := fun e => h e.symm
      simp [h, this]
  | succ k ih =>
    intro v t hv hv0 ht ht0 hl
    show ∑ w ∈ range n, cmul st v w * dp n st k w t = _
    rw [paths_first hF.hnbr hv]
    apply sum_congr rfl; intro w hw
    have hwn := mem_range.mp hw
    rw [hF.cmul_eq v w hwn]
    by_cases hc : (nbr v).count w = 0
    · rw [hc]; split <;> simp
    · have hwv : w ∈ nbr v := List.count_pos_iff.mp (Nat.pos_of_ne_zero hc)
      obtain ⟨hw0, hwl⟩ := edge_lvl hF hv hv0 hwv
      by_cases hlev : D st v + 1 = D st w
      · rw [if_pos ⟨hv, hv0, hlev⟩]
        have : lvl st t = lvl st w + k := by
          have h1 := lvl_cast hv0; have h2 := lvl_cast hw0
          omega
        rw [ih w t hwn hw0 ht ht0 this]
      · rw [if_neg (fun h => hlev h.2.2), zero_mul]
        -- no walk of length k from w reaches t: w is not deeper than v
        have hwle : lvl st w ≤ lvl st v := by
          have h1 := lvl_cast hv0; have h2 := lvl_cast hw0
          omega
        have : paths n nbr w k t = 0 := by
          by_contra hne
          have := (walk_lvl hF hwn hw0 k t (Nat.pos_of_ne_zero hne)).2.2
          omega
        rw [this, mul_zero]

/-! ### the dependency in the vocabulary of the specification -/

open SkNet.RankSpec in
/-- the hop distance and the number of shortest paths of the specification, read off the final BFS state -/
theorem spec_of_state (hF : Full n nbr s st) (hnd : ∀ u, (nbr u).Nodup) {v : ℕ} (hv : v < n) :
    (0 ≤ D st v → dist n (edgeOf nbr) s v = (lvl st v : ℤ) ∧ sigmaSpec n (edgeOf nbr) s v = S st v) ∧
    (D st v < 0 → dist n (edgeOf nbr) s v = -1) := by
  refine ⟨fun h0 => ?_, fun hneg => hopDist_of_unreachable hF.hnbr hF.hs (hF.unreach v hv hneg)⟩
  have hd := hopDist_of_isDist hF.hnbr hF.hs (hF.dist_ok v hv h0)
  refine ⟨hd, ?_⟩
  unfold sigmaSpec
  rw [hd, if_neg (by omega), hF.sigma_eq v hv h0, paths_eq_walkCount s hnd]
  simp only [Int.toNat_natCast]
  rfl

open SkNet.RankSpec in
/-- ★ Brandes' theorem in the vocabulary of the specification: the dependency accumulated for the source `s` on a node
    `v ≠ s` reached from `s` is `Σ_{t ≠ v, s} σ_st(v)/σ_st` -/
theorem dep_eq_pairDep (hF : Full n nbr s st) (hnd : ∀ u, (nbr u).Nodup) {v : ℕ} (hv : v < n) (hv0 : 0 ≤ D st v)
    (hvs : v ≠ s) :
    dep n st v = ∑ t ∈ range n, if s = v ∨ t = v ∨ s = t then 0 else pairDep n (edgeOf nbr) s t v := by
  unfold dep
  apply sum_congr rfl; intro t ht
  have htn := mem_range.mp ht
  obtain ⟨hdv, hsv⟩ := (spec_of_state hF hnd hv).1 hv0
  by_cases htv : t = v
  · have h1 : ¬ (0 ≤ D st t ∧ t ≠ v) := fun h => h.2 htv
    have h2 : s = v ∨ t = v ∨ s = t := Or.inr (Or.inl htv)
    rw [if_neg h1, if_pos h2]
  by_cases hts : s = t
  · have h2 : s = v ∨ t = v ∨ s = t := Or.inr (Or.inr hts)
    rw [if_pos h2]
    have h0t : 0 ≤ D st t := by rw [← hts, hF.s_lvl]
    have h1 : 0 ≤ D st t ∧ t ≠ v := ⟨h0t, htv⟩
    rw [if_pos h1]
    have hz : lvl st t - lvl st v = 0 := by
      have : lvl st t = 0 := by unfold lvl; rw [← hts, hF.s_lvl]; rfl
      omega
    rw [hz]
    have : dp n st 0 v t = 0 := by
      show (if v = t then 1 else 0) = 0
      rw [if_neg (fun e => hvs (e.trans hts.symm))]
    rw [this]; simp
  have h3 : ¬ (s = v ∨ t = v ∨ s = t) := by
    rintro (h | h | h)
    · exact hvs h.symm
    · exact htv h
    · exact hts h
  rw [if_neg h3]
  unfold pairDep
  simp only
  by_cases ht0 : 0 ≤ D st t
  · have h4 : 0 ≤ D st t ∧ t ≠ v := ⟨ht0, htv⟩
    rw [if_pos h4]
    obtain ⟨hdt, hst⟩ := (spec_of_state hF hnd htn).1 ht0
    rw [hdt, hdv]
    have hSt : (S st t : ℚ) ≠ 0 := by
      have := hF.done.sigma_pos t htn ht0; positivity
    rcases dist_cases hF.hnbr hv t with ⟨hdvt, hun⟩ | ⟨d', hdvt, hdist⟩
    · -- t is not reachable from v
      rw [hdvt, if_pos (Or.inr (Or.inr (by norm_num)))]
      have : dp n st (lvl st t - lvl st v) v t = 0 := by
        by_cases hle : lvl st v ≤ lvl st t
        · rw [dp_eq_paths hF _ v t hv hv0 htn ht0 (by omega)]; exact hun _
        · have hz : lvl st t - lvl st v = 0 := by omega
          rw [hz]; show (if v = t then 1 else 0) = 0; rw [if_neg (Ne.symm htv)]
      rw [this]; simp
    · rw [hdvt]
      have hwl := (walk_lvl hF hv hv0 d' t hdist.1).2.2
      rw [if_neg (by rintro (h | h | h) <;> omega)]
      by_cases heq : lvl st v + d' = lvl st t
      · rw [if_pos (by omega)]
        have hk : lvl st t - lvl st v = d' := by omega
        rw [hk, dp_eq_paths hF d' v t hv hv0 htn ht0 heq.symm, hsv, hst]
        have hvt : sigmaSpec n (edgeOf nbr) v t = paths n nbr v d' t := by
          unfold sigmaSpec
          rw [hdvt, if_neg (by omega), paths_eq_walkCount v hnd]
          simp only [Int.toNat_natCast]
          rfl
        rw [hvt]; push_cast; ring
      · rw [if_neg (by omega)]
        have : dp n st (lvl st t - lvl st v) v t = 0 := by
          by_cases hle : lvl st v ≤ lvl st t
          · rw [dp_eq_paths hF _ v t hv hv0 htn ht0 (by omega)]
            exact hdist.2 _ (by omega)
          · have hz : lvl st t - lvl st v = 0 := by omega
            rw [hz]; show (if v = t then 1 else 0) = 0; rw [if_neg (Ne.symm htv)]
        rw [this]; simp
  · have h5 : ¬ (0 ≤ D st t ∧ t ≠ v) := fun h => ht0 h.1
    rw [if_neg h5]
    have := (spec_of_state hF hnd htn).2 (not_le.mp ht0)
    rw [this, if_pos (Or.inl (by norm_num))]

/-! ### all the sources -/

open SkNet.RankSpec in
/-- contribution of the source `s` to the score of `v` in the specification -/
def contrib (n : ℕ) (nbr : ℕ → List ℕ) (s v : ℕ) : ℚ :=
  ∑ t ∈ range n, if s = v ∨ t = v ∨ s = t then 0 else pairDep n (edgeOf nbr) s t v

open SkNet.RankSpec in
/-- one iteration of `for source in range(n)` adds `contrib s v` to every score -/
theorem brandesSource_contrib (hnbr : ∀ u, ∀ v ∈ nbr u, v < n) (hnd : ∀ u, (nbr u).Nodup) {s : ℕ} (hs : s < n)
    (scores0 : List ℚ) (hlen : scores0.length = n) :
    ∃ sc : List ℚ, brandesSource n nbr scores0 s = some sc ∧ sc.length = n ∧
      ∀ v, v < n → sc.getD v 0 = scores0.getD v 0 + contrib n nbr s v := by
  obtain ⟨st, delta, sc, hst, hsrc, hlsc, hrec, hsc⟩ := brandesSource_spec hnbr hs scores0 hlen
  have hF := full_of_bfs hnbr hs hst
  have hdep := rec_unique hF.done delta hrec
  refine ⟨sc, hsrc, hlsc, fun v hv => ?_⟩
  rw [hsc v hv]
  congr 1
  by_cases hc : 0 ≤ D st v ∧ v ≠ s
  · rw [if_pos hc, hdep v hv, dep_eq_pairDep hF hnd hv hc.1 hc.2]; rfl
  · rw [if_neg hc]
    unfold contrib
    symm; apply sum_eq_zero; intro t ht
    by_cases hvs : v = s
    · rw [if_pos (Or.inl hvs.symm)]
    · have hneg : D st v < 0 := by
        by_contra h; exact hc ⟨not_lt.mp h, hvs⟩
      split
      · rfl
      · unfold pairDep
        simp only
        rw [(spec_of_state hF hnd hv).2 hneg, if_pos (Or.inr (Or.inl (by norm_num)))]

theorem foldlM_sources (hnbr : ∀ u, ∀ v ∈ nbr u, v < n) (hnd : ∀ u, (nbr u).Nodup) (k : ℕ) (hk : k ≤ n) :
    ∃ sc : List ℚ, (List.range k).foldlM (fun sc s => brandesSource n nbr sc s) (tab n fun _ => (0 : ℚ)) = some sc ∧
      sc.length = n ∧ ∀ v, v < n → sc.getD v 0 = ∑ s ∈ range k, contrib n nbr s v := by
  induction k with
  | zero =>
    refine ⟨tab n fun _ => 0, rfl, by simp, fun v hv => ?_⟩
    rw [tab_getD, if_pos hv]; simp
  | succ k ih =>
    obtain ⟨sc, hsc, hlen, hval⟩ := ih (by omega)
    obtain ⟨sc', hsc', hlen', hval'⟩ := brandesSource_contrib hnbr hnd (show k < n by omega) sc hlen
    refine ⟨sc', ?_, hlen', fun v hv => ?_⟩
    · rw [List.range_succ, List.foldlM_append, hsc]
      simp only [Option.bind_eq_bind, Option.bind_some, List.foldlM_cons, List.foldlM_nil]
      rw [hsc']; rfl
    · rw [hval' v hv, hval v hv, sum_range_succ]

open SkNet.RankSpec in
/-- ★ `brandes_dependency` : `Betweenness.fit` never runs out of fuel and returns, for every node, Brandes' ordered-pair
    sum `Σ_{s ≠ v ≠ t} σ_st(v)/σ_st` of the specification — halved when the adjacency is symmetric -/
theorem betweenness_eq_spec (hnbr : ∀ u, ∀ v ∈ nbr u, v < n) (hnd : ∀ u, (nbr u).Nodup) (symmetric : Bool) :
    ∃ sc : List ℚ, betweenness n nbr symmetric = some sc ∧ ∀ v, v < n →
      sc.getD v 0 = if symmetric then betweennessSpec n (edgeOf nbr) v else dependencySum n (edgeOf nbr) v := by
  obtain ⟨sc, hsc, hlen, hval⟩ := foldlM_sources hnbr hnd n (le_refl n)
  have hdep : ∀ v, v < n → sc.getD v 0 = dependencySum n (edgeOf nbr) v := by
    intro v hv
    rw [hval v hv]
    unfold dependencySum contrib
    rw [map_range_sum]
    apply sum_congr rfl; intro s _
    rw [map_range_sum]
  unfold betweenness
  rw [hsc]
  cases symmetric with
  | false =>
    refine ⟨sc, rfl, fun v hv => ?_⟩
    simp only [Bool.false_eq_true, if_false]
    exact hdep v hv
  | true =>
    refine ⟨tab n fun i => (1 / (1 + 1)) * sc.getD i 0, rfl, fun v hv => ?_⟩
    simp only [if_true]
    rw [tab_getD, if_pos hv, hdep v hv]
    unfold betweennessSpec
    ring

end SkNet.Rank.Brandes
