/-
Round trip of the recogniser over rendered pieces: `parseDoc (render ps) = some ps` for lexically sound pieces
(`piecesLexOk`).  Everything else about well-formedness is then a statement about piece lists.
-/
import SkNet.Spec.Xml

namespace SkNet.Svg

/-! ### lexical side conditions -/

def attrLexOk (a : Attr) : Bool :=
  !a.sep.isEmpty && a.sep.all isWs && nameOk a.key && (a.q == 34 || a.q == 39) &&
    attrValOk a.q (a.val.length + 1) a.val

def pieceLexOk : Piece → Bool
  | .otag n as t => nameOk n && as.all attrLexOk && t.all isWs
  | .etag n as t => nameOk n && as.all attrLexOk && t.all isWs
  | .ctag n t => nameOk n && t.all isWs
  | .chr c => textCharOk c
  | .ref b => refOk b && b.all (fun x => x != 59)

def piecesLexOk (ps : List Piece) : Bool := ps.all pieceLexOk

/-! ### `spanP` -/

theorem spanP_stop (p : Nat → Bool) (a : PyStr) (c : Nat) (b : PyStr)
    (ha : a.all p = true) (hc : p c = false) : spanP p (a ++ c :: b) = (a, c :: b) := by
  induction a with
  | nil => simp [spanP, hc]
  | cons x xs ih =>
    simp only [List.all_cons, Bool.and_eq_true] at ha
    simp [spanP, ha.1, ih ha.2]

theorem spanP_nil_of_head (p : Nat → Bool) (c : Nat) (b : PyStr) (hc : p c = false) :
    spanP p (c :: b) = ([], c :: b) := by
  simp [spanP, hc]

/-! ### character class facts -/

theorem isNameStart_not_ws {c : Nat} (h : isNameStart c = true) : isWs c = false := by
  simp only [isNameStart, isWs, Bool.or_eq_true, Bool.and_eq_true, decide_eq_true_eq, beq_iff_eq] at h ⊢
  simp only [Bool.or_eq_false_iff, beq_eq_false_iff_ne]
  omega

theorem isNameStart_ne {c : Nat} (h : isNameStart c = true) : c ≠ 62 ∧ c ≠ 47 ∧ c ≠ 60 := by
  simp only [isNameStart, Bool.or_eq_true, Bool.and_eq_true, decide_eq_true_eq, beq_iff_eq] at h
  omega

theorem isNameStart_nameChar {c : Nat} (h : isNameStart c = true) : isNameChar c = true := by
  simp [isNameChar, h]

theorem nameOk_cons {n : PyStr} (h : nameOk n = true) :
    ∃ c r, n = c :: r ∧ isNameStart c = true ∧ r.all isNameChar = true := by
  cases n with
  | nil => simp [nameOk] at h
  | cons c r =>
    simp only [nameOk, Bool.and_eq_true] at h
    exact ⟨c, r, rfl, h.1, h.2⟩

theorem nameOk_all {n : PyStr} (h : nameOk n = true) : n.all isNameChar = true := by
  obtain ⟨c, r, rfl, h1, h2⟩ := nameOk_cons h
  simp [isNameStart_nameChar h1, h2]

theorem isNameChar_61 : isNameChar 61 = false := by decide
theorem isNameChar_62 : isNameChar 62 = false := by decide
theorem isNameChar_47 : isNameChar 47 = false := by decide
theorem isWs_62 : isWs 62 = false := by decide
theorem isWs_47 : isWs 47 = false := by decide

theorem isWs_not_nameChar {c : Nat} (h : isWs c = true) : isNameChar c = false := by
  simp only [isWs, Bool.or_eq_true, beq_iff_eq] at h
  rcases h with ((h | h) | h) | h <;> subst h <;> decide

/-! ### attributes -/

/-- `spanP` splits the list where it says -/
theorem spanP_eq (p : Nat → Bool) (l : PyStr) : l = (spanP p l).1 ++ (spanP p l).2 ∧ (spanP p l).1.all p = true := by
  induction l with
  | nil => simp [spanP]
  | cons c r ih =>
    simp only [spanP]
    split
    · rename_i hc
      simp only [List.cons_append, List.all_cons, hc, Bool.true_and]
      exact ⟨by rw [← ih.1], ih.2⟩
    · simp

/-- the first element left by `spanP` fails the predicate -/
theorem spanP_head_fails (p : Nat → Bool) : ∀ (l a : PyStr) (y : Nat) (t : PyStr),
    spanP p l = (a, y :: t) → p y = false := by
  intro l
  induction l with
  | nil => intro a y t hh; simp [spanP] at hh
  | cons z zs ihz =>
    intro a y t hh
    simp only [spanP] at hh
    split at hh
    · cases hs : spanP p zs with
      | mk a' b' =>
        rw [hs] at hh
        simp only [Prod.mk.injEq] at hh
        exact ihz a' y t (by rw [hs, hh.2])
    · rename_i hz
      simp only [Prod.mk.injEq, List.cons.injEq] at hh
      have : z = y := hh.2.1
      subst this
      simpa using hz

/-- an attribute value (between quotes `q`), as a grammar: plain characters and references -/
inductive ValOk (q : Nat) : PyStr → Prop
  | nil : ValOk q []
  | chr (c : Nat) (r : PyStr) : isXmlChar c = true → c ≠ 60 → c ≠ 38 → c ≠ q → ValOk q r → ValOk q (c :: r)
  | ref (b r : PyStr) : refOk b = true → b.all (fun x => x != 59) = true → ValOk q r →
      ValOk q (38 :: (b ++ 59 :: r))

theorem ValOk.append {q : Nat} {a b : PyStr} (ha : ValOk q a) (hb : ValOk q b) : ValOk q (a ++ b) := by
  induction ha with
  | nil => exact hb
  | chr c r h1 h2 h3 h4 _ ih => exact ValOk.chr c _ h1 h2 h3 h4 ih
  | ref b' r h1 h2 _ ih =>
    have : 38 :: (b' ++ 59 :: r) ++ b = 38 :: (b' ++ 59 :: (r ++ b)) := by simp
    rw [this]; exact ValOk.ref b' _ h1 h2 ih

/-- the checker accepts the grammar … -/
theorem ValOk.check {q : Nat} {v : PyStr} (h : ValOk q v) : ∀ f, v.length < f → attrValOk q f v = true := by
  induction h with
  | nil =>
    intro f hf
    obtain ⟨f', rfl⟩ : ∃ f', f = f' + 1 := ⟨f - 1, by simp at hf; omega⟩
    rfl
  | chr c r h1 h2 h3 h4 _ ih =>
    intro f hf
    obtain ⟨f', rfl⟩ : ∃ f', f = f' + 1 := ⟨f - 1, by simp at hf; omega⟩
    simp only [attrValOk, h3, if_false, h1, Bool.true_and, Bool.and_eq_true, bne_iff_ne, ne_eq]
    exact ⟨⟨h2, h4⟩, ih f' (by simp at hf; omega)⟩
  | ref b r h1 h2 _ ih =>
    intro f hf
    obtain ⟨f', rfl⟩ : ∃ f', f = f' + 1 := ⟨f - 1, by simp at hf; omega⟩
    simp only [attrValOk, if_true]
    rw [spanP_stop (fun x => x != 59) b 59 r h2 (by simp)]
    simp only [h1, Bool.true_and]
    exact ih f' (by simp at hf; omega)

/-- … and nothing else -/
theorem ValOk.of_check {q : Nat} : ∀ (f : Nat) (v : PyStr), attrValOk q f v = true → ValOk q v := by
  intro f
  induction f with
  | zero => intro v h; simp [attrValOk] at h
  | succ f ih =>
    intro v h
    cases v with
    | nil => exact ValOk.nil
    | cons c r =>
      simp only [attrValOk] at h
      split at h
      · rename_i hc
        subst hc
        have hsp := spanP_eq (fun x => x != 59) r
        split at h
        · rename_i b x r2 hspan
          simp only [Bool.and_eq_true] at h
          rw [hspan] at hsp
          simp only at hsp
          have hx : x = 59 := by
            have := spanP_head_fails (fun y => y != 59) r b x r2 hspan
            simpa using this
          subst hx
          rw [hsp.1]
          exact ValOk.ref b r2 h.1 hsp.2 (ih r2 h.2)
        · simp at h
      · rename_i hc
        simp only [Bool.and_eq_true, bne_iff_ne, ne_eq] at h
        exact ValOk.chr c r h.1.1.1 h.1.1.2 hc h.1.2 (ih r h.2)

theorem refOk_no_quote {b : PyStr} (h : refOk b = true) : b.all (fun x => x != 34 && x != 39) = true := by
  unfold refOk at h
  simp only [Bool.or_eq_true, beq_iff_eq] at h
  rcases h with ((((h | h) | h) | h) | h) | h
  · subst h; decide
  · subst h; decide
  · subst h; decide
  · subst h; decide
  · subst h; decide
  · split at h
    · rename_i ds
      simp only [Bool.and_eq_true] at h
      have hd := h.1.2
      simp only [List.all_cons, Bool.and_eq_true]
      refine ⟨by decide, by decide, ?_⟩
      rw [List.all_eq_true] at hd ⊢
      intro x hx
      have := hd x hx
      simp only [isHexDigit, isDigit, Bool.or_eq_true, Bool.and_eq_true, decide_eq_true_eq] at this
      simp only [Bool.and_eq_true, bne_iff_ne, ne_eq]
      omega
    · rename_i ds _
      simp only [Bool.and_eq_true] at h
      have hd := h.1.2
      simp only [List.all_cons, Bool.and_eq_true]
      refine ⟨by decide, ?_⟩
      rw [List.all_eq_true] at hd ⊢
      intro x hx
      have := hd x hx
      simp only [isDigit, Bool.and_eq_true, decide_eq_true_eq] at this
      simp only [Bool.and_eq_true, bne_iff_ne, ne_eq]
      omega
    · simp at h

theorem ValOk.ne_q {q : Nat} {v : PyStr} (h : ValOk q v) (hq : q = 34 ∨ q = 39) :
    v.all (fun x => x != q) = true := by
  induction h with
  | nil => rfl
  | chr c r _ _ _ h4 _ ih => simp [h4, ih]
  | ref b r h1 _ _ ih =>
    have hb := refOk_no_quote h1
    have hb' : b.all (fun x => x != q) = true := by
      rw [List.all_eq_true] at hb ⊢
      intro x hx
      have := hb x hx
      simp only [Bool.and_eq_true, bne_iff_ne, ne_eq] at this ⊢
      rcases hq with h | h <;> subst h
      · exact this.1
      · exact this.2
    have h38 : (38 : Nat) ≠ q := by rcases hq with h | h <;> subst h <;> decide
    have h59 : (59 : Nat) ≠ q := by rcases hq with h | h <;> subst h <;> decide
    simp [List.all_append, hb', ih, h38, h59]

theorem attr_val_ne_q {q : Nat} {v : PyStr} (hq : q = 34 ∨ q = 39) (h : attrValOk q (v.length + 1) v = true) :
    v.all (fun x => x != q) = true :=
  (ValOk.of_check _ _ h).ne_q hq

/-- what follows the attributes of a tag: blanks then `>` or `/>` -/
def tagEnd (t : PyStr) (selfClose : Bool) (rest : PyStr) : PyStr :=
  t ++ (if selfClose then 47 :: 62 :: rest else 62 :: rest)

theorem parseAttrs_end (f : Nat) (t : PyStr) (sc : Bool) (rest : PyStr) (ht : t.all isWs = true) :
    parseAttrs (f+1) (tagEnd t sc rest) = some ([], t, sc, rest) := by
  cases sc with
  | false =>
    simp only [tagEnd, parseAttrs, Bool.false_eq_true, if_false]
    rw [spanP_stop isWs t 62 rest ht isWs_62]
    simp
  | true =>
    simp only [tagEnd, parseAttrs, if_true]
    rw [spanP_stop isWs t 47 (62 :: rest) ht isWs_47]
    simp

theorem parseAttrs_render (as : List Attr) (t : PyStr) (sc : Bool) (rest : PyStr)
    (has : as.all attrLexOk = true) (ht : t.all isWs = true) :
    ∀ f, as.length < f → parseAttrs f (renderAttrs as ++ tagEnd t sc rest) = some (as, t, sc, rest) := by
  induction as with
  | nil =>
    intro f hf
    obtain ⟨f', rfl⟩ : ∃ f', f = f' + 1 := ⟨f - 1, by simp at hf; omega⟩
    simpa [renderAttrs] using parseAttrs_end f' t sc rest ht
  | cons a as ih =>
    intro f hf
    obtain ⟨f', rfl⟩ : ∃ f', f = f' + 1 := ⟨f - 1, by simp at hf; omega⟩
    simp only [List.all_cons, Bool.and_eq_true] at has
    obtain ⟨ha, has'⟩ := has
    simp only [attrLexOk, Bool.and_eq_true, Bool.not_eq_true', Bool.or_eq_true, beq_iff_eq] at ha
    obtain ⟨⟨⟨⟨hsep0, hsep⟩, hkey⟩, hq⟩, hval⟩ := ha
    obtain ⟨k0, ks, hk, hk0, hks⟩ := nameOk_cons hkey
    have ih' := ih has' f' (by simp at hf; omega)
    -- shape of the input
    have hshape : renderAttrs (a :: as) ++ tagEnd t sc rest =
        a.sep ++ k0 :: (ks ++ 61 :: a.q :: (a.val ++ a.q :: (renderAttrs as ++ tagEnd t sc rest))) := by
      simp [renderAttrs, renderAttr, hk, List.append_assoc]
    rw [hshape]
    unfold parseAttrs
    rw [spanP_stop isWs a.sep k0 _ hsep (isNameStart_not_ws hk0)]
    have hne := isNameStart_ne hk0
    have hsepne : a.sep.isEmpty = false := hsep0
    simp only [hne.1, hne.2.1, if_false, hsepne, Bool.false_eq_true]
    have hspan : spanP isNameChar (k0 :: (ks ++ 61 :: a.q :: (a.val ++ a.q :: (renderAttrs as ++ tagEnd t sc rest))))
        = (k0 :: ks, 61 :: a.q :: (a.val ++ a.q :: (renderAttrs as ++ tagEnd t sc rest))) := by
      have := spanP_stop isNameChar (k0 :: ks) 61 (a.q :: (a.val ++ a.q :: (renderAttrs as ++ tagEnd t sc rest)))
        (by simp [isNameStart_nameChar hk0, hks]) isNameChar_61
      simpa using this
    rw [hspan]
    have hkey' : nameOk (k0 :: ks) = true := hk ▸ hkey
    simp only [hkey', Bool.not_true, Bool.false_eq_true, if_false, true_and, hq, if_true]
    rw [spanP_stop (fun x => x != a.q) a.val a.q _ (attr_val_ne_q hq hval) (by simp)]
    simp only [hval, if_true, ih']
    cases a
    simp_all

/-! ### pieces -/

theorem length_le_renderAttrs (as : List Attr) (has : as.all attrLexOk = true) :
    as.length ≤ (renderAttrs as).length := by
  induction as with
  | nil => simp
  | cons a as ih =>
    simp only [List.all_cons, Bool.and_eq_true] at has
    have ha := has.1
    simp only [attrLexOk, Bool.and_eq_true, Bool.not_eq_true'] at ha
    have hsep : a.sep ≠ [] := by
      intro h; simp [h] at ha
    have : 1 ≤ a.sep.length := by
      cases hs : a.sep with
      | nil => exact absurd hs hsep
      | cons _ _ => simp
    have := ih has.2
    simp [renderAttrs, renderAttr]
    omega

/-- the first character after a tag name is not a name character -/
theorem after_name (as : List Attr) (t : PyStr) (sc : Bool) (rest : PyStr)
    (has : as.all attrLexOk = true) (ht : t.all isWs = true) :
    ∃ c b, renderAttrs as ++ tagEnd t sc rest = c :: b ∧ isNameChar c = false := by
  cases as with
  | nil =>
    cases t with
    | nil => cases sc <;> simp [renderAttrs, tagEnd, isNameChar_47, isNameChar_62]
    | cons x xs =>
      simp only [List.all_cons, Bool.and_eq_true] at ht
      exact ⟨x, xs ++ (if sc = true then 47 :: 62 :: rest else 62 :: rest), by simp [renderAttrs, tagEnd], isWs_not_nameChar ht.1⟩
  | cons a as =>
    simp only [List.all_cons, Bool.and_eq_true] at has
    have ha := has.1
    simp only [attrLexOk, Bool.and_eq_true, Bool.not_eq_true'] at ha
    cases hs : a.sep with
    | nil => simp [hs] at ha
    | cons x xs =>
      have hx : isWs x = true := by
        have := ha.1.1.1.2
        simp [hs] at this
        exact this.1
      exact ⟨x, xs ++ (a.key ++ 61 :: a.q :: (a.val ++ a.q :: (renderAttrs as ++ tagEnd t sc rest))), by simp [renderAttrs, renderAttr, hs], isWs_not_nameChar hx⟩

theorem parse_tag (f : Nat) (n : PyStr) (as : List Attr) (t : PyStr) (sc : Bool) (rest : PyStr)
    (hn : nameOk n = true) (has : as.all attrLexOk = true) (ht : t.all isWs = true) :
    parse (f+1) (60 :: (n ++ (renderAttrs as ++ tagEnd t sc rest))) =
      (parse f rest).map ((if sc then Piece.etag n as t else Piece.otag n as t) :: ·) := by
  obtain ⟨n0, ns, rfl, hn0, hns⟩ := nameOk_cons hn
  obtain ⟨c, b, hcb, hc⟩ := after_name as t sc rest has ht
  have hne := isNameStart_ne hn0
  simp only [List.cons_append, parse, if_true, hne.2.1, if_false]
  have hspan : spanP isNameChar (n0 :: (ns ++ (renderAttrs as ++ tagEnd t sc rest))) =
      (n0 :: ns, renderAttrs as ++ tagEnd t sc rest) := by
    rw [hcb]
    have := spanP_stop isNameChar (n0 :: ns) c b (by simp [isNameStart_nameChar hn0, hns]) hc
    simpa using this
  rw [hspan]
  simp only [hn, Bool.not_true, Bool.false_eq_true, if_false]
  rw [parseAttrs_render as t sc rest has ht _ (by
    have := length_le_renderAttrs as has
    simp; omega)]

theorem parse_ctag (f : Nat) (n t rest : PyStr) (hn : nameOk n = true) (ht : t.all isWs = true) :
    parse (f+1) (60 :: 47 :: (n ++ (t ++ 62 :: rest))) = (parse f rest).map (Piece.ctag n t :: ·) := by
  simp only [parse, if_true]
  have h1 : spanP isNameChar (n ++ (t ++ 62 :: rest)) = (n, t ++ 62 :: rest) := by
    cases t with
    | nil => simpa using spanP_stop isNameChar n 62 rest (nameOk_all hn) isNameChar_62
    | cons x xs =>
      simp only [List.all_cons, Bool.and_eq_true] at ht
      simpa using spanP_stop isNameChar n x (xs ++ 62 :: rest) (nameOk_all hn) (isWs_not_nameChar ht.1)
  rw [h1]
  simp only [spanP_stop isWs t 62 rest ht isWs_62, hn, and_self, if_true]

theorem parse_chr (f : Nat) (c : Nat) (rest : PyStr) (hc : textCharOk c = true) :
    parse (f+1) (c :: rest) = (parse f rest).map (Piece.chr c :: ·) := by
  have h := hc
  simp only [textCharOk, Bool.and_eq_true, bne_iff_ne, ne_eq] at h
  simp only [parse, h.1.1.2, h.1.2, if_false, hc, if_true]

theorem parse_ref (f : Nat) (b rest : PyStr) (hb : refOk b = true) (hb' : b.all (fun x => x != 59) = true) :
    parse (f+1) (38 :: (b ++ 59 :: rest)) = (parse f rest).map (Piece.ref b :: ·) := by
  have h38 : ¬ ((38 : Nat) = 60) := by decide
  simp only [parse, h38, if_false, if_true]
  rw [spanP_stop (fun x => x != 59) b 59 rest hb' (by simp)]
  simp [hb]

/-- the recogniser reads back exactly the pieces that were rendered -/
theorem parse_render (ps : List Piece) (h : piecesLexOk ps = true) :
    ∀ f, ps.length < f → parse f (render ps) = some ps := by
  induction ps with
  | nil =>
    intro f hf
    obtain ⟨f', rfl⟩ : ∃ f', f = f' + 1 := ⟨f - 1, by simp at hf; omega⟩
    simp [render, parse]
  | cons p ps ih =>
    intro f hf
    obtain ⟨f', rfl⟩ : ∃ f', f = f' + 1 := ⟨f - 1, by simp at hf; omega⟩
    simp only [piecesLexOk, List.all_cons, Bool.and_eq_true] at h
    have ih' := ih h.2 f' (by simp at hf; omega)
    have hp := h.1
    cases p with
    | otag n as t =>
      simp only [pieceLexOk, Bool.and_eq_true] at hp
      have := parse_tag f' n as t false (render ps) hp.1.1 hp.1.2 hp.2
      simp only [tagEnd, Bool.false_eq_true, if_false] at this
      simp only [render, renderPiece, List.cons_append, List.append_assoc, List.nil_append]
      rw [this, ih']; rfl
    | etag n as t =>
      simp only [pieceLexOk, Bool.and_eq_true] at hp
      have := parse_tag f' n as t true (render ps) hp.1.1 hp.1.2 hp.2
      simp only [tagEnd, if_true] at this
      simp only [render, renderPiece, List.cons_append, List.append_assoc, List.nil_append]
      rw [this, ih']; rfl
    | ctag n t =>
      simp only [pieceLexOk, Bool.and_eq_true] at hp
      simp only [render, renderPiece, List.cons_append, List.append_assoc, List.nil_append]
      rw [parse_ctag f' n t (render ps) hp.1 hp.2, ih']; rfl
    | chr c =>
      simp only [pieceLexOk] at hp
      simp only [render, renderPiece, List.cons_append, List.nil_append]
      rw [parse_chr f' c (render ps) hp, ih']; rfl
    | ref b =>
      simp only [pieceLexOk, Bool.and_eq_true] at hp
      simp only [render, renderPiece, List.cons_append, List.append_assoc, List.nil_append]
      rw [parse_ref f' b (render ps) hp.1 hp.2, ih']; rfl

theorem length_le_render (ps : List Piece) : ps.length ≤ (render ps).length := by
  induction ps with
  | nil => simp [render]
  | cons p ps ih =>
    have : 1 ≤ (renderPiece p).length := by cases p <;> simp [renderPiece]
    simp [render]; omega

theorem parseDoc_render (ps : List Piece) (h : piecesLexOk ps = true) : parseDoc (render ps) = some ps :=
  parse_render ps h _ (by have := length_le_render ps; omega)

/-- well-formedness of a rendered document is nesting of its pieces -/
theorem wf_render (ps : List Piece) (h : piecesLexOk ps = true) : wf (render ps) = balanced ps [] false := by
  simp [wf, parseDoc_render ps h]

end SkNet.Svg
