/-
Bridge between the list folds of the models (`sumTo`) and `Finset` sums, and the algebraic core of C06:
`delta_move` — the gain expression of the Louvain / Leiden kernels is exactly the change of the generalised
modularity when one node moves to another cluster.
-/
import Mathlib.Algebra.BigOperators.Group.Finset.Basic
import Mathlib.Algebra.BigOperators.Ring.Finset
import Mathlib.Algebra.Order.Field.Rat
import Mathlib.Tactic.Ring
import Mathlib.Tactic.Linarith
import SkNet.Model.Modularity
import SkNet.Model.ModularityOpt
import SkNet.Spec.Modularity

namespace SkNet.Modularity
open Finset

theorem sumTo_eq (n : Nat) (f : Nat → Rat) : sumTo n f = ∑ i ∈ range n, f i := by
  unfold sumTo
  induction n with
  | zero => simp
  | succ k ih => rw [List.range_succ, List.foldl_append, ih, Finset.sum_range_succ]; simp

theorem sumTo_congr {n : Nat} {f g : Nat → Rat} (h : ∀ i, i < n → f i = g i) : sumTo n f = sumTo n g := by
  rw [sumTo_eq, sumTo_eq]
  exact Finset.sum_congr rfl fun i hi => h i (Finset.mem_range.mp hi)

/-- `Q` as a `Finset` double sum -/
theorem Q_eq (n : Nat) (A : Nat → Nat → Rat) (o i_ : Nat → Rat) (γ : Rat) (c : Nat → Nat) :
    Q n A o i_ γ c = ∑ u ∈ range n, ∑ v ∈ range n, if c u = c v then A u v - γ * (o u * i_ v) else 0 := by
  unfold Q
  rw [sumTo_eq]
  exact Finset.sum_congr rfl fun u _ => sumTo_eq n _

/-- volume of cluster `b` for node weights `w` -/
def vol (n : Nat) (w : Nat → Rat) (c : Nat → Nat) (b : Nat) : Rat := ∑ j ∈ range n, if c j = b then w j else 0

/-- weight between node `v` and cluster `b` -/
def link (n : Nat) (A : Nat → Nat → Rat) (c : Nat → Nat) (v : Nat) (b : Nat) : Rat :=
  ∑ j ∈ range n, if c j = b then A v j else 0

private lemma split_at {n : Nat} {v : Nat} (hv : v < n) (g : Nat → Rat) :
    ∑ i ∈ range n, g i = g v + ∑ i ∈ (range n).erase v, g i := by
  rw [Finset.add_sum_erase _ _ (Finset.mem_range.mpr hv)]

/-- **The gain of a move.** For a symmetric `A`, moving node `v` from its cluster to cluster `b ≠ c v` changes
    `Q` by exactly `delta_local − delta` of the kernels:
    `(2·link(v,b) − γ·o_v·vol_i(b) − γ·i_v·vol_o(b)) − (2·(link(v,c v) − A v v) − γ·o_v·(vol_i(c v) − i_v) − γ·i_v·(vol_o(c v) − o_v))`. -/
theorem delta_move (n : Nat) (A : Nat → Nat → Rat) (hA : ∀ i j, i < n → j < n → A i j = A j i)
    (o i_ : Nat → Rat) (γ : Rat) (c : Nat → Nat) (v : Nat) (hv : v < n) (b : Nat) (hb : c v ≠ b) :
    Q n A o i_ γ (Function.update c v b) - Q n A o i_ γ c =
      (2 * link n A c v b - γ * o v * vol n i_ c b - γ * i_ v * vol n o c b)
      - (2 * (link n A c v (c v) - A v v) - γ * o v * (vol n i_ c (c v) - i_ v)
          - γ * i_ v * (vol n o c (c v) - o v)) := by
  have hne : ∀ j ∈ (range n).erase v, Function.update c v b j = c j := by
    intro j hj; exact Function.update_of_ne (ne_of_mem_erase hj) _ _
  have hlt : ∀ j ∈ (range n).erase v, j < n := fun j hj => Finset.mem_range.mp (Finset.mem_of_mem_erase hj)
  rw [Q_eq, Q_eq]
  unfold vol link
  rw [split_at hv (fun i => ∑ j ∈ range n, if Function.update c v b i = Function.update c v b j
        then A i j - γ * (o i * i_ j) else 0),
      split_at hv (fun i => ∑ j ∈ range n, if c i = c j then A i j - γ * (o i * i_ j) else 0)]
  simp only [Function.update_self]
  rw [split_at hv (fun j => if b = Function.update c v b j then A v j - γ * (o v * i_ j) else 0),
      split_at hv (fun j => if c v = c j then A v j - γ * (o v * i_ j) else 0)]
  simp only [Function.update_self, if_true]
  have e1 : ∑ i ∈ (range n).erase v, ∑ j ∈ range n,
        (if Function.update c v b i = Function.update c v b j then A i j - γ * (o i * i_ j) else 0)
      = ∑ i ∈ (range n).erase v, ((if c i = b then A i v - γ * (o i * i_ v) else 0)
          + ∑ j ∈ (range n).erase v, if c i = c j then A i j - γ * (o i * i_ j) else 0) := by
    refine sum_congr rfl fun i hi => ?_
    rw [split_at hv]; simp only [Function.update_self, hne i hi]
    congr 1
    exact sum_congr rfl fun j hj => by rw [hne j hj]
  have e2 : ∑ i ∈ (range n).erase v, ∑ j ∈ range n, (if c i = c j then A i j - γ * (o i * i_ j) else 0)
      = ∑ i ∈ (range n).erase v, ((if c i = c v then A i v - γ * (o i * i_ v) else 0)
          + ∑ j ∈ (range n).erase v, if c i = c j then A i j - γ * (o i * i_ j) else 0) := by
    refine sum_congr rfl fun i _ => ?_
    rw [split_at hv]
  have e3 : ∑ j ∈ (range n).erase v, (if b = Function.update c v b j then A v j - γ * (o v * i_ j) else 0)
      = ∑ j ∈ (range n).erase v, (if c j = b then A v j - γ * (o v * i_ j) else 0) := by
    refine sum_congr rfl fun j hj => ?_
    rw [hne j hj]; simp only [eq_comm]
  rw [e1, e2, e3]
  simp only [sum_add_distrib]
  rw [split_at hv (fun j => if c j = b then A v j else 0), split_at hv (fun j => if c j = b then i_ j else 0),
      split_at hv (fun j => if c j = b then o j else 0), split_at hv (fun j => if c j = c v then A v j else 0),
      split_at hv (fun j => if c j = c v then i_ j else 0), split_at hv (fun j => if c j = c v then o j else 0)]
  simp only [hb, if_false, if_true, zero_add]
  have d1 : ∀ x : ℕ, ∑ j ∈ (range n).erase v, (if c j = x then A v j - γ * (o v * i_ j) else 0)
      = (∑ j ∈ (range n).erase v, if c j = x then A v j else 0)
        - γ * o v * ∑ j ∈ (range n).erase v, if c j = x then i_ j else 0 := by
    intro x; rw [mul_sum, ← sum_sub_distrib]; refine sum_congr rfl fun j _ => ?_; split_ifs <;> ring
  have d2 : ∀ x : ℕ, ∑ i ∈ (range n).erase v, (if c i = x then A i v - γ * (o i * i_ v) else 0)
      = (∑ j ∈ (range n).erase v, if c j = x then A v j else 0)
        - γ * i_ v * ∑ j ∈ (range n).erase v, if c j = x then o j else 0 := by
    intro x; rw [mul_sum, ← sum_sub_distrib]; refine sum_congr rfl fun j hj => ?_
    split_ifs
    · rw [hA j v (hlt j hj) hv]; ring
    · ring
  have d3 : ∑ j ∈ (range n).erase v, (if c v = c j then A v j - γ * (o v * i_ j) else 0)
      = ∑ j ∈ (range n).erase v, (if c j = c v then A v j - γ * (o v * i_ j) else 0) := by
    refine sum_congr rfl fun j _ => ?_; simp only [eq_comm]
  rw [d3, d1, d1, d2, d2]
  ring

end SkNet.Modularity
