/-
Lemmas about the estimator state machines of `SkNet/Model/Estimator.lean` (core only):
sequential composition of conforming implementations conforms to the composed description.
-/
import SkNet.Model.Estimator

namespace SkNet.Estimator

theorem nrm_eq_id {e : Est} {Inp} (sem : Sem e Inp) (hn : e.normalised = []) (a : String) (v : Val) :
    sem.nrm a v = v := by
  apply sem.nrm_id
  simp [Est.normAttrs, hn]

theorem normalise_eq {e : Est} {Inp} (sem : Sem e Inp) (hn : e.normalised = []) (s : Store) :
    sem.normalise s = s := by
  funext a
  exact nrm_eq_id sem hn a (s a)

theorem fit_eq {e : Est} {Inp} (sem : Sem e Inp) (hn : e.normalised = []) (s : Store) (x : Inp) (a : String) :
    sem.fit s x a = if a ∈ sem.wr s x then sem.new s x a else s a := by
  unfold Sem.fit
  simp only [normalise_eq sem hn]

/-- `fit₁` then `fit₂`, as an implementation of the composed description -/
def Sem.seq {e₁ e₂ : Est} {Inp} (sem₁ : Sem e₁ Inp) (sem₂ : Sem e₂ Inp)
    (h₁ : e₁.normalised = []) : Sem (e₁.seq e₂) Inp where
  nrm := fun _ v => v
  nrm_idem := fun _ _ => rfl
  nrm_id := fun _ _ _ => rfl
  wr := fun s x => sem₁.wr s x ++ sem₂.wr (sem₁.fit s x) x
  new := fun s x a =>
    if a ∈ sem₂.wr (sem₁.fit s x) x then sem₂.new (sem₁.fit s x) x a else sem₁.new s x a
  wr_may := by
    intro s x a ha
    simp only [Est.seq, List.mem_append] at ha ⊢
    rcases ha with ha | ha
    · exact Or.inl (sem₁.wr_may _ _ _ ha)
    · exact Or.inr (sem₂.wr_may _ _ _ ha)
  wr_must := by
    intro s x a ha
    simp only [Est.seq, List.mem_append] at ha ⊢
    rcases ha with ha | ha
    · exact Or.inl (sem₁.wr_must _ _ _ ha)
    · exact Or.inr (sem₂.wr_must _ _ _ ha)
  frame := by
    intro s s' x hag
    have hag₁ : ∀ a, a ∈ e₁.readsFirst → s a = s' a := by
      intro a ha
      exact hag a (by simp [Est.seq, ha])
    obtain ⟨hwr₁, hnew₁⟩ := sem₁.frame s s' x hag₁
    -- the stores after the first phase agree on whatever the second phase reads first
    have hmid : ∀ a, a ∈ e₂.readsFirst → sem₁.fit s x a = sem₁.fit s' x a := by
      intro a ha
      rw [fit_eq sem₁ h₁, fit_eq sem₁ h₁, ← hwr₁]
      by_cases hin : a ∈ sem₁.wr s x
      · simp only [hin, if_true]
        exact hnew₁ a hin
      · simp only [hin, if_false]
        apply hag a
        have hnm : a ∉ e₁.mustWrite := fun hm => hin (sem₁.wr_must _ _ _ hm)
        simp [Est.seq, ha, hnm]
    obtain ⟨hwr₂, hnew₂⟩ := sem₂.frame (sem₁.fit s x) (sem₁.fit s' x) x hmid
    refine ⟨by rw [hwr₁, hwr₂], ?_⟩
    intro a ha
    show (if a ∈ sem₂.wr (sem₁.fit s x) x then sem₂.new (sem₁.fit s x) x a else sem₁.new s x a) =
      (if a ∈ sem₂.wr (sem₁.fit s' x) x then sem₂.new (sem₁.fit s' x) x a else sem₁.new s' x a)
    rw [← hwr₂]
    by_cases hin₂ : a ∈ sem₂.wr (sem₁.fit s x) x
    · simp only [hin₂, if_true]
      exact hnew₂ a hin₂
    · simp only [hin₂, if_false]
      have : a ∈ sem₁.wr s x := by
        rcases List.mem_append.mp ha with h | h
        · exact h
        · exact absurd h hin₂
      exact hnew₁ a this

/-- the composed implementation *is* `fit₂ ∘ fit₁` -/
theorem Sem.seq_fit {e₁ e₂ : Est} {Inp} (sem₁ : Sem e₁ Inp) (sem₂ : Sem e₂ Inp)
    (h₁ : e₁.normalised = []) (h₂ : e₂.normalised = []) (s : Store) (x : Inp) :
    (sem₁.seq sem₂ h₁).fit s x = sem₂.fit (sem₁.fit s x) x := by
  funext a
  have hn : (e₁.seq e₂).normalised = [] := rfl
  rw [fit_eq (sem₁.seq sem₂ h₁) hn, fit_eq sem₂ h₂]
  simp only [Sem.seq, List.mem_append]
  by_cases hin₂ : a ∈ sem₂.wr (sem₁.fit s x) x
  · simp [hin₂]
  · by_cases hin₁ : a ∈ sem₁.wr s x
    · simp [hin₂, hin₁, fit_eq sem₁ h₁]
    · simp [hin₂, hin₁, fit_eq sem₁ h₁]

end SkNet.Estimator
