/-
Lemmas about the estimator state machines of `SkNet/Model/Estimator.lean` (core only):
sequential composition of conforming implementations conforms to the composed description.
-/
import SkNet.Model.Estimator

namespace SkNet.Estimator

theorem nrm_eq_id {e : Est} {Inp} (sem : Sem e Inp) (hn : e.normalised = []) (a : String) (v : Val) :
    sem.nrm a v = v := by
  apply sem.nrm_id
  simp [Est.normAttrs, hn]

theorem normalise_eq {e : Est} {Inp} (sem : Sem e Inp) (hn : e.normalised = []) (s : Store) :
    sem.normalise s = s := by
  funext a
  exact nrm_eq_id sem hn a (s a)

theorem fit_eq {e : Est} {Inp} (sem : Sem e Inp) (hn : e.normalised = []) (s : Store) (x : Inp) (a : String) :
    sem.fit s x a = if a ∈ sem.wr s x then sem.new s x a else s a := by
  unfold Sem.fit
  simp only [normalise_eq sem hn]

/-- `fit₁` then `fit₂`, as an implementation of the composed description -/
def Sem.seq {e₁ e₂ : Est} {Inp} (sem₁ : Sem e₁ Inp) (sem₂ : Sem e₂ Inp)
    (h₁ : e₁.normalised = []) : Sem (e₁.seq e₂) Inp where
  nrm := fun _ v => v
  nrm_idem := fun _ _ => rfl
  nrm_id := fun _ _ _ => rfl
  wr := fun s x => sem₁.wr s x ++ sem₂.wr (sem₁.fit s x) x
  new := fun s x a =>
    if a ∈ sem₂.wr (sem₁.fit s x) x then sem₂.new (sem₁.fit s x) x a else sem₁.new s x a
  wr_may := by
    intro s x a ha
    simp only [Est.seq, List.mem_append] at ha ⊢
    rcases ha with ha | ha
    · exact Or.inl (sem₁.wr_may _ _ _ ha)
    · exact Or.inr (sem₂.wr_may _ _ _ ha)
  wr_must := by
    intro s x a ha
    simp only [Est.seq, List.mem_append] at ha ⊢
    rcases ha with ha | ha
    · exact Or.inl (sem₁.wr_must _ _ _ ha)
    · exact Or.inr (sem₂.wr_must _ _ _ ha)
  frame := by
    intro s s' x hag
    have hag₁ : ∀ a, a ∈ e₁.readsFirst → s a = s' a := by
      intro a ha
      exact hag a (by simp [Est.seq, ha])
    obtain ⟨hwr₁, hnew₁⟩ := sem₁.frame s s' x hag₁
    -- the stores after the first phase agree on whatever the second phase reads first
    have hmid : ∀ a, a ∈ e₂.readsFirst → sem₁.fit s x a = sem₁.fit s' x a := by
      intro a ha
      rw [fit_eq sem₁ h₁, fit_eq sem₁ h₁, ← hwr₁]
      by_cases hin : a ∈ sem₁.wr s x
      · simp only [hin, if_true]
        exact hnew₁ a hin
      · simp only [hin, if_false]
        apply hag a
        have hnm : a ∉ e₁.mustWrite := fun hm => hin (sem₁.wr_must _ _ _ hm)
        simp [Est.seq, ha, hnm]
    obtain ⟨hwr₂, hnew₂⟩ := sem₂.frame (sem₁.fit s x) (sem₁.fit s' x) x hmid
    refine ⟨by rw [hwr₁, hwr₂], ?_⟩
    intro a ha
    show (if a ∈ sem₂.wr (sem₁.fit s x) x then sem₂.new (sem₁.fit s x) x a else sem₁.new s x a) =
      (if a ∈ sem₂.wr (sem₁.fit s' x) x then sem₂.new (sem₁.fit s' x) x a else sem₁.new s' x a)
    rw [← hwr₂]
    by_cases hin₂ : a ∈ sem₂.wr (sem₁.fit s x) x
    · simp only [hin₂, if_true]
      exact hnew₂ a hin₂
    · simp only [hin₂, if_false]
      have : a ∈ sem₁.wr s x := by
        rcases List.mem_append.mp ha with h | h
        · exact h
        · exact absurd h hin₂
      exact hnew₁ a this

/-- the composed implementation *is* `fit₂ ∘ fit₁` -/
theorem Sem.seq_fit {e₁ e₂ : Est} {Inp} (sem₁ : Sem e₁ Inp) (sem₂ : Sem e₂ Inp)
    (h₁ : e₁.normalised = []) (h₂ : e₂.normalised = []) (s : Store) (x : Inp) :
    (sem₁.seq sem₂ h₁).fit s x = sem₂.fit (sem₁.fit s x) x := by
  funext a
  have hn : (e₁.seq e₂).normalised = [] := rfl
  rw [fit_eq (sem₁.seq sem₂ h₁) hn, fit_eq sem₂ h₂]
  simp only [Sem.seq, List.mem_append]
  by_cases hin₂ : a ∈ sem₂.wr (sem₁.fit s x) x
  · simp [hin₂]
  · by_cases hin₁ : a ∈ sem₁.wr s x
    · simp [hin₂, hin₁, fit_eq sem₁ h₁]
    · simp [hin₂, hin₁, fit_eq sem₁ h₁]

/-! ### the invariant of a history -/

section History
variable {Inp : Type}

theorem fit_outside (e : Est) (sem : Sem e Inp) (s : Store) (x : Inp) (a : String) (ha : a ∉ e.mayWrite) :
    sem.fit s x a = sem.nrm a (s a) := by
  unfold Sem.fit
  have : a ∉ sem.wr (sem.normalise s) x := fun h => ha (sem.wr_may _ _ _ h)
  simp [this, Sem.normalise]

theorem mem_setable (e : Est) (a : String) (h : a ∈ e.setable) : a ∉ e.mayWrite := by
  unfold Est.setable at h
  rw [List.mem_filterMap] at h
  obtain ⟨⟨b, k⟩, _, hk⟩ := h
  cases k <;> simp at hk
  obtain ⟨h1, rfl⟩ := hk
  exact h1

/-- the invariant of a history: outside what `fit` may assign, the object is (up to the idempotent normalisation)
    the fresh object of the current parameters -/
def HInv (e : Est) (sem : Sem e Inp) (c0 : Store) (s p : Store) : Prop :=
  ∀ a, a ∉ e.mayWrite → sem.nrm a (s a) = sem.nrm a (e.fresh c0 p a)

theorem hinv_apply (e : Est) (sem : Sem e Inp) (c0 s p : Store) (op : Op Inp) (hop : op.wf e)
    (h : HInv e sem c0 s p) : HInv e sem c0 (sem.apply s op) (paramsAfter p [op]) := by
  intro a ha
  cases op with
  | fit x =>
    simp only [Sem.apply, paramsAfter, List.foldl_cons, List.foldl_nil]
    rw [fit_outside e sem s x a ha, sem.nrm_idem]
    exact h a ha
  | setParam b v =>
    simp only [Sem.apply, paramsAfter, List.foldl_cons, List.foldl_nil]
    have hb : b ∈ e.setable := hop
    by_cases hab : a = b
    · subst hab
      simp [Est.fresh, hb]
    · have := h a ha
      simp only [hab, if_false]
      unfold Est.fresh at this ⊢
      simpa [hab] using this
  | fitRaise x ws vals =>
    simp only [Sem.apply, paramsAfter, List.foldl_cons, List.foldl_nil]
    have hws : a ∉ ws := fun hin => ha (hop a hin)
    simp only [hws, if_false]
    exact h a ha

theorem paramsAfter_cons (p : Store) (op : Op Inp) (ops : List (Op Inp)) :
    paramsAfter p (op :: ops) = paramsAfter (paramsAfter p [op]) ops := by
  simp [paramsAfter]

theorem hinv_run (e : Est) (sem : Sem e Inp) (c0 : Store) (ops : List (Op Inp)) (hops : ∀ op ∈ ops, op.wf e)
    (s p : Store) (h : HInv e sem c0 s p) : HInv e sem c0 (sem.run s ops) (paramsAfter p ops) := by
  induction ops generalizing s p with
  | nil => simpa [Sem.run, paramsAfter] using h
  | cons op ops ih =>
    have h1 := hinv_apply e sem c0 s p op (hops op (by simp)) h
    have := ih (fun o ho => hops o (by simp [ho])) _ _ h1
    rw [paramsAfter_cons]
    simpa [Sem.run] using this

end History

/-! ### `check_random_state`: branch-table lemmas -/

theorem testHolds_int (t : String) (s s' : Int) : testHolds t (.int s) = testHolds t (.int s') := by
  unfold testHolds
  split
  · rfl
  · split
    · rfl
    · split
      · rfl
      · rfl

/-- the only branch result compatible with what `crsOK` demands for the seed 7 -/
theorem branchResult_int (r : String) (w0 : World)
    (h : match branchResult r (.int 7) w0 with
      | some (.ok (g, w')) => (g.id == w0.next && g.state == seedState 7 && w'.globalState == w0.globalState) = true
      | _ => False)
    (hw : w0 = { globalState := 5, next := 3, entropy := 9 }) :
    ∀ (s : Int) (w : World), 0 ≤ s ∧ s < 4294967296 → branchResult r (.int s) w =
      some (.ok ({ id := w.next, state := seedState s }, { w with next := w.next + 1 })) := by
  subst hw
  intro s w hs
  unfold branchResult at h ⊢
  by_cases h1 : (r == "entropy") = true
  · simp only [h1, if_true] at h
    simp [seedState] at h
  · simp only [h1] at h ⊢
    by_cases h2 : (r == "seeded") = true
    · simp [h2, hs]
    · simp only [h2] at h ⊢
      by_cases h3 : (r == "same") = true
      · simp [h3] at h
      · simp only [h3] at h
        by_cases h4 : (r == "global") = true
        · simp only [h4, if_true] at h
          simp at h
        · simp only [h4] at h
          by_cases h5 : (r == "raise:TypeError") = true
          · simp [h5] at h
          · simp only [h5] at h
            by_cases h6 : (r == "raise:ValueError") = true
            · simp [h6] at h
            · simp [h6] at h

/-- what `crsOK` demands of the int branch, as a proposition -/
def IntGoal (b : List (String × String)) : Prop :=
  match checkRandomState b (.int 7) { globalState := 5, next := 3, entropy := 9 } with
  | some (.ok (g, w')) => (g.id == 3 && g.state == seedState 7 && w'.globalState == 5) = true
  | _ => False

theorem crs_int (b : List (String × String)) (h : IntGoal b) (s : Int) (w : World)
    (hs : 0 ≤ s ∧ s < 4294967296) :
    checkRandomState b (.int s) w =
      some (.ok ({ id := w.next, state := seedState s }, { w with next := w.next + 1 })) := by
  induction b with
  | nil =>
    unfold IntGoal checkRandomState at h
    simp at h
  | cons br rest ih =>
    obtain ⟨t, r⟩ := br
    unfold IntGoal at h
    unfold checkRandomState at h ⊢
    rw [testHolds_int t s 7]
    cases hth : testHolds t (.int 7) with
    | none => simp [hth] at h
    | some bv =>
      cases bv with
      | true =>
        simp only [hth] at h ⊢
        exact branchResult_int r _ h rfl s w hs
      | false =>
        simp only [hth] at h ⊢
        exact ih h

/-- what `crsOK` demands of the `None` branch, as a proposition -/
def NoneGoal (b : List (String × String)) : Prop :=
  match checkRandomState b .none { globalState := 5, next := 3, entropy := 9 } with
  | some (.ok (g, _)) => (g.id != 0) = true
  | _ => False

theorem branchResult_none (r : String) (w0 : World)
    (h : match branchResult r .none w0 with
      | some (.ok (g, _)) => (g.id != 0) = true
      | _ => False)
    (hw : w0 = { globalState := 5, next := 3, entropy := 9 }) :
    ∀ (w : World), 0 < w.next → ∃ g w', branchResult r .none w = some (.ok (g, w')) ∧ g.id ≠ 0 := by
  subst hw
  intro w hwn
  unfold branchResult at h ⊢
  by_cases h1 : (r == "entropy") = true
  · simp only [h1, if_true]
    exact ⟨_, _, rfl, by simp; omega⟩
  · simp only [h1] at h ⊢
    by_cases h2 : (r == "seeded") = true
    · simp [h2] at h
    · simp only [h2] at h ⊢
      by_cases h3 : (r == "same") = true
      · simp [h3] at h
      · simp only [h3] at h ⊢
        by_cases h4 : (r == "global") = true
        · simp [h4] at h
        · simp only [h4] at h ⊢
          by_cases h5 : (r == "raise:TypeError") = true
          · simp [h5] at h
          · simp only [h5] at h
            by_cases h6 : (r == "raise:ValueError") = true
            · simp [h6] at h
            · simp [h6] at h

/-- what `crsOK` demands of the instance branch -/
def InstGoal (b : List (String × String)) : Prop :=
  match checkRandomState b (.inst ⟨1, 4⟩) { globalState := 5, next := 3, entropy := 9 } with
  | some (.ok (g, w')) => (g == ⟨1, 4⟩ && w' == { globalState := 5, next := 3, entropy := 9 }) = true
  | _ => False

theorem testHolds_inst (t : String) (g g' : Gen) : testHolds t (.inst g) = testHolds t (.inst g') := by
  unfold testHolds
  split
  · rfl
  · split
    · rfl
    · split
      · rfl
      · rfl

theorem branchResult_inst (r : String) (w0 : World)
    (h : match branchResult r (.inst ⟨1, 4⟩) w0 with
      | some (.ok (g, w')) => (g == ⟨1, 4⟩ && w' == w0) = true
      | _ => False)
    (hw : w0 = { globalState := 5, next := 3, entropy := 9 }) :
    ∀ (g : Gen) (w : World), branchResult r (.inst g) w = some (.ok (g, w)) := by
  subst hw
  intro g w
  unfold branchResult at h ⊢
  by_cases h1 : (r == "entropy") = true
  · simp only [h1, if_true] at h
    simp at h
  · simp only [h1] at h ⊢
    by_cases h2 : (r == "seeded") = true
    · simp [h2] at h
    · simp only [h2] at h ⊢
      by_cases h3 : (r == "same") = true
      · simp [h3]
      · simp only [h3] at h ⊢
        by_cases h4 : (r == "global") = true
        · simp only [h4, if_true] at h
          simp at h
        · simp only [h4] at h
          by_cases h5 : (r == "raise:TypeError") = true
          · simp [h5] at h
          · simp only [h5] at h
            by_cases h6 : (r == "raise:ValueError") = true
            · simp [h6] at h
            · simp [h6] at h

theorem crs_inst (b : List (String × String)) (h : InstGoal b) (g : Gen) (w : World) :
    checkRandomState b (.inst g) w = some (.ok (g, w)) := by
  induction b with
  | nil =>
    unfold InstGoal checkRandomState at h
    simp at h
  | cons br rest ih =>
    obtain ⟨t, r⟩ := br
    unfold InstGoal at h
    unfold checkRandomState at h ⊢
    rw [testHolds_inst t g ⟨1, 4⟩]
    cases hth : testHolds t (.inst ⟨1, 4⟩) with
    | none => simp [hth] at h
    | some bv =>
      cases bv with
      | true =>
        simp only [hth] at h ⊢
        exact branchResult_inst r _ h rfl g w
      | false =>
        simp only [hth] at h ⊢
        exact ih h

theorem historyOK_coreOK (tbl : List Est) (fuel : Nat) (e : Est) (h : e.historyOK tbl fuel = true) :
    e.coreOK = true := by
  cases fuel with
  | zero => simp [Est.historyOK] at h
  | succ n =>
    unfold Est.historyOK at h
    simp only [Bool.and_eq_true] at h
    exact h.1.1.2

end SkNet.Estimator

namespace SkNet.Estimator

/-! ### tightness of `coreOK`: a rejected description has a history-dependent conforming implementation -/

/-- an implementation that assigns `mustWrite` always and the attribute `a` only on the input `true` -/
def staleSem (e : Est) (a : String) (hwf : ∀ b, b ∈ e.mustWrite → b ∈ e.mayWrite) (ha : a ∈ e.mayWrite) :
    Sem e Bool where
  nrm := fun _ v => v
  nrm_idem := fun _ _ => rfl
  nrm_id := fun _ _ _ => rfl
  wr := fun _ x => e.mustWrite ++ (if x then [a] else [])
  new := fun _ _ _ => 1
  wr_may := by
    intro s x b hb
    rcases List.mem_append.mp hb with h | h
    · exact hwf b h
    · cases x
      · simp at h
      · simp only [if_true, List.mem_cons, List.not_mem_nil, or_false] at h
        subst h; exact ha
  wr_must := by
    intro s x b hb
    exact List.mem_append.mpr (Or.inl hb)
  frame := by
    intro s s' x _
    exact ⟨rfl, fun _ _ => rfl⟩

theorem stale_witness (e : Est) (a : String) (hwf : ∀ b, b ∈ e.mustWrite → b ∈ e.mayWrite)
    (ha : a ∈ e.mayWrite) (hnm : a ∉ e.mustWrite) :
    let sem := staleSem e a hwf ha
    sem.fit (sem.run (e.fresh (fun _ => 0) (fun _ => 0)) [.fit true]) false a ≠
      sem.fit (e.fresh (fun _ => 0) (fun _ => 0)) false a := by
  intro sem
  have hfresh : ∀ b, e.fresh (fun _ => 0) (fun _ => 0) b = 0 := by
    intro b; unfold Est.fresh; split <;> rfl
  have h1 : sem.fit (e.fresh (fun _ => 0) (fun _ => 0)) false a = 0 := by
    unfold Sem.fit Sem.normalise
    simp [sem, staleSem, hnm, hfresh]
  have h2 : sem.fit (sem.run (e.fresh (fun _ => 0) (fun _ => 0)) [.fit true]) false a = 1 := by
    unfold Sem.run
    simp only [List.foldl_cons, List.foldl_nil, Sem.apply]
    unfold Sem.fit Sem.normalise
    simp [sem, staleSem, hnm]
  rw [h1, h2]
  decide

/-- an implementation that assigns `mustWrite` and `a` always, `a` being one more than it was -/
def counterSem (e : Est) (a : String) (hwf : ∀ b, b ∈ e.mustWrite → b ∈ e.mayWrite) (ha : a ∈ e.mayWrite)
    (hr : a ∈ e.readsFirst) : Sem e Unit where
  nrm := fun _ v => v
  nrm_idem := fun _ _ => rfl
  nrm_id := fun _ _ _ => rfl
  wr := fun _ _ => e.mustWrite ++ [a]
  new := fun s _ b => if b = a then s a + 1 else 0
  wr_may := by
    intro s x b hb
    rcases List.mem_append.mp hb with h | h
    · exact hwf b h
    · simp only [List.mem_cons, List.not_mem_nil, or_false] at h
      subst h; exact ha
  wr_must := by
    intro s x b hb
    exact List.mem_append.mpr (Or.inl hb)
  frame := by
    intro s s' x hag
    refine ⟨rfl, ?_⟩
    intro b _
    show (if b = a then s a + 1 else 0) = (if b = a then s' a + 1 else 0)
    rw [hag a hr]

theorem counter_witness (e : Est) (a : String) (hwf : ∀ b, b ∈ e.mustWrite → b ∈ e.mayWrite)
    (ha : a ∈ e.mayWrite) (hr : a ∈ e.readsFirst) :
    let sem := counterSem e a hwf ha hr
    sem.fit (sem.run (e.fresh (fun _ => 0) (fun _ => 0)) [.fit ()]) () a ≠
      sem.fit (e.fresh (fun _ => 0) (fun _ => 0)) () a := by
  intro sem
  have hfresh : ∀ b, e.fresh (fun _ => 0) (fun _ => 0) b = 0 := by
    intro b; unfold Est.fresh; split <;> rfl
  have h1 : sem.fit (e.fresh (fun _ => 0) (fun _ => 0)) () a = 1 := by
    unfold Sem.fit Sem.normalise
    simp [sem, counterSem, hfresh]
  have h2 : sem.fit (sem.run (e.fresh (fun _ => 0) (fun _ => 0)) [.fit ()]) () a = 2 := by
    unfold Sem.run
    simp only [List.foldl_cons, List.foldl_nil, Sem.apply]
    unfold Sem.fit Sem.normalise
    simp [sem, counterSem, hfresh]
  rw [h1, h2]
  decide

end SkNet.Estimator

namespace SkNet.Estimator

/-! ### random sources -/

theorem draw_ok_indep (stream : Val → Nat → Val) (s : Store) (g ent ent' : Val) (r : Rng) (hr : r.ok = true) (k : Nat) :
    r.draw stream s g ent k = r.draw stream s g ent' k := by
  cases r <;> simp [Rng.ok] at hr <;> rfl

theorem draws_indep (e : Est) (hok : e.rng.all Rng.ok = true) (stream : Val → Nat → Val) (s : Store) (g ent ent' : Val) :
    RSem.draws e stream s g ent = RSem.draws e stream s g ent' := by
  funext i k
  unfold RSem.draws
  cases hr : e.rng[i]? with
  | none => rfl
  | some r =>
    have hmem : r ∈ e.rng := List.mem_of_getElem? hr
    exact draw_ok_indep stream s g ent ent' r (List.all_eq_true.mp hok r hmem) k

/-- a source that the caller cannot control really can change the draws -/
theorem draw_entropy_dep (r : Rng) (hr : r.ok = false) (hinit : ∀ a, r ≠ .atInit a) :
    r.draw (fun seed _ => seed) (fun _ => 0) 0 1 0 ≠ r.draw (fun seed _ => seed) (fun _ => 0) 0 2 0 := by
  cases r <;> simp [Rng.ok] at hr
  · exact absurd rfl (hinit _)
  · simp [Rng.draw]
  · simp [Rng.draw]

/-! ### `set_params` on a derived parameter: the full statement is false -/

/-- conforming implementation of `derivedParamShape`: the label is the value of `modularity` as `fit` finds it -/
def derivedSem : Sem derivedParamShape Unit where
  nrm := fun _ v => v
  nrm_idem := fun _ _ => rfl
  nrm_id := fun _ _ _ => rfl
  wr := fun _ _ => ["labels_"]
  new := fun s _ => fun _ => s "modularity"
  wr_may := by intro s x a h; simpa [derivedParamShape] using h
  wr_must := by intro s x a h; simpa [derivedParamShape] using h
  frame := by
    intro s s' x h
    refine ⟨rfl, ?_⟩
    intro a _
    exact h "modularity" (by simp [derivedParamShape])

end SkNet.Estimator
