/-
A whole network on `n` nodes given by functions (one configuration, weight, bias and adjacency per layer), in the
shape `GNNClassifier.forward` consumes.
-/
import SkNet.Lemmas.GnnEquiv

namespace SkNet.Gnn
open SkNet Mat Finset

/-- one layer of a network on `n` nodes, given by functions: configuration, output channels, weight, bias and the
(possibly sampled) adjacency this layer uses -/
structure LayerFn where
  cfg : LayerCfg
  c : Nat
  w : Nat → Nat → ℝ
  b : Option (List ℝ)
  a : Nat → Nat → ℝ

/-- the layers as `GNNClassifier` holds them: the weight of a layer has as many rows as its input has columns;
`ren` renumbers the nodes of every adjacency -/
noncomputable def buildLayers (n : Nat) (ren : Nat → Nat) : Nat → List LayerFn → List (Layer ℝ × Mat ℝ)
  | _, [] => []
  | d, l :: ls =>
    ({ cfg := l.cfg, W := mk' d l.c l.w, b := l.b }, mk' n n fun i j => l.a (ren i) (ren j)) :: buildLayers n ren l.c ls

end SkNet.Gnn
