/- The aggregate graph built by `_instantiate_vars` satisfies the invariant of the replay. -/
import SkNet.Lemmas.Dasgupta

set_option linter.unusedSimpArgs false

namespace SkNet.HMetrics
open SkNet SkNet.Dendro SkNet.Agg

theorem sumR_tab (n : Nat) (f : Nat → ℚ) : sumR (tab n f) = S (List.range n) f := by
  rw [sumR_eq_sum]; rfl

/-- the matrix is exactly `n × n` -/
def Square (n : Nat) (a : Mat) : Prop := a.length = n ∧ ∀ r ∈ a, r.length = n

theorem list_eq_tab {β : Type} (l : List β) (d : β) : l = tab l.length fun i => l.getD i d := by
  apply List.ext_getElem
  · simp
  · intro i h1 h2
    simp [tab, h1, List.getD_eq_getElem?_getD]

theorem total_square {n : Nat} {a : Mat} (h : Square n a) :
    a.total = S (List.range n) (fun i => S (List.range n) (fun j => a.get i j)) := by
  unfold Mat.total
  have h1 : a.map sumR = tab n (fun i => S (List.range n) (fun j => a.get i j)) := by
    apply List.ext_getElem
    · simp [h.1]
    · intro i hi1 hi2
      simp only [List.length_map] at hi1
      have hr : a[i].length = n := h.2 _ (List.getElem_mem hi1)
      simp only [List.getElem_map, tab, List.getElem_range]
      rw [list_eq_tab a[i] 0, sumR_tab, hr]
      apply S_congr
      intro j _
      simp [Mat.get, List.getD_eq_getElem?_getD, hi1]
  rw [h1, sumR_tab]

theorem symmetrize_get (n : Nat) (a : Mat) (i j : Nat) :
    (symmetrize n a).get i j = if i < n ∧ j < n then a.get i j + a.get j i else 0 := by
  unfold symmetrize Mat.get
  simp only [tab_getD]
  by_cases hi : i < n
  · simp only [hi, if_true, tab_getD, true_and]
  · simp [hi]

theorem symmetrize_square (n : Nat) (a : Mat) : Square n (symmetrize n a) := by
  refine ⟨by simp [symmetrize], ?_⟩
  intro r hr
  simp only [symmetrize, tab, List.mem_map, List.mem_range] at hr
  obtain ⟨i, _, rfl⟩ := hr
  simp

/-- a dict built by successive `d[k] = d.get(k, 0) + v` over distinct fresh keys is the list of the pairs -/
theorem foldl_set_eq : ∀ (l : List (Nat × ℚ)) (d : Dict ℚ), (l.map (·.1)).Nodup →
    (∀ p ∈ l, p.1 ∉ Dict.keys d) → l.foldl (fun d p => d.set p.1 ((d.get? p.1).getD 0 + p.2)) d = d ++ l := by
  intro l
  induction l with
  | nil => intro d _ _; simp
  | cons p ps ih =>
    intro d hnd hfresh
    have hnd' : p.1 ∉ ps.map (·.1) ∧ (ps.map (·.1)).Nodup := by
      rw [List.map_cons] at hnd; exact List.nodup_cons.mp hnd
    have hnone : d.get? p.1 = none := (Dict.get?_eq_none_iff _ _).mpr (hfresh p List.mem_cons_self)
    rw [List.foldl_cons, hnone, Option.getD_none, zero_add, Dict.set_of_not_mem (hfresh p List.mem_cons_self)]
    rw [ih _ hnd'.2]
    · simp
    · intro q hq
      simp only [Dict.keys, List.map_append, List.map_cons, List.map_nil, List.mem_append, List.mem_cons,
        List.not_mem_nil, or_false, not_or]
      refine ⟨hfresh q (List.mem_cons_of_mem _ hq), ?_⟩
      intro e
      exact hnd'.1 (List.mem_map.mpr ⟨q, hq, e⟩)

theorem get?_filter_map_range (n : Nat) (p : Nat → Bool) (f : Nat → ℚ) (y : Nat) :
    Dict.get? (((List.range n).filter p).map fun j => (j, f j)) y =
      if y < n ∧ p y = true then some (f y) else none := by
  induction n with
  | zero => simp
  | succ n ih =>
    rw [List.range_succ, List.filter_append, List.map_append, Hier.get?_append, ih]
    by_cases h : y < n ∧ p y = true
    · have : y < n + 1 ∧ p y = true := ⟨by omega, h.2⟩
      simp [h, this]
    · simp only [h, if_false]
      by_cases hp : p n = true
      · simp only [List.filter_cons, hp, if_true, List.filter_nil, List.map_cons, List.map_nil, Dict.get?_cons,
          Dict.get?_nil]
        by_cases e : n = y
        · subst e
          simp [hp]
        · have : ¬ (y < n + 1 ∧ p y = true) := by
            intro hh; exact h ⟨by omega, hh.2⟩
          simp [e, this]
      · simp only [List.filter_cons, hp, if_false, List.filter_nil, List.map_nil, Dict.get?_nil, Bool.false_eq_true]
        have : ¬ (y < n + 1 ∧ p y = true) := by
          intro hh
          by_cases e : y = n
          · subst e; exact hp hh.2
          · exact h ⟨by omega, hh.2⟩
        simp [this]


theorem get?_map_range_none {β : Type} (F : Nat → β) (n x : Nat) (hx : ¬ x < n) :
    Dict.get? ((List.range n).map fun i => (i, F i)) x = none := by
  rw [Dict.get?_eq_none_iff]
  simp [Dict.keys, Function.comp_def]; omega

/-! ### the initial aggregate graph -/

section init
variable (degree : Bool) (n : Nat) (a : Mat)

/-- row `x` of the initial dict of dicts -/
theorem init_row (x : Nat) :
    row (instantiate degree n a).nb x =
      if x < n then
        ((List.range n).filter fun j => (symmetrize n a).get x j != 0).map
          fun j => (j, (symmetrize n a).get x j / (symmetrize n a).total)
      else [] := by
  unfold row instantiate AggGraph.init
  simp only [tab_length]
  by_cases hx : x < n
  · rw [Hier.get?_map_range _ n x hx]
    simp only [hx, if_true, Option.getD_some, tab_getD]
    rw [foldl_set_eq _ [] ?_ (by intro p _; simp [Dict.keys])]
    · simp
    · rw [List.map_map]
      have : ((fun p : Nat × ℚ => p.1) ∘ fun j => (j, (symmetrize n a).get x j / (symmetrize n a).total)) = id := by
        funext j; rfl
      rw [this, List.map_id]
      exact List.nodup_range.filter _
  · simp only [hx, if_false]
    rw [get?_map_range_none _ n x hx]; rfl

theorem init_W (x y : Nat) :
    getEntry (instantiate degree n a).nb x y =
      if x < n ∧ y < n then (symmetrize n a).get x y / (symmetrize n a).total else 0 := by
  unfold getEntry
  rw [init_row]
  by_cases hx : x < n
  · simp only [hx, if_true, true_and, get?_filter_map_range]
    by_cases hy : y < n
    · by_cases hs : (symmetrize n a).get x y = 0
      · simp [hy, hs]
      · simp [hy, hs]
    · simp [hy]
  · simp [hx]

theorem init_K (x y : Nat) :
    K (instantiate degree n a).nb x y = decide (x < n ∧ y < n ∧ (symmetrize n a).get x y ≠ 0) := by
  unfold K Dict.contains
  rw [init_row]
  by_cases hx : x < n
  · simp only [hx, if_true, true_and, get?_filter_map_range]
    by_cases hy : y < n
    · by_cases hs : (symmetrize n a).get x y = 0
      · simp [hy, hs]
      · simp [hy, hs]
    · simp [hy]
  · simp [hx]

end init


/-! ### sums -/

theorem S_div (l : List Nat) (f : Nat → ℚ) (c : ℚ) : S l (fun x => f x / c) = S l f / c := by
  induction l with
  | nil => simp [S]
  | cons a as ih => rw [S_cons, S_cons, ih]; ring

theorem S_le {l : List Nat} {f g : Nat → ℚ} (h : ∀ x ∈ l, f x ≤ g x) : S l f ≤ S l g := by
  induction l with
  | nil => simp [S]
  | cons a as ih =>
    rw [S_cons, S_cons]
    have := h a List.mem_cons_self
    have := ih (fun x hx => h x (List.mem_cons_of_mem _ hx))
    linarith

theorem S_zero (l : List Nat) : S l (fun _ => 0) = 0 := by
  induction l with
  | nil => rfl
  | cons a as ih => rw [S_cons, ih]; ring

theorem S_comm (l m : List Nat) (f : Nat → Nat → ℚ) :
    S l (fun x => S m (fun y => f x y)) = S m (fun y => S l (fun x => f x y)) := by
  induction l with
  | nil => simp only [S_nil]; rw [S_zero]
  | cons a as ih => simp only [S_cons]; rw [ih, S_add]

theorem S_const (n : Nat) (c : ℚ) : S (List.range n) (fun _ => c) = n * c := by
  induction n with
  | zero => simp [S]
  | succ n ih => rw [List.range_succ, S_append, ih, S_cons, S_nil]; push_cast; ring

theorem sumD_map_range (n : Nat) (f : Nat → ℚ) : sumD ((List.range n).map fun i => (i, f i)) = S (List.range n) f := by
  simp [sumD, S, Function.comp_def]

theorem probsRow_getD (degree : Bool) (n : Nat) (a : Mat) (x : Nat) (hx : x < n) :
    (probsRow degree n a).getD x 0 =
      if degree = true then S (List.range n) (fun j => a.get x j) / a.total else 1 / (n : ℚ) := by
  unfold probsRow
  cases degree with
  | false => simp only [Bool.false_eq_true, if_false]; rw [tab_getD]; simp [hx]
  | true =>
    simp only [if_true]
    rw [List.getD_eq_getElem?_getD, List.getElem?_map, tab_getElem?]
    simp only [hx, if_true, Option.map_some, Option.getD_some, sumR_tab]

theorem probsCol_getD (degree : Bool) (n : Nat) (a : Mat) (x : Nat) (hx : x < n) :
    (probsCol degree n a).getD x 0 =
      if degree = true then S (List.range n) (fun i => a.get i x) / a.total else 1 / (n : ℚ) := by
  unfold probsCol
  cases degree with
  | false => simp only [Bool.false_eq_true, if_false]; rw [tab_getD]; simp [hx]
  | true =>
    simp only [if_true]
    rw [List.getD_eq_getElem?_getD, List.getElem?_map, tab_getElem?]
    simp only [hx, if_true, Option.map_some, Option.getD_some, sumR_tab]

/-- **the initial aggregate graph satisfies the invariant** (square non-negative matrix with positive total) -/
theorem jinv_init (degree : Bool) {n : Nat} {a : Mat} (hn : 0 < n) (hsq : Square n a)
    (hnn : ∀ i j, 0 ≤ a.get i j) (htot : 0 < a.total) : JInv n 0 (instantiate degree n a) := by
  have hA := total_square hsq
  have hsT := total_square (symmetrize_square n a)
  -- positivity of the total of the symmetrised matrix
  have hsnn : ∀ i j, 0 ≤ (symmetrize n a).get i j := by
    intro i j; rw [symmetrize_get]; split
    · have := hnn i j; have := hnn j i; linarith
    · exact le_refl _
  have hge : a.total ≤ (symmetrize n a).total := by
    rw [hA, hsT]
    apply S_le; intro i hi; apply S_le; intro j hj
    rw [symmetrize_get]
    simp only [List.mem_range] at hi hj
    simp only [hi, hj, and_self, if_true]
    have := hnn j i; linarith
  have hpos : 0 < (symmetrize n a).total := by linarith
  have hne : (symmetrize n a).total ≠ 0 := ne_of_gt hpos
  have hssym : ∀ i j, (symmetrize n a).get i j = (symmetrize n a).get j i := by
    intro i j
    rw [symmetrize_get, symmetrize_get]
    by_cases h : i < n ∧ j < n
    · have : j < n ∧ i < n := ⟨h.2, h.1⟩
      simp only [h, this, and_self, if_true]; ring
    · have : ¬ (j < n ∧ i < n) := fun hh => h ⟨hh.2, hh.1⟩
      simp [h, this]
  have hkeysO : Dict.keys (instantiate degree n a).outW = List.range n := by
    unfold instantiate AggGraph.init; simp [Dict.keys, Function.comp_def]
  have hkeysI : Dict.keys (instantiate degree n a).inW = List.range n := by
    unfold instantiate AggGraph.init; simp [Dict.keys, Function.comp_def]
  refine ⟨?_, ⟨?_, ?_, ?_, ?_, ?_⟩, ?_, ?_, ?_, ?_, ?_, ?_, ?_, ?_⟩
  · unfold instantiate AggGraph.init; simp
  · -- rows have distinct keys
    intro x
    rw [init_row]
    split
    · simp only [Dict.keys, List.map_map]
      have : ((fun p : Nat × ℚ => p.1) ∘ fun j => (j, (symmetrize n a).get x j / (symmetrize n a).total)) = id := by
        funext j; rfl
      rw [this, List.map_id]
      exact List.nodup_range.filter _
    · simp [Dict.keys]
  · intro x y
    rw [init_K, init_K, hssym x y]
    by_cases h : x < n ∧ y < n ∧ (symmetrize n a).get y x ≠ 0
    · have : y < n ∧ x < n ∧ (symmetrize n a).get y x ≠ 0 := ⟨h.2.1, h.1, h.2.2⟩
      simp [h, this]
    · have : ¬ (y < n ∧ x < n ∧ (symmetrize n a).get y x ≠ 0) := fun hh => h ⟨hh.2.1, hh.1, hh.2.2⟩
      simp [h, this]
  · intro x z hz
    rw [init_K]
    have : ¬ z < n := by omega
    simp [this]
  · intro x y
    rw [init_W, init_W, hssym x y]
    by_cases h : x < n ∧ y < n
    · have : y < n ∧ x < n := ⟨h.2, h.1⟩
      simp [h, this]
    · have : ¬ (y < n ∧ x < n) := fun hh => h ⟨hh.2, hh.1⟩
      simp [h, this]
  · intro x y
    rw [init_W]
    split
    · exact div_nonneg (hsnn x y) (le_of_lt hpos)
    · exact le_refl _
  · rw [hkeysI, hkeysO]
  · rw [hkeysO]; exact List.nodup_range
  · intro x hx; rw [hkeysO] at hx; simpa using hx
  · -- the total weight is 1
    rw [hkeysO]
    have : ∀ x ∈ List.range n, S (List.range n) (fun y => getEntry (instantiate degree n a).nb x y) =
        S (List.range n) (fun y => (symmetrize n a).get x y) / (symmetrize n a).total := by
      intro x hx
      rw [← S_div]
      apply S_congr
      intro y hy
      simp only [List.mem_range] at hx hy
      rw [init_W]; simp [hx, hy]
    rw [S_congr this, S_div, ← hsT]
    exact div_self hne
  · -- out-weights sum to 1
    unfold instantiate AggGraph.init
    simp only [tab_length]
    rw [sumD_map_range, S_congr (fun x hx => probsRow_getD degree n a x (by simpa using hx))]
    cases degree with
    | false =>
      simp only [Bool.false_eq_true, if_false]
      rw [S_const]
      have : (n : ℚ) ≠ 0 := by exact_mod_cast (Nat.pos_iff_ne_zero.mp hn)
      rw [mul_one_div, div_self this]
    | true =>
      simp only [if_true]
      rw [S_div, ← hA]
      exact div_self (ne_of_gt htot)
  · intro p hp
    unfold instantiate AggGraph.init at hp
    simp only [tab_length, List.mem_map, List.mem_range] at hp
    obtain ⟨i, hi, rfl⟩ := hp
    show 0 ≤ (probsRow degree n a).getD i 0
    rw [probsRow_getD degree n a i hi]
    cases degree with
    | false => simp only [Bool.false_eq_true, if_false]; exact div_nonneg zero_le_one (Nat.cast_nonneg n)
    | true =>
      simp only [if_true]
      exact div_nonneg (S_nonneg (fun j _ => hnn i j)) (le_of_lt htot)
  · -- in-weights sum to 1
    unfold instantiate AggGraph.init
    simp only [tab_length]
    rw [sumD_map_range, S_congr (fun x hx => probsCol_getD degree n a x (by simpa using hx))]
    cases degree with
    | false =>
      simp only [Bool.false_eq_true, if_false]
      rw [S_const]
      have : (n : ℚ) ≠ 0 := by exact_mod_cast (Nat.pos_iff_ne_zero.mp hn)
      rw [mul_one_div, div_self this]
    | true =>
      simp only [if_true]
      rw [S_div, ← S_comm, ← hA]
      exact div_self (ne_of_gt htot)
  · intro p hp
    unfold instantiate AggGraph.init at hp
    simp only [tab_length, List.mem_map, List.mem_range] at hp
    obtain ⟨i, hi, rfl⟩ := hp
    show 0 ≤ (probsCol degree n a).getD i 0
    rw [probsCol_getD degree n a i hi]
    cases degree with
    | false => simp only [Bool.false_eq_true, if_false]; exact div_nonneg zero_le_one (Nat.cast_nonneg n)
    | true =>
      simp only [if_true]
      exact div_nonneg (S_nonneg (fun j _ => hnn j i)) (le_of_lt htot)

end SkNet.HMetrics
