/-
The Python layer between two kernel calls (`Louvain._aggregate`, the level structure): the aggregate of a
well-formed level is well-formed, and `Q` of a partition of the aggregate is `Q` of the composed partition.
-/
import SkNet.Lemmas.ModularityAggregate
import SkNet.Lemmas.ModularityComponents

namespace SkNet.Modularity
open Finset

theorem list_sum_range (n : Nat) (f : Nat → Rat) : ((List.range n).map f).sum = ∑ i ∈ range n, f i := by
  induction n with
  | zero => simp
  | succ k ih => rw [List.range_succ, List.map_append, List.sum_append, ih, Finset.sum_range_succ]; simp

/-! ### rows -/

theorem foldl_filter_add (p : Nat × Rat → Bool) (row : List (Nat × Rat)) (init : Rat) :
    (row.filter p).foldl (fun a e => a + e.2) init
      = init + (row.map fun e => if p e then e.2 else 0).sum := by
  induction row generalizing init with
  | nil => simp
  | cons e r ih =>
    by_cases h : p e
    · simp only [List.filter_cons, h, if_true, List.foldl_cons, List.map_cons, List.sum_cons, ih]; ring
    · simp only [List.filter_cons, h, Bool.false_eq_true, if_false, List.map_cons, List.sum_cons, ih]; ring

theorem diagOf_eq (row : List (Nat × Rat)) (i : Nat) : diagOf row i = rowEntry row i := by
  unfold diagOf rowEntry
  rw [foldl_filter_add, zero_add]
  congr 1
  refine List.map_congr_left fun e _ => ?_
  by_cases h : e.1 = i <;> simp [h]

theorem rowEntry_rowAdd (col : Nat) (v : Rat) (r : List (Nat × Rat)) (b : Nat) :
    rowEntry (rowAdd col v r) b = (if col = b then v else 0) + rowEntry r b := by
  induction r with
  | nil => simp [rowAdd, rowEntry]
  | cons e r ih =>
    obtain ⟨c, x⟩ := e
    unfold rowAdd
    split
    · simp [rowEntry]
    · split
      · rename_i h1 h2
        subst h2
        by_cases hb : col = b
        · simp [rowEntry, hb]; ring
        · simp [rowEntry, hb]
      · have : rowEntry ((c, x) :: rowAdd col v r) b = (if c = b then x else 0) + rowEntry (rowAdd col v r) b := by
          simp [rowEntry]
        rw [this, ih]
        simp [rowEntry]; ring

theorem rowAdd_cols (col : Nat) (v : Rat) (r : List (Nat × Rat)) :
    ∀ e ∈ rowAdd col v r, e.1 = col ∨ ∃ e' ∈ r, e'.1 = e.1 := by
  induction r with
  | nil => intro e he; simp [rowAdd] at he; left; rw [he]
  | cons e0 r ih =>
    obtain ⟨c, x⟩ := e0
    intro e he
    unfold rowAdd at he
    split at he
    · rcases List.mem_cons.mp he with rfl | he
      · left; rfl
      · right; exact ⟨e, he, rfl⟩
    · split at he
      · rcases List.mem_cons.mp he with rfl | he
        · right; exact ⟨(c, x), List.mem_cons_self, rfl⟩
        · right; exact ⟨e, List.mem_cons_of_mem _ he, rfl⟩
      · rcases List.mem_cons.mp he with rfl | he
        · right; exact ⟨(c, x), List.mem_cons_self, rfl⟩
        · rcases ih e he with h | ⟨e', he', h⟩
          · left; exact h
          · right; exact ⟨e', List.mem_cons_of_mem _ he', h⟩

/-- adding the entries of one row, relabelled -/
theorem aggInner (lab : Nat → Nat) (row acc : List (Nat × Rat)) (b : Nat) :
    rowEntry (row.foldl (fun acc e => rowAdd (lab e.1) e.2 acc) acc) b = rowEntry acc b + rowLink lab row b ∧
    ∀ e' ∈ row.foldl (fun acc e => rowAdd (lab e.1) e.2 acc) acc,
      (∃ e'' ∈ acc, e''.1 = e'.1) ∨ ∃ e ∈ row, lab e.1 = e'.1 := by
  induction row generalizing acc with
  | nil => exact ⟨by simp [rowLink], fun e' he' => Or.inl ⟨e', he', rfl⟩⟩
  | cons e r ih =>
    obtain ⟨h1, h2⟩ := ih (rowAdd (lab e.1) e.2 acc)
    simp only [List.foldl_cons]
    refine ⟨?_, ?_⟩
    · rw [h1, rowEntry_rowAdd]
      simp only [rowLink, List.map_cons, List.sum_cons]
      ring
    · intro e' he'
      rcases h2 e' he' with ⟨e'', he'', h⟩ | ⟨e0, he0, h⟩
      · rcases rowAdd_cols _ _ _ e'' he'' with h3 | ⟨e3, he3, h3⟩
        · right; exact ⟨e, List.mem_cons_self, by rw [← h, h3]⟩
        · left; exact ⟨e3, he3, by rw [h3, h]⟩
      · right; exact ⟨e0, List.mem_cons_of_mem _ he0, h⟩

theorem aggOuter (lab : Nat → Nat) (rows : List (List (Nat × Rat))) (a : Nat) (idx : List Nat)
    (acc : List (Nat × Rat)) (b : Nat) :
    rowEntry (idx.foldl (fun acc i =>
        if lab i == a then (rows.getD i []).foldl (fun acc e => rowAdd (lab e.1) e.2 acc) acc else acc) acc) b
      = rowEntry acc b + (idx.map fun i => if lab i = a then rowLink lab (rows.getD i []) b else 0).sum ∧
    ∀ e' ∈ idx.foldl (fun acc i =>
        if lab i == a then (rows.getD i []).foldl (fun acc e => rowAdd (lab e.1) e.2 acc) acc else acc) acc,
      (∃ e'' ∈ acc, e''.1 = e'.1) ∨ ∃ i ∈ idx, lab i = a ∧ ∃ e ∈ rows.getD i [], lab e.1 = e'.1 := by
  induction idx generalizing acc with
  | nil => exact ⟨by simp, fun e' he' => Or.inl ⟨e', he', rfl⟩⟩
  | cons i r ih =>
    simp only [List.foldl_cons, List.map_cons, List.sum_cons]
    by_cases hi : lab i = a
    · have hb : (lab i == a) = true := by simp [hi]
      rw [if_pos hb, if_pos hi]
      obtain ⟨h1, h2⟩ := ih ((rows.getD i []).foldl (fun acc e => rowAdd (lab e.1) e.2 acc) acc)
      obtain ⟨g1, g2⟩ := aggInner lab (rows.getD i []) acc b
      refine ⟨by rw [h1, g1]; ring, ?_⟩
      intro e' he'
      rcases h2 e' he' with ⟨e'', he'', h⟩ | ⟨j, hj, hja, e, he, h⟩
      · rcases (aggInner lab (rows.getD i []) acc e'.1).2 e'' he'' with ⟨e3, he3, h3⟩ | ⟨e3, he3, h3⟩
        · left; exact ⟨e3, he3, by rw [h3, h]⟩
        · right; exact ⟨i, List.mem_cons_self, hi, e3, he3, by rw [h3, h]⟩
      · right; exact ⟨j, List.mem_cons_of_mem _ hj, hja, e, he, h⟩
    · have hb : ¬ (lab i == a) = true := by simp [hi]
      rw [if_neg hb, if_neg hi, zero_add]
      obtain ⟨h1, h2⟩ := ih acc
      refine ⟨h1, ?_⟩
      intro e' he'
      rcases h2 e' he' with h | ⟨j, hj, hja, e, he, h⟩
      · left; exact h
      · right; exact ⟨j, List.mem_cons_of_mem _ hj, hja, e, he, h⟩

theorem foldl_cond_add (p : Nat → Bool) (f : Nat → Rat) (idx : List Nat) (init : Rat) :
    idx.foldl (fun acc i => if p i then acc + f i else acc) init
      = init + (idx.map fun i => if p i then f i else 0).sum := by
  induction idx generalizing init with
  | nil => simp
  | cons i r ih =>
    simp only [List.foldl_cons, List.map_cons, List.sum_cons, ih]
    by_cases h : p i <;> simp [h]; ring

theorem aggVec_eq (labels : List Nat) (w : List Rat) (a : Nat) :
    aggVec labels w a = ∑ u ∈ range w.length, if labOf labels u = a then w.getD u 0 else 0 := by
  unfold aggVec
  rw [foldl_cond_add (fun i => labels.getD i 0 == a) (fun i => w.getD i 0), zero_add, ← list_sum_range]
  congr 1
  refine List.map_congr_left fun i _ => ?_
  by_cases h : labels.getD i 0 = a <;> simp [labOf]

theorem lt_nLabels_fold (l : List Nat) (init : Nat) :
    init ≤ l.foldl (fun m x => max m (x + 1)) init ∧ ∀ x ∈ l, x < l.foldl (fun m x => max m (x + 1)) init := by
  induction l generalizing init with
  | nil => simp
  | cons a r ih =>
    obtain ⟨h1, h2⟩ := ih (max init (a + 1))
    simp only [List.foldl_cons, List.mem_cons]
    refine ⟨le_trans (le_max_left _ _) h1, ?_⟩
    rintro x (rfl | hx)
    · exact lt_of_lt_of_le (Nat.lt_succ_self x) (le_trans (le_max_right _ _) h1)
    · exact h2 x hx

theorem labOf_lt_nLabels (labels : List Nat) (u : Nat) (hu : u < labels.length) :
    labOf labels u < nLabels labels := by
  unfold labOf nLabels
  rw [List.getD_eq_getElem?_getD, List.getElem?_eq_getElem hu]
  exact (lt_nLabels_fold labels 0).2 _ (List.getElem_mem hu)

/-! ### well-formed levels -/

/-- what every level of the aggregation satisfies -/
structure LevelOK (lv : Level) : Prop where
  lenR : lv.rows.length = lv.n
  lenO : lv.outW.length = lv.n
  lenI : lv.inW.length = lv.n
  cols : ∀ i, i < lv.n → ∀ e ∈ lv.rows.getD i [], e.1 < lv.n
  sym : ∀ u v, u < lv.n → v < lv.n → rowEntry (lv.rows.getD u []) v = rowEntry (lv.rows.getD v []) u

theorem LevelOK.graphOK {lv : Level} (h : LevelOK lv) : GraphOK lv.graph where
  cols := h.cols
  sym := h.sym
  self := fun i _ => diagOf_eq _ i

/-- pruning the stored zeros of a row changes no entry -/
theorem rowEntry_filter_ne_zero (row : List (Nat × Rat)) (v : Nat) :
    rowEntry (row.filter (·.2 != 0)) v = rowEntry row v := by
  induction row with
  | nil => rfl
  | cons e r ih =>
    have hc : rowEntry (e :: r) v = (if e.1 = v then e.2 else 0) + rowEntry r v := by simp [rowEntry]
    by_cases h : e.2 = 0
    · have hf : (e :: r).filter (·.2 != 0) = r.filter (·.2 != 0) := by simp [h]
      rw [hf, ih, hc, h]; simp
    · have hf : (e :: r).filter (·.2 != 0) = e :: r.filter (·.2 != 0) := by simp [h]
      have hc' : rowEntry (e :: r.filter (·.2 != 0)) v = (if e.1 = v then e.2 else 0) + rowEntry (r.filter (·.2 != 0)) v := by
        simp [rowEntry]
      rw [hf, hc', ih, hc]

/-- the row of the aggregate: the merged row with its zero sums pruned -/
theorem aggregate_row (labels : List Nat) (lv : Level) (a : Nat) (ha : a < nLabels labels) :
    (aggregate labels lv).graph.row a = (aggRow labels lv.rows a).filter (·.2 != 0) := by
  show (tab (nLabels labels) fun a => (aggRow labels lv.rows a).filter (·.2 != 0)).getD a [] = _
  rw [tab_getD, if_pos ha]

/-- entry `(a, b)` of the aggregate adjacency is the block sum -/
theorem aggregate_entry (labels : List Nat) (lv : Level) (hlv : LevelOK lv) (a b : Nat)
    (ha : a < nLabels labels) :
    adj (aggregate labels lv).graph a b
      = ∑ u ∈ range lv.n, ∑ v ∈ range lv.n,
          if labOf labels u = a ∧ labOf labels v = b then adj lv.graph u v else 0 := by
  unfold adj
  rw [aggregate_row labels lv a ha, rowEntry_filter_ne_zero]
  unfold aggRow
  rw [(aggOuter (labOf labels) lv.rows a (List.range lv.rows.length) [] b).1, hlv.lenR, list_sum_range]
  simp only [rowEntry, List.map_nil, List.sum_nil, zero_add]
  refine sum_congr rfl fun u hu => ?_
  by_cases h : labOf labels u = a
  · simp only [h, if_true, true_and]
    exact rowLink_eq_link lv.n _ _ b (hlv.cols u (mem_range.mp hu))
  · rw [if_neg h]
    symm
    refine sum_eq_zero fun v _ => ?_
    rw [if_neg]
    exact fun hh => h hh.1

theorem aggregate_cols (labels : List Nat) (lv : Level) (hlv : LevelOK lv) (hlen : labels.length = lv.n)
    (a : Nat) (ha : a < nLabels labels) :
    ∀ e ∈ (aggregate labels lv).graph.row a, e.1 < nLabels labels := by
  rw [aggregate_row labels lv a ha]
  intro e' he'
  replace he' := (List.mem_filter.mp he').1
  unfold aggRow at he'
  rcases (aggOuter (labOf labels) lv.rows a (List.range lv.rows.length) [] 0).2 e' he' with
    ⟨e'', he'', -⟩ | ⟨i, hi, -, e, he, h⟩
  · exact absurd he'' List.not_mem_nil
  · rw [← h]
    have hi' : i < lv.n := by rw [← hlv.lenR]; exact List.mem_range.mp hi
    exact labOf_lt_nLabels labels e.1 (by rw [hlen]; exact hlv.cols i hi' e he)

/-- a stored entry of the aggregate comes from a stored entry between the two clusters -/
theorem aggregate_pattern (labels : List Nat) (lv : Level) (hlv : LevelOK lv) (a : Nat) (ha : a < nLabels labels) :
    ∀ e' ∈ (aggregate labels lv).graph.row a,
      ∃ i, i < lv.n ∧ labOf labels i = a ∧ ∃ e ∈ lv.graph.row i, labOf labels e.1 = e'.1 := by
  rw [aggregate_row labels lv a ha]
  intro e' he'
  replace he' := (List.mem_filter.mp he').1
  unfold aggRow at he'
  rcases (aggOuter (labOf labels) lv.rows a (List.range lv.rows.length) [] 0).2 e' he' with
    ⟨e'', he'', -⟩ | ⟨i, hi, hia, e, he, h⟩
  · exact absurd he'' List.not_mem_nil
  · exact ⟨i, by rw [← hlv.lenR]; exact List.mem_range.mp hi, hia, e, he, h⟩

theorem aggregate_levelOK (labels : List Nat) (lv : Level) (hlv : LevelOK lv) (hlen : labels.length = lv.n) :
    LevelOK (aggregate labels lv) where
  lenR := by simp [aggregate]
  lenO := by simp [aggregate]
  lenI := by simp [aggregate]
  cols := fun a ha e he => aggregate_cols labels lv hlv hlen a ha e he
  sym := by
    intro a b ha hb
    have ha' : a < nLabels labels := ha
    have hb' : b < nLabels labels := hb
    have e1 := aggregate_entry labels lv hlv a b ha'
    have e2 := aggregate_entry labels lv hlv b a hb'
    unfold adj at e1 e2
    show rowEntry ((aggregate labels lv).graph.row a) b = rowEntry ((aggregate labels lv).graph.row b) a
    rw [e1, e2, sum_comm]
    refine sum_congr rfl fun u hu => sum_congr rfl fun v hv => ?_
    have hs : rowEntry (lv.graph.row v) u = rowEntry (lv.graph.row u) v :=
      hlv.sym v u (mem_range.mp hv) (mem_range.mp hu)
    simp only [hs, and_comm]

/-- **aggregate_preserves_Q.**  `Q` of a partition `c'` of the aggregate graph = `Q` of the composed partition
    `c' ∘ labels` of the graph that was aggregated (any resolution). -/
theorem aggregate_Q (labels : List Nat) (lv : Level) (hlv : LevelOK lv) (hlen : labels.length = lv.n)
    (γ : Rat) (c' : Nat → Nat) :
    Q (aggregate labels lv).n (adj (aggregate labels lv).graph) (aggregate labels lv).graph.outW
        (aggregate labels lv).graph.inW γ c'
      = Q lv.n (adj lv.graph) lv.graph.outW lv.graph.inW γ (fun u => c' (labOf labels u)) := by
  refine Q_aggregate lv.n (nLabels labels) _ _ _ γ (labOf labels)
    (fun u hu => labOf_lt_nLabels labels u (by rw [hlen]; exact hu)) c' _ _ _ ?_ ?_ ?_
  · intro a b ha _
    exact aggregate_entry labels lv hlv a b ha
  · intro a ha
    show (tab (nLabels labels) (aggVec labels lv.outW)).getD a 0 = _
    rw [tab_getD, if_pos ha, aggVec_eq, hlv.lenO]
    rfl
  · intro b hb
    show (tab (nLabels labels) (aggVec labels lv.inW)).getD b 0 = _
    rw [tab_getD, if_pos hb, aggVec_eq, hlv.lenI]
    rfl

end SkNet.Modularity
