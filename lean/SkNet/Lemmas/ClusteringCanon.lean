/-
Two valid clusterings sorted by size that induce the same partition have the same size profile (and the same
number of labels): comparing label vectors "as partition + size profile" loses nothing (C05, canonicalisation used
by the correspondence harness when cluster sizes tie).
-/
import SkNet.Lemmas.ClusteringReindex

namespace SkNet.Clustering

theorem countP_pointwise {α β : Type} {p : α → Bool} {q : β → Bool} :
    ∀ (a : List α) (b : List β), a.length = b.length →
      (∀ i (h1 : i < a.length) (h2 : i < b.length), p a[i] = q b[i]) → a.countP p = b.countP q
  | [], [], _, _ => rfl
  | [], _ :: _, h, _ => by simp at h
  | _ :: _, [], h, _ => by simp at h
  | x :: xs, y :: ys, h, hp => by
    have h0 := hp 0 (by simp) (by simp)
    simp only [List.getElem_cons_zero] at h0
    have ih := countP_pointwise xs ys (by simpa using h)
      (fun i h1 h2 => by
        have := hp (i + 1) (by simp; omega) (by simp; omega)
        simpa only [List.getElem_cons_succ] using this)
    simp only [List.countP_cons, h0, ih]

theorem SamePartition.symm' {a b : List Nat} (h : SamePartition a b) : SamePartition b a :=
  ⟨h.1.symm, fun i hi j hj => (h.2 i (h.1 ▸ hi) j (h.1 ▸ hj)).symm⟩

/-- positions carrying the same label in `a` carry the same label in `b`, hence equal class sizes -/
theorem count_of_samePartition {a b : List Nat} (h : SamePartition a b) {i : Nat} (hi : i < a.length) :
    a.count (a[i]) = b.count (b[i]'(h.1 ▸ hi)) := by
  rw [List.count_eq_countP, List.count_eq_countP]
  apply countP_pointwise a b h.1
  intro j h1 h2
  have := h.2 j h1 i hi
  simp only [List.getElem?_eq_getElem h1, List.getElem?_eq_getElem hi, List.getElem?_eq_getElem h2,
    List.getElem?_eq_getElem (h.1 ▸ hi : i < b.length), Option.some.injEq] at this
  rw [Bool.eq_iff_iff]
  simpa using this

/-- a downward-closed predicate selects an initial segment of `range k` -/
theorem filter_range_downward {p : Nat → Bool} :
    ∀ k, (∀ c, c + 1 < k → p (c + 1) = true → p c = true) →
      (List.range k).filter p = List.range ((List.range k).filter p).length
  | 0, _ => by simp
  | k + 1, hd => by
    have ih := filter_range_downward k (fun c hc => hd c (by omega))
    rw [List.range_succ, List.filter_append]
    by_cases hk : p k = true
    · -- then everything below k is selected
      have hall : ∀ c, c ≤ k → p c = true := by
        intro c hc
        induction hc' : k - c generalizing c with
        | zero => have : c = k := by omega
                  subst this; exact hk
        | succ d ihd =>
          have := ihd (c + 1) (by omega) (by omega)
          exact hd c (by omega) this
      have hfull : (List.range k).filter p = List.range k := by
        rw [List.filter_eq_self]
        intro c hc
        exact hall c (by have := List.mem_range.mp hc; omega)
      simp [hfull, hk, List.range_succ]
    · have hk' : p k = false := by simpa using hk
      simp only [List.filter_cons, hk', Bool.false_eq_true, if_false, List.filter_nil, List.append_nil]
      exact ih

/-- an injective-on map from a nodup list into another list: no longer than the target -/
theorem length_le_of_injOn {l₁ l₂ : List Nat} {f : Nat → Nat} (hnd : l₁.Nodup)
    (hinj : ∀ x ∈ l₁, ∀ y ∈ l₁, f x = f y → x = y) (hsub : ∀ x ∈ l₁, f x ∈ l₂) : l₁.length ≤ l₂.length := by
  have hnd' : (l₁.map f).Nodup := by
    rw [List.nodup_map_iff_inj_on hnd]
    exact hinj
  have hss : l₁.map f ⊆ l₂ := by
    intro y hy
    obtain ⟨x, hx, rfl⟩ := List.mem_map.mp hy
    exact hsub x hx
  have := (List.subperm_of_subset hnd' hss).length_le
  simpa using this

/-- the label correspondence between two vectors with the same partition -/
theorem exists_sigma {a b : List Nat} {k k' : Nat} (h : SamePartition a b) (ha : Contiguous a k)
    (hb : Contiguous b k') :
    ∃ σ : Nat → Nat, (∀ c, c < k → σ c < k' ∧ a.count c = b.count (σ c)) ∧
      (∀ c, c < k → ∀ c', c' < k → σ c = σ c' → c = c') := by
  have hch : ∀ c, ∃ d, c < k → ∃ i, ∃ hi : i < a.length, a[i] = c ∧ b[i]'(h.1 ▸ hi) = d := by
    intro c
    by_cases hc : c < k
    · obtain ⟨i, hi, e⟩ := List.getElem_of_mem (ha.2 c hc)
      exact ⟨b[i]'(h.1 ▸ hi), fun _ => ⟨i, hi, e, rfl⟩⟩
    · exact ⟨0, fun hh => absurd hh hc⟩
  choose σ hσ using hch
  refine ⟨σ, ?_, ?_⟩
  · intro c hc
    obtain ⟨i, hi, e1, e2⟩ := hσ c hc
    refine ⟨e2 ▸ hb.1 _ (List.getElem_mem _), ?_⟩
    have := count_of_samePartition h hi
    rw [e1, e2] at this
    exact this
  · intro c hc c' hc' he
    obtain ⟨i, hi, e1, e2⟩ := hσ c hc
    obtain ⟨j, hj, f1, f2⟩ := hσ c' hc'
    have hbij : b[i]? = b[j]? := by
      rw [List.getElem?_eq_getElem (h.1 ▸ hi), List.getElem?_eq_getElem (h.1 ▸ hj), e2, f2, he]
    have := (h.2 i hi j hj).mpr hbij
    rw [List.getElem?_eq_getElem hi, List.getElem?_eq_getElem hj, e1, f1] at this
    exact Option.some.inj this

/-- the number of labels is determined by the partition -/
theorem nLabels_of_samePartition {a b : List Nat} {k k' : Nat} (h : SamePartition a b) (ha : Contiguous a k)
    (hb : Contiguous b k') : k = k' := by
  have h1 : k ≤ k' := by
    obtain ⟨σ, hσ1, hσ2⟩ := exists_sigma h ha hb
    have := length_le_of_injOn (l₁ := List.range k) (l₂ := List.range k') (f := σ) List.nodup_range
      (fun x hx y hy e => hσ2 x (List.mem_range.mp hx) y (List.mem_range.mp hy) e)
      (fun x hx => List.mem_range.mpr (hσ1 x (List.mem_range.mp hx)).1)
    simpa using this
  have h2 : k' ≤ k := by
    obtain ⟨σ, hσ1, hσ2⟩ := exists_sigma h.symm' hb ha
    have := length_le_of_injOn (l₁ := List.range k') (l₂ := List.range k) (f := σ) List.nodup_range
      (fun x hx y hy e => hσ2 x (List.mem_range.mp hx) y (List.mem_range.mp hy) e)
      (fun x hx => List.mem_range.mpr (hσ1 x (List.mem_range.mp hx)).1)
    simpa using this
  omega

/-- one direction of the threshold comparison -/
theorem threshold_le {a b : List Nat} {k : Nat} (h : SamePartition a b) (ha : Contiguous a k)
    (hb : Contiguous b k) (t : Nat) :
    ((List.range k).filter fun c => decide (t ≤ a.count c)).length ≤
      ((List.range k).filter fun c => decide (t ≤ b.count c)).length := by
  obtain ⟨σ, hσ1, hσ2⟩ := exists_sigma h ha hb
  apply length_le_of_injOn (f := σ) (List.nodup_range.filter _)
  · intro x hx y hy e
    exact hσ2 x (List.mem_range.mp (List.mem_filter.mp hx).1) y (List.mem_range.mp (List.mem_filter.mp hy).1) e
  · intro x hx
    have hx' := List.mem_filter.mp hx
    have hxk := List.mem_range.mp hx'.1
    rw [List.mem_filter]
    refine ⟨List.mem_range.mpr (hσ1 x hxk).1, ?_⟩
    have := hx'.2
    simp only [decide_eq_true_eq] at this ⊢
    rw [← (hσ1 x hxk).2]; exact this

/-- ★ two valid clusterings sorted by size with the same partition: same number of labels and same size of every
    label — they differ at most by a permutation of labels among clusters of equal size -/
theorem sorted_profile_unique {a b : List Nat} {k k' : Nat} (h : SamePartition a b)
    (ha : ValidK a k true) (hb : ValidK b k' true) : k = k' ∧ ∀ c, a.count c = b.count c := by
  have hk := nLabels_of_samePartition h ha.1 hb.1
  subst hk
  refine ⟨rfl, ?_⟩
  intro c
  by_cases hc : c < k
  · -- thresholds select the same initial segment in both
    have hseg : ∀ t, ((List.range k).filter fun c => decide (t ≤ a.count c)) =
        ((List.range k).filter fun c => decide (t ≤ b.count c)) := by
      intro t
      have e1 := filter_range_downward (p := fun c => decide (t ≤ a.count c)) k (by
        intro c hc hp
        have := ha.2 rfl c hc
        simp only [decide_eq_true_eq] at hp ⊢; omega)
      have e2 := filter_range_downward (p := fun c => decide (t ≤ b.count c)) k (by
        intro c hc hp
        have := hb.2 rfl c hc
        simp only [decide_eq_true_eq] at hp ⊢; omega)
      have hlen : ((List.range k).filter fun c => decide (t ≤ a.count c)).length =
          ((List.range k).filter fun c => decide (t ≤ b.count c)).length :=
        Nat.le_antisymm (threshold_le h ha.1 hb.1 t) (threshold_le h.symm' hb.1 ha.1 t)
      rw [e1, e2, hlen]
    have hiff : ∀ t, t ≤ a.count c ↔ t ≤ b.count c := by
      intro t
      have := hseg t
      have hm : c ∈ List.range k := List.mem_range.mpr hc
      constructor
      · intro ht
        have : c ∈ (List.range k).filter fun c => decide (t ≤ a.count c) :=
          List.mem_filter.mpr ⟨hm, by simpa using ht⟩
        rw [hseg t] at this
        simpa using (List.mem_filter.mp this).2
      · intro ht
        have : c ∈ (List.range k).filter fun c => decide (t ≤ b.count c) :=
          List.mem_filter.mpr ⟨hm, by simpa using ht⟩
        rw [← hseg t] at this
        simpa using (List.mem_filter.mp this).2
    have h1 := (hiff (a.count c)).mp (Nat.le_refl _)
    have h2 := (hiff (b.count c)).mpr (Nat.le_refl _)
    omega
  · have ha0 : a.count c = 0 := List.count_eq_zero_of_not_mem (fun hm => hc (ha.1.1 c hm))
    have hb0 : b.count c = 0 := List.count_eq_zero_of_not_mem (fun hm => hc (hb.1.1 c hm))
    rw [ha0, hb0]

/-- the array-indexed evaluation used by the driver decides `SamePartition` -/
theorem samePartitionB_iff {α β : Type} [DecidableEq α] [DecidableEq β] (a : List α) (b : List β) :
    samePartitionB a b = true ↔ SamePartition a b := by
  unfold samePartitionB SamePartition
  simp only [Bool.and_eq_true, beq_iff_eq, List.all_eq_true, List.mem_range, List.getElem?_toArray]
  constructor
  · rintro ⟨hl, h⟩
    refine ⟨hl, fun i hi j hj => ?_⟩
    have := h i hi j hj
    by_cases h1 : a[i]? = a[j]? <;> by_cases h2 : b[i]? = b[j]? <;> simp_all
  · rintro ⟨hl, h⟩
    refine ⟨hl, fun i hi j hj => ?_⟩
    have := h i hi j hj
    by_cases h1 : a[i]? = a[j]? <;> by_cases h2 : b[i]? = b[j]? <;> simp_all

end SkNet.Clustering
