/- The replay of merges in `get_sampling_distributions`: the total edge weight is preserved, the weight inside
   merged clusters grows by exactly `edge_sampling[t]`, cluster weights stay in [0, 1]. -/
import SkNet.Model.HMetrics
import SkNet.Lemmas.Sums

set_option linter.unusedSimpArgs false

namespace SkNet.HMetrics
open SkNet SkNet.Dendro SkNet.Agg

/-- what holds of the aggregate graph after `t` merges (`n` leaves) -/
structure JInv (n t : Nat) (g : AggGraph ℚ) : Prop where
  next : g.next = n + t
  nbi : NbInv g.nb (n + t)
  keysEq : Dict.keys g.inW = Dict.keys g.outW
  nodup : (Dict.keys g.outW).Nodup
  bound : ∀ x ∈ Dict.keys g.outW, x < n + t
  phi : S (Dict.keys g.outW) (fun x => S (Dict.keys g.outW) (fun y => getEntry g.nb x y)) = 1
  outSum : sumD g.outW = 1
  outNonneg : ∀ p ∈ g.outW, 0 ≤ p.2
  inSum : sumD g.inW = 1
  inNonneg : ∀ p ∈ g.inW, 0 ≤ p.2

/-- weight inside the merged clusters -/
def psi (n : Nat) (g : AggGraph ℚ) : ℚ :=
  S (Dict.keys g.outW) (fun x => if n ≤ x then getEntry g.nb x x else 0)

theorem samplingOf_edge (n : Nat) (g : AggGraph ℚ) {i j : Nat} (hij : i ≠ j) :
    (samplingOf n g i j).1 =
      2 * getEntry g.nb i j + (if i < n then getEntry g.nb i i else 0) + (if j < n then getEntry g.nb j j else 0) := by
  unfold samplingOf
  simp only [hij, if_false, List.foldl_cons, List.foldl_nil]
  have k1 : ((row g.nb i).contains j = false) → getEntry g.nb i j = 0 := fun h => getEntry_of_not_K h
  have k2 : ((row g.nb i).contains i = false) → getEntry g.nb i i = 0 := fun h => getEntry_of_not_K h
  have k3 : ((row g.nb j).contains j = false) → getEntry g.nb j j = 0 := fun h => getEntry_of_not_K h
  by_cases hi : i < n <;> by_cases hj : j < n <;> simp only [hi, hj, if_true, if_false] <;>
    by_cases h1 : (row g.nb i).contains j = true <;> by_cases h2 : (row g.nb i).contains i = true <;>
    by_cases h3 : (row g.nb j).contains j = true <;>
    simp_all

theorem mem_of_get? {β : Type} {d : Dict β} {k : Nat} {v : β} (h : d.get? k = some v) : (k, v) ∈ d :=
  Dict.get?_some_mem h

/-- the weight dict after a merge -/
theorem merged_dict {d : Dict ℚ} (hnd : (Dict.keys d).Nodup) {i j new : Nat} {vi vj : ℚ}
    (hi : d.get? i = some vi) (hj : d.get? j = some vj) (hij : i ≠ j) (hnew : new ∉ Dict.keys d)
    (hsum : sumD d = 1) (hnn : ∀ p ∈ d, 0 ≤ p.2) :
    let d' := ((d.erase i).erase j).set new (vi + vj)
    Dict.keys d' = ((Dict.keys d).filter (· != i)).filter (· != j) ++ [new] ∧
    sumD d' = 1 ∧ (∀ p ∈ d', 0 ≤ p.2) ∧ 0 ≤ vi + vj ∧ vi + vj ≤ 1 := by
  intro d'
  have hfresh : new ∉ Dict.keys ((d.erase i).erase j) := fun hm =>
    hnew (Dict.mem_keys_erase.mp (Dict.mem_keys_erase.mp hm).1).1
  have hd' : d' = (d.erase i).erase j ++ [(new, vi + vj)] := Dict.set_of_not_mem hfresh _
  have h1 := sumD_erase hnd hi
  have hj' : (d.erase i).get? j = some vj := by rw [Dict.get?_erase]; simp [Ne.symm hij, hj]
  have h2 := sumD_erase (Dict.nodup_keys_erase hnd i) hj'
  have hvi := hnn _ (mem_of_get? hi)
  have hvj := hnn _ (mem_of_get? hj)
  have hrest : 0 ≤ sumD ((d.erase i).erase j) := sumD_nonneg (fun p hp =>
    hnn p (Dict.mem_erase.mp (Dict.mem_erase.mp hp).1).1)
  refine ⟨?_, ?_, ?_, by linarith, by linarith⟩
  · rw [hd']
    simp only [Dict.keys, List.map_append, List.map_cons, List.map_nil]
    have := Dict.keys_erase (d.erase i) j
    have h' := Dict.keys_erase d i
    simp only [Dict.keys] at this h'
    rw [this, h']
  · rw [hd']
    simp only [sumD, List.map_append, List.map_cons, List.map_nil, List.sum_append, List.sum_cons, List.sum_nil]
    simp only [sumD] at h1 h2 hsum
    linarith
  · intro p hp
    rw [hd'] at hp
    rcases List.mem_append.mp hp with h | h
    · exact hnn p (Dict.mem_erase.mp (Dict.mem_erase.mp h).1).1
    · simp only [List.mem_cons, List.not_mem_nil, or_false] at h
      subst h; simp only; linarith


theorem keys_get? {β : Type} {d : Dict β} {k : Nat} (h : k ∈ Dict.keys d) : ∃ v, d.get? k = some v :=
  (Hier.mem_keys_iff d k).mp h

/-- one merge of the replay -/
theorem jinv_step {n t : Nat} {g : AggGraph ℚ} {i j : Nat} (h : JInv n t g)
    (hi : i ∈ Dict.keys g.outW) (hj : j ∈ Dict.keys g.outW) (hij : i ≠ j) :
    JInv n (t + 1) (g.merge i j) ∧
    psi n (g.merge i j) = psi n g + (samplingOf n g i j).1 ∧
    0 ≤ (samplingOf n g i j).1 ∧
    0 ≤ clusterWeightOf g i j / 2 ∧ clusterWeightOf g i j / 2 ≤ 1 := by
  have hbi := h.bound i hi
  have hbj := h.bound j hj
  obtain ⟨vi, hvi⟩ := keys_get? hi
  obtain ⟨vj, hvj⟩ := keys_get? hj
  obtain ⟨ui, hui⟩ := keys_get? (d := g.inW) (by rw [h.keysEq]; exact hi)
  obtain ⟨uj, huj⟩ := keys_get? (d := g.inW) (by rw [h.keysEq]; exact hj)
  have hnewO : n + t ∉ Dict.keys g.outW := fun hm => by have := h.bound _ hm; omega
  have hnewI : n + t ∉ Dict.keys g.inW := by rw [h.keysEq]; exact hnewO
  obtain ⟨ko, so, no, o1, o2⟩ := merged_dict h.nodup hvi hvj hij hnewO h.outSum h.outNonneg
  obtain ⟨ki, si, ni, i1, i2⟩ := merged_dict (by rw [h.keysEq]; exact h.nodup) hui huj hij hnewI h.inSum h.inNonneg
  obtain ⟨hnb', hW, _⟩ := mergeNb_spec g.nb hij (by omega : n + t ≠ i) (by omega : n + t ≠ j) h.nbi.rows
    (fun x => h.nbi.fresh x (n + t) (Nat.le_refl _)) h.nbi.sym
  have hinv' := nbInv_merge h.nbi hij hbi hbj
  -- the fields of the merged graph
  have hmo : (g.merge i j).outW = ((g.outW.erase i).erase j).set (n + t) (vi + vj) := by
    unfold AggGraph.merge; simp [hvi, hvj, h.next]
  have hmi : (g.merge i j).inW = ((g.inW.erase i).erase j).set (n + t) (ui + uj) := by
    unfold AggGraph.merge; simp [hui, huj, h.next]
  have hmn : (g.merge i j).nb = mergeNb g.nb i j (n + t) := by
    unfold AggGraph.merge; simp [h.next]
  have hmx : (g.merge i j).next = n + (t + 1) := by
    unfold AggGraph.merge; simp [h.next]; omega
  -- notation
  let l := Dict.keys g.outW
  let rest := (l.filter (· != i)).filter (· != j)
  have hrest : ∀ x ∈ rest, x ≠ i ∧ x ≠ j ∧ x ≠ n + t ∧ x ∈ l := by
    intro x hx
    obtain ⟨hx1, hx2⟩ := List.mem_filter.mp hx
    obtain ⟨hx3, hx4⟩ := List.mem_filter.mp hx1
    have := h.bound x hx3
    exact ⟨by simpa using hx4, by simpa using hx2, by omega, hx3⟩
  have hkeys' : Dict.keys (g.merge i j).outW = rest ++ [n + t] := by rw [hmo, ko]
  -- weights after the merge, on the nodes that stay
  have hWxy : ∀ x ∈ rest, ∀ y ∈ rest, getEntry (mergeNb g.nb i j (n + t)) x y = getEntry g.nb x y := by
    intro x hx y hy
    obtain ⟨a1, a2, a3, _⟩ := hrest x hx
    obtain ⟨b1, b2, b3, _⟩ := hrest y hy
    rw [hW]; simp [a1, a2, a3, b1, b2, b3]
  have hWxn : ∀ x ∈ rest, getEntry (mergeNb g.nb i j (n + t)) x (n + t) = getEntry g.nb x i + getEntry g.nb x j := by
    intro x hx
    obtain ⟨a1, a2, a3, _⟩ := hrest x hx
    have e1 : n + t ≠ i := by omega
    have e2 : n + t ≠ j := by omega
    rw [hW]; simp [a1, a2, a3, e1, e2]
  have hWny : ∀ y ∈ rest, getEntry (mergeNb g.nb i j (n + t)) (n + t) y = getEntry g.nb i y + getEntry g.nb j y := by
    intro y hy
    obtain ⟨b1, b2, b3, _⟩ := hrest y hy
    have e1 : n + t ≠ i := by omega
    have e2 : n + t ≠ j := by omega
    rw [hW]; simp [b1, b2, b3, e1, e2]
  have hWnn : getEntry (mergeNb g.nb i j (n + t)) (n + t) (n + t) =
      0 + getEntry g.nb i i + getEntry g.nb i j + getEntry g.nb j i + getEntry g.nb j j := by
    have e1 : n + t ≠ i := by omega
    have e2 : n + t ≠ j := by omega
    rw [hW]; simp [e1, e2]
  have hsplit : ∀ f : Nat → ℚ, S l f = f i + f j + S rest f := fun f => S_erase2 h.nodup hi hj hij f
  have hwij : getEntry g.nb j i = getEntry g.nb i j := h.nbi.wsym j i
  refine ⟨⟨hmx, ?_, ?_, ?_, ?_, ?_, ?_, ?_, ?_, ?_⟩, ?_, ?_, ?_, ?_⟩
  · rw [hmn]; exact hinv'
  · rw [hmi, hkeys', ki, h.keysEq]
  · rw [hkeys']
    refine List.nodup_append.mpr ⟨(h.nodup.filter _).filter _, by simp, ?_⟩
    intro a ha b hb
    simp only [List.mem_cons, List.not_mem_nil, or_false] at hb
    subst hb
    exact (hrest a ha).2.2.1
  · intro x hx
    rw [hkeys'] at hx
    rcases List.mem_append.mp hx with hx | hx
    · have := h.bound x (hrest x hx).2.2.2; omega
    · simp only [List.mem_cons, List.not_mem_nil, or_false] at hx; omega
  · -- the total weight is preserved
    rw [hkeys', hmn]
    have hphi := h.phi
    have hF : ∀ x, S (Dict.keys g.outW) (fun y => getEntry g.nb x y) =
        getEntry g.nb x i + getEntry g.nb x j + S rest (fun y => getEntry g.nb x y) := fun x => hsplit _
    rw [hsplit] at hphi
    simp only [hF] at hphi
    simp only [S_append, S_cons, S_nil, add_zero]
    rw [S_congr (f := fun x => S rest (fun y => getEntry (mergeNb g.nb i j (n + t)) x y) +
        getEntry (mergeNb g.nb i j (n + t)) x (n + t))
      (g := fun x => S rest (fun y => getEntry g.nb x y) + (getEntry g.nb x i + getEntry g.nb x j))
      (fun x hx => by rw [S_congr (fun y hy => hWxy x hx y hy), hWxn x hx])]
    rw [S_congr (f := fun y => getEntry (mergeNb g.nb i j (n + t)) (n + t) y)
      (g := fun y => getEntry g.nb i y + getEntry g.nb j y) hWny, hWnn]
    simp only [S_add] at hphi ⊢
    linarith
  · rw [hmo]; exact so
  · rw [hmo]; exact no
  · rw [hmi]; exact si
  · rw [hmi]; exact ni
  · -- the weight inside merged clusters grows by the edge sampling of the step
    unfold psi
    rw [hkeys', hmn, hsplit, samplingOf_edge n g hij]
    simp only [S_append, S_cons, S_nil, add_zero]
    rw [S_congr (f := fun x => if n ≤ x then getEntry (mergeNb g.nb i j (n + t)) x x else 0)
      (g := fun x => if n ≤ x then getEntry g.nb x x else 0)
      (fun x hx => by rw [hWxy x hx x hx])]
    have hnt : n ≤ n + t := by omega
    simp only [hnt, if_true, hWnn]
    by_cases h1 : i < n <;> by_cases h2 : j < n
    · have e1 : ¬ n ≤ i := by omega
      have e2 : ¬ n ≤ j := by omega
      simp only [h1, h2, e1, e2, if_true, if_false]; linarith
    · have e1 : ¬ n ≤ i := by omega
      have e2 : n ≤ j := by omega
      simp only [h1, h2, e1, e2, if_true, if_false]; linarith
    · have e1 : n ≤ i := by omega
      have e2 : ¬ n ≤ j := by omega
      simp only [h1, h2, e1, e2, if_true, if_false]; linarith
    · have e1 : n ≤ i := by omega
      have e2 : n ≤ j := by omega
      simp only [h1, h2, e1, e2, if_true, if_false]; linarith
  · rw [samplingOf_edge n g hij]
    have a1 := h.nbi.nonneg i j
    have a2 := h.nbi.nonneg i i
    have a3 := h.nbi.nonneg j j
    have b1 : 0 ≤ (if i < n then getEntry g.nb i i else 0) := by split <;> simp [a2]
    have b2 : 0 ≤ (if j < n then getEntry g.nb j j else 0) := by split <;> simp [a3]
    linarith
  · unfold clusterWeightOf wOf
    simp only [hvi, hvj, hui, huj, Option.getD_some]
    linarith [o1, i1]
  · unfold clusterWeightOf wOf
    simp only [hvi, hvj, hui, huj, Option.getD_some]
    linarith [o2, i2]


/-! ### the whole replay -/

/-- the aggregate graph after the rows -/
def finalGraph {α : Type} (rs : List (Row α)) (g : AggGraph ℚ) : AggGraph ℚ :=
  rs.foldl (fun g r => g.merge r.i r.j) g

/-- what is accumulated: edge sampling values are non-negative and sum to the weight inside merged clusters,
    cluster weights are in [0, 1] -/
structure AccInv (n : Nat) (g : AggGraph ℚ) (acc : Sampling) : Prop where
  psiEq : psi n g = acc.edge.sum
  edgeNonneg : ∀ e ∈ acc.edge, 0 ≤ e
  weightRange : ∀ c ∈ acc.weight, 0 ≤ c ∧ c ≤ 1
  len : acc.edge.length = acc.weight.length

theorem keys_liveStep {α : Type} {n t : Nat} {r : Row α} {L L1 : Dict Nat} (hinv : LInv n t L)
    (h : liveStep n t r L = some L1) :
    r.i ∈ Dict.keys L ∧ r.j ∈ Dict.keys L ∧ r.i ≠ r.j ∧
    Dict.keys L1 = ((Dict.keys L).filter (· != r.i)).filter (· != r.j) ++ [n + t] := by
  obtain ⟨si, sj, hi, hj, hne, hs, _, _, _⟩ := liveStep_spec hinv h
  rw [liveStep_ok hi hj hne hs] at h
  have := (Option.some.inj h).symm
  subst this
  have hfresh : n + t ∉ Dict.keys ((L.erase r.i).erase r.j) := by
    intro hm
    have := hinv.bound _ (Dict.mem_keys_erase.mp (Dict.mem_keys_erase.mp hm).1).1
    omega
  refine ⟨Dict.get?_some_key_mem hi, Dict.get?_some_key_mem hj, hne, ?_⟩
  rw [Dict.set_of_not_mem hfresh]
  simp only [Dict.keys, List.map_append, List.map_cons, List.map_nil]
  have h1 := Dict.keys_erase (L.erase r.i) r.j
  have h2 := Dict.keys_erase L r.i
  simp only [Dict.keys] at h1 h2
  rw [h1, h2]

theorem samplingLoop_spec {α : Type} {n : Nat} : ∀ (rs : List (Row α)) (t : Nat) (g : AggGraph ℚ)
    (acc : Sampling) (L Lf : Dict Nat),
    JInv n t g → Dict.keys g.outW = Dict.keys L → LInv n t L → liveAfter n t rs L = some Lf →
    AccInv n g acc →
    JInv n (t + rs.length) (finalGraph rs g) ∧ Dict.keys (finalGraph rs g).outW = Dict.keys Lf ∧
      AccInv n (finalGraph rs g) (samplingLoop n rs g acc) := by
  intro rs
  induction rs with
  | nil =>
    intro t g acc L Lf hJ hk _ hl hA
    simp only [liveAfter, Option.some.injEq] at hl
    subst hl
    exact ⟨by simpa [finalGraph] using hJ, hk, hA⟩
  | cons r rs ih =>
    intro t g acc L Lf hJ hk hL hl hA
    simp only [liveAfter] at hl
    cases hs : liveStep n t r L with
    | none => simp [hs] at hl
    | some L1 =>
      simp only [hs, Option.bind_some] at hl
      obtain ⟨hi, hj, hne, hk1⟩ := keys_liveStep hL hs
      obtain ⟨_, _, _, _, _, _, hL1, _, _⟩ := liveStep_spec hL hs
      rw [← hk] at hi hj
      obtain ⟨hJ', hpsi, he, hc0, hc1⟩ := jinv_step hJ hi hj hne
      have hk' : Dict.keys (g.merge r.i r.j).outW = Dict.keys L1 := by
        obtain ⟨vi, hvi⟩ := keys_get? hi
        obtain ⟨vj, hvj⟩ := keys_get? hj
        have hnewO : n + t ∉ Dict.keys g.outW := fun hm => by have := hJ.bound _ hm; omega
        have hmo : (g.merge r.i r.j).outW = ((g.outW.erase r.i).erase r.j).set (n + t) (vi + vj) := by
          unfold AggGraph.merge; simp [hvi, hvj, hJ.next]
        rw [hmo, (merged_dict hJ.nodup hvi hvj hne hnewO hJ.outSum hJ.outNonneg).1, hk1, hk]
      have hA' : AccInv n (g.merge r.i r.j)
          { edge := acc.edge ++ [(samplingOf n g r.i r.j).1], node := acc.node ++ [(samplingOf n g r.i r.j).2],
            weight := acc.weight ++ [clusterWeightOf g r.i r.j / 2] } := by
        refine ⟨?_, ?_, ?_, ?_⟩
        · rw [hpsi, hA.psiEq]; simp
        · intro e hem
          rcases List.mem_append.mp hem with h1 | h1
          · exact hA.edgeNonneg e h1
          · simp only [List.mem_cons, List.not_mem_nil, or_false] at h1; rw [h1]; exact he
        · intro c hcm
          rcases List.mem_append.mp hcm with h1 | h1
          · exact hA.weightRange c h1
          · simp only [List.mem_cons, List.not_mem_nil, or_false] at h1; rw [h1]; exact ⟨hc0, hc1⟩
        · simp [hA.len]
      have := ih (t + 1) (g.merge r.i r.j) _ L1 Lf hJ' hk' hL1 hl hA'
      have e : t + (r :: rs).length = t + 1 + rs.length := by simp; omega
      rw [e]
      exact this

/-- `Σ eₖ cₖ` lies between 0 and `Σ eₖ` when `eₖ ≥ 0` and `0 ≤ cₖ ≤ 1` -/
theorem dot_range : ∀ (es cs : List ℚ), (∀ e ∈ es, 0 ≤ e) → (∀ c ∈ cs, 0 ≤ c ∧ c ≤ 1) →
    0 ≤ ((es.zip cs).map fun p => p.1 * p.2).sum ∧ ((es.zip cs).map fun p => p.1 * p.2).sum ≤ es.sum := by
  intro es
  induction es with
  | nil => intro cs _ _; simp
  | cons e es ih =>
    intro cs he hc
    cases cs with
    | nil =>
      simp only [List.zip_nil_right, List.map_nil, List.sum_nil, List.sum_cons]
      refine ⟨le_refl _, ?_⟩
      have h1 := he e List.mem_cons_self
      have h2 : 0 ≤ es.sum := by
        have : ∀ (l : List ℚ), (∀ x ∈ l, 0 ≤ x) → 0 ≤ l.sum := by
          intro l
          induction l with
          | nil => intro _; simp
          | cons a as ih =>
            intro h
            have := h a List.mem_cons_self
            have := ih (fun x hx => h x (List.mem_cons_of_mem _ hx))
            simp only [List.sum_cons]; linarith
        exact this es (fun x hx => he x (List.mem_cons_of_mem _ hx))
      linarith
    | cons c cs =>
      have h1 := he e List.mem_cons_self
      have h2 := hc c List.mem_cons_self
      obtain ⟨i1, i2⟩ := ih cs (fun x hx => he x (List.mem_cons_of_mem _ hx))
        (fun x hx => hc x (List.mem_cons_of_mem _ hx))
      simp only [List.zip_cons_cons, List.map_cons, List.sum_cons]
      have : 0 ≤ e * c := mul_nonneg h1 h2.1
      have : e * c ≤ e := by nlinarith [h2.2]
      constructor <;> linarith

theorem sumR_eq_sum (l : List ℚ) : sumR l = l.sum := by
  unfold sumR
  have : ∀ (a : ℚ) (l : List ℚ), l.foldl (· + ·) a = a + l.sum := by
    intro a l
    induction l generalizing a with
    | nil => simp
    | cons x xs ih => simp only [List.foldl_cons, List.sum_cons, ih]; ring
  rw [this]; simp

end SkNet.HMetrics
