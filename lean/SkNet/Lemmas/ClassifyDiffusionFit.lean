/-
DiffusionClassifier.fit (model `SkNet.Classify.Diffusion.fit`): seeds kept, labels in the seed set, `-1` exactly on the
nodes that are not reached, probability rows.
-/
import SkNet.Lemmas.ClassifyDiffusion

namespace SkNet.Classify.Diffusion
open SkNet.Classify

attribute [-simp] List.getD_eq_getElem?_getD

/-- the pieces of a successful `fit` -/
structure FitParts (c : Csr Rat) (labels : List Int) (nIter : Nat) (centering : Bool) (o : Out) : Prop where
  some_seed : ¬ (labels.all (· < 0) = true)
  temps : o.temps =
    (if centering then
      center labels.length (uniqueLabels labels).length
        (iterate c labels (initTemps labels (uniqueLabels labels)) (uniqueLabels labels).length nIter
          (initTemps labels (uniqueLabels labels)))
     else iterate c labels (initTemps labels (uniqueLabels labels)) (uniqueLabels labels).length nIter
          (initTemps labels (uniqueLabels labels)))
  reach : o.reached = reached labels.length (hasEdge c) (fun v => decide (0 ≤ labels.getD v (-1)))
  labels_eq : o.labels = tab labels.length fun i =>
    if o.reached.getD i false then (uniqueLabels labels).getD (argmax (getRow o.temps i)) (-1) else -1

theorem fit_parts (c : Csr Rat) (labels : List Int) (nIter : Nat) (centering : Bool) (o : Out)
    (h : fit c labels nIter centering = .ok o) : FitParts c labels nIter centering o := by
  unfold fit at h
  split at h
  · cases h
  · rename_i hs
    simp only [Except.ok.injEq] at h
    subst h
    exact ⟨hs, rfl, rfl, rfl⟩

theorem getD_lt_of_nonneg {labels : List Int} {i : Nat} (h : 0 ≤ labels.getD i (-1)) : i < labels.length := by
  by_contra hc
  rw [List.getD_eq_getElem?_getD, List.getElem?_eq_none (by omega)] at h
  simp at h

theorem getD_mem {labels : List Int} {i : Nat} (h : i < labels.length) (d : Int) : labels.getD i d ∈ labels := by
  rw [List.getD_eq_getElem?_getD, List.getElem?_eq_getElem h]
  exact List.getElem_mem h

/-- the clamped row of a seed: one-hot at the position of its label among the unique labels -/
theorem seed_row (c : Csr Rat) (labels : List Int) (nIter : Nat) (i : Nat) (hseed : 0 ≤ labels.getD i (-1)) :
    getRow (iterate c labels (initTemps labels (uniqueLabels labels)) (uniqueLabels labels).length nIter
        (initTemps labels (uniqueLabels labels))) i =
      tab (uniqueLabels labels).length fun q =>
        if indexOf (labels.getD i (-1)) (uniqueLabels labels) == q then 1 else 0 := by
  have hi := getD_lt_of_nonneg hseed
  rw [iterate_seed_row c labels _ _ nIter _ i hi hseed rfl]
  unfold initTemps
  rw [getRow_tab]
  simp [hi, hseed]

theorem unit01_final (c : Csr Rat) (hw : ∀ p, 0 ≤ c.data.getD p 0) (labels : List Int) (nIter : Nat) :
    Unit01 (iterate c labels (initTemps labels (uniqueLabels labels)) (uniqueLabels labels).length nIter
        (initTemps labels (uniqueLabels labels))) :=
  unit01_iterate c hw labels _ _ nIter _ (unit01_init _ _) (unit01_init _ _)

/-- every class has a seed: the column mean of a class is positive -/
theorem mean_pos (c : Csr Rat) (hw : ∀ p, 0 ≤ c.data.getD p 0) (labels : List Int) (nIter : Nat) (q : Nat)
    (hq : q < (uniqueLabels labels).length) :
    0 < rsum (tab labels.length fun j =>
      getCell (iterate c labels (initTemps labels (uniqueLabels labels)) (uniqueLabels labels).length nIter
        (initTemps labels (uniqueLabels labels))) j q) / (labels.length : Rat) := by
  set uniq := uniqueLabels labels with hu
  have hmem : uniq[q] ∈ uniq := List.getElem_mem hq
  obtain ⟨hml, h0⟩ := mem_uniqueLabels.mp hmem
  obtain ⟨j, hj, hje⟩ := List.mem_iff_getElem.mp hml
  have hjd : labels.getD j (-1) = uniq[q] := by
    rw [List.getD_eq_getElem?_getD, List.getElem?_eq_getElem hj]
    simpa using hje
  have hseed : 0 ≤ labels.getD j (-1) := by rw [hjd]; exact h0
  have hcell : getCell (iterate c labels (initTemps labels uniq) uniq.length nIter (initTemps labels uniq)) j q = 1 := by
    rw [getCell_eq_getRow, seed_row c labels nIter j hseed, tab_getD, ← hu]
    rw [hjd, indexOf_getElem (hu ▸ uniqueLabels_nodup labels) q hq]
    simp [hq]
  have hn : (0 : Rat) < (labels.length : Rat) := by
    have : 0 < labels.length := by omega
    exact_mod_cast this
  apply div_pos _ hn
  apply rsum_pos_of_mem (y := 1)
  · intro x hx
    obtain ⟨i, _, rfl⟩ := (mem_tab _ _ _).mp hx
    exact (unit01_final c hw labels nIter i q).1
  · exact (mem_tab _ _ _).mpr ⟨j, hj, hcell⟩
  · norm_num

theorem mean_le_one (c : Csr Rat) (hw : ∀ p, 0 ≤ c.data.getD p 0) (labels : List Int) (nIter : Nat) (q : Nat)
    (hn : 0 < labels.length) :
    rsum (tab labels.length fun j =>
      getCell (iterate c labels (initTemps labels (uniqueLabels labels)) (uniqueLabels labels).length nIter
        (initTemps labels (uniqueLabels labels))) j q) / (labels.length : Rat) ≤ 1 := by
  have hn' : (0 : Rat) < (labels.length : Rat) := by exact_mod_cast hn
  rw [div_le_one hn']
  exact rsum_tab_le _ _ (fun i _ => (unit01_final c hw labels nIter i q).2)

/-- the arg-max of the (possibly centred) row of a seed is the position of its label -/
theorem seed_argmax (c : Csr Rat) (hw : ∀ p, 0 ≤ c.data.getD p 0) (labels : List Int) (nIter : Nat)
    (centering : Bool) (o : Out) (hp : FitParts c labels nIter centering o) (i : Nat)
    (hseed : 0 ≤ labels.getD i (-1)) :
    argmax (getRow o.temps i) = indexOf (labels.getD i (-1)) (uniqueLabels labels) := by
  have hi := getD_lt_of_nonneg hseed
  set uniq := uniqueLabels labels with hu
  have hli : labels.getD i (-1) ∈ uniq := mem_uniqueLabels.mpr ⟨getD_mem hi _, hseed⟩
  have hk0 := indexOf_lt hli
  set k0 := indexOf (labels.getD i (-1)) uniq with hk0d
  rw [hp.temps]
  cases centering with
  | false =>
    simp only [Bool.false_eq_true, if_false]
    rw [seed_row c labels nIter i hseed]
    apply argmax_eq_of_strict _ k0 (by simpa using hk0)
    intro j hj hne
    simp only [tab_length] at hj
    rw [tab_getD, tab_getD]
    simp only [← hu, ← hk0d] at hj ⊢
    have : ¬ (k0 = j) := fun h => hne h.symm
    simp [hj, hk0, this]
  | true =>
    simp only [if_true]
    have hrow : getRow (center labels.length uniq.length
        (iterate c labels (initTemps labels uniq) uniq.length nIter (initTemps labels uniq))) i =
        tab uniq.length fun q =>
          getCell (iterate c labels (initTemps labels uniq) uniq.length nIter (initTemps labels uniq)) i q -
            rsum (tab labels.length fun j =>
              getCell (iterate c labels (initTemps labels uniq) uniq.length nIter (initTemps labels uniq)) j q) /
              (labels.length : Rat) := by
      unfold center
      simp only
      rw [getRow_tab]
      simp only [hi, if_true]
      unfold tab
      apply List.map_congr_left
      intro q hq
      have hq' : q < uniq.length := by simpa using hq
      rw [← tab, tab_getD]
      simp [hq']
    rw [hrow]
    apply argmax_eq_of_strict _ k0 (by simpa using hk0)
    intro j hj hne
    simp only [tab_length] at hj
    rw [tab_getD, tab_getD]
    simp only [hj, hk0, if_true]
    have hcj : getCell (iterate c labels (initTemps labels uniq) uniq.length nIter (initTemps labels uniq)) i j = 0 := by
      rw [getCell_eq_getRow, seed_row c labels nIter i hseed, tab_getD]
      simp only [← hu, ← hk0d]
      have : ¬ (k0 = j) := fun h => hne h.symm
      simp [hj, this]
    have hck : getCell (iterate c labels (initTemps labels uniq) uniq.length nIter (initTemps labels uniq)) i k0 = 1 := by
      rw [getCell_eq_getRow, seed_row c labels nIter i hseed, tab_getD]
      simp only [← hu, ← hk0d]
      simp [hk0]
    rw [hcj, hck]
    have h1 := mean_pos c hw labels nIter j hj
    have h2 := mean_le_one c hw labels nIter k0 (by omega)
    linarith

/-- seeds are reached, so they are not reset -/
theorem seed_reached (c : Csr Rat) (labels : List Int) (nIter : Nat) (centering : Bool) (o : Out)
    (hp : FitParts c labels nIter centering o) (i : Nat) (hseed : 0 ≤ labels.getD i (-1)) :
    o.reached.getD i false = true := by
  rw [hp.reach]
  exact reached_src _ _ _ i (getD_lt_of_nonneg hseed) (by simpa using hseed)

theorem seeds_kept (c : Csr Rat) (hw : ∀ p, 0 ≤ c.data.getD p 0) (labels : List Int) (nIter : Nat)
    (centering : Bool) (o : Out) (h : fit c labels nIter centering = .ok o) (i : Nat)
    (hseed : 0 ≤ labels.getD i (-1)) : o.labels.getD i (-1) = labels.getD i (-1) := by
  have hp := fit_parts c labels nIter centering o h
  have hi := getD_lt_of_nonneg hseed
  rw [hp.labels_eq, tab_getD]
  simp only [hi, if_true, seed_reached c labels nIter centering o hp i hseed]
  rw [seed_argmax c hw labels nIter centering o hp i hseed]
  exact getD_indexOf (mem_uniqueLabels.mpr ⟨getD_mem hi _, hseed⟩) _

/-- rows of the final temperatures have one column per class -/
theorem temps_rowLen (c : Csr Rat) (labels : List Int) (nIter : Nat) (centering : Bool) (o : Out)
    (hp : FitParts c labels nIter centering o) : RowLen labels.length (uniqueLabels labels).length o.temps := by
  rw [hp.temps]
  cases centering with
  | false =>
    simp only [Bool.false_eq_true, if_false]
    exact rowLen_iterate c labels _ _ nIter _ (rowLen_init _ _) (rowLen_init _ _)
  | true =>
    simp only [if_true]
    exact rowLen_center _ _ _

theorem uniq_ne_nil (labels : List Int) (h : ¬ (labels.all (· < 0) = true)) : uniqueLabels labels ≠ [] := by
  intro hnil
  apply h
  rw [List.all_eq_true]
  intro x hx
  by_contra hc
  have h0 : 0 ≤ x := by simpa using hc
  have : x ∈ uniqueLabels labels := mem_uniqueLabels.mpr ⟨hx, h0⟩
  rw [hnil] at this
  cases this

/-- the label of node `i`: `-1` when it is not reached, a label of the seeds otherwise -/
theorem label_cases (c : Csr Rat) (labels : List Int) (nIter : Nat) (centering : Bool) (o : Out)
    (hp : FitParts c labels nIter centering o) (i : Nat) (hi : i < labels.length) :
    (o.reached.getD i false = false ∧ o.labels.getD i (-1) = -1) ∨
    (o.reached.getD i false = true ∧ o.labels.getD i (-1) ∈ labels ∧ 0 ≤ o.labels.getD i (-1)) := by
  have hlab : o.labels.getD i (-1) =
      if o.reached.getD i false then (uniqueLabels labels).getD (argmax (getRow o.temps i)) (-1) else -1 := by
    rw [hp.labels_eq, tab_getD]
    simp [hi]
  cases hr : o.reached.getD i false with
  | false =>
    left
    rw [hlab, hr]
    simp
  | true =>
    right
    rw [hlab, hr]
    simp only [if_true, true_and]
    have hne := uniq_ne_nil labels hp.some_seed
    have hlen := temps_rowLen c labels nIter centering o hp i hi
    have hrne : getRow o.temps i ≠ [] := by
      intro h0
      rw [h0] at hlen
      have : (uniqueLabels labels).length ≠ 0 := by
        intro hz
        exact hne (List.eq_nil_of_length_eq_zero hz)
      simp at hlen
      omega
    have hlt := (argmax_spec _ hrne).1
    rw [hlen] at hlt
    have hm : (uniqueLabels labels).getD (argmax (getRow o.temps i)) (-1) ∈ uniqueLabels labels := by
      rw [List.getD_eq_getElem?_getD, List.getElem?_eq_getElem hlt]
      exact List.getElem_mem hlt
    exact mem_uniqueLabels.mp hm

theorem labels_length (c : Csr Rat) (labels : List Int) (nIter : Nat) (centering : Bool) (o : Out)
    (hp : FitParts c labels nIter centering o) : o.labels.length = labels.length := by
  rw [hp.labels_eq]
  simp

theorem getElem_getRow (t : List (List Rat)) (i q : Nat) (hq : q < (getRow t i).length) :
    (getRow t i)[q] = getCell t i q := by
  rw [getCell_eq_getRow, List.getD_eq_getElem?_getD, List.getElem?_eq_getElem hq]
  rfl

theorem rsum_map_zero {α : Type} (l : List α) : rsum (l.map fun _ => (0 : Rat)) = 0 := by
  induction l with
  | nil => rfl
  | cons x xs ih =>
    simp only [List.map_cons, rsum_cons, ih]
    norm_num

end SkNet.Classify.Diffusion
