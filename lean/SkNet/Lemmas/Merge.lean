/- `AggregateGraph.merge` on the dict of dicts, read as a matrix: `W nb x y = getEntry nb x y` (0 when absent),
   `K nb x y` = the key `y` is stored in row `x`. -/
import SkNet.Model.AggGraph
import SkNet.Lemmas.Dict
import SkNet.Lemmas.Split

set_option linter.unusedSimpArgs false

namespace SkNet.Agg
open SkNet SkNet.Dendro

section prim
variable {α : Type} [Add α] [OfNat α 0]

/-- stored key -/
def K (nb : Dict (Dict α)) (x y : Nat) : Bool := (row nb x).contains y

theorem row_set (nb : Dict (Dict α)) (p : Nat) (r : Dict α) (x : Nat) :
    row (nb.set p r) x = if x = p then r else row nb x := by
  unfold row
  rw [Dict.get?_set]
  split <;> rfl

theorem row_erase (nb : Dict (Dict α)) (p x : Nat) :
    row (nb.erase p) x = if x = p then [] else row nb x := by
  unfold row
  rw [Dict.get?_erase]
  split <;> rfl

theorem getEntry_setEntry (nb : Dict (Dict α)) (p q : Nat) (v : α) (x y : Nat) :
    getEntry (setEntry nb p q v) x y = if x = p ∧ y = q then v else getEntry nb x y := by
  unfold getEntry setEntry
  rw [row_set]
  by_cases hx : x = p
  · subst hx
    simp only [if_true, Dict.get?_set, true_and]
    by_cases hy : y = q <;> simp [hy]
  · simp [hx]

theorem getEntry_delEntry (nb : Dict (Dict α)) (p q : Nat) (x y : Nat) :
    getEntry (delEntry nb p q) x y = if x = p ∧ y = q then 0 else getEntry nb x y := by
  unfold getEntry delEntry
  rw [row_set]
  by_cases hx : x = p
  · subst hx
    simp only [if_true, Dict.get?_erase, true_and]
    by_cases hy : y = q <;> simp [hy]
  · simp [hx]

theorem getEntry_erase (nb : Dict (Dict α)) (p : Nat) (x y : Nat) :
    getEntry (nb.erase p) x y = if x = p then 0 else getEntry nb x y := by
  unfold getEntry
  rw [row_erase]
  by_cases hx : x = p <;> simp [hx]

theorem K_setEntry (nb : Dict (Dict α)) (p q : Nat) (v : α) (x y : Nat) :
    K (setEntry nb p q v) x y = (decide (x = p ∧ y = q) || K nb x y) := by
  unfold K setEntry Dict.contains
  rw [row_set]
  by_cases hx : x = p
  · subst hx
    simp only [if_true, Dict.get?_set, true_and]
    by_cases hy : y = q <;> simp [hy]
  · simp [hx]

theorem K_delEntry (nb : Dict (Dict α)) (p q : Nat) (x y : Nat) :
    K (delEntry nb p q) x y = (K nb x y && !decide (x = p ∧ y = q)) := by
  unfold K delEntry Dict.contains
  rw [row_set]
  by_cases hx : x = p
  · subst hx
    simp only [if_true, Dict.get?_erase, true_and]
    by_cases hy : y = q <;> simp [hy]
  · simp [hx]

theorem K_erase (nb : Dict (Dict α)) (p : Nat) (x y : Nat) :
    K (nb.erase p) x y = (K nb x y && !decide (x = p)) := by
  unfold K Dict.contains
  rw [row_erase]
  by_cases hx : x = p <;> simp [hx]

/-- an absent key reads as zero -/
theorem getEntry_of_not_K {nb : Dict (Dict α)} {x y : Nat} (h : K nb x y = false) : getEntry nb x y = 0 := by
  unfold K Dict.contains at h
  unfold getEntry
  cases hg : (row nb x).get? y with
  | none => rfl
  | some v => simp [hg] at h

theorem mem_keys_row_iff (nb : Dict (Dict α)) (x y : Nat) : y ∈ (row nb x).keys ↔ K nb x y = true := by
  unfold K Dict.contains
  rw [Hier.mem_keys_iff]
  constructor
  · rintro ⟨v, hv⟩; simp [hv]
  · intro h
    cases hg : (row nb x).get? y with
    | none => simp [hg] at h
    | some v => exact ⟨v, rfl⟩

end prim


section steps
variable {α : Type} [Add α] [OfNat α 0]

/-- effect of one iteration of the loop over the common neighbours -/
theorem W_commonStep (nb : Dict (Dict α)) {n1 n2 new c : Nat} (h1 : c ≠ n1) (h2 : c ≠ n2) (h3 : c ≠ new)
    (h4 : new ≠ n1) (h5 : new ≠ n2) (x y : Nat) :
    getEntry (commonStep n1 n2 new nb c) x y =
      if x = new ∧ y = c then getEntry nb n1 c + getEntry nb n2 c
      else if x = c ∧ y = new then getEntry nb c n1 + getEntry nb c n2
      else if (x = n1 ∨ x = n2) ∧ y = c then 0
      else if x = c ∧ (y = n1 ∨ y = n2) then 0
      else getEntry nb x y := by
  unfold commonStep
  simp only [getEntry_setEntry, getEntry_delEntry]
  have e1 : ¬ (c = new ∧ n1 = c) := fun h => h3 h.1
  have e2 : ¬ (c = n2 ∧ n1 = c) := fun h => h2 h.1
  have e3 : ¬ (c = n1 ∧ n1 = c) := fun h => h1 h.1
  have e4 : ¬ (c = new ∧ n2 = c) := fun h => h3 h.1
  have e5 : ¬ (c = n2 ∧ n2 = c) := fun h => h2 h.1
  have e6 : ¬ (c = n1 ∧ n2 = c) := fun h => h1 h.1
  simp only [e1, e2, e3, e4, e5, e6, if_false]
  by_cases hxn : x = new
  · subst hxn
    by_cases hyc : y = c
    · subst hyc; simp [h3, Ne.symm h3]
    · simp [hyc, Ne.symm h3, h4, h5]
  · by_cases hxc : x = c
    · subst hxc
      by_cases hyn : y = new
      · subst hyn; simp [h3]
      · by_cases hy1 : y = n1
        · subst hy1; simp [hyn, h1, h2, h3, Ne.symm h1]
        · by_cases hy2 : y = n2
          · subst hy2; simp [hyn, h1, h2, h3, Ne.symm h2]
          · simp [hyn, hy1, hy2, h1, h2, h3]
    · by_cases hyc : y = c
      · subst hyc
        by_cases hx1 : x = n1
        · subst hx1; simp [hxn, hxc]
        · by_cases hx2 : x = n2
          · subst hx2; simp [hxn, hxc, hx1]
          · simp [hxn, hxc, hx1, hx2]
      · simp [hxn, hxc, hyc]

theorem K_commonStep (nb : Dict (Dict α)) {n1 n2 new c : Nat} (h1 : c ≠ n1) (h2 : c ≠ n2) (h3 : c ≠ new)
    (h4 : new ≠ n1) (h5 : new ≠ n2) (x y : Nat) :
    K (commonStep n1 n2 new nb c) x y =
      if (x = new ∧ y = c) ∨ (x = c ∧ y = new) then true
      else if ((x = n1 ∨ x = n2) ∧ y = c) ∨ (x = c ∧ (y = n1 ∨ y = n2)) then false
      else K nb x y := by
  unfold commonStep
  simp only [K_setEntry, K_delEntry]
  by_cases hxn : x = new
  · subst hxn
    by_cases hyc : y = c
    · subst hyc; simp [h3, Ne.symm h3]
    · simp [hyc, Ne.symm h3, h4, h5]
  · by_cases hxc : x = c
    · subst hxc
      by_cases hyn : y = new
      · subst hyn; simp [h3]
      · by_cases hy1 : y = n1
        · subst hy1; simp [hyn, h1, h2, h3, Ne.symm h1]
        · by_cases hy2 : y = n2
          · subst hy2; simp [hyn, h1, h2, h3, Ne.symm h2]
          · simp [hyn, hy1, hy2, h1, h2, h3]
    · by_cases hyc : y = c
      · subst hyc
        by_cases hx1 : x = n1
        · subst hx1; simp [hxn, hxc]
        · by_cases hx2 : x = n2
          · subst hx2; simp [hxn, hxc, hx1]
          · simp [hxn, hxc, hx1, hx2]
      · simp [hxn, hxc, hyc]

end steps


section folds
variable {α : Type} [Add α] [OfNat α 0]

/-- the whole loop over the common neighbours -/
theorem W_commonFold {n1 n2 new : Nat} (h4 : new ≠ n1) (h5 : new ≠ n2) :
    ∀ (cs : List Nat) (nb : Dict (Dict α)), cs.Nodup → (∀ c ∈ cs, c ≠ n1 ∧ c ≠ n2 ∧ c ≠ new) →
    ∀ x y, getEntry (cs.foldl (commonStep n1 n2 new) nb) x y =
      if x = new ∧ y ∈ cs then getEntry nb n1 y + getEntry nb n2 y
      else if y = new ∧ x ∈ cs then getEntry nb x n1 + getEntry nb x n2
      else if (x = n1 ∨ x = n2) ∧ y ∈ cs then 0
      else if (y = n1 ∨ y = n2) ∧ x ∈ cs then 0
      else getEntry nb x y := by
  intro cs
  induction cs with
  | nil => intro nb _ _ x y; simp
  | cons c cs ih =>
    intro nb hnd hcs x y
    have hnd' := List.nodup_cons.mp hnd
    obtain ⟨h1, h2, h3⟩ := hcs c List.mem_cons_self
    have hcs' : ∀ c' ∈ cs, c' ≠ n1 ∧ c' ≠ n2 ∧ c' ≠ new := fun c' hc' => hcs c' (List.mem_cons_of_mem _ hc')
    rw [List.foldl_cons, ih _ hnd'.2 hcs' x y]
    simp only [W_commonStep nb h1 h2 h3 h4 h5, List.mem_cons]
    -- membership facts
    have hcne : ∀ z, z ∈ cs → z ≠ c := fun z hz e => hnd'.1 (e ▸ hz)
    have hccs : c ∉ cs := hnd'.1
    have hnewcs : new ∉ cs := fun hm => (hcs' new hm).2.2 rfl
    have hn1cs : n1 ∉ cs := fun hm => (hcs' n1 hm).1 rfl
    have hn2cs : n2 ∉ cs := fun hm => (hcs' n2 hm).2.1 rfl
    have hxcs : x ∈ cs → x ≠ c ∧ x ≠ n1 ∧ x ≠ n2 ∧ x ≠ new := fun hm =>
      ⟨hcne x hm, (hcs' x hm).1, (hcs' x hm).2.1, (hcs' x hm).2.2⟩
    have hycs : y ∈ cs → y ≠ c ∧ y ≠ n1 ∧ y ≠ n2 ∧ y ≠ new := fun hm =>
      ⟨hcne y hm, (hcs' y hm).1, (hcs' y hm).2.1, (hcs' y hm).2.2⟩
    have hx : x = new ∨ x = c ∨ x = n1 ∨ x = n2 ∨ x ∈ cs ∨
        (x ≠ new ∧ x ≠ c ∧ x ≠ n1 ∧ x ≠ n2 ∧ x ∉ cs) := by
      by_cases e1 : x = new; · exact Or.inl e1
      by_cases e2 : x = c; · exact Or.inr (Or.inl e2)
      by_cases e3 : x = n1; · exact Or.inr (Or.inr (Or.inl e3))
      by_cases e4 : x = n2; · exact Or.inr (Or.inr (Or.inr (Or.inl e4)))
      by_cases e5 : x ∈ cs; · exact Or.inr (Or.inr (Or.inr (Or.inr (Or.inl e5))))
      exact Or.inr (Or.inr (Or.inr (Or.inr (Or.inr ⟨e1, e2, e3, e4, e5⟩))))
    have hy : y = new ∨ y = c ∨ y = n1 ∨ y = n2 ∨ y ∈ cs ∨
        (y ≠ new ∧ y ≠ c ∧ y ≠ n1 ∧ y ≠ n2 ∧ y ∉ cs) := by
      by_cases e1 : y = new; · exact Or.inl e1
      by_cases e2 : y = c; · exact Or.inr (Or.inl e2)
      by_cases e3 : y = n1; · exact Or.inr (Or.inr (Or.inl e3))
      by_cases e4 : y = n2; · exact Or.inr (Or.inr (Or.inr (Or.inl e4)))
      by_cases e5 : y ∈ cs; · exact Or.inr (Or.inr (Or.inr (Or.inr (Or.inl e5))))
      exact Or.inr (Or.inr (Or.inr (Or.inr (Or.inr ⟨e1, e2, e3, e4, e5⟩))))
    clear ih hcs hcs' hnd hnd'
    have h1' := Ne.symm h1
    have h2' := Ne.symm h2
    have h3' := Ne.symm h3
    have h4' := Ne.symm h4
    have h5' := Ne.symm h5
    rcases hx with hxe | hxe | hxe | hxe | hxm | ⟨a1, a2, a3, a4, a5⟩ <;>
      rcases hy with hye | hye | hye | hye | hym | ⟨b1, b2, b3, b4, b5⟩ <;>
      simp_all

end folds


section foldsK
variable {α : Type} [Add α] [OfNat α 0]

theorem K_commonFold {n1 n2 new : Nat} (h4 : new ≠ n1) (h5 : new ≠ n2) :
    ∀ (cs : List Nat) (nb : Dict (Dict α)), cs.Nodup → (∀ c ∈ cs, c ≠ n1 ∧ c ≠ n2 ∧ c ≠ new) →
    ∀ x y, K (cs.foldl (commonStep n1 n2 new) nb) x y =
      if (x = new ∧ y ∈ cs) ∨ (y = new ∧ x ∈ cs) then true
      else if ((x = n1 ∨ x = n2) ∧ y ∈ cs) ∨ ((y = n1 ∨ y = n2) ∧ x ∈ cs) then false
      else K nb x y := by
  intro cs
  induction cs with
  | nil => intro nb _ _ x y; simp
  | cons c cs ih =>
    intro nb hnd hcs x y
    have hnd' := List.nodup_cons.mp hnd
    obtain ⟨h1, h2, h3⟩ := hcs c List.mem_cons_self
    have hcs' : ∀ c' ∈ cs, c' ≠ n1 ∧ c' ≠ n2 ∧ c' ≠ new := fun c' hc' => hcs c' (List.mem_cons_of_mem _ hc')
    rw [List.foldl_cons, ih _ hnd'.2 hcs' x y]
    simp only [K_commonStep nb h1 h2 h3 h4 h5, List.mem_cons]
    have hcne : ∀ z, z ∈ cs → z ≠ c := fun z hz e => hnd'.1 (e ▸ hz)
    have hccs : c ∉ cs := hnd'.1
    have hnewcs : new ∉ cs := fun hm => (hcs' new hm).2.2 rfl
    have hn1cs : n1 ∉ cs := fun hm => (hcs' n1 hm).1 rfl
    have hn2cs : n2 ∉ cs := fun hm => (hcs' n2 hm).2.1 rfl
    have hxcs : x ∈ cs → x ≠ c ∧ x ≠ n1 ∧ x ≠ n2 ∧ x ≠ new := fun hm =>
      ⟨hcne x hm, (hcs' x hm).1, (hcs' x hm).2.1, (hcs' x hm).2.2⟩
    have hycs : y ∈ cs → y ≠ c ∧ y ≠ n1 ∧ y ≠ n2 ∧ y ≠ new := fun hm =>
      ⟨hcne y hm, (hcs' y hm).1, (hcs' y hm).2.1, (hcs' y hm).2.2⟩
    have hx : x = new ∨ x = c ∨ x = n1 ∨ x = n2 ∨ x ∈ cs ∨
        (x ≠ new ∧ x ≠ c ∧ x ≠ n1 ∧ x ≠ n2 ∧ x ∉ cs) := by
      by_cases e1 : x = new; · exact Or.inl e1
      by_cases e2 : x = c; · exact Or.inr (Or.inl e2)
      by_cases e3 : x = n1; · exact Or.inr (Or.inr (Or.inl e3))
      by_cases e4 : x = n2; · exact Or.inr (Or.inr (Or.inr (Or.inl e4)))
      by_cases e5 : x ∈ cs; · exact Or.inr (Or.inr (Or.inr (Or.inr (Or.inl e5))))
      exact Or.inr (Or.inr (Or.inr (Or.inr (Or.inr ⟨e1, e2, e3, e4, e5⟩))))
    have hy : y = new ∨ y = c ∨ y = n1 ∨ y = n2 ∨ y ∈ cs ∨
        (y ≠ new ∧ y ≠ c ∧ y ≠ n1 ∧ y ≠ n2 ∧ y ∉ cs) := by
      by_cases e1 : y = new; · exact Or.inl e1
      by_cases e2 : y = c; · exact Or.inr (Or.inl e2)
      by_cases e3 : y = n1; · exact Or.inr (Or.inr (Or.inl e3))
      by_cases e4 : y = n2; · exact Or.inr (Or.inr (Or.inr (Or.inl e4)))
      by_cases e5 : y ∈ cs; · exact Or.inr (Or.inr (Or.inr (Or.inr (Or.inl e5))))
      exact Or.inr (Or.inr (Or.inr (Or.inr (Or.inr ⟨e1, e2, e3, e4, e5⟩))))
    clear ih hcs hcs' hnd hnd'
    have h1' := Ne.symm h1
    have h2' := Ne.symm h2
    have h3' := Ne.symm h3
    have h4' := Ne.symm h4
    have h5' := Ne.symm h5
    rcases hx with hxe | hxe | hxe | hxe | hxm | ⟨a1, a2, a3, a4, a5⟩ <;>
      rcases hy with hye | hye | hye | hye | hym | ⟨b1, b2, b3, b4, b5⟩ <;>
      simp_all

/-- effect of one iteration of the loop over the remaining neighbours of `node` -/
theorem W_otherStep (nb : Dict (Dict α)) {node new c : Nat} (h1 : c ≠ node) (h3 : c ≠ new) (h4 : new ≠ node)
    (x y : Nat) :
    getEntry (otherStep node new nb c) x y =
      if x = new ∧ y = c then getEntry nb node c
      else if x = c ∧ y = new then getEntry nb c node
      else if x = node ∧ y = c then 0
      else if x = c ∧ y = node then 0
      else getEntry nb x y := by
  unfold otherStep
  simp only [getEntry_setEntry, getEntry_delEntry]
  have h1' := Ne.symm h1
  have h3' := Ne.symm h3
  have h4' := Ne.symm h4
  by_cases hxn : x = new <;> by_cases hxc : x = c <;> by_cases hxd : x = node <;>
    by_cases hyn : y = new <;> by_cases hyc : y = c <;> by_cases hyd : y = node <;> simp_all

theorem K_otherStep (nb : Dict (Dict α)) {node new c : Nat} (h1 : c ≠ node) (h3 : c ≠ new) (h4 : new ≠ node)
    (x y : Nat) :
    K (otherStep node new nb c) x y =
      if (x = new ∧ y = c) ∨ (x = c ∧ y = new) then true
      else if (x = node ∧ y = c) ∨ (x = c ∧ y = node) then false
      else K nb x y := by
  unfold otherStep
  simp only [K_setEntry, K_delEntry]
  have h1' := Ne.symm h1
  have h3' := Ne.symm h3
  have h4' := Ne.symm h4
  by_cases hxn : x = new <;> by_cases hxc : x = c <;> by_cases hxd : x = node <;>
    by_cases hyn : y = new <;> by_cases hyc : y = c <;> by_cases hyd : y = node <;> simp_all

theorem W_otherFold {node new : Nat} (h4 : new ≠ node) :
    ∀ (cs : List Nat) (nb : Dict (Dict α)), cs.Nodup → (∀ c ∈ cs, c ≠ node ∧ c ≠ new) →
    ∀ x y, getEntry (cs.foldl (otherStep node new) nb) x y =
      if x = new ∧ y ∈ cs then getEntry nb node y
      else if y = new ∧ x ∈ cs then getEntry nb x node
      else if x = node ∧ y ∈ cs then 0
      else if y = node ∧ x ∈ cs then 0
      else getEntry nb x y := by
  intro cs
  induction cs with
  | nil => intro nb _ _ x y; simp
  | cons c cs ih =>
    intro nb hnd hcs x y
    have hnd' := List.nodup_cons.mp hnd
    obtain ⟨h1, h3⟩ := hcs c List.mem_cons_self
    have hcs' : ∀ c' ∈ cs, c' ≠ node ∧ c' ≠ new := fun c' hc' => hcs c' (List.mem_cons_of_mem _ hc')
    rw [List.foldl_cons, ih _ hnd'.2 hcs' x y]
    simp only [W_otherStep nb h1 h3 h4, List.mem_cons]
    have hcne : ∀ z, z ∈ cs → z ≠ c := fun z hz e => hnd'.1 (e ▸ hz)
    have hccs : c ∉ cs := hnd'.1
    have hnewcs : new ∉ cs := fun hm => (hcs' new hm).2 rfl
    have hndcs : node ∉ cs := fun hm => (hcs' node hm).1 rfl
    have hxcs : x ∈ cs → x ≠ c ∧ x ≠ node ∧ x ≠ new := fun hm => ⟨hcne x hm, (hcs' x hm).1, (hcs' x hm).2⟩
    have hycs : y ∈ cs → y ≠ c ∧ y ≠ node ∧ y ≠ new := fun hm => ⟨hcne y hm, (hcs' y hm).1, (hcs' y hm).2⟩
    clear ih hcs hcs' hnd hnd'
    have h1' := Ne.symm h1
    have h3' := Ne.symm h3
    have h4' := Ne.symm h4
    by_cases hxn : x = new <;> by_cases hxc : x = c <;> by_cases hxd : x = node <;> by_cases hxm : x ∈ cs <;>
      by_cases hyn : y = new <;> by_cases hyc : y = c <;> by_cases hyd : y = node <;> by_cases hym : y ∈ cs <;>
      simp_all

theorem K_otherFold {node new : Nat} (h4 : new ≠ node) :
    ∀ (cs : List Nat) (nb : Dict (Dict α)), cs.Nodup → (∀ c ∈ cs, c ≠ node ∧ c ≠ new) →
    ∀ x y, K (cs.foldl (otherStep node new) nb) x y =
      if (x = new ∧ y ∈ cs) ∨ (y = new ∧ x ∈ cs) then true
      else if (x = node ∧ y ∈ cs) ∨ (y = node ∧ x ∈ cs) then false
      else K nb x y := by
  intro cs
  induction cs with
  | nil => intro nb _ _ x y; simp
  | cons c cs ih =>
    intro nb hnd hcs x y
    have hnd' := List.nodup_cons.mp hnd
    obtain ⟨h1, h3⟩ := hcs c List.mem_cons_self
    have hcs' : ∀ c' ∈ cs, c' ≠ node ∧ c' ≠ new := fun c' hc' => hcs c' (List.mem_cons_of_mem _ hc')
    rw [List.foldl_cons, ih _ hnd'.2 hcs' x y]
    simp only [K_otherStep nb h1 h3 h4, List.mem_cons]
    have hcne : ∀ z, z ∈ cs → z ≠ c := fun z hz e => hnd'.1 (e ▸ hz)
    have hccs : c ∉ cs := hnd'.1
    have hnewcs : new ∉ cs := fun hm => (hcs' new hm).2 rfl
    have hndcs : node ∉ cs := fun hm => (hcs' node hm).1 rfl
    have hxcs : x ∈ cs → x ≠ c ∧ x ≠ node ∧ x ≠ new := fun hm => ⟨hcne x hm, (hcs' x hm).1, (hcs' x hm).2⟩
    have hycs : y ∈ cs → y ≠ c ∧ y ≠ node ∧ y ≠ new := fun hm => ⟨hcne y hm, (hcs' y hm).1, (hcs' y hm).2⟩
    clear ih hcs hcs' hnd hnd'
    have h1' := Ne.symm h1
    have h3' := Ne.symm h3
    have h4' := Ne.symm h4
    by_cases hxn : x = new <;> by_cases hxc : x = c <;> by_cases hxd : x = node <;> by_cases hxm : x ∈ cs <;>
      by_cases hyn : y = new <;> by_cases hyc : y = c <;> by_cases hyd : y = node <;> by_cases hym : y ∈ cs <;>
      simp_all

end foldsK


/-! ### rows keep distinct keys -/
section rowsNodup
variable {α : Type} [Add α] [OfNat α 0]

def RowsNodup (nb : Dict (Dict α)) : Prop := ∀ x, (row nb x).keys.Nodup

theorem keys_set_of_mem {β : Type} {d : Dict β} {k : Nat} (h : k ∈ Dict.keys d) (v : β) :
    Dict.keys (d.set k v) = Dict.keys d := by
  induction d with
  | nil => simp [Dict.keys] at h
  | cons p r ih =>
    obtain ⟨k', v'⟩ := p
    simp only [Dict.set]
    split
    · rename_i e; subst e; simp [Dict.keys]
    · rename_i e
      simp only [Dict.keys, List.map_cons, List.mem_cons] at h ⊢
      rcases h with h | h
      · exact absurd h.symm e
      · have := ih h
        simp only [Dict.keys] at this
        rw [this]

theorem nodup_keys_set {β : Type} {d : Dict β} (hd : (Dict.keys d).Nodup) (k : Nat) (v : β) :
    (Dict.keys (d.set k v)).Nodup := by
  by_cases h : k ∈ Dict.keys d
  · rw [keys_set_of_mem h]; exact hd
  · exact Hier.nodup_set_fresh hd h v

theorem rowsNodup_setEntry {nb : Dict (Dict α)} (h : RowsNodup nb) (p q : Nat) (v : α) :
    RowsNodup (setEntry nb p q v) := by
  intro x
  unfold setEntry
  rw [row_set]
  split
  · exact nodup_keys_set (h p) q v
  · exact h x

theorem rowsNodup_delEntry {nb : Dict (Dict α)} (h : RowsNodup nb) (p q : Nat) :
    RowsNodup (delEntry nb p q) := by
  intro x
  unfold delEntry
  rw [row_set]
  split
  · exact Dict.nodup_keys_erase (h p) q
  · exact h x

theorem rowsNodup_erase {nb : Dict (Dict α)} (h : RowsNodup nb) (p : Nat) : RowsNodup (nb.erase p) := by
  intro x
  rw [row_erase]
  split
  · simp [Dict.keys]
  · exact h x

theorem rowsNodup_commonStep {nb : Dict (Dict α)} (h : RowsNodup nb) (n1 n2 new c : Nat) :
    RowsNodup (commonStep n1 n2 new nb c) := by
  unfold commonStep
  exact rowsNodup_setEntry (rowsNodup_delEntry (rowsNodup_delEntry (rowsNodup_setEntry
    (rowsNodup_delEntry (rowsNodup_delEntry h _ _) _ _) _ _ _) _ _) _ _) _ _ _

theorem rowsNodup_otherStep {nb : Dict (Dict α)} (h : RowsNodup nb) (node new c : Nat) :
    RowsNodup (otherStep node new nb c) := by
  unfold otherStep
  exact rowsNodup_setEntry (rowsNodup_delEntry (rowsNodup_setEntry (rowsNodup_delEntry h _ _) _ _ _) _ _) _ _ _

theorem rowsNodup_selfStep {nb : Dict (Dict α)} (h : RowsNodup nb) (node new c : Nat) :
    RowsNodup (selfStep node new nb c) := by
  unfold selfStep
  split
  · exact rowsNodup_setEntry h _ _ _
  · exact h

theorem rowsNodup_foldl {β : Type} (f : Dict (Dict α) → β → Dict (Dict α))
    (hf : ∀ nb b, RowsNodup nb → RowsNodup (f nb b)) :
    ∀ (l : List β) (nb : Dict (Dict α)), RowsNodup nb → RowsNodup (l.foldl f nb) := by
  intro l
  induction l with
  | nil => intro nb h; exact h
  | cons b bs ih => intro nb h; exact ih _ (hf nb b h)

theorem rowsNodup_nodeStep {nb : Dict (Dict α)} (h : RowsNodup nb) (n1 n2 new : Nat) (nodes : List Nat)
    (node : Nat) : RowsNodup (nodeStep n1 n2 new nodes nb node) := by
  unfold nodeStep
  refine rowsNodup_erase ?_ _
  refine rowsNodup_foldl _ (fun nb b hb => rowsNodup_selfStep hb _ _ _) _ _ ?_
  exact rowsNodup_foldl _ (fun nb b hb => rowsNodup_otherStep hb _ _ _) _ _ h

theorem rowsNodup_mergeNb {nb : Dict (Dict α)} (h : RowsNodup nb) (n1 n2 new : Nat) :
    RowsNodup (mergeNb nb n1 n2 new) := by
  unfold mergeNb
  refine rowsNodup_foldl _ (fun nb b hb => rowsNodup_nodeStep hb _ _ _ _ _) _ _ ?_
  refine rowsNodup_foldl _ (fun nb b hb => rowsNodup_commonStep hb _ _ _ _) _ _ ?_
  intro x
  rw [row_set]
  split
  · simp [Dict.keys]
  · exact h x

end rowsNodup

end SkNet.Agg
