/-
C15 lemmas: Regularizer, the SparseLR branches of utils/format.py (directed2undirected, bipartite2directed,
bipartite2undirected) and `normalize` of a SparseLR, against the dense definitions.
-/
import SkNet.Lemmas.LinOpSLR
import SkNet.Spec.LinOp

namespace SkNet.LinOp
open SkNet

namespace Mat

theorem get_block (b c : Mat) (i j : Nat) :
    (block b c).get i j =
      if i < b.nRow + b.nCol ∧ j < b.nRow + b.nCol then
        (if i < b.nRow then (if j < b.nRow then 0 else b.get i (j - b.nRow))
         else (if j < b.nRow then c.get (i - b.nRow) j else 0))
      else 0 := by
  unfold block; rw [get_ofFn]

/-- `diag(w) · A` scales the rows -/
theorem diag_mul (w : Vec) (a : Mat) : Eqv ((diag a.nRow w).mul a) (scaleRows w a) := by
  refine ⟨rfl, rfl, fun i j => ?_⟩
  unfold scaleRows
  rw [get_mul, get_ofFn, diag_nCol]
  simp only [get_diag]
  rw [show (fun k => (if i < a.nRow ∧ i = k then vget w i else 0) * a.get k j)
        = (fun k => if i = k then (if i < a.nRow then vget w i * a.get k j else 0) else 0) from by
      funext k
      by_cases h1 : i = k <;> by_cases h2 : i < a.nRow <;> simp [h1, h2]]
  rw [sumTo_ite_eq']
  by_cases h : i < a.nRow
  · by_cases h2 : j < a.nCol
    · simp [h, h2]
    · simp [h, h2, get_of_col_ge i (Nat.le_of_not_lt h2)]
  · simp [h]

theorem scaleRows_nRow (w : Vec) (a : Mat) : (scaleRows w a).nRow = a.nRow := rfl
theorem scaleRows_nCol (w : Vec) (a : Mat) : (scaleRows w a).nCol = a.nCol := rfl

theorem get_scaleRows (w : Vec) (a : Mat) (i j : Nat) : (scaleRows w a).get i j = vget w i * a.get i j := by
  unfold scaleRows
  rw [get_ofFn]
  by_cases h : i < a.nRow ∧ j < a.nCol
  · simp [h]
  · simp [h, get_of_not_lt h]

theorem Eqv.scaleRows {a a' : Mat} {w w' : Vec} (hw : w = w') (h : Eqv a a') : Eqv (scaleRows w a) (scaleRows w' a') := by
  subst hw
  exact ⟨h.nRow, h.nCol, fun i j => by rw [get_scaleRows, get_scaleRows, h.get]⟩

theorem Eqv.rowSums {a a' : Mat} (h : Eqv a a') : a.rowSums = a'.rowSums := by
  unfold Mat.rowSums; rw [h.nCol]; exact h.mulVec _

end Mat

@[simp] theorem pinvVec_length (w : Vec) : (pinvVec w).length = w.length := by simp [pinvVec]

theorem vget_pinvVec (w : Vec) (i : Nat) : vget (pinvVec w) i = pinv (vget w i) := by
  unfold pinvVec
  rw [vget_tab]
  by_cases h : i < w.length
  · simp [h]
  · simp [h, vget_of_ge (Nat.le_of_not_lt h), pinv]

/-! ### Regularizer -/

theorem regularizer_dense {a : Mat} {reg : Rat} {s : SLR} (h : regularizer a reg = .ok s) :
    s.Valid ∧ Mat.Eqv s.dense (regularized a reg) := by
  unfold regularizer at h
  have hv := SLR.init_valid h
  obtain ⟨rfl, -⟩ := SLR.init_ok h
  refine ⟨hv, rfl, rfl, fun i j => ?_⟩
  unfold regularized
  rw [SLR.get_dense hv, Mat.get_add (by simp) (by simp)]
  simp only [SLR.lrEntry_cons, SLR.lrEntry_nil, vget_tab, Mat.get_const]
  by_cases h1 : i < a.nRow <;> by_cases h2 : j < a.nCol <;> simp [h1, h2] <;> ring

/-- a Regularizer always constructs -/
theorem regularizer_ok (a : Mat) (reg : Rat) : ∃ s, regularizer a reg = .ok s := by
  unfold regularizer
  exact ⟨_, SLR.init_of_valid _ _ (by intro t ht; simp at ht; subst ht; simp)⟩

/-! ### directed2undirected on a SparseLR -/

theorem slrD2U_dense {s t : SLR} (hv : s.Valid) (h : slrD2U s = .ok t) :
    t.Valid ∧ s.sparse.nRow = s.sparse.nCol ∧ Mat.Eqv t.dense (s.dense.add s.dense.transpose) := by
  unfold slrD2U at h
  obtain ⟨m, hm, h⟩ := bind_eq_ok h
  obtain ⟨hr, hc, rfl⟩ := Mat.add?_ok hm
  simp at hr hc
  have hv' := SLR.init_valid h
  obtain ⟨rfl, -⟩ := SLR.init_ok h
  refine ⟨hv', hr, rfl, rfl, fun i j => ?_⟩
  rw [SLR.get_dense hv', Mat.get_add (a := s.dense) (b := s.dense.transpose) (by simpa using hr) (by simpa using hc),
    Mat.get_transpose, SLR.get_dense hv, SLR.get_dense hv]
  simp only [Mat.get_add (a := s.sparse) (b := s.sparse.transpose) (by simpa using hr) (by simpa using hc),
    Mat.get_transpose, SLR.lrEntry_append, SLR.lrEntry_map_swap]
  ring

/-! ### bipartite conversions on a SparseLR -/

theorem vget_pad_right {x : Vec} {r c : Nat} (hx : x.length = r) (i : Nat) :
    vget (x ++ zeros c) i = if i < r then vget x i else 0 := by
  by_cases h : i < r
  · rw [vget_append_left (by omega)]; simp [h]
  · rw [vget_append_right (by omega)]; simp [h]

theorem vget_pad_left {y : Vec} {r : Nat} (j : Nat) :
    vget (zeros r ++ y) j = if j < r then 0 else vget y (j - r) := by
  by_cases h : j < r
  · rw [vget_append_left (by simpa using h)]; simp [h]
  · rw [vget_append_right (by simpa using Nat.le_of_not_lt h)]; simp [h]

theorem lrEntry_pad {ts : List (Vec × Vec)} {r c : Nat} (hv : ∀ t ∈ ts, t.1.length = r) (i j : Nat) :
    SLR.lrEntry (ts.map fun t => (t.1 ++ zeros c, zeros r ++ t.2)) i j
      = if i < r ∧ r ≤ j then SLR.lrEntry ts i (j - r) else 0 := by
  induction ts with
  | nil => simp
  | cons t ts ih =>
    simp only [List.map_cons, SLR.lrEntry_cons, ih (fun u hu => hv u (List.mem_cons_of_mem _ hu)),
      vget_pad_right (hv t (List.mem_cons_self ..)), vget_pad_left]
    by_cases h1 : i < r <;> by_cases h2 : j < r
    · have : ¬ r ≤ j := by omega
      simp [h1, h2, this]
    · have : r ≤ j := by omega
      simp [h1, h2, this]
    · simp [h1, h2]
    · simp [h1, h2]

theorem slrB2D_dense {s t : SLR} (hv : s.Valid) (h : slrB2D s = .ok t) :
    t.Valid ∧ Mat.Eqv t.dense (Mat.block s.dense (Mat.zero s.dense.nCol s.dense.nRow)) := by
  unfold slrB2D at h
  have hv' := SLR.init_valid h
  obtain ⟨rfl, -⟩ := SLR.init_ok h
  refine ⟨hv', rfl, rfl, fun i j => ?_⟩
  have hp := lrEntry_pad (ts := s.tuples) (r := s.nRow) (c := s.nCol) (fun t ht => (hv t ht).1) i j
  rw [SLR.get_dense hv']
  dsimp only
  rw [hp, Mat.get_block, Mat.get_block]
  simp only [SLR.dense_nRow, SLR.dense_nCol, Mat.get_zero, SLR.nRow, SLR.nCol]
  by_cases h1 : i < s.sparse.nRow
  · by_cases h2 : j < s.sparse.nRow
    · have : ¬ s.sparse.nRow ≤ j := by omega
      simp [h1, h2, this]
    · have h2' : s.sparse.nRow ≤ j := by omega
      by_cases h3 : j < s.sparse.nRow + s.sparse.nCol
      · have h4 : i < s.sparse.nRow + s.sparse.nCol := by omega
        simp [h1, h2, h2', h3, h4, SLR.get_dense hv]
      · have := SLR.lrEntry_col_ge (ts := s.tuples) (m := s.sparse.nCol) (fun t ht => (hv t ht).2) i
          (j := j - s.sparse.nRow) (by omega)
        simp [h1, h2', h3, this]
  · simp [h1]

theorem lrEntry_pad2 {ts : List (Vec × Vec)} {r c : Nat} (hv : ∀ t ∈ ts, t.1.length = r) (i j : Nat) :
    SLR.lrEntry (ts.flatMap fun t =>
        [(t.1 ++ zeros c, zeros r ++ t.2), (zeros r ++ t.2, t.1 ++ zeros c)]) i j
      = (if i < r ∧ r ≤ j then SLR.lrEntry ts i (j - r) else 0)
        + (if j < r ∧ r ≤ i then SLR.lrEntry ts j (i - r) else 0) := by
  induction ts with
  | nil => simp
  | cons t ts ih =>
    simp only [List.flatMap_cons, List.cons_append, List.nil_append, SLR.lrEntry_cons,
      ih (fun u hu => hv u (List.mem_cons_of_mem _ hu)),
      vget_pad_right (hv t (List.mem_cons_self ..)), vget_pad_left]
    by_cases h1 : i < r <;> by_cases h2 : j < r
    · have a : ¬ r ≤ j := by omega
      have b : ¬ r ≤ i := by omega
      simp [h1, h2, a, b]
    · have a : r ≤ j := by omega
      have b : ¬ r ≤ i := by omega
      simp [h1, h2, a, b]
    · have a : ¬ r ≤ j := by omega
      have b : r ≤ i := by omega
      simp [h1, h2, a, b]; ring
    · simp [h1, h2]

theorem slrB2U_dense {s t : SLR} (hv : s.Valid) (h : slrB2U s = .ok t) :
    t.Valid ∧ Mat.Eqv t.dense (Mat.block s.dense s.dense.transpose) := by
  unfold slrB2U at h
  have hv' := SLR.init_valid h
  obtain ⟨rfl, -⟩ := SLR.init_ok h
  refine ⟨hv', rfl, rfl, fun i j => ?_⟩
  have hp := lrEntry_pad2 (ts := s.tuples) (r := s.nRow) (c := s.nCol) (fun t ht => (hv t ht).1) i j
  rw [SLR.get_dense hv']
  dsimp only
  rw [hp, Mat.get_block, Mat.get_block]
  simp only [SLR.dense_nRow, SLR.dense_nCol, Mat.get_transpose, SLR.nRow, SLR.nCol]
  by_cases h1 : i < s.sparse.nRow
  · have h1' : ¬ s.sparse.nRow ≤ i := by omega
    by_cases h2 : j < s.sparse.nRow
    · have : ¬ s.sparse.nRow ≤ j := by omega
      simp [h1, h2, this, h1']
    · have h2' : s.sparse.nRow ≤ j := by omega
      by_cases h3 : j < s.sparse.nRow + s.sparse.nCol
      · have h4 : i < s.sparse.nRow + s.sparse.nCol := by omega
        simp [h1, h2, h2', h3, h4, h1', SLR.get_dense hv]
      · have := SLR.lrEntry_col_ge (ts := s.tuples) (m := s.sparse.nCol) (fun t ht => (hv t ht).2) i
          (j := j - s.sparse.nRow) (by omega)
        simp [h1, h2, h2', h3, h1', this]
  · have h1' : s.sparse.nRow ≤ i := by omega
    by_cases h2 : j < s.sparse.nRow
    · by_cases h3 : i < s.sparse.nRow + s.sparse.nCol
      · have h4 : j < s.sparse.nRow + s.sparse.nCol := by omega
        simp [h1, h2, h1', h3, h4, SLR.get_dense hv]
      · have := SLR.lrEntry_col_ge (ts := s.tuples) (m := s.sparse.nCol) (fun t ht => (hv t ht).2) j
          (j := i - s.sparse.nRow) (by omega)
        simp [h1, h2, h1', h3, this]
    · simp [h1, h2]

/-! ### normalize on a SparseLR -/

theorem slrNormalize_dense {s t : SLR} (hv : s.Valid) (h : slrNormalize s = .ok t) :
    t.Valid ∧ Mat.Eqv t.dense (rowNormalized s.dense) := by
  unfold slrNormalize at h
  obtain ⟨hv', -, he⟩ := SLR.leftDot_dense hv h
  refine ⟨hv', he.trans ?_⟩
  unfold rowNormalized
  rw [SLR.sum1_eq]
  exact Mat.diag_mul _ s.dense

/-- normalising a SparseLR never raises -/
theorem slrNormalize_ok {s : SLR} (hv : s.Valid) : ∃ t, slrNormalize s = .ok t := by
  unfold slrNormalize SLR.leftDot
  have h1 : (Mat.diag s.nRow (pinvVec s.sum1)).mul? s.sparse
      = .ok ((Mat.diag s.nRow (pinvVec s.sum1)).mul s.sparse) := by
    unfold Mat.mul?; simp [SLR.nRow]
  rw [h1]
  simp only [bind, Except.bind]
  have h2 : ∀ ts : List (Vec × Vec), (∀ t ∈ ts, t.1.length = s.nRow) →
      SLR.mapFst? (Mat.diag s.nRow (pinvVec s.sum1)).mulVec? ts
        = .ok (ts.map fun t => ((Mat.diag s.nRow (pinvVec s.sum1)).mulVec t.1, t.2)) := by
    intro ts
    induction ts with
    | nil => intro _; rfl
    | cons t ts ih =>
      intro hts
      unfold SLR.mapFst?
      have e1 : (Mat.diag s.nRow (pinvVec s.sum1)).mulVec? t.1
          = .ok ((Mat.diag s.nRow (pinvVec s.sum1)).mulVec t.1) := by
        unfold Mat.mulVec?; simp [hts t (List.mem_cons_self ..)]
      rw [e1, ih (fun u hu => hts u (List.mem_cons_of_mem _ hu))]
      rfl
  rw [h2 s.tuples (fun t ht => (hv t ht).1)]
  refine ⟨_, SLR.init_of_valid _ _ ?_⟩
  intro t ht
  obtain ⟨u, hu, rfl⟩ := List.mem_map.mp ht
  exact ⟨by simp, (hv u hu).2⟩

end SkNet.LinOp
