/-
The nearest-neighbour row specification `Spec.knnRowOK` (used by the `spec` lines on the implementation's rows)
accepts every row the model `Knn.row` produces, for any selection satisfying the contract of `np.argpartition`:
the `k`-th smallest distance is the largest selected distance, every strictly closer labelled node is selected,
and no selected node is farther.
-/
import SkNet.Lemmas.ClassifyKnn
import SkNet.Lemmas.ClassMetrics

namespace SkNet.Classify

attribute [-simp] List.getD_eq_getElem?_getD

theorem exists_max_of_ne_nil (l : List Nat) (f : Nat → Rat) (hne : l ≠ []) : ∃ p ∈ l, ∀ q ∈ l, f q ≤ f p := by
  induction l with
  | nil => exact absurd rfl hne
  | cons x xs ih =>
    by_cases hxs : xs = []
    · subst hxs
      exact ⟨x, List.mem_cons_self .., fun q hq => by
        rcases List.mem_cons.mp hq with rfl | hq
        · exact le_refl _
        · cases hq⟩
    · obtain ⟨p, hp, hmax⟩ := ih hxs
      by_cases hc : f p ≤ f x
      · refine ⟨x, List.mem_cons_self .., ?_⟩
        intro q hq
        rcases List.mem_cons.mp hq with rfl | hq
        · exact le_refl _
        · exact le_trans (hmax q hq) hc
      · refine ⟨p, List.mem_cons_of_mem _ hp, ?_⟩
        intro q hq
        rcases List.mem_cons.mp hq with rfl | hq
        · exact le_of_lt (not_le.mp hc)
        · exact hmax q hq

theorem foldl_min_eq (L : List Rat) (a M : Rat) (ha : M ≤ a) (hL : ∀ v ∈ L, M ≤ v) (hm : M = a ∨ M ∈ L) :
    L.foldl min a = M := by
  induction L generalizing a with
  | nil =>
    rcases hm with h | h
    · exact h.symm
    · cases h
  | cons x xs ih =>
    simp only [List.foldl_cons]
    have hx := hL x (List.mem_cons_self ..)
    apply ih (min a x) (le_min ha hx) (fun v hv => hL v (List.mem_cons_of_mem _ hv))
    rcases hm with h | h
    · left
      rw [← h]
      exact (min_eq_left hx).symm
    · rcases List.mem_cons.mp h with h | h
      · left
        rw [← h]
        exact (min_eq_right ha).symm
      · exact Or.inr h

theorem getD_mem_rat (l : List Rat) (j : Nat) (h : j < l.length) : l.getD j 0 ∈ l := by
  rw [List.getD_eq_getElem?_getD, List.getElem?_eq_getElem h]
  exact List.getElem_mem h

theorem rsum_cast_sum (l : List Nat) (f : Nat → Nat) :
    rsum (l.map fun i => ((f i : Nat) : Rat)) = (((l.map f).sum : Nat) : Rat) := by
  induction l with
  | nil => simp
  | cons x xs ih =>
    simp only [List.map_cons, rsum_cons, List.sum_cons, ih]
    push_cast
    ring

theorem length_le_of_nodup_subset {l₁ l₂ : List Nat} (hnd : l₁.Nodup) (hsub : l₁ ⊆ l₂) : l₁.length ≤ l₂.length :=
  (List.subperm_of_subset hnd hsub).length_le

namespace Knn

/-- ★ the specification accepts the model's row -/
theorem row_spec (ds : List Rat) (labs : List Int) (k : Nat) (sel : List Nat) (nCols : Nat) (hk : 0 < k)
    (hsel : IsSmallestK ds k sel = true)
    (hlab : ∀ p ∈ sel, 0 ≤ labs.getD p (-1) ∧ (labs.getD p (-1)).toNat < nCols) :
    Spec.knnRowOK ds labs k 0
      (normalizeRow (tab nCols fun q =>
        ((((sel.map fun p => labs.getD p (-1)).filter (· == (q : Int))).length : Nat) : Rat)))
      (tab nCols fun q => ((sel.map fun p => labs.getD p (-1)).filter (· == (q : Int))).length) = true := by
  -- the contract
  unfold IsSmallestK at hsel
  simp only [Bool.and_eq_true, beq_iff_eq, List.all_eq_true, decide_eq_true_eq, List.mem_range,
    Bool.or_eq_true, List.contains_iff_mem] at hsel
  obtain ⟨⟨⟨hlen, hnd0⟩, hrange⟩, hsmall⟩ := hsel
  have hnd : sel.Nodup := by simpa using hnd0
  set nb := sel.map fun p => labs.getD p (-1) with hnb
  set cnt : Nat → Nat := fun q => (nb.filter (· == (q : Int))).length with hcnt
  have hcntsel : ∀ q : Nat, cnt q = (sel.filter fun p => labs.getD p (-1) == (q : Int)).length := by
    intro q
    simp only [hcnt, hnb, List.filter_map, List.length_map]
    rfl
  -- the counts sum to k
  have hsum : ((List.range nCols).map cnt).sum = k := by
    have := ClassMetrics.sum_fibres nb (fun x => x) nCols (by
      intro x hx
      obtain ⟨p, hp, rfl⟩ := List.mem_map.mp hx
      obtain ⟨h0, h1⟩ := hlab p hp
      exact ⟨h0, by omega⟩)
    rw [this, hnb, List.length_map, hlen]
  have hkq : (0 : Rat) < (k : Rat) := by exact_mod_cast hk
  -- the normalised row
  have hraw_nonneg : ∀ x ∈ (tab nCols fun q => ((cnt q : Nat) : Rat)), 0 ≤ x := by
    intro x hx
    obtain ⟨q, _, rfl⟩ := (mem_tab _ _ _).mp hx
    exact Nat.cast_nonneg _
  have hrawsum : rsum (tab nCols fun q => ((cnt q : Nat) : Rat)) = (k : Rat) := by
    unfold tab
    rw [rsum_cast_sum, hsum]
  have hrow : normalizeRow (tab nCols fun q => ((cnt q : Nat) : Rat)) =
      (tab nCols fun q => ((cnt q : Nat) : Rat)).map (· / (k : Rat)) := by
    unfold normalizeRow
    simp only
    rw [map_rabs_of_nonneg hraw_nonneg, hrawsum]
    rw [if_neg (ne_of_gt hkq)]
  have hrowget : ∀ q, q < nCols →
      (normalizeRow (tab nCols fun q => ((cnt q : Nat) : Rat))).getD q 0 * (k : Rat) = (cnt q : Rat) := by
    intro q hq
    rw [hrow]
    simp only [List.getD_eq_getElem?_getD, List.getElem?_map, tab_getElem?, hq, if_true, Option.map_some,
      Option.getD_some]
    field_simp
  -- the largest selected distance
  have hselne : sel ≠ [] := by
    intro h0
    rw [h0] at hlen
    simp at hlen
    omega
  obtain ⟨pstar, hpstar, hmax⟩ := exists_max_of_ne_nil sel (fun p => ds.getD p 0) hselne
  set M := ds.getD pstar 0 with hM
  have hps_lt := hrange pstar hpstar
  -- tau = M
  have hcntM : k ≤ Spec.cntLe ds M := by
    unfold Spec.cntLe
    rw [← hlen]
    apply length_le_of_nodup_subset hnd
    intro p hp
    simp only [List.mem_filter, List.mem_range, decide_eq_true_eq]
    exact ⟨hrange p hp, hmax p hp⟩
  have hbelow : ∀ v, v < M → Spec.cntLe ds v < k := by
    intro v hv
    unfold Spec.cntLe
    have hsub : ((List.range ds.length).filter fun j => decide (ds.getD j 0 ≤ v)) ⊆ sel.erase pstar := by
      intro j hj
      simp only [List.mem_filter, List.mem_range, decide_eq_true_eq] at hj
      obtain ⟨hjm, hjv⟩ := hj
      have hjs : j ∈ sel := by
        rcases hsmall pstar hpstar j hjm with h | h
        · exact h
        · exfalso
          have : M ≤ ds.getD j 0 := h
          linarith
      have hne : j ≠ pstar := by
        intro h
        rw [h] at hjv
        linarith
      exact (List.mem_erase_of_ne hne).mpr hjs
    have h1 := length_le_of_nodup_subset (List.Nodup.filter _ List.nodup_range) hsub
    rw [List.length_erase_of_mem hpstar, hlen] at h1
    omega
  have htau : Spec.kthSmallest ds k = M := by
    unfold Spec.kthSmallest
    simp only
    set cand := ds.filter fun v => decide (k ≤ Spec.cntLe ds v) with hcand
    have hMc : M ∈ cand := by
      simp only [hcand, List.mem_filter, decide_eq_true_eq]
      exact ⟨getD_mem_rat ds pstar hps_lt, hcntM⟩
    have hall : ∀ v ∈ cand, M ≤ v := by
      intro v hv
      simp only [hcand, List.mem_filter, decide_eq_true_eq] at hv
      by_contra hc
      have := hbelow v (not_le.mp hc)
      omega
    apply foldl_min_eq cand _ M ?_ hall (Or.inr hMc)
    cases hcd : cand with
    | nil => rw [hcd] at hMc; cases hMc
    | cons x xs =>
      simp only [List.headD_cons]
      apply hall
      rw [hcd]
      exact List.mem_cons_self ..
  -- assemble
  unfold Spec.knnRowOK
  have hk0 : (k == 0) = false := by
    simp
    omega
  rw [hk0]
  simp only [Bool.false_eq_true, if_false, htau, sub_zero]
  simp only [Bool.and_eq_true, beq_iff_eq, List.all_eq_true, List.mem_range, decide_eq_true_eq]
  refine ⟨⟨?_, ?_⟩, ?_⟩
  · rw [normalizeRow_length]
    simp
  · unfold tab
    exact hsum
  · intro q hq
    rw [normalizeRow_length] at hq
    simp only [tab_length] at hq
    have hget : (tab nCols fun q => (nb.filter (· == (q : Int))).length).getD q 0 = cnt q := by
      rw [tab_getD, if_pos hq]
    rw [hget]
    refine ⟨⟨?_, ?_⟩, ?_⟩
    · rw [hrowget q hq]
      simp [rabs_zero]
    · -- every strictly closer node of label q is selected
      rw [hcntsel q]
      apply length_le_of_nodup_subset (List.Nodup.filter _ List.nodup_range)
      intro j hj
      simp only [List.mem_filter, List.mem_range, Bool.and_eq_true, decide_eq_true_eq, beq_iff_eq] at hj ⊢
      obtain ⟨hjm, hjlt, hjl⟩ := hj
      refine ⟨?_, hjl⟩
      rcases hsmall pstar hpstar j hjm with h | h
      · exact h
      · exfalso
        have : M ≤ ds.getD j 0 := h
        linarith
    · -- no selected node is farther than tau
      rw [hcntsel q, ← List.length_append]
      apply length_le_of_nodup_subset (List.Nodup.filter _ hnd)
      intro p hp
      simp only [List.mem_filter, beq_iff_eq] at hp
      obtain ⟨hps, hpl⟩ := hp
      have hle := hmax p hps
      simp only [List.mem_append, List.mem_filter, List.mem_range, Bool.and_eq_true, decide_eq_true_eq,
        beq_iff_eq]
      by_cases hlt : ds.getD p 0 < M
      · exact Or.inl ⟨hrange p hps, hlt, hpl⟩
      · right
        have heq : ds.getD p 0 = M := le_antisymm hle (not_lt.mp hlt)
        refine ⟨hrange p hps, ?_, hpl⟩
        rw [heq]
        simp [rabs_zero]

end Knn
end SkNet.Classify
