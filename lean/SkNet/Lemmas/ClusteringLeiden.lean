/-
The loop of `Leiden.fit`: refined labels decide the aggregation, the coarse labels of the last round are
reported (C05).
-/
import SkNet.Lemmas.ClusteringPost

namespace SkNet.Clustering

/-- contracts of the two Leiden kernels: one label per node; a refined cluster lies inside one cluster of
    the partition it refines (the refinement only merges nodes of the same cluster — C06's statement) -/
structure LeidenContract (kernel : Nat → List Nat → List Int × Bool) (refine : Nat → List Nat → List Int) : Prop where
  kernelLen : ∀ count labels, (kernel count labels).1.length = labels.length
  refineLen : ∀ count labels, (refine count labels).length = labels.length
  within : ∀ count (labels : List Nat) (i j : Nat), i < labels.length → j < labels.length →
    (refine count labels)[i]? = (refine count labels)[j]? → labels[i]? = labels[j]?

theorem eraseDups_const {l : List Nat} {c : Nat} (hne : l ≠ []) (h : ∀ x ∈ l, x = c) : l.eraseDups = [c] := by
  cases l with
  | nil => exact absurd rfl hne
  | cons x xs =>
    have hx : x = c := h x (by simp)
    subst hx
    rw [List.eraseDups_cons]
    have : xs.filter (fun b => !b == x) = [] := by
      rw [List.filter_eq_nil_iff]
      intro a ha
      have := h a (by simp [ha])
      simp [this]
    rw [this]; simp

theorem flatten_tab_singleton (k : Nat) (g : Nat → Nat) : (tab k fun r => [g r]).flatten = tab k g := by
  unfold tab
  induction (List.range k) with
  | nil => rfl
  | cons x xs ih => simp [ih]

/-- with refined clusters inside coarse clusters, `membership_refined.T.dot(membership).indices` has one entry
    per refined cluster: the coarse label of (any of) its members -/
theorem refinedToCoarse_spec {labels refined : List Nat} {kRef : Nat} (hlen : labels.length = refined.length)
    (hc : Contiguous refined kRef)
    (hw : ∀ i j : Nat, i < refined.length → j < refined.length → refined[i]? = refined[j]? → labels[i]? = labels[j]?) :
    (refinedToCoarse labels refined kRef).length = kRef ∧
    ∀ i, i < refined.length → (refinedToCoarse labels refined kRef)[refined.getD i 0]? = labels[i]? := by
  -- representative of every refined cluster
  have hrep : ∀ r, r < kRef → ∃ i, i < refined.length ∧ refined[i]? = some r := by
    intro r hr
    obtain ⟨i, hi, e⟩ := List.getElem_of_mem (hc.2 r hr)
    exact ⟨i, hi, by rw [List.getElem?_eq_getElem hi, e]⟩
  have hrow : ∀ r, r < kRef → ∀ i, i < refined.length → refined[i]? = some r →
      (((List.range refined.length).filter fun i => refined.getD i kRef == r).map
        fun i => labels.getD i 0).eraseDups = [labels.getD i 0] := by
    intro r hr i hi hir
    apply eraseDups_const
    · intro hnil
      have : i ∈ (List.range refined.length).filter fun i => refined.getD i kRef == r := by
        rw [List.mem_filter]
        refine ⟨List.mem_range.mpr hi, ?_⟩
        rw [List.getD_eq_getElem?_getD, hir]; simp
      have := List.mem_map_of_mem (f := fun i => labels.getD i 0) this
      rw [hnil] at this; simp at this
    · intro x hx
      obtain ⟨j, hj, rfl⟩ := List.mem_map.mp hx
      simp only [List.mem_filter, List.mem_range, beq_iff_eq] at hj
      have hjr : refined[j]? = some r := by
        have := hj.2
        rw [List.getD_eq_getElem?_getD, List.getElem?_eq_getElem hj.1, Option.getD_some] at this
        rw [List.getElem?_eq_getElem hj.1, this]
      have := hw j i hj.1 hi (hjr.trans hir.symm)
      simp [List.getD_eq_getElem?_getD, this]
  -- choose representatives
  have hchoice : ∀ r, ∃ i, r < kRef → (i < refined.length ∧ refined[i]? = some r) := by
    intro r
    by_cases hr : r < kRef
    · obtain ⟨i, hi⟩ := hrep r hr; exact ⟨i, fun _ => hi⟩
    · exact ⟨0, fun h => absurd h hr⟩
  choose rep hrepf using hchoice
  have heq : refinedToCoarse labels refined kRef = tab kRef fun r => labels.getD (rep r) 0 := by
    unfold refinedToCoarse
    rw [← flatten_tab_singleton]
    congr 1
    unfold tab
    apply List.map_congr_left
    intro r hr
    have hr' := List.mem_range.mp hr
    exact hrow r hr' (rep r) (hrepf r hr').1 (hrepf r hr').2
  refine ⟨by rw [heq]; simp, ?_⟩
  intro i hi
  have hri : refined.getD i 0 < kRef := by
    rw [List.getD_eq_getElem?_getD, List.getElem?_eq_getElem hi, Option.getD_some]
    exact hc.1 _ (List.getElem_mem hi)
  rw [heq, tab_getElem?, if_pos hri]
  have h1 := hrepf _ hri
  have h2 : refined[rep (refined.getD i 0)]? = refined[i]? := by
    rw [h1.2, List.getD_eq_getElem?_getD, List.getElem?_eq_getElem hi, Option.getD_some]
  have := hw _ _ h1.1 hi h2
  have hil : i < labels.length := hlen ▸ hi
  rw [← this]
  have : rep (refined.getD i 0) < labels.length := hlen ▸ h1.1
  rw [List.getD_eq_getElem?_getD (l := labels), List.getElem?_eq_getElem this, Option.getD_some]

/-- ★ invariant of the loop of `Leiden.fit` (same conclusion as for Louvain) -/
theorem leidenLoop_spec {kernel : Nat → List Nat → List Int × Bool} {refine : Nat → List Nat → List Int}
    {nAgg : Int} (hk : LeidenContract kernel refine) :
    ∀ (fuel count : Nat) (labels a : List Nat), 0 < labels.length → Contiguous a labels.length →
      leidenLoop kernel refine nAgg fuel count labels.length labels (ofLabels a labels.length) = .ok none ∨
      ∃ a' k count', leidenLoop kernel refine nAgg fuel count labels.length labels (ofLabels a labels.length)
          = .ok (some (ofLabels a' k, count')) ∧
        a'.length = a.length ∧ 0 < k ∧ Contiguous a' k ∧ Coarser a a' := by
  intro fuel
  induction fuel with
  | zero => intro count labels a _ _; left; rfl
  | succ fuel ih =>
    intro count labels a hn ha
    -- the coarse labels of this round
    have hraw := hk.kernelLen (count + 1) labels
    obtain ⟨a1, k1, hk1pos, hk1eq, hgm1, hdot1, hlen1, hcont1, hco1⟩ := louvain_step hn hraw ha
    -- the refined labels of this round
    have hlc : (inverse (kernel (count + 1) labels).1).length = labels.length := by
      rw [inverse_length, hraw]
    have hrefl := hk.refineLen (count + 1) (inverse (kernel (count + 1) labels).1)
    rw [hlc] at hrefl
    obtain ⟨a2, k2, hk2pos, hk2eq, hgm2, hdot2, hlen2, hcont2, hco2⟩ := louvain_step hn hrefl ha
    unfold leidenLoop
    simp only [hgm1, hgm2, hdot1, hdot2, bind, Except.bind, pure, Except.pure]
    have hrows : ((ofLabels (inverse (kernel (count + 1) labels).1) k1).rows.length !=
        (ofLabels (inverse (refine (count + 1) (inverse (kernel (count + 1) labels).1))) k2).rows.length) = false := by
      simp [ofLabels, inverse_length, hraw, hrefl]
    simp only [hrows, Bool.false_eq_true, if_false]
    have hncol : (ofLabels (inverse (refine (count + 1) (inverse (kernel (count + 1) labels).1))) k2).nCol = k2 := rfl
    rw [hncol]
    split
    · right
      exact ⟨a1, k1, count + 1, rfl, hlen1, hk1pos, hcont1, hco1⟩
    · -- next round: labels' has one entry per refined cluster
      have hrc := inverse_contiguous (refine (count + 1) (inverse (kernel (count + 1) labels).1))
      rw [← hk2eq] at hrc
      have hspec := refinedToCoarse_spec (labels := inverse (kernel (count + 1) labels).1)
        (refined := inverse (refine (count + 1) (inverse (kernel (count + 1) labels).1))) (kRef := k2)
        (by rw [inverse_length, inverse_length, hraw, hrefl]) hrc
        (by
          intro i j hi hj hij
          rw [inverse_length, hrefl] at hi hj
          have hsp := inverse_samePartition (refine (count + 1) (inverse (kernel (count + 1) labels).1))
          have := (hsp.2 i (by rw [hrefl]; exact hi) j (by rw [hrefl]; exact hj)).mpr hij
          exact hk.within (count + 1) _ i j (by rw [hlc]; exact hi) (by rw [hlc]; exact hj) this)
      have hl' := hspec.1
      have := ih (count + 1) (refinedToCoarse (inverse (kernel (count + 1) labels).1)
        (inverse (refine (count + 1) (inverse (kernel (count + 1) labels).1))) k2) a2
        (by rw [hl']; exact hk2pos) (by rw [hl']; exact hcont2)
      rw [hl'] at this
      rcases this with h | ⟨a'', k'', c'', h, hl'', hp'', hc'', hco''⟩
      · left; exact h
      · right
        exact ⟨a'', k'', c'', h, hl''.trans hlen2, hp'', hc'', hco2.trans hco''⟩

/-- ★ under `LeidenContract` the loop of `Leiden.fit` stops by itself, whatever the stop flags are: since the repair
    b2c73765 a round whose refinement merges nothing (`n == n_previous`) ends the loop, so every continuing round has
    strictly fewer nodes: as many rounds as nodes suffice -/
theorem leidenLoop_fuel {kernel : Nat → List Nat → List Int × Bool} {refine : Nat → List Nat → List Int}
    {nAgg : Int} (hk : LeidenContract kernel refine) :
    ∀ (fuel count : Nat) (labels a : List Nat), 0 < labels.length → Contiguous a labels.length →
      labels.length ≤ fuel →
      leidenLoop kernel refine nAgg fuel count labels.length labels (ofLabels a labels.length) ≠ .ok none := by
  intro fuel
  induction fuel with
  | zero => intro count labels a hn _ h; omega
  | succ fuel ih =>
    intro count labels a hn ha hf
    have hraw := hk.kernelLen (count + 1) labels
    obtain ⟨a1, k1, hk1pos, hk1eq, hgm1, hdot1, hlen1, hcont1, hco1⟩ := louvain_step hn hraw ha
    have hlc : (inverse (kernel (count + 1) labels).1).length = labels.length := by
      rw [inverse_length, hraw]
    have hrefl := hk.refineLen (count + 1) (inverse (kernel (count + 1) labels).1)
    rw [hlc] at hrefl
    obtain ⟨a2, k2, hk2pos, hk2eq, hgm2, hdot2, hlen2, hcont2, hco2⟩ := louvain_step hn hrefl ha
    unfold leidenLoop
    simp only [hgm1, hgm2, hdot1, hdot2, bind, Except.bind, pure, Except.pure]
    have hrows : ((ofLabels (inverse (kernel (count + 1) labels).1) k1).rows.length !=
        (ofLabels (inverse (refine (count + 1) (inverse (kernel (count + 1) labels).1))) k2).rows.length) = false := by
      simp [ofLabels, inverse_length, hraw, hrefl]
    simp only [hrows, Bool.false_eq_true, if_false]
    have hncol : (ofLabels (inverse (refine (count + 1) (inverse (kernel (count + 1) labels).1))) k2).nCol = k2 := rfl
    rw [hncol]
    split
    · intro h; cases h
    · rename_i hstop
      have hle : k2 ≤ labels.length := by
        rw [hk2eq]
        have := unique_length_le (refine (count + 1) (inverse (kernel (count + 1) labels).1))
        rw [hrefl] at this; exact this
      have hne : k2 ≠ labels.length := by
        intro he; apply hstop; simp [he]
      have hlt : k2 < labels.length := by omega
      have hrc := inverse_contiguous (refine (count + 1) (inverse (kernel (count + 1) labels).1))
      rw [← hk2eq] at hrc
      have hspec := refinedToCoarse_spec (labels := inverse (kernel (count + 1) labels).1)
        (refined := inverse (refine (count + 1) (inverse (kernel (count + 1) labels).1))) (kRef := k2)
        (by rw [inverse_length, inverse_length, hraw, hrefl]) hrc
        (by
          intro i j hi hj hij
          rw [inverse_length, hrefl] at hi hj
          have hsp := inverse_samePartition (refine (count + 1) (inverse (kernel (count + 1) labels).1))
          have := (hsp.2 i (by rw [hrefl]; exact hi) j (by rw [hrefl]; exact hj)).mpr hij
          exact hk.within (count + 1) _ i j (by rw [hlc]; exact hi) (by rw [hlc]; exact hj) this)
      have hl' := hspec.1
      have := ih (count + 1) (refinedToCoarse (inverse (kernel (count + 1) labels).1)
        (inverse (refine (count + 1) (inverse (kernel (count + 1) labels).1))) k2) a2
        (by rw [hl']; exact hk2pos) (by rw [hl']; exact hcont2) (by rw [hl']; omega)
      rw [hl'] at this
      exact this

/-- ★★ total form of `Leiden.fit` -/
theorem leidenFit_total {argsort : List Int → List Nat} (hs : ∀ key, IsArgsort key (argsort key))
    {kernel : Nat → List Nat → List Int × Bool} {refine : Nat → List Nat → List Int}
    (hk : LeidenContract kernel refine) (nAgg : Int) {fuel N : Nat}
    (hN : 0 < N) (hf : N ≤ fuel) (sortClusters shuffle bipartite : Bool) (nRow : Nat) {index : List Nat}
    (hidx : shuffle = true → index.Perm (List.range N)) :
    ∃ f count, leidenFit argsort kernel refine nAgg fuel N index sortClusters shuffle bipartite nRow
        = .ok (some (f, count)) ∧
      ValidClustering N (allLabels f) sortClusters ∧ f = splitVars bipartite nRow (allLabels f) := by
  unfold leidenFit
  have hc0 : Contiguous (List.range N) (List.range N).length := by
    rw [List.length_range]
    exact ⟨fun x hx => List.mem_range.mp hx, fun c hc => List.mem_range.mpr hc⟩
  rw [identity_eq]
  have hne := leidenLoop_fuel (nAgg := nAgg) hk fuel 0 (List.range N) (List.range N) (by simpa using hN) hc0
    (by simpa using hf)
  have := leidenLoop_spec (nAgg := nAgg) hk fuel 0 (List.range N) (List.range N) (by simpa using hN) hc0
  rw [List.length_range] at this hne
  rcases this with h | ⟨a', k, c', h, hl, _, hc, _⟩
  · exact absurd h hne
  · obtain ⟨f, hf', hv, hsplit, _⟩ := postProcess_spec hs hl hc sortClusters shuffle bipartite nRow hidx
    exact ⟨f, c', by simp [h, hf', bind, Except.bind, pure, Except.pure], hv, hsplit⟩

/-- ★ `Leiden.fit` around its kernels -/
theorem leidenFit_spec {argsort : List Int → List Nat} (hs : ∀ key, IsArgsort key (argsort key))
    {kernel : Nat → List Nat → List Int × Bool} {refine : Nat → List Nat → List Int}
    (hk : LeidenContract kernel refine) (nAgg : Int) (fuel : Nat) {N : Nat}
    (hN : 0 < N) (sortClusters shuffle bipartite : Bool) (nRow : Nat) {index : List Nat}
    (hidx : shuffle = true → index.Perm (List.range N)) :
    leidenFit argsort kernel refine nAgg fuel N index sortClusters shuffle bipartite nRow = .ok none ∨
    ∃ f count, leidenFit argsort kernel refine nAgg fuel N index sortClusters shuffle bipartite nRow
        = .ok (some (f, count)) ∧
      ValidClustering N (allLabels f) sortClusters ∧ f = splitVars bipartite nRow (allLabels f) := by
  unfold leidenFit
  have hc0 : Contiguous (List.range N) (List.range N).length := by
    rw [List.length_range]
    exact ⟨fun x hx => List.mem_range.mp hx, fun c hc => List.mem_range.mpr hc⟩
  rw [identity_eq]
  have := leidenLoop_spec (nAgg := nAgg) hk fuel 0 (List.range N) (List.range N) (by simpa using hN) hc0
  rw [List.length_range] at this
  rcases this with h | ⟨a', k, c', h, hl, _, hc, _⟩
  · left; simp [h, bind, Except.bind, pure, Except.pure]
  · right
    obtain ⟨f, hf, hv, hsplit, _⟩ := postProcess_spec hs hl hc sortClusters shuffle bipartite nRow hidx
    exact ⟨f, c', by simp [h, hf, bind, Except.bind, pure, Except.pure], hv, hsplit⟩

end SkNet.Clustering
