/-
C09, `Spectral.fit` after the solver: what `spectralPost` returns entry by entry, the eigen-equations of the
returned pairs under the solver contract, and the documented order.
-/
import SkNet.Lemmas.EmbeddingLaplacian
import SkNet.Lemmas.EmbeddingSort

set_option linter.unusedSectionVars false

open Finset

namespace SkNet.Embedding

section basic
variable {α : Type} [Zero α]

theorem vget_map_lt {β : Type} (l : List β) (f : β → α) (d : β) (c : Nat) (hc : c < l.length) :
    vget (l.map f) c = f (l.getD c d) := by
  unfold vget
  rw [List.getD_eq_getElem?_getD, List.getD_eq_getElem?_getD, List.getElem?_map,
    List.getElem?_eq_getElem hc]
  rfl

theorem mget_selectCols (n : Nat) (m : Mat α) (idx : List Nat) (i c : Nat) (hi : i < n) (hc : c < idx.length) :
    mget (selectCols n m idx) i c = mget m i (idx.getD c 0) := by
  simp [selectCols, hi, hc]

end basic

variable {α : Type} [Field α] [LinearOrder α] [IsStrictOrderedRing α]

/-- the specification operators read their vector argument only below `n` -/
theorem transApply_congr (n : Nat) (a : Mat α) (reg : α) (v v' : Nat → α) (h : ∀ j, j < n → v j = v' j) (i : Nat) :
    Spec.transApply n a reg v i = Spec.transApply n a reg v' i := by
  unfold Spec.transApply
  congr 1
  exact sumN_congr fun j hj => by rw [h j hj]

theorem lapApply_congr (n : Nat) (a : Mat α) (reg : α) (v v' : Nat → α) (h : ∀ j, j < n → v j = v' j) (i : Nat)
    (hi : i < n) : Spec.lapApply n a reg v i = Spec.lapApply n a reg v' i := by
  unfold Spec.lapApply
  rw [h i hi]
  congr 1
  exact sumN_congr fun j hj => by rw [h j hj]

theorem lapMatvec_congr (op : LapOp α) (a : Mat α) (x x' : Vec α) (h : ∀ j, j < op.n → vget x j = vget x' j)
    (i : Nat) (hi : i < op.n) : vget (lapMatvec op a x) i = vget (lapMatvec op a x') i := by
  unfold lapMatvec
  by_cases hnm : op.normalized = true <;> by_cases hr : (!(op.reg == 0)) = true
  all_goals simp only [hnm, hr, if_true, if_false, Bool.false_eq_true]
  all_goals simp +contextual only [vget_tab, hi, if_true, h]

/-- **solver contract of `Spectral.fit`**: every column of `vectors` with its value is an eigenpair of the
    operator the solver was given (the model's `Laplacian`). -/
def IsEigenpairs (op : LapOp α) (a : Mat α) (values : Vec α) (vectors : Mat α) : Prop :=
  ∀ c, c < values.length → ∀ i, i < op.n →
    vget (lapMatvec op a (tab op.n fun r => mget vectors r c)) i = vget values c * mget vectors i c

/-- number of pairs returned: one less than the solver computed -/
theorem spectralPost_length (F : Fn α) (n : Nat) (op : LapOp α) (rw nm : Bool) (values : Vec α) (vectors : Mat α) :
    (spectralPost F n op rw nm values vectors).1.length = values.length - 1 := by
  unfold spectralPost
  by_cases h : rw = true <;> simp [h, argsort, length_argsortN]

/-- the selected indices are valid positions of the solver output -/
theorem spectral_index_lt (values : Vec α) (c : Nat) (hc : c < ((argsort values).drop 1).length) :
    ((argsort values).drop 1).getD c 0 < values.length :=
  getD_argsortN_lt values.length (vget values) 1 c hc

/-- **Spectral, random-walk decomposition.**  Under the solver contract, every returned pair
    `(eigenvalues_[c], eigenvectors_[:, c])` is an eigenpair of the regularised transition matrix
    `D_reg⁻¹ (A + reg·11ᵀ/n)`: `P v = λ v` with `λ = 1 − λ_sym`, `v = D^{-1/2} u`. -/
theorem spectralPost_rw_eigen (F : Fn α) (n : Nat) (hn : 0 < n) (a : Mat α) (reg : α) (nm : Bool)
    (hsq : ∀ i, i < n → F.sqrt ((∑ j ∈ range n, mget a i j) + reg) * F.sqrt ((∑ j ∈ range n, mget a i j) + reg)
                        = (∑ j ∈ range n, mget a i j) + reg)
    (values : Vec α) (vectors : Mat α)
    (hsol : IsEigenpairs (lapInit F n a reg true) a values vectors)
    (c : Nat) (hc : c < (spectralPost F n (lapInit F n a reg true) true nm values vectors).1.length)
    (i : Nat) (hi : i < n) :
    Spec.transApply n a reg (fun j => mget (spectralPost F n (lapInit F n a reg true) true nm values vectors).2.1 j c) i
      = vget (spectralPost F n (lapInit F n a reg true) true nm values vectors).1 c
        * mget (spectralPost F n (lapInit F n a reg true) true nm values vectors).2.1 i c := by
  have hlen : c < ((argsort values).drop 1).length := by
    have := hc
    simp only [spectralPost, if_true, List.length_map] at this
    exact this
  have hidx := spectral_index_lt values c hlen
  generalize hc' : ((argsort values).drop 1).getD c 0 = c' at hidx
  -- the eigenpair of the symmetric operator that was selected
  have hop : (lapInit F n a reg true).n = n := rfl
  have heig : ∀ r, r < n →
      vget (lapMatvec (lapInit F n a reg true) a (tab n fun r => mget vectors r c')) r
        = vget values c' * vget (tab n fun r => mget vectors r c') r := by
    intro r hr
    have := hsol c' hidx r (by rw [hop]; exact hr)
    rw [hop] at this
    rw [this, vget_tab_lt _ hr]
  have key := rw_eigen_of_sym_vec F n hn a reg hsq (tab n fun r => mget vectors r c') (vget values c') heig i hi
  -- read the outputs
  have hvec : ∀ j, j < n →
      mget (spectralPost F n (lapInit F n a reg true) true nm values vectors).2.1 j c
        = vget (lapInit F n a reg true).normDiag j * vget (tab n fun r => mget vectors r c') j := by
    intro j hj
    simp only [spectralPost, if_true]
    rw [mget_mkMat_lt _ hj hlen, mget_selectCols n vectors _ j c hj hlen, hc', vget_tab_lt _ hj]
  have hval : vget (spectralPost F n (lapInit F n a reg true) true nm values vectors).1 c = 1 - vget values c' := by
    simp only [spectralPost, if_true]
    rw [vget_map_lt _ _ 0 c (by simpa using hlen)]
    change 1 - vget (List.map (vget values) ((argsort values).drop 1)) c = _
    rw [vget_map_lt _ _ 0 c hlen, hc']
  rw [transApply_congr n a reg _ _ hvec i, key, hval, hvec i hi]

/-- **Spectral, Laplacian decomposition.**  Under the solver contract, every returned pair is an eigenpair of the
    regularised Laplacian `D_reg − A_reg`. -/
theorem spectralPost_laplacian_eigen (F : Fn α) (n : Nat) (hn : 0 < n) (a : Mat α) (reg : α) (nm : Bool)
    (values : Vec α) (vectors : Mat α)
    (hsol : IsEigenpairs (lapInit F n a reg false) a values vectors)
    (c : Nat) (hc : c < (spectralPost F n (lapInit F n a reg false) false nm values vectors).1.length)
    (i : Nat) (hi : i < n) :
    Spec.lapApply n a reg (fun j => mget (spectralPost F n (lapInit F n a reg false) false nm values vectors).2.1 j c) i
      = vget (spectralPost F n (lapInit F n a reg false) false nm values vectors).1 c
        * mget (spectralPost F n (lapInit F n a reg false) false nm values vectors).2.1 i c := by
  have hlen : c < ((argsort values).drop 1).length := by
    have := hc
    simp only [spectralPost, Bool.false_eq_true, if_false, List.length_map] at this
    exact this
  have hidx := spectral_index_lt values c hlen
  generalize hc' : ((argsort values).drop 1).getD c 0 = c' at hidx
  have hop : (lapInit F n a reg false).n = n := rfl
  have hvec : ∀ j, j < n →
      mget (spectralPost F n (lapInit F n a reg false) false nm values vectors).2.1 j c
        = vget (tab n fun r => mget vectors r c') j := by
    intro j hj
    simp only [spectralPost, Bool.false_eq_true, if_false]
    rw [mget_selectCols n vectors _ j c hj hlen, hc', vget_tab_lt _ hj]
  have hval : vget (spectralPost F n (lapInit F n a reg false) false nm values vectors).1 c = vget values c' := by
    simp only [spectralPost, Bool.false_eq_true, if_false]
    rw [vget_map_lt _ _ 0 c hlen, hc']
  have := hsol c' hidx i (by rw [hop]; exact hi)
  rw [hop, lapMatvec_plain F n hn a reg _ i hi] at this
  rw [lapApply_congr n a reg _ _ hvec i hi, this, hval, hvec i hi, vget_tab_lt _ hi]

end SkNet.Embedding

namespace SkNet.Embedding

variable {α : Type} [Field α] [LinearOrder α] [IsStrictOrderedRing α]

/-- the values selected by `np.argsort(values)[1:]` are non-decreasing -/
theorem sorted_selected (values : Vec α) :
    (((argsort values).drop 1).map (vget values)).Pairwise (· ≤ ·) := by
  rw [List.pairwise_map]
  exact (sorted_argsortN values.length (vget values)).sublist (List.drop_sublist 1 _)

/-- **documented order, Laplacian**: `eigenvalues_` is in increasing order -/
theorem spectralPost_order_laplacian (F : Fn α) (n : Nat) (op : LapOp α) (nm : Bool) (values : Vec α) (vectors : Mat α) :
    (spectralPost F n op false nm values vectors).1.Pairwise (· ≤ ·) := by
  simp only [spectralPost, Bool.false_eq_true, if_false]
  exact sorted_selected values

/-- **documented order, random walk**: `eigenvalues_ = 1 − λ` is in decreasing order -/
theorem spectralPost_order_rw (F : Fn α) (n : Nat) (op : LapOp α) (nm : Bool) (values : Vec α) (vectors : Mat α) :
    (spectralPost F n op true nm values vectors).1.Pairwise (· ≥ ·) := by
  simp only [spectralPost, if_true]
  rw [List.pairwise_map]
  exact (sorted_selected values).imp fun h => by linarith

/-- **the first pair is skipped**: the solver value that is not returned is a smallest one, and the returned
    indices together with it are exactly the positions of the solver output, each once. -/
theorem argsort_skips_smallest (values : Vec α) (hv : 0 < values.length) :
    ∃ i0, argsort values = i0 :: (argsort values).drop 1 ∧ i0 < values.length ∧
      (∀ c ∈ (argsort values).drop 1, vget values i0 ≤ vget values c) ∧
      (argsort values).Nodup ∧ ∀ x, x ∈ argsort values ↔ x < values.length := by
  have hlen := length_argsortN values.length (vget values)
  have hs := sorted_argsortN values.length (vget values)
  have hnd := nodup_argsortN values.length (vget values)
  unfold argsort
  cases hl : argsortN values.length (vget values) with
  | nil => rw [hl] at hlen; simp at hlen; omega
  | cons i0 t =>
    rw [hl] at hs hnd
    refine ⟨i0, by simp, ?_, ?_, hnd, ?_⟩
    · exact (mem_argsortN values.length (vget values) i0).mp (by rw [hl]; simp)
    · intro c hc
      exact (List.pairwise_cons.mp hs).1 c (by simpa using hc)
    · intro x; rw [← hl]; exact mem_argsortN _ _ x

end SkNet.Embedding
