/-
C09: the strong-connectivity test behind `_get_regularization` (`stronglyConnected`: relaxation rounds from node 0 in
the graph and in the reversed graph).  Soundness: when it answers `true`, every node reaches every node.
-/
import SkNet.Lemmas.Embedding

set_option linter.unusedSectionVars false

namespace SkNet.Embedding

/-- `v` is reachable from `u` inside the `n` nodes along `e` -/
inductive Reach (n : Nat) (e : Nat → Nat → Bool) : Nat → Nat → Prop
  | refl {u : Nat} : u < n → Reach n e u u
  | step {u v w : Nat} : Reach n e u v → e v w = true → w < n → Reach n e u w

theorem Reach.trans {n : Nat} {e : Nat → Nat → Bool} {u v w : Nat} (h1 : Reach n e u v) (h2 : Reach n e v w) :
    Reach n e u w := by
  induction h2 with
  | refl _ => exact h1
  | step _ he hw ih => exact Reach.step ih he hw

theorem Reach.left_lt {n : Nat} {e : Nat → Nat → Bool} {u v : Nat} (h : Reach n e u v) : u < n ∧ v < n := by
  induction h with
  | refl hu => exact ⟨hu, hu⟩
  | step _ _ hw ih => exact ⟨ih.1, hw⟩

/-- prepend an edge -/
theorem Reach.head {n : Nat} {e : Nat → Nat → Bool} {u v w : Nat} (hu : u < n) (he : e u v = true)
    (h : Reach n e v w) : Reach n e u w := by
  induction h with
  | refl hv => exact Reach.step (Reach.refl hu) he hv
  | step _ he' hw ih => exact Reach.step ih he' hw

/-- a path in the reversed graph is a reversed path -/
theorem Reach.reverse {n : Nat} {e : Nat → Nat → Bool} {u v : Nat} (h : Reach n (fun i j => e j i) u v) :
    Reach n e v u := by
  induction h with
  | refl hu => exact Reach.refl hu
  | step _ he hw ih => exact Reach.head hw he ih

/-- what the relaxation rounds mark is reachable from node 0 -/
theorem reachFrom0_sound (n : Nat) (hn : 0 < n) (e : Nat → Nat → Bool) (f v : Nat) (hv : v < n)
    (h : (reachFrom0 n e f).getD v false = true) : Reach n e 0 v := by
  induction f generalizing v with
  | zero =>
    simp only [reachFrom0, tab_getD, hv, if_true, beq_iff_eq] at h
    rw [h]; exact Reach.refl hn
  | succ f ih =>
    simp only [reachFrom0, tab_getD, hv, if_true, Bool.or_eq_true, List.any_eq_true, Bool.and_eq_true,
      List.mem_range] at h
    rcases h with h | ⟨u, hu, hru, heu⟩
    · exact ih v hv h
    · exact Reach.step (ih u hu hru) heu hv

/-! ### completeness: `n` rounds saturate -/

/-- one relaxation round -/
def relax (n : Nat) (e : Nat → Nat → Bool) (r : List Bool) : List Bool :=
  tab n fun v => r.getD v false || (List.range n).any fun u => r.getD u false && e u v

theorem reachFrom0_succ (n : Nat) (e : Nat → Nat → Bool) (f : Nat) :
    reachFrom0 n e (f+1) = relax n e (reachFrom0 n e f) := rfl

theorem reachFrom0_length (n : Nat) (e : Nat → Nat → Bool) (f : Nat) : (reachFrom0 n e f).length = n := by
  cases f <;> simp [reachFrom0]

theorem relax_mono (n : Nat) (e : Nat → Nat → Bool) (r : List Bool) (v : Nat) (hv : v < n)
    (h : r.getD v false = true) : (relax n e r).getD v false = true := by
  simp only [relax, tab_getD, hv, if_true, h, Bool.true_or]

theorem relax_step (n : Nat) (e : Nat → Nat → Bool) (r : List Bool) (u v : Nat) (hu : u < n) (hv : v < n)
    (h : r.getD u false = true) (he : e u v = true) : (relax n e r).getD v false = true := by
  simp only [relax, tab_getD, hv, if_true, Bool.or_eq_true, List.any_eq_true, Bool.and_eq_true, List.mem_range]
  exact Or.inr ⟨u, hu, h, he⟩

/-- pointwise smaller boolean lists of the same length: fewer `true`s, and equally many only if equal -/
theorem count_le_of_imp : ∀ (l1 l2 : List Bool), l1.length = l2.length →
    (∀ i, i < l1.length → l1.getD i false = true → l2.getD i false = true) →
    l1.count true ≤ l2.count true ∧ (l1.count true = l2.count true → l1 = l2)
  | [], [], _, _ => by simp
  | [], _ :: _, h, _ => by simp at h
  | _ :: _, [], h, _ => by simp at h
  | a :: l1, b :: l2, hlen, himp => by
    have hlen' : l1.length = l2.length := by simpa using hlen
    have himp' : ∀ i, i < l1.length → l1.getD i false = true → l2.getD i false = true := by
      intro i hi h
      have := himp (i+1) (by simp; omega) (by simpa using h)
      simpa using this
    obtain ⟨ih1, ih2⟩ := count_le_of_imp l1 l2 hlen' himp'
    have h0 := himp 0 (by simp)
    simp only [List.getD_cons_zero] at h0
    cases a <;> cases b
    · simp only [List.count_cons_of_ne (by decide : false ≠ true)]
      exact ⟨ih1, fun h => by rw [ih2 h]⟩
    · simp only [List.count_cons_self, List.count_cons_of_ne (by decide : false ≠ true)]
      exact ⟨by omega, fun h => by omega⟩
    · exact absurd (h0 rfl) (by decide)
    · simp only [List.count_cons_self]
      exact ⟨by omega, fun h => by rw [ih2 (by omega)]⟩

/-- a round either changes nothing or marks at least one more node -/
theorem relax_count (n : Nat) (e : Nat → Nat → Bool) (r : List Bool) (hr : r.length = n) :
    relax n e r = r ∨ r.count true < (relax n e r).count true := by
  have hlen : r.length = (relax n e r).length := by simp [relax, hr]
  have := count_le_of_imp r (relax n e r) hlen (fun i hi h => relax_mono n e r i (by omega) h)
  by_cases heq : r.count true = (relax n e r).count true
  · exact Or.inl (this.2 heq).symm
  · exact Or.inr (by omega)

/-- once a round changes nothing, no later round does -/
theorem reachFrom0_stable (n : Nat) (e : Nat → Nat → Bool) (g : Nat)
    (h : reachFrom0 n e (g+1) = reachFrom0 n e g) (m : Nat) : reachFrom0 n e (g + m) = reachFrom0 n e g := by
  induction m with
  | zero => rfl
  | succ m ih => rw [← Nat.add_assoc, reachFrom0_succ, ih, ← reachFrom0_succ, h]

/-- after `f` rounds: a fixed point was met, or at least `f + 1` nodes are marked -/
theorem reachFrom0_progress (n : Nat) (hn : 0 < n) (e : Nat → Nat → Bool) (f : Nat) :
    (∃ g, g ≤ f ∧ reachFrom0 n e (g+1) = reachFrom0 n e g) ∨ f + 1 ≤ (reachFrom0 n e f).count true := by
  induction f with
  | zero =>
    right
    have : (reachFrom0 n e 0).getD 0 false = true := by
      simp only [reachFrom0, tab_getD, hn, if_true]; rfl
    have hlen := reachFrom0_length n e 0
    have hmem : true ∈ reachFrom0 n e 0 := by
      have h0 : 0 < (reachFrom0 n e 0).length := by rw [hlen]; exact hn
      rw [List.getD_eq_getElem?_getD, List.getElem?_eq_getElem h0, Option.getD_some] at this
      rw [← this]; exact List.getElem_mem h0
    exact List.count_pos_iff.mpr hmem
  | succ f ih =>
    rcases ih with ⟨g, hg, hst⟩ | hc
    · exact Or.inl ⟨g, by omega, hst⟩
    · rcases relax_count n e (reachFrom0 n e f) (reachFrom0_length n e f) with hfix | hlt
      · exact Or.inl ⟨f, by omega, by rw [reachFrom0_succ]; exact hfix⟩
      · right
        rw [reachFrom0_succ]
        omega

/-- `n` rounds reach a fixed point -/
theorem reachFrom0_fixed (n : Nat) (hn : 0 < n) (e : Nat → Nat → Bool) :
    reachFrom0 n e (n+1) = reachFrom0 n e n := by
  rcases reachFrom0_progress n hn e n with ⟨g, hg, hst⟩ | hc
  · have h1 := reachFrom0_stable n e g hst (n - g)
    have h2 := reachFrom0_stable n e g hst (n + 1 - g)
    rw [show g + (n - g) = n by omega] at h1
    rw [show g + (n + 1 - g) = n + 1 by omega] at h2
    rw [h1, h2]
  · have hle : (reachFrom0 n e n).count true ≤ (reachFrom0 n e n).length := List.count_le_length
    rw [reachFrom0_length] at hle
    omega

theorem reachFrom0_mono_le (n : Nat) (e : Nat → Nat → Bool) (f m v : Nat) (hv : v < n)
    (h : (reachFrom0 n e f).getD v false = true) : (reachFrom0 n e (f + m)).getD v false = true := by
  induction m with
  | zero => exact h
  | succ m ih => rw [← Nat.add_assoc, reachFrom0_succ]; exact relax_mono n e _ v hv ih

/-- every node reachable from node 0 is marked after `n` rounds -/
theorem reachFrom0_complete (n : Nat) (hn : 0 < n) (e : Nat → Nat → Bool) (v : Nat) (h : Reach n e 0 v) :
    (reachFrom0 n e n).getD v false = true := by
  generalize hz : (0 : Nat) = z at h
  induction h with
  | refl hu =>
    subst hz
    have : (reachFrom0 n e 0).getD 0 false = true := by
      simp only [reachFrom0, tab_getD, hn, if_true]; rfl
    simpa using reachFrom0_mono_le n e 0 n 0 hn this
  | step hreach he hw ih =>
    have hu := (Reach.left_lt hreach).2
    have := relax_step n e (reachFrom0 n e n) _ _ hu hw ih he
    rw [← reachFrom0_succ, reachFrom0_fixed n hn e] at this
    exact this

variable {α : Type} [Zero α] [BEq α]

/-- the graph of the non-zero entries -/
def nzEdge (a : Mat α) : Nat → Nat → Bool := fun i j => !(mget a i j == 0)

/-- **soundness of the connectivity test**: if `stronglyConnected n a` answers `true` then every node reaches every
    node along non-zero entries — so when no automatic regularisation is applied the graph really is strongly connected. -/
theorem stronglyConnected_sound (n : Nat) (hn : 0 < n) (a : Mat α) (h : stronglyConnected n a = true)
    (u v : Nat) (hu : u < n) (hv : v < n) : Reach n (nzEdge a) u v := by
  unfold stronglyConnected at h
  simp only [Bool.and_eq_true, List.all_eq_true] at h
  obtain ⟨hf, hb⟩ := h
  have len1 : (reachFrom0 n (nzEdge a) n).length = n := by
    cases n with
    | zero => omega
    | succ m => simp [reachFrom0]
  have len2 : (reachFrom0 n (fun i j => nzEdge a j i) n).length = n := by
    cases n with
    | zero => omega
    | succ m => simp [reachFrom0]
  have get_of_all : ∀ (l : List Bool), l.length = n → (∀ x ∈ l, id x = true) → ∀ w, w < n → l.getD w false = true := by
    intro l hl hall w hw
    have hw' : w < l.length := by rw [hl]; exact hw
    rw [List.getD_eq_getElem?_getD, List.getElem?_eq_getElem hw', Option.getD_some]
    exact hall _ (List.getElem_mem hw')
  have h0v : Reach n (nzEdge a) 0 v := reachFrom0_sound n hn _ n v hv (get_of_all _ len1 hf v hv)
  have hu0 : Reach n (nzEdge a) u 0 :=
    Reach.reverse (reachFrom0_sound n hn _ n u hu (get_of_all _ len2 hb u hu))
  exact hu0.trans h0v

/-- **completeness of the connectivity test**: on a strongly connected graph `stronglyConnected` answers `true` -/
theorem stronglyConnected_complete (n : Nat) (hn : 0 < n) (a : Mat α)
    (h : ∀ u v, u < n → v < n → Reach n (nzEdge a) u v) : stronglyConnected n a = true := by
  unfold stronglyConnected
  simp only [Bool.and_eq_true, List.all_eq_true]
  have all_of_get : ∀ (l : List Bool), l.length = n → (∀ w, w < n → l.getD w false = true) → ∀ x ∈ l, id x = true := by
    intro l hl hget x hx
    obtain ⟨i, hi, rfl⟩ := List.getElem_of_mem hx
    have := hget i (by rw [← hl]; exact hi)
    rw [List.getD_eq_getElem?_getD, List.getElem?_eq_getElem hi, Option.getD_some] at this
    exact this
  constructor
  · exact all_of_get _ (reachFrom0_length n _ n) fun w hw => reachFrom0_complete n hn _ w (h 0 w hn hw)
  · refine all_of_get _ (reachFrom0_length n _ n) fun w hw => reachFrom0_complete n hn _ w ?_
    have := Reach.reverse (e := fun i j => nzEdge a j i) (h w 0 hw hn)
    exact this

end SkNet.Embedding

/-! ### the specification's Warshall closure computes reachability too -/

namespace SkNet.Embedding

/-- read a boolean matrix -/
def rget (r : List (List Bool)) (i j : Nat) : Bool := (r.getD i []).getD j false

/-- one Warshall step with pivot `k` -/
def warshallStep (n : Nat) (r : List (List Bool)) (k : Nat) : List (List Bool) :=
  tab n fun i => tab n fun j => rget r i j || (rget r i k && rget r k j)

/-- the closure after the pivots `0 .. k-1` -/
def closureUpTo (n : Nat) (e : Nat → Nat → Bool) (k : Nat) : List (List Bool) :=
  (List.range k).foldl (warshallStep n) (tab n fun i => tab n fun j => i == j || e i j)

theorem closure_eq (n : Nat) (e : Nat → Nat → Bool) : Spec.closure n e = closureUpTo n e n := rfl

theorem closureUpTo_succ (n : Nat) (e : Nat → Nat → Bool) (k : Nat) :
    closureUpTo n e (k+1) = warshallStep n (closureUpTo n e k) k := by
  simp [closureUpTo, List.range_succ, List.foldl_append]

theorem rget_tab (n : Nat) (f : Nat → Nat → Bool) (i j : Nat) (hi : i < n) (hj : j < n) :
    rget (tab n fun i => tab n fun j => f i j) i j = f i j := by
  simp only [rget, tab_getD, hi, hj, if_true]

theorem rget_step (n : Nat) (r : List (List Bool)) (k i j : Nat) (hi : i < n) (hj : j < n) :
    rget (warshallStep n r k) i j = (rget r i j || (rget r i k && rget r k j)) := by
  unfold warshallStep
  rw [rget_tab n _ i j hi hj]

/-- Warshall's invariant without paths: after the pivots `< k` the relation is closed under joining at any `m < k` -/
theorem closureUpTo_join (n : Nat) (e : Nat → Nat → Bool) (k : Nat) (hk : k ≤ n) :
    ∀ i j m, i < n → j < n → m < k →
      rget (closureUpTo n e k) i m = true → rget (closureUpTo n e k) m j = true → rget (closureUpTo n e k) i j = true := by
  induction k with
  | zero => intro i j m _ _ hm; omega
  | succ k ih =>
    have ih' := ih (by omega)
    have hkn : k < n := by omega
    intro i j m hi hj hm h1 h2
    rw [closureUpTo_succ] at h1 h2 ⊢
    have hmn : m < n := by omega
    rw [rget_step n _ k i m hi hmn] at h1
    rw [rget_step n _ k m j hmn hj] at h2
    rw [rget_step n _ k i j hi hj]
    simp only [Bool.or_eq_true, Bool.and_eq_true] at h1 h2 ⊢
    by_cases hmk : m = k
    · subst hmk
      have a1 : rget (closureUpTo n e m) i m = true := by
        rcases h1 with h | ⟨h, _⟩ <;> exact h
      have a2 : rget (closureUpTo n e m) m j = true := by
        rcases h2 with h | ⟨_, h⟩ <;> exact h
      exact Or.inr ⟨a1, a2⟩
    · have hm' : m < k := by omega
      rcases h1 with h1 | ⟨h1a, h1b⟩ <;> rcases h2 with h2 | ⟨h2a, h2b⟩
      · exact Or.inl (ih' i j m hi hj hm' h1 h2)
      · exact Or.inr ⟨ih' i k m hi hkn hm' h1 h2a, h2b⟩
      · exact Or.inr ⟨h1a, ih' k j m hkn hj hm' h1b h2⟩
      · exact Or.inr ⟨h1a, h2b⟩

theorem closureUpTo_mono (n : Nat) (e : Nat → Nat → Bool) (k i j : Nat) (hi : i < n) (hj : j < n)
    (h : rget (closureUpTo n e 0) i j = true) : rget (closureUpTo n e k) i j = true := by
  induction k with
  | zero => exact h
  | succ k ih =>
    rw [closureUpTo_succ, rget_step n _ k i j hi hj, ih]
    rfl

/-- every entry of the closure is witnessed by a path -/
theorem closureUpTo_sound (n : Nat) (e : Nat → Nat → Bool) (k : Nat) (hk : k ≤ n) :
    ∀ i j, i < n → j < n → rget (closureUpTo n e k) i j = true → Reach n e i j := by
  induction k with
  | zero =>
    intro i j hi hj h
    simp only [closureUpTo, List.range_zero, List.foldl_nil] at h
    rw [rget_tab n _ i j hi hj] at h
    simp only [Bool.or_eq_true, beq_iff_eq] at h
    rcases h with h | h
    · subst h; exact Reach.refl hi
    · exact Reach.step (Reach.refl hi) h hj
  | succ k ih =>
    intro i j hi hj h
    have hkn : k < n := by omega
    rw [closureUpTo_succ, rget_step n _ k i j hi hj] at h
    simp only [Bool.or_eq_true, Bool.and_eq_true] at h
    rcases h with h | ⟨h1, h2⟩
    · exact ih (by omega) i j hi hj h
    · exact (ih (by omega) i k hi hkn h1).trans (ih (by omega) k j hkn hj h2)

/-- **the Warshall closure of the specification is reachability** -/
theorem closure_iff_reach (n : Nat) (e : Nat → Nat → Bool) (i j : Nat) (hi : i < n) (hj : j < n) :
    rget (Spec.closure n e) i j = true ↔ Reach n e i j := by
  rw [closure_eq]
  constructor
  · exact closureUpTo_sound n e n (Nat.le_refl n) i j hi hj
  · intro h
    induction h with
    | refl hu =>
      apply closureUpTo_mono n e n _ _ hu hu
      simp only [closureUpTo, List.range_zero, List.foldl_nil]
      rw [rget_tab n _ _ _ hu hu]; simp
    | step hr he hw ih =>
      rename_i v w
      have hv := (Reach.left_lt hr).2
      have hedge : rget (closureUpTo n e n) v w = true := by
        apply closureUpTo_mono n e n v w hv hw
        simp only [closureUpTo, List.range_zero, List.foldl_nil]
        rw [rget_tab n _ v w hv hw]; simp [he]
      exact closureUpTo_join n e n (Nat.le_refl n) i w v hi hw hv (ih hv) hedge

variable {α : Type} [Zero α] [BEq α]

/-- the two connectivity tests (model: relaxation rounds; specification: Warshall closure) agree -/
theorem spec_stronglyConnected_eq (n : Nat) (hn : 0 < n) (a : Mat α) :
    Spec.stronglyConnected n a = stronglyConnected n a := by
  have hspec : Spec.stronglyConnected n a = true ↔ ∀ u v, u < n → v < n → Reach n (nzEdge a) u v := by
    unfold Spec.stronglyConnected
    simp only [List.all_eq_true, List.mem_range]
    constructor
    · intro h u v hu hv
      exact (closure_iff_reach n (nzEdge a) u v hu hv).mp (h u hu v hv)
    · intro h u hu v hv
      exact (closure_iff_reach n (nzEdge a) u v hu hv).mpr (h u v hu hv)
  have hmod : stronglyConnected n a = true ↔ ∀ u v, u < n → v < n → Reach n (nzEdge a) u v :=
    ⟨fun h u v hu hv => stronglyConnected_sound n hn a h u v hu hv, stronglyConnected_complete n hn a⟩
  cases h1 : Spec.stronglyConnected n a <;> cases h2 : stronglyConnected n a
  · rfl
  · exact absurd (hspec.mpr (hmod.mp h2)) (by rw [h1]; decide)
  · exact absurd (hmod.mpr (hspec.mp h1)) (by rw [h2]; decide)
  · rfl

end SkNet.Embedding
