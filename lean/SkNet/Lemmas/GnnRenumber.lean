/-
The layer on tabulated matrices equals the specification; renumbering the nodes — for tabulated and for arbitrary
matrices, errors included; the whole network.
-/
import SkNet.Lemmas.GnnEquiv
import SkNet.Lemmas.GnnShapes
import SkNet.Lemmas.GnnNetwork

namespace SkNet.Gnn
open SkNet Mat Finset

theorem forward_tab (cfg : LayerCfg) (n m d c : Nat) (a x w : Nat → Nat → ℝ) (b : Option (List ℝ))
    (hb : ∀ bl, b = some bl → bl.length = c)
    (hsq : cfg.norm = .right ∨ cfg.norm = .both → n = m) :
    forward cfg (mk' n m a) (mk' m d x) (mk' d c w) b
      = .ok (Spec.forward cfg (mk' n m a) (mk' m d x) (mk' d c w) b) := by
  unfold forward
  rw [normalize_mk' cfg.norm n m a hsq]
  simp only [bind, Except.bind]
  rw [selfLoops_mk', matmul_mk']
  dsimp only
  rw [matmul_mk']
  dsimp only
  have key : ∀ i, i < n → ∀ k, k < c →
      Spec.preAct cfg.norm cfg.selfEmb (mk' n m a) (mk' m d x) (mk' d c w) b i k =
        (∑ l ∈ range d, (∑ j ∈ range m, Spec.normEntry cfg.norm cfg.selfEmb (mk' n m a) i j * x j l) * w l k) +
          biasAt b k :=
    fun i _ k hk => preAct_mk' cfg.norm cfg.selfEmb (mk' n m a) m d c rfl x w b i k hk
  cases b with
  | none =>
    simp only [pure, Except.pure]
    rw [actOutput_mk']
    congr 1
    unfold Spec.forward
    simp only [mk'_r, mk'_c]
    apply mk'_congr
    intro i hi k hk
    apply actFn_congr _ _ _ _ _ k hk
    intro k' hk'
    rw [key i hi k' hk']
    simp [biasAt]
  | some bl =>
    have hlen : bl.length = c := hb bl rfl
    simp only [addBias, mk'_c, mk'_r, hlen, ne_eq, not_true_eq_false, ite_false, pure, Except.pure]
    rw [actOutput_mk']
    congr 1
    unfold Spec.forward
    simp only [mk'_r, mk'_c]
    apply mk'_congr
    intro i hi k hk
    apply actFn_congr _ _ _ _ _ k hk
    intro k' hk'
    rw [key i hi k' hk', get_mk'_of_lt _ hi hk']
    rfl

theorem forward_tab_renumber (cfg : LayerCfg) (n d c : Nat) (a x w : Nat → Nat → ℝ) (b : Option (List ℝ))
    (hb : ∀ bl, b = some bl → bl.length = c) (p : Nat → Nat) (hp : IsRenumbering n p) :
    forward cfg (mk' n n fun i j => a (p i) (p j)) (mk' n d fun i l => x (p i) l) (mk' d c w) b =
      (forward cfg (mk' n n a) (mk' n d x) (mk' d c w) b).map fun O => mk' n c fun i k => O.get (p i) k := by
  rw [forward_tab cfg n n d c _ _ w b hb (fun _ => rfl), forward_tab cfg n n d c a x w b hb (fun _ => rfl),
    specForward_renumber hp]
  rfl

/-- The domain on which the real-number model speaks for the code: with `both` the code takes `np.sqrt` of the row
weights, which is NaN for a negative weight (the model's `Real.sqrt` is 0 there), so `both` is specified for
non-negative row weights only.  No condition for the other normalisations. -/
def InDomain (norm : Norm) (A : Mat ℝ) : Prop := norm = .both → ∀ i, i < A.r → 0 ≤ Spec.weight A i

theorem inDomain_of_nonneg (norm : Norm) (n m : Nat) (a : Nat → Nat → ℝ) (h : ∀ i j, 0 ≤ a i j) :
    InDomain norm (mk' n m a) := by
  intro _ i hi
  rw [weight_mk' n m a i hi]
  exact Finset.sum_nonneg fun j _ => h i j

/-- the adjacency of the renumbered graph: `(P A Pᵀ)[i, j] = A[p i, p j]` -/
noncomputable def renumberAdj (n : Nat) (p : Nat → Nat) (A : Mat ℝ) : Mat ℝ := mk' n n fun i j => A.get (p i) (p j)

/-- the rows of a matrix renumbered: `(P X)[i, l] = X[p i, l]` -/
noncomputable def renumberRows (p : Nat → Nat) (X : Mat ℝ) : Mat ℝ := mk' X.r X.c fun i l => X.get (p i) l

/-- **renumbering, for arbitrary matrices, errors included**: for a square `n × n` adjacency and any features, weight
and bias, the layer on the renumbered inputs returns the renumbered output of the layer, and raises (the same
`ValueError`) exactly when the layer raises on the original inputs -/
theorem forward_renumber (cfg : LayerCfg) (n : Nat) (A X W : Mat ℝ) (b : Option (List ℝ))
    (hAr : A.r = n) (hAc : A.c = n) (p : Nat → Nat) (hp : IsRenumbering n p) :
    forward cfg (renumberAdj n p A) (renumberRows p X) W b = (forward cfg A X W b).map (renumberRows p) := by
  rcases forward_cases cfg A X W b with ⟨hok, _⟩ | ⟨hbad, herr⟩
  · obtain ⟨h1, h2, hb, _⟩ := (shapesOk_iff _ _ _ _ _).mp hok
    have hXr : X.r = n := by rw [← h1, hAc]
    have e1 : forward cfg A X W b =
        forward cfg (mk' n n fun i j => A.get i j) (mk' n X.c fun i l => X.get i l) (mk' X.c W.c fun l k => W.get l k) b := by
      apply forward_congr cfg b
      · have := SameEntries.tabulated A
        rwa [hAr, hAc] at this
      · have := SameEntries.tabulated X
        rwa [hXr] at this
      · have := SameEntries.tabulated W
        rwa [← h2] at this
    have e2 : forward cfg (renumberAdj n p A) (renumberRows p X) W b =
        forward cfg (mk' n n fun i j => A.get (p i) (p j)) (mk' n X.c fun i l => X.get (p i) l)
          (mk' X.c W.c fun l k => W.get l k) b := by
      apply forward_congr cfg b
      · exact SameEntries.refl _
      · unfold renumberRows
        rw [hXr]
        exact SameEntries.refl _
      · have := SameEntries.tabulated W
        rwa [← h2] at this
    rw [e1, e2, forward_tab_renumber cfg n X.c W.c (fun i j => A.get i j) (fun i l => X.get i l) (fun l k => W.get l k)
      b hb p hp, forward_tab cfg n n X.c W.c _ _ _ b hb (fun _ => rfl)]
    simp only [Except.map, renumberRows, Spec.forward, mk'_r, mk'_c]
  · rw [herr]
    have hbad' : Spec.shapesOk cfg.norm (renumberAdj n p A) (renumberRows p X) W b = false := by
      rw [← hbad]
      unfold Spec.shapesOk renumberAdj renumberRows
      simp only [mk'_r, mk'_c, hAr, hAc]
    rcases forward_cases cfg (renumberAdj n p A) (renumberRows p X) W b with ⟨hok', _⟩ | ⟨_, herr'⟩
    · rw [hbad'] at hok'
      exact absurd hok' (by decide)
    · rw [herr']
      rfl

/-- every adjacency of the network renumbered -/
noncomputable def renumberLayers (n : Nat) (p : Nat → Nat) (ls : List (Layer ℝ × Mat ℝ)) : List (Layer ℝ × Mat ℝ) :=
  ls.map fun lA => (lA.1, renumberAdj n p lA.2)

theorem renumberRows_shape (p : Nat → Nat) (X : Mat ℝ) : (renumberRows p X).r = X.r ∧ (renumberRows p X).c = X.c :=
  ⟨rfl, rfl⟩

/-- **the whole network, arbitrary layers, errors included** -/
theorem gnnForward_renumber (n : Nat) (p : Nat → Nat) (hp : IsRenumbering n p) (ls : List (Layer ℝ × Mat ℝ))
    (hsq : ∀ lA ∈ ls, lA.2.r = n ∧ lA.2.c = n) :
    ∀ X : Mat ℝ, gnnForward (renumberLayers n p ls) (renumberRows p X) = (gnnForward ls X).map (renumberRows p) := by
  induction ls with
  | nil => intro X; rfl
  | cons lA ls ih =>
    intro X
    obtain ⟨l, A⟩ := lA
    have hA := hsq (l, A) (List.mem_cons_self ..)
    have hrest : ∀ lA ∈ ls, lA.2.r = n ∧ lA.2.c = n := fun lA h => hsq lA (List.mem_cons_of_mem _ h)
    simp only [renumberLayers, List.map_cons, gnnForward, bind, Except.bind]
    rw [forward_renumber l.cfg n A X l.W l.b hA.1 hA.2 p hp]
    cases hf : forward l.cfg A X l.W l.b with
    | error e => rfl
    | ok O =>
      simp only [Except.map]
      exact ih hrest O

/-- the network built from tabulated layers is the composition of the documented layers -/
theorem gnnForward_buildLayers (n : Nat) (ls : List LayerFn)
    (hb : ∀ l ∈ ls, ∀ bl, l.b = some bl → bl.length = l.c) :
    ∀ (d : Nat) (x : Nat → Nat → ℝ), ∃ O,
      gnnForward (buildLayers n id d ls) (mk' n d x) = .ok O ∧
      Spec.gnnForward (buildLayers n id d ls) (mk' n d x) = some O := by
  induction ls with
  | nil => intro d x; exact ⟨_, rfl, rfl⟩
  | cons l ls ih =>
    intro d x
    have hbl : ∀ bl, l.b = some bl → bl.length = l.c := hb l (List.mem_cons_self ..)
    have hrest : ∀ l' ∈ ls, ∀ bl, l'.b = some bl → bl.length = l'.c := fun l' hl' => hb l' (List.mem_cons_of_mem _ hl')
    obtain ⟨O, h1, h2⟩ := ih hrest l.c (fun i k => Spec.actFn l.cfg.act l.c
      (fun k' => Spec.preAct l.cfg.norm l.cfg.selfEmb (mk' n n l.a) (mk' n d x) (mk' d l.c l.w) l.b i k') k)
    refine ⟨O, ?_, ?_⟩
    · simp only [buildLayers, gnnForward, id]
      rw [forward_tab l.cfg n n d l.c l.a x l.w l.b hbl (fun _ => rfl)]
      exact h1
    · simp only [buildLayers, Spec.gnnForward, id]
      rw [if_pos ((shapesOk_iff _ _ _ _ _).mpr ⟨rfl, rfl, hbl, fun _ => rfl⟩)]
      exact h2


end SkNet.Gnn
