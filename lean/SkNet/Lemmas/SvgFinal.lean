/-
Assembly: the document `visualize_graph` / `visualize_bigraph` return, read back by the recogniser, contains exactly
what the specification (Spec/Svg.lean) expects.
-/
import SkNet.Lemmas.SvgEdges
import SkNet.Lemmas.SvgRescale
import SkNet.Lemmas.Utf8

set_option linter.unusedSimpArgs false

namespace SkNet.Svg

theorem finalPos_length {a : GraphArgs} {pos : List (Rat × Rat)} (h : finalPos a = .ok pos) :
    pos.length = a.pos.length := by
  unfold finalPos at h
  split at h
  · simp at h
  rename_i rp hrp
  simp only [Except.ok.injEq] at h
  subst h
  unfold rescale at hrp
  split at hrp
  · simp at hrp
  simp only at hrp
  split at hrp
  · split at hrp
    · simp at hrp
    · simp only [Except.ok.injEq] at hrp
      subst hrp
      simp
  · simp at hrp

/-- the model's "drawn" (on final positions) is the specification's "shown" (on the given positions) -/
theorem drawn_eq_shown {a : GraphArgs} {pos : List (Rat × Rat)} (h : finalPos a = .ok pos)
    (hnd : truthy a.width = true ∨ truthy a.height = true) (hs : a.lay.scale ≠ 0) (directed : Bool)
    (i j : Nat) (hi : i < a.pos.length) (hj : j < a.pos.length) :
    drawn directed pos i j = (!directed || a.pos.getD i (0, 0) != a.pos.getD j (0, 0)) := by
  have hc := finalPos_coincide a pos h hnd hs i j hi hj
  unfold drawn
  cases directed with
  | false => simp
  | true =>
    simp only [Bool.true_and, Bool.not_true, Bool.false_or]
    by_cases he : a.pos.getD i (0, 0) = a.pos.getD j (0, 0)
    · have := hc.mpr he
      rw [decide_eq_true this]
      simp only [Bool.not_true]
      rw [he]
      simp
    · have : ¬ ((pos.getD j (0, 0)).1 - (pos.getD i (0, 0)).1 = 0 ∧ (pos.getD j (0, 0)).2 - (pos.getD i (0, 0)).2 = 0) :=
        fun hh => he (hc.mp hh)
      rw [decide_eq_false this]
      simp only [Bool.not_false]
      exact (bne_iff_ne.mpr he).symm

theorem graphDirected_eq (a : GraphArgs) : graphDirected a = specDirected a := by
  unfold graphDirected specDirected
  cases a.directed <;> rfl

/-- residual edge labels lie inside the layout (checked by the code before they are drawn) -/
theorem residual_bounds {ν : Nums} {a : GraphArgs} {pos : List (Rat × Rat)} {ps : List PyStr × List Piece}
    (h : graphEdgeParts ν a pos = .ok ps) (hde : a.displayEdges = true) :
    ∀ p ∈ residPairs (graphEs a) a.edgeLabels, p.1 < pos.length ∧ p.2 < pos.length := by
  unfold graphEdgeParts at h
  rw [if_pos hde] at h
  split at h
  · simp at h
  rename_i ec hec
  split at h
  · simp at h
  split at h
  · simp at h
  rename_i hany
  obtain ⟨_, hres⟩ := getEdgeColors_struct hec
  intro p hp
  rw [← hres] at hp
  simp only [List.mem_map] at hp
  obtain ⟨r, hr, rfl⟩ := hp
  simp only [List.any_eq_true, not_exists, not_and, Bool.not_eq_true, decide_eq_true_eq] at hany
  have := hany r hr
  simp only [ge_iff_le, decide_eq_false_iff_not, not_or, Nat.not_le] at this
  exact this

theorem mem_graphEs {a : GraphArgs} {e : Entry} (h : e ∈ graphEs a) : e ∈ a.entries := by
  unfold graphEs at h
  have := (List.mem_filter.mp h).1
  split at this
  · exact this
  · simp at this

theorem graphEdgeCount_eq {a : GraphArgs} {pos : List (Rat × Rat)} (hfp : finalPos a = .ok pos)
    (hnd : truthy a.width = true ∨ truthy a.height = true) (hs : a.lay.scale ≠ 0)
    (hidx : ∀ e ∈ a.entries, e.1 < a.pos.length ∧ e.2.1 < a.pos.length)
    (hres : a.displayEdges = true → ∀ p ∈ residPairs (graphEs a) a.edgeLabels, p.1 < pos.length ∧ p.2 < pos.length) :
    graphEdgeCount a pos = (expectedGraph a).edgePaths := by
  have hlen := finalPos_length hfp
  have hes : specEs a = graphEs a := rfl
  unfold graphEdgeCount expectedGraph
  simp only [hes]
  by_cases hde : a.displayEdges = true
  · rw [if_pos hde, if_pos hde]
    have hdir := graphDirected_eq a
    congr 1
    · -- stored entries
      congr 1
      apply List.filter_congr
      intro e he
      have hb := hidx e (mem_graphEs he)
      rw [drawn_eq_shown hfp hnd hs _ _ _ hb.1 hb.2, hdir]
      rfl
    · -- edge labels on pairs without an edge
      have hr := hres hde
      unfold residPairs at hr ⊢
      rw [List.filter_map, List.length_map, List.filter_filter]
      congr 1
      apply List.filter_congr
      intro l hl
      simp only [Function.comp]
      by_cases hz : entryAt (graphEs a) l.1.toNat l.2.1.toNat = 0
      · have hm : (l.1.toNat, l.2.1.toNat) ∈ List.map (fun l : Int × Int × Int => (l.1.toNat, l.2.1.toNat))
            (List.filter (fun l => decide (entryAt (graphEs a) l.1.toNat l.2.1.toNat = 0)) a.edgeLabels) :=
          List.mem_map.mpr ⟨l, List.mem_filter.mpr ⟨hl, by simpa using hz⟩, rfl⟩
        have hb := hr _ hm
        rw [hlen] at hb
        rw [drawn_eq_shown hfp hnd hs _ _ _ hb.1 hb.2, hdir, decide_eq_true hz]
        simp only [Bool.and_true, Bool.true_and]
        rfl
      · rw [decide_eq_false hz]
        simp only [Bool.and_false, Bool.false_and]
  · rw [if_neg hde, if_neg hde]

theorem namesTexts_spec (n : Nat) (names : Option (List PyStr)) :
    namesTexts n names =
      (match names with
       | none => []
       | some names => (List.range n).map fun i => displayed (names.getD i [])) := by
  cases names <;> rfl

/-- `visualize_graph`: the returned string, read back, is a well-formed `svg` document that contains exactly the
    node shapes, edge paths and names the specification expects. -/
theorem visualizeGraph_docMeets (ν : Nums) (a : GraphArgs) (d : Drawing) (hν : SafeNums ν) (hsort : SortOk ν)
    (hp : ProbsOk a.probs)
    (hnd : truthy a.width = true ∨ truthy a.height = true) (hs : a.lay.scale ≠ 0)
    (hidx : ∀ e ∈ a.entries, e.1 < a.pos.length ∧ e.2.1 < a.pos.length)
    (h : visualizeGraph ν a = .ok d) : docMeets (render d.svg) (expectedGraph a) = true := by
  obtain ⟨nodeColors, pos, edges, nodes, text, hpos, hedges, hnodes, htext, h⟩ := visualizeGraph_ok h
  rw [writeFile_svg h]
  have he2 := graphEdgeParts_inner hν a pos hedges
  have hI : Inner (edges.2 ++ (nodes ++ text)) :=
    Inner.append he2 (Inner.append (graphNodes_inner hν _ _ _ _ hnodes) (namesText_inner hν _ _ _ _ htext))
  have hS := Shape.append (graphEdgeParts_shape hsort hedges)
    (Shape.append (graphNodes_shape hp hnodes) (namesText_shape htext))
  have hdoc := docMeets_svgDoc hν false true edges.1 hI hS
  have hcount := graphEdgeCount_eq hpos hnd hs hidx (fun hde => residual_bounds hedges hde)
  have hexp : (⟨(((⟨0, 0, graphEdgeCount a pos, []⟩ : Summary).add
        ((nodesSummary a.probs (a.nodeOrder.getD (List.range (graphN a)))).add
          ⟨0, 0, 0, namesTexts (graphN a) a.names⟩)).circles),
      (((⟨0, 0, graphEdgeCount a pos, []⟩ : Summary).add
        ((nodesSummary a.probs (a.nodeOrder.getD (List.range (graphN a)))).add
          ⟨0, 0, 0, namesTexts (graphN a) a.names⟩)).sectors),
      (((⟨0, 0, graphEdgeCount a pos, []⟩ : Summary).add
        ((nodesSummary a.probs (a.nodeOrder.getD (List.range (graphN a)))).add
          ⟨0, 0, 0, namesTexts (graphN a) a.names⟩)).edgePaths),
      (((⟨0, 0, graphEdgeCount a pos, []⟩ : Summary).add
        ((nodesSummary a.probs (a.nodeOrder.getD (List.range (graphN a)))).add
          ⟨0, 0, 0, namesTexts (graphN a) a.names⟩)).texts)⟩ : Expected) = expectedGraph a := by
    have e3 : (expectedGraph a).edgePaths = graphEdgeCount a pos := hcount.symm
    have e1 : (expectedGraph a).circles =
        ((a.nodeOrder.getD (List.range (graphN a))).filter fun i => !isPie a.probs i).length := rfl
    have e2 : (expectedGraph a).sectors =
        ((a.nodeOrder.getD (List.range (graphN a))).filter fun i => isPie a.probs i).length * ncolsOf a.probs := rfl
    have e4 : (expectedGraph a).texts = namesTexts (graphN a) a.names := by
      rw [namesTexts_spec]; rfl
    cases hx : expectedGraph a with
    | mk c s e t =>
      rw [hx] at e1 e2 e3 e4
      simp only at e1 e2 e3 e4
      subst e1; subst e2; subst e3; subst e4
      simp [Summary.add, nodesSummary]
  rw [hexp] at hdoc
  exact hdoc

/-! ### `visualize_bigraph` -/

theorem bistoredEdges_shape {ν : Nums} {es : List Entry} {ec : EdgeColors} {ps : List Piece}
    (h : bistoredEdges ν es ec = .ok ps) : Shape ps ⟨0, 0, ec.order.length, []⟩ := by
  unfold bistoredEdges at h
  have := foldlM_prefix (fun (pre : List Nat) acc => Shape acc ⟨0, 0, pre.length, []⟩) _ _ [] [] ps Shape.nil ?_ h
  · simpa using this
  · intro pre x acc acc' hacc hstep
    split at hstep
    · simp at hstep
    · simp only [Except.ok.injEq] at hstep
      subst hstep
      exact (Shape.append hacc (svgEdge_shape _ _)).cast (by simp [Summary.add])

theorem biresidEdges_shape (ν : Nums) (residual : List (Nat × Nat × PyStr)) :
    Shape (biresidEdges ν residual) ⟨0, 0, residual.length, []⟩ := by
  unfold biresidEdges
  have := flatMap_shape (List.range residual.length)
    (fun k => svgEdge (fun t => ν (.redge t) k 0) (residual.getD k (0, 0, [])).2.2) (fun _ => true)
    (fun k => by simpa using svgEdge_shape _ _)
  simpa using this

/-- the number of edge paths `visualize_bigraph` draws -/
def bigraphEdgeCount (a : BigraphArgs) : Nat :=
  if a.displayEdges then (bigraphEs a).length + (residPairs (bigraphEs a) a.edgeLabels).length else 0

theorem bigraphEdges_shape {ν : Nums} {a : BigraphArgs} {ps : List Piece} (hsort : SortOk ν)
    (h : bigraphEdges ν a = .ok ps) : Shape ps ⟨0, 0, bigraphEdgeCount a, []⟩ := by
  unfold bigraphEdges at h
  unfold bigraphEdgeCount
  split at h
  · rename_i hde
    rw [if_pos hde]
    simp only [bind, Except.bind, pure, Except.pure] at h
    split at h
    · simp at h
    rename_i ec hec
    split at h
    · simp at h
    rename_i stored hstored
    simp only [Except.ok.injEq] at h
    subst h
    obtain ⟨⟨data, hord, hdata⟩, hres⟩ := getEdgeColors_struct hec
    have h1 := bistoredEdges_shape hstored
    rw [hord, (hsort data).length_eq, List.length_range, hdata] at h1
    have h2 := biresidEdges_shape ν ec.residual
    have hl : ec.residual.length = (residPairs (bigraphEs a) a.edgeLabels).length := by
      rw [← hres, List.length_map]
    rw [hl] at h2
    exact (Shape.append h1 h2).cast (by simp [Summary.add])
  · rename_i hde
    rw [if_neg hde]
    simp only [pure, Except.pure, Except.ok.injEq] at h
    exact h ▸ Shape.nil

/-- `visualize_bigraph`: the returned string, read back, is a well-formed `svg` document that contains exactly the
    node shapes, edge paths and names the specification expects. -/
theorem visualizeBigraph_docMeets (ν : Nums) (a : BigraphArgs) (d : Drawing) (hν : SafeNums ν) (hsort : SortOk ν)
    (hpr : ProbsOk a.probsRow) (hpc : ProbsOk a.probsCol)
    (h : visualizeBigraph ν a = .ok d) :
    docMeets (render d.svg) (expectedBigraph a) = true := by
  obtain ⟨colorsRow, colorsCol, edges, nodesRow, nodesCol, textRow, textCol, hedges, hnr, hnc, htr, htc, h⟩ :=
    visualizeBigraph_ok h
  rw [writeFile_svg h]
  have hI : Inner (edges ++ (nodesRow ++ (nodesCol ++ (textRow ++ textCol)))) :=
    Inner.append (bigraphEdges_inner hν a hedges)
      (Inner.append (nodeLoop_inner hν _ _ _ _ hnr) (Inner.append (nodeLoop_inner hν _ _ _ _ hnc)
        (Inner.append (namesText_inner hν _ _ _ _ htr) (namesText_inner hν _ _ _ _ htc))))
  have hS := Shape.append (bigraphEdges_shape hsort hedges)
    (Shape.append (nodeLoop_shape hpr hnr) (Shape.append (nodeLoop_shape hpc hnc)
      (Shape.append (namesText_shape htr) (namesText_shape htc))))
  have hdoc := docMeets_svgDoc hν true true [] hI hS
  simp only [List.flatMap_nil, List.nil_append] at hdoc
  have hes : bigraphEs a = a.entries.filter fun e => e.2.2 ≠ 0 := rfl
  have hexp : expectedBigraph a = ⟨
      ((List.range a.nRow).filter fun i => !isPie a.probsRow i).length +
        ((List.range a.nCol).filter fun i => !isPie a.probsCol i).length,
      ((List.range a.nRow).filter fun i => isPie a.probsRow i).length * ncolsOf a.probsRow +
        ((List.range a.nCol).filter fun i => isPie a.probsCol i).length * ncolsOf a.probsCol,
      bigraphEdgeCount a,
      namesTexts a.nRow a.namesRow ++ namesTexts a.nCol a.namesCol⟩ := by
    unfold expectedBigraph bigraphEdgeCount residPairs
    simp only [← hes, List.length_map, namesTexts_spec]
    rfl
  rw [hexp]
  simpa [Summary.add, nodesSummary] using hdoc

/-! ### the file -/

/-- writing a lexically sound document never fails, and the bytes decode to the returned string -/
theorem writeFile_file {f : PyStr} {doc : List Piece} {d : Drawing} (hlex : piecesLexOk doc = true)
    (h : writeFile (some f) doc = .ok d) :
    ∃ bytes, d.file = some (f ++ py!".svg", bytes) ∧ utf8Decode bytes = some (render d.svg) := by
  obtain ⟨bytes, hb, hdec⟩ := render_file doc hlex
  unfold writeFile at h
  simp only [hb, Except.ok.injEq] at h
  subst h
  exact ⟨bytes, rfl, hdec⟩

theorem writeFile_succeeds (fn : Option PyStr) {doc : List Piece} (hlex : piecesLexOk doc = true) :
    ∃ d, writeFile fn doc = .ok d := by
  obtain ⟨bytes, hb, _⟩ := render_file doc hlex
  cases fn with
  | none => exact ⟨_, rfl⟩
  | some f => exact ⟨⟨doc, some (f ++ py!".svg", bytes)⟩, by simp [writeFile, hb]⟩

/-- the document `visualize_graph` hands to `writeFile` -/
theorem visualizeGraph_struct (ν : Nums) (a : GraphArgs) (d : Drawing) (hν : SafeNums ν)
    (h : visualizeGraph ν a = .ok d) :
    ∃ doc, piecesLexOk doc = true ∧ writeFile a.filename doc = .ok d := by
  obtain ⟨nodeColors, pos, edges, nodes, text, hpos, hedges, hnodes, htext, h⟩ := visualizeGraph_ok h
  have he2 := graphEdgeParts_inner hν a pos hedges
  have hI : Inner (edges.1.flatMap svgMarker ++ (edges.2 ++ (nodes ++ text))) :=
    Inner.append (Inner.flatMap _ _ (fun c => svgMarker_inner c))
      (Inner.append he2 (Inner.append (graphNodes_inner hν _ _ _ _ hnodes) (namesText_inner hν _ _ _ _ htext)))
  exact ⟨_, svgDoc_lexOk hν false true hI, h⟩

theorem visualizeBigraph_struct (ν : Nums) (a : BigraphArgs) (d : Drawing) (hν : SafeNums ν)
    (h : visualizeBigraph ν a = .ok d) :
    ∃ doc, piecesLexOk doc = true ∧ writeFile a.filename doc = .ok d := by
  obtain ⟨colorsRow, colorsCol, edges, nodesRow, nodesCol, textRow, textCol, hedges, hnr, hnc, htr, htc, h⟩ :=
    visualizeBigraph_ok h
  have hI : Inner (edges ++ (nodesRow ++ (nodesCol ++ (textRow ++ textCol)))) :=
    Inner.append (bigraphEdges_inner hν a hedges)
      (Inner.append (nodeLoop_inner hν _ _ _ _ hnr) (Inner.append (nodeLoop_inner hν _ _ _ _ hnc)
        (Inner.append (namesText_inner hν _ _ _ _ htr) (namesText_inner hν _ _ _ _ htc))))
  exact ⟨_, svgDoc_lexOk hν true true hI, h⟩

theorem visualizeDendrogram_struct (ν : Nums) (a : DendroArgs) (d : Drawing) (hν : SafeNums ν)
    (h : visualizeDendrogram ν a = .ok d) :
    ∃ doc, piecesLexOk doc = true ∧ writeFile a.filename doc = .ok d := by
  unfold visualizeDendrogram at h
  simp only [bind, Except.bind] at h
  split at h
  · simp at h
  rename_i svg hsvg
  obtain ⟨cut, index, text, paths, _, _, _, htext, hpaths, rfl⟩ := svgDendrogram_ok hsvg
  have hI : Inner (text ++ paths) := Inner.append (dendroNames_inner hν a index htext)
    (dendroTree_inner hν a cut index hpaths)
  exact ⟨_, svgDoc_lexOk hν true false hI, h⟩

end SkNet.Svg
