/-
The transposed matrix and the node weights checked by `Louvain._pre_processing` (C05): rows of `transposeSp` are the
columns of the input (stated on `triples`, independently of the model's `transposeSp`), and a matrix with
non-negative weights and positive total weight passes `get_probs` for every modularity kind.
-/
import SkNet.Lemmas.ClusteringAggregate

namespace SkNet.Clustering

theorem filter_const_true {α : Type} (l : List α) : l.filter (fun _ => true) = l := by
  induction l with
  | nil => rfl
  | cons x xs ih => simp [ih]

theorem filter_const_false {α : Type} (l : List α) : l.filter (fun _ => false) = [] := by
  induction l with
  | nil => rfl
  | cons x xs ih => simp [ih]

theorem transposeSp_getD (a : SpMat) (nCol : Nat) {j : Nat} (hj : j < nCol) :
    (transposeSp a nCol).getD j [] = (List.range a.length).flatMap fun i =>
      ((a.getD i []).filter fun e => e.1 == j).map fun e => (i, e.2) := by
  unfold transposeSp
  rw [tab_getD, if_pos hj]

/-- ★ row `j` of the transposed matrix holds exactly the stored entries of column `j`: for every selection `q` of
    rows, the selected weights of the transposed row add up to the weights of the stored entries `(i, j, w)` of the
    input with `q i` -/
theorem transposeSp_row_sum (a : SpMat) (nCol : Nat) {j : Nat} (hj : j < nCol) (q : Nat → Bool) :
    sumR ((((transposeSp a nCol).getD j []).filter fun e => q e.1).map (·.2)) =
      sumR (((triples a).filter fun t => t.2.1 == j && q t.1).map (·.2.2)) := by
  rw [transposeSp_getD a nCol hj]
  unfold triples
  rw [sumR_flatMap_filter_map, sumR_flatMap_filter_map]
  apply sumR_map_congr
  intro i _
  simp only [List.filter_map, List.map_map]
  by_cases hq : q i
  · have h1 : ((fun e : Nat × Rat => q e.1) ∘ fun e : Nat × Rat => (i, e.2)) = fun _ => true := by
      funext e; simp [Function.comp, hq]
    have h2 : ((fun t : Nat × Nat × Rat => t.2.1 == j && q t.1) ∘ fun e : Nat × Rat => (i, e.1, e.2)) =
        fun e => e.1 == j := by
      funext e; simp [Function.comp, hq]
    rw [h1, h2, filter_const_true]
    rfl
  · have hq' : q i = false := by simpa using hq
    have h1 : ((fun e : Nat × Rat => q e.1) ∘ fun e : Nat × Rat => (i, e.2)) = fun _ => false := by
      funext e; simp [Function.comp, hq']
    have h2 : ((fun t : Nat × Nat × Rat => t.2.1 == j && q t.1) ∘ fun e : Nat × Rat => (i, e.1, e.2)) =
        fun _ => false := by
      funext e; simp [Function.comp, hq']
    rw [h1, h2, filter_const_false, filter_const_false]
    rfl

/-- the weight of row `j` of the transposed matrix is the sum of column `j` of the input -/
theorem rowWeight_transposeSp (a : SpMat) (nCol : Nat) {j : Nat} (hj : j < nCol) :
    rowWeight ((transposeSp a nCol).getD j []) = classSum (triples a) (fun t => t.2.1) (·.2.2) j := by
  have := transposeSp_row_sum a nCol hj (fun _ => true)
  rw [filter_const_true] at this
  simp only [Bool.and_true] at this
  exact this

theorem map_eq_range_map {α β : Type} (l : List α) (d : α) (f : α → β) :
    l.map f = (List.range l.length).map fun i => f (l.getD i d) := by
  apply List.ext_getElem
  · simp
  · intro i h1 h2
    simp only [List.length_map, List.length_range] at h1 h2
    simp [List.getD_eq_getElem?_getD, h1]

theorem sumR_rowSums (a : SpMat) : sumR (rowSums a) = totalWeight a := by
  unfold rowSums totalWeight triples
  rw [map_eq_range_map a [] fun row => sumR (row.map (·.2))]
  have := sumR_flatMap_filter_map (List.range a.length)
    (fun i => (a.getD i []).map fun e => (i, e.1, e.2)) (fun _ => true) (fun t : Nat × Nat × Rat => t.2.2)
  rw [filter_const_true] at this
  simp only [filter_const_true] at this
  rw [this]
  apply sumR_map_congr
  intro i _
  rw [List.map_map]
  rfl

theorem colSums_eq (a : SpMat) (nCol : Nat) :
    colSums a nCol = tab nCol (classSum (triples a) (fun t => t.2.1) (·.2.2)) := by
  unfold colSums rowSums
  apply List.ext_getElem
  · simp [transposeSp]
  · intro j h1 h2
    have hj : j < nCol := by simpa [transposeSp] using h1
    have e1 : (transposeSp a nCol)[j]'(by simpa [transposeSp] using hj) = (transposeSp a nCol).getD j [] := by
      simp [List.getD_eq_getElem?_getD, transposeSp, hj]
    simp only [List.getElem_map, e1]
    have := rowWeight_transposeSp a nCol hj
    unfold rowWeight at this
    rw [this]
    simp [tab]

theorem sumR_colSums (a : SpMat) (nCol : Nat) (hcols : ∀ row ∈ a, ∀ e ∈ row, e.1 < nCol) :
    sumR (colSums a nCol) = totalWeight a := by
  rw [colSums_eq, sum_classSum]
  · rfl
  · intro t ht
    obtain ⟨_, row, hr, he⟩ := mem_triples ht
    exact hcols row hr _ he

theorem weightsOK_iff (v : List Rat) : weightsOK v = true ↔ (∀ x ∈ v, 0 ≤ x) ∧ 0 < sumR v := by
  simp [weightsOK]

/-- ★ an input with non-negative weights and positive total weight is accepted by `_pre_processing` for the three
    modularity kinds, square or bipartite -/
theorem preWeightsOK_of_nonneg (a : SpMat) (nCol : Nat) (bipartite : Bool) (kind : ModKind)
    (hcols : ∀ row ∈ a, ∀ e ∈ row, e.1 < nCol) (hw : ∀ row ∈ a, ∀ e ∈ row, 0 ≤ e.2)
    (hpos : 0 < totalWeight a) : preWeightsOK a nCol bipartite kind = true := by
  have hr : weightsOK (rowSums a) = true := by
    rw [weightsOK_iff]
    refine ⟨?_, by rw [sumR_rowSums]; exact hpos⟩
    intro x hx
    obtain ⟨row, hrow, rfl⟩ := List.mem_map.mp hx
    apply sumR_nonneg
    intro y hy
    obtain ⟨e, he, rfl⟩ := List.mem_map.mp hy
    exact hw row hrow e he
  have hcn : ∀ x ∈ colSums a nCol, 0 ≤ x := by
    intro x hx
    rw [colSums_eq] at hx
    obtain ⟨j, _, rfl⟩ := List.mem_map.mp hx
    apply classSum_nonneg
    intro t ht
    obtain ⟨_, row, hrow, he⟩ := mem_triples ht
    exact hw row hrow _ he
  have hc : weightsOK (colSums a nCol) = true := by
    rw [weightsOK_iff]
    exact ⟨hcn, by rw [sumR_colSums a nCol hcols]; exact hpos⟩
  cases kind with
  | potts => rfl
  | dugue => simp [preWeightsOK, hr, hc]
  | newman =>
    cases bipartite with
    | false => simpa [preWeightsOK] using hr
    | true =>
      simp only [preWeightsOK, if_true]
      rw [weightsOK_iff]
      refine ⟨?_, ?_⟩
      · intro x hx
        rcases List.mem_append.mp hx with h | h
        · exact ((weightsOK_iff _).mp hr).1 x h
        · exact hcn x h
      · rw [sumR_append, sumR_rowSums, sumR_colSums a nCol hcols]; linarith

end SkNet.Clustering
