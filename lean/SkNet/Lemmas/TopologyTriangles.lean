/-
C11 helper lemmas: the triangle pipeline. On the DAG of the index order the kernel's sum is the recursive clique
count of size three.
-/
import SkNet.Lemmas.TopologyDag
import SkNet.Lemmas.TopologyMerge
import SkNet.Lemmas.TopologyCliques

set_option linter.unusedSimpArgs false

namespace SkNet.Topology

/-- later neighbours of `i` (the out-list of `i` in the DAG of the index order) -/
def later (n : Nat) (adj : Nat → Nat → Bool) (i : Nat) : List Nat :=
  (List.range n).filter fun j => adj i j && decide (i < j)

/-- the order `np.arange(n)` -/
def arange (n : Nat) : List Int := tab n fun i => (i : Int)

theorem keepPred_arange (n i j : Nat) (hi : i < n) (hj : j < n) : keepPred (arange n) i j = decide (i < j) := by
  unfold keepPred arange
  rw [tab_getD, tab_getD, if_pos hi, if_pos hj]
  simp

theorem indexDag_row (n : Nat) (adj : Nat → Nat → Bool) (i : Nat) (hi : i < n) :
    (getDag n adj (arange n)).row i = later n adj i := by
  rw [getDag_row n adj (arange n) (by simp [arange]) i hi]
  unfold later
  apply List.filter_congr
  intro j hj
  rw [keepPred_arange n i j hi (List.mem_range.1 hj)]

theorem later_sorted (n : Nat) (adj : Nat → Nat → Bool) (i : Nat) : (later n adj i).Pairwise (· < ·) :=
  pairwise_filter_range n _

theorem mem_later {n : Nat} {adj : Nat → Nat → Bool} {i j : Nat} :
    j ∈ later n adj i ↔ j < n ∧ adj i j = true ∧ i < j := by
  simp [later, List.mem_filter, List.mem_range]

/-- one merge = the number of common later neighbours = a clique count of size one -/
theorem merge_later (n : Nat) (adj : Nat → Nat → Bool) (u v : Nat) :
    mergeL (later n adj u) (later n adj v) =
      cliqueCountIn adj 1 ((later n adj u).filter fun z => adj v z && decide (v < z)) := by
  rw [mergeL_eq _ _ (later_sorted n adj u) (later_sorted n adj v), cliqueCountIn_one]
  congr 1
  apply List.filter_congr
  intro z hz
  have hzn : z < n := (mem_later.1 hz).1
  by_cases h : z ∈ later n adj v
  · have := mem_later.1 h
    simp [h, this.2.1, this.2.2]
  · have h' : ¬ (adj v z = true ∧ v < z) := fun hh => h (mem_later.2 ⟨hzn, hh.1, hh.2⟩)
    simp only [h, decide_false]
    by_cases h1 : adj v z = true
    · have : ¬ v < z := fun h2 => h' ⟨h1, h2⟩
      simp [h1, this]
    · simp [h1]

theorem countLocal_indexDag (n : Nat) (adj : Nat → Nat → Bool) (u : Nat) (hu : u < n) :
    countLocal (getDag n adj (arange n)).indptr (getDag n adj (arange n)).indices u =
      cliqueCountIn adj 2 (later n adj u) := by
  rw [countLocal_eq, indexDag_row n adj u hu, cliqueCountIn_succ_sorted adj 1 _ (later_sorted n adj u)]
  congr 1
  apply List.map_congr_left
  intro v hv
  rw [indexDag_row n adj v (mem_later.1 hv).1, merge_later]

/-- the sequential kernel on the DAG of the index order is the recursive clique count of size three -/
theorem countFromDagSeq_indexDag (n : Nat) (adj : Nat → Nat → Bool) :
    countFromDagSeq (getDag n adj (arange n)).indptr (getDag n adj (arange n)).indices =
      cliqueCountIn adj 3 (List.range n) := by
  unfold countFromDagSeq
  rw [getDag_nodes, foldl_add_eq_sum, Nat.zero_add,
    cliqueCountIn_succ_sorted adj 2 _ List.pairwise_lt_range]
  congr 1
  apply List.map_congr_left
  intro u hu
  rw [countLocal_indexDag n adj u (List.mem_range.1 hu)]
  rfl

end SkNet.Topology
