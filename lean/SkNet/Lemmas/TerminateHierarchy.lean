/-
Termination of the `while 1` loop of `LouvainHierarchy._get_hierarchy` (property C17), on the model of C07
(`SkNet/Model/Hierarchy.lean : getHierarchyLoop`).

The loop calls `fit_predict` on the successive aggregates and stops when the number of clusters no longer
changes.  `fit_predict` returns one label per node of the aggregate, and the aggregate has one node per cluster of
the previous round: the number of clusters can only stay or strictly decrease, so the loop makes at most
(number of clusters of the first round) + 1 rounds.
-/
import SkNet.Model.Hierarchy

namespace SkNet.Terminate
open SkNet SkNet.Hier

theorem ins_length_le (x : Nat) (l : List Nat) : (uniqueSorted.ins x l).length ≤ l.length + 1 := by
  induction l with
  | nil => simp [uniqueSorted.ins]
  | cons y ys ih =>
    simp only [uniqueSorted.ins]
    split
    · simp
    · split
      · simp
      · simp only [List.length_cons]; omega

theorem uniqueSorted_length_le (l : List Nat) : (uniqueSorted l).length ≤ l.length := by
  unfold uniqueSorted
  induction l with
  | nil => simp
  | cons x xs ih =>
    simp only [List.foldr_cons, List.length_cons]
    have := ins_length_le x (xs.foldr uniqueSorted.ins [])
    omega

/-- the recorded results of `fit_predict`: each has one label per cluster of the previous one -/
def Chained : Nat → List (List Nat) → Prop
  | _, [] => True
  | k, next :: rest => next.length = k ∧ Chained (uniqueSorted next).length rest

/-- **The `while 1` loop of `LouvainHierarchy` terminates**: as long as `fit_predict` returns one label per node
    of the aggregate it is given, more recorded rounds than clusters of the first round are never needed. -/
theorem getHierarchyLoop_terminates :
    ∀ (more : List (List Nat)) (items : List Tree) (labels labelsUnique : List Nat),
      Chained labelsUnique.length more → labelsUnique.length < more.length →
      getHierarchyLoop more items labels labelsUnique ≠ none := by
  intro more
  induction more with
  | nil => intro _ _ _ _ h; simp at h
  | cons next rest ih =>
    intro items labels labelsUnique hch hlen
    simp only [getHierarchyLoop]
    split
    · simp
    · rename_i hne
      obtain ⟨h1, h2⟩ := hch
      have hle := uniqueSorted_length_le next
      have hlt : (uniqueSorted next).length < labelsUnique.length := by
        have : ¬ (labelsUnique.length = (uniqueSorted next).length) := by simpa using hne
        omega
      exact ih _ _ _ h2 (by simp only [List.length_cons] at hlen; omega)

end SkNet.Terminate
