/-
The decision rule of one node of `optimize_core`, in exact arithmetic: the node moves to the neighbouring cluster
of maximal gain `Q(move) − Q`, the smallest label among ties, and only if that gain is strictly positive.
-/
import SkNet.Lemmas.ModularityStep

namespace SkNet.Modularity
open Finset

/-- the kernel's `delta_local − delta` for any cluster `t` other than the node's own is the gain of moving there -/
theorem joinAt_eq_gain (g : Graph Rat) (hg : GraphOK g) (res : Rat) (K : Nat) (st : St Rat)
    (hinv : CoreInv g K st) (i : Nat) (hi : i < g.n) (t : Nat) (ht : t < K) (hne : t ≠ labOf st.labels i) :
    joinAt res (g.outW i) (g.inW i)
      (leaveDelta res (g.outW i) (g.inW i) (g.selfLoop i)
        ((nbrLoop st.labels (g.row i) st.cw).1.getD (st.labels.getD i 0) 0)
        (st.inCl.getD (st.labels.getD i 0) 0) (st.outCl.getD (st.labels.getD i 0) 0))
      st.inCl st.outCl (nbrLoop st.labels (g.row i) st.cw).1 t
    = QG g res (st.labels.set i t) - QG g res st.labels := by
  have hrow : ∀ e ∈ g.row i, st.labels.getD e.1 0 < st.cw.length := by
    intro e he; rw [hinv.lenC]; exact hinv.bound e.1 (hg.cols i hi e he)
  obtain ⟨-, nget, -, -⟩ := nbrLoop_spec st.labels (g.row i) st.cw hrow
  have hcw : ∀ x, (nbrLoop st.labels (g.row i) st.cw).1.getD x 0 = rowLink (labOf st.labels) (g.row i) x := by
    intro x; rw [nget x, hinv.cwZero x, zero_add]
  have hlabel' : st.labels.getD i 0 < K := hinv.bound i hi
  have hi' : i < st.labels.length := by rw [hinv.len]; exact hi
  have hlink : ∀ x, link g.n (adj g) (labOf st.labels) i x = rowLink (labOf st.labels) (g.row i) x := by
    intro x
    unfold link adj
    exact (rowLink_eq_link g.n _ _ x (hg.cols i hi)).symm
  have hne' : labOf st.labels i ≠ t := fun h => hne h.symm
  unfold QG
  rw [labOf_set _ _ _ hi', delta_move g.n (adj g) hg.sym g.outW g.inW res (labOf st.labels) i hi t hne']
  simp only [joinAt, joinDelta, leaveDelta, two_rat]
  rw [hcw t, hcw (st.labels.getD i 0), hinv.volI _ ht, hinv.volO _ ht, hinv.volI _ hlabel',
    hinv.volO _ hlabel', hg.self i hi, hlink, hlink]

/-- the gain of moving node `i` to cluster `t` -/
def moveGain (g : Graph Rat) (res : Rat) (labels : List Nat) (i t : Nat) : Rat :=
  QG g res (labels.set i t) - QG g res labels

/-- **decision rule of a node.** -/
theorem nodeStep_rule (g : Graph Rat) (hg : GraphOK g) (res : Rat) (K : Nat) (st : St Rat) (acc : Rat)
    (hinv : CoreInv g K st) (i : Nat) (hi : i < g.n) :
    -- the neighbouring clusters
    let cand : Nat → Prop := fun t => (∃ e ∈ g.row i, labOf st.labels e.1 = t) ∧ t ≠ labOf st.labels i
    ((nodeStep g res (st, acc) i).1.labels = st.labels ∧ ∀ t, cand t → moveGain g res st.labels i t ≤ 0) ∨
    (∃ b, cand b ∧ (nodeStep g res (st, acc) i).1.labels = st.labels.set i b ∧
      0 < moveGain g res st.labels i b ∧
      (∀ t, cand t → moveGain g res st.labels i t ≤ moveGain g res st.labels i b) ∧
      (∀ t, cand t → moveGain g res st.labels i t = moveGain g res st.labels i b → b ≤ t)) := by
  intro cand
  have hrow : ∀ e ∈ g.row i, st.labels.getD e.1 0 < st.cw.length := by
    intro e he; rw [hinv.lenC]; exact hinv.bound e.1 (hg.cols i hi e he)
  obtain ⟨nlen, -, nmem, nsorted⟩ := nbrLoop_spec st.labels (g.row i) st.cw hrow
  -- candidates = the targets of the loop
  have hcand : ∀ t, cand t ↔ t ∈ setErase (st.labels.getD i 0) (nbrLoop st.labels (g.row i) st.cw).2 := by
    intro t
    rw [mem_setErase, nmem t]
  have hK : ∀ t, cand t → t < K := by
    intro t ⟨⟨e, he, hte⟩, _⟩
    rw [← hte]; exact hinv.bound e.1 (hg.cols i hi e he)
  have hgain : ∀ t, cand t → joinAt res (g.outW i) (g.inW i)
      (leaveDelta res (g.outW i) (g.inW i) (g.selfLoop i)
        ((nbrLoop st.labels (g.row i) st.cw).1.getD (st.labels.getD i 0) 0)
        (st.inCl.getD (st.labels.getD i 0) 0) (st.outCl.getD (st.labels.getD i 0) 0))
      st.inCl st.outCl (nbrLoop st.labels (g.row i) st.cw).1 t = moveGain g res st.labels i t :=
    fun t ht => joinAt_eq_gain g hg res K st hinv i hi t (hK t ht) ht.2
  generalize hr : nodeStep g res (st, acc) i = r
  simp only [nodeStep] at hr
  split at hr
  · rename_i hemp
    subst hr
    left
    refine ⟨rfl, ?_⟩
    intro t ht
    have := (hcand t).mp ht
    rw [List.isEmpty_iff.mp hemp] at this
    exact absurd this List.not_mem_nil
  · have hts_sorted := setErase_sorted (st.labels.getD i 0) _ nsorted
    have hts_nodup : (setErase (st.labels.getD i 0) (nbrLoop st.labels (g.row i) st.cw).2).Nodup :=
      hts_sorted.imp (fun h => Nat.ne_of_lt h)
    have hts_bound : ∀ t ∈ setErase (st.labels.getD i 0) (nbrLoop st.labels (g.row i) st.cw).2,
        t < (nbrLoop st.labels (g.row i) st.cw).1.length := by
      intro t ht
      rw [nlen, hinv.lenC]; exact hK t ((hcand t).mpr ht)
    obtain ⟨-, -, tbest, tmax, -⟩ := targetLoop_fold res (g.outW i) (g.inW i)
      (leaveDelta res (g.outW i) (g.inW i) (g.selfLoop i)
        ((nbrLoop st.labels (g.row i) st.cw).1.getD (st.labels.getD i 0) Scalar.zero)
        (st.inCl.getD (st.labels.getD i 0) Scalar.zero) (st.outCl.getD (st.labels.getD i 0) Scalar.zero))
      st.inCl st.outCl (setErase (st.labels.getD i 0) (nbrLoop st.labels (g.row i) st.cw).2)
      0 (st.labels.getD i 0) (nbrLoop st.labels (g.row i) st.cw).1 hts_nodup hts_bound
    have tfirst := targetLoop_first res (g.outW i) (g.inW i)
      (leaveDelta res (g.outW i) (g.inW i) (g.selfLoop i)
        ((nbrLoop st.labels (g.row i) st.cw).1.getD (st.labels.getD i 0) Scalar.zero)
        (st.inCl.getD (st.labels.getD i 0) Scalar.zero) (st.outCl.getD (st.labels.getD i 0) Scalar.zero))
      st.inCl st.outCl (setErase (st.labels.getD i 0) (nbrLoop st.labels (g.row i) st.cw).2)
      0 (st.labels.getD i 0) (nbrLoop st.labels (g.row i) st.cw).1 hts_sorted hts_bound
    simp only [zero_rat] at hr tbest tmax tfirst
    generalize hR : List.foldl
        (targetStep res (g.outW i) (g.inW i)
          (leaveDelta res (g.outW i) (g.inW i) (g.selfLoop i)
            ((nbrLoop st.labels (g.row i) st.cw).1.getD (st.labels.getD i 0) 0)
            (st.inCl.getD (st.labels.getD i 0) 0) (st.outCl.getD (st.labels.getD i 0) 0))
          st.inCl st.outCl)
        (0, st.labels.getD i 0, (nbrLoop st.labels (g.row i) st.cw).1)
        (setErase (st.labels.getD i 0) (nbrLoop st.labels (g.row i) st.cw).2) = R at hr tbest tmax tfirst
    split at hr
    · rename_i hmove
      subst hr
      have hne : R.2.1 ≠ st.labels.getD i 0 := by simpa using hmove
      rcases tbest with ⟨_, h2⟩ | ⟨hmem, hval, hpos⟩
      · exact absurd h2 hne
      right
      have hcb : cand R.2.1 := (hcand _).mpr hmem
      have hgb := hgain _ hcb
      refine ⟨R.2.1, hcb, rfl, by rw [← hgb, ← hval]; exact hpos, ?_, ?_⟩
      · intro t ht
        rw [← hgain t ht, ← hgb, ← hval]
        exact tmax t ((hcand t).mp ht)
      · intro t ht heq
        refine tfirst hpos t ((hcand t).mp ht) ?_
        rw [hgain t ht, heq, ← hgb, ← hval]
    · rename_i hstay
      subst hr
      left
      refine ⟨rfl, ?_⟩
      intro t ht
      have hbl : R.2.1 = st.labels.getD i 0 := by simpa using hstay
      rcases tbest with ⟨h1, _⟩ | ⟨hmem, _, _⟩
      · rw [← hgain t ht]
        exact le_of_le_of_eq (tmax t ((hcand t).mp ht)) h1
      · exact absurd hbl ((mem_setErase _ _ _).mp hmem).2

end SkNet.Modularity
