/-
Renumbering the nodes by a permutation (labels and node weights renumbered with them) leaves the documented
modularity unchanged: directed, undirected / weighted and bipartite (rows and columns permuted separately) forms.
-/
import SkNet.Lemmas.ModularityMetric

namespace SkNet.Modularity
open Finset

/-- `π` is a permutation of `{0, …, n-1}` with inverse `π'`: new node `π i` is old node `i` -/
structure IsPerm (n : Nat) (π π' : Nat → Nat) : Prop where
  lt : ∀ i, i < n → π i < n
  lt' : ∀ a, a < n → π' a < n
  left : ∀ i, i < n → π' (π i) = i
  right : ∀ a, a < n → π (π' a) = a

/-- the matrix of the renumbered graph: entry `(π i, π j)` is the old entry `(i, j)` -/
def relabelMat (π' : Nat → Nat) (A : Nat → Nat → Rat) (a b : Nat) : Rat := A (π' a) (π' b)

/-- a label / weight vector renumbered with the nodes -/
def relabelVec {β : Type} (π' : Nat → Nat) (c : Nat → β) (a : Nat) : β := c (π' a)

theorem sum_perm {n : Nat} {π π' : Nat → Nat} (h : IsPerm n π π') (f : Nat → Rat) :
    ∑ a ∈ range n, f (π' a) = ∑ i ∈ range n, f i :=
  Finset.sum_nbij' π' π
    (fun a ha => mem_range.mpr (h.lt' a (mem_range.mp ha)))
    (fun i hi => mem_range.mpr (h.lt i (mem_range.mp hi)))
    (fun a ha => h.right a (mem_range.mp ha))
    (fun i hi => h.left i (mem_range.mp hi))
    (fun _ _ => rfl)

theorem sumTo_perm {n : Nat} {π π' : Nat → Nat} (h : IsPerm n π π') (f : Nat → Rat) :
    sumTo n (fun a => f (π' a)) = sumTo n f := by
  rw [sumTo_eq, sumTo_eq]; exact sum_perm h f

/-- a double sum over renumbered indices -/
theorem sumTo_perm₂ {n : Nat} {π π' : Nat → Nat} (h : IsPerm n π π') (G : Nat → Nat → Rat) :
    (sumTo n fun a => sumTo n fun b => G (π' a) (π' b)) = sumTo n fun i => sumTo n fun j => G i j := by
  rw [sumTo_perm h (fun i => sumTo n fun b => G i (π' b))]
  exact sumTo_congr fun i _ => sumTo_perm h (G i)

theorem totalWeight_relabel {n : Nat} {π π' : Nat → Nat} (h : IsPerm n π π') (A : Nat → Nat → Rat) :
    totalWeight n (relabelMat π' A) = totalWeight n A :=
  sumTo_perm₂ h A

theorem outDeg_relabel {n : Nat} {π π' : Nat → Nat} (h : IsPerm n π π') (A : Nat → Nat → Rat) (a : Nat) :
    outDeg n (relabelMat π' A) a = outDeg n A (π' a) :=
  sumTo_perm h (A (π' a))

theorem inDeg_relabel {n : Nat} {π π' : Nat → Nat} (h : IsPerm n π π') (A : Nat → Nat → Rat) (b : Nat) :
    inDeg n (relabelMat π' A) b = inDeg n A (π' b) :=
  sumTo_perm h (fun i => A i (π' b))

/-- **directed form** (`weights='degree'`) -/
theorem modularityDoc_relabel {n : Nat} {π π' : Nat → Nat} (h : IsPerm n π π') (A : Nat → Nat → Rat) (γ : Rat)
    (c : Nat → Int) :
    modularityDoc n (relabelMat π' A) γ (relabelVec π' c) = modularityDoc n A γ c := by
  unfold modularityDoc
  simp only [totalWeight_relabel h, outDeg_relabel h, inDeg_relabel h]
  congr 1
  exact sumTo_perm₂ h fun i j =>
    if sameCluster c i j then A i j - γ * (outDeg n A i * inDeg n A j / totalWeight n A) else 0

/-- **weighted form** (`weights='uniform'` or a custom vector renumbered with the nodes) -/
theorem modularityWeighted_relabel {n : Nat} {π π' : Nat → Nat} (h : IsPerm n π π') (A : Nat → Nat → Rat)
    (p : Nat → Rat) (γ : Rat) (c : Nat → Int) :
    modularityWeighted n (relabelMat π' A) (relabelVec π' p) γ (relabelVec π' c) = modularityWeighted n A p γ c := by
  unfold modularityWeighted
  simp only [totalWeight_relabel h]
  exact sumTo_perm₂ h fun i j => if sameCluster c i j then A i j / totalWeight n A - γ * (p i * p j) else 0

theorem fitDoc_relabel {n : Nat} {π π' : Nat → Nat} (h : IsPerm n π π') (A : Nat → Nat → Rat) (c : Nat → Int) :
    fitDoc n (relabelMat π' A) (relabelVec π' c) = fitDoc n A c := by
  unfold fitDoc
  rw [totalWeight_relabel h]
  congr 1
  exact sumTo_perm₂ h fun i j => if sameCluster c i j then A i j else 0

theorem divDoc_relabel {n : Nat} {π π' : Nat → Nat} (h : IsPerm n π π') (pr pc : Nat → Rat) (c : Nat → Int) :
    divDoc n (relabelVec π' pr) (relabelVec π' pc) (relabelVec π' c) = divDoc n pr pc c := by
  unfold divDoc
  exact sumTo_perm₂ h fun i j => if sameCluster c i j then pr i * pc j else 0

/-! ### bipartite graphs: rows and columns are renumbered separately -/

/-- the permutation of the `nRow + nCol` nodes of the block adjacency made of a row and a column permutation -/
def blockPerm (nRow : Nat) (πr πc : Nat → Nat) (i : Nat) : Nat :=
  if i < nRow then πr i else nRow + πc (i - nRow)

theorem blockPerm_isPerm {nRow nCol : Nat} {πr πr' πc πc' : Nat → Nat} (hr : IsPerm nRow πr πr')
    (hc : IsPerm nCol πc πc') :
    IsPerm (nRow + nCol) (blockPerm nRow πr πc) (blockPerm nRow πr' πc') where
  lt := by
    intro i hi
    unfold blockPerm
    split
    · rename_i h; have := hr.lt i h; omega
    · have := hc.lt (i - nRow) (by omega); omega
  lt' := by
    intro i hi
    unfold blockPerm
    split
    · rename_i h; have := hr.lt' i h; omega
    · have := hc.lt' (i - nRow) (by omega); omega
  left := by
    intro i hi
    unfold blockPerm
    by_cases h : i < nRow
    · have h1 := hr.lt i h
      simp only [h, if_true, h1, hr.left i h]
    · have h1 := hc.lt (i - nRow) (by omega)
      have h2 : ¬ nRow + πc (i - nRow) < nRow := by omega
      simp only [h, if_false, h2, Nat.add_sub_cancel_left, hc.left (i - nRow) (by omega)]
      omega
  right := by
    intro i hi
    unfold blockPerm
    by_cases h : i < nRow
    · have h1 := hr.lt' i h
      simp only [h, if_true, h1, hr.right i h]
    · have h1 := hc.lt' (i - nRow) (by omega)
      have h2 : ¬ nRow + πc' (i - nRow) < nRow := by omega
      simp only [h, if_false, h2, Nat.add_sub_cancel_left, hc.right (i - nRow) (by omega)]
      omega

/-- the biadjacency matrix with rows and columns renumbered: entry `(πr i, πc j)` is the old entry `(i, j)` -/
def relabelBi (πr' πc' : Nat → Nat) (B : Nat → Nat → Rat) (r s : Nat) : Rat := B (πr' r) (πc' s)

/-- the block adjacency of the renumbered biadjacency matrix is the renumbered block adjacency -/
theorem blockAdj_relabel {nRow : Nat} {πr πr' : Nat → Nat} (πc' : Nat → Nat) (hr : IsPerm nRow πr πr')
    (B : Nat → Nat → Rat) (a b : Nat) :
    blockAdj nRow (relabelBi πr' πc' B) a b
      = relabelMat (blockPerm nRow πr' πc') (blockAdj nRow B) a b := by
  unfold blockAdj relabelMat relabelBi blockPerm
  by_cases h1 : a < nRow <;> by_cases h2 : b < nRow
  · have := hr.lt' a h1; have := hr.lt' b h2
    simp [*]
  · have h3 := hr.lt' a h1
    have h4 : ¬ nRow + πc' (b - nRow) < nRow := by omega
    simp only [h1, h2, if_true, if_false, h3, h4, Nat.add_sub_cancel_left]
  · have h3 := hr.lt' b h2
    have h4 : ¬ nRow + πc' (a - nRow) < nRow := by omega
    simp only [h1, h2, if_true, if_false, h3, h4, Nat.add_sub_cancel_left]
  · have h3 : ¬ nRow + πc' (a - nRow) < nRow := by omega
    have h4 : ¬ nRow + πc' (b - nRow) < nRow := by omega
    simp only [h1, h2, if_false, h3, h4]

theorem modularityDoc_congr {n : Nat} {A A' : Nat → Nat → Rat} (γ : Rat) (c : Nat → Int)
    (h : ∀ a b, a < n → b < n → A' a b = A a b) : modularityDoc n A' γ c = modularityDoc n A γ c := by
  have hw : totalWeight n A' = totalWeight n A :=
    sumTo_congr fun a ha => sumTo_congr fun b hb => h a b ha hb
  have ho : ∀ a, a < n → outDeg n A' a = outDeg n A a := fun a ha => sumTo_congr fun b hb => h a b ha hb
  have hi : ∀ b, b < n → inDeg n A' b = inDeg n A b := fun b hb => sumTo_congr fun a ha => h a b ha hb
  unfold modularityDoc
  simp only [hw]
  congr 1
  refine sumTo_congr fun a ha => sumTo_congr fun b hb => ?_
  rw [h a b ha hb, ho a ha, hi b hb]

/-- **bipartite form**: the documented modularity of the block adjacency with stacked labels -/
theorem modularityDoc_relabel_bipartite {nRow nCol : Nat} {πr πr' πc πc' : Nat → Nat} (hr : IsPerm nRow πr πr')
    (hc : IsPerm nCol πc πc') (B : Nat → Nat → Rat) (γ : Rat) (c : Nat → Int) :
    modularityDoc (nRow + nCol) (blockAdj nRow (relabelBi πr' πc' B)) γ (relabelVec (blockPerm nRow πr' πc') c)
      = modularityDoc (nRow + nCol) (blockAdj nRow B) γ c := by
  rw [modularityDoc_congr γ _ (fun a b _ _ => blockAdj_relabel πc' hr B a b)]
  exact modularityDoc_relabel (blockPerm_isPerm hr hc) _ γ c

theorem modularityDoc_congr_labels {n : Nat} (A : Nat → Nat → Rat) (γ : Rat) {c c' : Nat → Int}
    (h : ∀ a, a < n → c' a = c a) : modularityDoc n A γ c' = modularityDoc n A γ c := by
  unfold modularityDoc
  simp only
  congr 1
  refine sumTo_congr fun a ha => sumTo_congr fun b hb => ?_
  unfold sameCluster
  rw [h a ha, h b hb]

/-- the label list renumbered with the nodes -/
def relabelList (n : Nat) (π' : Nat → Nat) (labels : List Int) : List Int := tab n fun a => labels.getD (π' a) (-1)

theorem labelAt_relabelList (n : Nat) (π' : Nat → Nat) (labels : List Int) (a : Nat) (ha : a < n) :
    labelAt (relabelList n π' labels) a = relabelVec π' (labelAt labels) a := by
  unfold labelAt relabelList relabelVec
  rw [tab_getD, if_pos ha]

/-- **the model of `get_modularity`** (square matrix, `weights='degree'`): two successful calls, on a graph and on
    its renumbering, return the same modularity -/
theorem getModularity_relabel {n : Nat} {π π' : Nat → Nat} (h : IsPerm n π π') (nnz nnz' : Nat)
    (A : Nat → Nat → Rat) (labels : List Int) (γ : Rat) (o o' : ModOut)
    (h1 : getModularity n n nnz A labels none .degree γ = .ok o)
    (h2 : getModularity n n nnz' (relabelMat π' A) (relabelList n π' labels) none .degree γ = .ok o') :
    o'.mod = o.mod := by
  have hadj : ∀ X : Nat → Nat → Rat, modAdj n n X = (n, X) := fun X => by simp [modAdj]
  have hlab : ∀ l lab : List Int, modLabels n n l none = .ok lab → lab = l := by
    intro l lab hl
    simp [modLabels] at hl
    exact hl.symm
  obtain ⟨lab, e1, e2⟩ := getModularity_eq_def_degree n n nnz A labels none γ o h1
  obtain ⟨lab', e1', e2'⟩ := getModularity_eq_def_degree n n nnz' (relabelMat π' A) (relabelList n π' labels) none γ o' h2
  rw [hlab _ _ e1, hadj] at e2
  rw [hlab _ _ e1', hadj] at e2'
  rw [e2, e2', modularityDoc_congr_labels _ γ (labelAt_relabelList n π' labels)]
  exact modularityDoc_relabel h A γ (labelAt labels)

end SkNet.Modularity
