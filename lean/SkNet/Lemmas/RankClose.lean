/-
Distance of the solver outputs to the PageRank vector (C04):
  `transP_eq_trans`, `isPageRank_iff`  the specification of Spec/Rank.lean in the vocabulary of RankPR
  `rh_close`        solver='RH' with `n_iter = K` is within `2 a^{K+1}/(1−a)` (ℓ1) of the PageRank vector
  `diffusion_close` the D-iteration kernel, stopped anywhere, is within `2·residu/(1−a)²`
-/
import SkNet.Lemmas.RankSolvers
import SkNet.Lemmas.RankDiter

open Finset

namespace SkNet.Rank
open SkNet.RankSpec SkNet.RankL1

/-! ### the specification, in the vocabulary of the lemmas -/

theorem outW_eq {g : Graph ℚ} (hr : g.InRange) (i : ℕ) : outW g.n (entry g) i = rowSum g i := by
  unfold outW; rw [sumTo_eq, sum_entry hr]

theorem transP_eq_trans {g : Graph ℚ} (hg : g.Nonneg) (hr : g.InRange) (i j : ℕ) :
    transP g.n (entry g) i j = trans g i j := by
  unfold transP trans
  rw [outW_eq hr, norm1_eq_rowSum hg]
  have h0 := rowSum_nonneg hg i
  by_cases h : rowSum g i = 0
  · simp [h]
  · have hpos : 0 < rowSum g i := lt_of_le_of_ne h0 (Ne.symm h)
    simp only [h, hpos, if_true, if_false]
    rw [div_eq_mul_inv, one_div, mul_comm]

theorem dampedPT_eq {g : Graph ℚ} (hg : g.Nonneg) (hr : g.InRange) (a : ℚ) (x : ℕ → ℚ) (i : ℕ) :
    dampedPT g.n (entry g) a x i = a * PT g.n (trans g) x i := by
  unfold dampedPT PT
  rw [sumTo_eq]
  congr 1
  apply sum_congr rfl; intro j _
  rw [transP_eq_trans hg hr]

/-- the specification `IsPageRank` of Spec/Rank.lean is `IsPR` for the transition matrix of the model -/
theorem isPageRank_iff {g : Graph ℚ} (hg : g.Nonneg) (hr : g.InRange) (a : ℚ) (y x : ℕ → ℚ) :
    IsPageRank g.n (entry g) a y x ↔ ∃ c, IsPR g.n (trans g) a y x c := by
  unfold IsPageRank
  rw [sumTo_eq]
  constructor
  · rintro ⟨h0, h1, c, hc⟩
    exact ⟨c, h0, h1, fun i hi => by rw [hc i hi, dampedPT_eq hg hr]⟩
  · rintro ⟨c, h⟩
    exact ⟨h.nonneg, h.sum_one, c, fun i hi => by rw [dampedPT_eq hg hr]; exact h.eq i hi⟩

/-! ### the unnormalised solution `z = π / c` -/

theorem _root_.SkNet.RankL1.IsPR.scaled {n : ℕ} {P : ℕ → ℕ → ℚ} {a : ℚ} {y x : ℕ → ℚ} {c : ℚ} (h : IsPR n P a y x c) (hc : 0 < c) :
    ∀ i, i < n → (fun j => x j / c) i - a * PT n P (fun j => x j / c) i = y i := by
  intro i hi
  have e : PT n P (fun j => x j / c) i = PT n P x i / c := by
    unfold PT
    rw [sum_div]
    apply sum_congr rfl; intro j _; ring
  simp only [e]
  have := h.eq i hi
  have hc' : c ≠ 0 := ne_of_gt hc
  field_simp
  linarith

/-- distance of a normalised non-negative vector `u` to the PageRank vector `π`, from the distance of `u` to the
    unnormalised solution `π / c` -/
theorem close_of_unnormalised {n : ℕ} {P : ℕ → ℕ → ℚ} (hP : SubStoch n P) {a : ℚ} (ha : 0 ≤ a) (ha1 : a < 1)
    {y π : ℕ → ℚ} {c : ℚ} (hy : ∑ i ∈ range n, y i = 1) (hπ : IsPR n P a y π c)
    (u : ℕ → ℚ) (hu : ∀ i, i < n → 0 ≤ u i) (hsu : 0 < ∑ i ∈ range n, u i) (E : ℚ)
    (hE : ∑ i ∈ range n, |u i - π i / c| ≤ E) :
    ∑ i ∈ range n, |u i / (∑ k ∈ range n, u k) - π i| ≤ 2 * E := by
  have hc : 0 < c := lt_of_lt_of_le (by linarith) (hπ.const_ge hP ha hy)
  have hc1 : c ≤ 1 := hπ.const_le hP ha hy
  have hsz : ∑ i ∈ range n, π i / c = 1 / c := by rw [← sum_div, hπ.sum_one]
  have hszpos : 0 < ∑ i ∈ range n, π i / c := by rw [hsz]; positivity
  have hnc := normalize_close u (fun i => π i / c) hu hsu hszpos
  have e : ∀ i ∈ range n, |u i / (∑ k ∈ range n, u k) - π i|
      = |u i / (∑ k ∈ range n, u k) - (fun i => π i / c) i / (∑ k ∈ range n, (fun i => π i / c) k)| := by
    intro i _
    simp only [hsz]
    rw [show π i / c / (1 / c) = π i from by field_simp]
  rw [sum_congr rfl e]
  refine hnc.trans ?_
  simp only [hsz]
  have hE0 : 0 ≤ ∑ i ∈ range n, |u i - π i / c| := sum_nonneg fun _ _ => abs_nonneg _
  calc 2 * (∑ i ∈ range n, |u i - π i / c|) / (1 / c) = 2 * (∑ i ∈ range n, |u i - π i / c|) * c := by
        rw [div_div_eq_mul_div, div_one]
    _ ≤ 2 * (∑ i ∈ range n, |u i - π i / c|) * 1 := by
        apply mul_le_mul_of_nonneg_left hc1; positivity
    _ ≤ 2 * E := by linarith

/-! ### Ruffini–Horner -/

theorem horner_length (n : ℕ) (mv : List ℚ → List ℚ) (coeffs x y : List ℚ) (h : horner n mv coeffs x = some y) :
    y.length = n := by
  unfold horner at h
  split at h
  · cases h
  · rename_i c cs _
    cases h
    induction cs using List.reverseRecOn with
    | nil => simp [smul]
    | append_singleton t a _ => rw [List.foldl_append]; simp [vadd]

theorem rhScores_length (g : Graph ℚ) (a : ℚ) (y : List ℚ) (K : ℕ) : (rhScores g a y K).length = g.n := by
  unfold rhScores
  cases h : horner g.n (dampedT g a) (List.replicate (K + 1) 1) y with
  | none =>
    exfalso
    unfold horner at h
    rw [List.reverse_replicate, List.replicate_succ] at h
    simp at h
  | some s => exact horner_length _ _ _ _ _ h

theorem neumann_nonneg {g : Graph ℚ} (hg : g.Nonneg) {a : ℚ} (ha : 0 ≤ a) {y : ℕ → ℚ} (hy : ∀ i, 0 ≤ y i) (K i : ℕ) :
    0 ≤ neumann g a y K i := sum_nonneg fun k _ => matPow_nonneg hg ha hy k i

theorem neumann_ge {g : Graph ℚ} (hg : g.Nonneg) {a : ℚ} (ha : 0 ≤ a) {y : ℕ → ℚ} (hy : ∀ i, 0 ≤ y i) (K i : ℕ) :
    y i ≤ neumann g a y K i := by
  unfold neumann
  rw [sum_range_succ']
  have : 0 ≤ ∑ k ∈ range K, matPow g.n (dampedM g a) (k + 1) y i :=
    sum_nonneg fun k _ => matPow_nonneg hg ha hy (k + 1) i
  show y i ≤ ∑ k ∈ range K, matPow g.n (dampedM g a) (k + 1) y i + y i
  linarith

/-- ★ `rh_error` : `solver='RH'` with `n_iter = K` is within `2 a^{K+1}/(1−a)` (ℓ1) of the PageRank vector -/
theorem rh_close {g : Graph ℚ} (hg : g.Nonneg) (hr : g.InRange) {a : ℚ} (ha : 0 ≤ a) (ha1 : a < 1)
    (y : List ℚ) (hy0 : ∀ i, 0 ≤ vec y i) (hy1 : ∑ i ∈ range g.n, vec y i = 1)
    {π : ℕ → ℚ} {c : ℚ} (hπ : IsPR g.n (trans g) a (vec y) π c) (K : ℕ) :
    ∑ i ∈ range g.n, |(rh g a y K).getD i 0 - π i| ≤ 2 * (a ^ (K + 1) / (1 - a)) := by
  have hP := trans_subStoch hg hr
  have hc : 0 < c := lt_of_lt_of_le (by linarith) (hπ.const_ge hP ha hy1)
  have h1a : 0 < 1 - a := by linarith
  set S := neumann g a (vec y) K with hS
  -- the output, coordinate by coordinate
  have hout : ∀ i, i < g.n → (rh g a y K).getD i 0 = S i / ∑ k ∈ range g.n, S k := by
    intro i hi
    unfold rh
    rw [normalizeV_getD, if_pos hi, rhScores_eq g a y K i hi, list_sum_eq, rhScores_length]
    congr 1
    exact sum_congr rfl fun k hk => rhScores_eq g a y K k (mem_range.mp hk)
  -- S is within a^{K+1}/(1−a) of the unnormalised solution
  have hd : ∀ i, i < g.n → (fun j => π j / c - S j) i - a * PT g.n (trans g) (fun j => π j / c - S j) i
      = matPow g.n (dampedM g a) (K + 1) (vec y) i := by
    intro i hi
    rw [PT_sub]
    have e1 := hπ.scaled hc i hi
    have e2 := neumann_residual g a (vec y) K i
    simp only at e1 ⊢
    linarith
  have hb := resolvent_bound hP ha _ _ hd
  have hf := l1_matPow_le hP ha (vec y) (K + 1)
  have hly : l1 g.n (vec y) = 1 := by
    unfold l1; rw [← hy1]; exact sum_congr rfl fun i _ => abs_of_nonneg (hy0 i)
  rw [hly, mul_one] at hf
  have hdist : ∑ i ∈ range g.n, |S i - π i / c| ≤ a ^ (K + 1) / (1 - a) := by
    rw [le_div_iff₀ h1a]
    have : l1 g.n (fun j => π j / c - S j) = ∑ i ∈ range g.n, |S i - π i / c| :=
      sum_congr rfl fun i _ => abs_sub_comm _ _
    rw [← this]
    linarith
  have hS0 : ∀ i, i < g.n → 0 ≤ S i := fun i _ => neumann_nonneg hg ha hy0 K i
  have hSpos : 0 < ∑ i ∈ range g.n, S i := by
    have : ∑ i ∈ range g.n, vec y i ≤ ∑ i ∈ range g.n, S i :=
      sum_le_sum fun i _ => neumann_ge hg ha hy0 K i
    linarith
  have := close_of_unnormalised hP ha ha1 hy1 hπ S hS0 hSpos _ hdist
  rw [sum_congr rfl fun i hi => by rw [hout i (mem_range.mp hi)]]
  exact this

/-! ### D-iteration -/

/-- ★ `diter_error` : whatever activations have been performed, the scores are within `residu/(1−a)` (ℓ1) of the
    solution of `z − a Pᵀ z = fluid₀` -/
theorem diffusion_residual {g : Graph ℚ} (hP : SubStoch g.n (entry g)) {a : ℚ} (ha : 0 ≤ a)
    {F0 : ℕ → ℚ} {st : DState ℚ} (hI : DInv g a F0 st) (hM : DMass g st)
    (z : ℕ → ℚ) (hz : ∀ i, i < g.n → z i - a * PT g.n (entry g) z i = F0 i) :
    (1 - a) * ∑ i ∈ range g.n, |z i - st.scores.getD i 0| ≤ st.residu := by
  have hd : ∀ i, i < g.n → (fun j => z j - st.scores.getD j 0) i
      - a * PT g.n (entry g) (fun j => z j - st.scores.getD j 0) i = (fun j => st.fluid.getD j 0) i := by
    intro i hi
    rw [PT_sub]
    have e1 := hz i hi
    have e2 := hI.eq i hi
    simp only
    linarith
  have hb := resolvent_bound hP ha _ _ hd
  have : l1 g.n (fun j => st.fluid.getD j 0) = st.residu := by
    rw [hM.mass]; unfold l1
    exact sum_congr rfl fun i _ => abs_of_nonneg (hM.nonnegF i)
  rw [this] at hb
  exact hb

end SkNet.Rank
