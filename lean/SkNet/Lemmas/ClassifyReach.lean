/-
`reached` (the sign of the distances from the seeds) against walks: `n` rounds of the closure step reach a
fixed point, which is exactly the set of end points of walks from a source.
-/
import SkNet.Lemmas.ClassifyDiffusion

namespace SkNet.Classify

attribute [-simp] List.getD_eq_getElem?_getD

variable {n : Nat} {edge : Nat → Nat → Bool}

theorem reachStep_getD (r : List Bool) (v : Nat) :
    (reachStep n edge r).getD v false =
      (decide (v < n) && (r.getD v false || (List.range n).any fun u => r.getD u false && edge u v)) := by
  unfold reachStep
  rw [tab_getD]
  by_cases h : v < n <;> simp [h]

theorem reachStep_true_iff (r : List Bool) (v : Nat) :
    (reachStep n edge r).getD v false = true ↔
      v < n ∧ (r.getD v false = true ∨ ∃ u, u < n ∧ r.getD u false = true ∧ edge u v = true) := by
  rw [reachStep_getD]
  simp only [Bool.and_eq_true, decide_eq_true_eq, Bool.or_eq_true, List.any_eq_true, List.mem_range]

/-- `r` is closed under the step (on the nodes below `n`) -/
def Closed (n : Nat) (edge : Nat → Nat → Bool) (r : List Bool) : Prop :=
  ∀ v, v < n → (reachStep n edge r).getD v false = r.getD v false

/-- number of nodes in `r` -/
def cnt (n : Nat) (r : List Bool) : Nat := (List.range n).countP fun v => r.getD v false

theorem countP_mono_strict (l : List Nat) (a b : Nat → Bool) (hle : ∀ v ∈ l, a v = true → b v = true) :
    l.countP a ≤ l.countP b ∧ ((∃ v ∈ l, a v = false ∧ b v = true) → l.countP a < l.countP b) := by
  induction l with
  | nil => simp
  | cons x xs ih =>
    obtain ⟨h1, h2⟩ := ih (fun v hv => hle v (List.mem_cons_of_mem _ hv))
    have hx := hle x (List.mem_cons_self ..)
    simp only [List.countP_cons]
    constructor
    · cases ha : a x <;> cases hb : b x <;> simp_all <;> omega
    · rintro ⟨v, hv, hva, hvb⟩
      rcases List.mem_cons.mp hv with rfl | hv
      · simp [hva, hvb]
        omega
      · have := h2 ⟨v, hv, hva, hvb⟩
        cases ha : a x <;> cases hb : b x <;> simp_all <;> omega

theorem cnt_le (r : List Bool) : cnt n r ≤ n := by
  unfold cnt
  have := List.countP_le_length (p := fun v => r.getD v false) (l := List.range n)
  simpa using this

theorem closed_of_full (r : List Bool) (h : n ≤ cnt n r) : Closed n edge r := by
  have hall : ∀ v, v < n → r.getD v false = true := by
    have heq : (List.range n).countP (fun v => r.getD v false) = (List.range n).length := by
      have := cnt_le (n := n) r
      unfold cnt at this h
      simp
      omega
    have := List.countP_eq_length.mp heq
    intro v hv
    exact this v (List.mem_range.mpr hv)
  intro v hv
  rw [hall v hv]
  exact reachStep_mono n edge r v hv (hall v hv)

theorem step_grows (r : List Bool) (h : ¬ Closed n edge r) : cnt n r + 1 ≤ cnt n (reachStep n edge r) := by
  unfold Closed at h
  have hex : ∃ v, v < n ∧ (reachStep n edge r).getD v false ≠ r.getD v false := by
    by_contra hc
    apply h
    intro v hv
    by_contra hne
    exact hc ⟨v, hv, hne⟩
  obtain ⟨v, hv, hne⟩ := hex
  have hrv : r.getD v false = false := by
    by_contra hc
    have ht : r.getD v false = true := by simpa using hc
    exact hne (by rw [ht]; exact reachStep_mono n edge r v hv ht)
  have hsv : (reachStep n edge r).getD v false = true := by
    rw [hrv] at hne
    simpa using hne
  have := (countP_mono_strict (List.range n) (fun v => r.getD v false)
    (fun v => (reachStep n edge r).getD v false)
    (fun u hu hau => reachStep_mono n edge r u (List.mem_range.mp hu) hau)).2
    ⟨v, List.mem_range.mpr hv, hrv, hsv⟩
  unfold cnt
  omega

theorem step_congr (r r' : List Bool) (h : ∀ v, v < n → r.getD v false = r'.getD v false) (v : Nat) :
    (reachStep n edge r).getD v false = (reachStep n edge r').getD v false := by
  rw [reachStep_getD, reachStep_getD]
  by_cases hv : v < n
  · simp only [hv, decide_true, Bool.true_and]
    rw [h v hv]
    have : ((List.range n).any fun u => r.getD u false && edge u v) =
        ((List.range n).any fun u => r'.getD u false && edge u v) := by
      rw [Bool.eq_iff_iff]
      simp only [List.any_eq_true, List.mem_range, Bool.and_eq_true]
      constructor
      · rintro ⟨u, hu, h1, h2⟩
        exact ⟨u, hu, by rw [← h u hu]; exact h1, h2⟩
      · rintro ⟨u, hu, h1, h2⟩
        exact ⟨u, hu, by rw [h u hu]; exact h1, h2⟩
    rw [this]
  · simp [hv]

theorem closed_step (r : List Bool) (h : Closed n edge r) : Closed n edge (reachStep n edge r) := by
  intro v hv
  exact step_congr _ _ (fun u hu => h u hu) v

theorem iter_closed_or_count (k : Nat) (r : List Bool) :
    Closed n edge (reachIter n edge k r) ∨ k ≤ cnt n (reachIter n edge k r) := by
  induction k generalizing r with
  | zero => right; omega
  | succ k ih =>
    -- reachIter (k+1) r = reachIter k (step r); reorganise as step after k rounds
    have hcomm : ∀ (m : Nat) (s : List Bool), reachIter n edge (m+1) s = reachStep n edge (reachIter n edge m s) := by
      intro m
      induction m with
      | zero => intro s; rfl
      | succ m ihm =>
        intro s
        show reachIter n edge (m+1) (reachStep n edge s) = _
        rw [ihm]
        rfl
    rw [hcomm]
    rcases ih r with hc | hk
    · exact Or.inl (closed_step _ hc)
    · by_cases hc : Closed n edge (reachIter n edge k r)
      · exact Or.inl (closed_step _ hc)
      · right
        have := step_grows _ hc
        omega

theorem reached_closed (src : Nat → Bool) : Closed n edge (reached n edge src) := by
  unfold reached
  rcases iter_closed_or_count (n := n) (edge := edge) n (tab n src) with h | h
  · exact h
  · exact closed_of_full _ h

theorem reachIter_sound (src : Nat → Bool) (k : Nat) (r : List Bool)
    (h : ∀ v, r.getD v false = true → Spec.Reach n edge src v) :
    ∀ v, (reachIter n edge k r).getD v false = true → Spec.Reach n edge src v := by
  induction k generalizing r with
  | zero => exact h
  | succ k ih =>
    apply ih
    intro v hv
    obtain ⟨hvn, h1 | ⟨u, _, hu, he⟩⟩ := (reachStep_true_iff r v).mp hv
    · exact h v h1
    · exact Spec.Reach.step (h u hu) he hvn

/-- `reached` is exactly the set of end points of walks from a source -/
theorem reached_iff (src : Nat → Bool) (v : Nat) :
    (reached n edge src).getD v false = true ↔ Spec.Reach n edge src v := by
  constructor
  · unfold reached
    apply reachIter_sound src n
    intro u hu
    rw [tab_getD] at hu
    by_cases hun : u < n
    · simp only [hun, if_true] at hu
      exact Spec.Reach.base hun hu
    · simp [hun] at hu
  · intro h
    induction h with
    | base hv hs => exact reached_src n edge src _ hv hs
    | step _ he hv ih =>
      rename_i u w _
      rw [← reached_closed (n := n) (edge := edge) src w hv]
      apply (reachStep_true_iff _ w).mpr
      refine ⟨hv, Or.inr ⟨u, ?_, ih, he⟩⟩
      -- u < n because it is reached
      by_contra hc
      have : (reached n edge src).getD u false = false := by
        have hlen : (reached n edge src).length = n := by
          unfold reached
          have : ∀ (k : Nat) (r : List Bool), r.length = n → (reachIter n edge k r).length = n := by
            intro k
            induction k with
            | zero => intro r hr; exact hr
            | succ k ihk =>
              intro r _
              apply ihk
              unfold reachStep
              simp
          exact this n _ (by simp)
        rw [List.getD_eq_getElem?_getD, List.getElem?_eq_none (by omega)]
        rfl
      rw [this] at ih
      cases ih

/-- on an undirected graph (symmetric `edge`) the nodes reached from the sources are exactly the nodes of the
    components that contain a source -/
theorem conn_lt {s v : Nat} (h : Spec.Conn n edge s v) : v < n := by
  cases h with
  | refl hs => exact hs
  | step _ _ hv => exact hv

theorem reach_iff_component (src : Nat → Bool) (hsym : ∀ u v, u < n → v < n → edge u v = edge v u) (v : Nat) :
    Spec.Reach n edge src v ↔ ∃ s, src s = true ∧ Spec.Conn n edge s v := by
  constructor
  · intro h
    induction h with
    | base hv hs => exact ⟨_, hs, Spec.Conn.refl hv⟩
    | step _ he hv ih =>
      obtain ⟨s, hs, hc⟩ := ih
      exact ⟨s, hs, Spec.Conn.step hc (Or.inl he) hv⟩
  · rintro ⟨s, hs, hc⟩
    induction hc with
    | refl hsn => exact Spec.Reach.base hsn hs
    | step hcu he hv ih =>
      rcases he with he | he
      · exact Spec.Reach.step ih he hv
      · rw [hsym _ _ hv (conn_lt hcu)] at he
        exact Spec.Reach.step ih he hv

end SkNet.Classify
