/-
C11 helper lemmas: a `+` reduction over a `prange` gives the sequential sum under every schedule.
-/
import SkNet.Lemmas.TopologyMerge

set_option linter.unusedSimpArgs false

namespace SkNet.Topology

/-- A schedule of `n` iterations: every iteration is executed exactly once by some thread, and every thread's
    private copy is combined exactly once. -/
def Schedule.Valid (s : Schedule) (n : Nat) : Prop :=
  s.parts.flatten.Perm (List.range n) ∧ s.comb.leaves.Perm (List.range s.parts.length)

theorem partialSum_eq (f : Nat → Nat) (its : List Nat) : partialSum f its = (its.map f).sum := by
  unfold partialSum; rw [foldl_add_eq_sum, Nat.zero_add]

theorem Comb.eval_eq (part : Nat → Nat) (c : Comb) : c.eval part = (c.leaves.map part).sum := by
  induction c with
  | leaf t => simp [Comb.eval, Comb.leaves]
  | node l r ihl ihr => simp [Comb.eval, Comb.leaves, ihl, ihr, List.sum_append_nat]

theorem range_map_getD (parts : List (List Nat)) :
    (List.range parts.length).map (fun t => parts.getD t []) = parts := by
  apply List.ext_getElem
  · simp
  · intro i h1 h2
    simp [List.getD_eq_getElem?_getD, List.getElem?_eq_getElem h2]

theorem sum_map_sum_flatten (f : Nat → Nat) (parts : List (List Nat)) :
    (parts.map fun p => (p.map f).sum).sum = (parts.flatten.map f).sum := by
  induction parts with
  | nil => rfl
  | cons p ps ih => simp [ih, List.sum_append_nat]

/-- the value of the reduction variable after the parallel loop does not depend on the schedule -/
theorem parReduce_eq (f : Nat → Nat) (s : Schedule) (n init : Nat) (h : s.Valid n) :
    parReduce f s init = init + ((List.range n).map f).sum := by
  unfold parReduce
  rw [Comb.eval_eq, (h.2.map _).sum_nat]
  congr 1
  have : (List.range s.parts.length).map (fun t => partialSum f (s.parts.getD t []))
      = ((List.range s.parts.length).map (fun t => s.parts.getD t [])).map fun p => (p.map f).sum := by
    rw [List.map_map]; apply List.map_congr_left; intro t _; simp [partialSum_eq]
  rw [this, range_map_getD, sum_map_sum_flatten, (h.1.map f).sum_nat]

/-- the sequential loop -/
theorem seqReduce_eq (f : Nat → Nat) (n init : Nat) :
    (List.range n).foldl (fun acc i => acc + f i) init = init + ((List.range n).map f).sum :=
  foldl_add_eq_sum _ _ _

/-- executable validity check (used in the non-vacuity examples) -/
def Schedule.validB (s : Schedule) (n : Nat) : Bool :=
  (s.parts.flatten.isPerm (List.range n)) && (s.comb.leaves.isPerm (List.range s.parts.length))

theorem Schedule.valid_of_validB (s : Schedule) (n : Nat) (h : s.validB n = true) : s.Valid n := by
  unfold Schedule.validB at h
  rw [Bool.and_eq_true] at h
  exact ⟨List.isPerm_iff.1 h.1, List.isPerm_iff.1 h.2⟩

end SkNet.Topology

namespace SkNet.Topology

/-! ### OpenMP's static schedule is a valid schedule, for every number of iterations and threads -/

theorem tab_succ {α : Type} (j : Nat) (f : Nat → α) : tab (j+1) f = tab j f ++ [f j] := by
  unfold tab
  rw [List.range_succ, List.map_append]
  rfl

theorem range_append_rangeFrom (a b : Nat) (h : a ≤ b) : List.range a ++ rangeFrom a b = List.range b := by
  rw [rangeFrom_eq_range', List.range_eq_range', List.range_eq_range']
  have : b = a + (b - a) := by omega
  conv => rhs; rw [this]
  rw [← List.range'_append_1]
  simp

theorem chunks_flatten (n chunk : Nat) :
    ∀ j, (tab j fun k => rangeFrom (k * chunk) (min n ((k+1) * chunk))).flatten = List.range (min n (j * chunk)) := by
  intro j
  induction j with
  | zero => simp [tab]
  | succ j ih =>
    rw [tab_succ, List.flatten_append, ih]
    simp only [List.flatten_cons, List.flatten_nil, List.append_nil]
    have hmul : (j + 1) * chunk = j * chunk + chunk := by rw [Nat.add_mul, Nat.one_mul]
    by_cases h : j * chunk ≤ n
    · rw [Nat.min_eq_right h]
      exact range_append_rangeFrom _ _ (by rw [hmul]; omega)
    · have h1 : min n (j * chunk) = n := by omega
      have h2 : min n ((j + 1) * chunk) = n := by rw [hmul]; omega
      rw [h1, h2, rangeFrom_empty (by omega)]
      simp

theorem ceil_mul_ge (n t : Nat) (ht : 0 < t) : n ≤ t * ((n + t - 1) / t) := by
  have h1 := Nat.div_add_mod (n + t - 1) t
  have h2 := Nat.mod_lt (n + t - 1) ht
  omega

theorem chain_leaves :
    ∀ j, ((List.range (j+1)).foldl (fun c k => if k = 0 then c else Comb.node c (Comb.leaf k)) (Comb.leaf 0)).leaves
      = List.range (j+1) := by
  intro j
  induction j with
  | zero => rfl
  | succ j ih =>
    rw [List.range_succ, List.foldl_append]
    simp only [List.foldl_cons, List.foldl_nil]
    rw [if_neg (by omega)]
    show _ ++ [j+1] = _
    rw [ih]

/-- the schedule the model uses for its own parallel runs is valid, for all `n` and all thread counts -/
theorem staticSchedule_valid (n t : Nat) : (staticSchedule n t).Valid n := by
  unfold staticSchedule
  generalize ht' : (if t = 0 then 1 else t) = t'
  have htpos : 0 < t' := by rw [← ht']; split <;> omega
  simp only
  constructor
  · rw [chunks_flatten]
    have := ceil_mul_ge n t' htpos
    rw [Nat.min_eq_left this]
  · simp only [tab_length]
    obtain ⟨j, rfl⟩ : ∃ j, t' = j + 1 := ⟨t' - 1, by omega⟩
    rw [chain_leaves]

end SkNet.Topology
