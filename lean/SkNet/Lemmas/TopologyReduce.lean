/-
C11 helper lemmas: a `+` reduction over a `prange` gives the sequential sum under every schedule.
-/
import SkNet.Lemmas.TopologyMerge

set_option linter.unusedSimpArgs false

namespace SkNet.Topology

/-- A schedule of `n` iterations: every iteration is executed exactly once by some thread, and every thread's
    private copy is combined exactly once. -/
def Schedule.Valid (s : Schedule) (n : Nat) : Prop :=
  s.parts.flatten.Perm (List.range n) ∧ s.comb.leaves.Perm (List.range s.parts.length)

theorem partialSum_eq (f : Nat → Nat) (its : List Nat) : partialSum f its = (its.map f).sum := by
  unfold partialSum; rw [foldl_add_eq_sum, Nat.zero_add]

theorem Comb.eval_eq (part : Nat → Nat) (c : Comb) : c.eval part = (c.leaves.map part).sum := by
  induction c with
  | leaf t => simp [Comb.eval, Comb.leaves]
  | node l r ihl ihr => simp [Comb.eval, Comb.leaves, ihl, ihr, List.sum_append_nat]

theorem range_map_getD (parts : List (List Nat)) :
    (List.range parts.length).map (fun t => parts.getD t []) = parts := by
  apply List.ext_getElem
  · simp
  · intro i h1 h2
    simp [List.getD_eq_getElem?_getD, List.getElem?_eq_getElem h2]

theorem sum_map_sum_flatten (f : Nat → Nat) (parts : List (List Nat)) :
    (parts.map fun p => (p.map f).sum).sum = (parts.flatten.map f).sum := by
  induction parts with
  | nil => rfl
  | cons p ps ih => simp [ih, List.sum_append_nat]

/-- the value of the reduction variable after the parallel loop does not depend on the schedule -/
theorem parReduce_eq (f : Nat → Nat) (s : Schedule) (n init : Nat) (h : s.Valid n) :
    parReduce f s init = init + ((List.range n).map f).sum := by
  unfold parReduce
  rw [Comb.eval_eq, (h.2.map _).sum_nat]
  congr 1
  have : (List.range s.parts.length).map (fun t => partialSum f (s.parts.getD t []))
      = ((List.range s.parts.length).map (fun t => s.parts.getD t [])).map fun p => (p.map f).sum := by
    rw [List.map_map]; apply List.map_congr_left; intro t _; simp [partialSum_eq]
  rw [this, range_map_getD, sum_map_sum_flatten, (h.1.map f).sum_nat]

/-- the sequential loop -/
theorem seqReduce_eq (f : Nat → Nat) (n init : Nat) :
    (List.range n).foldl (fun acc i => acc + f i) init = init + ((List.range n).map f).sum :=
  foldl_add_eq_sum _ _ _

/-- executable validity check (used in the non-vacuity examples) -/
def Schedule.validB (s : Schedule) (n : Nat) : Bool :=
  (s.parts.flatten.isPerm (List.range n)) && (s.comb.leaves.isPerm (List.range s.parts.length))

theorem Schedule.valid_of_validB (s : Schedule) (n : Nat) (h : s.validB n = true) : s.Valid n := by
  unfold Schedule.validB at h
  rw [Bool.and_eq_true] at h
  exact ⟨List.isPerm_iff.1 h.1, List.isPerm_iff.1 h.2⟩

end SkNet.Topology
