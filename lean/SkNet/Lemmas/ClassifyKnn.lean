/-
NNClassifier._fit_core (model `SkNet.Classify.Knn`): seeds keep a one-hot row and their label, every row is a
probability row, and the label of a test node is the label of one of its selected labelled neighbours.
-/
import SkNet.Lemmas.ClassifyDiffusionFit
import SkNet.Lemmas.ClassifyLinker

namespace SkNet.Classify

attribute [-simp] List.getD_eq_getElem?_getD

theorem foldl_max_ge (l : List Int) (m : Int) : m ≤ l.foldl max m ∧ ∀ x ∈ l, x ≤ l.foldl max m := by
  induction l generalizing m with
  | nil => simp
  | cons y ys ih =>
    simp only [List.foldl_cons]
    obtain ⟨h1, h2⟩ := ih (max m y)
    refine ⟨by omega, ?_⟩
    intro x hx
    rcases List.mem_cons.mp hx with rfl | hx
    · omega
    · exact h2 x hx

theorem rsum_append (a b : List Rat) : rsum (a ++ b) = rsum a + rsum b := by
  induction a with
  | nil => simp
  | cons x xs ih => simp only [List.cons_append, rsum_cons, ih]; ring

/-- a one-hot row sums to 1 -/
theorem rsum_onehot (k k0 : Nat) (h : k0 < k) : rsum (tab k fun q => if q = k0 then (1 : Rat) else 0) = 1 := by
  unfold tab
  induction k with
  | zero => omega
  | succ m ih =>
    rw [List.range_succ, List.map_append, rsum_append]
    simp only [List.map_cons, List.map_nil, rsum_cons, rsum_nil]
    by_cases hm : k0 = m
    · subst hm
      have : rsum ((List.range k0).map fun q => if q = k0 then (1 : Rat) else 0) = 0 := by
        have : ∀ x ∈ (List.range k0), (if x = k0 then (1 : Rat) else 0) = 0 := by
          intro x hx
          have := List.mem_range.mp hx
          rw [if_neg (by omega)]
        rw [List.map_congr_left this]
        exact Diffusion.rsum_map_zero _
      rw [this]
      simp
    · rw [ih (by omega), if_neg (fun h => hm h.symm)]
      ring

theorem normalizeRow_getD_pos (l : List Rat) (h : ∀ x ∈ l, 0 ≤ x) (j : Nat) :
    0 < (normalizeRow l).getD j 0 ↔ 0 < l.getD j 0 := by
  unfold normalizeRow
  simp only
  rw [map_rabs_of_nonneg h]
  split
  · rfl
  · rename_i hs
    have hpos : 0 < rsum l := lt_of_le_of_ne (rsum_nonneg h) (Ne.symm hs)
    simp only [List.getD_eq_getElem?_getD, List.getElem?_map]
    cases hj : l[j]? with
    | none => simp
    | some x =>
      simp only [Option.map_some, Option.getD_some]
      constructor
      · intro hx
        by_contra hc
        have : x ≤ 0 := not_lt.mp hc
        have := div_nonpos_of_nonpos_of_nonneg this (le_of_lt hpos)
        linarith
      · intro hx
        exact div_pos hx hpos

namespace Knn

theorem nCols_gt (labels : List Int) (x : Int) (hx : x ∈ labels) (h0 : 0 ≤ x) : x.toNat < nCols labels := by
  unfold nCols
  have := (foldl_max_ge labels 0).2 x hx
  omega

theorem mem_trainIdx (labels : List Int) (j : Nat) :
    j ∈ trainIdx labels ↔ j < labels.length ∧ 0 ≤ labels.getD j (-1) := by
  unfold trainIdx
  simp [List.mem_filter]

structure Parts (emb : List (List Rat)) (labels : List Int) (kArg : Nat)
    (sel : Nat → List Rat → Nat → List Nat) (o : Out) : Prop where
  train : (trainIdx labels) ≠ []
  probs : o.probs = tab labels.length (row emb labels (checkNeighbors kArg (trainIdx labels).length).toNat sel)
  labels_eq : o.labels = o.probs.map fun r => (argmax r : Int)

theorem fit_parts (emb : List (List Rat)) (labels : List Int) (kArg : Nat)
    (sel : Nat → List Rat → Nat → List Nat) (o : Out) (h : fitCore emb labels kArg sel = some o) :
    Parts emb labels kArg sel o := by
  unfold fitCore at h
  split at h
  · cases h
  · rename_i hne
    simp only [Option.some.injEq] at h
    subst h
    refine ⟨?_, rfl, rfl⟩
    intro h0
    apply hne
    rw [h0]
    rfl

theorem label_getD (emb : List (List Rat)) (labels : List Int) (kArg : Nat)
    (sel : Nat → List Rat → Nat → List Nat) (o : Out) (hp : Parts emb labels kArg sel o) (i : Nat)
    (hi : i < labels.length) :
    o.labels.getD i (-1) =
      (argmax (row emb labels (checkNeighbors kArg (trainIdx labels).length).toNat sel i) : Int) := by
  rw [hp.labels_eq, hp.probs]
  unfold tab
  rw [List.map_map, List.getD_eq_getElem?_getD, List.getElem?_map, List.getElem?_range hi]
  rfl

/-- the row of a labelled node is one-hot at its label, and `np.argmax` returns the label -/
theorem seed_row (emb : List (List Rat)) (labels : List Int) (k : Nat)
    (sel : Nat → List Rat → Nat → List Nat) (i : Nat) (hi : i < labels.length)
    (hseed : 0 ≤ labels.getD i (-1)) :
    row emb labels k sel i = (tab (nCols labels) fun q => if q = (labels.getD i (-1)).toNat then (1 : Rat) else 0) ∧
    (labels.getD i (-1)).toNat < nCols labels := by
  have hm : labels.getD i (-1) ∈ labels := Diffusion.getD_mem hi _
  refine ⟨?_, nCols_gt labels _ hm hseed⟩
  unfold row
  simp only [hseed, if_true]
  unfold tab
  apply List.map_congr_left
  intro q _
  have : ((q : Int) == labels.getD i (-1)) = decide (q = (labels.getD i (-1)).toNat) := by
    rw [Bool.eq_iff_iff]
    simp only [beq_iff_eq, decide_eq_true_eq]
    omega
  rw [this]
  simp

theorem seeds_kept (emb : List (List Rat)) (labels : List Int) (kArg : Nat)
    (sel : Nat → List Rat → Nat → List Nat) (o : Out) (h : fitCore emb labels kArg sel = some o) (i : Nat)
    (hseed : 0 ≤ labels.getD i (-1)) : o.labels.getD i (-1) = labels.getD i (-1) := by
  have hp := fit_parts emb labels kArg sel o h
  have hi := Diffusion.getD_lt_of_nonneg hseed
  rw [label_getD emb labels kArg sel o hp i hi]
  obtain ⟨hrow, hlt⟩ := seed_row emb labels (checkNeighbors kArg (trainIdx labels).length).toNat sel i hi hseed
  rw [hrow]
  have : argmax (tab (nCols labels) fun q => if q = (labels.getD i (-1)).toNat then (1 : Rat) else 0) =
      (labels.getD i (-1)).toNat := by
    apply argmax_eq_of_strict _ _ (by simpa using hlt)
    intro j hj hne
    simp only [tab_length] at hj
    rw [tab_getD, tab_getD]
    simp [hj, hlt, hne]
  rw [this]
  omega

/-- every row of `probs` is a probability row -/
theorem rows_ok (emb : List (List Rat)) (labels : List Int) (kArg : Nat)
    (sel : Nat → List Rat → Nat → List Nat) (o : Out) (h : fitCore emb labels kArg sel = some o) :
    ∀ r ∈ o.probs, Spec.rowOK 0 r = true := by
  have hp := fit_parts emb labels kArg sel o h
  intro r hr
  rw [hp.probs] at hr
  obtain ⟨i, hi, rfl⟩ := (mem_tab _ _ _).mp hr
  by_cases hseed : 0 ≤ labels.getD i (-1)
  · obtain ⟨hrow, hlt⟩ := seed_row emb labels (checkNeighbors kArg (trainIdx labels).length).toNat sel i hi hseed
    rw [hrow]
    unfold Spec.rowOK
    simp only [Bool.and_eq_true, List.all_eq_true, decide_eq_true_eq, Bool.or_eq_true]
    refine ⟨?_, Or.inl ?_⟩
    · intro x hx
      obtain ⟨q, _, rfl⟩ := (mem_tab _ _ _).mp hx
      split <;> norm_num
    · rw [rsum_onehot _ _ hlt]
      simp [rabs_zero]
  · unfold row
    simp only [hseed, if_false]
    apply normalizeRow_rowOK
    intro x hx
    obtain ⟨q, _, rfl⟩ := (mem_tab _ _ _).mp hx
    exact Nat.cast_nonneg _

/-- the label predicted for an unlabelled node is the label of one of its selected neighbours, provided the
    selection returns at least one position and only positions of labelled nodes -/
theorem test_label (emb : List (List Rat)) (labels : List Int) (kArg : Nat)
    (sel : Nat → List Rat → Nat → List Nat) (o : Out) (h : fitCore emb labels kArg sel = some o) (i : Nat)
    (hi : i < labels.length) (htest : labels.getD i (-1) < 0)
    (hne : neighbourLabels emb labels (checkNeighbors kArg (trainIdx labels).length).toNat sel i ≠ [])
    (hin : ∀ p ∈ sel i (distances emb (trainIdx labels) (getRow emb i))
        (checkNeighbors kArg (trainIdx labels).length).toNat, p < (trainIdx labels).length) :
    o.labels.getD i (-1) ∈
      neighbourLabels emb labels (checkNeighbors kArg (trainIdx labels).length).toNat sel i := by
  have hp := fit_parts emb labels kArg sel o h
  set k := (checkNeighbors kArg (trainIdx labels).length).toNat with hk
  set nb := neighbourLabels emb labels k sel i with hnb
  -- every neighbour label is a non-negative label with a column
  have hnbl : ∀ x ∈ nb, 0 ≤ x ∧ x.toNat < nCols labels := by
    intro x hx
    rw [hnb] at hx
    unfold neighbourLabels at hx
    obtain ⟨p, hp', rfl⟩ := List.mem_map.mp hx
    have hlt := hin p hp'
    have hmem : (trainIdx labels).getD p 0 ∈ trainIdx labels := by
      rw [List.getD_eq_getElem?_getD, List.getElem?_eq_getElem hlt]
      exact List.getElem_mem hlt
    obtain ⟨h1, h2⟩ := (mem_trainIdx labels _).mp hmem
    exact ⟨h2, nCols_gt labels _ (Diffusion.getD_mem h1 _) h2⟩
  set raw := tab (nCols labels) fun q => ((nb.filter (· == (q : Int))).length : Rat) with hraw
  have hrawnn : ∀ x ∈ raw, 0 ≤ x := by
    intro x hx
    obtain ⟨q, _, rfl⟩ := (mem_tab _ _ _).mp hx
    exact Nat.cast_nonneg _
  have hrow : row emb labels k sel i = normalizeRow raw := by
    unfold row
    have : ¬ (0 ≤ labels.getD i (-1)) := by omega
    simp only [this, if_false]
    rfl
  rw [label_getD emb labels kArg sel o hp i hi, ← hk, hrow]
  -- some entry of the raw counts is positive
  obtain ⟨x0, hx0⟩ := List.exists_mem_of_ne_nil nb hne
  obtain ⟨h00, h0lt⟩ := hnbl x0 hx0
  have hpos0 : 0 < raw.getD x0.toNat 0 := by
    rw [hraw, tab_getD]
    simp only [h0lt, if_true]
    have : 0 < (nb.filter (· == ((x0.toNat : Nat) : Int))).length := by
      apply List.length_pos_of_mem (a := x0)
      simp only [List.mem_filter, beq_iff_eq]
      exact ⟨hx0, by omega⟩
    exact_mod_cast this
  have hlen : (normalizeRow raw).length = nCols labels := by rw [normalizeRow_length, hraw]; simp
  have hrne : normalizeRow raw ≠ [] := by
    intro h0
    rw [h0] at hlen
    simp at hlen
    omega
  obtain ⟨ha1, ha2, _⟩ := argmax_spec (normalizeRow raw) hrne
  have hpos : 0 < (normalizeRow raw).getD (argmax (normalizeRow raw)) 0 := by
    have h1 := (normalizeRow_getD_pos raw hrawnn x0.toNat).mpr hpos0
    have h2 := ha2 x0.toNat (by rw [hlen]; exact h0lt)
    linarith
  have hposraw := (normalizeRow_getD_pos raw hrawnn _).mp hpos
  rw [hlen] at ha1
  have hval : raw.getD (argmax (normalizeRow raw)) 0 =
      ((nb.filter (· == ((argmax (normalizeRow raw) : Nat) : Int))).length : Rat) := by
    show (tab (nCols labels) _).getD _ 0 = _
    rw [tab_getD, if_pos ha1]
  rw [hval] at hposraw
  have hcnt : 0 < (nb.filter (· == ((argmax (normalizeRow raw) : Nat) : Int))).length := by
    exact_mod_cast hposraw
  obtain ⟨y, hy⟩ := List.exists_mem_of_length_pos hcnt
  simp only [List.mem_filter, beq_iff_eq] at hy
  rw [← hy.2]
  exact hy.1

end Knn
end SkNet.Classify
