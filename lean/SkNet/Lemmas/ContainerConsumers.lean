/- Lemmas for C01: what the consumers of a CSR matrix read from the stored arrays (`valOf`, `edgeOf`, `adjOf` of
   Model/Container.lean) as functions of the matrix the arrays denote. -/
import SkNet.Lemmas.ContainerDType
import Mathlib.Tactic.Linarith

namespace SkNet.Fmt

attribute [-simp] List.getD_eq_getElem?_getD

theorem getD_nil_of_ge {α : Type} (l : List (List α)) (i : Nat) (h : l.length ≤ i) : l.getD i [] = [] := by
  rw [List.getD_eq_getElem?_getD, List.getElem?_eq_none h]; rfl

theorem getD_mem_or_nil {α : Type} (l : List (List α)) (i : Nat) : l.getD i [] ∈ l ∨ l.getD i [] = [] := by
  by_cases h : i < l.length
  · left
    rw [List.getD_eq_getElem?_getD, List.getElem?_eq_getElem h]
    exact List.getElem_mem h
  · right; exact getD_nil_of_ge l i (Nat.le_of_not_lt h)

/-- a well-formed row stores nothing at a column outside the shape -/
theorem rowEntry_of_ge (nCol : Nat) (r : Row) (hwf : r.all (fun p => p.1 < nCol) = true) (j : Nat) (hj : nCol ≤ j) :
    rowEntry r j = 0 := by
  unfold rowEntry
  have : r.filter (fun p => p.1 == j) = [] := by
    apply List.filter_eq_nil_iff.2
    intro p hp
    have := List.all_eq_true.1 hwf p hp
    simp at this ⊢; omega
  rw [this]; rfl

/-- **the value matrix is a function of the denotation**: two well-formed stored row lists of the same shape that
denote the same matrix inside the shape have the same `valOf` everywhere (so every consumer written against `valOf`
— count_triangles, get_clustering_coefficient, get_core_decomposition, Diffusion, Dirichlet — cannot tell them apart). -/
theorem valOf_ext (nCol : Nat) (rows rows' : Rows) (hw : rowsWF nCol rows = true) (hw' : rowsWF nCol rows' = true)
    (hlen : rows.length = rows'.length)
    (h : ∀ i j, i < rows.length → j < nCol → valOf rows i j = valOf rows' i j) : valOf rows = valOf rows' := by
  funext i j
  unfold valOf
  by_cases hi : i < rows.length
  · by_cases hj : j < nCol
    · exact h i j hi hj
    · have hr : (rows.getD i []).all (fun p => p.1 < nCol) = true := by
        rcases getD_mem_or_nil rows i with hm | hm
        · exact List.all_eq_true.1 hw _ hm
        · rw [hm]; rfl
      have hr' : (rows'.getD i []).all (fun p => p.1 < nCol) = true := by
        rcases getD_mem_or_nil rows' i with hm | hm
        · exact List.all_eq_true.1 hw' _ hm
        · rw [hm]; rfl
      rw [rowEntry_of_ge nCol _ hr j (Nat.le_of_not_lt hj), rowEntry_of_ge nCol _ hr' j (Nat.le_of_not_lt hj)]
  · rw [getD_nil_of_ge rows i (Nat.le_of_not_lt hi), getD_nil_of_ge rows' i (by rw [← hlen]; exact Nat.le_of_not_lt hi)]

/-! ### the edge predicate of the path functions -/

theorem sumR_nonneg : ∀ (l : List Rat), (∀ x ∈ l, 0 ≤ x) → 0 ≤ sumR l
  | [], _ => by simp [sumR_nil]
  | x :: xs, h => by
    rw [sumR_cons]
    have := sumR_nonneg xs (fun y hy => h y (by simp [hy]))
    have := h x (by simp)
    linarith

theorem sumR_eq_zero_iff : ∀ (l : List Rat), (∀ x ∈ l, 0 ≤ x) → (sumR l = 0 ↔ ∀ x ∈ l, x = 0)
  | [], _ => by simp [sumR_nil]
  | x :: xs, h => by
    rw [sumR_cons]
    have hx := h x (by simp)
    have hs := sumR_nonneg xs (fun y hy => h y (by simp [hy]))
    have ih := sumR_eq_zero_iff xs (fun y hy => h y (by simp [hy]))
    constructor
    · intro hsum
      have h1 : x = 0 := by linarith
      have h2 : sumR xs = 0 := by linarith
      intro y hy
      rcases List.mem_cons.1 hy with rfl | hy
      · exact h1
      · exact ih.1 h2 y hy
    · intro hall
      have h1 := hall x (by simp)
      have h2 := ih.2 (fun y hy => hall y (by simp [hy]))
      rw [h1, h2]; simp

/-- stored values are non-negative (weights of a graph) -/
def rowsNonneg (rows : Rows) : Prop := ∀ r ∈ rows, ∀ p ∈ r, (0 : Rat) ≤ p.2

/-- with non-negative stored values, "some stored entry (i, j) is non-zero" is "the matrix is non-zero at (i, j)":
the edge predicate the path functions read from `indices / data` is a function of the denotation -/
theorem edgeOf_eq_valOf (rows : Rows) (hn : rowsNonneg rows) (i j : Nat) :
    edgeOf rows i j = (valOf rows i j != 0) := by
  unfold edgeOf valOf rowEntry
  have hnr : ∀ p ∈ rows.getD i [], (0 : Rat) ≤ p.2 := by
    rcases getD_mem_or_nil rows i with hm | hm
    · exact hn _ hm
    · rw [hm]; intro p hp; cases hp
  generalize rows.getD i [] = r at hnr
  have hz := sumR_eq_zero_iff ((r.filter fun p => p.1 == j).map (·.2)) (by
    intro x hx
    obtain ⟨p, hp, rfl⟩ := List.mem_map.1 hx
    exact hnr p (List.mem_filter.1 hp).1)
  by_cases hs : sumR ((r.filter fun p => p.1 == j).map (·.2)) = 0
  · have hall := hz.1 hs
    have : (r.any fun p => p.1 == j && p.2 != 0) = false := by
      apply List.any_eq_false.2
      intro p hp
      by_cases hpj : p.1 = j
      · have := hall p.2 (List.mem_map.2 ⟨p, List.mem_filter.2 ⟨hp, by simp [hpj]⟩, rfl⟩)
        simp [this]
      · simp [hpj]
    rw [this, hs]; simp
  · have : ¬ ∀ x ∈ (r.filter fun p => p.1 == j).map (·.2), x = 0 := fun hall => hs (hz.2 hall)
    have hex : ∃ x ∈ (r.filter fun p => p.1 == j).map (·.2), x ≠ 0 := by
      by_contra hne
      apply this
      intro x hx
      by_contra hx0
      exact hne ⟨x, hx, hx0⟩
    obtain ⟨x, hx, hx0⟩ := hex
    obtain ⟨p, hp, rfl⟩ := List.mem_map.1 hx
    have hp' := List.mem_filter.1 hp
    have : (r.any fun p => p.1 == j && p.2 != 0) = true := by
      apply List.any_eq_true.2
      exact ⟨p, hp'.1, by simp at hp' ⊢; exact ⟨hp'.2, hx0⟩⟩
    rw [this]
    simp [hs]

theorem edgeOf_ext (nCol : Nat) (rows rows' : Rows) (hw : rowsWF nCol rows = true) (hw' : rowsWF nCol rows' = true)
    (hn : rowsNonneg rows) (hn' : rowsNonneg rows') (hlen : rows.length = rows'.length)
    (h : ∀ i j, i < rows.length → j < nCol → valOf rows i j = valOf rows' i j) : edgeOf rows = edgeOf rows' := by
  funext i j
  rw [edgeOf_eq_valOf rows hn, edgeOf_eq_valOf rows' hn', valOf_ext nCol rows rows' hw hw' hlen h]

/-! ### the adjacency lists of the Weisfeiler-Lehman kernel -/

/-- canonical content (any stored order): no column stored twice in a row, no stored zero -/
def rowsSimple (rows : Rows) : Prop := ∀ r ∈ rows, (r.map (·.1)).Nodup ∧ ∀ p ∈ r, p.2 ≠ 0

theorem rowEntry_of_not_mem : ∀ (r : Row) (j : Nat), j ∉ r.map (·.1) → rowEntry r j = 0
  | [], _, _ => rfl
  | p :: ps, j, h => by
    have hne : p.1 ≠ j := fun e => h (by simp [e])
    have hrest : j ∉ ps.map (·.1) := fun e => h (by simp at e ⊢; right; exact e)
    have ih := rowEntry_of_not_mem ps j hrest
    unfold rowEntry at ih ⊢
    have : (p.1 == j) = false := by simp [hne]
    rw [List.filter_cons, this]
    exact ih

theorem rowEntry_of_mem_nodup : ∀ (r : Row) (j : Nat), (r.map (·.1)).Nodup → j ∈ r.map (·.1) →
    ∃ v, (j, v) ∈ r ∧ rowEntry r j = v
  | [], _, _, h => by cases h
  | p :: ps, j, hnd, hm => by
    have hnd' : p.1 ∉ ps.map (·.1) ∧ (ps.map (·.1)).Nodup := List.nodup_cons.1 (by rw [List.map_cons] at hnd; exact hnd)
    by_cases hpj : p.1 = j
    · refine ⟨p.2, by rw [← hpj]; simp, ?_⟩
      have hrest : j ∉ ps.map (·.1) := by rw [← hpj]; exact hnd'.1
      have h0 := rowEntry_of_not_mem ps j hrest
      unfold rowEntry at h0 ⊢
      have : (p.1 == j) = true := by simp [hpj]
      rw [List.filter_cons, this]
      simp only [if_true, List.map_cons, sumR_cons]
      rw [h0]; simp
    · have hm' : j ∈ ps.map (·.1) := by
        simp at hm
        rcases hm with hm | hm
        · exact absurd hm.symm hpj
        · simp; exact hm
      obtain ⟨v, hv, he⟩ := rowEntry_of_mem_nodup ps j hnd'.2 hm'
      refine ⟨v, by simp [hv], ?_⟩
      unfold rowEntry at he ⊢
      have : (p.1 == j) = false := by simp [hpj]
      rw [List.filter_cons, this]
      exact he

/-- in a simple row the stored columns are exactly the columns where the matrix is non-zero -/
theorem mem_cols_iff (r : Row) (hnd : (r.map (·.1)).Nodup) (hnz : ∀ p ∈ r, p.2 ≠ 0) (j : Nat) :
    j ∈ r.map (·.1) ↔ rowEntry r j ≠ 0 := by
  constructor
  · intro hm
    obtain ⟨v, hv, he⟩ := rowEntry_of_mem_nodup r j hnd hm
    rw [he]; exact hnz (j, v) hv
  · intro hne
    by_contra hm
    exact hne (rowEntry_of_not_mem r j hm)

/-- two simple stored row lists of the same matrix list the same neighbours, up to the stored order -/
theorem adjOf_perm (rows rows' : Rows) (hs : rowsSimple rows) (hs' : rowsSimple rows') (hlen : rows.length = rows'.length)
    (h : ∀ i j, valOf rows i j = valOf rows' i j) (i : Nat) (hi : i < rows.length) :
    ((adjOf rows).getD i []).Perm ((adjOf rows').getD i []) := by
  have hi' : i < rows'.length := hlen ▸ hi
  have e1 : (adjOf rows).getD i [] = (rows.getD i []).map (·.1) := by
    unfold adjOf
    rw [List.getD_eq_getElem?_getD, List.getD_eq_getElem?_getD, List.getElem?_map, List.getElem?_eq_getElem hi]; rfl
  have e2 : (adjOf rows').getD i [] = (rows'.getD i []).map (·.1) := by
    unfold adjOf
    rw [List.getD_eq_getElem?_getD, List.getD_eq_getElem?_getD, List.getElem?_map, List.getElem?_eq_getElem hi']; rfl
  have m1 : rows.getD i [] ∈ rows := by
    rw [List.getD_eq_getElem?_getD, List.getElem?_eq_getElem hi]; exact List.getElem_mem hi
  have m2 : rows'.getD i [] ∈ rows' := by
    rw [List.getD_eq_getElem?_getD, List.getElem?_eq_getElem hi']; exact List.getElem_mem hi'
  rw [e1, e2]
  apply (List.perm_ext_iff_of_nodup (hs _ m1).1 (hs' _ m2).1).2
  intro j
  rw [mem_cols_iff _ (hs _ m1).1 (hs _ m1).2, mem_cols_iff _ (hs' _ m2).1 (hs' _ m2).2]
  have := h i j
  unfold valOf at this
  rw [this]


/-- two simple stored forms of one matrix store the same number of entries -/
theorem storedCount_eq_of_simple (rows rows' : Rows) (hs : rowsSimple rows) (hs' : rowsSimple rows')
    (hlen : rows.length = rows'.length) (h : ∀ i j, valOf rows i j = valOf rows' i j) :
    storedCount rows = storedCount rows' := by
  unfold storedCount
  have : rows.map List.length = rows'.map List.length := by
    apply List.ext_getElem (by simp [hlen])
    intro i h1 h2
    have hi : i < rows.length := by simpa using h1
    have hi' : i < rows'.length := by simpa using h2
    have hp := adjOf_perm rows rows' hs hs' hlen h i hi
    unfold adjOf at hp
    rw [List.getD_eq_getElem?_getD, List.getD_eq_getElem?_getD, List.getElem?_map, List.getElem?_map,
      List.getElem?_eq_getElem hi, List.getElem?_eq_getElem hi'] at hp
    have := hp.length_eq
    simpa using this
  rw [this]

end SkNet.Fmt
