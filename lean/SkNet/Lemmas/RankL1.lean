/-
ℓ1 facts about (sub)stochastic matrices used by the PageRank theorems of C04.
Vectors are functions `ℕ → ℚ` read on `range n`, matrices `ℕ → ℕ → ℚ`.

  `l1_PT_le`         ‖Pᵀ x‖₁ ≤ ‖x‖₁                         for a row-substochastic `P`
  `resolvent_bound`  (I − a Pᵀ) d = f  ⇒  (1−a) ‖d‖₁ ≤ ‖f‖₁   (so `I − a Pᵀ` is injective for `a < 1`)
-/
import Mathlib.Algebra.BigOperators.Group.Finset.Basic
import Mathlib.Algebra.Order.BigOperators.Group.Finset
import Mathlib.Algebra.BigOperators.Ring.Finset
import Mathlib.Algebra.Order.Ring.Abs
import Mathlib.Algebra.Order.Field.Rat
import Mathlib.Tactic.Ring
import Mathlib.Tactic.Linarith

open Finset

namespace SkNet.RankL1

/-- `P` is row-substochastic on the first `n` indices: non-negative entries, every row sums to at most 1. -/
structure SubStoch (n : ℕ) (P : ℕ → ℕ → ℚ) : Prop where
  nonneg : ∀ i j, 0 ≤ P i j
  row_le : ∀ i, ∑ j ∈ range n, P i j ≤ 1

/-- `(Pᵀ x) i = Σ_j P j i · x j` -/
def PT (n : ℕ) (P : ℕ → ℕ → ℚ) (x : ℕ → ℚ) (i : ℕ) : ℚ := ∑ j ∈ range n, P j i * x j

/-- `‖x‖₁` on the first `n` coordinates -/
def l1 (n : ℕ) (x : ℕ → ℚ) : ℚ := ∑ i ∈ range n, |x i|

theorem l1_nonneg (n : ℕ) (x : ℕ → ℚ) : 0 ≤ l1 n x := sum_nonneg fun _ _ => abs_nonneg _

theorem l1_PT_le {n : ℕ} {P : ℕ → ℕ → ℚ} (h : SubStoch n P) (x : ℕ → ℚ) : l1 n (PT n P x) ≤ l1 n x := by
  unfold l1 PT
  calc ∑ i ∈ range n, |∑ j ∈ range n, P j i * x j|
      ≤ ∑ i ∈ range n, ∑ j ∈ range n, P j i * |x j| := by
        apply sum_le_sum; intro i _
        refine (abs_sum_le_sum_abs _ _).trans (le_of_eq ?_)
        apply sum_congr rfl; intro j _
        rw [abs_mul, abs_of_nonneg (h.nonneg j i)]
    _ = ∑ j ∈ range n, (∑ i ∈ range n, P j i) * |x j| := by
        rw [sum_comm]; apply sum_congr rfl; intro j _; rw [sum_mul]
    _ ≤ ∑ j ∈ range n, |x j| := by
        apply sum_le_sum; intro j _
        calc (∑ i ∈ range n, P j i) * |x j| ≤ 1 * |x j| :=
              mul_le_mul_of_nonneg_right (h.row_le j) (abs_nonneg _)
          _ = |x j| := one_mul _

/-- the sum of `Pᵀ x` is the sum of `x` weighted by the row sums of `P` -/
theorem sum_PT (n : ℕ) (P : ℕ → ℕ → ℚ) (x : ℕ → ℚ) :
    ∑ i ∈ range n, PT n P x i = ∑ j ∈ range n, (∑ i ∈ range n, P j i) * x j := by
  unfold PT
  rw [sum_comm]; apply sum_congr rfl; intro j _; rw [sum_mul]

/-- `(I − a Pᵀ) d = f` on the first `n` coordinates gives `(1−a) ‖d‖₁ ≤ ‖f‖₁`. -/
theorem resolvent_bound {n : ℕ} {P : ℕ → ℕ → ℚ} (h : SubStoch n P) {a : ℚ} (ha : 0 ≤ a) (d f : ℕ → ℚ)
    (hd : ∀ i, i < n → d i - a * PT n P d i = f i) : (1 - a) * l1 n d ≤ l1 n f := by
  have h1 : l1 n d ≤ l1 n f + a * l1 n (PT n P d) := by
    unfold l1
    rw [mul_sum, ← sum_add_distrib]
    apply sum_le_sum; intro i hi
    have e : d i = f i + a * PT n P d i := by
      have := hd i (mem_range.mp hi); linarith
    calc |d i| = |f i + a * PT n P d i| := congrArg _ e
      _ ≤ |f i| + |a * PT n P d i| := abs_add_le _ _
      _ = |f i| + a * |PT n P d i| := by rw [abs_mul, abs_of_nonneg ha]
  have h2 := l1_PT_le h d
  have h3 : a * l1 n (PT n P d) ≤ a * l1 n d := mul_le_mul_of_nonneg_left h2 ha
  linarith

/-- a vector with `‖x‖₁ = 0` vanishes on the first `n` coordinates -/
theorem eq_zero_of_l1_le_zero {n : ℕ} {x : ℕ → ℚ} (h : l1 n x ≤ 0) : ∀ i, i < n → x i = 0 := by
  intro i hi
  have hz : l1 n x = 0 := le_antisymm h (l1_nonneg n x)
  have := (sum_eq_zero_iff_of_nonneg (fun i _ => abs_nonneg (x i))).mp hz i (mem_range.mpr hi)
  exact abs_eq_zero.mp this

/-- `I − a Pᵀ` is injective for `0 ≤ a < 1`: two solutions of `x − a Pᵀ x = b` coincide. -/
theorem solution_unique {n : ℕ} {P : ℕ → ℕ → ℚ} (h : SubStoch n P) {a : ℚ} (ha : 0 ≤ a) (ha1 : a < 1)
    (b x z : ℕ → ℚ) (hx : ∀ i, i < n → x i - a * PT n P x i = b i) (hz : ∀ i, i < n → z i - a * PT n P z i = b i) :
    ∀ i, i < n → x i = z i := by
  have hd : ∀ i, i < n → (fun i => x i - z i) i - a * PT n P (fun i => x i - z i) i = (fun _ => (0 : ℚ)) i := by
    intro i hi
    have e : PT n P (fun i => x i - z i) i = PT n P x i - PT n P z i := by
      unfold PT; rw [← sum_sub_distrib]; apply sum_congr rfl; intro j _; ring
    simp only [e]
    have := hx i hi; have := hz i hi; linarith
  have hb := resolvent_bound h ha _ _ hd
  have hz0 : l1 n (fun _ => (0 : ℚ)) = 0 := by simp [l1]
  rw [hz0] at hb
  have hpos : 0 < 1 - a := by linarith
  have hl : l1 n (fun i => x i - z i) ≤ 0 := by
    by_contra hc
    have := mul_pos hpos (not_le.mp hc)
    linarith
  intro i hi
  have h0 : x i - z i = 0 := eq_zero_of_l1_le_zero hl i hi
  linarith

end SkNet.RankL1
