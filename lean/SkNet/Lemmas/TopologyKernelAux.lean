/-
C11 helper lemmas for the clique kernel: slices under writes, the swap of two cells, filters of duplicate-free
lists, and permutation-invariance of the recursive count.
-/
import SkNet.Lemmas.TopologyBox
import SkNet.Lemmas.TopologyOriented

set_option linter.unusedSimpArgs false

namespace SkNet.Topology

/-! ### slices -/

theorem sliceOf_length (l : List Nat) (a b : Nat) : (sliceOf l a b).length = b - a := by
  simp [sliceOf]

theorem sliceOf_congr (l l' : List Nat) (a b : Nat) (h : ∀ t, a ≤ t → t < b → l.getD t 0 = l'.getD t 0) :
    sliceOf l a b = sliceOf l' a b := by
  unfold sliceOf
  apply List.map_congr_left
  intro t ht
  rw [mem_rangeFrom] at ht
  exact h t ht.1 ht.2

theorem sliceOf_append (l : List Nat) (a b c : Nat) (hab : a ≤ b) (hbc : b ≤ c) :
    sliceOf l a c = sliceOf l a b ++ sliceOf l b c := by
  unfold sliceOf
  rw [← List.map_append]
  congr 1
  rw [rangeFrom_eq_range', rangeFrom_eq_range', rangeFrom_eq_range']
  have h1 : c - a = (b - a) + (c - b) := by omega
  have h2 : b = a + (b - a) := by omega
  rw [h1]
  conv => rhs; rhs; rw [h2]
  rw [List.range'_append_1]
  congr 2
  omega

theorem sliceOf_single (l : List Nat) (a : Nat) : sliceOf l a (a+1) = [l.getD a 0] := by
  rw [sliceOf_cons (Nat.lt_succ_self a), sliceOf_empty (Nat.le_refl _)]

theorem sliceOf_snoc (l : List Nat) (a b : Nat) (h : a < b) :
    sliceOf l a b = sliceOf l a (b-1) ++ [l.getD (b-1) 0] := by
  rw [sliceOf_append l a (b-1) b (by omega) (by omega)]
  have h2 := sliceOf_single l (b-1)
  have : b - 1 + 1 = b := by omega
  rw [this] at h2
  rw [h2]

theorem mem_sliceOf {l : List Nat} {a b x : Nat} :
    x ∈ sliceOf l a b ↔ ∃ t, a ≤ t ∧ t < b ∧ l.getD t 0 = x := by
  unfold sliceOf
  rw [List.mem_map]
  constructor
  · rintro ⟨t, ht, rfl⟩
    rw [mem_rangeFrom] at ht
    exact ⟨t, ht.1, ht.2, rfl⟩
  · rintro ⟨t, h1, h2, rfl⟩
    exact ⟨t, mem_rangeFrom.2 ⟨h1, h2⟩, rfl⟩

theorem sliceOf_getD (l : List Nat) (a b i : Nat) (h : i < b - a) :
    (sliceOf l a b).getD i 0 = l.getD (a + i) 0 := by
  unfold sliceOf
  rw [List.getD_eq_getElem?_getD, List.getElem?_map, rangeFrom_eq_range', List.getElem?_range' h]
  simp

/-- exchanging the first and the last cell of a window permutes the window -/
theorem sliceOf_swap_perm (l : List Nat) (a b : Nat) (h : a < b) (hb : b ≤ l.length) :
    (sliceOf ((l.set a (l.getD (b-1) 0)).set (b-1) (l.getD a 0)) a b).Perm (sliceOf l a b) := by
  by_cases hab : a = b - 1
  · -- a single cell: nothing changes
    have : sliceOf ((l.set a (l.getD (b-1) 0)).set (b-1) (l.getD a 0)) a b = sliceOf l a b := by
      apply sliceOf_congr
      intro t h1 h2
      have ht : t = a := by omega
      subst ht
      rw [← hab, getD_set_self _ _ _ _ (by rw [List.length_set]; omega)]
    rw [this]
  · have hlt : a < b - 1 := by omega
    generalize hl' : (l.set a (l.getD (b-1) 0)).set (b-1) (l.getD a 0) = l'
    have e1 : sliceOf l a b = l.getD a 0 :: (sliceOf l (a+1) (b-1) ++ [l.getD (b-1) 0]) := by
      rw [sliceOf_cons h, sliceOf_snoc l (a+1) b (by omega)]
    have e2 : sliceOf l' a b = l'.getD a 0 :: (sliceOf l' (a+1) (b-1) ++ [l'.getD (b-1) 0]) := by
      rw [sliceOf_cons h, sliceOf_snoc l' (a+1) b (by omega)]
    have ha : l'.getD a 0 = l.getD (b-1) 0 := by
      rw [← hl', getD_set_ne _ _ _ _ _ (by omega), getD_set_self _ _ _ _ (by omega)]
    have hb' : l'.getD (b-1) 0 = l.getD a 0 := by
      rw [← hl', getD_set_self _ _ _ _ (by rw [List.length_set]; omega)]
    have hmid : sliceOf l' (a+1) (b-1) = sliceOf l (a+1) (b-1) := by
      apply sliceOf_congr
      intro t h1 h2
      rw [← hl', getD_set_ne _ _ _ _ _ (by omega), getD_set_ne _ _ _ _ _ (by omega)]
    rw [e1, e2, ha, hb', hmid]
    -- x :: (m ++ [y]) ~ y :: (m ++ [x])
    have p1 : (l.getD (b-1) 0 :: (sliceOf l (a+1) (b-1) ++ [l.getD a 0])).Perm
        (l.getD (b-1) 0 :: l.getD a 0 :: sliceOf l (a+1) (b-1)) :=
      List.Perm.cons _ (List.perm_append_singleton _ _)
    have p2 : (l.getD a 0 :: (sliceOf l (a+1) (b-1) ++ [l.getD (b-1) 0])).Perm
        (l.getD a 0 :: l.getD (b-1) 0 :: sliceOf l (a+1) (b-1)) :=
      List.Perm.cons _ (List.perm_append_singleton _ _)
    exact p1.trans ((List.Perm.swap _ _ _).trans p2.symm)

/-! ### filters of duplicate-free lists -/

/-- two duplicate-free lists with the same members are permutations of each other -/
theorem perm_of_nodup_mem {l l' : List Nat} (h : l.Nodup) (h' : l'.Nodup) (hm : ∀ x, x ∈ l ↔ x ∈ l') :
    l.Perm l' :=
  (List.perm_ext_iff_of_nodup h h').2 hm

/-- a window that splits into a part satisfying `q` and a part violating it: the first part is the `q`-filter -/
theorem good_prefix_perm {G B W : List Nat} (q : Nat → Bool) (h : (G ++ B).Perm W)
    (hG : ∀ x ∈ G, q x = true) (hB : ∀ x ∈ B, q x = false) : G.Perm (W.filter q) := by
  have := h.filter q
  rw [List.filter_append, List.filter_eq_self.2 hG] at this
  have hb : B.filter q = [] := by
    rw [List.filter_eq_nil_iff]; intro x hx; simp [hB x hx]
  rw [hb, List.append_nil] at this
  exact this

/-! ### the recursive count only depends on the candidate set (any orientation) -/

theorem orientedCount_perm' (p : Nat → Nat → Bool) :
    ∀ (k : Nat) {S S' : List Nat}, S.Perm S' → orientedCount p k S = orientedCount p k S' := by
  intro k
  induction k with
  | zero => intro S S' _; rfl
  | succ k ih =>
    intro S S' h
    show (S.map fun u => orientedCount p k (S.filter (p u))).sum
      = (S'.map fun u => orientedCount p k (S'.filter (p u))).sum
    rw [sum_map_perm _ h]
    congr 1
    apply List.map_congr_left
    intro u _
    exact ih (h.filter _)

theorem orientedCount_one (p : Nat → Nat → Bool) (S : List Nat) : orientedCount p 1 S = S.length := by
  show (S.map fun u => orientedCount p 0 (S.filter (p u))).sum = S.length
  have : (S.map fun u => orientedCount p 0 (S.filter (p u))) = S.map fun _ => 1 := by
    apply List.map_congr_left; intro u _; rfl
  rw [this]
  clear this
  induction S with
  | nil => rfl
  | cons x xs ih => rw [List.map_cons, List.sum_cons, List.length_cons, ih]; omega

end SkNet.Topology
