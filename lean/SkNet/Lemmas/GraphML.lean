/-
Helper lemmas for C18 (GraphML): the triples filled by the edge loop against the resolved edges.
-/
import SkNet.Model.GraphML
import SkNet.Spec.GraphML
import SkNet.Lemmas.Ingest

namespace SkNet.GraphML
open SkNet.Ingest

/-- two lists related element by element -/
inductive AllRel (R : α → β → Prop) : List α → List β → Prop
  | nil : AllRel R [] []
  | cons {a : α} {b : β} {as : List α} {bs : List β} : R a b → AllRel R as bs → AllRel R (a :: as) (b :: bs)

/-- the resolved edge `e` is what the code reads off the edge element `c` -/
def Resolves (num : String → Option Rat) (parseNat : String → Option Nat) (ws : WeightSpec) (otherKeys : List String)
    (naming symmetrize : Bool) (nodeIds : List String) (c : Child) (e : REdge) : Prop :=
  endpoint naming nodeIds parseNat c.source = .ok e.source ∧
  endpoint naming nodeIds parseNat c.target = .ok e.target ∧
  edgeWeight num ws otherKeys c = .ok e.weight ∧
  e.undirected = duplicated symmetrize c

theorem contributions_cons (e : REdge) (es : List REdge) (i j : Nat) :
    contributions (e :: es) i j =
      ((if e.source = i ∧ e.target = j then [e.weight] else []) ++
       (if e.undirected = true ∧ e.target = i ∧ e.source = j then [e.weight] else [])) ++ contributions es i j := by
  simp [contributions]

theorem vals_cons (n m : Nat) (k : Kind) (t : Nat × Nat × Rat) (ts : List (Nat × Nat × Rat)) (i j : Nat) :
    (⟨n, m, k, t :: ts⟩ : Coo).vals i j =
      (if t.1 = i ∧ t.2.1 = j then [t.2.2] else []) ++ (⟨n, m, k, ts⟩ : Coo).vals i j := by
  unfold Coo.vals
  by_cases h : t.1 = i ∧ t.2.1 = j
  · simp [h]
  · simp [h]

/-- the triples filled by the edge loop carry, at every position, exactly the contributions of the resolved edges -/
theorem triples_sound (num : String → Option Rat) (parseNat : String → Option Nat) (ws : WeightSpec)
    (otherKeys : List String) (naming symmetrize : Bool) (nodeIds : List String) (n m : Nat) (k : Kind)
    (cs : List Child) (ts : List (Nat × Nat × Rat))
    (h : triples num parseNat ws otherKeys naming symmetrize nodeIds cs = .ok ts) :
    ∃ res : List REdge,
      AllRel (Resolves num parseNat ws otherKeys naming symmetrize nodeIds) cs res ∧
      (∀ e ∈ res, (e.source, e.target, e.weight) ∈ ts) ∧
      ∀ i j, (⟨n, m, k, ts⟩ : Coo).vals i j = contributions res i j := by
  induction cs generalizing ts with
  | nil =>
    unfold triples at h
    cases h
    exact ⟨[], AllRel.nil, by simp, by intro i j; simp [Coo.vals, contributions]⟩
  | cons c cs ih =>
    unfold triples at h
    cases hs : endpoint naming nodeIds parseNat c.source with
    | error e => rw [hs] at h; simp at h
    | ok i0 =>
      cases ht : endpoint naming nodeIds parseNat c.target with
      | error e => rw [hs, ht] at h; simp at h
      | ok j0 =>
        cases hw : edgeWeight num ws otherKeys c with
        | error e => rw [hs, ht, hw] at h; simp at h
        | ok w =>
          cases hr : triples num parseNat ws otherKeys naming symmetrize nodeIds cs with
          | error e => rw [hs, ht, hw, hr] at h; simp at h
          | ok rest =>
            rw [hs, ht, hw, hr] at h
            simp only at h
            cases h
            obtain ⟨res, hres, hmem, hvals⟩ := ih rest hr
            refine ⟨⟨i0, j0, w, duplicated symmetrize c⟩ :: res,
              AllRel.cons ⟨hs, ht, hw, rfl⟩ hres, ?_, ?_⟩
            · intro e he
              rcases List.mem_cons.mp he with rfl | he
              · simp
              · have := hmem e he
                by_cases hd : duplicated symmetrize c = true
                · simp [hd, this]
                · simp [hd, this]
            · intro i j
              rw [contributions_cons, vals_cons]
              simp only
              by_cases hd : duplicated symmetrize c = true
              · simp only [hd, if_true, true_and]
                rw [vals_cons, hvals]
                simp only [List.append_assoc]
              · simp only [hd, Bool.false_eq_true, false_and, if_false, List.append_nil]
                rw [hvals]

end SkNet.GraphML
