/-
Helper lemmas for C18 (GraphML): the triples filled by the edge loop against the resolved edges.
-/
import SkNet.Model.GraphML
import SkNet.Spec.GraphML
import SkNet.Lemmas.Ingest

namespace SkNet.GraphML
open SkNet.Ingest

/-- two lists related element by element -/
inductive AllRel (R : α → β → Prop) : List α → List β → Prop
  | nil : AllRel R [] []
  | cons {a : α} {b : β} {as : List α} {bs : List β} : R a b → AllRel R as bs → AllRel R (a :: as) (b :: bs)

/-- the resolved edge `e` is what the code reads off the edge element `c` -/
def Resolves (num : String → Option Rat) (parseNat : String → Option Nat) (ws : WeightSpec) (otherKeys : List OtherKey)
    (naming symmetrize : Bool) (nodeIds : List String) (c : Child) (e : REdge) : Prop :=
  endpoint naming nodeIds parseNat c.source = .ok e.source ∧
  endpoint naming nodeIds parseNat c.target = .ok e.target ∧
  edgeWeight num ws otherKeys c = .ok e.weight ∧
  e.undirected = duplicated symmetrize c

theorem contributions_cons (e : REdge) (es : List REdge) (i j : Nat) :
    contributions (e :: es) i j =
      ((if e.source = i ∧ e.target = j then [e.weight] else []) ++
       (if e.undirected = true ∧ e.target = i ∧ e.source = j then [e.weight] else [])) ++ contributions es i j := by
  simp [contributions]

theorem vals_cons (n m : Nat) (k : Kind) (t : Nat × Nat × Rat) (ts : List (Nat × Nat × Rat)) (i j : Nat) :
    (⟨n, m, k, t :: ts⟩ : Coo).vals i j =
      (if t.1 = i ∧ t.2.1 = j then [t.2.2] else []) ++ (⟨n, m, k, ts⟩ : Coo).vals i j := by
  unfold Coo.vals
  by_cases h : t.1 = i ∧ t.2.1 = j
  · simp [h]
  · simp [h]

/-- the triples filled by the edge loop carry, at every position, exactly the contributions of the resolved edges -/
theorem triples_sound (num : String → Option Rat) (parseNat : String → Option Nat) (ws : WeightSpec)
    (otherKeys : List OtherKey) (naming symmetrize : Bool) (nodeIds : List String) (n m : Nat) (k : Kind)
    (cs : List Child) (ts : List (Nat × Nat × Rat))
    (h : triples num parseNat ws otherKeys naming symmetrize nodeIds cs = .ok ts) :
    ∃ res : List REdge,
      AllRel (Resolves num parseNat ws otherKeys naming symmetrize nodeIds) cs res ∧
      (∀ e ∈ res, (e.source, e.target, e.weight) ∈ ts) ∧
      ∀ i j, (⟨n, m, k, ts⟩ : Coo).vals i j = contributions res i j := by
  induction cs generalizing ts with
  | nil =>
    unfold triples at h
    cases h
    exact ⟨[], AllRel.nil, by simp, by intro i j; simp [Coo.vals, contributions]⟩
  | cons c cs ih =>
    unfold triples at h
    cases hs : endpoint naming nodeIds parseNat c.source with
    | error e => rw [hs] at h; simp at h
    | ok i0 =>
      cases ht : endpoint naming nodeIds parseNat c.target with
      | error e => rw [hs, ht] at h; simp at h
      | ok j0 =>
        cases hw : edgeWeight num ws otherKeys c with
        | error e => rw [hs, ht, hw] at h; simp at h
        | ok w =>
          cases hr : triples num parseNat ws otherKeys naming symmetrize nodeIds cs with
          | error e => rw [hs, ht, hw, hr] at h; simp at h
          | ok rest =>
            rw [hs, ht, hw, hr] at h
            simp only at h
            cases h
            obtain ⟨res, hres, hmem, hvals⟩ := ih rest hr
            refine ⟨⟨i0, j0, w, duplicated symmetrize c⟩ :: res,
              AllRel.cons ⟨hs, ht, hw, rfl⟩ hres, ?_, ?_⟩
            · intro e he
              rcases List.mem_cons.mp he with rfl | he
              · simp
              · have := hmem e he
                by_cases hd : duplicated symmetrize c = true
                · simp [hd, this]
                · simp [hd, this]
            · intro i j
              rw [contributions_cons, vals_cons]
              simp only
              by_cases hd : duplicated symmetrize c = true
              · simp only [hd, if_true, true_and]
                rw [vals_cons, hvals]
                simp only [List.append_assoc]
              · simp only [hd, Bool.false_eq_true, false_and, if_false, List.append_nil]
                rw [hvals]

/-! ### from the model's functions to the clause-by-clause reading -/

theorem zip_range_getElem? (l : List String) (x : String) (i : Nat)
    (h : (x, i) ∈ l.zip (List.range l.length)) : l[i]? = some x := by
  obtain ⟨k, hk, hget⟩ := List.mem_iff_getElem.mp h
  simp only [List.getElem_zip, List.getElem_range, Prod.mk.injEq] at hget
  have hkl : k < l.length := by
    have := hk; simp only [List.length_zip, List.length_range, Nat.min_self] at this; exact this
  rw [← hget.2, List.getElem?_eq_getElem hkl, hget.1]

theorem endpoint_named (nodeIds : List String) (parseNat : String → Option Nat) (a : Option String) (i : Nat)
    (h : endpoint true nodeIds parseNat a = .ok i) : ∃ s, a = some s ∧ nodeIds[i]? = some s := by
  unfold endpoint at h
  cases a with
  | none => cases h
  | some s =>
    simp only [if_true] at h
    cases hf : (nodeIds.zip (List.range nodeIds.length)).reverse.find? (fun p => decide (p.1 = s)) with
    | none => rw [hf] at h; cases h
    | some p =>
      rw [hf] at h
      simp only at h
      cases h
      have hp := List.find?_some hf
      simp only [decide_eq_true_eq] at hp
      have hm := List.mem_reverse.mp (List.mem_of_find?_eq_some hf)
      exact ⟨s, rfl, by rw [← hp]; exact zip_range_getElem? nodeIds p.1 p.2 hm⟩

theorem endpoint_canonical (nodeIds : List String) (parseNat : String → Option Nat) (a : Option String) (i : Nat)
    (h : endpoint false nodeIds parseNat a = .ok i) :
    ∃ s, a = some s ∧ parseNat (String.ofList (s.toList.drop 1)) = some i := by
  unfold endpoint at h
  cases a with
  | none => cases h
  | some s =>
    simp only [Bool.false_eq_true, if_false] at h
    cases hp : parseNat (String.ofList (s.toList.drop 1)) with
    | none => rw [hp] at h; cases h
    | some n => rw [hp] at h; simp only at h; cases h; exact ⟨s, rfl, hp⟩

/-- the step of the fold of `edgeWeight` -/
def weightStep (num : String → Option Rat) (ws : WeightSpec) (others : List OtherKey)
    (acc : Except PyErr Rat) (d : String × String) : Except PyErr Rat :=
  match acc with
  | .error e => .error e
  | .ok w =>
    if some d.1 = ws.id then convert num ws.ptype d.2
    else match otherData num others "edge" d.1 d.2 with
      | .error e => .error e
      | .ok _ => .ok w

theorem edgeWeight_eq (num : String → Option Rat) (ws : WeightSpec) (others : List OtherKey) (c : Child) :
    edgeWeight num ws others c = c.data.foldl (weightStep num ws others) (.ok ws.default) := rfl

theorem foldl_weightStep_error (num : String → Option Rat) (ws : WeightSpec) (others : List OtherKey)
    (l : List (String × String)) (e : PyErr) :
    l.foldl (weightStep num ws others) (.error e) = .error e := by
  induction l with
  | nil => rfl
  | cons d ds ih => simp only [List.foldl_cons, weightStep]; exact ih

theorem foldl_weightStep_noweight (num : String → Option Rat) (ws : WeightSpec) (others : List OtherKey)
    (l : List (String × String)) (w0 w : Rat) (hno : ∀ d ∈ l, some d.1 ≠ ws.id)
    (h : l.foldl (weightStep num ws others) (.ok w0) = .ok w) : w = w0 := by
  induction l with
  | nil => simp only [List.foldl_nil] at h; cases h; rfl
  | cons d ds ih =>
    simp only [List.foldl_cons] at h
    have hd : ¬ some d.1 = ws.id := hno d (by simp)
    have hstep : weightStep num ws others (.ok w0) d =
        match otherData num others "edge" d.1 d.2 with
        | .error e => .error e
        | .ok _ => .ok w0 := by
      simp only [weightStep, hd, if_false]
    rw [hstep] at h
    cases ho : otherData num others "edge" d.1 d.2 with
    | error e => rw [ho] at h; simp only at h; rw [foldl_weightStep_error] at h; cases h
    | ok u => rw [ho] at h; simp only at h; exact ih (fun d' hd' => hno d' (List.mem_cons_of_mem _ hd')) h

theorem foldl_weightStep_last (num : String → Option Rat) (ws : WeightSpec) (others : List OtherKey)
    (pre post : List (String × String)) (k t : String) (w0 w : Rat)
    (hk : some k = ws.id) (hno : ∀ d ∈ post, some d.1 ≠ ws.id)
    (h : (pre ++ (k, t) :: post).foldl (weightStep num ws others) (.ok w0) = .ok w) :
    convert num ws.ptype t = .ok w := by
  rw [List.foldl_append, List.foldl_cons] at h
  cases hp : pre.foldl (weightStep num ws others) (.ok w0) with
  | error e =>
    rw [hp] at h
    simp only [weightStep] at h
    rw [foldl_weightStep_error] at h
    cases h
  | ok w1 =>
    rw [hp] at h
    have hstep : weightStep num ws others (.ok w1) (k, t) = convert num ws.ptype t := by
      simp only [weightStep, hk, if_true]
    rw [hstep] at h
    cases hc : convert num ws.ptype t with
    | error e => rw [hc, foldl_weightStep_error] at h; cases h
    | ok w2 =>
      rw [hc] at h
      rw [foldl_weightStep_noweight num ws others post w2 w hno h]

/-- what the model's functions compute for an edge element is the clause-by-clause reading of the document -/
theorem resolves_readsAs (num : String → Option Rat) (parseNat : String → Option Nat)
    (doc : Doc) (ws : WeightSpec) (others : List OtherKey) (c : Child) (e : REdge)
    (h : Resolves num parseNat ws others doc.naming doc.symmetrize doc.nodeIds c e) :
    ReadsAs num parseNat doc.nodeids doc.edgedefault doc.nodeIds ws.id ws.ptype ws.default c e := by
  obtain ⟨hs, ht, hw, hu⟩ := h
  rw [edgeWeight_eq] at hw
  refine ⟨?_, ?_, ?_, ?_, ?_, ?_, ?_⟩
  · intro hn
    have : doc.naming = true := by simp [Doc.naming, hn]
    rw [this] at hs
    exact endpoint_named _ _ _ _ hs
  · intro hn
    have : doc.naming = true := by simp [Doc.naming, hn]
    rw [this] at ht
    exact endpoint_named _ _ _ _ ht
  · intro hn
    have : doc.naming = false := by simp [Doc.naming, hn]
    rw [this] at hs
    exact endpoint_canonical _ _ _ _ hs
  · intro hn
    have : doc.naming = false := by simp [Doc.naming, hn]
    rw [this] at ht
    exact endpoint_canonical _ _ _ _ ht
  · intro hno
    exact foldl_weightStep_noweight num ws others c.data ws.default e.weight hno hw
  · intro pre k t post hdata hk hno
    rw [hdata] at hw
    exact foldl_weightStep_last num ws others pre post k t ws.default e.weight hk hno hw
  · rw [hu]
    unfold duplicated Doc.symmetrize
    cases hd : c.directed with
    | none => simp
    | some d => simp

theorem AllRel.imp {R R' : α → β → Prop} {l₁ : List α} {l₂ : List β} (h : AllRel R l₁ l₂)
    (himp : ∀ a b, R a b → R' a b) : AllRel R' l₁ l₂ := by
  induction h with
  | nil => exact AllRel.nil
  | cons hab _ ih => exact AllRel.cons (himp _ _ hab) ih

/-- without a weight key among the keys, the weights keep their initial description -/
theorem scanKeys_no_weight (num : String → Option Rat) (weightKey : String) (keys : List Key)
    (ws ws' : WeightSpec) (others others' : List OtherKey)
    (hno : ∀ k ∈ keys, isWeightKey weightKey k = false)
    (h : scanKeys num weightKey keys ws others = .ok (ws', others')) : ws' = ws := by
  induction keys generalizing others with
  | nil => unfold scanKeys at h; cases h; rfl
  | cons k ks ih =>
    unfold scanKeys at h
    have hk := hno k (by simp)
    cases hid : k.id with
    | none => rw [hid] at h; cases h
    | some id =>
      rw [hid] at h
      simp only [hk, Bool.false_eq_true, if_false] at h
      split at h
      · cases h
      · exact ih _ (fun k' hk' => hno k' (List.mem_cons_of_mem _ hk')) h

/-! ### non-refusal -/

theorem mem_zip_range (l : List String) (s : String) (h : s ∈ l) : ∃ i, (s, i) ∈ l.zip (List.range l.length) := by
  obtain ⟨i, hi, hget⟩ := List.mem_iff_getElem.mp h
  refine ⟨i, List.mem_iff_getElem.mpr ⟨i, by simpa using hi, ?_⟩⟩
  simp [hget]

theorem endpoint_ok (nodeIds : List String) (parseNat : String → Option Nat) (s : String) (h : s ∈ nodeIds) :
    ∃ i, endpoint true nodeIds parseNat (some s) = .ok i ∧ i < nodeIds.length := by
  unfold endpoint
  simp only [if_true]
  obtain ⟨i, hi⟩ := mem_zip_range nodeIds s h
  cases hf : (nodeIds.zip (List.range nodeIds.length)).reverse.find? (fun p => decide (p.1 = s)) with
  | none =>
    rw [List.find?_eq_none] at hf
    have := hf (s, i) (List.mem_reverse.mpr hi)
    simp at this
  | some p =>
    refine ⟨p.2, rfl, ?_⟩
    have hm := List.mem_reverse.mp (List.mem_of_find?_eq_some hf)
    obtain ⟨k, hk, hget⟩ := List.mem_iff_getElem.mp hm
    simp only [List.getElem_zip, List.getElem_range] at hget
    have hkl : k < nodeIds.length := by
      have := hk; simp only [List.length_zip, List.length_range, Nat.min_self] at this; exact this
    rw [← hget]
    exact hkl

theorem otherData_ok (num : String → Option Rat) (reg : List OtherKey) (kind : String) (d : String × String)
    (h : DataOk num reg kind d) : otherData num reg kind d.1 d.2 = .ok () := by
  obtain ⟨⟨o0, ho0, hid0⟩, hall⟩ := h
  unfold otherData
  cases hf : reg.reverse.find? (fun o => decide (o.id = d.1)) with
  | none =>
    rw [List.find?_eq_none] at hf
    have := hf o0 (List.mem_reverse.mpr ho0)
    simp [hid0] at this
  | some o =>
    have hmem : o ∈ reg := List.mem_reverse.mp (List.mem_of_find?_eq_some hf)
    have hid : o.id = d.1 := by simpa using List.find?_some hf
    obtain ⟨hholds, v, hv⟩ := hall o hmem hid
    simp only [hv]
    have h1 : reg.any (fun o' => holds o'.for_ kind) = true :=
      List.any_eq_true.mpr ⟨o, hmem, hholds⟩
    have h2 : reg.any (fun o' => holds o'.for_ kind && o'.name == o.name) = true :=
      List.any_eq_true.mpr ⟨o, hmem, by simp [hholds]⟩
    simp [h1, h2]

/-- an edge datum is either the weight (of the declared type) or a well-formed datum of another key -/
def EdgeDatumOk (num : String → Option Rat) (ws : WeightSpec) (reg : List OtherKey) (d : String × String) : Prop :=
  (some d.1 = ws.id ∧ ∃ w, convert num ws.ptype d.2 = .ok w) ∨ (some d.1 ≠ ws.id ∧ DataOk num reg "edge" d)

theorem foldl_weightStep_ok (num : String → Option Rat) (ws : WeightSpec) (others : List OtherKey)
    (l : List (String × String)) (w0 : Rat)
    (h : ∀ d ∈ l, EdgeDatumOk num ws others d) :
    ∃ w, l.foldl (weightStep num ws others) (.ok w0) = .ok w := by
  induction l generalizing w0 with
  | nil => exact ⟨w0, rfl⟩
  | cons d ds ih =>
    simp only [List.foldl_cons]
    rcases h d (by simp) with ⟨hid, w, hw⟩ | ⟨hid, hd⟩
    · have : weightStep num ws others (.ok w0) d = .ok w := by
        simp only [weightStep, hid, if_true, hw]
      rw [this]
      exact ih w (fun d' hd' => h d' (List.mem_cons_of_mem _ hd'))
    · have : weightStep num ws others (.ok w0) d = .ok w0 := by
        simp only [weightStep, hid, if_false, otherData_ok num others "edge" d hd]
      rw [this]
      exact ih w0 (fun d' hd' => h d' (List.mem_cons_of_mem _ hd'))

theorem edgeWeight_ok (num : String → Option Rat) (ws : WeightSpec) (others : List OtherKey) (c : Child)
    (h : ∀ d ∈ c.data, EdgeDatumOk num ws others d) :
    ∃ w, edgeWeight num ws others c = .ok w := by
  rw [edgeWeight_eq]
  exact foldl_weightStep_ok num ws others c.data ws.default h

theorem triples_ok (num : String → Option Rat) (parseNat : String → Option Nat) (ws : WeightSpec)
    (others : List OtherKey) (symmetrize : Bool) (nodeIds : List String) (cs : List Child)
    (h : ∀ c ∈ cs, (∃ s ∈ nodeIds, c.source = some s) ∧ (∃ t ∈ nodeIds, c.target = some t) ∧
        ∀ d ∈ c.data, EdgeDatumOk num ws others d) :
    ∃ ts, triples num parseNat ws others true symmetrize nodeIds cs = .ok ts ∧
      ∀ t ∈ ts, t.1 < nodeIds.length ∧ t.2.1 < nodeIds.length := by
  induction cs with
  | nil => exact ⟨[], rfl, by simp⟩
  | cons c cs ih =>
    obtain ⟨⟨s, hs, hcs⟩, ⟨t, ht, hct⟩, hdata⟩ := h c (by simp)
    obtain ⟨i, hi, hil⟩ := endpoint_ok nodeIds parseNat s hs
    obtain ⟨j, hj, hjl⟩ := endpoint_ok nodeIds parseNat t ht
    obtain ⟨w, hw⟩ := edgeWeight_ok num ws others c hdata
    obtain ⟨rest, hrest, hlt⟩ := ih (fun c' hc' => h c' (List.mem_cons_of_mem _ hc'))
    unfold triples
    rw [hcs, hct, hi, hj, hw, hrest]
    refine ⟨_, rfl, ?_⟩
    intro x hx
    by_cases hd : duplicated symmetrize c = true
    · simp only [hd, if_true, List.mem_cons] at hx
      rcases hx with rfl | rfl | hx
      · exact ⟨hil, hjl⟩
      · exact ⟨hjl, hil⟩
      · exact hlt x hx
    · simp only [hd, List.mem_cons] at hx
      rcases hx with rfl | hx
      · exact ⟨hil, hjl⟩
      · exact hlt x hx

theorem foldl_data_ok (num : String → Option Rat) (others : List OtherKey) (l : List (String × String))
    (h : ∀ d ∈ l, DataOk num others "node" d) :
    l.foldl (dataStep num others "node") (.ok ()) = .ok () := by
  induction l with
  | nil => rfl
  | cons d ds ih =>
    simp only [List.foldl_cons, dataStep, otherData_ok num others "node" d (h d (by simp))]
    exact ih (fun d' hd' => h d' (List.mem_cons_of_mem _ hd'))

theorem nodesData_ok (num : String → Option Rat) (others : List OtherKey) (nodes : List Child)
    (h : ∀ c ∈ nodes, ∀ d ∈ c.data, DataOk num others "node" d) : nodesData num others nodes = .ok () := by
  unfold nodesData
  induction nodes with
  | nil => rfl
  | cons c cs ih =>
    simp only [List.foldl_cons]
    rw [foldl_data_ok num others c.data (h c (by simp))]
    exact ih (fun c' hc' => h c' (List.mem_cons_of_mem _ hc'))

theorem convertAll_ok (num : String → Option Rat) (t : Option PType) (l : List String) (acc : Option Rat)
    (h : ∀ x ∈ l, ∃ v, convert num t x = .ok v) : ∃ r, convertAll num t l acc = .ok r := by
  induction l generalizing acc with
  | nil => exact ⟨acc, rfl⟩
  | cons x xs ih =>
    obtain ⟨v, hv⟩ := h x (by simp)
    unfold convertAll
    rw [hv]
    exact ih (some v) (fun y hy => h y (List.mem_cons_of_mem _ hy))

/-- keys that are read without error: the scan succeeds and registers exactly the keys that are not the weight key -/
theorem scanKeys_ok (num : String → Option Rat) (weightKey : String) (keys : List Key) (ws : WeightSpec)
    (others : List OtherKey) (h : ∀ k ∈ keys, KeyOk num k) :
    ∃ ws', scanKeys num weightKey keys ws others = .ok (ws', others ++ registered weightKey keys) := by
  induction keys generalizing ws others with
  | nil => exact ⟨ws, by simp [scanKeys, registered]⟩
  | cons k ks ih =>
    obtain ⟨hid, hdef⟩ := h k (by simp)
    have hks := fun k' hk' => h k' (List.mem_cons_of_mem _ hk')
    unfold scanKeys
    cases hkid : k.id with
    | none => rw [hkid] at hid; cases hid
    | some id =>
      simp only
      by_cases hw : isWeightKey weightKey k = true
      · simp only [hw, if_true]
        obtain ⟨r, hr⟩ := convertAll_ok num (ptypeOf k.typeD) k.defaults none hdef
        rw [hr]
        simp only
        obtain ⟨ws', hws'⟩ := ih _ others hks
        refine ⟨ws', ?_⟩
        rw [hws']
        simp [registered, hw]
      · have hw' : isWeightKey weightKey k = false := by simpa using hw
        simp only [hw', Bool.false_eq_true, if_false]
        have hconv : ∃ r, (if k.forD = "node" ∨ k.forD = "edge" ∨ k.forD = "all"
            then convertAll num (ptypeOf k.typeD) k.defaults none else .ok none) = .ok r := by
          by_cases hf : k.forD = "node" ∨ k.forD = "edge" ∨ k.forD = "all"
          · simp only [hf, if_true]; exact convertAll_ok num _ _ none hdef
          · simp only [hf, if_false]; exact ⟨none, rfl⟩
        obtain ⟨r, hr⟩ := hconv
        rw [hr]
        simp only
        obtain ⟨ws', hws'⟩ := ih ws (others ++ [⟨id, k.nameD, ptypeOf k.typeD, k.forD⟩]) hks
        refine ⟨ws', ?_⟩
        rw [hws']
        simp [registered, hw', regKey, hkid, List.append_assoc]

end SkNet.GraphML
