/-
Brandes' algorithm, accumulation phase (`ranking/betweenness.pyx`): after the stack of processed nodes has been
unwound, the array `delta` satisfies Brandes' recursion
    delta[v] = Σ_w  #(v in preds[w]) · sigma[v]/sigma[w] · (1 + delta[w])
and `scores[v]` has received `delta[v]` (except for the source).
-/
import SkNet.Lemmas.RankBrandes
import SkNet.Lemmas.RankKatz

open Finset

namespace SkNet.Rank.Brandes

/-- right-hand side of Brandes' recursion for the node `v`, the children `w` ranging over a set of nodes -/
def recSum (n : ℕ) (sigma : List ℕ) (preds : List (List ℕ)) (delta : List ℚ) (P : ℕ → Prop) [DecidablePred P] (v : ℕ) : ℚ :=
  ∑ w ∈ range n, if P w then
    ((preds.getD w []).count v : ℚ) * ((sigma.getD v 0 : ℚ) / (sigma.getD w 0 : ℚ)) * (1 + delta.getD w 0) else 0

/-- the inner loop `for i in preds[j]` adds, to every `delta[v]`, the contribution of `j` once per occurrence of `v` -/
theorem inner_loop (sigma : List ℕ) (j : ℕ) (l : List ℕ) (delta : List ℚ) (hl : ∀ i ∈ l, i < delta.length) (hj : j ∉ l) :
    let out := l.foldl (fun dl i => dl.modify i (fun v =>
      v + natS (sigma.getD i 0) / natS (sigma.getD j 0) * (1 + dl.getD j 0))) delta
    out.length = delta.length ∧ ∀ v, out.getD v 0
      = delta.getD v 0 + (l.count v : ℚ) * ((sigma.getD v 0 : ℚ) / (sigma.getD j 0 : ℚ)) * (1 + delta.getD j 0) := by
  induction l generalizing delta with
  | nil =>
    intro out
    refine ⟨rfl, fun v => ?_⟩
    show delta.getD v 0 = _
    simp
  | cons i t ih =>
    intro out
    have hi : i < delta.length := hl i (by simp)
    have hij : i ≠ j := fun e => hj (by rw [← e]; simp)
    set d1 := delta.modify i (fun v => v + natS (sigma.getD i 0) / natS (sigma.getD j 0) * (1 + delta.getD j 0)) with hd1
    have hlen1 : d1.length = delta.length := by rw [hd1, List.length_modify]
    have hg1 : ∀ v, d1.getD v 0 = if i = v then delta.getD v 0
        + (sigma.getD v 0 : ℚ) / (sigma.getD j 0 : ℚ) * (1 + delta.getD j 0) else delta.getD v 0 := by
      intro v
      rw [hd1, getD_modify _ _ _ _ _ hi]
      by_cases hiv : i = v
      · subst hiv; simp only [if_true]; rw [natS_eq, natS_eq]
      · simp only [hiv, if_false]
    obtain ⟨hlen, hval⟩ := ih d1 (fun x hx => by rw [hlen1]; exact hl x (by simp [hx])) (fun h => hj (by simp [h]))
    refine ⟨by rw [← hlen1]; exact hlen, fun v => ?_⟩
    have hj1 : d1.getD j 0 = delta.getD j 0 := by rw [hg1 j, if_neg hij]
    show (t.foldl _ d1).getD v 0 = _
    rw [hval v, hj1, hg1 v, List.count_cons]
    by_cases hiv : i = v
    · subst hiv; simp only [if_true, beq_self_eq_true]; push_cast; ring
    · have : (i == v) = false := by simpa using hiv
      simp only [hiv, if_false, this]; push_cast; ring

/-- the term of the child `w` in Brandes' recursion for `v` -/
def recTerm (sigma : List ℕ) (preds : List (List ℕ)) (delta : List ℚ) (v w : ℕ) : ℚ :=
  ((preds.getD w []).count v : ℚ) * ((sigma.getD v 0 : ℚ) / (sigma.getD w 0 : ℚ)) * (1 + delta.getD w 0)

theorem recSum_eq (n : ℕ) (sigma : List ℕ) (preds : List (List ℕ)) (delta : List ℚ) (P : ℕ → Prop) [DecidablePred P]
    (v : ℕ) : recSum n sigma preds delta P v = ∑ w ∈ range n, if P w then recTerm sigma preds delta v w else 0 := rfl

/-- state of the accumulation loop after the nodes of `pre` have been popped -/
structure BackInv (n : ℕ) (st : BState) (src : ℕ) (scores0 : List ℚ) (pre : List ℕ) (delta scores : List ℚ) : Prop where
  lenD : delta.length = n
  lenSc : scores.length = n
  done : ∀ v ∈ pre, delta.getD v 0 = recSum n st.sigma st.preds delta (fun _ => True) v
  todo : ∀ v, v < n → v ∉ pre → delta.getD v 0 = recSum n st.sigma st.preds delta (fun w => w ∈ pre) v
  sc : ∀ v, scores.getD v 0 = scores0.getD v 0 + if v ∈ pre ∧ v ≠ src then delta.getD v 0 else 0

variable {n : ℕ} {nbr : ℕ → List ℕ} {src : ℕ}

/-- facts about the final state of the BFS phase used by the accumulation -/
structure Final (n : ℕ) (nbr : ℕ → List ℕ) (src : ℕ) (st : BState) : Prop where
  slt : ∀ u ∈ st.seen, u < n
  snodup : st.seen.Nodup
  ssorted : st.seen.Pairwise (fun a b => D st b ≤ D st a)
  pred_lvl : ∀ w, w < n → ∀ v, 0 < (Pr st w).count v → v ∈ st.seen ∧ w ∈ st.seen ∧ D st v + 1 = D st w

theorem final_of_inv {L : ℕ} {st : BState} (hI : Inv n nbr src nbr L st) (hP : PInv n nbr st) (hq : st.queue = []) :
    Final n nbr src st := by
  refine ⟨hI.slt, hI.snodup, hP.ssorted, fun w hw v hc => ?_⟩
  rw [hP.preds_ok w hw v] at hc
  split at hc
  · rename_i h
    refine ⟨h.1, ?_, h.2⟩
    have hv0 : 0 ≤ D st v := (hI.disc v (hI.slt v h.1)).mpr (Or.inl h.1)
    have hw0 : 0 ≤ D st w := by omega
    rcases (hI.disc w hw).mp hw0 with hs | hs
    · exact hs
    · rw [hq] at hs; simp at hs
  · omega

theorem recTerm_zero_of_count {sigma : List ℕ} {preds : List (List ℕ)} {delta : List ℚ} {v w : ℕ}
    (h : (preds.getD w []).count v = 0) : recTerm sigma preds delta v w = 0 := by
  unfold recTerm; rw [h]; simp

/-- one pass of the `while len(seen) != 0` loop -/
theorem BackInv.pop {st : BState} (hF : Final n nbr src st) {scores0 : List ℚ} {pre rest : List ℕ} {j : ℕ}
    (hsplit : pre ++ j :: rest = st.seen) {delta scores : List ℚ}
    (hB : BackInv n st src scores0 pre delta scores) :
    let delta1 := (st.preds.getD j []).foldl (fun dl i => dl.modify i (fun v =>
      v + natS (st.sigma.getD i 0) / natS (st.sigma.getD j 0) * (1 + dl.getD j 0))) delta
    let scores1 := if j ≠ src then scores.modify j (fun v => v + delta1.getD j 0) else scores
    BackInv n st src scores0 (pre ++ [j]) delta1 scores1 := by
  intro delta1 scores1
  have hjseen : j ∈ st.seen := by rw [← hsplit]; simp
  have hjn : j < n := hF.slt j hjseen
  have hnd : (pre ++ j :: rest).Nodup := by rw [hsplit]; exact hF.snodup
  have hjpre : j ∉ pre := by
    intro h
    have := (List.nodup_append.mp hnd).2.2 j h j (by simp)
    exact this rfl
  have hsorted : (pre ++ j :: rest).Pairwise (fun a b => D st b ≤ D st a) := by rw [hsplit]; exact hF.ssorted
  have hpre_ge : ∀ a ∈ pre, D st j ≤ D st a := by
    intro a ha
    exact (List.pairwise_append.mp hsorted).2.2 a ha j (by simp)
  have hrest_le : ∀ b ∈ rest, D st b ≤ D st j := by
    intro b hb
    have := (List.pairwise_append.mp hsorted).2.1
    rw [List.pairwise_cons] at this
    exact this.1 b hb
  -- the predecessors of j
  have hl_lvl : ∀ i ∈ Pr st j, i ∈ st.seen ∧ D st i + 1 = D st j := by
    intro i hi
    have := hF.pred_lvl j hjn i (List.count_pos_iff.mpr hi)
    exact ⟨this.1, this.2.2⟩
  have hl_lt : ∀ i ∈ st.preds.getD j [], i < delta.length := by
    intro i hi; rw [hB.lenD]; exact hF.slt i (hl_lvl i hi).1
  have hj_notin : j ∉ st.preds.getD j [] := fun h => by have := (hl_lvl j h).2; omega
  obtain ⟨hlen1, hval1⟩ := inner_loop st.sigma j (st.preds.getD j []) delta hl_lt hj_notin
  -- entries at the level of j or above are not touched
  have hkeep : ∀ v, D st j ≤ D st v → delta1.getD v 0 = delta.getD v 0 := by
    intro v hv
    have : (st.preds.getD j []).count v = 0 := by
      rw [List.count_eq_zero]
      intro h; have := (hl_lvl v h).2; omega
    rw [hval1 v, this]; simp
  have hkeep_pre : ∀ v ∈ pre, delta1.getD v 0 = delta.getD v 0 := fun v hv => hkeep v (hpre_ge v hv)
  have hkeep_j : delta1.getD j 0 = delta.getD j 0 := hkeep j (le_refl _)
  -- a child w of a node v at the level of j or above keeps its delta
  have hterm_keep : ∀ v w, w < n → D st j ≤ D st v →
      recTerm st.sigma st.preds delta1 v w = recTerm st.sigma st.preds delta v w := by
    intro v w hw hv
    by_cases hc : (st.preds.getD w []).count v = 0
    · rw [recTerm_zero_of_count hc, recTerm_zero_of_count hc]
    · have := hF.pred_lvl w hw v (Nat.pos_of_ne_zero hc)
      unfold recTerm
      rw [hkeep w (by omega)]
  -- the children of j have all been popped
  have hchild_pre : ∀ w, w < n → w ∉ pre → recTerm st.sigma st.preds delta j w = 0 := by
    intro w hw hwpre
    apply recTerm_zero_of_count
    by_contra hc
    have := hF.pred_lvl w hw j (Nat.pos_of_ne_zero hc)
    have hws : w ∈ pre ++ j :: rest := by rw [hsplit]; exact this.2.1
    rw [List.mem_append, List.mem_cons] at hws
    rcases hws with h | h | h
    · exact hwpre h
    · rw [h] at this; omega
    · have := hrest_le w h; omega
  refine ⟨by rw [hlen1]; exact hB.lenD, ?_, ?_, ?_, ?_⟩
  · show scores1.length = n
    by_cases hjs : j ≠ src
    · have hs1 : scores1 = scores.modify j (fun x => x + delta1.getD j 0) := if_pos hjs
      rw [hs1, List.length_modify]; exact hB.lenSc
    · have hs1 : scores1 = scores := if_neg hjs
      rw [hs1]; exact hB.lenSc
  · -- done
    intro v hv
    rw [List.mem_append, List.mem_singleton] at hv
    have hvlvl : D st j ≤ D st v := by
      rcases hv with h | h
      · exact hpre_ge v h
      · rw [h]
    rw [hkeep v hvlvl, recSum_eq]
    rw [sum_congr rfl fun w hw => by rw [if_pos trivial, hterm_keep v w (mem_range.mp hw) hvlvl]]
    rcases hv with h | h
    · rw [hB.done v h, recSum_eq]
      exact sum_congr rfl fun w _ => by rw [if_pos trivial]
    · rw [h, hB.todo j hjn hjpre, recSum_eq]
      apply sum_congr rfl; intro w hw
      by_cases hwp : w ∈ pre
      · rw [if_pos hwp]
      · rw [if_neg hwp, hchild_pre w (mem_range.mp hw) hwp]
  · -- todo
    intro v hv hvn
    rw [List.mem_append, List.mem_singleton, not_or] at hvn
    rw [hval1 v, hB.todo v hv hvn.1, recSum_eq, recSum_eq]
    have hsplitsum : ∀ f : ℕ → ℚ, ∑ w ∈ range n, f w = f j + ∑ w ∈ (range n).erase j, f w := fun f =>
      (add_sum_erase (range n) f (mem_range.mpr hjn)).symm
    rw [hsplitsum, hsplitsum (fun w => if w ∈ pre ++ [j] then recTerm st.sigma st.preds delta1 v w else 0)]
    rw [if_neg hjpre, zero_add, if_pos (by simp)]
    have hrest : ∑ w ∈ (range n).erase j, (if w ∈ pre then recTerm st.sigma st.preds delta v w else 0)
        = ∑ w ∈ (range n).erase j, (if w ∈ pre ++ [j] then recTerm st.sigma st.preds delta1 v w else 0) := by
      apply sum_congr rfl; intro w hw
      have hwj : w ≠ j := (mem_erase.mp hw).1
      have : w ∈ pre ++ [j] ↔ w ∈ pre := by simp [hwj]
      by_cases hwp : w ∈ pre
      · rw [if_pos hwp, if_pos (this.mpr hwp)]
        unfold recTerm; rw [hkeep_pre w hwp]
      · rw [if_neg hwp, if_neg (fun h => hwp (this.mp h))]
    rw [hrest]
    unfold recTerm
    rw [hkeep_j]
    ring
  · -- scores
    intro v
    by_cases hjs : j ≠ src
    · have hs1 : scores1 = scores.modify j (fun x => x + delta1.getD j 0) := if_pos hjs
      have hjlt : j < scores.length := by rw [hB.lenSc]; exact hjn
      rw [hs1, getD_modify _ _ _ _ _ hjlt, hB.sc v]
      by_cases hvj : j = v
      · subst hvj
        have h1 : ¬ (j ∈ pre ∧ j ≠ src) := fun h => hjpre h.1
        have h2 : j ∈ pre ++ [j] ∧ j ≠ src := ⟨by simp, hjs⟩
        rw [if_pos rfl, if_neg h1, if_pos h2, add_zero]
      · rw [if_neg hvj]
        have hmem : v ∈ pre ++ [j] ↔ v ∈ pre := by simp [Ne.symm hvj]
        by_cases hvp : v ∈ pre ∧ v ≠ src
        · rw [if_pos hvp, if_pos ⟨hmem.mpr hvp.1, hvp.2⟩, hkeep_pre v hvp.1]
        · rw [if_neg hvp, if_neg (fun h => hvp ⟨hmem.mp h.1, h.2⟩)]
    · have hs1 : scores1 = scores := if_neg hjs
      rw [hs1, hB.sc v]
      have hjsrc : j = src := not_not.mp hjs
      by_cases hvp : v ∈ pre ∧ v ≠ src
      · have hvj : v ≠ j := fun e => hvp.2 (e.trans hjsrc)
        have hmem : v ∈ pre ++ [j] := by simp [hvp.1]
        rw [if_pos hvp, if_pos ⟨hmem, hvp.2⟩, hkeep_pre v hvp.1]
      · rw [if_neg hvp]
        have : ¬ (v ∈ pre ++ [j] ∧ v ≠ src) := by
          rintro ⟨h1, h2⟩
          rw [List.mem_append, List.mem_singleton] at h1
          rcases h1 with h | h
          · exact hvp ⟨h, h2⟩
          · exact h2 (h.trans hjsrc)
        rw [if_neg this]

/-- the whole accumulation loop -/
theorem back_loop {st : BState} (hF : Final n nbr src st) (scores0 : List ℚ) :
    ∀ (rest pre : List ℕ) (delta scores : List ℚ), pre ++ rest = st.seen →
      BackInv n st src scores0 pre delta scores →
      BackInv n st src scores0 st.seen (brandesBack src st.sigma st.preds rest delta scores).1
        (brandesBack src st.sigma st.preds rest delta scores).2 := by
  intro rest
  induction rest with
  | nil =>
    intro pre delta scores hsplit hB
    rw [List.append_nil] at hsplit
    rw [← hsplit]; exact hB
  | cons j t ih =>
    intro pre delta scores hsplit hB
    have := BackInv.pop hF hsplit hB
    unfold brandesBack
    exact ih (pre ++ [j]) _ _ (by rw [List.append_assoc]; exact hsplit) this

/-- ★ accumulation phase: when the stack has been unwound, `delta` satisfies Brandes' recursion at every node and
    every processed node other than the source has received its `delta` -/
theorem brandes_accumulation {st : BState} (hF : Final n nbr src st) (scores0 : List ℚ) (hlen : scores0.length = n) :
    let out := brandesBack src st.sigma st.preds st.seen (tab n fun _ => 0) scores0
    (∀ v, v < n → out.1.getD v 0 = recSum n st.sigma st.preds out.1 (fun _ => True) v) ∧
    (∀ v, out.2.getD v 0 = scores0.getD v 0 + if v ∈ st.seen ∧ v ≠ src then out.1.getD v 0 else 0) ∧
    out.2.length = n := by
  intro out
  have h0 : BackInv n st src scores0 [] (tab n fun _ => 0) scores0 := by
    refine ⟨by simp, hlen, fun v hv => by simp at hv, fun v hv _ => ?_, fun v => by simp⟩
    rw [tab_getD, if_pos hv, recSum_eq]
    symm; apply sum_eq_zero; intro w _; simp
  have hB := back_loop hF scores0 st.seen [] _ _ (by simp) h0
  refine ⟨fun v hv => ?_, hB.sc, hB.lenSc⟩
  by_cases hvs : v ∈ st.seen
  · exact hB.done v hvs
  · rw [hB.todo v hv hvs, recSum_eq, recSum_eq]
    apply sum_congr rfl; intro w hw
    by_cases hws : w ∈ st.seen
    · rw [if_pos hws, if_pos trivial]
    · rw [if_neg hws, if_pos trivial]
      symm; apply recTerm_zero_of_count
      by_contra hc
      exact hws (hF.pred_lvl w (mem_range.mp hw) v (Nat.pos_of_ne_zero hc)).2.1

/-- ★ one iteration of `for source in range(n)` of `Betweenness.fit`: the BFS succeeds, and the scores receive the `delta` of
    every node reached from the source (other than the source), where `delta` solves Brandes' recursion on the
    predecessor lists and path counts of the BFS -/
theorem brandesSource_spec (hnbr : ∀ u, ∀ v ∈ nbr u, v < n) (hsrc : src < n) (scores0 : List ℚ)
    (hlen : scores0.length = n) :
    ∃ (st : BState) (delta sc : List ℚ),
      brandesBfs nbr (n + 1) (initState n src) = some st ∧ brandesSource n nbr scores0 src = some sc ∧ sc.length = n ∧
      (∀ v, v < n → delta.getD v 0 = recSum n st.sigma st.preds delta (fun _ => True) v) ∧
      (∀ v, v < n → sc.getD v 0 = scores0.getD v 0 + if 0 ≤ D st v ∧ v ≠ src then delta.getD v 0 else 0) := by
  obtain ⟨st, hst⟩ := brandes_bfs_total hnbr hsrc
  obtain ⟨L, hI, hP, hq⟩ := bfs_inv' hnbr (n + 1) 0 _ st (init_inv nbr hsrc) (init_pinv n nbr src) hst
  have hF := final_of_inv hI hP hq
  obtain ⟨h1, h2, h3⟩ := brandes_accumulation hF scores0 hlen
  refine ⟨st, _, _, hst, ?_, h3, h1, fun v hv => ?_⟩
  · show (match brandesBfs nbr (n + 1) (initState n src) with
      | none => none
      | some st => some (brandesBack src st.sigma st.preds st.seen (tab n fun _ => 0) scores0).2) = _
    rw [hst]
  · rw [h2 v]
    have : v ∈ st.seen ↔ 0 ≤ D st v := by
      rw [hI.disc v hv, hq]; simp
    simp only [this]

end SkNet.Rank.Brandes
