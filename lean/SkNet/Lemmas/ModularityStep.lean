/-
One node of the Louvain kernel (`nodeStep`) in exact arithmetic: the invariant `CoreInv` (scratch array zero,
cluster volumes equal to the volumes of the current partition) is preserved, the amount added to
`increase_pass` is exactly the change of `Q`, it is non-negative, and the node stays or joins the cluster of a
stored neighbour.
-/
import SkNet.Lemmas.ModularityCore

namespace SkNet.Modularity
open Finset

/-- label of node `i` in a label array -/
abbrev labOf (l : List Nat) (i : Nat) : Nat := l.getD i 0

/-- what the kernel may assume of its read-only arguments: column indices in range, the matrix symmetric,
    `self_loops` its diagonal (`Louvain._optimize` passes `adjacency.diagonal()` of a symmetrised matrix) -/
structure GraphOK (g : Graph Rat) : Prop where
  cols : ∀ i, i < g.n → ∀ e ∈ g.row i, e.1 < g.n
  sym : ∀ u v, u < g.n → v < g.n → adj g u v = adj g v u
  self : ∀ i, i < g.n → g.selfLoop i = adj g i i

/-- the invariant between two nodes; `K` = number of cluster slots -/
structure CoreInv (g : Graph Rat) (K : Nat) (st : St Rat) : Prop where
  len : st.labels.length = g.n
  bound : ∀ i, i < g.n → labOf st.labels i < K
  lenO : st.outCl.length = K
  lenI : st.inCl.length = K
  lenC : st.cw.length = K
  cwZero : ∀ x, st.cw.getD x 0 = 0
  volO : ∀ x, x < K → st.outCl.getD x 0 = vol g.n g.outW (labOf st.labels) x
  volI : ∀ x, x < K → st.inCl.getD x 0 = vol g.n g.inW (labOf st.labels) x

/-- the objective the kernel works on -/
def QG (g : Graph Rat) (res : Rat) (labels : List Nat) : Rat :=
  Q g.n (adj g) g.outW g.inW res (labOf labels)

theorem labOf_set (l : List Nat) (i b : Nat) (hi : i < l.length) :
    labOf (l.set i b) = Function.update (labOf l) i b := by
  funext j
  simp only [labOf, getD_set, Function.update_apply]
  by_cases h : i = j
  · subst h; simp [hi]
  · simp [h, Ne.symm h]

theorem vol_update (n : Nat) (w : Nat → Rat) (c : Nat → Nat) (i b x : Nat) (hi : i < n) :
    vol n w (Function.update c i b) x
      = vol n w c x - (if c i = x then w i else 0) + (if b = x then w i else 0) := by
  unfold vol
  have hmem : i ∈ range n := Finset.mem_range.mpr hi
  rw [← Finset.add_sum_erase _ _ hmem, ← Finset.add_sum_erase (range n) (fun j => if c j = x then w j else 0) hmem]
  have : ∑ j ∈ (range n).erase i, (if Function.update c i b j = x then w j else 0)
      = ∑ j ∈ (range n).erase i, (if c j = x then w j else 0) := by
    refine sum_congr rfl fun j hj => ?_
    rw [Function.update_of_ne (ne_of_mem_erase hj)]
  rw [this]
  simp only [Function.update_self]
  ring

theorem rowLink_zero (lab : Nat → Nat) (row : List (Nat × Rat)) (x : Nat) (h : ∀ e ∈ row, lab e.1 ≠ x) :
    rowLink lab row x = 0 := by
  induction row with
  | nil => simp [rowLink]
  | cons e r ih =>
    have h1 := h e List.mem_cons_self
    have h2 := ih fun e' he' => h e' (List.mem_cons_of_mem _ he')
    simp only [rowLink, List.map_cons, List.sum_cons, h1, if_false, zero_add] at h2 ⊢
    exact h2

theorem moveWeights_getD (outW inW : Rat) (label b : Nat) (outCl inCl : List Rat) (K : Nat)
    (hO : outCl.length = K) (hI : inCl.length = K) (hl : label < K) (hb : b < K) (hne : b ≠ label) (x : Nat) :
    (moveWeights outW inW label b outCl inCl).1.getD x 0
        = outCl.getD x 0 - (if label = x then outW else 0) + (if b = x then outW else 0) ∧
    (moveWeights outW inW label b outCl inCl).2.getD x 0
        = inCl.getD x 0 - (if label = x then inW else 0) + (if b = x then inW else 0) ∧
    (moveWeights outW inW label b outCl inCl).1.length = K ∧
    (moveWeights outW inW label b outCl inCl).2.length = K := by
  simp only [moveWeights, zero_rat, getD_set, List.length_set, hO, hI, hl, hb, and_true]
  refine ⟨?_, ?_⟩
  · by_cases h1 : b = x
    · subst h1; simp [Ne.symm hne]
    · by_cases h2 : label = x
      · subst h2; simp [h1]
      · simp [h1, h2]
  · by_cases h1 : b = x
    · subst h1; simp [Ne.symm hne]
    · by_cases h2 : label = x
      · subst h2; simp [h1]
      · simp [h1, h2]

theorem nbrLoop_spec (lab : List Nat) (row : List (Nat × Rat)) (cw : List Rat)
    (hb : ∀ e ∈ row, lab.getD e.1 0 < cw.length) :
    (nbrLoop lab row cw).1.length = cw.length ∧
    (∀ x, (nbrLoop lab row cw).1.getD x 0 = cw.getD x 0 + rowLink (labOf lab) row x) ∧
    (∀ x, x ∈ (nbrLoop lab row cw).2 ↔ ∃ e ∈ row, labOf lab e.1 = x) ∧
    (nbrLoop lab row cw).2.Pairwise (· < ·) := by
  obtain ⟨h1, h2, h3, h4⟩ := nbrLoop_fold lab row cw [] hb
  refine ⟨h1, h2, ?_, h4 List.Pairwise.nil⟩
  intro x
  have := h3 x
  simp only [List.not_mem_nil, false_or] at this
  exact this

/-- what one node of `optimize_core` does, in exact arithmetic -/
theorem nodeStep_spec (g : Graph Rat) (hg : GraphOK g) (res : Rat) (K : Nat) (st : St Rat) (acc : Rat)
    (hinv : CoreInv g K st) (i : Nat) (hi : i < g.n) :
    CoreInv g K (nodeStep g res (st, acc) i).1 ∧
    (nodeStep g res (st, acc) i).2 - acc
      = QG g res (nodeStep g res (st, acc) i).1.labels - QG g res st.labels ∧
    acc ≤ (nodeStep g res (st, acc) i).2 ∧
    ((nodeStep g res (st, acc) i).1.labels = st.labels ∨
      ∃ e ∈ g.row i, (nodeStep g res (st, acc) i).1.labels = st.labels.set i (labOf st.labels e.1)
        ∧ labOf st.labels e.1 ≠ labOf st.labels i ∧ acc < (nodeStep g res (st, acc) i).2) := by
  have hrow : ∀ e ∈ g.row i, st.labels.getD e.1 0 < st.cw.length := by
    intro e he; rw [hinv.lenC]; exact hinv.bound e.1 (hg.cols i hi e he)
  obtain ⟨nlen, nget, nmem, nsorted⟩ := nbrLoop_spec st.labels (g.row i) st.cw hrow
  have hcw : ∀ x, (nbrLoop st.labels (g.row i) st.cw).1.getD x 0 = rowLink (labOf st.labels) (g.row i) x := by
    intro x; rw [nget x, hinv.cwZero x, zero_add]
  have hlabel : labOf st.labels i < K := hinv.bound i hi
  have hlabel' : st.labels.getD i 0 < K := hlabel
  -- entries of the scratch array outside the neighbouring clusters are zero
  have hzero : ∀ x, x ∉ (nbrLoop st.labels (g.row i) st.cw).2 →
      (nbrLoop st.labels (g.row i) st.cw).1.getD x 0 = 0 := by
    intro x hx
    rw [hcw x]
    refine rowLink_zero _ _ _ fun e he h => hx ((nmem x).mpr ⟨e, he, h⟩)
  generalize hr : nodeStep g res (st, acc) i = r
  simp only [nodeStep] at hr
  split at hr
  · -- no neighbouring cluster other than the node's own
    rename_i hemp
    subst hr
    have hnone : ∀ x, x ≠ st.labels.getD i 0 → x ∉ (nbrLoop st.labels (g.row i) st.cw).2 := by
      intro x hx hmem
      have : x ∈ setErase (st.labels.getD i 0) (nbrLoop st.labels (g.row i) st.cw).2 :=
        (mem_setErase _ _ _).mpr ⟨hmem, hx⟩
      rw [List.isEmpty_iff.mp hemp] at this
      exact absurd this List.not_mem_nil
    refine ⟨⟨hinv.len, hinv.bound, hinv.lenO, hinv.lenI, ?_, ?_, hinv.volO, hinv.volI⟩, by simp, le_refl _,
      Or.inl rfl⟩
    · simp [nlen, hinv.lenC]
    · intro x
      simp only [zero_rat, getD_set]
      by_cases hx : st.labels.getD i 0 = x
      · subst hx
        rw [if_pos ⟨rfl, by rw [nlen, hinv.lenC]; exact hlabel'⟩]
      · simp only [hx, false_and, if_false]
        exact hzero x (hnone x (Ne.symm hx))
  · rename_i hemp
    -- the loop over the neighbouring clusters
    have hts_sorted := setErase_sorted (st.labels.getD i 0) _ nsorted
    have hts_nodup : (setErase (st.labels.getD i 0) (nbrLoop st.labels (g.row i) st.cw).2).Nodup :=
      hts_sorted.imp (fun h => Nat.ne_of_lt h)
    have hts_bound : ∀ t ∈ setErase (st.labels.getD i 0) (nbrLoop st.labels (g.row i) st.cw).2,
        t < (nbrLoop st.labels (g.row i) st.cw).1.length := by
      intro t ht
      obtain ⟨e, he, hte⟩ := (nmem t).mp ((mem_setErase _ _ _).mp ht).1
      rw [nlen, hinv.lenC, ← hte]
      exact hinv.bound e.1 (hg.cols i hi e he)
    obtain ⟨tlen, tget, tbest, -, -⟩ := targetLoop_fold res (g.outW i) (g.inW i)
      (leaveDelta res (g.outW i) (g.inW i) (g.selfLoop i)
        ((nbrLoop st.labels (g.row i) st.cw).1.getD (st.labels.getD i 0) Scalar.zero)
        (st.inCl.getD (st.labels.getD i 0) Scalar.zero) (st.outCl.getD (st.labels.getD i 0) Scalar.zero))
      st.inCl st.outCl (setErase (st.labels.getD i 0) (nbrLoop st.labels (g.row i) st.cw).2)
      0 (st.labels.getD i 0) (nbrLoop st.labels (g.row i) st.cw).1 hts_nodup hts_bound
    simp only [zero_rat] at hr tget tbest tlen
    generalize hR : List.foldl
        (targetStep res (g.outW i) (g.inW i)
          (leaveDelta res (g.outW i) (g.inW i) (g.selfLoop i)
            ((nbrLoop st.labels (g.row i) st.cw).1.getD (st.labels.getD i 0) 0)
            (st.inCl.getD (st.labels.getD i 0) 0) (st.outCl.getD (st.labels.getD i 0) 0))
          st.inCl st.outCl)
        (0, st.labels.getD i 0, (nbrLoop st.labels (g.row i) st.cw).1)
        (setErase (st.labels.getD i 0) (nbrLoop st.labels (g.row i) st.cw).2) = R at hr tget tbest tlen
    -- the scratch array after the resets
    have hcwz : ∀ x, (R.2.2.set (st.labels.getD i 0) 0).getD x 0 = 0 := by
      intro x
      rw [getD_set]
      by_cases hx : st.labels.getD i 0 = x
      · subst hx
        rw [if_pos ⟨rfl, by rw [tlen, nlen, hinv.lenC]; exact hlabel'⟩]
      · simp only [hx, false_and, if_false]
        rw [tget x]
        by_cases hxt : x ∈ setErase (st.labels.getD i 0) (nbrLoop st.labels (g.row i) st.cw).2
        · rw [if_pos hxt]
        · rw [if_neg hxt]
          refine hzero x fun hmem => hxt ((mem_setErase _ _ _).mpr ⟨hmem, Ne.symm hx⟩)
    have hcwl : (R.2.2.set (st.labels.getD i 0) 0).length = K := by
      simp [tlen, nlen, hinv.lenC]
    split at hr
    · -- the node moves to cluster `R.2.1`
      rename_i hmove
      subst hr
      have hne : R.2.1 ≠ st.labels.getD i 0 := by simpa using hmove
      rcases tbest with ⟨_, h2⟩ | ⟨hmem, hval, hpos⟩
      · exact absurd h2 hne
      obtain ⟨e, he, hte⟩ := (nmem R.2.1).mp ((mem_setErase _ _ _).mp hmem).1
      have hbK : R.2.1 < K := by rw [← hte]; exact hinv.bound e.1 (hg.cols i hi e he)
      have hi' : i < st.labels.length := by rw [hinv.len]; exact hi
      have hmw := fun x => moveWeights_getD (g.outW i) (g.inW i) (st.labels.getD i 0) R.2.1
        st.outCl st.inCl K hinv.lenO hinv.lenI hlabel' hbK hne x
      have hlink : ∀ x, link g.n (adj g) (labOf st.labels) i x = rowLink (labOf st.labels) (g.row i) x := by
        intro x
        unfold link adj
        exact (rowLink_eq_link g.n _ _ x (hg.cols i hi)).symm
      have hne' : labOf st.labels i ≠ R.2.1 := fun h => hne h.symm
      have hgain : R.1 = QG g res (st.labels.set i R.2.1) - QG g res st.labels := by
        unfold QG
        rw [labOf_set _ _ _ hi', delta_move g.n (adj g) hg.sym g.outW g.inW res (labOf st.labels) i hi R.2.1 hne',
          hval]
        simp only [joinAt, joinDelta, leaveDelta, two_rat]
        rw [hcw R.2.1, hcw (st.labels.getD i 0), hinv.volI _ hbK, hinv.volO _ hbK, hinv.volI _ hlabel',
          hinv.volO _ hlabel', hg.self i hi, hlink, hlink]
      refine ⟨⟨by simp [hinv.len], ?_, (hmw 0).2.2.1, (hmw 0).2.2.2, hcwl, hcwz, ?_, ?_⟩, ?_, ?_, ?_⟩
      · intro j hj
        rw [labOf_set _ _ _ hi', Function.update_apply]
        split
        · exact hbK
        · exact hinv.bound j hj
      · intro x hx
        rw [(hmw x).1, hinv.volO x hx, labOf_set _ _ _ hi', vol_update _ _ _ _ _ _ hi]
      · intro x hx
        rw [(hmw x).2.1, hinv.volI x hx, labOf_set _ _ _ hi', vol_update _ _ _ _ _ _ hi]
      · rw [← hgain]
        show acc + R.1 - acc = R.1
        ring
      · show acc ≤ acc + R.1
        linarith
      · refine Or.inr ⟨e, he, by rw [hte], by rw [hte]; exact hne, ?_⟩
        show acc < acc + R.1
        linarith
    · -- no strictly positive gain: the node stays
      rename_i hstay
      subst hr
      refine ⟨⟨hinv.len, hinv.bound, hinv.lenO, hinv.lenI, hcwl, hcwz, hinv.volO, hinv.volI⟩, by simp,
        le_refl _, Or.inl rfl⟩

end SkNet.Modularity
