/-
The colours of Weisfeiler–Lehman stay below the number of nodes (property C17), on the model of C02
(`SkNet/Model/WL.lean`).

This is the fact the index kinds cannot see (`powers[labels[j]]` in `weisfeiler_lehman_coloring`: `powers` has `n`
cells, the colours are produced by a counter): the counter starts at 0 and is bumped at most once per sorted node
after the first, so every colour of a round is at most `n - 1`.  The loop itself runs `max_iter ≤ n` rounds at most
(the model recurses on that bound).
-/
import SkNet.Model.WL

namespace SkNet.KWL
open SkNet SkNet.WL

theorem insertT_length (ops : HashOps H) (t : Triple H) (l : List (Triple H)) :
    (insertT ops t l).length = l.length + 1 := by
  induction l with
  | nil => rfl
  | cons x xs ih =>
    simp only [insertT]
    split
    · simp
    · simp [ih]

theorem sortT_length (ops : HashOps H) (l : List (Triple H)) : (sortT ops l).length = l.length := by
  unfold sortT
  induction l with
  | nil => rfl
  | cons x xs ih => simp [List.foldr_cons, insertT_length, ih]

/-- the counter of the second loop grows by at most one per triple -/
theorem assign_bound (ops : HashOps H) :
    ∀ (ts : List (Triple H)) (prev : Triple H) (label : Nat), ∀ p ∈ assign ops prev label ts, p.2 ≤ label + ts.length := by
  intro ts
  induction ts with
  | nil => intro prev label p hp; simp [assign] at hp
  | cons t ts ih =>
    intro prev label p hp
    simp only [assign, List.mem_cons] at hp
    rcases hp with rfl | hp
    · simp only [List.length_cons]
      split <;> omega
    · have := ih _ _ p hp
      simp only [List.length_cons]
      split at this <;> omega

theorem roundAssign_bound (ops : HashOps H) (adj : List (List Nat)) (labels : List Nat) :
    ∀ p ∈ roundAssign ops adj labels, p.2 + 1 ≤ adj.length := by
  intro p hp
  unfold roundAssign at hp
  have hlen : (sortT ops (triples ops adj labels)).length = adj.length := by
    rw [sortT_length]; simp [triples]
  cases hs : sortT ops (triples ops adj labels) with
  | nil => rw [hs] at hp; simp at hp
  | cons t ts =>
    rw [hs] at hp hlen
    simp only [List.length_cons] at hlen
    simp only [List.mem_cons] at hp
    rcases hp with rfl | hp
    · simp only; omega
    · have := assign_bound ops ts t 0 p hp
      omega

theorem lookup_bound (asg : List (Nat × Nat)) (i n : Nat) (hn : 0 < n) (h : ∀ p ∈ asg, p.2 + 1 ≤ n) :
    lookup asg i < n := by
  unfold lookup
  cases hf : asg.find? (fun p => p.1 == i) with
  | none => exact hn
  | some p =>
    have := h p (List.mem_of_find?_eq_some hf)
    simp only
    omega

/-- **every colour produced by a round is a valid index into `powers`** (`n` cells) -/
theorem round_lt (ops : HashOps H) (adj : List (List Nat)) (labels : List Nat) :
    ∀ c ∈ (round ops adj labels).1, c < adj.length := by
  intro c hc
  simp only [round, tab, List.mem_map, List.mem_range] at hc
  obtain ⟨i, hi, rfl⟩ := hc
  exact lookup_bound _ i _ (by omega) (roundAssign_bound ops adj labels)

/-- the kernel keeps the colours below `n`, whatever the number of rounds -/
theorem coloring_lt (ops : HashOps H) (adj : List (List Nat)) :
    ∀ (k : Nat) (labels : List Nat) (ch : Bool), (∀ c ∈ labels, c < adj.length) →
      ∀ c ∈ (coloring ops adj k labels ch).1, c < adj.length := by
  intro k
  induction k with
  | zero => intro labels ch h; simpa [coloring] using h
  | succ k ih =>
    intro labels ch h
    simp only [coloring]
    split
    · exact ih _ _ (round_lt ops adj labels)
    · exact h

/-- `color_weisfeiler_lehman`: all colours `< n` (the start is all zeros, `n ≥ 1`) -/
theorem colorWL_lt (ops : HashOps H) (adj : List (List Nat)) (maxIter : Option Nat) (hn : 0 < adj.length) :
    ∀ c ∈ colorWL ops adj maxIter, c < adj.length := by
  unfold colorWL
  apply coloring_lt
  intro c hc
  simp only [tab, List.mem_map, List.mem_range] at hc
  obtain ⟨_, _, rfl⟩ := hc
  exact hn

end SkNet.KWL
