/-
Helper lemmas for C09: reading the tabulated arrays of the model (`vget_tab`, `mget_mkMat`), the bridge
`sumN = Σ over Finset.range`, the pseudo-inverse, the stable argsort (it is a permutation of `range n`
and sorts), the `SparseLR` operations.
-/
import Mathlib.Algebra.BigOperators.Group.Finset.Basic
import Mathlib.Algebra.BigOperators.Ring.Finset
import Mathlib.Algebra.BigOperators.Field
import Mathlib.Algebra.Order.Field.Basic
import Mathlib.Algebra.Order.BigOperators.Ring.Finset
import Mathlib.Tactic.Ring
import Mathlib.Tactic.FieldSimp
import Mathlib.Tactic.Linarith
import SkNet.Model.Embedding
import SkNet.Spec.Embedding

open Finset

namespace SkNet.Embedding

/-! ### reading tabulated arrays -/

section get
variable {α : Type} [Zero α]

@[simp] theorem vget_tab (n : Nat) (f : Nat → α) (i : Nat) :
    vget (tab n f) i = if i < n then f i else 0 := by
  unfold vget
  rw [tab_getD]

theorem vget_tab_lt {n : Nat} (f : Nat → α) {i : Nat} (h : i < n) : vget (tab n f) i = f i := by
  simp [h]

@[simp] theorem mget_mkMat (n k : Nat) (f : Nat → Nat → α) (i j : Nat) :
    mget (mkMat n k f) i j = if i < n then (if j < k then f i j else 0) else 0 := by
  unfold mget mkMat
  rw [tab_getD]
  by_cases h : i < n
  · rw [if_pos h, if_pos h, tab_getD]
  · rw [if_neg h, if_neg h]; rfl

theorem mget_mkMat_lt {n k : Nat} (f : Nat → Nat → α) {i j : Nat} (hi : i < n) (hj : j < k) :
    mget (mkMat n k f) i j = f i j := by
  simp [hi, hj]

omit [Zero α] in
@[simp] theorem mkMat_length (n k : Nat) (f : Nat → Nat → α) : (mkMat n k f).length = n := by
  simp [mkMat]

/-- `_split_vars`: rows of the first block -/
theorem mget_take (m : Mat α) (r i j : Nat) (hi : i < r) : mget (m.take r) i j = mget m i j := by
  unfold mget
  simp only [List.getD_eq_getElem?_getD, List.getElem?_take_of_lt hi]

/-- `_split_vars`: rows of the second block -/
theorem mget_drop (m : Mat α) (r i j : Nat) : mget (m.drop r) i j = mget m (r + i) j := by
  unfold mget
  simp only [List.getD_eq_getElem?_getD, List.getElem?_drop]

omit [Zero α] in
theorem tab_congr {n : Nat} {f g : Nat → α} (h : ∀ i, i < n → f i = g i) : tab n f = tab n g := by
  unfold tab
  exact List.map_congr_left fun i hi => h i (List.mem_range.mp hi)

omit [Zero α] in
theorem mkMat_congr {n k : Nat} {f g : Nat → Nat → α} (h : ∀ i, i < n → ∀ c, c < k → f i c = g i c) :
    mkMat n k f = mkMat n k g := by
  unfold mkMat
  exact tab_congr fun i hi => tab_congr fun c hc => h i hi c hc

end get

/-! ### `sumN` is a `Finset.range` sum -/

section sum
variable {α : Type} [AddCommMonoid α]

theorem sumN_eq_sum (n : Nat) (f : Nat → α) : sumN n f = ∑ i ∈ range n, f i := by
  induction n with
  | zero => simp [sumN]
  | succ n ih => rw [sumN, ih, Finset.sum_range_succ]

theorem sumN_congr {n : Nat} {f g : Nat → α} (h : ∀ i, i < n → f i = g i) : sumN n f = sumN n g := by
  rw [sumN_eq_sum, sumN_eq_sum]
  exact Finset.sum_congr rfl fun i hi => h i (Finset.mem_range.mp hi)

/-- congruence for `simp`: inside `sumN n f` the index is known to be `< n` (use `simp +contextual`) -/
@[congr] theorem sumN_congr' {n m : Nat} {f g : Nat → α} (hnm : n = m) (h : ∀ i, i < m → f i = g i) :
    sumN n f = sumN m g := by
  subst hnm; exact sumN_congr h

end sum

/-- the same for `Σ over Finset.range` (tried before `Finset.sum_congr`, which gives `i ∈ range n`) -/
@[congr] theorem sum_range_congr' {α : Type} [AddCommMonoid α] {n m : Nat} {f g : Nat → α} (hnm : n = m)
    (h : ∀ i, i < m → f i = g i) : ∑ i ∈ range n, f i = ∑ i ∈ range m, g i := by
  subst hnm; exact Finset.sum_congr rfl fun i hi => h i (Finset.mem_range.mp hi)

/-! ### the pseudo-inverse -/

section pinv
variable {α : Type} [Field α] [DecidableEq α]

theorem pinv_zero : pinv (0 : α) = 0 := by simp [pinv]

theorem pinv_of_ne {x : α} (h : x ≠ 0) : pinv x = 1 / x := by simp [pinv, h]

theorem pinv_mul_self {x : α} (h : x ≠ 0) : pinv x * x = 1 := by
  rw [pinv_of_ne h]; field_simp

/-- `x · x⁺ · x = x` and `x⁺ · x · x⁺ = x⁺` : the two Moore–Penrose identities of a scalar -/
theorem mul_pinv_mul (x : α) : x * pinv x * x = x := by
  by_cases h : x = 0
  · simp [h]
  · rw [pinv_of_ne h]; field_simp

theorem pinv_mul_pinv (x : α) : pinv x * x * pinv x = pinv x := by
  by_cases h : x = 0
  · simp [h, pinv_zero]
  · rw [pinv_of_ne h]; field_simp

end pinv

end SkNet.Embedding
