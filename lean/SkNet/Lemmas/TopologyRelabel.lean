/-
C11 / C02: the specifications of C11 are equivariant under renumbering the nodes. For a permutation `π` of
`{0..n-1}` with inverse `πinv` (`SkNet.WL.IsPerm`), the renumbered graph is `relabel πinv adj i j = adj (πinv i) (πinv j)`.
Clique counts and the number of connected triples are unchanged, core numbers move with the nodes.
-/
import SkNet.Lemmas.TopologyOriented
import SkNet.Lemmas.TopologyCoreSpec
import SkNet.Lemmas.TopologyClustering
import SkNet.Lemmas.WLEquiv

set_option linter.unusedSimpArgs false

namespace SkNet.Topology
open SkNet.WL (IsPerm)

/-- the adjacency predicate of the renumbered graph: new node `π v` is old node `v` -/
def relabel (πinv : Nat → Nat) (adj : Nat → Nat → Bool) (i j : Nat) : Bool := adj (πinv i) (πinv j)

theorem IsPerm.symm {n : Nat} {π πinv : Nat → Nat} (hp : IsPerm n π πinv) : IsPerm n πinv π :=
  ⟨hp.lt_inv, hp.lt, hp.right, hp.left⟩

theorem relabel_symm (πinv : Nat → Nat) (adj : Nat → Nat → Bool) (hsym : ∀ a b, adj a b = adj b a) :
    ∀ a b, relabel πinv adj a b = relabel πinv adj b a := fun _ _ => hsym _ _

/-! ### cliques -/

theorem choose_map (g : Nat → Nat) : ∀ (k : Nat) (l : List Nat), choose k (l.map g) = (choose k l).map (List.map g) := by
  intro k l
  induction l generalizing k with
  | nil => cases k <;> simp [choose]
  | cons x xs ih =>
    cases k with
    | zero => simp [choose_zero]
    | succ k =>
      rw [List.map_cons, choose, choose, ih k, ih (k+1), List.map_append, List.map_map, List.map_map]
      rfl

theorem isClique_map (g : Nat → Nat) (adj : Nat → Nat → Bool) (s : List Nat) :
    isClique adj (s.map g) = isClique (relabel g adj) s := by
  induction s with
  | nil => rfl
  | cons x xs ih =>
    rw [List.map_cons, isClique, isClique, ih, List.all_map]
    rfl

theorem cliqueCountOn_relabel (g : Nat → Nat) (adj : Nat → Nat → Bool) (k : Nat) (l : List Nat) :
    cliqueCountOn (relabel g adj) k l = cliqueCountOn adj k (l.map g) := by
  unfold cliqueCountOn
  rw [choose_map, List.filter_map, List.length_map]
  congr 1
  apply List.filter_congr
  intro s _
  exact (isClique_map g adj s).symm

/-- the number of `k`-cliques does not change under renumbering -/
theorem cliqueCount_relabel {n : Nat} {π πinv : Nat → Nat} (hp : IsPerm n π πinv) (adj : Nat → Nat → Bool)
    (hsym : ∀ a b, adj a b = adj b a) (k : Nat) :
    cliqueCount n (relabel πinv adj) k = cliqueCount n adj k := by
  unfold cliqueCount
  rw [cliqueCountOn_relabel]
  exact cliqueCountOn_perm adj hsym k (SkNet.WL.map_perm_range (IsPerm.symm hp))

/-! ### degrees -/

theorem filter_length_map_perm {n : Nat} {π πinv : Nat → Nat} (hp : IsPerm n π πinv) (p : Nat → Bool) :
    ((List.range n).filter fun u => p (πinv u)).length = ((List.range n).filter p).length := by
  have h1 : ((List.range n).filter fun u => p (πinv u)).length = (((List.range n).map πinv).filter p).length := by
    rw [List.filter_map, List.length_map]; rfl
  rw [h1]
  exact ((SkNet.WL.map_perm_range (IsPerm.symm hp)).filter p).length_eq

/-- the degree inside a set moves with the node and the set -/
theorem degIn_relabel {n : Nat} {π πinv : Nat → Nat} (hp : IsPerm n π πinv) (adj : Nat → Nat → Bool)
    (S : Nat → Bool) (w : Nat) (hw : w < n) :
    degIn n (relabel πinv adj) (fun u => decide (u < n) && S (πinv u)) (π w) = degIn n adj S w := by
  unfold degIn relabel
  rw [hp.left w hw]
  rw [← filter_length_map_perm hp (fun u => S u && adj w u)]
  congr 1
  apply List.filter_congr
  intro u hu
  simp [List.mem_range.1 hu]

theorem nbrs_length_relabel {n : Nat} {π πinv : Nat → Nat} (hp : IsPerm n π πinv) (adj : Nat → Nat → Bool)
    (w : Nat) (hw : w < n) : (nbrs n (relabel πinv adj) (π w)).length = (nbrs n adj w).length := by
  unfold nbrs relabel
  rw [hp.left w hw]
  exact filter_length_map_perm hp (adj w)

/-! ### cores -/

theorem inCore_lt {n : Nat} {adj : Nat → Nat → Bool} {k v : Nat} (h : InCore n adj k v) : v < n := by
  obtain ⟨S, h1, h2⟩ := h
  exact (h2 v h1).1

theorem inCore_congr (n : Nat) (adj adj' : Nat → Nat → Bool) (hag : ∀ a b, a < n → b < n → adj a b = adj' a b)
    (k v : Nat) (h : InCore n adj k v) : InCore n adj' k v := by
  obtain ⟨S, h1, h2⟩ := h
  refine ⟨S, h1, fun u hu => ⟨(h2 u hu).1, ?_⟩⟩
  have : degIn n adj' S u = degIn n adj S u := by
    unfold degIn
    congr 1
    apply List.filter_congr
    intro x hx
    rw [hag u x (h2 u hu).1 (List.mem_range.1 hx)]
  rw [this]; exact (h2 u hu).2

theorem inCore_relabel_fwd {n : Nat} {π πinv : Nat → Nat} (hp : IsPerm n π πinv) (adj : Nat → Nat → Bool)
    (k v : Nat) (h : InCore n adj k v) : InCore n (relabel πinv adj) k (π v) := by
  have hv := inCore_lt h
  obtain ⟨S, h1, h2⟩ := h
  refine ⟨fun u => decide (u < n) && S (πinv u), ?_, ?_⟩
  · simp [hp.lt v hv, hp.left v hv, h1]
  · intro u hu
    simp only [Bool.and_eq_true, decide_eq_true_eq] at hu
    refine ⟨hu.1, ?_⟩
    have hw := (h2 (πinv u) hu.2)
    have := degIn_relabel hp adj S (πinv u) hw.1
    rw [hp.right u hu.1] at this
    rw [this]; exact hw.2

/-- membership in the `k`-core moves with the node -/
theorem inCore_relabel {n : Nat} {π πinv : Nat → Nat} (hp : IsPerm n π πinv) (adj : Nat → Nat → Bool)
    (k v : Nat) (hv : v < n) : InCore n (relabel πinv adj) k (π v) ↔ InCore n adj k v := by
  constructor
  · intro h
    have h2 := inCore_relabel_fwd (IsPerm.symm hp) (relabel πinv adj) k (π v) h
    rw [hp.left v hv] at h2
    apply inCore_congr n _ adj _ k v h2
    intro a b ha hb
    show adj (πinv (π a)) (πinv (π b)) = adj a b
    rw [hp.left a ha, hp.left b hb]
  · exact inCore_relabel_fwd hp adj k v

theorem isCoreNumber_relabel {n : Nat} {π πinv : Nat → Nat} (hp : IsPerm n π πinv) (adj : Nat → Nat → Bool)
    (v c : Nat) (hv : v < n) : IsCoreNumber n (relabel πinv adj) (π v) c ↔ IsCoreNumber n adj v c := by
  unfold IsCoreNumber
  rw [inCore_relabel hp adj c v hv, inCore_relabel hp adj (c+1) v hv]

/-- the executable core number moves with the node -/
theorem coreNumberSpec_relabel {n : Nat} {π πinv : Nat → Nat} (hp : IsPerm n π πinv) (adj : Nat → Nat → Bool)
    (v : Nat) (hv : v < n) : coreNumberSpec n (relabel πinv adj) (π v) = coreNumberSpec n adj v := by
  apply isCoreNumber_unique n adj v
  · exact (isCoreNumber_relabel hp adj v _ hv).1 (coreNumberSpec_isCoreNumber n _ (π v) (hp.lt v hv))
  · exact coreNumberSpec_isCoreNumber n adj v hv

/-! ### connected triples -/

theorem choose_two_length_congr (l l' : List Nat) (h : l.length = l'.length) :
    (choose 2 l).length = (choose 2 l').length := by
  have h1 := choose_two_length l
  have h2 := choose_two_length l'
  rw [h] at h1
  omega

theorem tripleCount_relabel {n : Nat} {π πinv : Nat → Nat} (hp : IsPerm n π πinv) (adj : Nat → Nat → Bool) :
    tripleCount n (relabel πinv adj) = tripleCount n adj := by
  unfold tripleCount
  rw [foldl_add_sum, foldl_add_sum]
  congr 1
  have := SkNet.WL.tab_perm_of_perm hp (fun v => (choose 2 (nbrs n adj v)).length)
    (fun v => (choose 2 (nbrs n (relabel πinv adj) v)).length)
    (fun u hu => choose_two_length_congr _ _ (nbrs_length_relabel hp adj u hu))
  exact this.sum_nat

theorem clusteringSpec_relabel {n : Nat} {π πinv : Nat → Nat} (hp : IsPerm n π πinv) (adj : Nat → Nat → Bool)
    (hsym : ∀ a b, adj a b = adj b a) : clusteringSpec n (relabel πinv adj) = clusteringSpec n adj := by
  unfold clusteringSpec
  rw [tripleCount_relabel hp adj, cliqueCount_relabel hp adj hsym 3]

end SkNet.Topology
