/-
RankClassifier.fit after the scores (model `SkNet.Classify.Rank`): labels are seed labels, the normalised score rows
are probability rows, the re-indexed rows are non-negative.
-/
import SkNet.Lemmas.ClassifyDiffusionFit

namespace SkNet.Classify.Rank
open SkNet.Classify

attribute [-simp] List.getD_eq_getElem?_getD

structure Parts (values : List Int) (scores : List (List Rat)) (o : Out) : Prop where
  classes : 2 ≤ (uniqueLabels values).length
  labels_eq : o.labels = (scores.map normalizeRow).map fun r => (uniqueLabels values).getD (argmax r) (-1)
  probs_eq : o.probs = (scores.map normalizeRow).map fun r =>
    tab ((values.foldl max 0) + 1).toNat fun q =>
      match (uniqueLabels values).findIdx? (· == (q : Int)) with
      | some k => r.getD k 0
      | none => 0

theorem fit_parts (values : List Int) (scores : List (List Rat)) (o : Out)
    (h : fitCore values scores = .ok o) : Parts values scores o := by
  unfold fitCore at h
  by_cases h2 : (uniqueLabels values).length < 2
  · simp [h2] at h
  · simp only [h2, if_false, Except.ok.injEq] at h
    subst h
    exact ⟨by omega, rfl, rfl⟩

/-- ★ every predicted label is one of the seed labels (never `-1`) -/
theorem labels_in_seed_set (values : List Int) (scores : List (List Rat)) (o : Out)
    (h : fitCore values scores = .ok o)
    (hlen : ∀ r ∈ scores, r.length = (uniqueLabels values).length) :
    ∀ x ∈ o.labels, x ∈ values ∧ 0 ≤ x := by
  have hp := fit_parts values scores o h
  intro x hx
  rw [hp.labels_eq] at hx
  simp only [List.map_map, List.mem_map, Function.comp] at hx
  obtain ⟨r, hr, rfl⟩ := hx
  have hl : (normalizeRow r).length = (uniqueLabels values).length := by
    rw [normalizeRow_length, hlen r hr]
  have hne : normalizeRow r ≠ [] := by
    intro h0
    rw [h0] at hl
    have := hp.classes
    simp at hl
    omega
  have hlt := (argmax_spec _ hne).1
  rw [hl] at hlt
  have hm : (uniqueLabels values).getD (argmax (normalizeRow r)) (-1) ∈ uniqueLabels values := by
    rw [List.getD_eq_getElem?_getD, List.getElem?_eq_getElem hlt]
    exact List.getElem_mem hlt
  exact mem_uniqueLabels.mp hm

/-- the normalised score rows are probability rows when the scores are non-negative -/
theorem normalised_rows_ok (scores : List (List Rat)) (hnn : ∀ r ∈ scores, ∀ x ∈ r, 0 ≤ x) :
    ∀ r ∈ scores.map normalizeRow, Spec.rowOK 0 r = true := by
  intro r hr
  obtain ⟨r0, hr0, rfl⟩ := List.mem_map.mp hr
  exact normalizeRow_rowOK (hnn r0 hr0)

/-- the rows of `probs_` (columns moved to the label values) are non-negative -/
theorem probs_nonneg (values : List Int) (scores : List (List Rat)) (o : Out)
    (h : fitCore values scores = .ok o) (hnn : ∀ r ∈ scores, ∀ x ∈ r, 0 ≤ x) :
    ∀ row ∈ o.probs, ∀ x ∈ row, 0 ≤ x := by
  have hp := fit_parts values scores o h
  intro row hrow x hx
  rw [hp.probs_eq] at hrow
  simp only [List.map_map, List.mem_map, Function.comp] at hrow
  obtain ⟨r, hr, rfl⟩ := hrow
  obtain ⟨q, _, rfl⟩ := (mem_tab _ _ _).mp hx
  have hnr := normalizeRow_nonneg (hnn r hr)
  split
  · rename_i k _
    by_cases hk : k < (normalizeRow r).length
    · rw [List.getD_eq_getElem?_getD, List.getElem?_eq_getElem hk]
      exact hnr _ (List.getElem_mem hk)
    · rw [List.getD_eq_getElem?_getD, List.getElem?_eq_none (by omega)]
      exact le_refl 0
  · exact le_refl 0

end SkNet.Classify.Rank
