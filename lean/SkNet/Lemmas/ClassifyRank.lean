/-
RankClassifier.fit after the scores (model `SkNet.Classify.Rank`): labels are seed labels, the normalised score rows
are probability rows, the re-indexed rows are non-negative.
-/
import SkNet.Lemmas.ClassifyDiffusionFit

namespace SkNet.Classify.Knn

theorem foldl_max_ge' (l : List Int) (m : Int) : m ≤ l.foldl max m ∧ ∀ x ∈ l, x ≤ l.foldl max m := by
  induction l generalizing m with
  | nil => simp
  | cons y ys ih =>
    simp only [List.foldl_cons]
    obtain ⟨h1, h2⟩ := ih (max m y)
    refine ⟨by omega, ?_⟩
    intro x hx
    rcases List.mem_cons.mp hx with rfl | hx
    · omega
    · exact h2 x hx

end SkNet.Classify.Knn

namespace SkNet.Classify.Rank
open SkNet.Classify

attribute [-simp] List.getD_eq_getElem?_getD

structure Parts (values : List Int) (scores : List (List Rat)) (o : Out) : Prop where
  classes : 2 ≤ (uniqueLabels values).length
  labels_eq : o.labels = (scores.map normalizeRow).map fun r => (uniqueLabels values).getD (argmax r) (-1)
  probs_eq : o.probs = (scores.map normalizeRow).map fun r =>
    tab ((values.foldl max 0) + 1).toNat fun q =>
      match (uniqueLabels values).findIdx? (· == (q : Int)) with
      | some k => r.getD k 0
      | none => 0

theorem fit_parts (values : List Int) (scores : List (List Rat)) (o : Out)
    (h : fitCore values scores = .ok o) : Parts values scores o := by
  unfold fitCore at h
  by_cases h2 : (uniqueLabels values).length < 2
  · simp [h2] at h
  · simp only [h2, if_false, Except.ok.injEq] at h
    subst h
    exact ⟨by omega, rfl, rfl⟩

/-- ★ every predicted label is one of the seed labels (never `-1`) -/
theorem labels_in_seed_set (values : List Int) (scores : List (List Rat)) (o : Out)
    (h : fitCore values scores = .ok o)
    (hlen : ∀ r ∈ scores, r.length = (uniqueLabels values).length) :
    ∀ x ∈ o.labels, x ∈ values ∧ 0 ≤ x := by
  have hp := fit_parts values scores o h
  intro x hx
  rw [hp.labels_eq] at hx
  simp only [List.map_map, List.mem_map, Function.comp] at hx
  obtain ⟨r, hr, rfl⟩ := hx
  have hl : (normalizeRow r).length = (uniqueLabels values).length := by
    rw [normalizeRow_length, hlen r hr]
  have hne : normalizeRow r ≠ [] := by
    intro h0
    rw [h0] at hl
    have := hp.classes
    simp at hl
    omega
  have hlt := (argmax_spec _ hne).1
  rw [hl] at hlt
  have hm : (uniqueLabels values).getD (argmax (normalizeRow r)) (-1) ∈ uniqueLabels values := by
    rw [List.getD_eq_getElem?_getD, List.getElem?_eq_getElem hlt]
    exact List.getElem_mem hlt
  exact mem_uniqueLabels.mp hm

/-- the normalised score rows are probability rows when the scores are non-negative -/
theorem normalised_rows_ok (scores : List (List Rat)) (hnn : ∀ r ∈ scores, ∀ x ∈ r, 0 ≤ x) :
    ∀ r ∈ scores.map normalizeRow, Spec.rowOK 0 r = true := by
  intro r hr
  obtain ⟨r0, hr0, rfl⟩ := List.mem_map.mp hr
  exact normalizeRow_rowOK (hnn r0 hr0)

/-- the rows of `probs_` (columns moved to the label values) are non-negative -/
theorem probs_nonneg (values : List Int) (scores : List (List Rat)) (o : Out)
    (h : fitCore values scores = .ok o) (hnn : ∀ r ∈ scores, ∀ x ∈ r, 0 ≤ x) :
    ∀ row ∈ o.probs, ∀ x ∈ row, 0 ≤ x := by
  have hp := fit_parts values scores o h
  intro row hrow x hx
  rw [hp.probs_eq] at hrow
  simp only [List.map_map, List.mem_map, Function.comp] at hrow
  obtain ⟨r, hr, rfl⟩ := hrow
  obtain ⟨q, _, rfl⟩ := (mem_tab _ _ _).mp hx
  have hnr := normalizeRow_nonneg (hnn r hr)
  split
  · rename_i k _
    by_cases hk : k < (normalizeRow r).length
    · rw [List.getD_eq_getElem?_getD, List.getElem?_eq_getElem hk]
      exact hnr _ (List.getElem_mem hk)
    · rw [List.getD_eq_getElem?_getD, List.getElem?_eq_none (by omega)]
      exact le_refl 0
  · exact le_refl 0

/-! ### moving the columns to the label values keeps the row sum -/

theorem rsum_append' (a b : List Rat) : rsum (a ++ b) = rsum a + rsum b := by
  induction a with
  | nil => simp
  | cons x xs ih => simp only [List.cons_append, rsum_cons, ih]; ring

theorem rsum_tab_succ (n : Nat) (f : Nat → Rat) : rsum (tab (n+1) f) = rsum (tab n f) + f n := by
  unfold tab
  rw [List.range_succ, List.map_append, rsum_append']
  simp

theorem rsum_tab_congr (n : Nat) (f g : Nat → Rat) (h : ∀ q, q < n → f q = g q) : rsum (tab n f) = rsum (tab n g) := by
  unfold tab
  rw [List.map_congr_left (fun q hq => h q (List.mem_range.mp hq))]

/-- replacing the value at one position `a` (where `h` vanishes) adds it to the sum -/
theorem rsum_tab_update (n a : Nat) (x : Rat) (h : Nat → Rat) (ha : a < n) (h0 : h a = 0) :
    rsum (tab n fun q => if q = a then x else h q) = x + rsum (tab n h) := by
  induction n with
  | zero => omega
  | succ m ih =>
    rw [rsum_tab_succ, rsum_tab_succ]
    by_cases hm : a = m
    · subst hm
      have : rsum (tab a fun q => if q = a then x else h q) = rsum (tab a h) := by
        apply rsum_tab_congr
        intro q hq
        rw [if_neg (by omega)]
      rw [this, if_pos rfl, h0]
      ring
    · rw [ih (by omega), if_neg (fun h' => hm h'.symm)]
      ring

theorem rsum_shift (m : Nat) (f : Nat → Rat) : rsum (tab (m+1) f) = f 0 + rsum (tab m fun k => f (k+1)) := by
  induction m with
  | zero => simp [tab]
  | succ m ih =>
    rw [rsum_tab_succ, ih, rsum_tab_succ]
    ring

/-- summing, over the columns `q < n`, the value attached to the position of `q` in a duplicate-free list of
    column numbers gives the sum over the positions -/
theorem rsum_reindex (us : List Int) (n : Nat) (f : Nat → Rat) (hnd : us.Nodup)
    (hr : ∀ u ∈ us, 0 ≤ u ∧ u.toNat < n) :
    rsum (tab n fun q => match us.findIdx? (· == (q : Int)) with | some k => f k | none => 0) =
      rsum (tab us.length f) := by
  induction us generalizing f with
  | nil => 
    simp only [List.findIdx?_nil, List.length_nil]
    have : rsum (tab n fun _ => (0 : Rat)) = 0 := by
      unfold tab
      exact Diffusion.rsum_map_zero _
    rw [this]
    rfl
  | cons u us ih =>
    have hnd' := List.nodup_cons.mp hnd
    obtain ⟨hu0, hun⟩ := hr u (List.mem_cons_self ..)
    have hstep : ∀ q : Nat, (match (u :: us).findIdx? (· == (q : Int)) with | some k => f k | none => 0) =
        (if q = u.toNat then f 0 else
          (match us.findIdx? (· == (q : Int)) with | some k => f (k+1) | none => 0)) := by
      intro q
      rw [List.findIdx?_cons]
      by_cases hq : u = (q : Int)
      · subst hq
        simp
      · have hb : ¬ ((u == (q : Int)) = true) := by simpa using hq
        have hne : ¬ q = u.toNat := by omega
        rw [if_neg hb, if_neg hne]
        cases us.findIdx? (· == (q : Int)) <;> rfl
    rw [rsum_tab_congr n _ _ (fun q _ => hstep q)]
    rw [rsum_tab_update n u.toNat (f 0) _ hun]
    · rw [ih (fun k => f (k+1)) hnd'.2 (fun v hv => hr v (List.mem_cons_of_mem _ hv))]
      simp only [List.length_cons]
      rw [rsum_shift]
    · -- u is not in us: no position
      have : us.findIdx? (· == ((u.toNat : Nat) : Int)) = none := by
        rw [List.findIdx?_eq_none_iff]
        intro x hx
        have hxu : x ≠ u := fun h => hnd'.1 (h ▸ hx)
        have : x ≠ ((u.toNat : Nat) : Int) := by omega
        simpa using this
      rw [this]

theorem rsum_eq_tab_getD (r : List Rat) : rsum (tab r.length fun k => r.getD k 0) = rsum r := by
  congr 1
  apply List.ext_getElem?
  intro i
  rw [tab_getElem?]
  by_cases h : i < r.length
  · rw [if_pos h, List.getD_eq_getElem?_getD, List.getElem?_eq_getElem h]
    rfl
  · rw [if_neg h, List.getElem?_eq_none (by omega)]

/-- ★ the rows of `probs_` are probability rows -/
theorem probs_rows_ok (values : List Int) (scores : List (List Rat)) (o : Out)
    (h : fitCore values scores = .ok o) (hnn : ∀ r ∈ scores, ∀ x ∈ r, 0 ≤ x)
    (hlen : ∀ r ∈ scores, r.length = (uniqueLabels values).length) :
    ∀ row ∈ o.probs, Spec.rowOK 0 row = true := by
  have hp := fit_parts values scores o h
  intro row hrow
  have hnonneg := probs_nonneg values scores o h hnn row hrow
  rw [hp.probs_eq] at hrow
  simp only [List.map_map, List.mem_map, Function.comp] at hrow
  obtain ⟨r, hr, rfl⟩ := hrow
  have hsum : rsum (tab ((values.foldl max 0) + 1).toNat fun q =>
      match (uniqueLabels values).findIdx? (· == (q : Int)) with
      | some k => (normalizeRow r).getD k 0
      | none => 0) = rsum (normalizeRow r) := by
    rw [rsum_reindex (uniqueLabels values) _ (fun k => (normalizeRow r).getD k 0) (uniqueLabels_nodup values)]
    · rw [← hlen r hr, ← normalizeRow_length r]
      exact rsum_eq_tab_getD _
    · intro u hu
      obtain ⟨hm, h0⟩ := mem_uniqueLabels.mp hu
      have := (Knn.foldl_max_ge' values 0).2 u hm
      exact ⟨h0, by omega⟩
  unfold Spec.rowOK
  simp only [Bool.and_eq_true, List.all_eq_true, decide_eq_true_eq, Bool.or_eq_true]
  refine ⟨hnonneg, ?_⟩
  rw [hsum]
  rcases normalizeRow_sum (hnn r hr) with h1 | h1
  · left
    rw [h1]
    simp [rabs_zero]
  · right
    rw [h1, rabs_zero]

/-- a normalised row with its columns moved to the label values -/
def movedRow (values : List Int) (r : List Rat) : List Rat :=
  tab ((values.foldl max 0) + 1).toNat fun q =>
    match (uniqueLabels values).findIdx? (· == (q : Int)) with
    | some k => r.getD k 0
    | none => 0

theorem probs_eq_moved (values : List Int) (scores : List (List Rat)) (o : Out)
    (h : fitCore values scores = .ok o) : o.probs = (scores.map normalizeRow).map (movedRow values) :=
  (fit_parts values scores o h).probs_eq

theorem rsum_movedRow (values : List Int) (r : List Rat) (hlen : r.length = (uniqueLabels values).length) :
    rsum (movedRow values r) = rsum r := by
  unfold movedRow
  rw [rsum_reindex (uniqueLabels values) _ (fun k => r.getD k 0) (uniqueLabels_nodup values)]
  · rw [← hlen]
    exact rsum_eq_tab_getD _
  · intro u hu
    obtain ⟨hm, h0⟩ := mem_uniqueLabels.mp hu
    have := (Knn.foldl_max_ge' values 0).2 u hm
    exact ⟨h0, by omega⟩

end SkNet.Classify.Rank
