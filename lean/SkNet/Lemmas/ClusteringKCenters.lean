/-
KCenters: the mask bookkeeping of `_init_centers` yields distinct admissible centres; the end of `fit` reports
them consistently (C05).
-/
import SkNet.Lemmas.ClusteringReindex
import Mathlib.Data.List.Induction

namespace SkNet.Clustering

/-! ### counting the admissible positions -/

/-- positions where the mask is set: `nodes[mask]` -/
def candidates (mask : List Bool) : List Nat := (List.range mask.length).filter fun i => mask.getD i false

theorem candidates_length (mask : List Bool) : (candidates mask).length = (mask.filter id).length := by
  unfold candidates
  induction mask using List.reverseRecOn with
  | nil => rfl
  | append_singleton m b ih =>
    rw [List.length_append, List.length_singleton, List.range_succ, List.filter_append, List.filter_append,
      List.length_append, List.length_append]
    congr 1
    · rw [← ih]
      congr 1
      apply List.filter_congr
      intro i hi
      have := List.mem_range.mp hi
      simp [List.getD_eq_getElem?_getD, List.getElem?_append_left this]
    · cases b <;> simp [List.getD_eq_getElem?_getD]

theorem candidates_nodup (mask : List Bool) : (candidates mask).Nodup :=
  List.nodup_range.filter _

theorem mem_candidates {mask : List Bool} {i : Nat} : i ∈ candidates mask ↔ mask.getD i false = true := by
  unfold candidates
  rw [List.mem_filter, List.mem_range]
  constructor
  · exact fun h => h.2
  · intro h
    refine ⟨?_, h⟩
    by_contra hlt
    rw [List.getD_eq_getElem?_getD, List.getElem?_eq_none (Nat.le_of_not_lt hlt)] at h
    simp at h

/-! ### `_init_centers` -/

/-- contract of `np.random.choice`: an element of the (non-empty) array it is given -/
def ChoiceOK (choose : Nat → List Nat → Nat) : Prop := ∀ t cand, cand ≠ [] → choose t cand ∈ cand

def initStep (choose : Nat → List Nat → Nat) (st : List Bool × List Nat) (t : Nat) : List Bool × List Nat :=
  let cand := (List.range st.1.length).filter fun i => st.1.getD i false
  let c := choose t cand
  (st.1.set c false, st.2 ++ [c])

theorem initCenters_eq (choose : Nat → List Nat → Nat) (mask : List Bool) (n : Nat) :
    initCenters choose mask n = ((List.range n).foldl (initStep choose) (mask, [])).2 := rfl

/-- state of the loop: the current mask is the initial mask minus the chosen centres -/
structure InitInv (mask : List Bool) (t : Nat) (st : List Bool × List Nat) : Prop where
  len : st.1.length = mask.length
  cur : ∀ i, st.1.getD i false = (mask.getD i false && !st.2.contains i)
  cnt : st.2.length = t
  nodup : st.2.Nodup
  adm : ∀ c ∈ st.2, mask.getD c false = true

theorem exists_candidate {mask : List Bool} {cs : List Nat} (hnd : cs.Nodup)
    (hadm : ∀ c ∈ cs, mask.getD c false = true) (hlt : cs.length < (mask.filter id).length) :
    ∃ x, mask.getD x false = true ∧ x ∉ cs := by
  by_contra hno
  have hsub : candidates mask ⊆ cs := by
    intro x hx
    by_contra hx'
    exact hno ⟨x, mem_candidates.mp hx, hx'⟩
  have := (List.subperm_of_subset (candidates_nodup mask) hsub).length_le
  rw [candidates_length] at this
  omega

theorem initStep_inv {choose : Nat → List Nat → Nat} (hch : ChoiceOK choose) {mask : List Bool} {t : Nat}
    {st : List Bool × List Nat} (h : InitInv mask t st) (hlt : t < (mask.filter id).length) :
    InitInv mask (t + 1) (initStep choose st t) := by
  -- the candidate list is not empty
  obtain ⟨x, hx1, hx2⟩ := exists_candidate h.nodup h.adm (h.cnt ▸ hlt)
  have hcand : ((List.range st.1.length).filter fun i => st.1.getD i false) ≠ [] := by
    have : x ∈ (List.range st.1.length).filter fun i => st.1.getD i false := by
      have hxc : st.1.getD x false = true := by rw [h.cur, hx1]; simpa using hx2
      exact mem_candidates.mpr hxc
    exact List.ne_nil_of_mem this
  have hc := hch t _ hcand
  set c := choose t ((List.range st.1.length).filter fun i => st.1.getD i false) with hcdef
  have hcm : st.1.getD c false = true := mem_candidates.mp hc
  rw [h.cur] at hcm
  have hc1 : mask.getD c false = true := by
    revert hcm; cases mask.getD c false <;> simp
  have hc2 : c ∉ st.2 := by
    intro hin
    have : st.2.contains c = true := by simpa using hin
    rw [this] at hcm; simp at hcm
  refine ⟨by simp [initStep, h.len], ?_, by simp [initStep, h.cnt], ?_, ?_⟩
  · intro i
    show (st.1.set c false).getD i false = (mask.getD i false && !(st.2 ++ [c]).contains i)
    by_cases hic : i = c
    · rw [hic]
      have : (st.1.set c false).getD c false = false := by
        simp only [List.getD_eq_getElem?_getD, List.getElem?_set_self']
        cases st.1[c]? <;> simp
      rw [this]; simp
    · have : (st.1.set c false).getD i false = st.1.getD i false := by
        simp [List.getD_eq_getElem?_getD, List.getElem?_set_ne (Ne.symm hic)]
      rw [this, h.cur]
      have : (st.2 ++ [c]).contains i = st.2.contains i := by
        simp [hic]
      rw [this]
  · show (st.2 ++ [c]).Nodup
    rw [List.nodup_append]
    refine ⟨h.nodup, by simp, ?_⟩
    intro a ha b hb
    simp at hb; subst hb
    intro hab; subst hab; exact hc2 ha
  · intro a ha
    have : a ∈ st.2 ++ [c] := ha
    rcases List.mem_append.mp this with h1 | h1
    · exact h.adm a h1
    · simp at h1; subst h1; exact hc1

theorem foldl_initStep_inv {choose : Nat → List Nat → Nat} (hch : ChoiceOK choose) {mask : List Bool} :
    ∀ n, n ≤ (mask.filter id).length → InitInv mask n ((List.range n).foldl (initStep choose) (mask, [])) := by
  intro n
  induction n with
  | zero => intro _; exact ⟨rfl, by simp, rfl, List.nodup_nil, by simp⟩
  | succ n ih =>
    intro hn
    rw [List.range_succ, List.foldl_append]
    exact initStep_inv hch (ih (by omega)) (by omega)

/-- ★ `_init_centers` returns `n_clusters` distinct centres inside the admissible mask, whatever the random
    choices and the PageRank scores are, provided `n_clusters <= sum(mask)` (checked by `fit`) -/
theorem initCenters_spec {choose : Nat → List Nat → Nat} (hch : ChoiceOK choose) {mask : List Bool} {n : Nat}
    (hn : n ≤ (mask.filter id).length) :
    (initCenters choose mask n).length = n ∧ (initCenters choose mask n).Nodup ∧
    ∀ c ∈ initCenters choose mask n, mask.getD c false = true := by
  have := foldl_initStep_inv hch n hn
  rw [initCenters_eq]
  exact ⟨this.cnt, this.nodup, this.adm⟩

/-! ### the masks of `_compute_mask_centers` -/

theorem maskCenters_admissible {bipartite : Bool} {nRow nCol : Nat} {pos : CenterPos} {mask : List Bool}
    (h : maskCenters bipartite nRow nCol pos = .ok mask) (c : Nat) :
    mask.getD c false = true ↔ Admissible bipartite nRow nCol pos c := by
  unfold maskCenters at h
  unfold Admissible
  cases bipartite with
  | false =>
    simp only [Bool.false_eq_true, if_false] at h ⊢
    cases h
    rw [tab_getD]; by_cases hc : c < nRow <;> simp [hc]
  | true =>
    simp only [if_true] at h ⊢
    cases pos with
    | row => cases h; rw [tab_getD]; by_cases hc : c < nRow + nCol <;> simp [hc] <;> omega
    | col => cases h; rw [tab_getD]; by_cases hc : c < nRow + nCol <;> simp [hc] <;> omega
    | both => cases h; rw [tab_getD]; by_cases hc : c < nRow + nCol <;> simp [hc]
    | other => cases h

/-! ### the end of `KCenters.fit` -/

def allLabelsK (k : KFitted) : List Nat :=
  match k.labelsRow, k.labelsCol with
  | some r, some c => r ++ c
  | _, _ => k.labels

/-- ★ `KCenters.fit` around PageRank: if it does not refuse its arguments, then — for any random choices, any
    assignment that gives every node of the (block) adjacency one of the labels `0..n_clusters-1`, and any
    selected restart — the labels are below `n_clusters`, the centres are `n_clusters` distinct admissible nodes
    and `centers_row_` / `centers_col_` split them by side. -/
theorem kcentersFit_spec {nClusters nInit : Int} {bipartite : Bool} {nRow nCol : Nat} {pos : CenterPos}
    {runs : List (List Nat × List Nat)} {idxMax : Nat} {k : KFitted}
    (h : kcentersFit nClusters nInit bipartite nRow nCol pos runs idxMax = .ok k)
    (hruns : ∀ mask, maskCenters bipartite nRow nCol pos = .ok mask → ∀ r ∈ runs,
      (∃ choose, ChoiceOK choose ∧ r.1 = initCenters choose mask nClusters.toNat) ∧
      r.2.length = (if bipartite then nRow + nCol else nRow) ∧ ∀ l ∈ r.2, l < nClusters.toNat) :
    KCentersOK bipartite nRow nCol pos nClusters.toNat (allLabelsK k) k.centers ∧
    (bipartite = true → CentersSplitOK nRow pos k.centers k.centersRow k.centersCol) := by
  unfold kcentersFit at h
  simp only [bind, Except.bind, pure, Except.pure] at h
  split at h
  · cases h
  split at h
  · cases h
  cases hmask : maskCenters bipartite nRow nCol pos with
  | error e => rw [hmask] at h; cases h
  | ok mask =>
    rw [hmask] at h
    simp only at h
    split at h
    · cases h
    rename_i hle
    cases hrun : runs[idxMax]? with
    | none => rw [hrun] at h; cases h
    | some r =>
      rw [hrun] at h
      obtain ⟨centers, labels⟩ := r
      simp only at h
      obtain ⟨⟨choose, hch, hcs⟩, hlen, hlab⟩ := hruns mask hmask (centers, labels) (List.mem_of_getElem? hrun)
      simp only at hcs hlen hlab
      have hn : nClusters.toNat ≤ (mask.filter id).length := by
        have : ¬ (nClusters > ((mask.filter id).length : Int)) := hle
        omega
      obtain ⟨hc1, hc2, hc3⟩ := initCenters_spec hch hn
      rw [← hcs] at hc1 hc2 hc3
      have hadm : ∀ c ∈ centers, Admissible bipartite nRow nCol pos c :=
        fun c hc => (maskCenters_admissible hmask c).mp (hc3 c hc)
      cases bipartite with
      | false =>
        simp only [Bool.not_false, if_true] at h
        cases h
        exact ⟨⟨hlen, hlab, hc1, hc2, hadm⟩, by simp⟩
      | true =>
        simp only [Bool.not_true, Bool.false_eq_true, if_false] at h hlen
        have hall : ∀ (cr : Option (List Nat)) (cc : Option (List Int)),
            allLabelsK ⟨(splitVars true nRow labels).labels, (splitVars true nRow labels).labelsRow,
              (splitVars true nRow labels).labelsCol, centers, cr, cc⟩ = labels := by
          intro cr cc; simp [allLabelsK, splitVars]
        cases pos with
        | row =>
          cases h
          exact ⟨⟨by rw [hall]; simpa using hlen, by rw [hall]; exact hlab, hc1, hc2, hadm⟩,
            fun _ => ⟨rfl, rfl⟩⟩
        | col =>
          cases h
          exact ⟨⟨by rw [hall]; simpa using hlen, by rw [hall]; exact hlab, hc1, hc2, hadm⟩,
            fun _ => ⟨rfl, rfl⟩⟩
        | both =>
          cases h
          refine ⟨⟨by rw [hall]; simpa using hlen, by rw [hall]; exact hlab, hc1, hc2, hadm⟩, fun _ => ⟨rfl, ?_⟩⟩
          simp only [Option.some.injEq]
          congr 1
          apply List.filter_congr
          intro c hc
          simp only [hc, List.contains_eq_mem, List.mem_filter, true_and]
          by_cases hlt : c < nRow
          · have : ¬ nRow ≤ c := by omega
            simp [hlt, this]
          · have : nRow ≤ c := by omega
            simp [hlt, this]
        | other =>
          unfold maskCenters at hmask
          simp at hmask

/-! ### the assignment loop of one restart and the whole fit -/

/-- the `while` loop of a restart runs its body exactly once when `max_iter ≥ 1` (the centres are never replaced,
    so `prev_centers == centers` after the first round) and not at all otherwise -/
theorem kcentersAssign_eq (classify : List Nat → List Nat) (maxIter : Int) {centers : List Nat}
    (hne : centers ≠ []) (fuel : Nat) :
    kcentersAssign classify maxIter centers (fuel + 2) none none 0 =
      some (if 1 ≤ maxIter then (some (classify centers), 1) else (none, 0)) := by
  have h0 : centersEqual none centers = false := by
    cases centers with
    | nil => exact absurd rfl hne
    | cons x xs => rfl
  have h1 : centersEqual (some centers) centers = true := by simp [centersEqual]
  by_cases hm : 1 ≤ maxIter
  · have hd : decide (((0 : Nat) : Int) < maxIter) = true := by simp; omega
    rw [kcentersAssign, h0, hd]
    simp only [Bool.not_false, Bool.and_self, if_true]
    rw [kcentersAssign, h1]
    simp [hm]
  · have hd : decide (((0 : Nat) : Int) < maxIter) = false := by simp; omega
    rw [kcentersAssign, h0, hd]
    simp [hm]

theorem kcentersChecks_ok {nClusters nInit : Int} {bipartite : Bool} {nRow nCol : Nat} {pos : CenterPos}
    {mask : List Bool} (h : kcentersChecks nClusters nInit bipartite nRow nCol pos = .ok mask) :
    2 ≤ nClusters ∧ 1 ≤ nInit ∧ maskCenters bipartite nRow nCol pos = .ok mask ∧
    nClusters.toNat ≤ (mask.filter id).length := by
  unfold kcentersChecks at h
  split at h
  · cases h
  split at h
  · cases h
  cases hm : maskCenters bipartite nRow nCol pos with
  | error e => rw [hm] at h; cases h
  | ok m =>
    rw [hm] at h
    simp only at h
    split at h
    · cases h
    · cases h
      refine ⟨by omega, by omega, rfl, by omega⟩

theorem foldl_add_const {α : Type} (l : List α) (f : α → Nat) (c : Nat) (h : ∀ x ∈ l, f x = c) (acc : Nat) :
    (l.map f).foldl (· + ·) acc = acc + l.length * c := by
  induction l generalizing acc with
  | nil => simp
  | cons x xs ih =>
    simp only [List.map_cons, List.foldl_cons, List.length_cons]
    rw [ih (fun y hy => h y (by simp [hy])), h x (by simp)]
    rw [Nat.add_mul]; omega

/-- ★ the whole of `KCenters.fit` (checks, restarts, assignment loop, selection, bookkeeping): if it returns, then
    for any random choices and any assignment giving every node a label below `n_clusters`, the result satisfies
    the k-centers clause of C05, and exactly one assignment per restart was computed. -/
theorem kcentersFitFull_spec {nClusters nInit maxIter : Int} {bipartite : Bool} {nRow nCol : Nat} {pos : CenterPos}
    {chooseOf : Nat → Nat → List Nat → Nat} {classify : Nat → List Nat → List Nat} {idxMax : Nat}
    {k : KFitted} {calls : Nat}
    (h : kcentersFitFull nClusters nInit maxIter bipartite nRow nCol pos chooseOf classify idxMax = .ok (k, calls))
    (hch : ∀ i, ChoiceOK (chooseOf i))
    (hcl : ∀ mask, kcentersChecks nClusters nInit bipartite nRow nCol pos = .ok mask → 1 ≤ maxIter →
      ∀ i, i < nInit.toNat →
      (classify i (initCenters (chooseOf i) mask nClusters.toNat)).length
        = (if bipartite then nRow + nCol else nRow) ∧
      ∀ l ∈ classify i (initCenters (chooseOf i) mask nClusters.toNat), l < nClusters.toNat) :
    KCentersOK bipartite nRow nCol pos nClusters.toNat (allLabelsK k) k.centers ∧
    (bipartite = true → CentersSplitOK nRow pos k.centers k.centersRow k.centersCol) ∧
    1 ≤ maxIter ∧ calls = nInit.toNat := by
  unfold kcentersFitFull at h
  cases hchk : kcentersChecks nClusters nInit bipartite nRow nCol pos with
  | error e => rw [hchk] at h; cases h
  | ok mask =>
    rw [hchk] at h
    obtain ⟨hnc, hni, hmask, hn⟩ := kcentersChecks_ok hchk
    simp only at h
    -- every restart: centres are non-empty, the loop is one assignment (or none when max_iter < 1)
    have hcent : ∀ i, (initCenters (chooseOf i) mask nClusters.toNat) ≠ [] := by
      intro i hnil
      have := (initCenters_spec (hch i) hn).1
      rw [hnil] at this
      simp at this; omega
    have hatt : kcentersAttempts maxIter mask nClusters.toNat nInit.toNat chooseOf classify =
        (List.range nInit.toNat).map fun i =>
          (initCenters (chooseOf i) mask nClusters.toNat,
           some (if 1 ≤ maxIter then (some (classify i (initCenters (chooseOf i) mask nClusters.toNat)), 1)
                 else (none, 0))) := by
      unfold kcentersAttempts
      apply List.map_congr_left
      intro i _
      rw [kcentersAssign_eq (classify i) maxIter (hcent i) 1]
    rw [hatt] at h
    by_cases hm : 1 ≤ maxIter
    · simp only [hm, if_true] at h
      split at h
      · cases h
      cases hfit : kcentersFit nClusters nInit bipartite nRow nCol pos
          (((List.range nInit.toNat).map fun i =>
            ((initCenters (chooseOf i) mask nClusters.toNat,
              some (some (classify i (initCenters (chooseOf i) mask nClusters.toNat)), 1)) : Attempt)).map attemptRun)
          idxMax with
      | error e => rw [hfit] at h; cases h
      | ok kk =>
        rw [hfit] at h
        simp only [Except.ok.injEq, Prod.mk.injEq] at h
        obtain ⟨rfl, hcalls⟩ := h
        have hspec := kcentersFit_spec hfit (by
          intro mask' hmask' r hr
          rw [hmask] at hmask'; cases hmask'
          obtain ⟨a, ha, rfl⟩ := List.mem_map.mp hr
          obtain ⟨i, hi, rfl⟩ := List.mem_map.mp ha
          have hcli := hcl mask hchk hm i (List.mem_range.mp hi)
          exact ⟨⟨chooseOf i, hch i, rfl⟩, hcli.1, hcli.2⟩)
        refine ⟨hspec.1, hspec.2, hm, ?_⟩
        rw [← hcalls, foldl_add_const _ attemptCalls 1]
        · simp
        · intro a ha
          obtain ⟨i, _, rfl⟩ := List.mem_map.mp ha
          rfl
    · exfalso
      simp only [hm, if_false] at h
      have hpos : 0 < nInit.toNat := by omega
      have hany : (((List.range nInit.toNat).map fun i =>
          ((initCenters (chooseOf i) mask nClusters.toNat, some (none, 0)) : Attempt)).any attemptFailed) = true := by
        rw [List.any_eq_true]
        exact ⟨_, List.mem_map.mpr ⟨0, List.mem_range.mpr hpos, rfl⟩, rfl⟩
      rw [hany] at h
      simp at h

/-! ### the read-out of the classifier -/

theorem mem_seedLabels_lt {centers : List Nat} {l : Nat} (h : l ∈ seedLabels centers) : l < centers.length :=
  List.mem_range.mp (List.mem_filter.mp h).1

/-- distinct centres carry the labels `0, …, k-1` -/
theorem seedLabels_of_nodup {centers : List Nat} (hnd : centers.Nodup) :
    seedLabels centers = List.range centers.length := by
  unfold seedLabels
  rw [List.filter_eq_self]
  intro t ht
  have ht' := List.mem_range.mp ht
  simp only [Bool.not_eq_eq_eq_not, Bool.not_true, List.contains_eq_mem, decide_eq_false_iff_not]
  intro hmem
  rw [List.getD_eq_getElem?_getD, List.getElem?_eq_getElem ht', Option.getD_some] at hmem
  obtain ⟨j, hj, e⟩ := List.getElem_of_mem hmem
  rw [List.getElem_drop] at e
  have hj' : t + 1 + j < centers.length := by simp at hj; omega
  have := (List.Nodup.getElem_inj_iff hnd (hi := hj') (hj := ht')).mp e
  omega

/-- ★ the labels read out of the scores are below the number of centres, and there is one per row of the scores -/
theorem rankReadout_spec {centers : List Nat} {scores : List (List Rat)} {l : List Nat}
    (h : rankReadout centers scores = .ok l) :
    l.length = scores.length ∧ ∀ x ∈ l, x < centers.length := by
  unfold rankReadout at h
  split at h
  · cases h
  split at h
  · cases h
  rename_i hlen hany
  cases h
  refine ⟨by simp, ?_⟩
  intro x hx
  obtain ⟨row, hrow, rfl⟩ := List.mem_map.mp hx
  have hi : argmaxFirst row < (seedLabels centers).length := by
    by_contra hge
    apply hany
    rw [List.any_eq_true]
    exact ⟨row, hrow, by simpa using Nat.le_of_not_lt hge⟩
  rw [List.getD_eq_getElem?_getD, List.getElem?_eq_getElem hi, Option.getD_some]
  exact mem_seedLabels_lt (List.getElem_mem hi)

theorem argmaxFirst_go_lt (best : Rat) (bestIdx idx : Nat) (l : List Rat) (h : bestIdx < idx) :
    argmaxFirst.go best bestIdx idx l < idx + l.length := by
  induction l generalizing best bestIdx idx with
  | nil => simp [argmaxFirst.go]; exact h
  | cons y ys ih =>
    unfold argmaxFirst.go
    split
    · have := ih y idx (idx + 1) (by omega); simp; omega
    · have := ih best bestIdx (idx + 1) (by omega); simp; omega

/-- `np.argmax` of a non-empty row is a position of the row -/
theorem argmaxFirst_lt {row : List Rat} (h : row ≠ []) : argmaxFirst row < row.length := by
  cases row with
  | nil => exact absurd rfl h
  | cons x xs =>
    have := argmaxFirst_go_lt x 0 1 xs (by omega)
    simp only [argmaxFirst, List.length_cons]; omega

/-- distinct centres, at least two, and score rows no wider than the number of centres: the read-out succeeds -/
theorem rankReadout_ok {centers : List Nat} {scores : List (List Rat)} (hk : 2 ≤ centers.length)
    (hnd : centers.Nodup) (hw : ∀ row ∈ scores, row.length ≤ centers.length) :
    ∃ l, rankReadout centers scores = .ok l := by
  unfold rankReadout
  have hs : (seedLabels centers).length = centers.length := by rw [seedLabels_of_nodup hnd]; simp
  rw [if_neg (by omega)]
  have hany : (scores.any fun row => decide ((seedLabels centers).length ≤ argmaxFirst row)) = false := by
    rw [List.any_eq_false]
    intro row hrow
    simp only [decide_eq_true_eq]
    rw [hs]
    by_cases hne : row = []
    · subst hne
      have : argmaxFirst [] = 0 := rfl
      rw [this]; omega
    · have := argmaxFirst_lt hne
      have := hw row hrow
      omega
  rw [hany]
  exact ⟨_, rfl⟩

theorem classifyOf_of_ok {scores : Nat → List Nat → List (List Rat)} {i : Nat} {centers : List Nat} {l : List Nat}
    (h : rankReadout centers (scores i centers) = .ok l) : classifyOf scores i centers = l := by
  simp [classifyOf, h]

/-- ★★ `KCenters.fit` with the assignment modelled (no assumption on the labels): if it returns, then for any random
    choices and any score matrices with one row per node of the adjacency, *every* clause of C05 about k-centers
    holds — one label per node, labels below `n_clusters`, `n_clusters` distinct admissible centres split by side. -/
theorem kcentersFitScores_spec {nClusters nInit maxIter : Int} {bipartite : Bool} {nRow nCol : Nat} {pos : CenterPos}
    {chooseOf : Nat → Nat → List Nat → Nat} {scores : Nat → List Nat → List (List Rat)} {idxMax : Nat}
    {k : KFitted} {calls : Nat}
    (h : kcentersFitScores nClusters nInit maxIter bipartite nRow nCol pos chooseOf scores idxMax = .ok (k, calls))
    (hch : ∀ i, ChoiceOK (chooseOf i))
    (hshape : ∀ i centers, (scores i centers).length = (if bipartite then nRow + nCol else nRow)) :
    KCentersOK bipartite nRow nCol pos nClusters.toNat (allLabelsK k) k.centers ∧
    (bipartite = true → CentersSplitOK nRow pos k.centers k.centersRow k.centersCol) ∧
    1 ≤ maxIter ∧ calls = nInit.toNat := by
  unfold kcentersFitScores at h
  cases hchk : kcentersChecks nClusters nInit bipartite nRow nCol pos with
  | error e => rw [hchk] at h; cases h
  | ok mask =>
    rw [hchk] at h
    obtain ⟨hnc, _, _, hn⟩ := kcentersChecks_ok hchk
    simp only at h
    split at h
    · cases h
    rename_i hfind
    apply kcentersFitFull_spec h hch
    intro mask' hmask' hm i hi
    rw [hchk] at hmask'; cases hmask'
    rw [if_pos hm] at hfind
    have hnone := List.findSome?_eq_none_iff.mp hfind i (List.mem_range.mpr hi)
    have hic := initCenters_spec (hch i) hn
    cases hr : rankReadout (initCenters (chooseOf i) mask nClusters.toNat)
        (scores i (initCenters (chooseOf i) mask nClusters.toNat)) with
    | error e => simp [readoutError, hr] at hnone
    | ok l =>
      rw [classifyOf_of_ok hr]
      have := rankReadout_spec hr
      exact ⟨this.1.trans (hshape i _), fun x hx => hic.1 ▸ this.2 x hx⟩

/-- ★★ the same from the shape of the input: `get_adjacency` routing is part of the model -/
theorem kcentersEstimator_spec {nClusters nInit maxIter : Int} {directed forceBipartite : Bool} {nRow nCol nnz : Nat}
    {pos : CenterPos} {chooseOf : Nat → Nat → List Nat → Nat} {scores : Nat → List Nat → List (List Rat)}
    {idxMax : Nat} {k : KFitted} {calls : Nat}
    (h : kcentersEstimator nClusters nInit maxIter directed forceBipartite nRow nCol nnz pos chooseOf scores idxMax
      = .ok (k, calls))
    (hch : ∀ i, ChoiceOK (chooseOf i))
    (hshape : ∀ i centers, (scores i centers).length =
      (if (forceBipartite || nRow != nCol) = true then nRow + nCol else nRow)) :
    KCentersOK (forceBipartite || nRow != nCol) nRow nCol pos nClusters.toNat (allLabelsK k) k.centers ∧
    ((forceBipartite || nRow != nCol) = true → CentersSplitOK nRow pos k.centers k.centersRow k.centersCol) ∧
    1 ≤ maxIter ∧ calls = nInit.toNat ∧ 0 < nnz ∧ (directed = true → nRow = nCol) := by
  unfold kcentersEstimator at h
  split at h
  · cases h
  split at h
  · cases h
  split at h
  · cases h
  rename_i hdir
  by_cases hz : (nnz == 0) = true
  · simp [routeInput, hz] at h
  · have hz' : (nnz == 0) = false := by simpa using hz
    simp only [routeInput, hz', Bool.false_eq_true, if_false] at h
    have := kcentersFitScores_spec h hch hshape
    refine ⟨this.1, this.2.1, this.2.2.1, this.2.2.2, ?_, ?_⟩
    · simp at hz'; omega
    · intro hd
      simp [hd] at hdir
      exact hdir

/-! ### total form: accepted arguments are accepted -/

theorem kcentersChecks_of {nClusters nInit : Int} {bipartite : Bool} {nRow nCol : Nat} {pos : CenterPos}
    {mask : List Bool} (hnc : 2 ≤ nClusters) (hni : 1 ≤ nInit)
    (hmask : maskCenters bipartite nRow nCol pos = .ok mask)
    (hcount : nClusters ≤ ((mask.filter id).length : Int)) :
    kcentersChecks nClusters nInit bipartite nRow nCol pos = .ok mask := by
  unfold kcentersChecks
  rw [if_neg (by omega), if_neg (by omega), hmask]
  simp only
  rw [if_neg (by omega)]

theorem kcentersFit_ok {nClusters nInit : Int} {bipartite : Bool} {nRow nCol : Nat} {pos : CenterPos}
    {mask : List Bool} (hchk : kcentersChecks nClusters nInit bipartite nRow nCol pos = .ok mask)
    (runs : List (List Nat × List Nat)) {idxMax : Nat} (hidx : idxMax < runs.length) :
    ∃ k, kcentersFit nClusters nInit bipartite nRow nCol pos runs idxMax = .ok k := by
  obtain ⟨hnc, hni, hmask, hn⟩ := kcentersChecks_ok hchk
  have h1 : ¬ nClusters < 2 := by omega
  have h2 : ¬ nInit < 1 := by omega
  have h3 : ¬ nClusters > ((mask.filter id).length : Int) := by omega
  unfold kcentersFit
  simp only [bind, Except.bind, pure, Except.pure, h1, h2, h3, hmask, if_false, List.getElem?_eq_getElem hidx]
  cases bipartite with
  | false => exact ⟨_, rfl⟩
  | true =>
    cases pos with
    | row => exact ⟨_, rfl⟩
    | col => exact ⟨_, rfl⟩
    | both => exact ⟨_, rfl⟩
    | other => simp [maskCenters] at hmask

/-- `KCenters.fit` for an abstract assignment: accepted arguments, `max_iter ≥ 1`, an in-range restart: it returns,
    with one assignment per restart -/
theorem kcentersFitFull_ok {nClusters nInit maxIter : Int} {bipartite : Bool} {nRow nCol : Nat} {pos : CenterPos}
    {chooseOf : Nat → Nat → List Nat → Nat} (classify : Nat → List Nat → List Nat) {idxMax : Nat} {mask : List Bool}
    (hchk : kcentersChecks nClusters nInit bipartite nRow nCol pos = .ok mask) (hm : 1 ≤ maxIter)
    (hch : ∀ i, ChoiceOK (chooseOf i)) (hidx : idxMax < nInit.toNat) :
    ∃ k, kcentersFitFull nClusters nInit maxIter bipartite nRow nCol pos chooseOf classify idxMax
      = .ok (k, nInit.toNat) := by
  obtain ⟨hnc, hni, hmask, hn⟩ := kcentersChecks_ok hchk
  unfold kcentersFitFull
  rw [hchk]
  simp only
  have hcent : ∀ i, (initCenters (chooseOf i) mask nClusters.toNat) ≠ [] := by
    intro i hnil
    have := (initCenters_spec (hch i) hn).1
    rw [hnil] at this
    simp at this; omega
  have hatt : kcentersAttempts maxIter mask nClusters.toNat nInit.toNat chooseOf classify =
      (List.range nInit.toNat).map fun i =>
        ((initCenters (chooseOf i) mask nClusters.toNat,
          some (some (classify i (initCenters (chooseOf i) mask nClusters.toNat)), 1)) : Attempt) := by
    unfold kcentersAttempts
    apply List.map_congr_left
    intro i _
    rw [kcentersAssign_eq (classify i) maxIter (hcent i) 1, if_pos hm]
  rw [hatt]
  have hany : (((List.range nInit.toNat).map fun i =>
      ((initCenters (chooseOf i) mask nClusters.toNat,
        some (some (classify i (initCenters (chooseOf i) mask nClusters.toNat)), 1)) : Attempt)).any attemptFailed)
        = false := by
    rw [List.any_eq_false]
    intro a ha
    obtain ⟨i, _, rfl⟩ := List.mem_map.mp ha
    simp [attemptFailed]
  rw [hany]
  simp only [Bool.false_eq_true, if_false]
  obtain ⟨k, hk⟩ := kcentersFit_ok hchk
    (((List.range nInit.toNat).map fun i =>
      ((initCenters (chooseOf i) mask nClusters.toNat,
        some (some (classify i (initCenters (chooseOf i) mask nClusters.toNat)), 1)) : Attempt)).map attemptRun)
    (idxMax := idxMax) (by simpa using hidx)
  rw [hk]
  refine ⟨k, ?_⟩
  simp only [Except.ok.injEq, Prod.mk.injEq, true_and]
  rw [foldl_add_const _ attemptCalls 1]
  · simp
  · intro a ha
    obtain ⟨i, _, rfl⟩ := List.mem_map.mp ha
    rfl

/-- ★★ total form of `KCenters.fit` on the model: at least two clusters, at least one restart, `max_iter ≥ 1`, not
    (`directed` on a non-square input), a stored entry, a known `center_position` with enough admissible nodes, an
    in-range index of the best restart (what `np.argmax` returns), any random choices, score matrices with one row
    per node and no more columns than centres: the fit *returns*, having computed one assignment per restart.
    (What it returns is described by `kcentersEstimator_spec`.) -/
theorem kcentersEstimator_total {nClusters nInit maxIter : Int} {directed forceBipartite : Bool} {nRow nCol nnz : Nat}
    {pos : CenterPos} {chooseOf : Nat → Nat → List Nat → Nat} {scores : Nat → List Nat → List (List Rat)}
    {idxMax : Nat} {mask : List Bool}
    (hnc : 2 ≤ nClusters) (hni : 1 ≤ nInit) (hm : 1 ≤ maxIter) (hdir : directed = true → nRow = nCol)
    (hnnz : 0 < nnz)
    (hmask : maskCenters (forceBipartite || nRow != nCol) nRow nCol pos = .ok mask)
    (hcount : nClusters ≤ ((mask.filter id).length : Int))
    (hidx : idxMax < nInit.toNat) (hch : ∀ i, ChoiceOK (chooseOf i))
    (hwidth : ∀ i centers, ∀ row ∈ scores i centers, row.length ≤ centers.length) :
    ∃ k, kcentersEstimator nClusters nInit maxIter directed forceBipartite nRow nCol nnz pos chooseOf scores idxMax
      = .ok (k, nInit.toNat) := by
  have hchk := kcentersChecks_of hnc hni hmask hcount
  obtain ⟨_, _, _, hn⟩ := kcentersChecks_ok hchk
  unfold kcentersEstimator
  rw [if_neg (by omega), if_neg (by omega)]
  have hd : (directed && nRow != nCol) = false := by
    cases directed with
    | false => rfl
    | true => simp [hdir rfl]
  have hz : (nnz == 0) = false := by simp; omega
  simp only [hd, Bool.false_eq_true, if_false, routeInput, hz]
  unfold kcentersFitScores
  rw [hchk]
  simp only [if_pos hm]
  have hfind : ((List.range nInit.toNat).findSome? fun i =>
      readoutError (initCenters (chooseOf i) mask nClusters.toNat)
        (scores i (initCenters (chooseOf i) mask nClusters.toNat))) = none := by
    rw [List.findSome?_eq_none_iff]
    intro i _
    have hic := initCenters_spec (hch i) hn
    obtain ⟨l, hl⟩ := rankReadout_ok (scores := scores i (initCenters (chooseOf i) mask nClusters.toNat))
      (by rw [hic.1]; omega) hic.2.1 (hwidth i _)
    simp [readoutError, hl]
  rw [hfind]
  exact kcentersFitFull_ok (classifyOf scores) hchk hm hch hidx

/-- the number of admissible centres per `center_position` -/
theorem maskCenters_count {bipartite : Bool} {nRow nCol : Nat} {pos : CenterPos} {mask : List Bool}
    (h : maskCenters bipartite nRow nCol pos = .ok mask) :
    (mask.filter id).length =
      (if bipartite then (match pos with | .row => nRow | .col => nCol | _ => nRow + nCol) else nRow) := by
  rw [← candidates_length]
  have hcand : ∀ (n : Nat) (p : Nat → Bool), candidates (tab n p) = (List.range n).filter p := by
    intro n p
    unfold candidates
    rw [tab_length]
    apply List.filter_congr
    intro i hi
    rw [tab_getD, if_pos (List.mem_range.mp hi)]
  have hall : ∀ n, ((List.range n).filter fun _ => true).length = n := by
    intro n; rw [List.filter_eq_self.mpr (fun _ _ => rfl)]; simp
  have hlt : ∀ a b, ((List.range (a + b)).filter fun i => decide (i < a)).length = a := by
    intro a b
    induction b with
    | zero => rw [Nat.add_zero, List.filter_eq_self.mpr (fun i hi => by simpa using List.mem_range.mp hi)]; simp
    | succ b ih =>
      rw [← Nat.add_assoc, List.range_succ, List.filter_append, List.length_append, ih]
      simp
  have hge : ∀ a b, ((List.range (a + b)).filter fun i => decide (a ≤ i)).length = b := by
    intro a b
    induction b with
    | zero =>
      rw [Nat.add_zero, List.filter_eq_nil_iff.mpr (fun i hi => by
        have := List.mem_range.mp hi; simp; omega)]; rfl
    | succ b ih =>
      rw [← Nat.add_assoc, List.range_succ, List.filter_append, List.length_append, ih]
      simp
  unfold maskCenters at h
  cases bipartite with
  | false =>
    simp only [Bool.false_eq_true, if_false] at h ⊢
    cases h; rw [hcand]; exact hall nRow
  | true =>
    simp only [if_true] at h ⊢
    cases pos with
    | row => cases h; rw [hcand]; exact hlt nRow nCol
    | col => cases h; rw [hcand]; exact hge nRow nCol
    | both => cases h; rw [hcand]; exact hall _
    | other => cases h

end SkNet.Clustering
