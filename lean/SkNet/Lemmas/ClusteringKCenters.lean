/-
KCenters: the mask bookkeeping of `_init_centers` yields distinct admissible centres; the end of `fit` reports
them consistently (C05).
-/
import SkNet.Lemmas.ClusteringReindex
import Mathlib.Data.List.Induction

namespace SkNet.Clustering

/-! ### counting the admissible positions -/

/-- positions where the mask is set: `nodes[mask]` -/
def candidates (mask : List Bool) : List Nat := (List.range mask.length).filter fun i => mask.getD i false

theorem candidates_length (mask : List Bool) : (candidates mask).length = (mask.filter id).length := by
  unfold candidates
  induction mask using List.reverseRecOn with
  | nil => rfl
  | append_singleton m b ih =>
    rw [List.length_append, List.length_singleton, List.range_succ, List.filter_append, List.filter_append,
      List.length_append, List.length_append]
    congr 1
    · rw [← ih]
      congr 1
      apply List.filter_congr
      intro i hi
      have := List.mem_range.mp hi
      simp [List.getD_eq_getElem?_getD, List.getElem?_append_left this]
    · cases b <;> simp [List.getD_eq_getElem?_getD]

theorem candidates_nodup (mask : List Bool) : (candidates mask).Nodup :=
  List.nodup_range.filter _

theorem mem_candidates {mask : List Bool} {i : Nat} : i ∈ candidates mask ↔ mask.getD i false = true := by
  unfold candidates
  rw [List.mem_filter, List.mem_range]
  constructor
  · exact fun h => h.2
  · intro h
    refine ⟨?_, h⟩
    by_contra hlt
    rw [List.getD_eq_getElem?_getD, List.getElem?_eq_none (Nat.le_of_not_lt hlt)] at h
    simp at h

/-! ### `_init_centers` -/

/-- contract of `np.random.choice`: an element of the (non-empty) array it is given -/
def ChoiceOK (choose : Nat → List Nat → Nat) : Prop := ∀ t cand, cand ≠ [] → choose t cand ∈ cand

def initStep (choose : Nat → List Nat → Nat) (st : List Bool × List Nat) (t : Nat) : List Bool × List Nat :=
  let cand := (List.range st.1.length).filter fun i => st.1.getD i false
  let c := choose t cand
  (st.1.set c false, st.2 ++ [c])

theorem initCenters_eq (choose : Nat → List Nat → Nat) (mask : List Bool) (n : Nat) :
    initCenters choose mask n = ((List.range n).foldl (initStep choose) (mask, [])).2 := rfl

/-- state of the loop: the current mask is the initial mask minus the chosen centres -/
structure InitInv (mask : List Bool) (t : Nat) (st : List Bool × List Nat) : Prop where
  len : st.1.length = mask.length
  cur : ∀ i, st.1.getD i false = (mask.getD i false && !st.2.contains i)
  cnt : st.2.length = t
  nodup : st.2.Nodup
  adm : ∀ c ∈ st.2, mask.getD c false = true

theorem exists_candidate {mask : List Bool} {cs : List Nat} (hnd : cs.Nodup)
    (hadm : ∀ c ∈ cs, mask.getD c false = true) (hlt : cs.length < (mask.filter id).length) :
    ∃ x, mask.getD x false = true ∧ x ∉ cs := by
  by_contra hno
  have hsub : candidates mask ⊆ cs := by
    intro x hx
    by_contra hx'
    exact hno ⟨x, mem_candidates.mp hx, hx'⟩
  have := (List.subperm_of_subset (candidates_nodup mask) hsub).length_le
  rw [candidates_length] at this
  omega

theorem initStep_inv {choose : Nat → List Nat → Nat} (hch : ChoiceOK choose) {mask : List Bool} {t : Nat}
    {st : List Bool × List Nat} (h : InitInv mask t st) (hlt : t < (mask.filter id).length) :
    InitInv mask (t + 1) (initStep choose st t) := by
  -- the candidate list is not empty
  obtain ⟨x, hx1, hx2⟩ := exists_candidate h.nodup h.adm (h.cnt ▸ hlt)
  have hcand : ((List.range st.1.length).filter fun i => st.1.getD i false) ≠ [] := by
    have : x ∈ (List.range st.1.length).filter fun i => st.1.getD i false := by
      have hxc : st.1.getD x false = true := by rw [h.cur, hx1]; simpa using hx2
      exact mem_candidates.mpr hxc
    exact List.ne_nil_of_mem this
  have hc := hch t _ hcand
  set c := choose t ((List.range st.1.length).filter fun i => st.1.getD i false) with hcdef
  have hcm : st.1.getD c false = true := mem_candidates.mp hc
  rw [h.cur] at hcm
  have hc1 : mask.getD c false = true := by
    revert hcm; cases mask.getD c false <;> simp
  have hc2 : c ∉ st.2 := by
    intro hin
    have : st.2.contains c = true := by simpa using hin
    rw [this] at hcm; simp at hcm
  refine ⟨by simp [initStep, h.len], ?_, by simp [initStep, h.cnt], ?_, ?_⟩
  · intro i
    show (st.1.set c false).getD i false = (mask.getD i false && !(st.2 ++ [c]).contains i)
    by_cases hic : i = c
    · rw [hic]
      have : (st.1.set c false).getD c false = false := by
        simp only [List.getD_eq_getElem?_getD, List.getElem?_set_self']
        cases st.1[c]? <;> simp
      rw [this]; simp
    · have : (st.1.set c false).getD i false = st.1.getD i false := by
        simp [List.getD_eq_getElem?_getD, List.getElem?_set_ne (Ne.symm hic)]
      rw [this, h.cur]
      have : (st.2 ++ [c]).contains i = st.2.contains i := by
        simp [hic]
      rw [this]
  · show (st.2 ++ [c]).Nodup
    rw [List.nodup_append]
    refine ⟨h.nodup, by simp, ?_⟩
    intro a ha b hb
    simp at hb; subst hb
    intro hab; subst hab; exact hc2 ha
  · intro a ha
    have : a ∈ st.2 ++ [c] := ha
    rcases List.mem_append.mp this with h1 | h1
    · exact h.adm a h1
    · simp at h1; subst h1; exact hc1

theorem foldl_initStep_inv {choose : Nat → List Nat → Nat} (hch : ChoiceOK choose) {mask : List Bool} :
    ∀ n, n ≤ (mask.filter id).length → InitInv mask n ((List.range n).foldl (initStep choose) (mask, [])) := by
  intro n
  induction n with
  | zero => intro _; exact ⟨rfl, by simp, rfl, List.nodup_nil, by simp⟩
  | succ n ih =>
    intro hn
    rw [List.range_succ, List.foldl_append]
    exact initStep_inv hch (ih (by omega)) (by omega)

/-- ★ `_init_centers` returns `n_clusters` distinct centres inside the admissible mask, whatever the random
    choices and the PageRank scores are, provided `n_clusters <= sum(mask)` (checked by `fit`) -/
theorem initCenters_spec {choose : Nat → List Nat → Nat} (hch : ChoiceOK choose) {mask : List Bool} {n : Nat}
    (hn : n ≤ (mask.filter id).length) :
    (initCenters choose mask n).length = n ∧ (initCenters choose mask n).Nodup ∧
    ∀ c ∈ initCenters choose mask n, mask.getD c false = true := by
  have := foldl_initStep_inv hch n hn
  rw [initCenters_eq]
  exact ⟨this.cnt, this.nodup, this.adm⟩

/-! ### the masks of `_compute_mask_centers` -/

theorem maskCenters_admissible {bipartite : Bool} {nRow nCol : Nat} {pos : CenterPos} {mask : List Bool}
    (h : maskCenters bipartite nRow nCol pos = .ok mask) (c : Nat) :
    mask.getD c false = true ↔ Admissible bipartite nRow nCol pos c := by
  unfold maskCenters at h
  unfold Admissible
  cases bipartite with
  | false =>
    simp only [Bool.false_eq_true, if_false] at h ⊢
    cases h
    rw [tab_getD]; by_cases hc : c < nRow <;> simp [hc]
  | true =>
    simp only [if_true] at h ⊢
    cases pos with
    | row => cases h; rw [tab_getD]; by_cases hc : c < nRow + nCol <;> simp [hc] <;> omega
    | col => cases h; rw [tab_getD]; by_cases hc : c < nRow + nCol <;> simp [hc] <;> omega
    | both => cases h; rw [tab_getD]; by_cases hc : c < nRow + nCol <;> simp [hc]
    | other => cases h

/-! ### the end of `KCenters.fit` -/

def allLabelsK (k : KFitted) : List Nat :=
  match k.labelsRow, k.labelsCol with
  | some r, some c => r ++ c
  | _, _ => k.labels

/-- ★ `KCenters.fit` around PageRank: if it does not refuse its arguments, then — for any random choices, any
    assignment that gives every node of the (block) adjacency one of the labels `0..n_clusters-1`, and any
    selected restart — the labels are below `n_clusters`, the centres are `n_clusters` distinct admissible nodes
    and `centers_row_` / `centers_col_` split them by side. -/
theorem kcentersFit_spec {nClusters nInit : Int} {bipartite : Bool} {nRow nCol : Nat} {pos : CenterPos}
    {runs : List (List Nat × List Nat)} {idxMax : Nat} {k : KFitted}
    (h : kcentersFit nClusters nInit bipartite nRow nCol pos runs idxMax = .ok k)
    (hruns : ∀ mask, maskCenters bipartite nRow nCol pos = .ok mask → ∀ r ∈ runs,
      (∃ choose, ChoiceOK choose ∧ r.1 = initCenters choose mask nClusters.toNat) ∧
      r.2.length = (if bipartite then nRow + nCol else nRow) ∧ ∀ l ∈ r.2, l < nClusters.toNat) :
    KCentersOK bipartite nRow nCol pos nClusters.toNat (allLabelsK k) k.centers ∧
    (bipartite = true → CentersSplitOK nRow pos k.centers k.centersRow k.centersCol) := by
  unfold kcentersFit at h
  simp only [bind, Except.bind, pure, Except.pure] at h
  split at h
  · cases h
  split at h
  · cases h
  cases hmask : maskCenters bipartite nRow nCol pos with
  | error e => rw [hmask] at h; cases h
  | ok mask =>
    rw [hmask] at h
    simp only at h
    split at h
    · cases h
    rename_i hle
    cases hrun : runs[idxMax]? with
    | none => rw [hrun] at h; cases h
    | some r =>
      rw [hrun] at h
      obtain ⟨centers, labels⟩ := r
      simp only at h
      obtain ⟨⟨choose, hch, hcs⟩, hlen, hlab⟩ := hruns mask hmask (centers, labels) (List.mem_of_getElem? hrun)
      simp only at hcs hlen hlab
      have hn : nClusters.toNat ≤ (mask.filter id).length := by
        have : ¬ (nClusters > ((mask.filter id).length : Int)) := hle
        omega
      obtain ⟨hc1, hc2, hc3⟩ := initCenters_spec hch hn
      rw [← hcs] at hc1 hc2 hc3
      have hadm : ∀ c ∈ centers, Admissible bipartite nRow nCol pos c :=
        fun c hc => (maskCenters_admissible hmask c).mp (hc3 c hc)
      cases bipartite with
      | false =>
        simp only [Bool.not_false, if_true] at h
        cases h
        exact ⟨⟨hlen, hlab, hc1, hc2, hadm⟩, by simp⟩
      | true =>
        simp only [Bool.not_true, Bool.false_eq_true, if_false] at h hlen
        have hall : ∀ (cr : Option (List Nat)) (cc : Option (List Int)),
            allLabelsK ⟨(splitVars true nRow labels).labels, (splitVars true nRow labels).labelsRow,
              (splitVars true nRow labels).labelsCol, centers, cr, cc⟩ = labels := by
          intro cr cc; simp [allLabelsK, splitVars]
        cases pos with
        | row =>
          cases h
          exact ⟨⟨by rw [hall]; simpa using hlen, by rw [hall]; exact hlab, hc1, hc2, hadm⟩,
            fun _ => ⟨rfl, rfl⟩⟩
        | col =>
          cases h
          exact ⟨⟨by rw [hall]; simpa using hlen, by rw [hall]; exact hlab, hc1, hc2, hadm⟩,
            fun _ => ⟨rfl, rfl⟩⟩
        | both =>
          cases h
          refine ⟨⟨by rw [hall]; simpa using hlen, by rw [hall]; exact hlab, hc1, hc2, hadm⟩, fun _ => ⟨rfl, ?_⟩⟩
          simp only [Option.some.injEq]
          congr 1
          apply List.filter_congr
          intro c hc
          simp only [hc, List.contains_eq_mem, List.mem_filter, true_and]
          by_cases hlt : c < nRow
          · have : ¬ nRow ≤ c := by omega
            simp [hlt, this]
          · have : nRow ≤ c := by omega
            simp [hlt, this]
        | other =>
          unfold maskCenters at hmask
          simp at hmask

/-! ### the assignment loop of one restart and the whole fit -/

/-- the `while` loop of a restart runs its body exactly once when `max_iter ≥ 1` (the centres are never replaced,
    so `prev_centers == centers` after the first round) and not at all otherwise -/
theorem kcentersAssign_eq (classify : List Nat → List Nat) (maxIter : Int) {centers : List Nat}
    (hne : centers ≠ []) (fuel : Nat) :
    kcentersAssign classify maxIter centers (fuel + 2) none none 0 =
      some (if 1 ≤ maxIter then (some (classify centers), 1) else (none, 0)) := by
  have h0 : centersEqual none centers = false := by
    cases centers with
    | nil => exact absurd rfl hne
    | cons x xs => rfl
  have h1 : centersEqual (some centers) centers = true := by simp [centersEqual]
  by_cases hm : 1 ≤ maxIter
  · have hd : decide (((0 : Nat) : Int) < maxIter) = true := by simp; omega
    rw [kcentersAssign, h0, hd]
    simp only [Bool.not_false, Bool.and_self, if_true]
    rw [kcentersAssign, h1]
    simp [hm]
  · have hd : decide (((0 : Nat) : Int) < maxIter) = false := by simp; omega
    rw [kcentersAssign, h0, hd]
    simp [hm]

theorem kcentersChecks_ok {nClusters nInit : Int} {bipartite : Bool} {nRow nCol : Nat} {pos : CenterPos}
    {mask : List Bool} (h : kcentersChecks nClusters nInit bipartite nRow nCol pos = .ok mask) :
    2 ≤ nClusters ∧ 1 ≤ nInit ∧ maskCenters bipartite nRow nCol pos = .ok mask ∧
    nClusters.toNat ≤ (mask.filter id).length := by
  unfold kcentersChecks at h
  split at h
  · cases h
  split at h
  · cases h
  cases hm : maskCenters bipartite nRow nCol pos with
  | error e => rw [hm] at h; cases h
  | ok m =>
    rw [hm] at h
    simp only at h
    split at h
    · cases h
    · cases h
      refine ⟨by omega, by omega, rfl, by omega⟩

theorem foldl_add_const {α : Type} (l : List α) (f : α → Nat) (c : Nat) (h : ∀ x ∈ l, f x = c) (acc : Nat) :
    (l.map f).foldl (· + ·) acc = acc + l.length * c := by
  induction l generalizing acc with
  | nil => simp
  | cons x xs ih =>
    simp only [List.map_cons, List.foldl_cons, List.length_cons]
    rw [ih (fun y hy => h y (by simp [hy])), h x (by simp)]
    rw [Nat.add_mul]; omega

/-- ★ the whole of `KCenters.fit` (checks, restarts, assignment loop, selection, bookkeeping): if it returns, then
    for any random choices and any assignment giving every node a label below `n_clusters`, the result satisfies
    the k-centers clause of C05, and exactly one assignment per restart was computed. -/
theorem kcentersFitFull_spec {nClusters nInit maxIter : Int} {bipartite : Bool} {nRow nCol : Nat} {pos : CenterPos}
    {chooseOf : Nat → Nat → List Nat → Nat} {classify : Nat → List Nat → List Nat} {idxMax : Nat}
    {k : KFitted} {calls : Nat}
    (h : kcentersFitFull nClusters nInit maxIter bipartite nRow nCol pos chooseOf classify idxMax = .ok (k, calls))
    (hch : ∀ i, ChoiceOK (chooseOf i))
    (hcl : ∀ i centers, centers.length = nClusters.toNat → centers.Nodup →
      (classify i centers).length = (if bipartite then nRow + nCol else nRow) ∧
      ∀ l ∈ classify i centers, l < nClusters.toNat) :
    KCentersOK bipartite nRow nCol pos nClusters.toNat (allLabelsK k) k.centers ∧
    (bipartite = true → CentersSplitOK nRow pos k.centers k.centersRow k.centersCol) ∧
    1 ≤ maxIter ∧ calls = nInit.toNat := by
  unfold kcentersFitFull at h
  cases hchk : kcentersChecks nClusters nInit bipartite nRow nCol pos with
  | error e => rw [hchk] at h; cases h
  | ok mask =>
    rw [hchk] at h
    obtain ⟨hnc, hni, hmask, hn⟩ := kcentersChecks_ok hchk
    simp only at h
    -- every restart: centres are non-empty, the loop is one assignment (or none when max_iter < 1)
    have hcent : ∀ i, (initCenters (chooseOf i) mask nClusters.toNat) ≠ [] := by
      intro i hnil
      have := (initCenters_spec (hch i) hn).1
      rw [hnil] at this
      simp at this; omega
    have hatt : kcentersAttempts maxIter mask nClusters.toNat nInit.toNat chooseOf classify =
        (List.range nInit.toNat).map fun i =>
          (initCenters (chooseOf i) mask nClusters.toNat,
           some (if 1 ≤ maxIter then (some (classify i (initCenters (chooseOf i) mask nClusters.toNat)), 1)
                 else (none, 0))) := by
      unfold kcentersAttempts
      apply List.map_congr_left
      intro i _
      rw [kcentersAssign_eq (classify i) maxIter (hcent i) 1]
    rw [hatt] at h
    by_cases hm : 1 ≤ maxIter
    · simp only [hm, if_true] at h
      split at h
      · cases h
      cases hfit : kcentersFit nClusters nInit bipartite nRow nCol pos
          (((List.range nInit.toNat).map fun i =>
            ((initCenters (chooseOf i) mask nClusters.toNat,
              some (some (classify i (initCenters (chooseOf i) mask nClusters.toNat)), 1)) : Attempt)).map attemptRun)
          idxMax with
      | error e => rw [hfit] at h; cases h
      | ok kk =>
        rw [hfit] at h
        simp only [Except.ok.injEq, Prod.mk.injEq] at h
        obtain ⟨rfl, hcalls⟩ := h
        have hspec := kcentersFit_spec hfit (by
          intro mask' hmask' r hr
          rw [hmask] at hmask'; cases hmask'
          obtain ⟨a, ha, rfl⟩ := List.mem_map.mp hr
          obtain ⟨i, _, rfl⟩ := List.mem_map.mp ha
          have hic := initCenters_spec (hch i) hn
          exact ⟨⟨chooseOf i, hch i, rfl⟩, (hcl i _ hic.1 hic.2.1).1, (hcl i _ hic.1 hic.2.1).2⟩)
        refine ⟨hspec.1, hspec.2, hm, ?_⟩
        rw [← hcalls, foldl_add_const _ attemptCalls 1]
        · simp
        · intro a ha
          obtain ⟨i, _, rfl⟩ := List.mem_map.mp ha
          rfl
    · exfalso
      simp only [hm, if_false] at h
      have hpos : 0 < nInit.toNat := by omega
      have hany : (((List.range nInit.toNat).map fun i =>
          ((initCenters (chooseOf i) mask nClusters.toNat, some (none, 0)) : Attempt)).any attemptFailed) = true := by
        rw [List.any_eq_true]
        exact ⟨_, List.mem_map.mpr ⟨0, List.mem_range.mpr hpos, rfl⟩, rfl⟩
      rw [hany] at h
      simp at h

/-! ### the read-out of the classifier -/

theorem mem_seedLabels_lt {centers : List Nat} {l : Nat} (h : l ∈ seedLabels centers) : l < centers.length :=
  List.mem_range.mp (List.mem_filter.mp h).1

/-- distinct centres carry the labels `0, …, k-1` -/
theorem seedLabels_of_nodup {centers : List Nat} (hnd : centers.Nodup) :
    seedLabels centers = List.range centers.length := by
  unfold seedLabels
  rw [List.filter_eq_self]
  intro t ht
  have ht' := List.mem_range.mp ht
  simp only [Bool.not_eq_eq_eq_not, Bool.not_true, List.contains_eq_mem, decide_eq_false_iff_not]
  intro hmem
  rw [List.getD_eq_getElem?_getD, List.getElem?_eq_getElem ht', Option.getD_some] at hmem
  obtain ⟨j, hj, e⟩ := List.getElem_of_mem hmem
  rw [List.getElem_drop] at e
  have hj' : t + 1 + j < centers.length := by simp at hj; omega
  have := (List.Nodup.getElem_inj_iff hnd (hi := hj') (hj := ht')).mp e
  omega

/-- ★ the labels read out of the scores are below the number of centres, and there is one per row of the scores -/
theorem rankReadout_spec {centers : List Nat} {scores : List (List Rat)} {l : List Nat}
    (h : rankReadout centers scores = .ok l) :
    l.length = scores.length ∧ ∀ x ∈ l, x < centers.length := by
  unfold rankReadout at h
  split at h
  · cases h
  rename_i hlen
  cases h
  refine ⟨by simp, ?_⟩
  intro x hx
  obtain ⟨row, _, rfl⟩ := List.mem_map.mp hx
  have hpos : 0 < centers.length := by
    have : ∀ y ∈ seedLabels centers, y < centers.length := fun y hy => mem_seedLabels_lt hy
    cases hs : seedLabels centers with
    | nil => rw [hs] at hlen; simp at hlen
    | cons y ys => have := this y (by rw [hs]; simp); omega
  by_cases hi : argmaxFirst row < (seedLabels centers).length
  · rw [List.getD_eq_getElem?_getD, List.getElem?_eq_getElem hi, Option.getD_some]
    exact mem_seedLabels_lt (List.getElem_mem hi)
  · rw [List.getD_eq_getElem?_getD, List.getElem?_eq_none (Nat.le_of_not_lt hi)]
    exact hpos

theorem classifyOf_spec {scores : Nat → List Nat → List (List Rat)} {i : Nat} {centers : List Nat}
    (hk : 2 ≤ centers.length) (hnd : centers.Nodup) :
    (classifyOf scores i centers).length = (scores i centers).length ∧
    ∀ x ∈ classifyOf scores i centers, x < centers.length := by
  unfold classifyOf
  have hs : ¬ (seedLabels centers).length < 2 := by rw [seedLabels_of_nodup hnd]; simp; omega
  cases hr : rankReadout centers (scores i centers) with
  | error e =>
    unfold rankReadout at hr
    rw [if_neg hs] at hr; cases hr
  | ok l => exact rankReadout_spec hr

/-- ★★ `KCenters.fit` with the assignment modelled (no assumption on the labels): if it returns, then for any random
    choices and any score matrices with one row per node of the adjacency, *every* clause of C05 about k-centers
    holds — one label per node, labels below `n_clusters`, `n_clusters` distinct admissible centres split by side. -/
theorem kcentersFitScores_spec {nClusters nInit maxIter : Int} {bipartite : Bool} {nRow nCol : Nat} {pos : CenterPos}
    {chooseOf : Nat → Nat → List Nat → Nat} {scores : Nat → List Nat → List (List Rat)} {idxMax : Nat}
    {k : KFitted} {calls : Nat}
    (h : kcentersFitScores nClusters nInit maxIter bipartite nRow nCol pos chooseOf scores idxMax = .ok (k, calls))
    (hch : ∀ i, ChoiceOK (chooseOf i))
    (hshape : ∀ i centers, (scores i centers).length = (if bipartite then nRow + nCol else nRow)) :
    KCentersOK bipartite nRow nCol pos nClusters.toNat (allLabelsK k) k.centers ∧
    (bipartite = true → CentersSplitOK nRow pos k.centers k.centersRow k.centersCol) ∧
    1 ≤ maxIter ∧ calls = nInit.toNat := by
  unfold kcentersFitScores at h
  cases hchk : kcentersChecks nClusters nInit bipartite nRow nCol pos with
  | error e => rw [hchk] at h; cases h
  | ok mask =>
    rw [hchk] at h
    obtain ⟨hnc, _, _, _⟩ := kcentersChecks_ok hchk
    simp only at h
    split at h
    · cases h
    apply kcentersFitFull_spec h hch
    intro i centers hlen hnd
    have hk : 2 ≤ centers.length := by omega
    have := classifyOf_spec (scores := scores) (i := i) hk hnd
    exact ⟨this.1.trans (hshape i centers), fun l hl => hlen ▸ this.2 l hl⟩

/-- ★★ the same from the shape of the input: `get_adjacency` routing is part of the model -/
theorem kcentersEstimator_spec {nClusters nInit maxIter : Int} {directed forceBipartite : Bool} {nRow nCol nnz : Nat}
    {pos : CenterPos} {chooseOf : Nat → Nat → List Nat → Nat} {scores : Nat → List Nat → List (List Rat)}
    {idxMax : Nat} {k : KFitted} {calls : Nat}
    (h : kcentersEstimator nClusters nInit maxIter directed forceBipartite nRow nCol nnz pos chooseOf scores idxMax
      = .ok (k, calls))
    (hch : ∀ i, ChoiceOK (chooseOf i))
    (hshape : ∀ i centers, (scores i centers).length =
      (if (forceBipartite || nRow != nCol) = true then nRow + nCol else nRow)) :
    KCentersOK (forceBipartite || nRow != nCol) nRow nCol pos nClusters.toNat (allLabelsK k) k.centers ∧
    ((forceBipartite || nRow != nCol) = true → CentersSplitOK nRow pos k.centers k.centersRow k.centersCol) ∧
    1 ≤ maxIter ∧ calls = nInit.toNat ∧ 0 < nnz ∧ (directed = true → nRow = nCol) := by
  unfold kcentersEstimator at h
  split at h
  · cases h
  split at h
  · cases h
  split at h
  · cases h
  rename_i hdir
  by_cases hz : (nnz == 0) = true
  · simp [routeInput, hz] at h
  · have hz' : (nnz == 0) = false := by simpa using hz
    simp only [routeInput, hz', Bool.false_eq_true, if_false] at h
    have := kcentersFitScores_spec h hch hshape
    refine ⟨this.1, this.2.1, this.2.2.1, this.2.2.2, ?_, ?_⟩
    · simp at hz'; omega
    · intro hd
      simp [hd] at hdir
      exact hdir

end SkNet.Clustering
