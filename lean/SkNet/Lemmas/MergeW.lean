/- `AggregateGraph.merge` as a matrix operation (rational weights): rows and columns of the two merged nodes are
   added into the new node, everything else is unchanged; the key structure stays symmetric. -/
import SkNet.Lemmas.Merge

set_option linter.unusedSimpArgs false

namespace SkNet.Agg
open SkNet SkNet.Dendro

/-- effect of one iteration of `for other_node in {node1, node2}` -/
theorem W_selfStep (nb : Dict (Dict Rat)) (node new other : Nat) (x y : Nat) :
    getEntry (selfStep node new nb other) x y =
      if x = new ∧ y = new then getEntry nb new new + getEntry nb node other else getEntry nb x y := by
  unfold selfStep
  by_cases hk : (row nb node).contains other = true
  · simp only [hk, if_true, getEntry_setEntry]
  · have h0 : getEntry nb node other = 0 := getEntry_of_not_K (by simpa [K] using hk)
    rw [if_neg hk, h0, Rat.add_zero]
    by_cases h : x = new ∧ y = new
    · rw [if_pos h, h.1, h.2]
    · rw [if_neg h]

theorem K_selfStep (nb : Dict (Dict Rat)) (node new other : Nat) (hnn : K nb new new = true) (x y : Nat) :
    K (selfStep node new nb other) x y = K nb x y := by
  unfold selfStep
  split
  · rw [K_setEntry]
    by_cases h : x = new ∧ y = new
    · rw [h.1, h.2, hnn]; simp
    · simp [h]
  · rfl

/-- membership in the list of the remaining neighbours -/
theorem mem_others (nb : Dict (Dict Rat)) (node n1 n2 y : Nat) :
    y ∈ (row nb node).keys.filter (fun k => k != n1 && k != n2) ↔ (K nb node y = true ∧ y ≠ n1 ∧ y ≠ n2) := by
  rw [List.mem_filter, mem_keys_row_iff]
  simp

/-- the whole body of `for node in {node1, node2}` for one node -/
theorem W_nodeStep (nb : Dict (Dict Rat)) {n1 n2 new node : Nat} (hnode : node = n1 ∨ node = n2)
    (h12 : n1 ≠ n2) (h4 : new ≠ n1) (h5 : new ≠ n2) (hrn : RowsNodup nb) (hfresh : K nb node new = false) (x y : Nat) :
    getEntry (nodeStep n1 n2 new [n1, n2] nb node) x y =
      if x = node then 0
      else if x = new ∧ y = new then getEntry nb new new + getEntry nb node n1 + getEntry nb node n2
      else if x = new ∧ (K nb node y = true ∧ y ≠ n1 ∧ y ≠ n2) then getEntry nb node y
      else if y = new ∧ (K nb node x = true ∧ x ≠ n1 ∧ x ≠ n2) then getEntry nb x node
      else if y = node ∧ (K nb node x = true ∧ x ≠ n1 ∧ x ≠ n2) then 0
      else getEntry nb x y := by
  have hnew : new ≠ node := by rcases hnode with e | e <;> (rw [e]; assumption)
  unfold nodeStep
  simp only [getEntry_erase, List.foldl_cons, List.foldl_nil, W_selfStep]
  have hnd : ((row nb node).keys.filter fun k => k != n1 && k != n2).Nodup := (hrn node).filter _
  have hmem : ∀ c ∈ (row nb node).keys.filter (fun k => k != n1 && k != n2), c ≠ node ∧ c ≠ new := by
    intro c hc
    obtain ⟨hk, hc1, hc2⟩ := (mem_others nb node n1 n2 c).mp hc
    refine ⟨by rcases hnode with e | e <;> (rw [e]; assumption), ?_⟩
    intro e; rw [e, hfresh] at hk; cases hk
  simp only [W_otherFold hnew _ nb hnd hmem, mem_others]
  have hnewo : ¬ (K nb node new = true ∧ new ≠ n1 ∧ new ≠ n2) := by rw [hfresh]; simp
  have hnew' := Ne.symm hnew
  have h4' := Ne.symm h4
  have h5' := Ne.symm h5
  have h12' := Ne.symm h12
  clear hmem hnd hrn
  rcases hnode with e | e <;> subst e <;>
    by_cases hxd : x = node <;> by_cases hxn : x = new <;> by_cases hyn : y = new <;> by_cases hyd : y = node <;>
    simp_all

end SkNet.Agg
