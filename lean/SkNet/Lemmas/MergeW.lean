/- `AggregateGraph.merge` as a matrix operation (rational weights): rows and columns of the two merged nodes are
   added into the new node, everything else is unchanged; the key structure stays symmetric. -/
import SkNet.Lemmas.Merge

set_option linter.unusedSimpArgs false

namespace SkNet.Agg
open SkNet SkNet.Dendro

/-- effect of one iteration of `for other_node in {node1, node2}` -/
theorem W_selfStep (nb : Dict (Dict Rat)) (node new other : Nat) (x y : Nat) :
    getEntry (selfStep node new nb other) x y =
      if x = new ∧ y = new then getEntry nb new new + getEntry nb node other else getEntry nb x y := by
  unfold selfStep
  by_cases hk : (row nb node).contains other = true
  · simp only [hk, if_true, getEntry_setEntry]
  · have h0 : getEntry nb node other = 0 := getEntry_of_not_K (by simpa [K] using hk)
    rw [if_neg hk, h0, Rat.add_zero]
    by_cases h : x = new ∧ y = new
    · rw [if_pos h, h.1, h.2]
    · rw [if_neg h]

theorem K_selfStep (nb : Dict (Dict Rat)) (node new other : Nat) (hnn : K nb new new = true) (x y : Nat) :
    K (selfStep node new nb other) x y = K nb x y := by
  unfold selfStep
  split
  · rw [K_setEntry]
    by_cases h : x = new ∧ y = new
    · rw [h.1, h.2, hnn]; simp
    · simp [h]
  · rfl

/-- membership in the list of the remaining neighbours -/
theorem mem_others (nb : Dict (Dict Rat)) (node n1 n2 y : Nat) :
    y ∈ (row nb node).keys.filter (fun k => k != n1 && k != n2) ↔ (K nb node y = true ∧ y ≠ n1 ∧ y ≠ n2) := by
  rw [List.mem_filter, mem_keys_row_iff]
  simp

/-- the whole body of `for node in {node1, node2}` for one node -/
theorem W_nodeStep (nb : Dict (Dict Rat)) {n1 n2 new node : Nat} (hnode : node = n1 ∨ node = n2)
    (h12 : n1 ≠ n2) (h4 : new ≠ n1) (h5 : new ≠ n2) (hrn : RowsNodup nb) (hfresh : K nb node new = false) (x y : Nat) :
    getEntry (nodeStep n1 n2 new [n1, n2] nb node) x y =
      if x = node then 0
      else if x = new ∧ y = new then getEntry nb new new + getEntry nb node n1 + getEntry nb node n2
      else if x = new ∧ (K nb node y = true ∧ y ≠ n1 ∧ y ≠ n2) then getEntry nb node y
      else if y = new ∧ (K nb node x = true ∧ x ≠ n1 ∧ x ≠ n2) then getEntry nb x node
      else if y = node ∧ (K nb node x = true ∧ x ≠ n1 ∧ x ≠ n2) then 0
      else getEntry nb x y := by
  have hnew : new ≠ node := by rcases hnode with e | e <;> (rw [e]; assumption)
  unfold nodeStep
  simp only [getEntry_erase, List.foldl_cons, List.foldl_nil, W_selfStep]
  have hnd : ((row nb node).keys.filter fun k => k != n1 && k != n2).Nodup := (hrn node).filter _
  have hmem : ∀ c ∈ (row nb node).keys.filter (fun k => k != n1 && k != n2), c ≠ node ∧ c ≠ new := by
    intro c hc
    obtain ⟨hk, hc1, hc2⟩ := (mem_others nb node n1 n2 c).mp hc
    refine ⟨by rcases hnode with e | e <;> (rw [e]; assumption), ?_⟩
    intro e; rw [e, hfresh] at hk; cases hk
  simp only [W_otherFold hnew _ nb hnd hmem, mem_others]
  have hnewo : ¬ (K nb node new = true ∧ new ≠ n1 ∧ new ≠ n2) := by rw [hfresh]; simp
  have hnew' := Ne.symm hnew
  have h4' := Ne.symm h4
  have h5' := Ne.symm h5
  have h12' := Ne.symm h12
  clear hmem hnd hrn
  rcases hnode with e | e <;> subst e <;>
    by_cases hxd : x = node <;> by_cases hxn : x = new <;> by_cases hyn : y = new <;> by_cases hyd : y = node <;>
    simp_all


theorem K_nodeStep (nb : Dict (Dict Rat)) {n1 n2 new node : Nat} (hnode : node = n1 ∨ node = n2)
    (h12 : n1 ≠ n2) (h4 : new ≠ n1) (h5 : new ≠ n2) (hrn : RowsNodup nb) (hfresh : K nb node new = false)
    (hnn : K nb new new = true) (x y : Nat) :
    K (nodeStep n1 n2 new [n1, n2] nb node) x y =
      if x = node then false
      else if (x = new ∧ (K nb node y = true ∧ y ≠ n1 ∧ y ≠ n2)) ∨
          (y = new ∧ (K nb node x = true ∧ x ≠ n1 ∧ x ≠ n2)) then true
      else if y = node ∧ (K nb node x = true ∧ x ≠ n1 ∧ x ≠ n2) then false
      else K nb x y := by
  have hnew : new ≠ node := by rcases hnode with e | e <;> (rw [e]; assumption)
  have hnd : ((row nb node).keys.filter fun k => k != n1 && k != n2).Nodup := (hrn node).filter _
  have hmem : ∀ c ∈ (row nb node).keys.filter (fun k => k != n1 && k != n2), c ≠ node ∧ c ≠ new := by
    intro c hc
    obtain ⟨hk, hc1, hc2⟩ := (mem_others nb node n1 n2 c).mp hc
    refine ⟨by rcases hnode with e | e <;> (rw [e]; assumption), ?_⟩
    intro e; rw [e, hfresh] at hk; cases hk
  have hnn1 : K (List.foldl (otherStep node new) nb
      ((row nb node).keys.filter fun k => k != n1 && k != n2)) new new = true := by
    rw [K_otherFold hnew _ nb hnd hmem]
    have hno : new ∉ (row nb node).keys.filter (fun k => k != n1 && k != n2) := fun hm => (hmem new hm).2 rfl
    simp only [hno, and_false, or_self, if_false, false_and, Bool.false_eq_true]
    exact hnn
  unfold nodeStep
  simp only [K_erase, List.foldl_cons, List.foldl_nil]
  rw [K_selfStep _ _ _ _ (by rw [K_selfStep _ _ _ _ hnn1]; exact hnn1), K_selfStep _ _ _ _ hnn1]
  simp only [K_otherFold hnew _ nb hnd hmem, mem_others]
  have hnew' := Ne.symm hnew
  have h4' := Ne.symm h4
  have h5' := Ne.symm h5
  have h12' := Ne.symm h12
  clear hmem hnd hrn hnn1
  rcases hnode with e | e <;> subst e <;>
    by_cases hxd : x = node <;> by_cases hxn : x = new <;> by_cases hyn : y = new <;> by_cases hyd : y = node <;>
    simp_all


/-! ### the whole merge -/

/-- the state after `neighbors[new] = {new: 0}` and the loop over the common neighbours -/
theorem common_stage (nb : Dict (Dict Rat)) {n1 n2 new : Nat} (h4 : new ≠ n1) (h5 : new ≠ n2)
    (hrn : RowsNodup nb) (hfr : ∀ x, K nb x new = false) :
    let nb0 := nb.set new [(new, (0 : Rat))]
    let cs := (row nb0 n1).keys.filter fun k => (row nb0 n2).keys.contains k && k != n1 && k != n2
    let nb1 := cs.foldl (commonStep n1 n2 new) nb0
    RowsNodup nb1 ∧
    (∀ x y, getEntry nb1 x y =
      if x = new ∧ (K nb n1 y = true ∧ K nb n2 y = true ∧ y ≠ n1 ∧ y ≠ n2) then getEntry nb n1 y + getEntry nb n2 y
      else if y = new ∧ (K nb n1 x = true ∧ K nb n2 x = true ∧ x ≠ n1 ∧ x ≠ n2) then getEntry nb x n1 + getEntry nb x n2
      else if (x = n1 ∨ x = n2) ∧ (K nb n1 y = true ∧ K nb n2 y = true ∧ y ≠ n1 ∧ y ≠ n2) then 0
      else if (y = n1 ∨ y = n2) ∧ (K nb n1 x = true ∧ K nb n2 x = true ∧ x ≠ n1 ∧ x ≠ n2) then 0
      else if x = new then 0 else getEntry nb x y) ∧
    (∀ x y, K nb1 x y =
      if (x = new ∧ (K nb n1 y = true ∧ K nb n2 y = true ∧ y ≠ n1 ∧ y ≠ n2)) ∨
          (y = new ∧ (K nb n1 x = true ∧ K nb n2 x = true ∧ x ≠ n1 ∧ x ≠ n2)) then true
      else if ((x = n1 ∨ x = n2) ∧ (K nb n1 y = true ∧ K nb n2 y = true ∧ y ≠ n1 ∧ y ≠ n2)) ∨
          ((y = n1 ∨ y = n2) ∧ (K nb n1 x = true ∧ K nb n2 x = true ∧ x ≠ n1 ∧ x ≠ n2)) then false
      else if x = new then decide (y = new) else K nb x y) := by
  intro nb0 cs nb1
  let C := fun z => K nb n1 z = true ∧ K nb n2 z = true ∧ z ≠ n1 ∧ z ≠ n2
  have hrow : ∀ z, z ≠ new → row nb0 z = row nb z := by
    intro z hz; show row (nb.set new _) z = _; rw [row_set]; simp [hz]
  have hW0 : ∀ x y, getEntry nb0 x y = if x = new then 0 else getEntry nb x y := by
    intro x y
    show getEntry (nb.set new _) x y = _
    unfold getEntry
    rw [row_set]
    by_cases hx : x = new
    · simp only [hx, if_true, Dict.get?_cons, Dict.get?_nil]
      split <;> rfl
    · simp [hx]
  have hK0 : ∀ x y, K nb0 x y = if x = new then decide (y = new) else K nb x y := by
    intro x y
    show K (nb.set new _) x y = _
    unfold K Dict.contains
    rw [row_set]
    by_cases hx : x = new
    · simp only [hx, if_true, Dict.get?_cons, Dict.get?_nil]
      by_cases hy : new = y
      · simp [hy]
      · have : ¬ y = new := fun e => hy e.symm
        simp [hy, this]
    · simp [hx]
  have hmem : ∀ z, z ∈ cs ↔ C z := by
    intro z
    show z ∈ (row nb0 n1).keys.filter _ ↔ _
    rw [List.mem_filter, hrow n1 (Ne.symm h4), hrow n2 (Ne.symm h5), mem_keys_row_iff]
    simp only [Bool.and_eq_true, List.contains_iff_mem, mem_keys_row_iff, bne_iff_ne, ne_eq]
    constructor
    · rintro ⟨a, ⟨b, c⟩, d⟩; exact ⟨a, b, c, d⟩
    · rintro ⟨a, b, c, d⟩; exact ⟨a, ⟨b, c⟩, d⟩
  have hnd : cs.Nodup := by
    show ((row nb0 n1).keys.filter _).Nodup
    rw [hrow n1 (Ne.symm h4)]; exact (hrn n1).filter _
  have hcs : ∀ c ∈ cs, c ≠ n1 ∧ c ≠ n2 ∧ c ≠ new := by
    intro c hc
    obtain ⟨a, b, c1, c2⟩ := (hmem c).mp hc
    refine ⟨c1, c2, ?_⟩
    intro e; rw [e, hfr] at a; cases a
  have hrn0 : RowsNodup nb0 := by
    intro z
    show (row (nb.set new _) z).keys.Nodup
    rw [row_set]
    split
    · simp [Dict.keys]
    · exact hrn z
  refine ⟨rowsNodup_foldl _ (fun nb b hb => rowsNodup_commonStep hb _ _ _ _) _ _ hrn0, ?_, ?_⟩
  · intro x y
    show getEntry (cs.foldl _ nb0) x y = _
    rw [W_commonFold h4 h5 cs nb0 hnd hcs]
    simp only [hmem, hW0, Ne.symm h4, Ne.symm h5, if_false]
    show _ = if x = new ∧ C y then _ else if y = new ∧ C x then _ else if (x = n1 ∨ x = n2) ∧ C y then _
      else if (y = n1 ∨ y = n2) ∧ C x then _ else _
    by_cases hCx : C x
    · have : x ≠ new := fun e => by
        rw [e] at hCx
        have h1 : K nb n1 new = true := hCx.1
        rw [hfr] at h1; cases h1
      simp [hCx, this]
    · simp [hCx]
  · intro x y
    show K (cs.foldl _ nb0) x y = _
    rw [K_commonFold h4 h5 cs nb0 hnd hcs]
    simp only [hmem, hK0]
    rfl


/-- the state after the common neighbours and the first node (`node1`) have been processed -/
theorem stage2 (nb : Dict (Dict Rat)) {n1 n2 new : Nat} (h12 : n1 ≠ n2) (h4 : new ≠ n1) (h5 : new ≠ n2)
    (hrn : RowsNodup nb) (hfr : ∀ x, K nb x new = false) (hsym : ∀ x y, K nb x y = K nb y x)
    (nb1 : Dict (Dict Rat)) (hrn1 : RowsNodup nb1)
    (hW1 : ∀ x y, getEntry nb1 x y =
      if x = new ∧ (K nb n1 y = true ∧ K nb n2 y = true ∧ y ≠ n1 ∧ y ≠ n2) then getEntry nb n1 y + getEntry nb n2 y
      else if y = new ∧ (K nb n1 x = true ∧ K nb n2 x = true ∧ x ≠ n1 ∧ x ≠ n2) then getEntry nb x n1 + getEntry nb x n2
      else if (x = n1 ∨ x = n2) ∧ (K nb n1 y = true ∧ K nb n2 y = true ∧ y ≠ n1 ∧ y ≠ n2) then 0
      else if (y = n1 ∨ y = n2) ∧ (K nb n1 x = true ∧ K nb n2 x = true ∧ x ≠ n1 ∧ x ≠ n2) then 0
      else if x = new then 0 else getEntry nb x y)
    (hK1 : ∀ x y, K nb1 x y =
      if (x = new ∧ (K nb n1 y = true ∧ K nb n2 y = true ∧ y ≠ n1 ∧ y ≠ n2)) ∨
          (y = new ∧ (K nb n1 x = true ∧ K nb n2 x = true ∧ x ≠ n1 ∧ x ≠ n2)) then true
      else if ((x = n1 ∨ x = n2) ∧ (K nb n1 y = true ∧ K nb n2 y = true ∧ y ≠ n1 ∧ y ≠ n2)) ∨
          ((y = n1 ∨ y = n2) ∧ (K nb n1 x = true ∧ K nb n2 x = true ∧ x ≠ n1 ∧ x ≠ n2)) then false
      else if x = new then decide (y = new) else K nb x y) :
    RowsNodup (nodeStep n1 n2 new [n1, n2] nb1 n1) ∧
    (∀ x y, getEntry (nodeStep n1 n2 new [n1, n2] nb1 n1) x y =
      if x = n1 then 0
      else if x = new then
        (if y = new then 0 + getEntry nb n1 n1 + getEntry nb n1 n2
         else if K nb n1 y = true ∧ y ≠ n1 ∧ y ≠ n2 then
           (if K nb n2 y = true then getEntry nb n1 y + getEntry nb n2 y else getEntry nb n1 y)
         else 0)
      else if y = new then
        (if K nb n1 x = true ∧ x ≠ n1 ∧ x ≠ n2 then
           (if K nb n2 x = true then getEntry nb x n1 + getEntry nb x n2 else getEntry nb x n1)
         else 0)
      else if y = n1 then (if x = n2 then getEntry nb n2 n1 else 0)
      else if x = n2 then
        (if K nb n1 y = true ∧ K nb n2 y = true ∧ y ≠ n1 ∧ y ≠ n2 then 0 else getEntry nb n2 y)
      else if y = n2 then
        (if K nb n1 x = true ∧ K nb n2 x = true ∧ x ≠ n1 ∧ x ≠ n2 then 0 else getEntry nb x n2)
      else getEntry nb x y) ∧
    (∀ x y, K (nodeStep n1 n2 new [n1, n2] nb1 n1) x y =
      if x = n1 then false
      else if x = new then (decide (y = new) || (K nb n1 y && decide (y ≠ n1) && decide (y ≠ n2)))
      else if y = new then (K nb n1 x && decide (x ≠ n1) && decide (x ≠ n2))
      else if y = n1 then (if x = n2 then K nb n2 n1 else false)
      else if x = n2 then
        (if K nb n1 y = true ∧ K nb n2 y = true ∧ y ≠ n1 ∧ y ≠ n2 then false else K nb n2 y)
      else if y = n2 then
        (if K nb n1 x = true ∧ K nb n2 x = true ∧ x ≠ n1 ∧ x ≠ n2 then false else K nb x n2)
      else K nb x y) := by
  have hC1 : ¬ (K nb n1 n1 = true ∧ K nb n2 n1 = true ∧ n1 ≠ n1 ∧ n1 ≠ n2) := fun h => h.2.2.1 rfl
  have hCn : ¬ (K nb n1 new = true ∧ K nb n2 new = true ∧ new ≠ n1 ∧ new ≠ n2) := by rw [hfr]; simp
  have h4' := Ne.symm h4
  have h5' := Ne.symm h5
  have h12' := Ne.symm h12
  have hf1 : K nb1 n1 new = false := by rw [hK1]; simp [h4', hC1, hCn, hfr]
  have hnn1 : K nb1 new new = true := by rw [hK1]; simp [hCn]
  have hK2 := K_nodeStep nb1 (Or.inl rfl) h12 h4 h5 hrn1 hf1 hnn1
  have hW2 := W_nodeStep nb1 (node := n1) (Or.inl rfl) h12 h4 h5 hrn1 hf1
  have z1 : ∀ z, ¬ K nb n1 z = true → getEntry nb n1 z = 0 := fun z h => getEntry_of_not_K (by simpa using h)
  have z3 : ∀ z, ¬ K nb n1 z = true → getEntry nb z n1 = 0 := fun z h =>
    getEntry_of_not_K (by rw [hsym]; simpa using h)
  have z5 : ∀ z, getEntry nb z new = 0 := fun z => getEntry_of_not_K (hfr z)
  have s1 : ∀ z, z ≠ n1 → z ≠ n2 → K nb z n1 = K nb n1 z := fun z _ _ => hsym z n1
  refine ⟨rowsNodup_nodeStep hrn1 n1 n2 new [n1, n2] n1, ?_, ?_⟩
  · intro x y
    rw [hW2]
    simp only [hK1, hW1]
    clear hK2 hW2 hK1 hW1 hrn hrn1 hsym hf1 hnn1
    have hx : x = n1 ∨ x = n2 ∨ x = new ∨ (x ≠ n1 ∧ x ≠ n2 ∧ x ≠ new) := by
      by_cases e1 : x = n1; · exact Or.inl e1
      by_cases e2 : x = n2; · exact Or.inr (Or.inl e2)
      by_cases e3 : x = new; · exact Or.inr (Or.inr (Or.inl e3))
      exact Or.inr (Or.inr (Or.inr ⟨e1, e2, e3⟩))
    have hy : y = n1 ∨ y = n2 ∨ y = new ∨ (y ≠ n1 ∧ y ≠ n2 ∧ y ≠ new) := by
      by_cases e1 : y = n1; · exact Or.inl e1
      by_cases e2 : y = n2; · exact Or.inr (Or.inl e2)
      by_cases e3 : y = new; · exact Or.inr (Or.inr (Or.inl e3))
      exact Or.inr (Or.inr (Or.inr ⟨e1, e2, e3⟩))
    rcases hx with hxe | hxe | hxe | ⟨a1, a2, a3⟩
    · subst x
      rcases hy with hye | hye | hye | ⟨b1, b2, b3⟩
      · subst y; simp_all
      · subst y; simp_all
      · subst y; simp_all
      · by_cases hk1y : K nb n1 y = true <;> by_cases hk2y : K nb n2 y = true <;> simp_all
    · subst x
      rcases hy with hye | hye | hye | ⟨b1, b2, b3⟩
      · subst y; simp_all
      · subst y; simp_all
      · subst y; simp_all
      · by_cases hk1y : K nb n1 y = true <;> by_cases hk2y : K nb n2 y = true <;> simp_all
    · subst x
      rcases hy with hye | hye | hye | ⟨b1, b2, b3⟩
      · subst y; simp_all
      · subst y; simp_all
      · subst y; simp_all
      · by_cases hk1y : K nb n1 y = true <;> by_cases hk2y : K nb n2 y = true <;> simp_all
    · rcases hy with hye | hye | hye | ⟨b1, b2, b3⟩
      · subst y
        by_cases hk1x : K nb n1 x = true <;> by_cases hk2x : K nb n2 x = true <;> simp_all
      · subst y
        by_cases hk1x : K nb n1 x = true <;> by_cases hk2x : K nb n2 x = true <;> simp_all
      · subst y
        by_cases hk1x : K nb n1 x = true <;> by_cases hk2x : K nb n2 x = true <;> simp_all
      · by_cases hk1x : K nb n1 x = true <;> by_cases hk2x : K nb n2 x = true <;>
          by_cases hk1y : K nb n1 y = true <;> by_cases hk2y : K nb n2 y = true <;> simp_all
  · intro x y
    rw [hK2]
    simp only [hK1]
    clear hK2 hW2 hK1 hW1 hrn hrn1 hsym hf1 hnn1
    have hx : x = n1 ∨ x = n2 ∨ x = new ∨ (x ≠ n1 ∧ x ≠ n2 ∧ x ≠ new) := by
      by_cases e1 : x = n1; · exact Or.inl e1
      by_cases e2 : x = n2; · exact Or.inr (Or.inl e2)
      by_cases e3 : x = new; · exact Or.inr (Or.inr (Or.inl e3))
      exact Or.inr (Or.inr (Or.inr ⟨e1, e2, e3⟩))
    have hy : y = n1 ∨ y = n2 ∨ y = new ∨ (y ≠ n1 ∧ y ≠ n2 ∧ y ≠ new) := by
      by_cases e1 : y = n1; · exact Or.inl e1
      by_cases e2 : y = n2; · exact Or.inr (Or.inl e2)
      by_cases e3 : y = new; · exact Or.inr (Or.inr (Or.inl e3))
      exact Or.inr (Or.inr (Or.inr ⟨e1, e2, e3⟩))
    rcases hx with hxe | hxe | hxe | ⟨a1, a2, a3⟩
    · subst x
      rcases hy with hye | hye | hye | ⟨b1, b2, b3⟩
      · subst y; simp_all
      · subst y; simp_all
      · subst y; simp_all
      · by_cases hk1y : K nb n1 y = true <;> by_cases hk2y : K nb n2 y = true <;> simp_all
    · subst x
      rcases hy with hye | hye | hye | ⟨b1, b2, b3⟩
      · subst y; simp_all
      · subst y; simp_all
      · subst y; simp_all
      · by_cases hk1y : K nb n1 y = true <;> by_cases hk2y : K nb n2 y = true <;> simp_all
    · subst x
      rcases hy with hye | hye | hye | ⟨b1, b2, b3⟩
      · subst y; simp_all
      · subst y; simp_all
      · subst y; simp_all
      · by_cases hk1y : K nb n1 y = true <;> by_cases hk2y : K nb n2 y = true <;> simp_all
    · rcases hy with hye | hye | hye | ⟨b1, b2, b3⟩
      · subst y
        by_cases hk1x : K nb n1 x = true <;> by_cases hk2x : K nb n2 x = true <;> simp_all
      · subst y
        by_cases hk1x : K nb n1 x = true <;> by_cases hk2x : K nb n2 x = true <;> simp_all
      · subst y
        by_cases hk1x : K nb n1 x = true <;> by_cases hk2x : K nb n2 x = true <;> simp_all
      · by_cases hk1x : K nb n1 x = true <;> by_cases hk2x : K nb n2 x = true <;>
          by_cases hk1y : K nb n1 y = true <;> by_cases hk2y : K nb n2 y = true <;> simp_all


/-- **`AggregateGraph.merge` on the weights and on the stored keys** (`merge_invariant`).  With distinct merged
    nodes, a fresh id `new`, rows with distinct keys and a symmetric key structure: the rows and columns of `n1`,
    `n2` disappear, the new node receives their sums, its self-loop collects the four entries among `n1`, `n2`,
    everything else is unchanged; a key of the new row is stored exactly for the neighbours of `n1` or `n2`. -/
theorem mergeNb_spec (nb : Dict (Dict Rat)) {n1 n2 new : Nat} (h12 : n1 ≠ n2) (h4 : new ≠ n1) (h5 : new ≠ n2)
    (hrn : RowsNodup nb) (hfr : ∀ x, K nb x new = false) (hsym : ∀ x y, K nb x y = K nb y x) :
    RowsNodup (mergeNb nb n1 n2 new) ∧
    (∀ x y, getEntry (mergeNb nb n1 n2 new) x y =
      if x = n1 ∨ x = n2 ∨ y = n1 ∨ y = n2 then 0
      else if x = new ∧ y = new then
        0 + getEntry nb n1 n1 + getEntry nb n1 n2 + getEntry nb n2 n1 + getEntry nb n2 n2
      else if x = new then getEntry nb n1 y + getEntry nb n2 y
      else if y = new then getEntry nb x n1 + getEntry nb x n2
      else getEntry nb x y) ∧
    (∀ x y, K (mergeNb nb n1 n2 new) x y =
      if x = n1 ∨ x = n2 ∨ y = n1 ∨ y = n2 then false
      else if x = new then (decide (y = new) || K nb n1 y || K nb n2 y)
      else if y = new then (K nb n1 x || K nb n2 x)
      else K nb x y) := by
  obtain ⟨hrn1, hW1, hK1⟩ := common_stage nb h4 h5 hrn hfr
  generalize hnb1 : (List.foldl (commonStep n1 n2 new) (nb.set new [(new, (0 : Rat))])
    ((row (nb.set new [(new, (0 : Rat))]) n1).keys.filter fun k =>
      (row (nb.set new [(new, (0 : Rat))]) n2).keys.contains k && k != n1 && k != n2)) = nb1 at hrn1 hW1 hK1
  have hunf : mergeNb nb n1 n2 new =
      nodeStep n1 n2 new [n1, n2] (nodeStep n1 n2 new [n1, n2] nb1 n1) n2 := by
    unfold mergeNb
    simp only [h12, if_false, List.foldl_cons, List.foldl_nil]
    rw [hnb1]
  rw [hunf]
  obtain ⟨hrn2, hW2, hK2⟩ := stage2 nb h12 h4 h5 hrn hfr hsym nb1 hrn1 hW1 hK1
  generalize nodeStep n1 n2 new [n1, n2] nb1 n1 = nb2 at hrn2 hW2 hK2
  have h4' := Ne.symm h4
  have h5' := Ne.symm h5
  have h12' := Ne.symm h12
  have hf2 : K nb2 n2 new = false := by rw [hK2]; simp [h12', h5']
  have hnn2 : K nb2 new new = true := by rw [hK2]; simp [h4]
  have hK3 := K_nodeStep nb2 (Or.inr rfl) h12 h4 h5 hrn2 hf2 hnn2
  have hW3 := W_nodeStep nb2 (node := n2) (Or.inr rfl) h12 h4 h5 hrn2 hf2
  have z2 : ∀ z, ¬ K nb n2 z = true → getEntry nb n2 z = 0 := fun z h => getEntry_of_not_K (by simpa using h)
  have z4 : ∀ z, ¬ K nb n2 z = true → getEntry nb z n2 = 0 := fun z h =>
    getEntry_of_not_K (by rw [hsym]; simpa using h)
  have z1 : ∀ z, ¬ K nb n1 z = true → getEntry nb n1 z = 0 := fun z h => getEntry_of_not_K (by simpa using h)
  have z3 : ∀ z, ¬ K nb n1 z = true → getEntry nb z n1 = 0 := fun z h =>
    getEntry_of_not_K (by rw [hsym]; simpa using h)
  have z5 : ∀ z, getEntry nb z new = 0 := fun z => getEntry_of_not_K (hfr z)
  have s1 : ∀ z, z ≠ n1 → z ≠ n2 → K nb z n1 = K nb n1 z := fun z _ _ => hsym z n1
  have s2 : ∀ z, z ≠ n1 → z ≠ n2 → K nb z n2 = K nb n2 z := fun z _ _ => hsym z n2
  refine ⟨rowsNodup_nodeStep hrn2 n1 n2 new [n1, n2] n2, ?_, ?_⟩
  · intro x y
    rw [hW3]
    simp only [hK2, hW2]
    clear hK3 hW3 hK2 hW2 hK1 hW1 hrn hrn1 hrn2 hsym hf2 hnn2 hunf hnb1
    have hx : x = n1 ∨ x = n2 ∨ x = new ∨ (x ≠ n1 ∧ x ≠ n2 ∧ x ≠ new) := by
      by_cases e1 : x = n1; · exact Or.inl e1
      by_cases e2 : x = n2; · exact Or.inr (Or.inl e2)
      by_cases e3 : x = new; · exact Or.inr (Or.inr (Or.inl e3))
      exact Or.inr (Or.inr (Or.inr ⟨e1, e2, e3⟩))
    have hy : y = n1 ∨ y = n2 ∨ y = new ∨ (y ≠ n1 ∧ y ≠ n2 ∧ y ≠ new) := by
      by_cases e1 : y = n1; · exact Or.inl e1
      by_cases e2 : y = n2; · exact Or.inr (Or.inl e2)
      by_cases e3 : y = new; · exact Or.inr (Or.inr (Or.inl e3))
      exact Or.inr (Or.inr (Or.inr ⟨e1, e2, e3⟩))
    rcases hx with hxe | hxe | hxe | ⟨a1, a2, a3⟩
    · subst x
      rcases hy with hye | hye | hye | ⟨b1, b2, b3⟩
      · subst y; simp_all [Rat.add_zero, Rat.zero_add]
      · subst y; simp_all [Rat.add_zero, Rat.zero_add]
      · subst y; simp_all [Rat.add_zero, Rat.zero_add]
      · by_cases hk1y : K nb n1 y = true <;> by_cases hk2y : K nb n2 y = true <;> simp_all [Rat.add_zero, Rat.zero_add]
    · subst x
      rcases hy with hye | hye | hye | ⟨b1, b2, b3⟩
      · subst y; simp_all [Rat.add_zero, Rat.zero_add]
      · subst y; simp_all [Rat.add_zero, Rat.zero_add]
      · subst y; simp_all [Rat.add_zero, Rat.zero_add]
      · by_cases hk1y : K nb n1 y = true <;> by_cases hk2y : K nb n2 y = true <;> simp_all [Rat.add_zero, Rat.zero_add]
    · subst x
      rcases hy with hye | hye | hye | ⟨b1, b2, b3⟩
      · subst y; simp_all [Rat.add_zero, Rat.zero_add]
      · subst y; simp_all [Rat.add_zero, Rat.zero_add]
      · subst y; simp_all [Rat.add_zero, Rat.zero_add]
      · by_cases hk1y : K nb n1 y = true <;> by_cases hk2y : K nb n2 y = true <;> simp_all [Rat.add_zero, Rat.zero_add]
    · rcases hy with hye | hye | hye | ⟨b1, b2, b3⟩
      · subst y
        by_cases hk1x : K nb n1 x = true <;> by_cases hk2x : K nb n2 x = true <;> simp_all [Rat.add_zero, Rat.zero_add]
      · subst y
        by_cases hk1x : K nb n1 x = true <;> by_cases hk2x : K nb n2 x = true <;> simp_all [Rat.add_zero, Rat.zero_add]
      · subst y
        by_cases hk1x : K nb n1 x = true <;> by_cases hk2x : K nb n2 x = true <;> simp_all [Rat.add_zero, Rat.zero_add]
      · by_cases hk1x : K nb n1 x = true <;> by_cases hk2x : K nb n2 x = true <;>
          by_cases hk1y : K nb n1 y = true <;> by_cases hk2y : K nb n2 y = true <;> simp_all [Rat.add_zero, Rat.zero_add]
  · intro x y
    rw [hK3]
    simp only [hK2]
    clear hK3 hW3 hK2 hW2 hK1 hW1 hrn hrn1 hrn2 hsym hf2 hnn2 hunf hnb1
    have hx : x = n1 ∨ x = n2 ∨ x = new ∨ (x ≠ n1 ∧ x ≠ n2 ∧ x ≠ new) := by
      by_cases e1 : x = n1; · exact Or.inl e1
      by_cases e2 : x = n2; · exact Or.inr (Or.inl e2)
      by_cases e3 : x = new; · exact Or.inr (Or.inr (Or.inl e3))
      exact Or.inr (Or.inr (Or.inr ⟨e1, e2, e3⟩))
    have hy : y = n1 ∨ y = n2 ∨ y = new ∨ (y ≠ n1 ∧ y ≠ n2 ∧ y ≠ new) := by
      by_cases e1 : y = n1; · exact Or.inl e1
      by_cases e2 : y = n2; · exact Or.inr (Or.inl e2)
      by_cases e3 : y = new; · exact Or.inr (Or.inr (Or.inl e3))
      exact Or.inr (Or.inr (Or.inr ⟨e1, e2, e3⟩))
    rcases hx with hxe | hxe | hxe | ⟨a1, a2, a3⟩
    · subst x
      rcases hy with hye | hye | hye | ⟨b1, b2, b3⟩
      · subst y; simp_all [Rat.add_zero, Rat.zero_add]
      · subst y; simp_all [Rat.add_zero, Rat.zero_add]
      · subst y; simp_all [Rat.add_zero, Rat.zero_add]
      · by_cases hk1y : K nb n1 y = true <;> by_cases hk2y : K nb n2 y = true <;> simp_all [Rat.add_zero, Rat.zero_add]
    · subst x
      rcases hy with hye | hye | hye | ⟨b1, b2, b3⟩
      · subst y; simp_all [Rat.add_zero, Rat.zero_add]
      · subst y; simp_all [Rat.add_zero, Rat.zero_add]
      · subst y; simp_all [Rat.add_zero, Rat.zero_add]
      · by_cases hk1y : K nb n1 y = true <;> by_cases hk2y : K nb n2 y = true <;> simp_all [Rat.add_zero, Rat.zero_add]
    · subst x
      rcases hy with hye | hye | hye | ⟨b1, b2, b3⟩
      · subst y; simp_all [Rat.add_zero, Rat.zero_add]
      · subst y; simp_all [Rat.add_zero, Rat.zero_add]
      · subst y; simp_all [Rat.add_zero, Rat.zero_add]
      · by_cases hk1y : K nb n1 y = true <;> by_cases hk2y : K nb n2 y = true <;> simp_all [Rat.add_zero, Rat.zero_add]
    · rcases hy with hye | hye | hye | ⟨b1, b2, b3⟩
      · subst y
        by_cases hk1x : K nb n1 x = true <;> by_cases hk2x : K nb n2 x = true <;> simp_all [Rat.add_zero, Rat.zero_add]
      · subst y
        by_cases hk1x : K nb n1 x = true <;> by_cases hk2x : K nb n2 x = true <;> simp_all [Rat.add_zero, Rat.zero_add]
      · subst y
        by_cases hk1x : K nb n1 x = true <;> by_cases hk2x : K nb n2 x = true <;> simp_all [Rat.add_zero, Rat.zero_add]
      · by_cases hk1x : K nb n1 x = true <;> by_cases hk2x : K nb n2 x = true <;>
          by_cases hk1y : K nb n1 y = true <;> by_cases hk2y : K nb n2 y = true <;> simp_all [Rat.add_zero, Rat.zero_add]


/-! ### the invariant of the dict of dicts -/

/-- rows with distinct keys, symmetric key structure, no key at or above `next`, symmetric non-negative weights -/
structure NbInv (nb : Dict (Dict Rat)) (next : Nat) : Prop where
  rows : RowsNodup nb
  sym : ∀ x y, K nb x y = K nb y x
  fresh : ∀ x z, next ≤ z → K nb x z = false
  wsym : ∀ x y, getEntry nb x y = getEntry nb y x
  nonneg : ∀ x y, 0 ≤ getEntry nb x y

theorem nbInv_merge {nb : Dict (Dict Rat)} {next n1 n2 : Nat} (h : NbInv nb next) (h12 : n1 ≠ n2)
    (h1 : n1 < next) (h2 : n2 < next) : NbInv (mergeNb nb n1 n2 next) (next + 1) := by
  have h4 : next ≠ n1 := by omega
  have h5 : next ≠ n2 := by omega
  obtain ⟨hr, hW, hK⟩ := mergeNb_spec nb h12 h4 h5 h.rows (fun x => h.fresh x next (Nat.le_refl _)) h.sym
  refine ⟨hr, ?_, ?_, ?_, ?_⟩
  · intro x y
    rw [hK, hK]
    by_cases hx : x = n1 ∨ x = n2
    · have : y = n1 ∨ y = n2 ∨ x = n1 ∨ x = n2 := by rcases hx with e | e <;> simp [e]
      have : x = n1 ∨ x = n2 ∨ y = n1 ∨ y = n2 := by rcases hx with e | e <;> simp [e]
      simp [*]
    · by_cases hy : y = n1 ∨ y = n2
      · have : x = n1 ∨ x = n2 ∨ y = n1 ∨ y = n2 := by rcases hy with e | e <;> simp [e]
        have : y = n1 ∨ y = n2 ∨ x = n1 ∨ x = n2 := by rcases hy with e | e <;> simp [e]
        simp [*]
      · have e1 : ¬ (x = n1 ∨ x = n2 ∨ y = n1 ∨ y = n2) := by
          intro e; rcases e with e | e | e | e
          · exact hx (Or.inl e)
          · exact hx (Or.inr e)
          · exact hy (Or.inl e)
          · exact hy (Or.inr e)
        have e2 : ¬ (y = n1 ∨ y = n2 ∨ x = n1 ∨ x = n2) := by
          intro e; rcases e with e | e | e | e
          · exact hy (Or.inl e)
          · exact hy (Or.inr e)
          · exact hx (Or.inl e)
          · exact hx (Or.inr e)
        simp only [e1, e2, if_false]
        by_cases hxn : x = next <;> by_cases hyn : y = next
        · simp [hxn, hyn]
        · simp [hxn, hyn]
        · simp [hxn, hyn]
        · simp [hxn, hyn, h.sym x y]
  · intro x z hz
    rw [hK]
    have hz1 : z ≠ n1 := by omega
    have hz2 : z ≠ n2 := by omega
    have hzn : z ≠ next := by omega
    have f1 := h.fresh n1 z (by omega)
    have f2 := h.fresh n2 z (by omega)
    have f3 := h.fresh x z (by omega)
    by_cases hx : x = n1 ∨ x = n2
    · have : x = n1 ∨ x = n2 ∨ z = n1 ∨ z = n2 := by rcases hx with e | e <;> simp [e]
      simp [this]
    · have e1 : ¬ (x = n1 ∨ x = n2 ∨ z = n1 ∨ z = n2) := by
        intro e; rcases e with e | e | e | e
        · exact hx (Or.inl e)
        · exact hx (Or.inr e)
        · exact hz1 e
        · exact hz2 e
      simp [e1, hzn, f1, f2, f3]
  · intro x y
    rw [hW, hW]
    by_cases hx : x = n1 ∨ x = n2
    · have : y = n1 ∨ y = n2 ∨ x = n1 ∨ x = n2 := by rcases hx with e | e <;> simp [e]
      have : x = n1 ∨ x = n2 ∨ y = n1 ∨ y = n2 := by rcases hx with e | e <;> simp [e]
      simp [*]
    · by_cases hy : y = n1 ∨ y = n2
      · have : x = n1 ∨ x = n2 ∨ y = n1 ∨ y = n2 := by rcases hy with e | e <;> simp [e]
        have : y = n1 ∨ y = n2 ∨ x = n1 ∨ x = n2 := by rcases hy with e | e <;> simp [e]
        simp [*]
      · have e1 : ¬ (x = n1 ∨ x = n2 ∨ y = n1 ∨ y = n2) := by
          intro e; rcases e with e | e | e | e
          · exact hx (Or.inl e)
          · exact hx (Or.inr e)
          · exact hy (Or.inl e)
          · exact hy (Or.inr e)
        have e2 : ¬ (y = n1 ∨ y = n2 ∨ x = n1 ∨ x = n2) := by
          intro e; rcases e with e | e | e | e
          · exact hy (Or.inl e)
          · exact hy (Or.inr e)
          · exact hx (Or.inl e)
          · exact hx (Or.inr e)
        simp only [e1, e2, if_false]
        by_cases hxn : x = next <;> by_cases hyn : y = next
        · simp [hxn, hyn]
        · simp [hxn, hyn, h.wsym y n1, h.wsym y n2]
        · simp [hxn, hyn, h.wsym x n1, h.wsym x n2]
        · simp [hxn, hyn, h.wsym x y]
  · intro x y
    rw [hW]
    split
    · exact Rat.le_refl
    · split
      · exact Rat.add_nonneg (Rat.add_nonneg (Rat.add_nonneg (Rat.add_nonneg Rat.le_refl (h.nonneg _ _))
          (h.nonneg _ _)) (h.nonneg _ _)) (h.nonneg _ _)
      · split
        · exact Rat.add_nonneg (h.nonneg _ _) (h.nonneg _ _)
        · split
          · exact Rat.add_nonneg (h.nonneg _ _) (h.nonneg _ _)
          · exact h.nonneg _ _

end SkNet.Agg
