/-
C15 lemmas: operator values `Op` (Python's dispatch) and operator expressions `OpExpr`:
every successfully evaluated expression denotes the dense matrix `OpExpr.denote`.
-/
import SkNet.Lemmas.LinOpPoly

namespace SkNet.LinOp
open SkNet

namespace Op

/-- what every operator value built by the constructors and operations satisfies -/
def WF : Op → Prop
  | slr s => s.Valid
  | nrm _ _ => True
  | lap l => l.lap.nCol = l.lap.nRow
  | con c => c.WF
  | pol p => p.coeffs ≠ [] ∧ p.matrix.nCol = p.matrix.nRow ∧ p.matrix.isNull = false
  | gsum a b => a.WF ∧ b.WF ∧ a.nRow = b.nRow ∧ a.nCol = b.nCol
  | gscaled a _ => a.WF

@[simp] theorem nRow_gsum (a b : Op) : (gsum a b).nRow = a.nRow := rfl
@[simp] theorem nCol_gsum (a b : Op) : (gsum a b).nCol = a.nCol := rfl
@[simp] theorem nRow_gscaled (a : Op) (c : Rat) : (gscaled a c).nRow = a.nRow := rfl
@[simp] theorem nCol_gscaled (a : Op) (c : Rat) : (gscaled a c).nCol = a.nCol := rfl
@[simp] theorem nRow_con (c : CoNeighbor) : (con c).nRow = c.backward.nRow := rfl
@[simp] theorem nCol_con (c : CoNeighbor) : (con c).nCol = c.forward.nCol := rfl
@[simp] theorem nRow_slr (s : SLR) : (slr s).nRow = s.sparse.nRow := rfl
@[simp] theorem nCol_slr (s : SLR) : (slr s).nCol = s.sparse.nCol := rfl
@[simp] theorem nRow_lap (l : Laplacian) : (lap l).nRow = l.lap.nRow := rfl
@[simp] theorem nCol_lap (l : Laplacian) : (lap l).nCol = l.lap.nRow := rfl
@[simp] theorem nRow_pol (p : Polynome) : (pol p).nRow = p.matrix.nRow := rfl
@[simp] theorem nCol_pol (p : Polynome) : (pol p).nCol = p.matrix.nRow := rfl
@[simp] theorem dense_gsum (a b : Op) : (gsum a b).dense = a.dense.add b.dense := rfl
@[simp] theorem dense_gscaled (a : Op) (c : Rat) : (gscaled a c).dense = a.dense.smul c := rfl

theorem dense_shape : ∀ (o : Op), o.WF → o.dense.nRow = o.nRow ∧ o.dense.nCol = o.nCol
  | slr _, _ => ⟨rfl, rfl⟩
  | nrm _ false, _ => ⟨rfl, rfl⟩
  | nrm _ true, _ => ⟨rfl, rfl⟩
  | lap _, _ => ⟨rfl, rfl⟩
  | con _, _ => ⟨rfl, rfl⟩
  | pol p, h => ⟨Polynome.powerSum_nRow _ _ _, Polynome.powerSum_nCol _ h.2.1 _ _⟩
  | gsum a _, h => by
    obtain ⟨h1, h2⟩ := dense_shape a h.1
    exact ⟨by simpa using h1, by simpa using h2⟩
  | gscaled a _, h => by
    obtain ⟨h1, h2⟩ := dense_shape a h
    exact ⟨by simpa using h1, by simpa using h2⟩

theorem matvec_length : ∀ (o : Op) (v : Vec), o.WF → v.length = o.nCol → (o.matvec v).length = o.nRow
  | slr s, v, _, _ => SLR.matvec_length s v
  | nrm n false, v, _, _ => Normalizer.matvec_length n v
  | nrm n true, v, _, _ => Normalizer.rmatvec_length n v
  | lap l, v, h, hv => by
    show (l.matvec v).length = l.lap.nRow
    rw [Laplacian.matvec_eq_dense l v h hv]; simp
  | con c, v, _, _ => by show (c.backward.mulVec _).length = _; simp
  | pol p, v, h, hv => by
    show (Polynome.matvec p v).length = p.matrix.nRow
    have : p = ⟨p.matrix, p.coeffs⟩ := rfl
    rw [this, Polynome.matvec_eq_dense p.matrix h.2.1 p.coeffs h.1 v hv]
    simp [Polynome.powerSum_nRow]
  | gsum a _, v, _, _ => by show (tab a.nRow _).length = _; simp
  | gscaled a _, v, _, _ => by show (tab a.nRow _).length = _; simp

/-- **every operator value applied to a vector is the product by the dense matrix it denotes** -/
theorem matvec_eq_dense : ∀ (o : Op) (v : Vec), o.WF → v.length = o.nCol → o.matvec v = o.dense.mulVec v
  | slr s, v, _, _ => SLR.matvec_eq_dense s v
  | nrm n false, v, _, hv => Normalizer.matvec_eq_dense n v hv
  | nrm n true, v, _, _ => Normalizer.rmatvec_eq_dense n v
  | lap l, v, h, hv => Laplacian.matvec_eq_dense l v h hv
  | con c, v, _, _ => CoNeighbor.matvec_eq_dense c v
  | pol p, v, h, hv => Polynome.matvec_eq_dense p.matrix h.2.1 p.coeffs h.1 v hv
  | gsum a b, v, h, hv => by
    obtain ⟨ha, hb, hr, hc⟩ := h
    have ea := matvec_eq_dense a v ha hv
    have eb := matvec_eq_dense b v hb (by rw [hv]; exact hc)
    obtain ⟨ar, ac⟩ := dense_shape a ha
    obtain ⟨br, bc⟩ := dense_shape b hb
    apply vec_ext (by show (tab a.nRow _).length = _; simp [ar])
    intro i hi
    have hi' : i < a.nRow := by
      have : ((gsum a b).matvec v).length = a.nRow := by show (tab a.nRow _).length = _; simp
      rw [this] at hi; exact hi
    show vget (tab a.nRow _) i = vget ((a.dense.add b.dense).mulVec v) i
    rw [vget_tab, if_pos hi', ea, eb, Mat.vget_mulVec_add (by rw [ar, br, hr]) (by rw [ac, bc, hc])]
  | gscaled a c, v, h, hv => by
    have ea := matvec_eq_dense a v h hv
    obtain ⟨ar, _⟩ := dense_shape a h
    apply vec_ext (by show (tab a.nRow _).length = _; simp [ar])
    intro i hi
    have hi' : i < a.nRow := by
      have : ((gscaled a c).matvec v).length = a.nRow := by show (tab a.nRow _).length = _; simp
      rw [this] at hi; exact hi
    show vget (tab a.nRow _) i = vget ((a.dense.smul c).mulVec v) i
    rw [vget_tab, if_pos hi', ea, Mat.vget_mulVec, Mat.vget_mulVec, Mat.smul_nCol, ← sumTo_mul_left]
    apply sumTo_congr; intro j _
    rw [Mat.get_smul]; ring

/-! ### the operations (Python's dispatch) act on the dense matrices -/

theorem smul_neg_one (a : Mat) : Mat.Eqv (a.smul (-1)) a.neg :=
  ⟨rfl, rfl, fun i j => by rw [Mat.get_smul, Mat.get_neg]; ring⟩

theorem neg_spec {o o' : Op} (hw : o.WF) (h : o.neg = .ok o') : o'.WF ∧ Mat.Eqv o'.dense o.dense.neg := by
  cases o with
  | slr s =>
    simp only [neg] at h
    obtain ⟨t, ht, h⟩ := bind_eq_ok h
    have := pure_eq_ok h; subst this
    exact SLR.neg_dense hw ht
  | pol p =>
    simp only [neg] at h
    obtain ⟨t, ht, h⟩ := bind_eq_ok h
    have := pure_eq_ok h; subst this
    unfold Polynome.neg at ht
    obtain ⟨rfl, hne, hsq, hnn⟩ := Polynome.init_ok ht
    refine ⟨⟨hne, hsq, hnn⟩, ?_⟩
    show Mat.Eqv (Polynome.powerSum p.matrix (p.coeffs.map fun c => -c) 0) (Polynome.powerSum p.matrix p.coeffs 0).neg
    have e : (p.coeffs.map fun c => -c) = p.coeffs.map fun c => (-1) * c := by
      apply List.map_congr_left; intro c _; ring
    rw [e]
    exact (Polynome.powerSum_map_mul p.matrix hsq (-1) p.coeffs 0).trans (smul_neg_one _)
  | con c =>
    simp only [neg] at h
    cases h
    exact ⟨hw, CoNeighbor.neg_dense c⟩
  | nrm n t => simp only [neg] at h; cases h; exact ⟨hw, smul_neg_one _⟩
  | lap l => simp only [neg] at h; cases h; exact ⟨hw, smul_neg_one _⟩
  | gsum a b => simp only [neg] at h; cases h; exact ⟨hw, smul_neg_one _⟩
  | gscaled a c => simp only [neg] at h; cases h; exact ⟨hw, smul_neg_one _⟩

theorem mul_spec {o o' : Op} {k : Rat} (hw : o.WF) (h : o.mul k = .ok o') :
    o'.WF ∧ Mat.Eqv o'.dense (o.dense.smul k) := by
  cases o with
  | slr s =>
    simp only [mul] at h
    obtain ⟨t, ht, h⟩ := bind_eq_ok h
    have := pure_eq_ok h; subst this
    exact SLR.mul_dense hw ht
  | pol p =>
    simp only [mul] at h
    obtain ⟨t, ht, h⟩ := bind_eq_ok h
    have := pure_eq_ok h; subst this
    unfold Polynome.mul at ht
    obtain ⟨rfl, hne, hsq, hnn⟩ := Polynome.init_ok ht
    exact ⟨⟨hne, hsq, hnn⟩, Polynome.powerSum_map_mul p.matrix hsq k p.coeffs 0⟩
  | con c =>
    simp only [mul] at h
    cases h
    exact ⟨hw, (CoNeighbor.mul_dense c k).2⟩
  | nrm n t => simp only [mul] at h; cases h; exact ⟨hw, Mat.Eqv.refl _⟩
  | lap l => simp only [mul] at h; cases h; exact ⟨hw, Mat.Eqv.refl _⟩
  | gsum a b => simp only [mul] at h; cases h; exact ⟨hw, Mat.Eqv.refl _⟩
  | gscaled a c => simp only [mul] at h; cases h; exact ⟨hw, Mat.Eqv.refl _⟩

theorem add_spec {a b o : Op} (ha : a.WF) (hb : b.WF) (h : a.add b = .ok o) :
    o.WF ∧ a.dense.nRow = b.dense.nRow ∧ a.dense.nCol = b.dense.nCol ∧ Mat.Eqv o.dense (a.dense.add b.dense) := by
  have generic : ∀ (a : Op), a.WF →
      ((if a.nRow = b.nRow ∧ a.nCol = b.nCol then Except.ok (gsum a b) else Except.error PyErr.valueError) = Except.ok o) →
      o.WF ∧ a.dense.nRow = b.dense.nRow ∧ a.dense.nCol = b.dense.nCol ∧ Mat.Eqv o.dense (a.dense.add b.dense) := by
    intro a ha h
    split at h
    · rename_i hc
      cases h
      obtain ⟨ar, ac⟩ := dense_shape a ha
      obtain ⟨br, bc⟩ := dense_shape b hb
      exact ⟨⟨ha, hb, hc.1, hc.2⟩, by rw [ar, br, hc.1], by rw [ac, bc, hc.2], Mat.Eqv.refl _⟩
    · cases h
  cases a with
  | slr s =>
    cases b with
    | slr t =>
      simp only [add] at h
      obtain ⟨u, hu, h⟩ := bind_eq_ok h
      have := pure_eq_ok h; subst this
      obtain ⟨hv, hr, hc, he⟩ := SLR.add_dense ha hb hu
      exact ⟨hv, hr, hc, he⟩
    | _ => exact generic _ ha (by simpa only [add] using h)
  | pol p => exact generic _ ha (by simpa only [add] using h)
  | con c => exact generic _ ha (by simpa only [add] using h)
  | nrm n t => exact generic _ ha (by simpa only [add] using h)
  | lap l => exact generic _ ha (by simpa only [add] using h)
  | gsum x y => exact generic _ ha (by simpa only [add] using h)
  | gscaled x c => exact generic _ ha (by simpa only [add] using h)

theorem sub_spec {a b o : Op} (ha : a.WF) (hb : b.WF) (h : a.sub b = .ok o) :
    o.WF ∧ a.dense.nRow = b.dense.nRow ∧ a.dense.nCol = b.dense.nCol ∧ Mat.Eqv o.dense (a.dense.sub b.dense) := by
  unfold sub at h
  obtain ⟨nb, hnb, h⟩ := bind_eq_ok h
  obtain ⟨hnw, hne⟩ := neg_spec hb hnb
  obtain ⟨hw, hr, hc, he⟩ := add_spec ha hnw h
  have hr' : a.dense.nRow = b.dense.nRow := by rw [hr]; exact hne.nRow
  have hc' : a.dense.nCol = b.dense.nCol := by rw [hc]; exact hne.nCol
  refine ⟨hw, hr', hc', he.nRow, he.nCol, fun i j => ?_⟩
  rw [he.get, Mat.get_add hr hc, hne.get, Mat.get_neg, Mat.get_sub hr' hc']
  ring

theorem transpose_spec {o : Op} : ∀ {o' : Op}, o.WF → o.transpose = .ok o' →
    o'.WF ∧ Mat.Eqv o'.dense o.dense.transpose := by
  induction o with
  | slr s =>
    intro o' hw h
    simp only [transpose] at h
    obtain ⟨t, ht, h⟩ := bind_eq_ok h
    have := pure_eq_ok h; subst this
    exact SLR.transpose_dense hw ht
  | pol p =>
    intro o' hw h
    simp only [transpose] at h
    obtain ⟨t, ht, h⟩ := bind_eq_ok h
    have := pure_eq_ok h; subst this
    unfold Polynome.transpose at ht
    obtain ⟨rfl, hne, hsq, hnn⟩ := Polynome.init_ok ht
    exact ⟨⟨hne, hsq, hnn⟩, Polynome.powerSum_transpose p.matrix hw.2.1 p.coeffs 0⟩
  | con c =>
    intro o' hw h
    simp only [transpose] at h
    cases h
    exact ⟨CoNeighbor.transpose_wf hw, CoNeighbor.transpose_dense hw⟩
  | nrm n t =>
    intro o' hw h
    simp only [transpose] at h
    cases h
    cases t with
    | false => exact ⟨trivial, Mat.Eqv.refl _⟩
    | true => exact ⟨trivial, (Mat.transpose_transpose n.dense).symm⟩
  | lap l =>
    intro o' hw h
    simp only [transpose] at h
    cases h
    refine ⟨?_, Laplacian.transpose_dense l hw⟩
    show l.lap.transpose.nCol = l.lap.transpose.nRow
    have hw' : l.lap.nCol = l.lap.nRow := hw
    simp [hw']
  | gsum a b iha ihb =>
    intro o' hw h
    simp only [transpose] at h
    obtain ⟨a', ha', h⟩ := bind_eq_ok h
    obtain ⟨b', hb', h⟩ := bind_eq_ok h
    have := pure_eq_ok h; subst this
    obtain ⟨hwa, hwb, hr, hc⟩ := hw
    obtain ⟨hwa', hea⟩ := iha hwa ha'
    obtain ⟨hwb', heb⟩ := ihb hwb hb'
    obtain ⟨ar, ac⟩ := dense_shape a hwa
    obtain ⟨br, bc⟩ := dense_shape b hwb
    obtain ⟨ar', ac'⟩ := dense_shape a' hwa'
    obtain ⟨br', bc'⟩ := dense_shape b' hwb'
    have e1 : a'.nRow = b'.nRow := by
      rw [← ar', ← br', hea.nRow, heb.nRow]; simp [ac, bc, hc]
    have e2 : a'.nCol = b'.nCol := by
      rw [← ac', ← bc', hea.nCol, heb.nCol]; simp [ar, br, hr]
    refine ⟨⟨hwa', hwb', e1, e2⟩, ?_⟩
    have hdr : a.dense.nRow = b.dense.nRow := by rw [ar, br, hr]
    have hdc : a.dense.nCol = b.dense.nCol := by rw [ac, bc, hc]
    show Mat.Eqv (a'.dense.add b'.dense) (a.dense.add b.dense).transpose
    refine (Mat.Eqv.add hea heb (by rw [ar', br', e1]) (by rw [ac', bc', e2])).trans ?_
    exact (Mat.transpose_add a.dense b.dense hdr hdc).symm
  | gscaled a c iha =>
    intro o' hw h
    simp only [transpose] at h
    obtain ⟨a', ha', h⟩ := bind_eq_ok h
    have := pure_eq_ok h; subst this
    obtain ⟨hwa', hea⟩ := iha hw ha'
    refine ⟨hwa', ?_⟩
    show Mat.Eqv (a'.dense.smul c) (a.dense.smul c).transpose
    exact (Mat.Eqv.smul c hea).trans (Mat.transpose_smul c a.dense).symm

/-- `c * operator`: scipy's scaled operator for every class -/
theorem rmul_spec {o o' : Op} {c : Rat} (hw : o.WF) (h : o.rmul c = .ok o') :
    o'.WF ∧ Mat.Eqv o'.dense (o.dense.smul c) := by
  unfold rmul at h; cases h; exact ⟨hw, Mat.Eqv.refl _⟩

/-- `.H`: scipy's combinators re-dispatch the arithmetic on the adjoints of their parts; the result denotes the
transposed matrix (rational entries: conjugation is the identity) -/
theorem adjoint_spec {o : Op} : ∀ {o' : Op}, o.WF → o.adjoint = .ok o' →
    o'.WF ∧ Mat.Eqv o'.dense o.dense.transpose := by
  induction o with
  | gsum a b iha ihb =>
    intro o' hw h
    simp only [adjoint] at h
    obtain ⟨a', ha', h⟩ := bind_eq_ok h
    obtain ⟨b', hb', h⟩ := bind_eq_ok h
    obtain ⟨hwa, hwb, hr, hc⟩ := hw
    obtain ⟨hwa', hea⟩ := iha hwa ha'
    obtain ⟨hwb', heb⟩ := ihb hwb hb'
    obtain ⟨hw', hr', hc', he⟩ := add_spec hwa' hwb' h
    obtain ⟨ar, ac⟩ := dense_shape a hwa
    obtain ⟨br, bc⟩ := dense_shape b hwb
    have hdr : a.dense.nRow = b.dense.nRow := by rw [ar, br, hr]
    have hdc : a.dense.nCol = b.dense.nCol := by rw [ac, bc, hc]
    refine ⟨hw', he.trans ?_⟩
    show Mat.Eqv (a'.dense.add b'.dense) (a.dense.add b.dense).transpose
    refine (Mat.Eqv.add hea heb hr' hc').trans ?_
    exact (Mat.transpose_add a.dense b.dense hdr hdc).symm
  | gscaled a c iha =>
    intro o' hw h
    simp only [adjoint] at h
    obtain ⟨a', ha', h⟩ := bind_eq_ok h
    obtain ⟨hwa', hea⟩ := iha hw ha'
    obtain ⟨hw', he⟩ := mul_spec hwa' h
    refine ⟨hw', he.trans ?_⟩
    show Mat.Eqv (a'.dense.smul c) (a.dense.smul c).transpose
    exact (Mat.Eqv.smul c hea).trans (Mat.transpose_smul c a.dense).symm
  | slr s => intro o' hw h; exact transpose_spec hw (by simpa only [adjoint] using h)
  | pol p => intro o' hw h; exact transpose_spec hw (by simpa only [adjoint] using h)
  | con c => intro o' hw h; exact transpose_spec hw (by simpa only [adjoint] using h)
  | nrm n t => intro o' hw h; exact transpose_spec hw (by simpa only [adjoint] using h)
  | lap l => intro o' hw h; exact transpose_spec hw (by simpa only [adjoint] using h)

theorem addCsr_spec {o o' : Op} {a : Mat} (hw : o.WF) (h : o.addCsr a = .ok o') :
    o'.WF ∧ o.dense.nRow = a.nRow ∧ o.dense.nCol = a.nCol ∧ Mat.Eqv o'.dense (o.dense.add a) := by
  cases o with
  | slr s =>
    simp only [addCsr] at h
    obtain ⟨t, ht, h⟩ := bind_eq_ok h
    have := pure_eq_ok h; subst this
    exact SLR.addCsr_dense hw ht
  | _ => simp only [addCsr] at h; cases h

theorem subCsr_spec {o o' : Op} {a : Mat} (hw : o.WF) (h : o.subCsr a = .ok o') :
    o'.WF ∧ o.dense.nRow = a.nRow ∧ o.dense.nCol = a.nCol ∧ Mat.Eqv o'.dense (o.dense.sub a) := by
  cases o with
  | slr s =>
    simp only [subCsr] at h
    obtain ⟨t, ht, h⟩ := bind_eq_ok h
    have := pure_eq_ok h; subst this
    exact SLR.subCsr_dense hw ht
  | _ => simp only [subCsr] at h; cases h

theorem leftDot_spec {o o' : Op} {m : Mat} (hw : o.WF) (h : Op.leftDot m o = .ok o') :
    o'.WF ∧ Mat.Eqv o'.dense (m.mul o.dense) := by
  cases o with
  | slr s =>
    simp only [leftDot] at h
    obtain ⟨t, ht, h⟩ := bind_eq_ok h
    have := pure_eq_ok h; subst this
    obtain ⟨hv, -, he⟩ := SLR.leftDot_dense hw ht
    exact ⟨hv, he⟩
  | con c =>
    simp only [leftDot] at h
    obtain ⟨t, ht, h⟩ := bind_eq_ok h
    have := pure_eq_ok h; subst this
    obtain ⟨hv, -, he⟩ := CoNeighbor.leftDot_dense hw ht
    exact ⟨hv, he⟩
  | _ => simp only [leftDot] at h; cases h

theorem rightDot_spec {o o' : Op} {m : Mat} (hw : o.WF) (h : o.rightDot m = .ok o') :
    o'.WF ∧ Mat.Eqv o'.dense (o.dense.mul m) := by
  cases o with
  | slr s =>
    simp only [rightDot] at h
    obtain ⟨t, ht, h⟩ := bind_eq_ok h
    have := pure_eq_ok h; subst this
    obtain ⟨hv, -, he⟩ := SLR.rightDot_dense hw ht
    exact ⟨hv, he⟩
  | con c =>
    simp only [rightDot] at h
    obtain ⟨t, ht, h⟩ := bind_eq_ok h
    have := pure_eq_ok h; subst this
    obtain ⟨hv, -, he⟩ := CoNeighbor.rightDot_dense hw ht
    exact ⟨hv, he⟩
  | _ => simp only [rightDot] at h; cases h

theorem Mat.cast_nRow (dt : CastTo) (a : Mat) : (a.cast dt).nRow = a.nRow := rfl
theorem Mat.cast_nCol (dt : CastTo) (a : Mat) : (a.cast dt).nCol = a.nCol := rfl

theorem astype_wf {o o' : Op} {dt : CastTo} (hw : o.WF) (h : o.astype dt = .ok o') : o'.WF := by
  cases o with
  | slr s =>
    simp only [astype] at h; cases h
    intro t ht
    obtain ⟨u, hu, rfl⟩ := List.mem_map.mp ht
    have := hw u hu
    exact ⟨by simpa [vcast, SLR.astype, SLR.nRow, Mat.cast] using this.1,
      by simpa [vcast, SLR.astype, SLR.nCol, Mat.cast] using this.2⟩
  | lap l => simp only [astype] at h; cases h; exact hw
  | con c => simp only [astype] at h; cases h; exact hw
  | _ => simp only [astype] at h; cases h

/-- the floating casts keep the operator; the integer cast keeps it when it keeps its stored parts -/
theorem astype_float {o o' : Op} {dt : CastTo} (hdt : dt ≠ .int) (h : o.astype dt = .ok o') : o' = o := by
  have hc : ∀ x, rcast dt x = x := by intro x; cases dt <;> simp_all [rcast]
  have hf : rcast dt = id := funext hc
  have hv : ∀ v : Vec, vcast dt v = v := by intro v; unfold vcast; rw [hf]; simp
  have hm : ∀ a : Mat, a.cast dt = a := by
    intro a; unfold Mat.cast; rw [hf]; simp
  cases o with
  | slr s => simp only [astype] at h; cases h; simp [SLR.astype, hm, hv]
  | lap l => simp only [astype] at h; cases h; simp [Laplacian.astype, hm]
  | con c => simp only [astype] at h; cases h; simp [CoNeighbor.astype, hm]
  | _ => simp only [astype] at h; cases h

theorem astype_spec {o o' : Op} {dt : CastTo} (hw : o.WF) (h : o.astype dt = .ok o')
    (hexact : dt = .int → o.astype .int = .ok o) : o'.WF ∧ Mat.Eqv o'.dense o.dense := by
  refine ⟨astype_wf hw h, ?_⟩
  by_cases hdt : dt = .int
  · subst hdt
    rw [hexact rfl] at h
    cases h; exact Mat.Eqv.refl _
  · rw [astype_float hdt h]; exact Mat.Eqv.refl _

theorem d2u_spec {o o' : Op} (hw : o.WF) (h : o.d2u = .ok o') :
    o'.WF ∧ o.dense.nRow = o.dense.nCol ∧ Mat.Eqv o'.dense (o.dense.add o.dense.transpose) := by
  cases o with
  | slr s =>
    simp only [d2u] at h
    obtain ⟨t, ht, h⟩ := bind_eq_ok h
    have := pure_eq_ok h; subst this
    exact slrD2U_dense hw ht
  | _ => simp only [d2u] at h; cases h

theorem b2d_spec {o o' : Op} (hw : o.WF) (h : o.b2d = .ok o') :
    o'.WF ∧ Mat.Eqv o'.dense (Mat.block o.dense (Mat.zero o.dense.nCol o.dense.nRow)) := by
  cases o with
  | slr s =>
    simp only [b2d] at h
    obtain ⟨t, ht, h⟩ := bind_eq_ok h
    have := pure_eq_ok h; subst this
    exact slrB2D_dense hw ht
  | _ => simp only [b2d] at h; cases h

theorem b2u_spec {o o' : Op} (hw : o.WF) (h : o.b2u = .ok o') :
    o'.WF ∧ Mat.Eqv o'.dense (Mat.block o.dense o.dense.transpose) := by
  cases o with
  | slr s =>
    simp only [b2u] at h
    obtain ⟨t, ht, h⟩ := bind_eq_ok h
    have := pure_eq_ok h; subst this
    exact slrB2U_dense hw ht
  | _ => simp only [b2u] at h; cases h

theorem normalize_spec {o o' : Op} (hw : o.WF) (h : o.normalize = .ok o') :
    o'.WF ∧ Mat.Eqv o'.dense (rowNormalized o.dense) := by
  cases o with
  | slr s =>
    simp only [normalize] at h
    obtain ⟨t, ht, h⟩ := bind_eq_ok h
    have := pure_eq_ok h; subst this
    exact slrNormalize_dense hw ht
  | con c =>
    simp only [normalize] at h
    obtain ⟨t, ht, h⟩ := bind_eq_ok h
    have := pure_eq_ok h; subst this
    obtain ⟨hv, -, he⟩ := CoNeighbor.leftDot_dense hw ht
    refine ⟨hv, he.trans ?_⟩
    unfold rowNormalized
    rw [CoNeighbor.matvec_eq_dense]
    exact Mat.diag_mul _ c.dense
  | _ => simp only [normalize] at h; cases h

end Op

/-! ### congruences still needed -/

namespace Mat

theorem Eqv.block {b b' c c' : Mat} (hb : Eqv b b') (hc : Eqv c c') : Eqv (block b c) (block b' c') := by
  refine ⟨by simp [hb.nRow, hb.nCol], by simp [hb.nRow, hb.nCol], fun i j => ?_⟩
  rw [get_block, get_block, hb.nRow, hb.nCol]
  simp only [hb.get, hc.get]

theorem Eqv.zero {n n' m m' : Nat} (hn : n = n') (hm : m = m') : Eqv (Mat.zero n m) (Mat.zero n' m') := by
  subst hn; subst hm; exact Eqv.refl _

theorem Eqv.rowNormalized {a a' : Mat} (h : Eqv a a') : Eqv (rowNormalized a) (rowNormalized a') := by
  unfold LinOp.rowNormalized
  exact Eqv.scaleRows (by rw [Eqv.rowSums h]) h

theorem get_lowRank (n m : Nat) (ts : List (Vec × Vec)) (i j : Nat) :
    (lowRank n m ts).get i j = if i < n ∧ j < m then SLR.lrEntry ts i j else 0 := by
  induction ts with
  | nil => simp [lowRank]
  | cons t ts ih =>
    have hr : (lowRank n m ts).nRow = n ∧ (lowRank n m ts).nCol = m := by
      cases ts <;> simp [lowRank]
    show ((outer n m t.1 t.2).add (lowRank n m ts)).get i j = _
    rw [get_add (by simp [hr.1]) (by simp [hr.2]), ih, get_outer]
    by_cases h : i < n ∧ j < m <;> simp [h]

theorem lowRank_shape (n m : Nat) (ts : List (Vec × Vec)) : (lowRank n m ts).nRow = n ∧ (lowRank n m ts).nCol = m := by
  cases ts <;> simp [lowRank]

end Mat

theorem SLR.init_dense {S : Mat} {ts : List (Vec × Vec)} {s : SLR} (h : SLR.init S ts = .ok s) :
    s.Valid ∧ Mat.Eqv s.dense (S.add (lowRank S.nRow S.nCol ts)) := by
  have hv := SLR.init_valid h
  obtain ⟨rfl, -⟩ := SLR.init_ok h
  obtain ⟨lr, lc⟩ := Mat.lowRank_shape S.nRow S.nCol ts
  refine ⟨hv, rfl, rfl, fun i j => ?_⟩
  rw [Mat.get_add (by rw [lr]) (by rw [lc]), Mat.get_lowRank]
  unfold SLR.dense
  rw [Mat.get_ofFn]
  by_cases hij : i < S.nRow ∧ j < S.nCol
  · simp [hij, SLR.nRow, SLR.nCol]
  · simp [hij, SLR.nRow, SLR.nCol, Mat.get_of_not_lt hij]

theorem powerSum_eq_polySum (a : Mat) (cs : List Rat) (k : Nat) : Polynome.powerSum a cs k = polySum a cs k := by
  induction cs generalizing k with
  | nil => rfl
  | cons c cs ih => simp only [Polynome.powerSum, polySum, ih]

/-! ### the structural induction -/

namespace OpExpr

theorem denote_spec : ∀ (e : OpExpr) (o : Op), e.IntCastsExact → e.eval = .ok o → o.WF ∧ Mat.Eqv o.dense e.denote
  | slr s ts, o, hc, h => by
    simp only [eval] at h
    obtain ⟨t, ht, h⟩ := bind_eq_ok h
    have := pure_eq_ok h; subst this
    exact SLR.init_dense ht
  | regularizer a reg, o, hc, h => by
    simp only [eval] at h
    obtain ⟨t, ht, h⟩ := bind_eq_ok h
    have := pure_eq_ok h; subst this
    exact regularizer_dense ht
  | normalizer a reg, o, hc, h => by
    simp only [eval] at h
    split at h
    · cases h
    · cases h
      exact ⟨trivial, Normalizer.init_dense a reg⟩
  | laplacian a reg nz sq, o, hc, h => by
    simp only [eval] at h
    split at h
    · cases h
    · obtain ⟨l, hl, h⟩ := bind_eq_ok h
      have := pure_eq_ok h; subst this
      exact ⟨(Laplacian.init_square hl).1, Laplacian.init_dense hl⟩
  | coneighbor a nz, o, hc, h => by
    simp only [eval] at h
    obtain ⟨c, hc, h⟩ := bind_eq_ok h
    have := pure_eq_ok h; subst this
    exact ⟨CoNeighbor.init_wf hc, CoNeighbor.init_dense hc⟩
  | polynome a cs, o, hc, h => by
    simp only [eval] at h
    obtain ⟨p, hp, h⟩ := bind_eq_ok h
    have := pure_eq_ok h; subst this
    obtain ⟨rfl, hne, hsq, hnn⟩ := Polynome.init_ok hp
    exact ⟨⟨hne, hsq, hnn⟩, Mat.Eqv.of_eq (powerSum_eq_polySum a cs 0)⟩
  | neg e, o, hc, h => by
    simp only [eval] at h
    obtain ⟨x, hx, h⟩ := bind_eq_ok h
    obtain ⟨hw, he⟩ := denote_spec e x hc hx
    obtain ⟨hw', he'⟩ := Op.neg_spec hw h
    exact ⟨hw', he'.trans (Mat.Eqv.neg he)⟩
  | add e f, o, hc, h => by
    simp only [eval] at h
    obtain ⟨x, hx, h⟩ := bind_eq_ok h
    obtain ⟨y, hy, h⟩ := bind_eq_ok h
    obtain ⟨hwx, hex⟩ := denote_spec e x hc.1 hx
    obtain ⟨hwy, hey⟩ := denote_spec f y hc.2 hy
    obtain ⟨hw', hrr, hcc, he'⟩ := Op.add_spec hwx hwy h
    exact ⟨hw', he'.trans (Mat.Eqv.add hex hey hrr hcc)⟩
  | sub e f, o, hc, h => by
    simp only [eval] at h
    obtain ⟨x, hx, h⟩ := bind_eq_ok h
    obtain ⟨y, hy, h⟩ := bind_eq_ok h
    obtain ⟨hwx, hex⟩ := denote_spec e x hc.1 hx
    obtain ⟨hwy, hey⟩ := denote_spec f y hc.2 hy
    obtain ⟨hw', hrr, hcc, he'⟩ := Op.sub_spec hwx hwy h
    exact ⟨hw', he'.trans (Mat.Eqv.sub hex hey hrr hcc)⟩
  | addCsr e a, o, hc, h => by
    simp only [eval] at h
    obtain ⟨x, hx, h⟩ := bind_eq_ok h
    obtain ⟨hw, he⟩ := denote_spec e x hc hx
    obtain ⟨hw', hrr, hcc, he'⟩ := Op.addCsr_spec hw h
    exact ⟨hw', he'.trans (Mat.Eqv.add he (Mat.Eqv.refl a) hrr hcc)⟩
  | subCsr e a, o, hc, h => by
    simp only [eval] at h
    obtain ⟨x, hx, h⟩ := bind_eq_ok h
    obtain ⟨hw, he⟩ := denote_spec e x hc hx
    obtain ⟨hw', hrr, hcc, he'⟩ := Op.subCsr_spec hw h
    exact ⟨hw', he'.trans (Mat.Eqv.sub he (Mat.Eqv.refl a) hrr hcc)⟩
  | mul e c, o, hc, h => by
    simp only [eval] at h
    obtain ⟨x, hx, h⟩ := bind_eq_ok h
    obtain ⟨hw, he⟩ := denote_spec e x hc hx
    obtain ⟨hw', he'⟩ := Op.mul_spec hw h
    exact ⟨hw', he'.trans (Mat.Eqv.smul c he)⟩
  | transpose e, o, hc, h => by
    simp only [eval] at h
    obtain ⟨x, hx, h⟩ := bind_eq_ok h
    obtain ⟨hw, he⟩ := denote_spec e x hc hx
    obtain ⟨hw', he'⟩ := Op.transpose_spec hw h
    exact ⟨hw', he'.trans (Mat.Eqv.transpose he)⟩
  | leftDot m e, o, hc, h => by
    simp only [eval] at h
    obtain ⟨x, hx, h⟩ := bind_eq_ok h
    obtain ⟨hw, he⟩ := denote_spec e x hc hx
    obtain ⟨hw', he'⟩ := Op.leftDot_spec hw h
    exact ⟨hw', he'.trans (Mat.Eqv.mul (Mat.Eqv.refl m) he)⟩
  | rightDot e m, o, hc, h => by
    simp only [eval] at h
    obtain ⟨x, hx, h⟩ := bind_eq_ok h
    obtain ⟨hw, he⟩ := denote_spec e x hc hx
    obtain ⟨hw', he'⟩ := Op.rightDot_spec hw h
    exact ⟨hw', he'.trans (Mat.Eqv.mul he (Mat.Eqv.refl m))⟩
  | astype e dt, o, hc, h => by
    simp only [eval] at h
    obtain ⟨x, hx, h⟩ := bind_eq_ok h
    have hce : e.IntCastsExact := by cases dt <;> first | exact hc | exact hc.1
    obtain ⟨hw, he⟩ := denote_spec e x hce hx
    obtain ⟨hw', he'⟩ := Op.astype_spec hw h (fun hdt => by subst hdt; exact hc.2 x hx)
    exact ⟨hw', he'.trans he⟩
  | rmul c e, o, hc, h => by
    simp only [eval] at h
    obtain ⟨x, hx, h⟩ := bind_eq_ok h
    obtain ⟨hw, he⟩ := denote_spec e x hc hx
    obtain ⟨hw', he'⟩ := Op.rmul_spec hw h
    exact ⟨hw', he'.trans (Mat.Eqv.smul c he)⟩
  | d2u e, o, hc, h => by
    simp only [eval] at h
    obtain ⟨x, hx, h⟩ := bind_eq_ok h
    obtain ⟨hw, he⟩ := denote_spec e x hc hx
    obtain ⟨hw', hsq, he'⟩ := Op.d2u_spec hw h
    exact ⟨hw', he'.trans (Mat.Eqv.add he (Mat.Eqv.transpose he) (by simpa using hsq) (by simpa using hsq.symm))⟩
  | b2d e, o, hc, h => by
    simp only [eval] at h
    obtain ⟨x, hx, h⟩ := bind_eq_ok h
    obtain ⟨hw, he⟩ := denote_spec e x hc hx
    obtain ⟨hw', he'⟩ := Op.b2d_spec hw h
    exact ⟨hw', he'.trans (Mat.Eqv.block he (Mat.Eqv.zero he.nCol he.nRow))⟩
  | b2u e, o, hc, h => by
    simp only [eval] at h
    obtain ⟨x, hx, h⟩ := bind_eq_ok h
    obtain ⟨hw, he⟩ := denote_spec e x hc hx
    obtain ⟨hw', he'⟩ := Op.b2u_spec hw h
    exact ⟨hw', he'.trans (Mat.Eqv.block he (Mat.Eqv.transpose he))⟩
  | normalize e, o, hc, h => by
    simp only [eval] at h
    obtain ⟨x, hx, h⟩ := bind_eq_ok h
    obtain ⟨hw, he⟩ := denote_spec e x hc hx
    obtain ⟨hw', he'⟩ := Op.normalize_spec hw h
    exact ⟨hw', he'.trans (Mat.Eqv.rowNormalized he)⟩

end OpExpr
/-! ### 2-d products and `safe_sparse_dot` -/

/-- `operator.dot(X)` on a 2-d array (columns through `_matvec`) is the product by the dense matrix -/
theorem Op.dotMat_eqv {o : Op} (hw : o.WF) {x y : Mat} (hy : o.dotMat x = .ok y) :
    x.nRow = o.nCol ∧ Mat.Eqv y (o.dense.mul x) := by
  obtain ⟨hr, hc⟩ := Op.dense_shape o hw
  unfold Op.dotMat at hy
  split at hy
  · cases hy
  · rename_i hx
    have hx : x.nRow = o.nCol := not_not.mp hx
    split at hy
    · cases hy
    · cases hy
      refine ⟨hx, by simp [Mat.ofCols, ← hr], by simp [Mat.ofCols], fun i k => ?_⟩
      unfold Mat.ofCols
      rw [Mat.get_ofFn, Mat.get_mul]
      by_cases hik : i < o.nRow ∧ k < x.nCol
      · simp only [hik, and_self, if_true]
        rw [tab_getD, if_pos hik.2]
        rw [Op.matvec_eq_dense o _ hw (by simp [Mat.col, hx]), Mat.vget_mulVec]
        apply sumTo_congr; intro j hj
        unfold Mat.col
        rw [vget_tab]
        have : j < x.nRow := by rw [hx, ← hc]; exact hj
        simp [this]
      · simp only [hik, if_false]
        symm; apply sumTo_eq_zero; intro j _
        by_cases hi : i < o.nRow
        · have hk : x.nCol ≤ k := Nat.le_of_not_lt (fun c => hik ⟨hi, c⟩)
          rw [Mat.get_of_col_ge j hk]; ring
        · rw [Mat.get_of_row_ge j (by rw [hr]; exact Nat.le_of_not_lt hi)]; ring

/-- the dense matrix of an operand of `safe_sparse_dot` -/
def Operand.dense : Operand → Mat
  | .ndarray m => m
  | .csr m => m
  | .op o => o.dense

def Operand.WF : Operand → Prop
  | .op o => o.WF
  | _ => True

/-- what a result of `safe_sparse_dot` denotes -/
def DotResult.Denotes : DotResult → Mat → Prop
  | .mat m, d => Mat.Eqv m d
  | .op o, d => o.WF ∧ Mat.Eqv o.dense d
  | .none, _ => False

theorem transpose_mul_transpose (x y : Mat) (h : x.nCol = y.nRow) :
    Mat.Eqv (y.transpose.mul x.transpose).transpose (x.mul y) :=
  (Mat.Eqv.transpose (Mat.transpose_mul x y h).symm).trans (Mat.transpose_transpose _)

/-- **safe_sparse_dot**: whatever branch is taken, a successful call returns the product of the two operands -/
theorem safeSparseDot_denotes (a b : Operand) (ha : a.WF) (hb : b.WF) (r : DotResult)
    (h : safeSparseDot a b = .ok r) : r.Denotes (a.dense.mul b.dense) := by
  cases a with
  | ndarray x =>
    cases b with
    | ndarray y =>
      simp only [safeSparseDot] at h
      obtain ⟨m, hm, h⟩ := bind_eq_ok h
      have := pure_eq_ok h; subst this
      obtain ⟨hd, rfl⟩ := Mat.mul?_ok hm
      exact transpose_mul_transpose x y (by simpa using hd.symm)
    | csr y =>
      simp only [safeSparseDot] at h
      obtain ⟨m, hm, h⟩ := bind_eq_ok h
      have := pure_eq_ok h; subst this
      obtain ⟨hd, rfl⟩ := Mat.mul?_ok hm
      exact transpose_mul_transpose x y (by simpa using hd.symm)
    | op o =>
      simp only [safeSparseDot] at h
      obtain ⟨t, ht, h⟩ := bind_eq_ok h
      obtain ⟨m, hm, h⟩ := bind_eq_ok h
      have := pure_eq_ok h; subst this
      obtain ⟨htw, hte⟩ := Op.transpose_spec hb ht
      obtain ⟨hx, hme⟩ := Op.dotMat_eqv htw hm
      have hshape := Op.dense_shape t htw
      have hdim : x.nCol = o.dense.nRow := by
        have h1 : x.transpose.nRow = t.dense.nCol := by rw [hx, hshape.2]
        rw [hte.nCol] at h1
        simpa using h1
      show Mat.Eqv m.transpose (x.mul o.dense)
      refine (Mat.Eqv.transpose (hme.trans (Mat.Eqv.mul hte (Mat.Eqv.refl _)))).trans ?_
      exact transpose_mul_transpose x o.dense hdim
  | csr x =>
    cases b with
    | ndarray y =>
      simp only [safeSparseDot] at h
      obtain ⟨m, hm, h⟩ := bind_eq_ok h
      have := pure_eq_ok h; subst this
      obtain ⟨-, rfl⟩ := Mat.mul?_ok hm
      exact Mat.Eqv.refl _
    | csr y =>
      simp only [safeSparseDot] at h
      obtain ⟨m, hm, h⟩ := bind_eq_ok h
      have := pure_eq_ok h; subst this
      obtain ⟨-, rfl⟩ := Mat.mul?_ok hm
      exact Mat.Eqv.refl _
    | op o =>
      cases o with
      | slr s =>
        simp only [safeSparseDot] at h
        obtain ⟨m, hm, h⟩ := bind_eq_ok h
        have := pure_eq_ok h; subst this
        exact Op.leftDot_spec hb hm
      | con c =>
        simp only [safeSparseDot] at h
        obtain ⟨m, hm, h⟩ := bind_eq_ok h
        have := pure_eq_ok h; subst this
        exact Op.leftDot_spec hb hm
      | _ => simp only [safeSparseDot] at h; cases h
  | op o =>
    cases b with
    | ndarray y =>
      simp only [safeSparseDot] at h
      obtain ⟨m, hm, h⟩ := bind_eq_ok h
      have := pure_eq_ok h; subst this
      exact (Op.dotMat_eqv ha hm).2
    | csr y =>
      cases o with
      | slr s =>
        simp only [safeSparseDot] at h
        obtain ⟨m, hm, h⟩ := bind_eq_ok h
        have := pure_eq_ok h; subst this
        exact Op.rightDot_spec ha hm
      | con c =>
        simp only [safeSparseDot] at h
        obtain ⟨m, hm, h⟩ := bind_eq_ok h
        have := pure_eq_ok h; subst this
        exact Op.rightDot_spec ha hm
      | _ => simp only [safeSparseDot] at h; cases h
    | op o' => simp only [safeSparseDot] at h; cases h

end SkNet.LinOp
