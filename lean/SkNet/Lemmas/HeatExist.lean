/-
Helper lemmas for C14: existence of the harmonic function.  The Dirichlet problem is a linear system on
`Fin n → ℚ`; uniqueness (`harmonic_unique_of_reach`) makes its operator injective, hence surjective.
-/
import SkNet.Lemmas.HeatHarmonic
import Mathlib.LinearAlgebra.FiniteDimensional.Basic

namespace SkNet.Heat
open SkNet.HeatSpec

/-- a vector on `Fin n`, read as a function on all naturals (0 outside) -/
def extend {n : Nat} (h : Fin n → ℚ) : Nat → ℚ := fun i => if hi : i < n then h ⟨i, hi⟩ else 0

theorem extend_add {n : Nat} (h g : Fin n → ℚ) (i : Nat) : extend (h + g) i = extend h i + extend g i := by
  unfold extend; split <;> simp

theorem extend_smul {n : Nat} (c : ℚ) (h : Fin n → ℚ) (i : Nat) : extend (c • h) i = c * extend h i := by
  unfold extend; split <;> simp

theorem extend_val {n : Nat} (h : Fin n → ℚ) (i : Fin n) : extend h i.val = h i := by
  unfold extend; simp [i.isLt]

/-- the operator of the Dirichlet problem: identity on the seeds, `W_i h_i − Σ_j w_ij h_j` elsewhere -/
def dirOp (n : Nat) (w : Nat → Nat → ℚ) (seed : Nat → Bool) : (Fin n → ℚ) →ₗ[ℚ] (Fin n → ℚ) where
  toFun h := fun i =>
    if seed i.val then h i else (sumTo n fun j => w i.val j) * h i - sumTo n fun j => w i.val j * extend h j
  map_add' h g := by
    funext i
    simp only [Pi.add_apply]
    split
    · rfl
    · rw [sumTo_congr (fun j _ => by rw [extend_add]; ring :
        ∀ j, j < n → w i.val j * extend (h + g) j = w i.val j * extend h j + w i.val j * extend g j), sumTo_add]
      ring
  map_smul' c h := by
    funext i
    simp only [Pi.smul_apply, smul_eq_mul, RingHom.id_apply]
    split
    · rfl
    · rw [sumTo_congr (fun j _ => by rw [extend_smul]; ring :
        ∀ j, j < n → w i.val j * extend (c • h) j = c * (w i.val j * extend h j)), sumTo_mul_left]
      ring

theorem dirOp_apply {n : Nat} (w : Nat → Nat → ℚ) (seed : Nat → Bool) (h : Fin n → ℚ) (i : Fin n) :
    dirOp n w seed h i =
      if seed i.val then h i else (sumTo n fun j => w i.val j) * h i - sumTo n fun j => w i.val j * extend h j := rfl

/-- `dirOp h = b` says that `extend h` is harmonic for the boundary values `b` (and `b = 0` off the boundary) -/
theorem isHarmonic_of_dirOp {n : Nat} {w : Nat → Nat → ℚ} {seed : Nat → Bool} {temp : Nat → ℚ} {h : Fin n → ℚ}
    (e : dirOp n w seed h = fun i => if seed i.val then temp i.val else 0) :
    IsHarmonic n w seed temp (extend h) := by
  intro i hi
  have ei := congrFun e ⟨i, hi⟩
  rw [dirOp_apply] at ei
  simp only at ei
  constructor
  · intro hs
    rw [hs] at ei
    simp only [if_true] at ei
    rw [← ei]; exact extend_val h ⟨i, hi⟩
  · intro hs
    rw [hs] at ei
    simp only [Bool.false_eq_true, if_false] at ei
    rw [total_eq_sumTo, total_eq_sumTo]
    have := extend_val h ⟨i, hi⟩
    simp only at this
    rw [this]
    linarith

theorem dirOp_injective {n : Nat} {w : Nat → Nat → ℚ} {seed : Nat → Bool}
    (hw : ∀ i j, i < n → j < n → 0 ≤ w i j)
    (hreach : ∀ i, i < n → ∃ t, ReachesSeed n w seed t i) :
    Function.Injective (dirOp n w seed) := by
  rw [injective_iff_map_eq_zero]
  intro h e
  have H1 : IsHarmonic n w seed (fun _ => 0) (extend h) :=
    isHarmonic_of_dirOp (temp := fun _ => 0) (by rw [e]; funext i; simp)
  have H2 : IsHarmonic n w seed (fun _ => 0) (fun _ => 0) := by
    intro i _
    refine ⟨fun _ => rfl, fun _ => ?_⟩
    rw [total_eq_sumTo, total_eq_sumTo]
    simp
  funext i
  have := harmonic_unique_of_reach hw hreach H1 H2 i.val i.isLt
  rw [extend_val] at this
  exact this

/-- **existence** of the harmonic function -/
theorem harmonic_exists_of_reach {n : Nat} {w : Nat → Nat → ℚ} {seed : Nat → Bool}
    (hw : ∀ i j, i < n → j < n → 0 ≤ w i j)
    (hreach : ∀ i, i < n → ∃ t, ReachesSeed n w seed t i) (temp : Nat → ℚ) :
    ∃ h : Nat → ℚ, IsHarmonic n w seed temp h := by
  have hsurj := LinearMap.injective_iff_surjective.1 (dirOp_injective hw hreach)
  obtain ⟨h, e⟩ := hsurj (fun i => if seed i.val then temp i.val else 0)
  exact ⟨extend h, isHarmonic_of_dirOp e⟩

end SkNet.Heat
