/-
C02 (spectra / singular values are unchanged by a renumbering, the vectors are renumbered): equivariance of
the operators of C09's specification (`SkNet/Spec/Embedding.lean`: the regularised Laplacian `D − A_reg`,
the transition operator `D⁻¹ A_reg`, the GSVD matrix `D₁^{-α₁} A_reg D₂^{-α₂}`) under renumbering, over any
field.  C09 ties these specifications to the code (the model's `Laplacian._matvec` applies exactly
`lapApply`; residual `spec` lines on the eigenpairs ARPACK returned).
-/
import SkNet.Lemmas.Embedding
import SkNet.Lemmas.WLEquiv

set_option linter.unusedSectionVars false

namespace SkNet.EmbeddingEquiv
open Finset SkNet SkNet.Embedding SkNet.Embedding.Spec SkNet.WL

/-- a sum over `{0..n-1}` may be taken in any order -/
theorem sumN_perm {α : Type} [AddCommMonoid α] {n : Nat} {π πinv : Nat → Nat} (hp : IsPerm n π πinv)
    (f : Nat → α) : sumN n (fun i => f (π i)) = sumN n f := by
  rw [sumN_eq_sum, sumN_eq_sum]
  refine Finset.sum_bij' (fun i _ => π i) (fun i _ => πinv i) ?_ ?_ ?_ ?_ ?_
  · intro i hi; exact mem_range.2 (hp.lt i (mem_range.1 hi))
  · intro i hi; exact mem_range.2 (hp.lt_inv i (mem_range.1 hi))
  · intro i hi; exact hp.left i (mem_range.1 hi)
  · intro i hi; exact hp.right i (mem_range.1 hi)
  · intro i _; rfl

theorem isPerm_symm {n : Nat} {π πinv : Nat → Nat} (hp : IsPerm n π πinv) : IsPerm n πinv π :=
  ⟨hp.lt_inv, hp.lt, hp.right, hp.left⟩

section field
variable {α : Type} [Field α] [DecidableEq α]

/-- `a'` is the matrix of the graph renumbered by `π` (rows) and `ρ` (columns): `a'[π i, ρ j] = a[i, j]` -/
def Renumbered (nRow nCol : Nat) (π ρ : Nat → Nat) (a a' : Mat α) : Prop :=
  ∀ i j, i < nRow → j < nCol → mget a' (π i) (ρ j) = mget a i j

theorem aReg_relabel {nRow nCol : Nat} {π ρ : Nat → Nat} {a a' : Mat α} (h : Renumbered nRow nCol π ρ a a')
    (reg : α) {i j : Nat} (hi : i < nRow) (hj : j < nCol) :
    aReg nCol a' reg (π i) (ρ j) = aReg nCol a reg i j := by
  unfold aReg; rw [h i j hi hj]

theorem degReg_relabel {n : Nat} {π πinv : Nat → Nat} (hp : IsPerm n π πinv) {a a' : Mat α}
    (h : Renumbered n n π π a a') (reg : α) {i : Nat} (hi : i < n) :
    degReg n a' reg (π i) = degReg n a reg i := by
  unfold degReg
  rw [← sumN_perm hp (fun j => aReg n a' reg (π i) j)]
  exact sumN_congr fun j hj => aReg_relabel h reg hi hj

theorem lapApply_relabel {n : Nat} {π πinv : Nat → Nat} (hp : IsPerm n π πinv) {a a' : Mat α}
    (h : Renumbered n n π π a a') (reg : α) {v v' : Nat → α} (hv : ∀ i, i < n → v' (π i) = v i)
    {i : Nat} (hi : i < n) : lapApply n a' reg v' (π i) = lapApply n a reg v i := by
  unfold lapApply
  rw [degReg_relabel hp h reg hi, hv i hi, ← sumN_perm hp (fun j => aReg n a' reg (π i) j * v' j)]
  congr 1
  exact sumN_congr fun j hj => by rw [aReg_relabel h reg hi hj, hv j hj]

theorem transApply_relabel {n : Nat} {π πinv : Nat → Nat} (hp : IsPerm n π πinv) {a a' : Mat α}
    (h : Renumbered n n π π a a') (reg : α) {v v' : Nat → α} (hv : ∀ i, i < n → v' (π i) = v i)
    {i : Nat} (hi : i < n) : transApply n a' reg v' (π i) = transApply n a reg v i := by
  unfold transApply
  rw [degReg_relabel hp h reg hi, ← sumN_perm hp (fun j => aReg n a' reg (π i) j * v' j)]
  congr 1
  exact sumN_congr fun j hj => by rw [aReg_relabel h reg hi hj, hv j hj]

theorem gsvdWeightRow_relabel {nRow nCol : Nat} {π ρ ρinv : Nat → Nat} (hc : IsPerm nCol ρ ρinv)
    {a a' : Mat α} (h : Renumbered nRow nCol π ρ a a') (reg : α) {i : Nat} (hi : i < nRow) :
    gsvdWeightRow nCol a' reg (π i) = gsvdWeightRow nCol a reg i := by
  unfold gsvdWeightRow
  rw [← sumN_perm hc (fun j => aReg nCol a' reg (π i) j)]
  exact sumN_congr fun j hj => aReg_relabel h reg hi hj

theorem gsvdWeightCol_relabel {nRow nCol : Nat} {π πinv ρ : Nat → Nat} (hr : IsPerm nRow π πinv)
    {a a' : Mat α} (h : Renumbered nRow nCol π ρ a a') (reg : α) {j : Nat} (hj : j < nCol) :
    gsvdWeightCol nRow nCol a' reg (ρ j) = gsvdWeightCol nRow nCol a reg j := by
  unfold gsvdWeightCol
  rw [← sumN_perm hr (fun i => aReg nCol a' reg i (ρ j))]
  exact sumN_congr fun i hi => aReg_relabel h reg hi hj

theorem gsvdEntry_relabel (F : Fn α) {nRow nCol : Nat} {π πinv ρ ρinv : Nat → Nat} (hr : IsPerm nRow π πinv)
    (hc : IsPerm nCol ρ ρinv) {a a' : Mat α} (h : Renumbered nRow nCol π ρ a a') (reg fr fc : α)
    {i j : Nat} (hi : i < nRow) (hj : j < nCol) :
    gsvdEntry F nRow nCol a' reg fr fc (π i) (ρ j) = gsvdEntry F nRow nCol a reg fr fc i j := by
  unfold gsvdEntry
  rw [gsvdWeightRow_relabel hc h reg hi, gsvdWeightCol_relabel hr h reg hj, aReg_relabel h reg hi hj]

/-- `(σ, u, v)` is a singular triplet of the `nRow × nCol` matrix `m`: `M v = σ u` and `Mᵀ u = σ v` -/
def IsTriplet (nRow nCol : Nat) (m : Nat → Nat → α) (s : α) (u v : Nat → α) : Prop :=
  (∀ i, i < nRow → (sumN nCol fun j => m i j * v j) = s * u i) ∧
  (∀ j, j < nCol → (sumN nRow fun i => m i j * u i) = s * v j)

theorem isTriplet_relabel_mp {nRow nCol : Nat} {π πinv ρ ρinv : Nat → Nat} (hr : IsPerm nRow π πinv)
    (hc : IsPerm nCol ρ ρinv) {m m' : Nat → Nat → α}
    (hm : ∀ i j, i < nRow → j < nCol → m' (π i) (ρ j) = m i j) (s : α) {u u' v v' : Nat → α}
    (hu : ∀ i, i < nRow → u' (π i) = u i) (hv : ∀ j, j < nCol → v' (ρ j) = v j)
    (ht : IsTriplet nRow nCol m s u v) : IsTriplet nRow nCol m' s u' v' := by
  constructor
  · intro i' hi'
    have e : i' = π (πinv i') := (hr.right i' hi').symm
    have hi := hr.lt_inv i' hi'
    rw [e, hu _ hi, ← ht.1 _ hi, ← sumN_perm hc (fun j => m' (π (πinv i')) j * v' j)]
    exact sumN_congr fun j hj => by rw [hm _ _ hi hj, hv j hj]
  · intro j' hj'
    have e : j' = ρ (ρinv j') := (hc.right j' hj').symm
    have hj := hc.lt_inv j' hj'
    rw [e, hv _ hj, ← ht.2 _ hj, ← sumN_perm hr (fun i => m' i (ρ (ρinv j')) * u' i)]
    exact sumN_congr fun i hi => by rw [hm _ _ hi hj, hu i hi]

end field

end SkNet.EmbeddingEquiv
