/-
Helper lemmas for C14: the model is invariant under a positive rescaling of all weights
(`normalize (c·A) = normalize A`, hence the same Diffusion matrix, the same Dirichlet round, the same `fit`).
-/
import SkNet.Lemmas.HeatValues

namespace SkNet.Heat

attribute [-simp] List.getD_eq_getElem?_getD

/-- all weights multiplied by `c` -/
def scaleMat (c : Rat) (A : Nat → Nat → Rat) : Nat → Nat → Rat := fun i j => c * A i j

theorem rowNorm_scale {c : Rat} (hc : 0 ≤ c) (n : Nat) (A : Nat → Nat → Rat) (i : Nat) :
    rowNorm n (scaleMat c A) i = c * rowNorm n A i := by
  unfold rowNorm scaleMat
  rw [sumTo_congr (fun j _ => absQ_mul_of_nonneg hc (A i j)), sumTo_mul_left]

theorem pinv_scale {c : Rat} (hc : c ≠ 0) (x a : Rat) : pinv (c * x) * (c * a) = pinv x * a := by
  unfold pinv
  by_cases hx : x = 0
  · simp [hx]
  · have hcx : c * x ≠ 0 := mul_ne_zero hc hx
    rw [if_neg hcx, if_neg hx]
    field_simp

theorem normalize_scale {c : Rat} (hc : 0 < c) (n : Nat) (A : Nat → Nat → Rat) :
    normalize n (scaleMat c A) = normalize n A := by
  funext i j
  unfold normalize
  rw [rowNorm_scale (le_of_lt hc)]
  exact pinv_scale (ne_of_gt hc) _ _

theorem diffusionEntry_scale {c : Rat} (hc : 0 < c) (n : Nat) (A : Nat → Nat → Rat) (α : Rat) :
    diffusionEntry n (scaleMat c A) α = diffusionEntry n A α := by
  funext i j
  unfold diffusionEntry
  have hT : (fun r c' => scaleMat c A c' r) = scaleMat c (fun r c' => A c' r) := rfl
  simp only [hT, normalize_scale hc]

theorem blockMat_scale (c : Rat) (nRow : Nat) (B : Nat → Nat → Rat) :
    blockMat nRow (scaleMat c B) = scaleMat c (blockMat nRow B) := by
  funext i j
  unfold blockMat scaleMat
  by_cases hi : i < nRow <;> by_cases hj : j < nRow <;> simp [hi, hj]

theorem fitVector_scale {c : Rat} (hc : 0 < c) (algo : Algo) (n : Nat) (adj : Nat → Nat → Rat) (seeds : List Rat)
    (b : Bool) (init : Option Rat) (k : Nat) (α : Rat) :
    fitVector algo ⟨n, scaleMat c adj, seeds, b⟩ init k α = fitVector algo ⟨n, adj, seeds, b⟩ init k α := by
  unfold fitVector
  simp only [diffusionEntry_scale hc, normalize_scale hc]

theorem getAdjacencyValues_scale (c : Rat) (nRow nCol nnz : Nat) (B : Nat → Nat → Rat) (a : Args) :
    getAdjacencyValues nRow nCol nnz (scaleMat c B) a =
      (getAdjacencyValues nRow nCol nnz B a).map fun p => ⟨p.n, scaleMat c p.adj, p.seeds, p.bipartite⟩ := by
  unfold getAdjacencyValues
  by_cases hnnz : nnz = 0
  · simp [hnnz, Except.map]
  · simp only [hnnz, if_false]
    by_cases hb : (a.forceBipartite || !a.valuesRow.isNone || !a.valuesCol.isNone || nRow != nCol) = true
    · simp only [hb, if_true]
      generalize (if a.values.isNone = true then stackValues nRow nCol a.valuesRow a.valuesCol (-1)
        else stackValues nRow nCol a.values a.valuesCol (-1)) = vals
      cases vals <;> simp [Except.map, blockMat_scale]
    · simp only [hb]
      generalize getValues nRow a.values (-1) = vals
      cases vals <;> simp [Except.map]

theorem fit_scale {c : Rat} (hc : 0 < c) (algo : Algo) (nRow nCol nnz : Nat) (B : Nat → Nat → Rat) (a : Args)
    (nIter : Int) (α : Rat) :
    fit algo nRow nCol nnz (scaleMat c B) a nIter α = fit algo nRow nCol nnz B a nIter α := by
  unfold fit
  rw [getAdjacencyValues_scale]
  cases getAdjacencyValues nRow nCol nnz B a with
  | error e => simp [Except.map]
  | ok p =>
    obtain ⟨n, adj, seeds, b⟩ := p
    simp only [Except.map, fitVector_scale hc]

end SkNet.Heat
