/- Helper lemmas of Properties/C12.lean (kept out of the property file, which holds the property theorems only). -/
import SkNet.Model.Connectivity
import SkNet.Model.Cycles
import SkNet.Spec.Connectivity
import SkNet.Lemmas.Connectivity
import SkNet.Lemmas.BreakCycles
import SkNet.Lemmas.Bipartite
import SkNet.Lemmas.Reach
import SkNet.Lemmas.GetCycles
import SkNet.Lemmas.CyclesFuel
import SkNet.Lemmas.Dedup
import SkNet.Lemmas.UndirectedForest

namespace SkNet.C12
open SkNet SkNet.Connectivity SkNet.Cycles

theorem resolveDirected_false {m : Mat} {directed : Option Bool} (h : resolveDirected m directed = .ok false) :
    m.isSymmetric = .ok true := by
  unfold resolveDirected at h
  split at h
  · cases h
  · split at h
    · cases h
    · rename_i s hs
      split at h
      · rename_i hst; rw [hs, hst]
      · cases h
  · split at h
    · cases h
    · rename_i s hs
      have : s = true := by
        cases s with
        | true => rfl
        | false => simp at h
      rw [hs, this]

/-- the self-loops recorded first are simple cycles -/
theorem selfLoop_cycles_simple (m : Mat) (hc : m.Canon) (hsq : m.nRow = m.nCol) (d : Bool) :
    ∀ c ∈ (selfLoops m).map (fun v => [v]), IsSimpleCycle m.nRow m.adj d c := by
  intro c hcm
  obtain ⟨v, hv, rfl⟩ := List.mem_map.mp hcm
  simp only [selfLoops, List.mem_filter, List.mem_range, decide_eq_true_eq] at hv
  have hmem : v ∈ m.adj v :=
    (hc v v hv.1).mpr ⟨hsq ▸ hv.1, fun h => by rw [h] at hv; exact absurd hv.2 (by decide)⟩
  refine ⟨by simp, by simp [hv.1], ?_, Or.inr (Or.inl rfl)⟩
  show isChain m.adj ([v] ++ [v]) = true
  simp [isChain, hmem]

/-- the rows of an undirected input: symmetric pattern, no duplicate entry -/
theorem uok_of_canon {m : Mat} (hc : m.Canon) (hsq : m.nRow = m.nCol) (hs : m.isSymmetric = .ok true)
    (hrows : ∀ i, i < m.nRow → (m.adj i).Nodup) (hnl : ∀ u, u < m.nRow → u ∉ m.adj u) :
    SkNet.UForest.UOK m.nRow m.adj :=
  ⟨Canon.wf hc hsq, Canon.sym hc hs, hnl, hrows⟩

/-- self-loops do not matter for reachability: the adjacency `break_cycles` works on reaches what the input reaches -/
theorem reach_noLoop_iff (m : Mat) (hwf : WF m.nRow m.adj) {u : Nat} (hu : u < m.nRow) (v : Nat) :
    Reach m.adj u v ↔ Reach (noLoopRows m).row u v := by
  constructor
  · intro h
    induction h with
    | refl => exact Reach.refl _
    | @tail x y hp he ih =>
      by_cases hxy : y = x
      · rw [hxy]; exact ih
      · exact Reach.tail ih ((mem_noLoopRows m x y).mpr ⟨Reach.lt hwf hp hu, he, hxy⟩)
  · exact Reach.mono (fun x y hy => ((mem_noLoopRows m x y).mp hy).2.1)

theorem checkRoot_ok {m : Mat} {root : List Nat} (h : checkRoot m root = .ok ()) : ∀ r ∈ root, r < m.nRow := by
  unfold checkRoot at h
  split at h
  · cases h
  · rename_i hall
    intro r hr
    have : (root.all fun x => decide (x < m.nRow)) = true := by simpa using hall
    simpa using List.all_eq_true.mp this r hr

theorem noLoopRows_bounds (m : Mat) (hwf : WF m.nRow m.adj) :
    (∀ u v, v ∈ (noLoopRows m).row u → v < m.nRow) ∧
    ∀ u, ((noLoopRows m).row u).length ≤ maxOf ((List.range m.nRow).map fun i => (m.adj i).length) + m.nRow := by
  refine ⟨fun u v hv => ?_, fun u => ?_⟩
  · obtain ⟨hu, hmem, _⟩ := (mem_noLoopRows m u v).mp hv
    exact hwf u hu v hmem
  · unfold noLoopRows Rows.row
    rw [tab_getD]
    split
    · rename_i hu
      rw [(sortNat_perm _).length_eq]
      exact Nat.le_trans (List.length_filter_le _ _) (Nat.le_trans (row_length_le_maxOf m u hu) (Nat.le_add_right _ _))
    · simp

/-! ### example matrices of Properties/C12.lean and their domain facts -/

/-- the 2-cycle 0 ⇄ 1 -/
def twoCycle : Mat :=
  ⟨2, 2, fun i => if i = 0 then [1] else if i = 1 then [0] else [],
    fun i j => if (i = 0 ∧ j = 1) ∨ (i = 1 ∧ j = 0) then 1 else 0⟩

theorem twoCycle_canon : twoCycle.Canon := by
  intro i j hi
  have hi' : i < 2 := hi
  match i, hi' with
  | 0, _ =>
    simp only [twoCycle, ↓reduceIte, List.mem_singleton, true_and, Nat.zero_ne_one, false_and, or_false]
    constructor
    · intro h; subst h; exact ⟨by decide, by decide⟩
    · intro ⟨_, h⟩
      apply Classical.byContradiction
      intro hne
      simp [hne] at h
  | 1, _ =>
    simp only [twoCycle, Nat.succ_ne_zero, ↓reduceIte, List.mem_singleton, false_and, true_and, false_or]
    constructor
    · intro h; subst h; exact ⟨by decide, by decide⟩
    · intro ⟨_, h⟩
      apply Classical.byContradiction
      intro hne
      simp [hne] at h


/-- the directed 3-cycle 0 → 1 → 2 → 0 from root 0: the model removes the closing edge 2 → 0, and the hypotheses of
    `breakCycles_directed` are met (one strong component, distances 0, 1, 2) -/
def threeCycle : Mat := ⟨3, 3, fun i => [(i + 1) % 3], fun i j => if j = (i + 1) % 3 then 1 else 0⟩

theorem threeCycle_canon : threeCycle.Canon := by
  intro i j _
  simp only [threeCycle, List.mem_singleton]
  constructor
  · intro h; subst h
    exact ⟨Nat.mod_lt _ (by decide), by simp⟩
  · intro ⟨_, h⟩
    apply Classical.byContradiction
    intro hne
    simp [hne] at h


/-! ### remarks about definitions -/

/-- A remark about the *definition* of the matrix the model returns for `break_cycles` (it holds for every kept pattern
    `a`, it is not a statement about the traversal): a kept entry carries the value of the input, every other entry is 0.
    That the implementation keeps the weights is checked on every run (values in the run line, `subgraph` conjunct of
    `c12.spec_break`), not proved. -/
theorem breakResult_val (m : Mat) (a : Rows) (i j : Nat) :
    (breakResult m a).val i j = if j ∈ a.row i then m.val i j else 0 := by
  show (if a.has i j then m.val i j else 0) = _
  by_cases h : j ∈ a.row i
  · have : a.has i j = true := by simpa [Rows.has] using h
    rw [this, if_pos h]; rfl
  · have : a.has i j = false := by simpa [Rows.has] using h
    rw [this, if_neg h]; rfl

theorem eraseDups_length_le : ∀ (n : Nat) (l : List Nat), l.length ≤ n → l.eraseDups.length ≤ l.length := by
  intro n
  induction n with
  | zero => intro l hl; have : l = [] := List.length_eq_zero_iff.mp (by omega); subst this; simp
  | succ n ih =>
    intro l hl
    cases l with
    | nil => simp
    | cons a as =>
      rw [List.eraseDups_cons]
      have h1 : (as.filter fun b => !b == a).length ≤ as.length := List.length_filter_le _ _
      have h2 := ih (as.filter fun b => !b == a) (by simp only [List.length_cons] at hl; omega)
      simp only [List.length_cons]
      omega

/-- the set order used by the driver (`sortNat l.eraseDups`: CPython's increasing order for small node numbers)
    enumerates exactly the members, each once: the hypotheses `hset1`, `hset2`, `hset3` of the `break_cycles` theorems -/
theorem driverSetOrder_ok :
    (∀ l x, x ∈ sortNat (List.eraseDups l) → x ∈ l) ∧ (∀ l x, x ∈ l → x ∈ sortNat (List.eraseDups l)) ∧
    (∀ l : List Nat, (sortNat l.eraseDups).length ≤ l.length) := by
  refine ⟨fun l x h => ?_, fun l x h => ?_, fun l => ?_⟩
  · rw [mem_sortNat] at h; exact List.mem_eraseDups.mp h
  · rw [mem_sortNat]; exact List.mem_eraseDups.mpr h
  · rw [(sortNat_perm _).length_eq]; exact eraseDups_length_le l.length l (Nat.le_refl _)

end SkNet.C12
