/- Helper lemmas of Properties/C12.lean (kept out of the property file, which holds the property theorems only). -/
import SkNet.Model.Connectivity
import SkNet.Model.Cycles
import SkNet.Spec.Connectivity
import SkNet.Lemmas.Connectivity
import SkNet.Lemmas.BreakCycles
import SkNet.Lemmas.Bipartite
import SkNet.Lemmas.Reach
import SkNet.Lemmas.GetCycles
import SkNet.Lemmas.CyclesFuel
import SkNet.Lemmas.Dedup
import SkNet.Lemmas.UndirectedForest

namespace SkNet.C12
open SkNet SkNet.Connectivity SkNet.Cycles

theorem resolveDirected_false {m : Mat} {directed : Option Bool} (h : resolveDirected m directed = .ok false) :
    m.isSymmetric = .ok true := by
  unfold resolveDirected at h
  split at h
  · cases h
  · split at h
    · cases h
    · rename_i s hs
      split at h
      · rename_i hst; rw [hs, hst]
      · cases h
  · split at h
    · cases h
    · rename_i s hs
      have : s = true := by
        cases s with
        | true => rfl
        | false => simp at h
      rw [hs, this]

/-- the self-loops recorded first are simple cycles -/
theorem selfLoop_cycles_simple (m : Mat) (hc : m.Canon) (hsq : m.nRow = m.nCol) (d : Bool) :
    ∀ c ∈ (selfLoops m).map (fun v => [v]), IsSimpleCycle m.nRow m.adj d c := by
  intro c hcm
  obtain ⟨v, hv, rfl⟩ := List.mem_map.mp hcm
  simp only [selfLoops, List.mem_filter, List.mem_range, decide_eq_true_eq] at hv
  have hmem : v ∈ m.adj v :=
    (hc v v hv.1).mpr ⟨hsq ▸ hv.1, fun h => by rw [h] at hv; exact absurd hv.2 (by decide)⟩
  refine ⟨by simp, by simp [hv.1], ?_, Or.inr (Or.inl rfl)⟩
  show isChain m.adj ([v] ++ [v]) = true
  simp [isChain, hmem]

/-- the rows of an undirected input: symmetric pattern, no duplicate entry -/
theorem uok_of_canon {m : Mat} (hc : m.Canon) (hsq : m.nRow = m.nCol) (hs : m.isSymmetric = .ok true)
    (hrows : ∀ i, i < m.nRow → (m.adj i).Nodup) (hnl : ∀ u, u < m.nRow → u ∉ m.adj u) :
    SkNet.UForest.UOK m.nRow m.adj :=
  ⟨Canon.wf hc hsq, Canon.sym hc hs, hnl, hrows⟩

/-- self-loops do not matter for reachability: the adjacency `break_cycles` works on reaches what the input reaches -/
theorem reach_noLoop_iff (m : Mat) (hwf : WF m.nRow m.adj) {u : Nat} (hu : u < m.nRow) (v : Nat) :
    Reach m.adj u v ↔ Reach (noLoopRows m).row u v := by
  constructor
  · intro h
    induction h with
    | refl => exact Reach.refl _
    | @tail x y hp he ih =>
      by_cases hxy : y = x
      · rw [hxy]; exact ih
      · exact Reach.tail ih ((mem_noLoopRows m x y).mpr ⟨Reach.lt hwf hp hu, he, hxy⟩)
  · exact Reach.mono (fun x y hy => ((mem_noLoopRows m x y).mp hy).2.1)

theorem checkRoot_ok {m : Mat} {root : List Nat} (h : checkRoot m root = .ok ()) : ∀ r ∈ root, r < m.nRow := by
  unfold checkRoot at h
  split at h
  · cases h
  · rename_i hall
    intro r hr
    have : (root.all fun x => decide (x < m.nRow)) = true := by simpa using hall
    simpa using List.all_eq_true.mp this r hr

theorem noLoopRows_bounds (m : Mat) (hwf : WF m.nRow m.adj) :
    (∀ u v, v ∈ (noLoopRows m).row u → v < m.nRow) ∧
    ∀ u, ((noLoopRows m).row u).length ≤ maxOf ((List.range m.nRow).map fun i => (m.adj i).length) + m.nRow := by
  refine ⟨fun u v hv => ?_, fun u => ?_⟩
  · obtain ⟨hu, hmem, _⟩ := (mem_noLoopRows m u v).mp hv
    exact hwf u hu v hmem
  · unfold noLoopRows Rows.row
    rw [tab_getD]
    split
    · rename_i hu
      rw [(sortNat_perm _).length_eq]
      exact Nat.le_trans (List.length_filter_le _ _) (Nat.le_trans (row_length_le_maxOf m u hu) (Nat.le_add_right _ _))
    · simp

end SkNet.C12
