/-
The fixed point of the vote sweep against the specification of SkNet/Spec/Classify.lean, seeds and label sets.
-/
import SkNet.Lemmas.Vote
import SkNet.Spec.Classify

namespace SkNet.Vote
open SkNet.Classify

attribute [-simp] List.getD_eq_getElem?_getD

/-! ### the size of the scratch vector -/

theorem nLabels_fold (ls : List Int) (m : Nat) :
    m ≤ ls.foldl nLabelsStep m ∧ ∀ x ∈ ls, 0 ≤ x → x.toNat < ls.foldl nLabelsStep m := by
  induction ls generalizing m with
  | nil => simp
  | cons l ls ih =>
    simp only [List.foldl_cons]
    obtain ⟨h1, h2⟩ := ih (nLabelsStep m l)
    have hm : m ≤ nLabelsStep m l := by
      unfold nLabelsStep
      split <;> omega
    refine ⟨by omega, ?_⟩
    intro x hx h0
    rcases List.mem_cons.mp hx with rfl | hx
    · have : x.toNat < nLabelsStep m x := by
        unfold nLabelsStep
        split <;> omega
      omega
    · exact h2 x hx h0

theorem nLabels_inRange (labels : List Int) : InRange labels (nLabels labels) :=
  fun x hx h0 => (nLabels_fold labels 0).2 x hx h0

theorem clear_replicate (k : Nat) : Clear (List.replicate k (0 : Rat)) := by
  intro j
  simp only [List.getD_eq_getElem?_getD, List.getElem?_replicate]
  split <;> rfl

theorem inv_init (labels : List Int) :
    Inv labels (nLabels labels) labels.length ⟨labels, List.replicate (nLabels labels) 0⟩ :=
  ⟨clear_replicate _, by simp, fun _ h => h, rfl⟩

theorem sweep_inv (c : Csr Rat) (hw : ∀ p, 0 ≤ c.data.getD p 0) {L0 : List Int} {K n : Nat}
    (hK : InRange L0 K) (index : List Nat) (st : St) (h : Inv L0 K n st) (hi : ∀ i ∈ index, i < n) :
    Inv L0 K n (sweep c st index) := by
  unfold sweep
  induction index generalizing st with
  | nil => exact h
  | cons i is ih =>
    simp only [List.foldl_cons]
    exact ih _ (voteNode_inv c hw hK h i (hi i (List.mem_cons_self ..)))
      (fun j hj => hi j (List.mem_cons_of_mem _ hj))

/-- every label after the kernel is one of the labels before it -/
theorem voteUpdate_subset (c : Csr Rat) (hw : ∀ p, 0 ≤ c.data.getD p 0) (labels : List Int) (index : List Nat)
    (hi : ∀ i ∈ index, i < labels.length) : ∀ x ∈ voteUpdate c labels index, x ∈ labels :=
  (sweep_inv c hw (nLabels_inRange labels) index _ (inv_init labels) hi).sub

theorem voteUpdate_length (c : Csr Rat) (labels : List Int) (index : List Nat) :
    (voteUpdate c labels index).length = labels.length := sweep_length c index _

/-- nodes outside the update index keep their label -/
theorem voteUpdate_outside (c : Csr Rat) (labels : List Int) (index : List Nat) (j : Nat) (d : Int)
    (hj : j ∉ index) : (voteUpdate c labels index).getD j d = labels.getD j d :=
  sweep_outside c index _ j d hj

/-! ### a sweep that changes nothing -/

/-- node `i` holds a neighbour label of maximal total vote (in terms of the kernel's neighbour list) -/
def NodeOK (c : Csr Rat) (labels : List Int) (i : Nat) : Prop :=
  (∃ p ∈ neigh c labels i, 0 ≤ p.1) →
    (0 ≤ labels.getD i (-1) ∧ (∃ w, (labels.getD i (-1), w) ∈ neigh c labels i) ∧
      ∀ p ∈ neigh c labels i, 0 ≤ p.1 →
        scoreOf (neigh c labels i) p.1 ≤ scoreOf (neigh c labels i) (labels.getD i (-1)))

theorem set_getD_self (l : List Int) (i : Nat) (d : Int) (h : i < l.length) : l.set i (l.getD i d) = l := by
  rw [List.getD_eq_getElem?_getD, List.getElem?_eq_getElem h]
  exact List.set_getElem_self h

theorem getD_set_self (l : List Int) (i : Nat) (a d : Int) (h : i < l.length) : (l.set i a).getD i d = a := by
  simp [List.getD_eq_getElem?_getD, h]

theorem sweep_fixed (c : Csr Rat) (hw : ∀ p, 0 ≤ c.data.getD p 0) {L0 : List Int} {K n : Nat}
    (hK : InRange L0 K) (index : List Nat) (st : St) (h : Inv L0 K n st) (hnd : index.Nodup)
    (hi : ∀ i ∈ index, i < n) (hfix : (sweep c st index).labels = st.labels) :
    ∀ i ∈ index, NodeOK c st.labels i := by
  induction index generalizing st with
  | nil => intro i hi; cases hi
  | cons i is ih =>
    have hnd' := List.nodup_cons.mp hnd
    have hin : i < n := hi i (List.mem_cons_self ..)
    have hlt : i < st.labels.length := by rw [h.size]; exact hin
    have hsw : sweep c st (i :: is) = sweep c (voteNode c st i) is := rfl
    rw [hsw] at hfix
    -- the label written at i survives the rest of the sweep
    have h1 : (voteNode c st i).labels.getD i (-1) = st.labels.getD i (-1) := by
      rw [← sweep_outside c is (voteNode c st i) i (-1) hnd'.1, hfix]
    rw [voteNode_labels, getD_set_self _ _ _ _ hlt] at h1
    have hlab : (voteNode c st i).labels = st.labels := by
      rw [voteNode_labels, h1]
      exact set_getD_self _ _ _ hlt
    have hr : InRange st.labels st.votes.length := by
      intro x hx h0
      rw [h.len]
      exact hK x (h.sub x hx) h0
    obtain ⟨_, _, _, h4⟩ := voteNode_spec c st i h.clear hr (neigh_weight c st.labels i hw)
    have hinv := voteNode_inv c hw hK h i hin
    have ih' := ih (voteNode c st i) hinv hnd'.2 (fun j hj => hi j (List.mem_cons_of_mem _ hj))
      (by rw [hfix, hlab])
    intro j hj
    rcases List.mem_cons.mp hj with rfl | hj
    · intro hex
      have := h4 hex
      rw [h1] at this
      exact this
    · have := ih' j hj
      rw [hlab] at this
      exact this

/-- **fixed point of the kernel**: if `vote_update` returns the labels it was given, every updated node
    satisfies `NodeOK` -/
theorem voteUpdate_fixed (c : Csr Rat) (hw : ∀ p, 0 ≤ c.data.getD p 0) (labels : List Int) (index : List Nat)
    (hnd : index.Nodup) (hi : ∀ i ∈ index, i < labels.length) (hfix : voteUpdate c labels index = labels) :
    ∀ i ∈ index, NodeOK c labels i :=
  sweep_fixed c hw (nLabels_inRange labels) index _ (inv_init labels) hnd hi hfix

/-! ### bridge to the specification -/

theorem rsum_cons (x : Rat) (l : List Rat) : rsum (x :: l) = x + rsum l := rfl

theorem score_eq_aux (labels : List Int) (ix : Array Nat) (dt : Array Rat) (l : Int) (ps : List Nat) :
    rsum (((ps.map fun p => (ix.getD p 0, dt.getD p default)).filter
        fun (e : Nat × Rat) => labels.getD e.1 (-1) == l).map (·.2)) =
      scoreOf (ps.map fun p => (labels.getD (ix.getD p 0) (-1), dt.getD p 0)) l := by
  induction ps with
  | nil => rfl
  | cons p ps ih =>
    simp only [List.map_cons, List.filter_cons, scoreOf]
    by_cases h : labels.getD (ix.getD p 0) (-1) = l
    · simp only [h, beq_self_eq_true, if_true, List.map_cons, rsum_cons]
      rw [ih]
      rfl
    · have hb : (labels.getD (ix.getD p 0) (-1) == l) = false := by simpa using h
      simp only [hb, Bool.false_eq_true, if_false, h]
      rw [ih]
      simp

theorem score_eq (c : Csr Rat) (labels : List Int) (i : Nat) (l : Int) :
    Spec.score c labels i l = scoreOf (neigh c labels i) l := by
  unfold Spec.score neigh Csr.row
  exact score_eq_aux labels c.indices c.data l (c.rowRange i)

theorem mem_neigh_iff (c : Csr Rat) (labels : List Int) (i : Nat) (l : Int) :
    (∃ w, (l, w) ∈ neigh c labels i) ↔ ∃ e ∈ c.row i, labels.getD e.1 (-1) = l := by
  unfold neigh Csr.row
  simp only [List.mem_map]
  constructor
  · rintro ⟨w, p, hp, he⟩
    refine ⟨_, ⟨p, hp, rfl⟩, ?_⟩
    exact congrArg Prod.fst he
  · rintro ⟨e, ⟨p, hp, rfl⟩, he⟩
    exact ⟨_, p, hp, by rw [← he]⟩

theorem hasLabelled_iff (c : Csr Rat) (labels : List Int) (i : Nat) :
    Spec.hasLabelledNeighbour c labels i = true ↔ ∃ p ∈ neigh c labels i, 0 ≤ p.1 := by
  unfold Spec.hasLabelledNeighbour
  simp only [List.any_eq_true, decide_eq_true_eq]
  constructor
  · rintro ⟨e, he, h0⟩
    obtain ⟨w, hw⟩ := (mem_neigh_iff c labels i _).mpr ⟨e, he, rfl⟩
    exact ⟨_, hw, h0⟩
  · rintro ⟨p, hp, h0⟩
    obtain ⟨e, he, hl⟩ := (mem_neigh_iff c labels i p.1).mp ⟨p.2, hp⟩
    exact ⟨e, he, by rw [hl]; exact h0⟩

theorem localMax_of_nodeOK (c : Csr Rat) (labels : List Int) (i : Nat) (h : NodeOK c labels i)
    (hl : Spec.hasLabelledNeighbour c labels i = true) : Spec.localMax c labels i = true := by
  obtain ⟨h0, hm, hmax⟩ := h ((hasLabelled_iff c labels i).mp hl)
  unfold Spec.localMax
  simp only [Bool.and_eq_true, decide_eq_true_eq, List.any_eq_true, List.all_eq_true, Bool.or_eq_true,
    beq_iff_eq]
  refine ⟨⟨h0, ?_⟩, ?_⟩
  · obtain ⟨e, he, hl⟩ := (mem_neigh_iff c labels i _).mp hm
    exact ⟨e, he, hl⟩
  · intro e he
    by_cases hneg : labels.getD e.1 (-1) < 0
    · exact Or.inl hneg
    · right
      obtain ⟨w, hw⟩ := (mem_neigh_iff c labels i _).mpr ⟨e, he, rfl⟩
      have := hmax _ hw (by simp only; omega)
      rw [score_eq, score_eq]
      exact this

theorem fixedPointOK_of_nodeOK (c : Csr Rat) (labels : List Int) (index : List Nat)
    (h : ∀ i ∈ index, NodeOK c labels i) : Spec.fixedPointOK c labels index = true := by
  unfold Spec.fixedPointOK
  simp only [List.all_eq_true, Bool.or_eq_true, Bool.not_eq_true']
  intro i hi
  by_cases hl : Spec.hasLabelledNeighbour c labels i = true
  · exact Or.inr (localMax_of_nodeOK c labels i (h i hi) hl)
  · left
    simpa using hl

end SkNet.Vote
