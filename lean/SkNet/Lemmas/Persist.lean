/-
Helper lemmas for C18 (persistence): common prefixes, file names of attributes, the load loop.
-/
import SkNet.Model.Persist

namespace SkNet.Persist

/-! ### common prefix -/

theorem commonPrefix_prefix_left [DecidableEq α] (a b : List α) : commonPrefix a b <+: a := by
  induction a generalizing b with
  | nil => simp [commonPrefix]
  | cons x xs ih =>
    cases b with
    | nil => simp [commonPrefix]
    | cons y ys =>
      unfold commonPrefix
      by_cases h : x = y
      · simp only [h, if_true]
        exact (List.cons_prefix_cons).mpr ⟨rfl, by subst h; exact ih ys⟩
      · simp [h]

theorem commonPrefix_prefix_right [DecidableEq α] (a b : List α) : commonPrefix a b <+: b := by
  induction a generalizing b with
  | nil => simp [commonPrefix]
  | cons x xs ih =>
    cases b with
    | nil => simp [commonPrefix]
    | cons y ys =>
      unfold commonPrefix
      by_cases h : x = y
      · simp only [h, if_true]
        exact (List.cons_prefix_cons).mpr ⟨rfl, ih ys⟩
      · simp [h]

theorem commonPrefix_of_prefix [DecidableEq α] (a b : List α) (h : a <+: b) : commonPrefix a b = a := by
  induction a generalizing b with
  | nil => cases b <;> simp [commonPrefix]
  | cons x xs ih =>
    cases b with
    | nil => simp at h
    | cons y ys =>
      obtain ⟨hxy, hp⟩ := List.cons_prefix_cons.mp h
      unfold commonPrefix
      simp [hxy, ih ys hp]

/-! ### containment -/

theorem within_sound (cwd directory target : Chars) (h : isWithinDirectory cwd directory target = true) :
    Inside (abspath cwd directory) (abspath cwd target) := by
  unfold isWithinDirectory at h
  simp only [decide_eq_true_eq] at h
  unfold Inside
  have hc : (commonpath (abspath cwd directory) (abspath cwd target)).comps = (abspath cwd directory).comps := by
    rw [h]
  unfold commonpath at hc
  simp only at hc
  rw [← hc]
  exact commonPrefix_prefix_right _ _

theorem within_complete (cwd directory target : Chars) (h1 : (abspath cwd directory).slashes = 1)
    (h : Inside (abspath cwd directory) (abspath cwd target)) :
    isWithinDirectory cwd directory target = true := by
  unfold isWithinDirectory
  simp only [decide_eq_true_eq]
  unfold commonpath
  rw [commonPrefix_of_prefix _ _ h]
  cases hd : abspath cwd directory with
  | mk s c =>
    rw [hd] at h1
    simp only at h1
    simp [h1]

/-! ### the data filter -/

theorem dataFilter_inside (cwd path m : Chars) (loc : APath) (h : dataFilter cwd path m = some loc) :
    loc = abspath cwd (joinPath path (m.dropWhile (· = '/'))) ∧ Inside (abspath cwd path) loc := by
  unfold dataFilter at h
  simp only at h
  split at h
  · rename_i hc
    cases h
    refine ⟨rfl, ?_⟩
    unfold Inside
    have hcc : (commonpath (abspath cwd path) (abspath cwd (joinPath path (m.dropWhile (· = '/'))))).comps
        = (abspath cwd path).comps := by rw [hc]
    unfold commonpath at hcc
    simp only at hcc
    rw [← hcc]
    exact commonPrefix_prefix_right _ _
  · cases h

theorem extractAll_ok (cwd path : Chars) (ms : List Chars) (ps : List APath)
    (h : extractAll cwd path ms = .ok ps) :
    ps.length = ms.length ∧ ∀ p ∈ ps, ∃ m ∈ ms, dataFilter cwd path m = some p := by
  induction ms generalizing ps with
  | nil =>
    unfold extractAll at h
    cases h
    exact ⟨rfl, by simp⟩
  | cons m ms ih =>
    unfold extractAll at h
    cases hf : dataFilter cwd path m with
    | none => rw [hf] at h; cases h
    | some loc =>
      rw [hf] at h
      simp only at h
      cases hr : extractAll cwd path ms with
      | error e => rw [hr] at h; cases h
      | ok locs =>
        rw [hr] at h
        simp only at h
        cases h
        obtain ⟨hl, hm⟩ := ih locs hr
        refine ⟨by simp [hl], ?_⟩
        intro p hp
        rcases List.mem_cons.mp hp with rfl | hp
        · exact ⟨m, by simp, hf⟩
        · obtain ⟨m', hm', hf'⟩ := hm p hp
          exact ⟨m', List.mem_cons_of_mem _ hm', hf'⟩

theorem extractAll_of_all (cwd path : Chars) (ms : List Chars) (g : Chars → APath)
    (h : ∀ m ∈ ms, dataFilter cwd path m = some (g m)) : extractAll cwd path ms = .ok (ms.map g) := by
  induction ms with
  | nil => rfl
  | cons m ms ih =>
    unfold extractAll
    rw [h m (by simp), ih (fun m' hm' => h m' (List.mem_cons_of_mem _ hm'))]
    rfl

theorem dropWhile_slash_of_rel (m : Chars) (h : isAbs m = false) : m.dropWhile (· = '/') = m := by
  cases m with
  | nil => rfl
  | cons c cs =>
    have hc : c ≠ '/' := by
      intro e; rw [e] at h; simp [isAbs] at h
    simp [hc]

/-! ### joining a plain member name -/

/-- a path component that `normpath` keeps -/
def PlainComp (c : Chars) : Prop := c ≠ [] ∧ c ≠ ['.'] ∧ c ≠ ['.', '.']

/-- the loop of `normpath`, returning `new_comps` reversed -/
def normAcc : List Chars → List Chars → List Chars
  | acc, [] => acc
  | acc, c :: cs =>
    if c = [] ∨ c = ['.'] then normAcc acc cs
    else if c = ['.', '.'] then normAcc acc.tail cs
    else normAcc (c :: acc) cs

theorem normAux_eq_normAcc (acc cs : List Chars) : normAux acc cs = (normAcc acc cs).reverse := by
  induction cs generalizing acc with
  | nil => rfl
  | cons c cs ih =>
    unfold normAux normAcc
    by_cases h1 : c = [] ∨ c = ['.']
    · simp only [h1, if_true]; exact ih acc
    · simp only [h1, if_false]
      by_cases h2 : c = ['.', '.']
      · simp only [h2, if_true]; exact ih acc.tail
      · simp only [h2, if_false]; exact ih (c :: acc)

theorem normAcc_cons (acc : List Chars) (c : Chars) (cs : List Chars) :
    normAcc acc (c :: cs) =
      if c = [] ∨ c = ['.'] then normAcc acc cs
      else if c = ['.', '.'] then normAcc acc.tail cs
      else normAcc (c :: acc) cs := rfl

theorem normAcc_append (acc A B : List Chars) : normAcc acc (A ++ B) = normAcc (normAcc acc A) B := by
  induction A generalizing acc with
  | nil => rfl
  | cons c cs ih =>
    simp only [List.cons_append]
    rw [normAcc_cons acc c (cs ++ B), normAcc_cons acc c cs]
    by_cases h1 : c = [] ∨ c = ['.']
    · simp only [h1, if_true]; exact ih acc
    · simp only [h1, if_false]
      by_cases h2 : c = ['.', '.']
      · simp only [h2, if_true]; exact ih acc.tail
      · simp only [h2, if_false]; exact ih (c :: acc)

theorem normAcc_plain (acc B : List Chars) (h : ∀ c ∈ B, PlainComp c) : normAcc acc B = B.reverse ++ acc := by
  induction B generalizing acc with
  | nil => rfl
  | cons c cs ih =>
    obtain ⟨h0, h1, h2⟩ := h c (by simp)
    rw [normAcc_cons]
    have h01 : ¬ (c = [] ∨ c = ['.']) := fun e => e.elim h0 h1
    simp only [h01, if_false, h2]
    rw [ih (c :: acc) (fun x hx => h x (List.mem_cons_of_mem _ hx))]
    simp

theorem normAux_append_plain (A B : List Chars) (h : ∀ c ∈ B, PlainComp c) :
    normAux [] (A ++ B) = normAux [] A ++ B := by
  rw [normAux_eq_normAcc, normAux_eq_normAcc, normAcc_append, normAcc_plain _ _ h]
  simp

theorem splitAtChar_ne_nil (d : Char) (cs : Chars) : splitAtChar d cs ≠ [] := by
  induction cs with
  | nil => simp [splitAtChar]
  | cons c cs ih =>
    unfold splitAtChar
    cases h : splitAtChar d cs with
    | nil => exact absurd h ih
    | cons f fs => by_cases hc : c = d <;> simp [hc]

theorem splitAtChar_cons (d c : Char) (cs : Chars) :
    splitAtChar d (c :: cs) =
      match splitAtChar d cs with
      | [] => [[]]
      | f :: fs => if c = d then [] :: f :: fs else (c :: f) :: fs := rfl

theorem splitAtChar_append (d : Char) (p m : Chars) :
    splitAtChar d (p ++ d :: m) = splitAtChar d p ++ splitAtChar d m := by
  induction p with
  | nil =>
    show splitAtChar d (d :: m) = splitAtChar d [] ++ splitAtChar d m
    rw [splitAtChar_cons]
    cases h : splitAtChar d m with
    | nil => exact absurd h (splitAtChar_ne_nil d m)
    | cons f fs => simp [splitAtChar]
  | cons c cs ih =>
    show splitAtChar d (c :: (cs ++ d :: m)) = splitAtChar d (c :: cs) ++ splitAtChar d m
    rw [splitAtChar_cons d c (cs ++ d :: m), splitAtChar_cons d c cs, ih]
    cases h : splitAtChar d cs with
    | nil => exact absurd h (splitAtChar_ne_nil d cs)
    | cons f fs => by_cases hc : c = d <;> simp [hc]

theorem takeWhile_append_of_stop (p : Char → Bool) (a b : Chars) (h : ∃ x ∈ a, p x = false) :
    (a ++ b).takeWhile p = a.takeWhile p := by
  induction a with
  | nil => obtain ⟨x, hx, _⟩ := h; simp at hx
  | cons c cs ih =>
    simp only [List.cons_append, List.takeWhile_cons]
    by_cases hc : p c = true
    · simp only [hc, if_true]
      congr 1
      apply ih
      obtain ⟨x, hx, hpx⟩ := h
      rcases List.mem_cons.mp hx with rfl | hx
      · rw [hc] at hpx; cases hpx
      · exact ⟨x, hx, hpx⟩
    · simp [hc]

/-- joining a relative name made of plain components to an absolute folder path appends the components -/
theorem abspath_join_plain (cwd path m : Chars) (habs : isAbs path = true)
    (hend : ∃ x, path.getLast? = some x ∧ x ≠ '/') (hm : isAbs m = false)
    (hplain : ∀ c ∈ splitSlash m, PlainComp c) :
    abspath cwd (joinPath path m)
      = ⟨(abspath cwd path).slashes, (abspath cwd path).comps ++ splitSlash m⟩ := by
  obtain ⟨x, hx, hxs⟩ := hend
  have hne : path ≠ [] := by intro e; rw [e] at hx; simp at hx
  have hjoin : joinPath path m = path ++ '/' :: m := by
    unfold joinPath
    have h1 : ¬ (path = [] ∨ path.getLast? = some '/') := by
      intro h
      rcases h with h | h
      · exact hne h
      · rw [hx] at h; exact hxs (Option.some.inj h)
    simp [hm, h1]
  have habs' : isAbs (path ++ '/' :: m) = true := by
    cases path with
    | nil => exact absurd rfl hne
    | cons c cs => simpa [isAbs] using habs
  have hlead : leadingSlashes (path ++ '/' :: m) = leadingSlashes path := by
    unfold leadingSlashes
    rw [takeWhile_append_of_stop]
    refine ⟨x, List.mem_of_getLast? hx, by simpa using hxs⟩
  unfold abspath
  rw [hjoin]
  simp only [habs', habs, if_true]
  unfold normAbs
  rw [hlead]
  simp only [splitSlash] at hplain ⊢
  rw [splitAtChar_append, normAux_append_plain _ _ hplain]

/-! ### file names -/

theorem splitAtChar_none (d : Char) (s : Chars) (h : d ∉ s) : splitAtChar d s = [s] := by
  induction s with
  | nil => rfl
  | cons c cs ih =>
    have hc : c ≠ d := fun e => h (by simp [e])
    have hcs : d ∉ cs := fun e => h (by simp [e])
    unfold splitAtChar
    rw [ih hcs]
    simp [hc]

theorem splitAtChar_one (d : Char) (k ext : Chars) (hk : d ∉ k) (he : d ∉ ext) :
    splitAtChar d (k ++ d :: ext) = [k, ext] := by
  induction k with
  | nil =>
    show splitAtChar d (d :: ext) = [[], ext]
    unfold splitAtChar
    rw [splitAtChar_none d ext he]
    simp
  | cons c cs ih =>
    have hc : c ≠ d := fun e => hk (by simp [e])
    have hcs : d ∉ cs := fun e => hk (by simp [e])
    show splitAtChar d (c :: (cs ++ d :: ext)) = [c :: cs, ext]
    unfold splitAtChar
    rw [ih hcs]
    simp [hc]

/-- a key without a dot -/
def DotFree (k : Chars) : Prop := '.' ∉ k

theorem not_suffix_of_dotFree (k ext : Chars) (hk : DotFree k) (he : '.' ∈ ext) : ext.isSuffixOf k = false := by
  cases h : ext.isSuffixOf k with
  | false => rfl
  | true =>
    rw [List.isSuffixOf_iff_suffix] at h
    obtain ⟨t, ht⟩ := h
    exact absurd (by rw [← ht]; exact List.mem_append_right _ he) hk

def extOf : Tag → Chars
  | .csr => ['n', 'p', 'z']
  | .ndarray => ['n', 'p', 'y']
  | .other => ['p']

theorem fileOf_dotFree (a : Attr) (hk : DotFree a.key) :
    fileOf a = ⟨a.key ++ '.' :: extOf a.tag, a.tag, a.payload⟩ := by
  unfold fileOf
  cases ht : a.tag with
  | csr =>
    have : extNpz.isSuffixOf a.key = false := not_suffix_of_dotFree _ _ hk (by simp [extNpz])
    simp only [this, Bool.false_eq_true, if_false]
    rfl
  | ndarray =>
    have : extNpy.isSuffixOf a.key = false := not_suffix_of_dotFree _ _ hk (by simp [extNpy])
    simp only [this, Bool.false_eq_true, if_false]
    rfl
  | other => simp [extP, extOf]

theorem extOf_dotFree (t : Tag) : '.' ∉ extOf t := by cases t <;> simp [extOf]

theorem append_dot_inj (k₁ k₂ e₁ e₂ : Chars) (h1 : DotFree k₁) (h2 : DotFree k₂)
    (h : k₁ ++ '.' :: e₁ = k₂ ++ '.' :: e₂) : k₁ = k₂ := by
  induction k₁ generalizing k₂ with
  | nil =>
    cases k₂ with
    | nil => rfl
    | cons c cs =>
      simp only [List.nil_append, List.cons_append, List.cons.injEq] at h
      exact absurd (by simp [← h.1]) h2
  | cons c cs ih =>
    cases k₂ with
    | nil =>
      simp only [List.nil_append, List.cons_append, List.cons.injEq] at h
      exact absurd (by simp [h.1]) h1
    | cons c' cs' =>
      simp only [List.cons_append, List.cons.injEq] at h
      have hcs : DotFree cs := fun e => h1 (List.mem_cons_of_mem _ e)
      have hcs' : DotFree cs' := fun e => h2 (List.mem_cons_of_mem _ e)
      rw [h.1, ih cs' hcs hcs' h.2]

/-- distinct dot-free keys are written to distinct files -/
theorem fileOf_name_inj (a b : Attr) (ha : DotFree a.key) (hb : DotFree b.key)
    (h : (fileOf a).name = (fileOf b).name) : a.key = b.key := by
  rw [fileOf_dotFree a ha, fileOf_dotFree b hb] at h
  exact append_dot_inj _ _ _ _ ha hb h

theorem names_nodup (d : Dataset) (hk : (d.map (·.key)).Nodup) (hd : ∀ a ∈ d, DotFree a.key) :
    ((d.map fileOf).map (·.name)).Nodup := by
  rw [List.map_map]
  unfold List.Nodup at *
  rw [List.pairwise_map] at *
  exact hk.imp_of_mem (fun ha hb hne e => hne (fileOf_name_inj _ _ (hd _ ha) (hd _ hb) e))

/-! ### save -/

theorem writeFile_fresh (fs : Folder) (f : File) (h : ∀ g ∈ fs, g.name ≠ f.name) : writeFile fs f = fs ++ [f] := by
  unfold writeFile
  congr 1
  rw [List.filter_eq_self]
  intro g hg
  simp [h g hg]

theorem saveBundle_eq (fs : Folder) (d : Dataset)
    (hp : ∀ a ∈ d, plainKey a.key = true)
    (hn : ((fs ++ d.map fileOf).map (·.name)).Nodup) :
    saveBundle fs d = .ok (fs ++ d.map fileOf) := by
  induction d generalizing fs with
  | nil => simp [saveBundle]
  | cons a d ih =>
    unfold saveBundle
    rw [if_pos (hp a (by simp))]
    have hfresh : ∀ g ∈ fs, g.name ≠ (fileOf a).name := by
      intro g hg e
      simp only [List.map_cons, List.map_append] at hn
      rw [List.nodup_append] at hn
      exact hn.2.2 g.name (List.mem_map.mpr ⟨g, hg, rfl⟩) (fileOf a).name (by simp) e
    rw [writeFile_fresh fs _ hfresh]
    have := ih (fs ++ [fileOf a]) (fun b hb => hp b (List.mem_cons_of_mem _ hb))
      (by simpa [List.append_assoc] using hn)
    rw [this]
    simp [List.append_assoc]

/-! ### load -/

theorem assign_fresh (d : Dataset) (a : Attr) (h : ∀ b ∈ d, b.key ≠ a.key) : assign d a = d ++ [a] := by
  unfold assign
  have : d.any (fun b => decide (b.key = a.key)) = false := by
    rw [List.any_eq_false]
    intro b hb
    simp [h b hb]
  simp [this]

theorem loadStep_fileOf (d : Dataset) (a : Attr) (hk : DotFree a.key) :
    loadStep d (fileOf a) = .ok (assign d a) := by
  rw [fileOf_dotFree a hk]
  unfold loadStep
  simp only
  rw [splitAtChar_one '.' a.key (extOf a.tag) hk (extOf_dotFree _)]
  cases a with
  | mk key tag payload =>
    cases tag <;> simp [extOf]

theorem loadFrom_fileOf (acc : Dataset) (as : Dataset)
    (hd : ∀ a ∈ as, DotFree a.key)
    (hn : ((acc ++ as).map (·.key)).Nodup) :
    loadFrom acc (as.map fileOf) = .ok (acc ++ as) := by
  induction as generalizing acc with
  | nil => simp [loadFrom]
  | cons a as ih =>
    simp only [List.map_cons]
    unfold loadFrom
    rw [loadStep_fileOf acc a (hd a (by simp))]
    simp only
    have hfresh : ∀ b ∈ acc, b.key ≠ a.key := by
      intro b hb e
      simp only [List.map_append, List.map_cons] at hn
      rw [List.nodup_append] at hn
      exact hn.2.2 b.key (List.mem_map.mpr ⟨b, hb, rfl⟩) a.key (by simp) e
    rw [assign_fresh acc a hfresh]
    have := ih (acc ++ [a]) (fun b hb => hd b (List.mem_cons_of_mem _ hb))
      (by simpa [List.append_assoc] using hn)
    rw [this]
    simp [List.append_assoc]

end SkNet.Persist
