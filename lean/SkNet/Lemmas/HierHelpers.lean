/- Helper lemmas of the C07 property file (kept out of it so that the obligations counted for the property are the
   property theorems): initial state of Paris, leaf counts of well-formed trees, `SeqOK → Chained`, one side of
   `split_dendrogram` (validity, agreement, the sharper invariant). -/
import SkNet.Lemmas.GetDendro
import SkNet.Lemmas.Valid
import SkNet.Lemmas.Paris
import SkNet.Lemmas.Reorder
import SkNet.Lemmas.GetDendroMono
import SkNet.Lemmas.Builders
import SkNet.Lemmas.Split
import SkNet.Lemmas.SplitAgree
import SkNet.Lemmas.SplitPin
import SkNet.Lemmas.TerminateHierarchy

namespace SkNet.C07
open SkNet SkNet.Dendro SkNet.Hier

section paris
open SkNet.Paris SkNet.Agg
variable {α : Type} [Add α] [Mul α] [Div α] [OfNat α 0] [OfNat α 1] [OfNat α 2] [LT α] [DecidableLT α] [BEq α]

omit [Mul α] [Div α] [OfNat α 1] [OfNat α 2] [LT α] [DecidableLT α] [BEq α] in
theorem pinv_init (csr : List (List (Nat × α))) (outW inW : List α) :
    PInv csr.length (AggGraph.init csr outW inW) [] [] (liveInit (List.replicate csr.length 1)) := by
  have hsz : (AggGraph.init csr outW inW).sizes = (List.range csr.length).map fun i => (i, 1) := rfl
  refine ⟨rfl, ?_, rfl, ?_, ?_, by simp, by simp, ?_⟩
  · have := linv_init (List.replicate csr.length 1)
    simpa using this
  · intro x s hx
    rw [hsz] at hx
    by_cases hlt : x < csr.length
    · rw [get?_map_range (fun _ => 1) csr.length x hlt] at hx
      rw [liveInit_get? _ x hlt]; exact hx
    · have : Dict.get? ((List.range csr.length).map fun i => (i, 1)) x = none := by
        rw [Dict.get?_eq_none_iff]; simp [Dict.keys, Function.comp_def]; omega
      rw [this] at hx; cases hx
  · rw [hsz]; simp [Dict.keys, Function.comp_def, List.nodup_range]
  · rw [hsz]; simp [liveInit]

end paris

theorem tleaves_length_ge : (∀ t, WF t → 1 ≤ (tleaves t).length) ∧
    (∀ ts, WFL ts → ts.length ≤ (tleavesL ts).length) := by
  refine ⟨fun t => ?_, fun ts => ?_⟩
  · refine Tree.rec (motive_1 := fun t => WF t → 1 ≤ (tleaves t).length)
      (motive_2 := fun ts => WFL ts → ts.length ≤ (tleavesL ts).length) ?_ ?_ ?_ ?_ t
    · intro k _; simp [tleaves]
    · intro ts ih hw; simp only [WF] at hw; simp only [tleaves]; have := ih hw.2; omega
    · intro _; simp [tleavesL]
    · intro t ts iht ihts hw
      simp only [WFL] at hw
      simp only [tleavesL, List.length_cons, List.length_append]
      have := iht hw.1; have := ihts hw.2; omega
  · refine Tree.rec_1 (motive_1 := fun t => WF t → 1 ≤ (tleaves t).length)
      (motive_2 := fun ts => WFL ts → ts.length ≤ (tleavesL ts).length) ?_ ?_ ?_ ?_ ts
    · intro k _; simp [tleaves]
    · intro ts ih hw; simp only [WF] at hw; simp only [tleaves]; have := ih hw.2; omega
    · intro _; simp [tleavesL]
    · intro t ts iht ihts hw
      simp only [WFL] at hw
      simp only [tleavesL, List.length_cons, List.length_append]
      have := iht hw.1; have := ihts hw.2; omega

theorem chained_of_seqOK : ∀ (more : List (List Nat)) (k : Nat), SeqOK more k → SkNet.Terminate.Chained k more := by
  intro more
  induction more with
  | nil => intro k _; trivial
  | cons next rest ih => intro k h; exact ⟨h.1, ih _ h.2⟩

theorem side_valid {α : Type} {m N off : Nat} {D : Dendro α} (hm : 0 < m) (hN : off + m ≤ N)
    (hv : ValidDendro N D = true) :
    ValidDendro m (sideLoop N 0 D (sideInit α m off)).rows = true := by
  have hlen := valid_length hv
  have hvl : validLoop N 0 D (liveInit (List.replicate N 1)) = true := by
    unfold ValidDendro ValidDendroW at hv
    simp only [Bool.and_eq_true, List.length_replicate] at hv
    exact hv.2
  rw [validLoop_eq_isSome] at hvl
  obtain ⟨Lf, hLf⟩ := Option.isSome_iff_exists.mp hvl
  have hinit : LInv N 0 (liveInit (List.replicate N 1)) := by simpa using linv_init (List.replicate N 1)
  obtain ⟨LR, hS⟩ := sideLoop_sinv D 0 _ _ _ Lf (sinv_init (α := α) m N off hm hN) hinit hLf
  -- a single live cluster is left in the full dendrogram, hence on the side
  have hLfLen : Lf.length = 1 := by
    have := (liveAfter_linv D 0 _ Lf hinit hLf).2
    simp only [liveInit, List.length_map, List.length_range, List.length_replicate] at this
    omega
  have hidle : (sideLoop N 0 D (sideInit α m off)).id.length ≤ 1 := by
    have hk : (Dict.keys Lf).length = 1 := by simp [Dict.keys, hLfLen]
    match hkeys : Dict.keys Lf, hk with
    | [z], _ =>
      have hall : ∀ x ∈ Dict.keys (sideLoop N 0 D (sideInit α m off)).id, x = z := by
        intro x hx
        have := hS.sub x hx
        rw [hkeys] at this
        simpa using this
      have hnd := hS.idNodup
      generalize hks : Dict.keys (sideLoop N 0 D (sideInit α m off)).id = ks at hall hnd
      have hkl : (sideLoop N 0 D (sideInit α m off)).id.length = ks.length := by
        rw [← hks]; simp [Dict.keys]
      rw [hkl]
      match ks, hall, hnd with
      | [], _, _ => simp
      | [_], _, _ => simp
      | a :: b :: _, hall, hnd =>
        have ha := hall a (by simp)
        have hb := hall b (by simp)
        rw [ha, hb] at hnd
        simp at hnd
  have hcount := hS.count
  have hpos := hS.pos
  have hrows := (liveAfter_linv _ 0 _ LR (by simpa using linv_init (List.replicate m 1)) hS.live).2
  simp only [liveInit, List.length_map, List.length_range, List.length_replicate] at hrows
  unfold ValidDendro ValidDendroW
  simp only [List.length_replicate, Bool.and_eq_true, beq_iff_eq]
  refine ⟨by omega, ?_⟩
  rw [validLoop_eq_isSome, hS.live]; rfl

theorem side_agrees {α : Type} {m N off : Nat} {D : Dendro α} (hm : 0 < m) (hN : off + m ≤ N)
    (hv : ValidDendro N D = true) :
    ∀ (u : Nat) (ru : Row α), (sideLoop N 0 D (sideInit α m off)).rows[u]? = some ru →
      ∃ (t : Nat) (rt : Row α), D[t]? = some rt ∧ ru.h = rt.h ∧
        leaves m (sideLoop N 0 D (sideInit α m off)).rows (m + u) = sideOf m off (leaves N D (N + t)) := by
  have hvl : validLoop N 0 D (liveInit (List.replicate N 1)) = true := by
    unfold ValidDendro ValidDendroW at hv
    simp only [Bool.and_eq_true, List.length_replicate] at hv
    exact hv.2
  rw [validLoop_eq_isSome] at hvl
  obtain ⟨Lf, hLf⟩ := Option.isSome_iff_exists.mp hvl
  have hinit : LInv N 0 (liveInit (List.replicate N 1)) := by simpa using linv_init (List.replicate N 1)
  have := sideLoop_ainv (α := α) (m := m) (N := N) (off := off) D [] _ _ _ Lf (sinv_init (α := α) m N off hm hN)
    (ainv_init m N off hN) (by simpa using hinit) (by simpa using hLf)
  simpa using this.rowsOK

/-- the sharper invariant at the end of the loop, for one side -/
theorem side_pinned {α : Type} {m N off : Nat} {D : Dendro α} (hm : 0 < m) (hN : off + m ≤ N)
    (hv : ValidDendro N D = true) :
    ∃ Lf, BInv m N off D (sideLoop N 0 D (sideInit α m off)) Lf := by
  have hvl : validLoop N 0 D (liveInit (List.replicate N 1)) = true := by
    unfold ValidDendro ValidDendroW at hv
    simp only [Bool.and_eq_true, List.length_replicate] at hv
    exact hv.2
  rw [validLoop_eq_isSome] at hvl
  obtain ⟨Lf, hLf⟩ := Option.isSome_iff_exists.mp hvl
  have hinit : LInv N 0 (liveInit (List.replicate N 1)) := by simpa using linv_init (List.replicate N 1)
  have := sideLoop_binv (α := α) (m := m) (N := N) (off := off) D [] _ _ _ Lf (sinv_init (α := α) m N off hm hN)
    (ainv_init m N off hN) (binv_init m N off hN) (by simpa using hinit) (by simpa using hLf)
  exact ⟨Lf, by simpa using this⟩

end SkNet.C07
