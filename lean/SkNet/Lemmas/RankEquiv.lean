/-
Renumbering the nodes renumbers the centrality scores (the C04 share of C02): for every `n` and every permutation
`π` of `{0..n-1}` (`SkNet.WL.IsPerm n π πinv`), the specifications of Spec/Rank.lean of the renumbered graph are the
renumbered specifications.  The renumbered graph is any `w'` / `edge'` with `w' (π i) (π j) = w i j` on `{0..n-1}`.
-/
import SkNet.Lemmas.RankBrandesSpec
import SkNet.Lemmas.RankCloseness
import SkNet.Lemmas.WLEquiv

open Finset

namespace SkNet.Rank.Equiv
open SkNet.RankSpec SkNet.WL

variable {n : ℕ} {π πinv : ℕ → ℕ}

/-! ### sums over `{0..n-1}` are invariant under a permutation -/

theorem sum_perm {M : Type} [AddCommMonoid M] (hp : IsPerm n π πinv) (f : ℕ → M) :
    ∑ j ∈ range n, f (π j) = ∑ j ∈ range n, f j :=
  Finset.sum_nbij' π πinv (fun j hj => mem_range.mpr (hp.lt j (mem_range.mp hj)))
    (fun j hj => mem_range.mpr (hp.lt_inv j (mem_range.mp hj)))
    (fun j hj => hp.left j (mem_range.mp hj)) (fun j hj => hp.right j (mem_range.mp hj)) (fun _ _ => rfl)

theorem perm_inj (hp : IsPerm n π πinv) {i j : ℕ} (hi : i < n) (hj : j < n) (h : π i = π j) : i = j := by
  rw [← hp.left i hi, ← hp.left j hj, h]

theorem perm_eq_iff (hp : IsPerm n π πinv) {i j : ℕ} (hi : i < n) (hj : j < n) : π i = π j ↔ i = j :=
  ⟨perm_inj hp hi hj, fun h => by rw [h]⟩

theorem sumTo_perm (hp : IsPerm n π πinv) (f : ℕ → ℚ) : sumTo n (fun j => f (π j)) = sumTo n f := by
  rw [sumTo_eq, sumTo_eq]; exact sum_perm hp f

theorem natsum_perm (hp : IsPerm n π πinv) (f : ℕ → ℕ) :
    ((List.range n).map fun j => f (π j)).sum = ((List.range n).map f).sum := by
  rw [nat_map_range_sum, nat_map_range_sum]; exact sum_perm hp f

theorem any_perm (hp : IsPerm n π πinv) (p : ℕ → Bool) :
    (List.range n).any (fun j => p (π j)) = (List.range n).any p := by
  rw [Bool.eq_iff_iff]
  simp only [List.any_eq_true, List.mem_range]
  constructor
  · rintro ⟨j, hj, h⟩; exact ⟨π j, hp.lt j hj, h⟩
  · rintro ⟨j, hj, h⟩; exact ⟨πinv j, hp.lt_inv j hj, by rw [hp.right j hj]; exact h⟩

/-! ### PageRank -/

section pagerank
variable {w w' : ℕ → ℕ → ℚ} {y y' x x' : ℕ → ℚ}

theorem outW_perm (hp : IsPerm n π πinv) (hw : ∀ i j, i < n → j < n → w' (π i) (π j) = w i j) {i : ℕ} (hi : i < n) :
    outW n w' (π i) = outW n w i := by
  unfold outW
  rw [← sumTo_perm hp (w' (π i)), sumTo_eq, sumTo_eq]
  exact sum_congr rfl fun j hj => hw i j hi (mem_range.mp hj)

theorem transP_perm (hp : IsPerm n π πinv) (hw : ∀ i j, i < n → j < n → w' (π i) (π j) = w i j) {i j : ℕ}
    (hi : i < n) (hj : j < n) : transP n w' (π i) (π j) = transP n w i j := by
  unfold transP
  rw [outW_perm hp hw hi, hw i j hi hj]

theorem dampedPT_perm (hp : IsPerm n π πinv) (hw : ∀ i j, i < n → j < n → w' (π i) (π j) = w i j)
    (hx : ∀ i, i < n → x' (π i) = x i) (a : ℚ) {i : ℕ} (hi : i < n) :
    dampedPT n w' a x' (π i) = dampedPT n w a x i := by
  unfold dampedPT
  rw [← sumTo_perm hp (fun j => transP n w' j (π i) * x' j), sumTo_eq, sumTo_eq]
  congr 1
  exact sum_congr rfl fun j hj => by
    rw [transP_perm hp hw (mem_range.mp hj) hi, hx j (mem_range.mp hj)]

/-- the renumbered vector is a PageRank vector of the renumbered graph with the renumbered restart distribution -/
theorem isPageRank_relabel (hp : IsPerm n π πinv) (hw : ∀ i j, i < n → j < n → w' (π i) (π j) = w i j)
    (hy : ∀ i, i < n → y' (π i) = y i) (hx : ∀ i, i < n → x' (π i) = x i) (a : ℚ)
    (h : IsPageRank n w a y x) : IsPageRank n w' a y' x' := by
  obtain ⟨h0, h1, c, hc⟩ := h
  refine ⟨fun k hk => ?_, ?_, c, fun k hk => ?_⟩
  · rw [← hp.right k hk, hx _ (hp.lt_inv k hk)]; exact h0 _ (hp.lt_inv k hk)
  · rw [← sumTo_perm hp x', ← h1, sumTo_eq, sumTo_eq]
    exact sum_congr rfl fun j hj => hx j (mem_range.mp hj)
  · have hk' := hp.lt_inv k hk
    rw [← hp.right k hk, hx _ hk', dampedPT_perm hp hw hx a hk', hy _ hk']
    exact hc _ hk'

end pagerank

/-! ### Katz -/

section walks
variable {edge edge' : ℕ → ℕ → Bool}

theorem walksTo_perm (hp : IsPerm n π πinv) (he : ∀ i j, i < n → j < n → edge' (π i) (π j) = edge i j) (k : ℕ) :
    ∀ i, i < n → walksTo n edge' k (π i) = walksTo n edge k i := by
  induction k with
  | zero => intro i _; rfl
  | succ k ih =>
    intro i hi
    show ((List.range n).map fun j => if edge' j (π i) then walksTo n edge' k j else 0).sum = _
    rw [← natsum_perm hp (fun j => if edge' j (π i) then walksTo n edge' k j else 0)]
    show _ = ((List.range n).map fun j => if edge j i then walksTo n edge k j else 0).sum
    congr 1
    apply List.map_congr_left
    intro j hj
    have hjn := List.mem_range.mp hj
    rw [he j i hjn hi, ih j hjn]

theorem katzSpec_perm (hp : IsPerm n π πinv) (he : ∀ i j, i < n → j < n → edge' (π i) (π j) = edge i j) (a : ℚ)
    (K : ℕ) {i : ℕ} (hi : i < n) : katzSpec n edge' a K (π i) = katzSpec n edge a K i := by
  unfold katzSpec
  congr 1
  apply List.map_congr_left
  intro k _
  rw [walksTo_perm hp he (k + 1) i hi]

/-! ### distances, closeness -/

theorem walk_perm (hp : IsPerm n π πinv) (he : ∀ i j, i < n → j < n → edge' (π i) (π j) = edge i j) {s : ℕ}
    (hs : s < n) (d : ℕ) : ∀ v, v < n →
      (SkNet.Path.Walk n edge' (fun x => x == π s) d (π v) ↔ SkNet.Path.Walk n edge (fun x => x == s) d v) := by
  induction d with
  | zero =>
    intro v hv
    rw [SkNet.Path.Walk.zero_iff, SkNet.Path.Walk.zero_iff]
    simp only [beq_iff_eq, perm_eq_iff hp hv hs]
    constructor
    · rintro ⟨_, h⟩; exact ⟨hv, h⟩
    · rintro ⟨_, h⟩; exact ⟨hp.lt v hv, h⟩
  | succ d ih =>
    intro v hv
    rw [SkNet.Path.Walk.succ_iff, SkNet.Path.Walk.succ_iff]
    constructor
    · rintro ⟨_, u, hw, hedge⟩
      have hun := hw.lt
      have hu' := hp.lt_inv u hun
      rw [← hp.right u hun] at hw hedge
      exact ⟨hv, πinv u, (ih _ hu').mp hw, by rw [← he _ _ hu' hv]; exact hedge⟩
    · rintro ⟨_, u, hw, hedge⟩
      have hun := hw.lt
      exact ⟨hp.lt v hv, π u, (ih u hun).mpr hw, by rw [he u v hun hv]; exact hedge⟩

/-- hop distances are renumbered: `d'(π s, π v) = d(s, v)` -/
theorem dist_perm (hp : IsPerm n π πinv) (he : ∀ i j, i < n → j < n → edge' (π i) (π j) = edge i j) {s v : ℕ}
    (hs : s < n) (hv : v < n) : dist n edge' (π s) (π v) = dist n edge s v := by
  unfold dist
  have hspec := SkNet.C10.hopDist_spec n edge (fun x => x == s) v
  have hspec' := SkNet.C10.hopDist_spec n edge' (fun x => x == π s) (π v)
  have hwalk := walk_perm hp he hs
  by_cases hun : SkNet.Path.Unreachable n edge (fun x => x == s) v
  · rw [hspec.2.mpr hun]
    exact hspec'.2.mpr fun d hw => hun d ((hwalk d v hv).mp hw)
  · -- reachable: the same least length
    have hex : ∃ d, SkNet.Path.Walk n edge (fun x => x == s) d v := by
      by_contra hc; exact hun fun d hw => hc ⟨d, hw⟩
    classical
    let d := Nat.find hex
    have hd := Nat.find_spec hex
    have hmin : ∀ d', d' < d → ¬ SkNet.Path.Walk n edge (fun x => x == s) d' v := fun d' hd' => Nat.find_min hex hd'
    rw [(hspec.1 d).mpr ⟨hd, hmin⟩]
    exact (hspec'.1 d).mpr ⟨(hwalk d v hv).mpr hd, fun d' hd' hw => hmin d' hd' ((hwalk d' v hv).mp hw)⟩

theorem any_congr_range (p q : ℕ → Bool) (h : ∀ j, j < n → p j = q j) :
    (List.range n).any p = (List.range n).any q := by
  rw [Bool.eq_iff_iff]
  simp only [List.any_eq_true, List.mem_range]
  constructor
  · rintro ⟨j, hj, hpj⟩; exact ⟨j, hj, by rw [← h j hj]; exact hpj⟩
  · rintro ⟨j, hj, hqj⟩; exact ⟨j, hj, by rw [h j hj]; exact hqj⟩

theorem closenessSpec_perm (hp : IsPerm n π πinv) (he : ∀ i j, i < n → j < n → edge' (π i) (π j) = edge i j)
    {i : ℕ} (hi : i < n) : closenessSpec n edge' (π i) = closenessSpec n edge i := by
  have hd : ∀ j, j < n → SkNet.Path.hopDist n edge' (fun v => v == π i) (π j)
      = SkNet.Path.hopDist n edge (fun v => v == i) j := fun j hj => dist_perm hp he hi hj
  unfold closenessSpec
  simp only
  have hany : (List.range n).any (fun j => decide (SkNet.Path.hopDist n edge' (fun v => v == π i) j < 0))
      = (List.range n).any (fun j => decide (SkNet.Path.hopDist n edge (fun v => v == i) j < 0)) := by
    rw [← any_perm hp (fun j => decide (SkNet.Path.hopDist n edge' (fun v => v == π i) j < 0))]
    exact any_congr_range _ _ fun j hj => by rw [hd j hj]
  have hsum : ((List.range n).map fun j => ((SkNet.Path.hopDist n edge' (fun v => v == π i) j : ℤ) : ℚ)).sum
      = ((List.range n).map fun j => ((SkNet.Path.hopDist n edge (fun v => v == i) j : ℤ) : ℚ)).sum := by
    have h1 := sumTo_perm hp (fun j => ((SkNet.Path.hopDist n edge' (fun v => v == π i) j : ℤ) : ℚ))
    unfold sumTo at h1
    rw [← h1]
    congr 1
    apply List.map_congr_left
    intro j hj
    rw [hd j (List.mem_range.mp hj)]
  rw [hany, hsum]

/-! ### betweenness -/

theorem walkCount_perm (hp : IsPerm n π πinv) (he : ∀ i j, i < n → j < n → edge' (π i) (π j) = edge i j) {s : ℕ}
    (hs : s < n) (d : ℕ) : ∀ t, t < n → walkCount n edge' d (π s) (π t) = walkCount n edge d s t := by
  induction d with
  | zero =>
    intro t ht
    show (if π s = π t then 1 else 0) = if s = t then 1 else 0
    simp only [perm_eq_iff hp hs ht]
  | succ d ih =>
    intro t ht
    show ((List.range n).map fun u => if edge' u (π t) then walkCount n edge' d (π s) u else 0).sum = _
    rw [← natsum_perm hp (fun u => if edge' u (π t) then walkCount n edge' d (π s) u else 0)]
    show _ = ((List.range n).map fun u => if edge u t then walkCount n edge d s u else 0).sum
    congr 1
    apply List.map_congr_left
    intro u hu
    have hun := List.mem_range.mp hu
    rw [he u t hun ht, ih u hun]

theorem sigmaSpec_perm (hp : IsPerm n π πinv) (he : ∀ i j, i < n → j < n → edge' (π i) (π j) = edge i j) {s t : ℕ}
    (hs : s < n) (ht : t < n) : sigmaSpec n edge' (π s) (π t) = sigmaSpec n edge s t := by
  unfold sigmaSpec
  rw [dist_perm hp he hs ht]
  split
  · rfl
  · exact walkCount_perm hp he hs _ t ht

theorem pairDep_perm (hp : IsPerm n π πinv) (he : ∀ i j, i < n → j < n → edge' (π i) (π j) = edge i j) {s t v : ℕ}
    (hs : s < n) (ht : t < n) (hv : v < n) : pairDep n edge' (π s) (π t) (π v) = pairDep n edge s t v := by
  unfold pairDep
  simp only
  rw [dist_perm hp he hs ht, dist_perm hp he hs hv, dist_perm hp he hv ht, sigmaSpec_perm hp he hs hv,
    sigmaSpec_perm hp he hv ht, sigmaSpec_perm hp he hs ht]

theorem dependencySum_perm (hp : IsPerm n π πinv) (he : ∀ i j, i < n → j < n → edge' (π i) (π j) = edge i j) {v : ℕ}
    (hv : v < n) : dependencySum n edge' (π v) = dependencySum n edge v := by
  unfold dependencySum
  rw [map_range_sum, map_range_sum]
  rw [← sum_perm hp (fun s => ((List.range n).map fun t =>
    if s = π v ∨ t = π v ∨ s = t then 0 else pairDep n edge' s t (π v)).sum)]
  apply sum_congr rfl; intro s hs
  have hsn := mem_range.mp hs
  rw [map_range_sum, map_range_sum]
  rw [← sum_perm hp (fun t => if π s = π v ∨ t = π v ∨ π s = t then 0 else pairDep n edge' (π s) t (π v))]
  apply sum_congr rfl; intro t ht
  have htn := mem_range.mp ht
  simp only [perm_eq_iff hp hsn hv, perm_eq_iff hp htn hv, perm_eq_iff hp hsn htn, pairDep_perm hp he hsn htn hv]

theorem betweennessSpec_perm (hp : IsPerm n π πinv) (he : ∀ i j, i < n → j < n → edge' (π i) (π j) = edge i j) {v : ℕ}
    (hv : v < n) : betweennessSpec n edge' (π v) = betweennessSpec n edge v := by
  unfold betweennessSpec; rw [dependencySum_perm hp he hv]

end walks

end SkNet.Rank.Equiv
