/-
Connected components through `Leiden.fit`: the coarse clusters stay inside connected components although the
graph is aggregated by the refined clusters (stored entries of a level map onto stored entries, or loops, of the
aggregate).
-/
import SkNet.Lemmas.ModularityLeiden

namespace SkNet.Modularity

/-! ### the pattern of the aggregate contains the image of the pattern -/

theorem rowAdd_has_col (col : Nat) (v : Rat) (r : List (Nat × Rat)) : ∃ e ∈ rowAdd col v r, e.1 = col := by
  induction r with
  | nil => exact ⟨(col, v), by simp [rowAdd], rfl⟩
  | cons e0 r ih =>
    obtain ⟨c, x⟩ := e0
    unfold rowAdd
    split
    · exact ⟨(col, v), List.mem_cons_self, rfl⟩
    · split
      · rename_i _ h2
        exact ⟨(c, x + v), List.mem_cons_self, h2.symm⟩
      · obtain ⟨e, he, h⟩ := ih
        exact ⟨e, List.mem_cons_of_mem _ he, h⟩

theorem rowAdd_keeps (col : Nat) (v : Rat) (r : List (Nat × Rat)) :
    ∀ e ∈ r, ∃ e' ∈ rowAdd col v r, e'.1 = e.1 := by
  induction r with
  | nil => intro e he; exact absurd he List.not_mem_nil
  | cons e0 r ih =>
    obtain ⟨c, x⟩ := e0
    intro e he
    unfold rowAdd
    split
    · exact ⟨e, List.mem_cons_of_mem _ he, rfl⟩
    · split
      · rcases List.mem_cons.mp he with rfl | he'
        · exact ⟨(c, x + v), List.mem_cons_self, rfl⟩
        · exact ⟨e, List.mem_cons_of_mem _ he', rfl⟩
      · rcases List.mem_cons.mp he with rfl | he'
        · exact ⟨(c, x), List.mem_cons_self, rfl⟩
        · obtain ⟨e', he'', h⟩ := ih e he'
          exact ⟨e', List.mem_cons_of_mem _ he'', h⟩

theorem aggInner_complete (lab : Nat → Nat) (row acc : List (Nat × Rat)) :
    (∀ e ∈ acc, ∃ e' ∈ row.foldl (fun acc e => rowAdd (lab e.1) e.2 acc) acc, e'.1 = e.1) ∧
    (∀ e ∈ row, ∃ e' ∈ row.foldl (fun acc e => rowAdd (lab e.1) e.2 acc) acc, e'.1 = lab e.1) := by
  induction row generalizing acc with
  | nil => exact ⟨fun e he => ⟨e, he, rfl⟩, fun e he => absurd he List.not_mem_nil⟩
  | cons e0 r ih =>
    obtain ⟨h1, h2⟩ := ih (rowAdd (lab e0.1) e0.2 acc)
    simp only [List.foldl_cons]
    refine ⟨?_, ?_⟩
    · intro e he
      obtain ⟨e1, he1, h⟩ := rowAdd_keeps (lab e0.1) e0.2 acc e he
      obtain ⟨e2, he2, h'⟩ := h1 e1 he1
      exact ⟨e2, he2, h'.trans h⟩
    · intro e he
      rcases List.mem_cons.mp he with rfl | he'
      · obtain ⟨e1, he1, h⟩ := rowAdd_has_col (lab e.1) e.2 acc
        obtain ⟨e2, he2, h'⟩ := h1 e1 he1
        exact ⟨e2, he2, h'.trans h⟩
      · exact h2 e he'

theorem aggOuter_complete (lab : Nat → Nat) (rows : List (List (Nat × Rat))) (a : Nat) (idx : List Nat)
    (acc : List (Nat × Rat)) :
    (∀ e ∈ acc, ∃ e' ∈ idx.foldl (fun acc i =>
        if lab i == a then (rows.getD i []).foldl (fun acc e => rowAdd (lab e.1) e.2 acc) acc else acc) acc,
      e'.1 = e.1) ∧
    (∀ i ∈ idx, lab i = a → ∀ e ∈ rows.getD i [], ∃ e' ∈ idx.foldl (fun acc i =>
        if lab i == a then (rows.getD i []).foldl (fun acc e => rowAdd (lab e.1) e.2 acc) acc else acc) acc,
      e'.1 = lab e.1) := by
  induction idx generalizing acc with
  | nil => exact ⟨fun e he => ⟨e, he, rfl⟩, fun i hi => absurd hi List.not_mem_nil⟩
  | cons j r ih =>
    simp only [List.foldl_cons]
    by_cases hj : lab j = a
    · have hb : (lab j == a) = true := beq_iff_eq.mpr hj
      rw [if_pos hb]
      obtain ⟨h1, h2⟩ := ih ((rows.getD j []).foldl (fun acc e => rowAdd (lab e.1) e.2 acc) acc)
      obtain ⟨g1, g2⟩ := aggInner_complete lab (rows.getD j []) acc
      refine ⟨?_, ?_⟩
      · intro e he
        obtain ⟨e1, he1, h⟩ := g1 e he
        obtain ⟨e2, he2, h'⟩ := h1 e1 he1
        exact ⟨e2, he2, h'.trans h⟩
      · intro i hi hia e he
        rcases List.mem_cons.mp hi with rfl | hi'
        · obtain ⟨e1, he1, h⟩ := g2 e he
          obtain ⟨e2, he2, h'⟩ := h1 e1 he1
          exact ⟨e2, he2, h'.trans h⟩
        · exact h2 i hi' hia e he
    · have hb : ¬ (lab j == a) = true := fun h => hj (beq_iff_eq.mp h)
      rw [if_neg hb]
      obtain ⟨h1, h2⟩ := ih acc
      refine ⟨h1, ?_⟩
      intro i hi hia e he
      rcases List.mem_cons.mp hi with rfl | hi'
      · exact absurd hia hj
      · exact h2 i hi' hia e he

/-- a stored entry `(x, y)` of a level gives a stored entry `(labels x, labels y)` of its aggregate -/
theorem aggregate_pattern_complete (labels : List Nat) (lv : Level) (hlv : LevelOK lv) (hlen : labels.length = lv.n)
    (x : Nat) (hx : x < lv.n) (e : Nat × Rat) (he : e ∈ lv.graph.row x) :
    ∃ e' ∈ (aggregate labels lv).graph.row (labOf labels x), e'.1 = labOf labels e.1 := by
  have ha : labOf labels x < nLabels labels := labOf_lt_nLabels labels x (by rw [hlen]; exact hx)
  have hrow : (aggregate labels lv).graph.row (labOf labels x) = aggRow labels lv.rows (labOf labels x) := by
    show (tab (nLabels labels) (aggRow labels lv.rows)).getD (labOf labels x) [] = _
    rw [tab_getD, if_pos ha]
  rw [hrow]
  unfold aggRow
  exact (aggOuter_complete (labOf labels) lv.rows (labOf labels x) (List.range lv.rows.length) []).2 x
    (List.mem_range.mpr (by rw [hlv.lenR]; exact hx)) rfl e he

theorem aggregate_plink (labels : List Nat) (lv : Level) (hlv : LevelOK lv) (hlen : labels.length = lv.n)
    (x y : Nat) (h : PLink lv.graph x y) :
    PLink (aggregate labels lv).graph (labOf labels x) (labOf labels y) := by
  obtain ⟨hx, hy⟩ := plink_lt lv hlv h
  rcases h with ⟨e, he, hey⟩ | ⟨e, he, hex⟩
  · obtain ⟨e', he', h'⟩ := aggregate_pattern_complete labels lv hlv hlen x hx e he
    exact Or.inl ⟨e', he', by rw [h', hey]⟩
  · obtain ⟨e', he', h'⟩ := aggregate_pattern_complete labels lv hlv hlen y hy e he
    exact Or.inr ⟨e', he', by rw [h', hex]⟩

theorem aggregate_pconn (labels : List Nat) (lv : Level) (hlv : LevelOK lv) (hlen : labels.length = lv.n)
    (x y : Nat) (h : PConn lv.graph x y) :
    PConn (aggregate labels lv).graph (labOf labels x) (labOf labels y) := by
  induction h with
  | refl => exact PConn.refl _
  | step _ hl ih => exact PConn.step ih (aggregate_plink labels lv hlv hlen _ _ hl)

/-! ### the loop -/

theorem leiden_level_comp (lv : Level) (hlv : LevelOK lv) (res tolOpt : Rat) (coreFuel : Nat) (labels : List Nat)
    (hlen : labels.length = lv.n) (hw : WithinComp lv.graph labels) (labels1 : List Nat) (inc : Rat)
    (h : leidenOptimize lv res tolOpt coreFuel labels = some (labels1, inc)) :
    WithinComp lv.graph (uniqueInverse labels1) := by
  obtain ⟨-, -, h3, h4, -⟩ := optimizeCore_spec lv.graph hlv.graphOK res tolOpt (nLabels labels) coreFuel _
    (coreInv_labels lv hlv labels hlen) labels1 inc h
  have hlen1 : labels1.length = lv.n := h4
  have hw1 : WithinComp lv.graph labels1 := h3.withinComp hlv.graphOK.cols hlen hw
  intro u v hu hv huv
  exact hw1 u v hu hv ((uniqueInverse_iff labels1 u v (by rw [hlen1]; exact hu) (by rw [hlen1]; exact hv)).mp huv)

theorem leiden_refine_comp (lv : Level) (hlv : LevelOK lv) (res : Rat) (coreFuel : Nat) (labels2 : List Nat)
    (rands refined rest : List Nat) (h : leidenRefine lv res coreFuel labels2 rands = some (refined, rest)) :
    WithinComp lv.graph (uniqueInverse refined) := by
  have h0 : RefInv lv.graph.n labels2 (arange lv.n) := by
    refine ⟨by simp [arange, Level.graph], ?_⟩
    intro u v hu hv huv
    have hu' : u < lv.n := hu
    have hv' : v < lv.n := hv
    rw [show arange lv.n = List.range lv.n from rfl, labOf_range _ _ hu', labOf_range _ _ hv'] at huv
    rw [huv]
  obtain ⟨k1, k2⟩ := refineCore_spec lv.graph hlv.graphOK.cols res labels2 coreFuel _ rands h0 refined rest h
  have hl : refined.length = lv.n := k1.len
  have hw : WithinComp lv.graph refined :=
    k2.withinComp hlv.graphOK.cols (by simp [arange, Level.graph]) (withinComp_singletons lv.graph)
  intro u v hu hv huv
  exact hw u v hu hv ((uniqueInverse_iff refined u v (by rw [hl]; exact hu) (by rw [hl]; exact hv)).mp huv)

theorem leidenLoop_comp (res tolOpt tolAgg : Rat) (nAgg : Int) (coreFuel : Nat) (lv0 : Level) :
    ∀ (fuel count : Nat) (lv : Level) (labels memb : List Nat) (incs : List Rat) (rands : List (List Nat))
      (out : FitOut),
      LevelOK lv → labels.length = lv.n → memb.length = lv0.n → (∀ u, u < lv0.n → labOf memb u < lv.n) →
      CompInv lv0 lv memb → WithinComp lv.graph labels →
      leidenLoop res tolOpt tolAgg nAgg coreFuel fuel count lv labels memb incs rands = some out →
      WithinComp lv0.graph out.labels := by
  intro fuel
  induction fuel with
  | zero => intro count lv labels memb incs rands out _ _ _ _ _ _ h; simp [leidenLoop] at h
  | succ f ih =>
    intro count lv labels memb incs rands out hlv hlen hmlen hmb hinv hw h
    simp only [leidenLoop] at h
    split at h
    · cases h
    · rename_i labels1 inc hopt
      obtain ⟨-, g2, -⟩ := leiden_level lv hlv res tolOpt coreFuel labels hlen labels1 inc hopt
      have hw2 := leiden_level_comp lv hlv res tolOpt coreFuel labels hlen hw labels1 inc hopt
      split at h
      · cases h
      · rename_i refined rest href
        have hrinv := leiden_refine lv hlv res coreFuel (uniqueInverse labels1) _ refined rest href
        have hrlen : (uniqueInverse refined).length = lv.n := hrinv.len
        have hwr := leiden_refine_comp lv hlv res coreFuel (uniqueInverse labels1) _ refined rest href
        split at h
        · simp only [Option.some.injEq] at h
          subst h
          exact (compInv_step lv0 lv hlv memb hinv hmlen hmb (uniqueInverse labels1) hw2).within
        · have honto : ∀ r, r < nLabels (uniqueInverse refined) → ∃ u, u < lv.n ∧ labOf (uniqueInverse refined) u = r := by
            intro r hr
            obtain ⟨u, hu, hur⟩ := uniqueInverse_onto refined r hr
            refine ⟨u, ?_, hur⟩
            rw [← hrlen, uniqueInverse_length]; exact hu
          have hspec := refinedToLabels_spec lv.n (uniqueInverse labels1) (uniqueInverse refined) g2 hrinv honto
          have hmlen' : (memb.map fun x => (uniqueInverse refined).getD x 0).length = lv0.n := by simp [hmlen]
          have hmb' : ∀ u, u < lv0.n → labOf (memb.map fun x => (uniqueInverse refined).getD x 0) u
              < (aggregate (uniqueInverse refined) lv).n := by
            intro u hu
            rw [labOf_map memb _ u (by rw [hmlen]; exact hu)]
            exact labOf_lt_nLabels _ _ (by rw [hrlen]; exact hmb u hu)
          have hinv' := compInv_step lv0 lv hlv memb hinv hmlen hmb (uniqueInverse refined) hwr
          -- the coarse clusters, seen on the aggregate, still lie inside its components
          have hw' : WithinComp (aggregate (uniqueInverse refined) lv).graph
              (refinedToLabels (uniqueInverse labels1) (uniqueInverse refined)) := by
            intro a b ha hb hab
            obtain ⟨x, hx, hxa⟩ := honto a ha
            obtain ⟨y, hy, hyb⟩ := honto b hb
            rw [← hxa, ← hyb, hspec.2 x hx, hspec.2 y hy] at hab
            rw [← hxa, ← hyb]
            exact aggregate_pconn _ lv hlv hrlen x y (hw2 x y hx hy hab)
          exact ih _ (aggregate (uniqueInverse refined) lv)
            (refinedToLabels (uniqueInverse labels1) (uniqueInverse refined)) _ _ _ out
            (aggregate_levelOK _ lv hlv hrlen) hspec.1 hmlen' hmb' hinv' hw' h

/-- **clusters_within_components (Leiden.fit), every oracle.** -/
theorem leidenFit_comp (kind : Kind) (res tolOpt tolAgg : Rat) (nAgg : Int) (nRow nCol nnz : Nat)
    (B : Nat → Nat → Rat) (fb : Bool) (coreFuel : Nat) (rands : List (List Nat)) (out : FitOut)
    (h : leidenFit kind res tolOpt tolAgg nAgg nRow nCol nnz B fb coreFuel rands = .ok (some out)) :
    ∀ u v, u < (kindAdj kind nRow nCol B fb).1 → v < (kindAdj kind nRow nCol B fb).1 →
      labOf out.labels u = labOf out.labels v →
      Connected (kindAdj kind nRow nCol B fb).1 (kindAdj kind nRow nCol B fb).2 u v := by
  unfold leidenFit at h
  split at h
  · cases h
  · rename_i lv hlv
    simp only [Except.ok.injEq] at h
    obtain ⟨w, hw, rfl⟩ := preProcess_ok _ _ _ _ _ _ _ hlv
    have hOK := symLevel_levelOK (kindAdj kind nRow nCol B fb).1 (kindAdj kind nRow nCol B fb).2 w.1 w.2
    have hwc := leidenLoop_comp res tolOpt tolAgg nAgg coreFuel _ _ 0 _
      (arange (kindAdj kind nRow nCol B fb).1) (arange (kindAdj kind nRow nCol B fb).1) [] rands out hOK
      (by simp [arange, symLevel]) (by simp [arange, symLevel])
      (fun u hu => by
        show labOf (List.range (kindAdj kind nRow nCol B fb).1) u < (kindAdj kind nRow nCol B fb).1
        rw [labOf_range (kindAdj kind nRow nCol B fb).1 u hu]; exact hu)
      (compInv_init _ hOK) (withinComp_singletons _) h
    intro u v hu hv huv
    exact symLevel_conn _ _ _ _ u v hu (hwc u v hu hv huv)

end SkNet.Modularity
