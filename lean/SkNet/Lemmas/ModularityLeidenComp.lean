/-
Connected components through `Leiden.fit`: the coarse clusters stay inside connected components although the
graph is aggregated by the refined clusters (stored entries of a level map onto stored entries, or loops, of the
aggregate).
-/
import SkNet.Lemmas.ModularityLeiden

namespace SkNet.Modularity

/-- the tracked (coarse) partition `labels ∘ memb` of the first level lies inside its connected components -/
def TrackedWithin (lv0 : Level) (memb labels : List Nat) : Prop :=
  ∀ u v, u < lv0.n → v < lv0.n → labOf labels (labOf memb u) = labOf labels (labOf memb v) → PConn lv0.graph u v

/-- joining clusters of stored neighbours on the current level keeps the tracked partition inside the components of
    the first level (no assumption on how the stored pattern of the current level arose beyond `CompInv`) -/
theorem JoinSteps.trackedWithin {lv0 lv : Level} {memb : List Nat} (hinv : CompInv lv0 lv memb)
    {l l' : List Nat} (h : JoinSteps lv.graph l l') (hlen : l.length = lv.n) (hw : TrackedWithin lv0 memb l) :
    TrackedWithin lv0 memb l' := by
  induction h with
  | refl => exact hw
  | @step l1 i e hj hi he ih =>
    have hlen1 : i < l1.length := by rw [hj.length_eq, hlen]; exact hi
    obtain ⟨u0, v0, hu0, hv0, hui, hve, hc⟩ := hinv.links i e.1 (Or.inl ⟨e, he, rfl⟩)
    intro u v hu hv huv
    rw [labOf_set _ _ _ hlen1] at huv
    simp only [Function.update_apply] at huv
    by_cases h1 : labOf memb u = i
    · by_cases h2 : labOf memb v = i
      · exact hinv.within u v hu hv (h1.trans h2.symm)
      · simp only [h1, h2, if_true, if_false] at huv
        have a1 : PConn lv0.graph u u0 := hinv.within u u0 hu hu0 (h1.trans hui.symm)
        have a2 : PConn lv0.graph v0 v := ih v0 v hv0 hv (by rw [hve]; exact huv)
        exact (a1.trans hc).trans a2
    · by_cases h2 : labOf memb v = i
      · simp only [h1, h2, if_true, if_false] at huv
        have a1 : PConn lv0.graph u v0 := ih u v0 hu hv0 (by rw [hve]; exact huv)
        have a2 : PConn lv0.graph u0 v := hinv.within u0 v hu0 hv (hui.trans h2.symm)
        exact (a1.trans hc.symm).trans a2
      · simp only [h1, h2, if_false] at huv
        exact ih u v hu hv huv

/-! ### the loop -/

theorem leiden_level_tracked (lv0 lv : Level) (hlv : LevelOK lv) (memb : List Nat) (hinv : CompInv lv0 lv memb)
    (hmb : ∀ u, u < lv0.n → labOf memb u < lv.n) (res tolOpt : Rat) (labels : List Nat)
    (hlen : labels.length = lv.n) (hw : TrackedWithin lv0 memb labels) (labels1 : List Nat) (inc : Rat)
    (h : leidenOptimize lv res tolOpt labels = some (labels1, inc)) :
    TrackedWithin lv0 memb (uniqueInverse labels1) := by
  unfold leidenOptimize at h
  simp only [Option.some.injEq] at h
  obtain ⟨-, -, h3, h4, -⟩ := optimizeCoreCapped_spec lv.graph hlv.graphOK res tolOpt (nLabels labels) _
    (coreInv_labels lv hlv labels hlen)
  rw [h] at h3 h4
  simp only at h3 h4
  have hlen1 : labels1.length = lv.n := h4
  have hw1 : TrackedWithin lv0 memb labels1 := h3.trackedWithin hinv hlen hw
  intro u v hu hv huv
  exact hw1 u v hu hv ((uniqueInverse_iff labels1 _ _ (by rw [hlen1]; exact hmb u hu)
    (by rw [hlen1]; exact hmb v hv)).mp huv)

theorem leiden_refine_comp (lv : Level) (hlv : LevelOK lv) (res : Rat) (coreFuel : Nat) (labels2 : List Nat)
    (rands refined rest : List Nat) (h : leidenRefine lv res coreFuel labels2 rands = some (refined, rest)) :
    WithinComp lv.graph (uniqueInverse refined) := by
  have h0 : RefInv lv.graph.n labels2 (arange lv.n) := by
    refine ⟨by simp [arange, Level.graph], ?_⟩
    intro u v hu hv huv
    have hu' : u < lv.n := hu
    have hv' : v < lv.n := hv
    rw [show arange lv.n = List.range lv.n from rfl, labOf_range _ _ hu', labOf_range _ _ hv'] at huv
    rw [huv]
  obtain ⟨k1, k2⟩ := refineCore_spec lv.graph hlv.graphOK.cols res labels2 coreFuel _ rands h0 refined rest h
  have hl : refined.length = lv.n := k1.len
  have hw : WithinComp lv.graph refined :=
    k2.withinComp hlv.graphOK.cols (by simp [arange, Level.graph]) (withinComp_singletons lv.graph)
  intro u v hu hv huv
  exact hw u v hu hv ((uniqueInverse_iff refined u v (by rw [hl]; exact hu) (by rw [hl]; exact hv)).mp huv)

theorem leidenLoop_comp (res tolOpt tolAgg : Rat) (nAgg : Int) (lv0 : Level) :
    ∀ (fuel count : Nat) (lv : Level) (labels memb : List Nat) (incs : List Rat) (rands : List (List Nat))
      (out : FitOut),
      LevelOK lv → labels.length = lv.n → memb.length = lv0.n → (∀ u, u < lv0.n → labOf memb u < lv.n) →
      CompInv lv0 lv memb → TrackedWithin lv0 memb labels →
      leidenLoop res tolOpt tolAgg nAgg fuel count lv labels memb incs rands = some out →
      WithinComp lv0.graph out.labels := by
  intro fuel
  induction fuel with
  | zero => intro count lv labels memb incs rands out _ _ _ _ _ _ h; simp [leidenLoop] at h
  | succ f ih =>
    intro count lv labels memb incs rands out hlv hlen hmlen hmb hinv hw h
    simp only [leidenLoop] at h
    split at h
    · cases h
    · rename_i labels1 inc hopt
      obtain ⟨-, g2, -⟩ := leiden_level lv hlv res tolOpt labels hlen labels1 inc hopt
      have hw2 := leiden_level_tracked lv0 lv hlv memb hinv hmb res tolOpt labels hlen hw labels1 inc hopt
      split at h
      · cases h
      · rename_i refined rest href
        have hrinv := leiden_refine lv hlv res 0 (uniqueInverse labels1) _ refined rest href
        have hrlen : (uniqueInverse refined).length = lv.n := hrinv.len
        have hwr := leiden_refine_comp lv hlv res 0 (uniqueInverse labels1) _ refined rest href
        split at h
        · simp only [Option.some.injEq] at h
          subst h
          intro u v hu hv huv
          rw [labOf_map memb _ u (by rw [hmlen]; exact hu), labOf_map memb _ v (by rw [hmlen]; exact hv)] at huv
          exact hw2 u v hu hv huv
        · have honto : ∀ r, r < nLabels (uniqueInverse refined) → ∃ u, u < lv.n ∧ labOf (uniqueInverse refined) u = r := by
            intro r hr
            obtain ⟨u, hu, hur⟩ := uniqueInverse_onto refined r hr
            refine ⟨u, ?_, hur⟩
            rw [← hrlen, uniqueInverse_length]; exact hu
          have hspec := refinedToLabels_spec lv.n (uniqueInverse labels1) (uniqueInverse refined) g2 hrinv honto
          have hmlen' : (memb.map fun x => (uniqueInverse refined).getD x 0).length = lv0.n := by simp [hmlen]
          have hcomp : ∀ u, u < lv0.n → labOf (memb.map fun x => (uniqueInverse refined).getD x 0) u
              = labOf (uniqueInverse refined) (labOf memb u) :=
            fun u hu => labOf_map memb _ u (by rw [hmlen]; exact hu)
          have hmb' : ∀ u, u < lv0.n → labOf (memb.map fun x => (uniqueInverse refined).getD x 0) u
              < (aggregate (uniqueInverse refined) lv).n := by
            intro u hu
            rw [hcomp u hu]
            exact labOf_lt_nLabels _ _ (by rw [hrlen]; exact hmb u hu)
          have hinv' := compInv_step lv0 lv hlv memb hinv hmlen hmb (uniqueInverse refined) hwr
          -- the coarse clusters, carried by the refined clusters, are the same partition of the first level
          have hw' : TrackedWithin lv0 (memb.map fun x => (uniqueInverse refined).getD x 0)
              (refinedToLabels (uniqueInverse labels1) (uniqueInverse refined)) := by
            intro u v hu hv huv
            rw [hcomp u hu, hcomp v hv, hspec.2 _ (hmb u hu), hspec.2 _ (hmb v hv)] at huv
            exact hw2 u v hu hv huv
          exact ih _ (aggregate (uniqueInverse refined) lv)
            (refinedToLabels (uniqueInverse labels1) (uniqueInverse refined)) _ _ _ out
            (aggregate_levelOK _ lv hlv hrlen) hspec.1 hmlen' hmb' hinv' hw' h

/-- **clusters_within_components (Leiden.fit), every oracle.** -/
theorem leidenFit_comp (kind : Kind) (res tolOpt tolAgg : Rat) (nAgg : Int) (nRow nCol nnz : Nat)
    (B : Nat → Nat → Rat) (fb : Bool) (outerFuel : Nat) (rands : List (List Nat)) (out : FitOut)
    (h : leidenFit kind res tolOpt tolAgg nAgg nRow nCol nnz B fb outerFuel rands = .ok (some out)) :
    ∀ u v, u < (kindAdj kind nRow nCol B fb).1 → v < (kindAdj kind nRow nCol B fb).1 →
      labOf out.labels u = labOf out.labels v →
      Connected (kindAdj kind nRow nCol B fb).1 (kindAdj kind nRow nCol B fb).2 u v := by
  unfold leidenFit at h
  split at h
  · cases h
  · rename_i lv hlv
    simp only [Except.ok.injEq] at h
    obtain ⟨w, hw, rfl⟩ := preProcess_ok _ _ _ _ _ _ _ hlv
    have hOK := symLevel_levelOK (kindAdj kind nRow nCol B fb).1 (kindAdj kind nRow nCol B fb).2 w.1 w.2
    have hwc := leidenLoop_comp res tolOpt tolAgg nAgg _ _ 0 _
      (arange (kindAdj kind nRow nCol B fb).1) (arange (kindAdj kind nRow nCol B fb).1) [] rands out hOK
      (by simp [arange, symLevel]) (by simp [arange, symLevel])
      (fun u hu => by
        show labOf (List.range (kindAdj kind nRow nCol B fb).1) u < (kindAdj kind nRow nCol B fb).1
        rw [labOf_range (kindAdj kind nRow nCol B fb).1 u hu]; exact hu)
      (compInv_init _ hOK)
      (fun u v hu hv huv => by
        have hu' : u < (kindAdj kind nRow nCol B fb).1 := hu
        have hv' : v < (kindAdj kind nRow nCol B fb).1 := hv
        have e : ∀ x, x < (kindAdj kind nRow nCol B fb).1 →
            labOf (arange (kindAdj kind nRow nCol B fb).1) (labOf (arange (kindAdj kind nRow nCol B fb).1) x) = x := by
          intro x hx
          show labOf (List.range _) (labOf (List.range _) x) = x
          rw [labOf_range _ _ hx, labOf_range _ _ hx]
        rw [e u hu', e v hv'] at huv
        rw [huv]; exact PConn.refl _) h
    intro u v hu hv huv
    exact symLevel_conn _ _ _ _ u v hu (hwc u v hu hv huv)

end SkNet.Modularity
