/-
Brandes' theorem for the state the BFS phase ends in: the unique solution of the recursion
    delta[v] = Σ_w #(v in preds[w]) · sigma[v]/sigma[w] · (1 + delta[w])
is the dependency  δ(v) = Σ_{t ≠ v} sigma[v] · dp(v,t) / sigma[t],  where `dp(v,t)` counts the ways to continue from `v`
to `t` inside the shortest-path DAG (so `sigma[v]·dp(v,t)` is the number of shortest source–t paths through `v`).
-/
import SkNet.Lemmas.RankBrandesBack
import Mathlib.Algebra.BigOperators.Field

open Finset

namespace SkNet.Rank.Brandes

/-- multiplicity of the DAG edge `v → w` : occurrences of `v` among the predecessors of `w` -/
def cmul (st : BState) (v w : ℕ) : ℕ := (Pr st w).count v

/-- number of walks of length `k` from `v` to `t` along DAG edges -/
def dp (n : ℕ) (st : BState) : ℕ → ℕ → ℕ → ℕ
  | 0, v, t => if v = t then 1 else 0
  | k+1, v, t => ∑ w ∈ range n, cmul st v w * dp n st k w t

/-- level of a node -/
def lvl (st : BState) (v : ℕ) : ℕ := (D st v).toNat

/-- Brandes' dependency of the source on `v` -/
def dep (n : ℕ) (st : BState) (v : ℕ) : ℚ :=
  ∑ t ∈ range n, if 0 ≤ D st t ∧ t ≠ v then
    (S st v : ℚ) * (dp n st (lvl st t - lvl st v) v t : ℚ) / (S st t : ℚ) else 0

variable {n : ℕ} {nbr : ℕ → List ℕ} {src : ℕ}

/-- what the theorem needs from the BFS phase -/
structure Done (n : ℕ) (nbr : ℕ → List ℕ) (src : ℕ) (st : BState) : Prop where
  fin : Final n nbr src st
  lenS : st.sigma.length = n
  lenP : st.preds.length = n
  sigma_pos : ∀ v, v < n → 0 ≤ D st v → 0 < S st v
  sigma_zero : ∀ v, v < n → D st v < 0 → S st v = 0
  seen_iff : ∀ v, v < n → (v ∈ st.seen ↔ 0 ≤ D st v)
  top : ∃ L : ℕ, ∀ v, v < n → D st v ≤ L

theorem done_of_inv {L : ℕ} {st : BState} (hI : Inv n nbr src nbr L st) (hP : PInv n nbr st) (hq : st.queue = []) :
    Done n nbr src st := by
  have hseen : ∀ v, v < n → (v ∈ st.seen ↔ 0 ≤ D st v) := by
    intro v hv; rw [hI.disc v hv, hq]; simp
  refine ⟨final_of_inv hI hP hq, hI.lenS, hP.lenP, fun v hv h0 => ?_, hI.undisc, hseen, ⟨L, fun v hv => ?_⟩⟩
  · rw [hI.final v ((hseen v hv).mpr h0)]
    exact (hI.dist_ok v hv h0).1
  · by_cases h0 : 0 ≤ D st v
    · exact hI.seen_le v ((hseen v hv).mpr h0)
    · omega

theorem cmul_lvl {st : BState} (hd : Done n nbr src st) {v w : ℕ} (hw : w < n) (h : cmul st v w ≠ 0) :
    0 ≤ D st v ∧ 0 ≤ D st w ∧ lvl st w = lvl st v + 1 ∧ v < n := by
  have := hd.fin.pred_lvl w hw v (Nat.pos_of_ne_zero h)
  have hvn := hd.fin.slt v this.1
  have hv0 := (hd.seen_iff v hvn).mp this.1
  have hw0 := (hd.seen_iff w hw).mp this.2.1
  refine ⟨hv0, hw0, ?_, hvn⟩
  unfold lvl; omega

/-- unfolding of `dp` along the first DAG edge, for `t ≠ v` -/
theorem dp_first {st : BState} (hd : Done n nbr src st) (v t : ℕ) (htv : t ≠ v) :
    dp n st (lvl st t - lvl st v) v t = ∑ w ∈ range n, cmul st v w * dp n st (lvl st t - lvl st w) w t := by
  by_cases hlt : lvl st v < lvl st t
  · obtain ⟨k, hk⟩ : ∃ k, lvl st t - lvl st v = k + 1 := ⟨lvl st t - lvl st v - 1, by omega⟩
    rw [hk]
    show ∑ w ∈ range n, cmul st v w * dp n st k w t = _
    apply sum_congr rfl; intro w hw
    by_cases hc : cmul st v w = 0
    · rw [hc, zero_mul, zero_mul]
    · have := (cmul_lvl hd (mem_range.mp hw) hc).2.2.1
      have : lvl st t - lvl st w = k := by omega
      rw [this]
  · have h0 : lvl st t - lvl st v = 0 := by omega
    rw [h0]
    show (if v = t then 1 else 0) = _
    rw [if_neg (Ne.symm htv)]
    symm; apply sum_eq_zero; intro w hw
    by_cases hc : cmul st v w = 0
    · rw [hc, zero_mul]
    · have hl := (cmul_lvl hd (mem_range.mp hw) hc).2.2.1
      have h1 : lvl st t - lvl st w = 0 := by omega
      rw [h1]
      show cmul st v w * (if w = t then 1 else 0) = 0
      have : w ≠ t := fun e => by rw [e] at hl; omega
      rw [if_neg this, mul_zero]

/-- ★ Brandes' recursion: the dependency satisfies `δ(v) = Σ_w c(v,w) · σ(v)/σ(w) · (1 + δ(w))` -/
theorem dep_rec {st : BState} (hd : Done n nbr src st) (v : ℕ) (hv : v < n) :
    dep n st v = ∑ w ∈ range n, (cmul st v w : ℚ) * ((S st v : ℚ) / (S st w : ℚ)) * (1 + dep n st w) := by
  -- expand dp along the first edge and exchange the sums
  have h1 : dep n st v = ∑ t ∈ range n, ∑ w ∈ range n, if 0 ≤ D st t ∧ t ≠ v then
      (cmul st v w : ℚ) * ((S st v : ℚ) * (dp n st (lvl st t - lvl st w) w t : ℚ) / (S st t : ℚ)) else 0 := by
    unfold dep
    apply sum_congr rfl; intro t _
    by_cases hc : 0 ≤ D st t ∧ t ≠ v
    · rw [if_pos hc]
      simp only [if_pos hc]
      rw [dp_first hd v t hc.2]
      push_cast
      rw [mul_sum, sum_div]
      apply sum_congr rfl; intro w _; ring
    · rw [if_neg hc]
      simp only [if_neg hc]
      simp
  rw [h1, sum_comm]
  apply sum_congr rfl; intro w hw
  have hwn := mem_range.mp hw
  by_cases hc : cmul st v w = 0
  · rw [hc]; simp
  · obtain ⟨hv0, hw0, hl, _⟩ := cmul_lvl hd hwn hc
    have hwv : w ≠ v := fun e => by rw [e] at hl; omega
    have hSw : (S st w : ℚ) ≠ 0 := by
      have := hd.sigma_pos w hwn hw0; positivity
    -- the inner sum is (σ v / σ w)·(1 + δ w)
    have hinner : ∑ t ∈ range n, (if 0 ≤ D st t ∧ t ≠ v then
        (S st w : ℚ) * (dp n st (lvl st t - lvl st w) w t : ℚ) / (S st t : ℚ) else 0) = 1 + dep n st w := by
      unfold dep
      have hsplit : ∀ f : ℕ → ℚ, ∑ t ∈ range n, f t = f w + ∑ t ∈ (range n).erase w, f t := fun f =>
        (add_sum_erase (range n) f (mem_range.mpr hwn)).symm
      rw [hsplit, hsplit (fun t => if 0 ≤ D st t ∧ t ≠ w then
        (S st w : ℚ) * (dp n st (lvl st t - lvl st w) w t : ℚ) / (S st t : ℚ) else 0)]
      have hw1 : (0 ≤ D st w ∧ w ≠ v) := ⟨hw0, hwv⟩
      have hw2 : ¬ (0 ≤ D st w ∧ w ≠ w) := fun h => h.2 rfl
      rw [if_pos hw1, if_neg hw2, zero_add, Nat.sub_self]
      have : (dp n st 0 w w : ℚ) = 1 := by simp [dp]
      rw [this, mul_one, div_self hSw]
      congr 1
      apply sum_congr rfl; intro t ht
      have htw : t ≠ w := (mem_erase.mp ht).1
      by_cases htv : t = v
      · subst htv
        have h3 : ¬ (0 ≤ D st t ∧ t ≠ t) := fun h => h.2 rfl
        rw [if_neg h3]
        have hz : lvl st t - lvl st w = 0 := by omega
        rw [hz]
        have : dp n st 0 w t = 0 := by simp [dp, hwv]
        rw [this]; simp
      · have : (0 ≤ D st t ∧ t ≠ v) ↔ (0 ≤ D st t ∧ t ≠ w) := by
          constructor
          · rintro ⟨h, _⟩; exact ⟨h, htw⟩
          · rintro ⟨h, _⟩; exact ⟨h, htv⟩
        simp only [this]
    calc ∑ t ∈ range n, (if 0 ≤ D st t ∧ t ≠ v then
          (cmul st v w : ℚ) * ((S st v : ℚ) * (dp n st (lvl st t - lvl st w) w t : ℚ) / (S st t : ℚ)) else 0)
        = (cmul st v w : ℚ) * ((S st v : ℚ) / (S st w : ℚ)) * ∑ t ∈ range n, (if 0 ≤ D st t ∧ t ≠ v then
            (S st w : ℚ) * (dp n st (lvl st t - lvl st w) w t : ℚ) / (S st t : ℚ) else 0) := by
          rw [mul_sum]
          apply sum_congr rfl; intro t _
          by_cases hct : 0 ≤ D st t ∧ t ≠ v
          · rw [if_pos hct, if_pos hct]; field_simp
          · rw [if_neg hct, if_neg hct, mul_zero]
      _ = _ := by rw [hinner]

/-- ★ uniqueness: an array that satisfies the recursion at every node is the dependency -/
theorem rec_unique {st : BState} (hd : Done n nbr src st) (delta : List ℚ)
    (hrec : ∀ v, v < n → delta.getD v 0 = recSum n st.sigma st.preds delta (fun _ => True) v) :
    ∀ v, v < n → delta.getD v 0 = dep n st v := by
  obtain ⟨L, hL⟩ := hd.top
  have hterm : ∀ v w, recTerm st.sigma st.preds delta v w
      = (cmul st v w : ℚ) * ((S st v : ℚ) / (S st w : ℚ)) * (1 + delta.getD w 0) := fun _ _ => rfl
  -- induction on the distance to the deepest level
  have key : ∀ (k : ℕ) v, v < n → 0 ≤ D st v → (L : ℤ) - D st v ≤ (k : ℤ) → delta.getD v 0 = dep n st v := by
    intro k
    induction k with
    | zero =>
      intro v hv h0 hk
      rw [hrec v hv, dep_rec hd v hv, recSum_eq]
      apply sum_congr rfl; intro w hw
      rw [if_pos trivial, hterm]
      by_cases hc : cmul st v w = 0
      · rw [hc]; simp
      · exfalso
        have := cmul_lvl hd (mem_range.mp hw) hc
        have hLw := hL w (mem_range.mp hw)
        unfold lvl at this
        omega
    | succ k ih =>
      intro v hv h0 hk
      rw [hrec v hv, dep_rec hd v hv, recSum_eq]
      apply sum_congr rfl; intro w hw
      rw [if_pos trivial, hterm]
      by_cases hc : cmul st v w = 0
      · rw [hc]; simp
      · have := cmul_lvl hd (mem_range.mp hw) hc
        have : delta.getD w 0 = dep n st w := ih w (mem_range.mp hw) this.2.1 (by unfold lvl at this; omega)
        rw [this]
  intro v hv
  by_cases h0 : 0 ≤ D st v
  · exact key (L - D st v).toNat v hv h0 (by omega)
  · -- an unreachable node has no DAG edge and `sigma = 0`
    have hS : S st v = 0 := hd.sigma_zero v hv (not_le.mp h0)
    rw [hrec v hv, recSum_eq]
    have h1 : ∑ w ∈ range n, (if True then recTerm st.sigma st.preds delta v w else 0) = 0 := by
      apply sum_eq_zero; intro w hw
      rw [if_pos trivial, hterm]
      have : cmul st v w = 0 := by
        by_contra hc
        exact h0 (cmul_lvl hd (mem_range.mp hw) hc).1
      rw [this]; simp
    rw [h1]
    unfold dep
    symm; apply sum_eq_zero; intro t _
    split
    · rw [hS]; simp
    · rfl

end SkNet.Rank.Brandes
