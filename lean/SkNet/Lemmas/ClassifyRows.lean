/-
Generic lemmas for the classifiers of SkNet/Model/Classify.lean: sums, normalised rows, arg-max, unique labels.
-/
import SkNet.Lemmas.Vote
import SkNet.Spec.Classify
import Mathlib.Tactic.FieldSimp
import Mathlib.Tactic.Positivity

namespace SkNet.Classify

attribute [-simp] List.getD_eq_getElem?_getD

/-! ### sums -/

@[simp] theorem rsum_nil : rsum [] = 0 := rfl
@[simp] theorem rsum_cons (x : Rat) (l : List Rat) : rsum (x :: l) = x + rsum l := rfl

theorem rsum_nonneg {l : List Rat} (h : ∀ x ∈ l, 0 ≤ x) : 0 ≤ rsum l := by
  induction l with
  | nil => simp
  | cons x xs ih =>
    have h1 := h x (List.mem_cons_self ..)
    have h2 := ih (fun y hy => h y (List.mem_cons_of_mem _ hy))
    simp only [rsum_cons]
    linarith

theorem rsum_map_div (l : List Rat) (s : Rat) : rsum (l.map (· / s)) = rsum l / s := by
  induction l with
  | nil => simp
  | cons x xs ih =>
    simp only [List.map_cons, rsum_cons, ih]
    ring

theorem rabs_of_nonneg {x : Rat} (h : 0 ≤ x) : rabs x = x := by
  unfold rabs
  split
  · linarith
  · rfl

theorem rabs_zero : rabs 0 = 0 := by
  unfold rabs
  simp

theorem map_rabs_of_nonneg {l : List Rat} (h : ∀ x ∈ l, 0 ≤ x) : l.map rabs = l := by
  induction l with
  | nil => rfl
  | cons x xs ih =>
    simp only [List.map_cons]
    rw [rabs_of_nonneg (h x (List.mem_cons_self ..)), ih (fun y hy => h y (List.mem_cons_of_mem _ hy))]

theorem rsum_le_of_le {α : Type} (l : List α) (f g : α → Rat) (h : ∀ a ∈ l, f a ≤ g a) :
    rsum (l.map f) ≤ rsum (l.map g) := by
  induction l with
  | nil => simp
  | cons a as ih =>
    simp only [List.map_cons, rsum_cons]
    have h1 := h a (List.mem_cons_self ..)
    have h2 := ih (fun b hb => h b (List.mem_cons_of_mem _ hb))
    linarith

theorem rsum_pos_of_mem {l : List Rat} (h : ∀ x ∈ l, 0 ≤ x) {y : Rat} (hy : y ∈ l) (hpos : 0 < y) :
    0 < rsum l := by
  induction l with
  | nil => cases hy
  | cons x xs ih =>
    simp only [rsum_cons]
    have h1 := h x (List.mem_cons_self ..)
    have h2 := rsum_nonneg (fun z hz => h z (List.mem_cons_of_mem _ hz))
    rcases List.mem_cons.mp hy with rfl | hy
    · linarith
    · have := ih (fun z hz => h z (List.mem_cons_of_mem _ hz)) hy
      linarith

/-! ### normalised rows are probability rows -/

theorem normalizeRow_nonneg {l : List Rat} (h : ∀ x ∈ l, 0 ≤ x) : ∀ x ∈ normalizeRow l, 0 ≤ x := by
  unfold normalizeRow
  simp only
  split
  · exact h
  · intro x hx
    obtain ⟨y, hy, rfl⟩ := List.mem_map.mp hx
    have hs : 0 ≤ rsum (l.map rabs) := by
      rw [map_rabs_of_nonneg h]
      exact rsum_nonneg h
    exact div_nonneg (h y hy) hs

theorem normalizeRow_sum {l : List Rat} (h : ∀ x ∈ l, 0 ≤ x) :
    rsum (normalizeRow l) = 1 ∨ rsum (normalizeRow l) = 0 := by
  unfold normalizeRow
  simp only
  rw [map_rabs_of_nonneg h]
  split
  · rename_i hs
    exact Or.inr hs
  · rename_i hs
    left
    rw [rsum_map_div]
    exact div_self hs

theorem rsum_eq_zero_iff {l : List Rat} (h : ∀ x ∈ l, 0 ≤ x) : rsum l = 0 ↔ ∀ x ∈ l, x = 0 := by
  constructor
  · intro hs x hx
    by_contra hne
    have hpos : 0 < x := lt_of_le_of_ne (h x hx) (Ne.symm hne)
    have := rsum_pos_of_mem h hx hpos
    linarith
  · intro hz
    induction l with
    | nil => rfl
    | cons y ys ih =>
      simp only [rsum_cons]
      rw [hz y (List.mem_cons_self ..), ih (fun z hz' => h z (List.mem_cons_of_mem _ hz'))
        (fun z hz' => hz z (List.mem_cons_of_mem _ hz'))]
      simp

/-- a normalised non-negative row sums to 1 exactly when the row is not null, and to 0 when it is -/
theorem normalizeRow_sum_one {l : List Rat} (h : ∀ x ∈ l, 0 ≤ x) (hne : rsum l ≠ 0) : rsum (normalizeRow l) = 1 := by
  unfold normalizeRow
  simp only
  rw [map_rabs_of_nonneg h, if_neg hne, rsum_map_div]
  exact div_self hne

theorem normalizeRow_sum_zero {l : List Rat} (h : ∀ x ∈ l, 0 ≤ x) (hz : rsum l = 0) : rsum (normalizeRow l) = 0 := by
  unfold normalizeRow
  simp only
  rw [map_rabs_of_nonneg h, if_pos hz]
  exact hz

theorem rowStrong_of {row : List Rat} (h : ∀ x ∈ row, 0 ≤ x) (reaches : Bool)
    (h1 : reaches = true → rsum row = 1) (h0 : reaches = false → rsum row = 0) :
    Spec.rowStrong 0 reaches row = true := by
  unfold Spec.rowStrong
  simp only [Bool.and_eq_true, List.all_eq_true, decide_eq_true_eq]
  refine ⟨h, ?_⟩
  cases reaches with
  | true => simp [h1 rfl, rabs_zero]
  | false => simp [h0 rfl, rabs_zero]

theorem normalizeRow_length (l : List Rat) : (normalizeRow l).length = l.length := by
  unfold normalizeRow
  simp only
  split <;> simp

/-- a normalised non-negative row is a probability row: non-negative, summing to 1 or to 0 -/
theorem normalizeRow_rowOK {l : List Rat} (h : ∀ x ∈ l, 0 ≤ x) : Spec.rowOK 0 (normalizeRow l) = true := by
  unfold Spec.rowOK
  simp only [Bool.and_eq_true, List.all_eq_true, decide_eq_true_eq, Bool.or_eq_true]
  refine ⟨normalizeRow_nonneg h, ?_⟩
  rcases normalizeRow_sum h with hs | hs
  · left
    rw [hs]
    simp [rabs_zero]
  · right
    rw [hs, rabs_zero]

/-! ### arg-max -/

theorem argmaxFrom_spec (xs : List Rat) (pos best : Nat) (bv : Rat) (pre : List Rat)
    (hpos : pos = pre.length) (hb : best < pos) (hbv : pre.getD best 0 = bv)
    (hmax : ∀ j, j < pos → pre.getD j 0 ≤ bv) (hfirst : ∀ j, j < best → pre.getD j 0 < bv) :
    argmaxFrom xs pos best bv < (pre ++ xs).length ∧
    (∀ j, j < (pre ++ xs).length → (pre ++ xs).getD j 0 ≤ (pre ++ xs).getD (argmaxFrom xs pos best bv) 0) ∧
    (∀ j, j < argmaxFrom xs pos best bv → (pre ++ xs).getD j 0 < (pre ++ xs).getD (argmaxFrom xs pos best bv) 0) := by
  induction xs generalizing pos best bv pre with
  | nil =>
    simp only [argmaxFrom, List.append_nil]
    refine ⟨by omega, ?_, ?_⟩
    · intro j hj
      rw [hbv]
      exact hmax j (by omega)
    · intro j hj
      rw [hbv]
      exact hfirst j hj
  | cons x xs ih =>
    have happ : pre ++ x :: xs = (pre ++ [x]) ++ xs := by simp
    have hget : ∀ j, j < pos → (pre ++ [x]).getD j 0 = pre.getD j 0 := by
      intro j hj
      simp only [List.getD_eq_getElem?_getD]
      rw [List.getElem?_append_left (by omega)]
    have hlast : (pre ++ [x]).getD pos 0 = x := by
      simp only [List.getD_eq_getElem?_getD]
      rw [List.getElem?_append_right (by omega)]
      simp [hpos]
    simp only [argmaxFrom]
    rw [happ]
    split
    · rename_i hlt
      apply ih (pos + 1) pos x (pre ++ [x]) (by simp [hpos]) (by omega) hlast
      · intro j hj
        by_cases hjp : j < pos
        · rw [hget j hjp]
          have := hmax j hjp
          linarith
        · have : j = pos := by omega
          rw [this, hlast]
      · intro j hj
        rw [hget j hj]
        have := hmax j hj
        linarith
    · rename_i hnlt
      have hle : x ≤ bv := not_lt.mp hnlt
      apply ih (pos + 1) best bv (pre ++ [x]) (by simp [hpos]) (by omega)
      · rw [hget best hb]
        exact hbv
      · intro j hj
        by_cases hjp : j < pos
        · rw [hget j hjp]
          exact hmax j hjp
        · have : j = pos := by omega
          rw [this, hlast]
          exact hle
      · intro j hj
        rw [hget j (by omega)]
        exact hfirst j hj

/-- `np.argmax` of a non-empty row: a position of the maximum, the first one -/
theorem argmax_spec (r : List Rat) (hne : r ≠ []) :
    argmax r < r.length ∧ (∀ j, j < r.length → r.getD j 0 ≤ r.getD (argmax r) 0) ∧
    (∀ j, j < argmax r → r.getD j 0 < r.getD (argmax r) 0) := by
  cases r with
  | nil => exact absurd rfl hne
  | cons x xs =>
    have := argmaxFrom_spec xs 1 0 x [x] rfl (by omega) rfl
      (by intro j hj; have : j = 0 := by omega
          subst this; exact le_refl _)
      (by intro j hj; omega)
    simpa [argmax] using this

/-- a strict maximum is where `np.argmax` points -/
theorem argmax_eq_of_strict (r : List Rat) (k : Nat) (hk : k < r.length)
    (h : ∀ j, j < r.length → j ≠ k → r.getD j 0 < r.getD k 0) : argmax r = k := by
  have hne : r ≠ [] := by
    intro h0
    rw [h0] at hk
    simp at hk
  obtain ⟨h1, h2, _⟩ := argmax_spec r hne
  by_contra hc
  have := h (argmax r) h1 hc
  have := h2 k hk
  linarith

/-! ### unique labels -/

theorem mem_uniqueLabels {labels : List Int} {x : Int} : x ∈ uniqueLabels labels ↔ x ∈ labels ∧ 0 ≤ x := by
  unfold uniqueLabels
  induction labels with
  | nil => simp
  | cons l ls ih =>
    simp only [List.filter_cons]
    by_cases h0 : 0 ≤ l
    · simp only [h0, decide_true, if_true, List.foldr_cons, Vote.mem_setInsert, ih, List.mem_cons]
      constructor
      · rintro (rfl | ⟨h1, h2⟩)
        · exact ⟨Or.inl rfl, h0⟩
        · exact ⟨Or.inr h1, h2⟩
      · rintro ⟨rfl | h1, h2⟩
        · exact Or.inl rfl
        · exact Or.inr ⟨h1, h2⟩
    · simp only [h0, decide_false, Bool.false_eq_true, if_false, ih, List.mem_cons]
      constructor
      · rintro ⟨h1, h2⟩
        exact ⟨Or.inr h1, h2⟩
      · rintro ⟨rfl | h1, h2⟩
        · exact absurd h2 h0
        · exact ⟨h1, h2⟩

theorem uniqueLabels_sorted (labels : List Int) : (uniqueLabels labels).Pairwise (· < ·) := by
  unfold uniqueLabels
  induction (labels.filter (0 ≤ ·)) with
  | nil => exact List.Pairwise.nil
  | cons l ls ih => exact Vote.setInsert_sorted ih

theorem uniqueLabels_nodup (labels : List Int) : (uniqueLabels labels).Nodup :=
  Vote.sorted_nodup (uniqueLabels_sorted labels)

theorem indexOf_lt {x : Int} {l : List Int} (h : x ∈ l) : indexOf x l < l.length := by
  unfold indexOf
  exact List.findIdx_lt_length_of_exists ⟨x, h, by simp⟩

theorem findIdx_getD_sat (p : Int → Bool) (l : List Int) (d : Int) (h : ∃ y ∈ l, p y = true) :
    p (l.getD (l.findIdx p) d) = true := by
  have hlt : l.findIdx p < l.length := List.findIdx_lt_length_of_exists h
  rw [List.getD_eq_getElem?_getD, List.getElem?_eq_getElem hlt]
  exact List.findIdx_getElem (w := hlt)

theorem getD_indexOf {x : Int} {l : List Int} (h : x ∈ l) (d : Int) : l.getD (indexOf x l) d = x := by
  have := findIdx_getD_sat (· == x) l d ⟨x, h, by simp⟩
  unfold indexOf
  simpa using this

theorem indexOf_getElem {l : List Int} (hnd : l.Nodup) (q : Nat) (hq : q < l.length) : indexOf l[q] l = q := by
  have hm : l[q] ∈ l := List.getElem_mem hq
  have hlt := indexOf_lt hm
  have h1 := getD_indexOf hm 0
  rw [List.getD_eq_getElem?_getD, List.getElem?_eq_getElem hlt] at h1
  simp only [Option.getD_some] at h1
  exact (List.Nodup.getElem_inj_iff hnd).mp h1

end SkNet.Classify
