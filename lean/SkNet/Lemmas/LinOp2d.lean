/-
C15 lemmas: the 2-d branches of `_matvec` (Laplacian, Polynome) and the direct 2-d call for every operator class.
-/
import SkNet.Lemmas.LinOpExpr
open SkNet

namespace SkNet.LinOp
namespace Laplacian

theorem scaleM_shape (l : Laplacian) (x : Mat) (hx : x.nRow = l.lap.nRow) :
    (l.scaleM x).nRow = l.lap.nRow ∧ (l.scaleM x).nCol = x.nCol := by
  unfold scaleM
  cases l.normDiag with
  | some d => exact ⟨rfl, rfl⟩
  | none => exact ⟨hx, rfl⟩

theorem get_scaleM (l : Laplacian) (x : Mat) (hx : x.nRow = l.lap.nRow) (i k : Nat) :
    (l.scaleM x).get i k = vget l.dvec i * x.get i k := by
  unfold scaleM dvec
  cases l.normDiag with
  | some d =>
    simp only []
    rw [Mat.get_ofFn]
    by_cases h : i < l.lap.nRow ∧ k < x.nCol
    · simp [h]
    · have : x.get i k = 0 := Mat.get_of_not_lt (by rw [hx]; exact h)
      simp [h, this]
  | none =>
    simp only [vget_ones]
    by_cases h : i < l.lap.nRow
    · simp [h]
    · have : x.get i k = 0 := Mat.get_of_row_ge k (by rw [hx]; exact Nat.le_of_not_lt h)
      simp [h, this]

/-- **2-d branch of `Laplacian._matvec`** -/
theorem matmat_eqv_dense (l : Laplacian) (x : Mat) (hsq : l.lap.nCol = l.lap.nRow) (hx : x.nRow = l.lap.nRow) :
    Mat.Eqv (l.matmat x) (l.dense.mul x) := by
  have hs1 := scaleM_shape l x hx
  have hshape : ∀ m : Mat, m.nRow = l.lap.nRow → m.nCol = x.nCol →
      (l.scaleM m).nRow = l.lap.nRow ∧ (l.scaleM m).nCol = x.nCol := by
    intro m h1 h2
    have := scaleM_shape l m h1
    exact ⟨this.1, by rw [this.2, h2]⟩
  have hout : (l.matmat x).nRow = l.lap.nRow ∧ (l.matmat x).nCol = x.nCol := by
    unfold matmat
    by_cases hr : l.reg ≠ 0
    · simp only [if_pos hr]; exact hshape _ rfl rfl
    · simp only [if_neg hr]; exact hshape _ rfl (by simp [hs1.2])
  refine ⟨hout.1, hout.2, fun i k => ?_⟩
  by_cases hik : i < l.lap.nRow ∧ k < x.nCol
  · obtain ⟨hi, hk⟩ := hik
    rw [Mat.get_mul, dense_nCol]
    have e : sumTo l.lap.nRow (fun j => l.dense.get i j * x.get j k)
        = sumTo l.lap.nRow (fun j => vget l.dvec i * (l.lap.get i j * (vget l.dvec j * x.get j k)
            + (if l.reg ≠ 0 then l.reg * ((if i = j then vget l.dvec j * x.get j k else 0)
                - 1 / (l.lap.nRow : Rat) * (vget l.dvec j * x.get j k)) else 0))) := by
      apply sumTo_congr; intro j hj
      rw [get_dense l hi hj]
      by_cases hr : l.reg ≠ 0 <;> by_cases hij : i = j <;> simp [hr, hij] <;> ring
    rw [e, sumTo_mul_left, sumTo_add]
    have e2 : sumTo l.lap.nRow (fun j => l.lap.get i j * (l.scaleM x).get j k)
        = sumTo l.lap.nRow (fun j => l.lap.get i j * (vget l.dvec j * x.get j k)) :=
      sumTo_congr (fun j _ => by rw [get_scaleM l x hx])
    unfold matmat
    by_cases hr : l.reg ≠ 0
    · simp only [if_pos hr]
      rw [get_scaleM l _ (Mat.ofFn_nRow _ _ _), Mat.get_ofFn, if_pos ⟨hi, hk⟩, Mat.get_mul, hsq, e2, sumTo_mul_left, sumTo_sub,
        sumTo_ite_eq', if_pos hi, sumTo_mul_left, get_scaleM l x hx]
      have e3 : vsum ((l.scaleM x).col k) = sumTo l.lap.nRow (fun j => vget l.dvec j * x.get j k) := by
        unfold Mat.col
        rw [vsum_tab, hs1.1]
        exact sumTo_congr (fun j _ => get_scaleM l x hx j k)
      rw [e3, hs1.1]; ring
    · simp only [if_neg hr]
      rw [get_scaleM l _ (Mat.mul_nRow _ _), Mat.get_mul, hsq, e2]; simp
  · rw [Mat.get_of_not_lt (by rw [hout.1, hout.2]; exact hik), Mat.get_of_not_lt (by simpa using hik)]

end Laplacian
namespace Polynome

theorem matmat_singleton (m : Mat) (c : Rat) (x : Mat) : matmat ⟨m, [c]⟩ x = x.smul c := rfl

theorem matmat_cons (m : Mat) (c : Rat) (cs : List Rat) (hcs : cs ≠ []) (x : Mat) :
    matmat ⟨m, c :: cs⟩ x
      = Mat.ofFn m.nRow x.nCol fun i k => (m.mul (matmat ⟨m, cs⟩ x)).get i k + c * x.get i k := by
  unfold matmat
  simp only [List.reverse_cons]
  have hne : cs.reverse ≠ [] := by simpa using hcs
  cases hrev : cs.reverse with
  | nil => exact absurd hrev hne
  | cons h r =>
    simp only [List.cons_append]
    unfold hornerLoopM
    rw [List.foldl_append]
    rfl

theorem powerSum_cons_mul (m : Mat) (hsq : m.nCol = m.nRow) (c : Rat) (cs : List Rat) (x : Mat)
    (hx : x.nRow = m.nRow) :
    Mat.Eqv ((powerSum m (c :: cs) 0).mul x)
      (Mat.ofFn m.nRow x.nCol fun i k => (m.mul ((powerSum m cs 0).mul x)).get i k + c * x.get i k) := by
  have hr : ((m.pow 0).smul c).nRow = (powerSum m cs 1).nRow := by simp [Mat.pow_nRow, powerSum_nRow]
  have hc : ((m.pow 0).smul c).nCol = (powerSum m cs 1).nCol := by
    simp [Mat.pow_nCol m hsq, powerSum_nCol m hsq]
  have h1 : Mat.Eqv ((powerSum m (c :: cs) 0).mul x)
      ((((m.pow 0).smul c).mul x).add ((powerSum m cs 1).mul x)) := Mat.mul_add_right _ _ x hr hc
  have h2 : Mat.Eqv (((m.pow 0).smul c).mul x) (x.smul c) := by
    refine (Mat.mul_smul c (m.pow 0) x).trans (Mat.Eqv.smul c ?_)
    show Mat.Eqv ((Mat.identity m.nRow).mul x) x
    rw [← hx]; exact Mat.identity_mul x
  have h3 : Mat.Eqv ((powerSum m cs 1).mul x) (m.mul ((powerSum m cs 0).mul x)) :=
    (Mat.Eqv.mul (powerSum_shift m hsq cs 0) (Mat.Eqv.refl x)).trans (Mat.mul_assoc m _ x)
  refine ⟨by simp [powerSum_nRow], by simp, fun i k => ?_⟩
  rw [h1.get, Mat.get_add (by simp [Mat.pow_nRow, powerSum_nRow]) (by simp), h2.get, h3.get, Mat.get_ofFn, Mat.get_smul]
  by_cases hik : i < m.nRow ∧ k < x.nCol
  · simp only [hik, and_self, if_true]; ring
  · simp only [hik, if_false]
    have e1 : x.get i k = 0 := Mat.get_of_not_lt (by rw [hx]; exact hik)
    have e2 : (m.mul ((powerSum m cs 0).mul x)).get i k = 0 := Mat.get_of_not_lt (by simpa using hik)
    rw [e1, e2]; ring

/-- **2-d branch of `Polynome._matvec`**: Horner's scheme on a 2-d array is the product by `Σ_k c_k M^k` -/
theorem matmat_eqv_dense (m : Mat) (hsq : m.nCol = m.nRow) (cs : List Rat) (hcs : cs ≠ []) (x : Mat)
    (hx : x.nRow = m.nRow) : Mat.Eqv (matmat ⟨m, cs⟩ x) ((powerSum m cs 0).mul x) := by
  induction cs with
  | nil => exact absurd rfl hcs
  | cons c cs ih =>
    by_cases hcs' : cs = []
    · subst hcs'
      rw [matmat_singleton]
      refine Mat.Eqv.trans ?_ (powerSum_cons_mul m hsq c [] x hx).symm
      refine ⟨by simp [hx], by simp, fun i k => ?_⟩
      rw [Mat.get_smul, Mat.get_ofFn]
      have ez : (m.mul ((powerSum m [] 0).mul x)).get i k = 0 := by
        rw [Mat.get_mul]
        apply sumTo_eq_zero; intro j _
        rw [Mat.get_mul]
        have : sumTo (powerSum m [] 0).nCol (fun t => (powerSum m [] 0).get j t * x.get t k) = 0 := by
          apply sumTo_eq_zero; intro t _
          show (Mat.zero m.nRow m.nRow).get j t * _ = 0
          rw [Mat.get_zero]; ring
        rw [this]; ring
      by_cases hik : i < m.nRow ∧ k < x.nCol
      · simp only [hik, and_self, if_true, ez]; ring
      · simp only [hik, if_false]
        rw [Mat.get_of_not_lt (by rw [hx]; exact hik)]; ring
    · rw [matmat_cons m c cs hcs' x]
      refine Mat.Eqv.trans ?_ (powerSum_cons_mul m hsq c cs x hx).symm
      refine ⟨rfl, rfl, fun i k => ?_⟩
      rw [Mat.get_ofFn, Mat.get_ofFn]
      by_cases hik : i < m.nRow ∧ k < x.nCol
      · simp only [hik, and_self, if_true]
        rw [(Mat.Eqv.mul (Mat.Eqv.refl m) (ih hcs')).get]
      · simp only [hik, if_false]

end Polynome

/-- **a direct call `operator._matvec(X)` with a 2-d array** (the 2-d branches of every class) is the product by the
dense matrix -/
theorem Op.matvec2d_eqv {o : Op} (hw : o.WF) {x y : Mat} (hx : x.nRow = o.nCol) (hy : o.matvec2d x = .ok y) :
    Mat.Eqv y (o.dense.mul x) := by
  cases o with
  | slr s => simp only [Op.matvec2d] at hy; cases hy; exact SLR.matmat_eqv_dense s x
  | nrm n t =>
    cases t with
    | false => simp only [Op.matvec2d] at hy; cases hy; exact Normalizer.matmat_eqv_dense n x hx
    | true => simp only [Op.matvec2d] at hy; cases hy; exact Normalizer.rmatmat_eqv_dense n x
  | lap l => simp only [Op.matvec2d] at hy; cases hy; exact Laplacian.matmat_eqv_dense l x hw hx
  | con c => simp only [Op.matvec2d] at hy; cases hy; exact CoNeighbor.matmat_eqv_dense c x
  | pol p =>
    simp only [Op.matvec2d] at hy; cases hy
    exact Polynome.matmat_eqv_dense p.matrix hw.2.1 p.coeffs hw.1 x hx
  | gsum a b => simp only [Op.matvec2d] at hy; cases hy
  | gscaled a c => simp only [Op.matvec2d] at hy; cases hy

end SkNet.LinOp
