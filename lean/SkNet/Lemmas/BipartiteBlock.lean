/-
Helper lemmas for C03: the denotation of the COO triples that `sparse.bmat` is handed by
`bipartite2undirected` / `bipartite2directed` (Model/Bipartite.lean: `triples`, `denote`, `blockTriples`).
-/
import SkNet.Model.Bipartite

namespace SkNet.Bip

theorem sumQ_append (a b : List Rat) : sumQ (a ++ b) = sumQ a + sumQ b := by
  induction a with
  | nil => simp [sumQ, Rat.zero_add]
  | cons x xs ih => simp [sumQ, ih, Rat.add_assoc]

theorem denote_append (s t : List (Nat × Nat × Rat)) (i j : Nat) :
    denote (s ++ t) i j = denote s i j + denote t i j := by
  simp [denote, List.filter_append, List.map_append, sumQ_append]

theorem denote_nil (i j : Nat) : denote [] i j = 0 := by simp [denote, sumQ]

/-- re-addressing the triples by an injective-enough map: the entry `(i', j')` of the new list is the entry
`(i, j)` of the old one whenever the map sends exactly the triples at `(i, j)` to `(i', j')` -/
theorem denote_map (t : List (Nat × Nat × Rat)) (f : Nat × Nat × Rat → Nat × Nat × Rat) (i j i' j' : Nat)
    (hval : ∀ e, (f e).2.2 = e.2.2)
    (hpos : ∀ e ∈ t, ((f e).1 == i' && (f e).2.1 == j') = (e.1 == i && e.2.1 == j)) :
    denote (t.map f) i' j' = denote t i j := by
  unfold denote
  induction t with
  | nil => simp
  | cons e es ih =>
    have h1 := hpos e (List.mem_cons_self ..)
    have ih' := ih (fun x hx => hpos x (List.mem_cons_of_mem _ hx))
    simp only [List.map_cons, List.filter_cons, h1]
    by_cases hc : (e.1 == i && e.2.1 == j) = true
    · simp only [hc, if_true, List.map_cons, sumQ, hval, ih']
    · simp only [hc, Bool.false_eq_true, if_false, ih']

/-- no triple is sent to `(i', j')`: the entry is zero -/
theorem denote_map_none (t : List (Nat × Nat × Rat)) (f : Nat × Nat × Rat → Nat × Nat × Rat) (i' j' : Nat)
    (hpos : ∀ e ∈ t, ((f e).1 == i' && (f e).2.1 == j') = false) :
    denote (t.map f) i' j' = 0 := by
  unfold denote
  induction t with
  | nil => simp [sumQ]
  | cons e es ih =>
    have h1 := hpos e (List.mem_cons_self ..)
    have ih' := ih (fun x hx => hpos x (List.mem_cons_of_mem _ hx))
    simp only [List.map_cons, List.filter_cons, h1, Bool.false_eq_true, if_false, ih']

/-- every stored triple lies in a row of the matrix -/
theorem triples_row_lt (c : Csr Rat) : ∀ e ∈ triples c, e.1 < c.nRow := by
  intro e he
  unfold triples at he
  obtain ⟨i, hi, he'⟩ := List.mem_flatMap.1 he
  obtain ⟨p, _, rfl⟩ := List.mem_map.1 he'
  simpa using hi

end SkNet.Bip
