/-
A node only ever joins the cluster of a stored neighbour (`JoinSteps`), hence every cluster the kernel returns
lies inside one connected component of the stored pattern — provided the clusters it started from did.
-/
import SkNet.Lemmas.ModularityLoop

namespace SkNet.Modularity

/-- `u` and `v` are the two ends of a stored entry -/
def PLink (g : Graph Rat) (u v : Nat) : Prop := (∃ e ∈ g.row u, e.1 = v) ∨ (∃ e ∈ g.row v, e.1 = u)

theorem PLink.symm {g : Graph Rat} {u v : Nat} (h : PLink g u v) : PLink g v u := Or.symm h

/-- joined by a chain of stored entries -/
inductive PConn (g : Graph Rat) : Nat → Nat → Prop
  | refl (u : Nat) : PConn g u u
  | step {u v w : Nat} : PConn g u v → PLink g v w → PConn g u w

theorem PConn.trans {g : Graph Rat} {u v w : Nat} (h1 : PConn g u v) (h2 : PConn g v w) : PConn g u w := by
  induction h2 with
  | refl => exact h1
  | step _ hl ih => exact PConn.step ih hl

theorem PConn.single {g : Graph Rat} {u v : Nat} (h : PLink g u v) : PConn g u v :=
  PConn.step (PConn.refl u) h

theorem PConn.symm {g : Graph Rat} {u v : Nat} (h : PConn g u v) : PConn g v u := by
  induction h with
  | refl => exact PConn.refl _
  | step _ hl ih => exact (PConn.single hl.symm).trans ih

/-- every cluster lies inside one connected component of the stored pattern -/
def WithinComp (g : Graph Rat) (l : List Nat) : Prop :=
  ∀ u v, u < g.n → v < g.n → labOf l u = labOf l v → PConn g u v

theorem withinComp_singletons (g : Graph Rat) : WithinComp g (List.range g.n) := by
  intro u v hu hv h
  have eu : labOf (List.range g.n) u = u := by simp [labOf, List.getD_eq_getElem?_getD, hu]
  have ev : labOf (List.range g.n) v = v := by simp [labOf, List.getD_eq_getElem?_getD, hv]
  rw [eu, ev] at h
  rw [h]; exact PConn.refl _

theorem JoinSteps.length_eq {g : Graph Rat} {l l' : List Nat} (h : JoinSteps g l l') : l'.length = l.length := by
  induction h with
  | refl => rfl
  | step i e _ _ _ ih => simp [ih]

theorem JoinSteps.withinComp {g : Graph Rat} (hcols : ∀ i, i < g.n → ∀ e ∈ g.row i, e.1 < g.n)
    {l l' : List Nat} (h : JoinSteps g l l') (hlen : l.length = g.n) (hw : WithinComp g l) :
    WithinComp g l' := by
  induction h with
  | refl => exact hw
  | @step l1 i e hj hi he ih =>
    have hlen1 : i < l1.length := by rw [hj.length_eq, hlen]; exact hi
    have he1 : e.1 < g.n := hcols i hi e he
    have hie : PConn g i e.1 := PConn.single (Or.inl ⟨e, he, rfl⟩)
    intro u v hu hv huv
    rw [labOf_set _ _ _ hlen1] at huv
    simp only [Function.update_apply] at huv
    by_cases h1 : u = i
    · by_cases h2 : v = i
      · rw [h1, h2]; exact PConn.refl _
      · simp only [h1, h2, if_true, if_false] at huv
        rw [h1]
        exact hie.trans (ih e.1 v he1 hv huv)
    · by_cases h2 : v = i
      · simp only [h1, h2, if_true, if_false] at huv
        rw [h2]
        exact (ih u e.1 hu he1 huv).trans hie.symm
      · simp only [h1, h2, if_false] at huv
        exact ih u v hu hv huv

end SkNet.Modularity
