/- The traversal of `get_cycles` ends within the fuel `cyclesFuel` handed to it (Model/Cycles.lean):
   a stacked simple path of length k weighs B^(n-k); a pop replaces one path by at most D < B longer ones. -/
import SkNet.Model.Cycles
import SkNet.Spec.Connectivity
import SkNet.Lemmas.GetCycles
import SkNet.Lemmas.Reach

namespace SkNet.Cycles
open SkNet SkNet.Connectivity

theorem RPathOK.length_le {n : Nat} {adj : Nat → List Nat} {rp : List Nat} (h : RPathOK n adj rp) : rp.length ≤ n := by
  have := (nodup_sub_length (u := rp) (l := List.range n) h.nodup (fun a ha => List.mem_range.mpr (h.lt a ha))).1
  simpa using this

/-- weight of the stack -/
def wt (n B : Nat) (stack : List (List Nat)) : Nat := (stack.map fun rp => B ^ (n - rp.length)).sum

theorem wt_cons (n B : Nat) (rp : List Nat) (stack : List (List Nat)) :
    wt n B (rp :: stack) = B ^ (n - rp.length) + wt n B stack := by
  simp [wt]

theorem cyclesNeighbors_wt {n : Nat} {adj : Nat → List Nat} (hwf : ∀ u, u < n → ∀ v ∈ adj u, v < n)
    (B : Nat) (directed : Bool) {rp : List Nat} (hrp : RPathOK n adj rp)
    (nbs : List Nat) (hnbs : ∀ v ∈ nbs, v ∈ adj (rp.headD 0)) (stack cycles : List (List Nat)) :
    wt n B (cyclesNeighbors directed rp nbs (stack, cycles)).1 ≤
      wt n B stack + (if rp.length < n then nbs.length else 0) * B ^ (n - (rp.length + 1)) := by
  induction nbs generalizing stack cycles with
  | nil => simp [cyclesNeighbors]
  | cons nb rest ih =>
    have hrest : ∀ v ∈ rest, v ∈ adj (rp.headD 0) := fun v hv => hnbs v (List.mem_cons_of_mem _ hv)
    have hedge : nb ∈ adj (rp.headD 0) := hnbs nb List.mem_cons_self
    have hhead : rp.headD 0 < n := by
      obtain ⟨x, t, rfl⟩ := List.exists_cons_of_ne_nil hrp.ne
      exact hrp.lt x List.mem_cons_self
    have hmono : (if rp.length < n then rest.length else 0) * B ^ (n - (rp.length + 1)) ≤
        (if rp.length < n then (nb :: rest).length else 0) * B ^ (n - (rp.length + 1)) := by
      apply Nat.mul_le_mul_right
      split <;> simp
    unfold cyclesNeighbors
    by_cases hback : (!directed && decide (rp.length > 1) && nb == rp.getD 1 0) = true
    · simp only [hback, ↓reduceIte]
      exact Nat.le_trans (ih hrest stack cycles) (Nat.add_le_add_left hmono _)
    · simp only [hback, Bool.false_eq_true, ↓reduceIte]
      by_cases hin : rp.contains nb = true
      · simp only [hin, ↓reduceIte]
        exact Nat.le_trans (ih hrest stack _) (Nat.add_le_add_left hmono _)
      · simp only [hin, Bool.false_eq_true, ↓reduceIte]
        have hext : RPathOK n adj (nb :: rp) := hrp.extend (hwf _ hhead nb hedge) hedge (by simpa using hin)
        have hlen := hext.length_le
        simp only [List.length_cons] at hlen
        have hlt : rp.length < n := by omega
        have := ih hrest ((nb :: rp) :: stack) cycles
        rw [wt_cons] at this
        simp only [List.length_cons, hlt, ↓reduceIte] at this ⊢
        rw [Nat.add_mul]
        omega

theorem cyclesNeighbors_stack_inv {n : Nat} {adj : Nat → List Nat} (hwf : ∀ u, u < n → ∀ v ∈ adj u, v < n)
    (directed : Bool) {rp : List Nat} (hrp : RPathOK n adj rp)
    (nbs : List Nat) (hnbs : ∀ v ∈ nbs, v ∈ adj (rp.headD 0))
    (stack cycles : List (List Nat)) (hs : ∀ p ∈ stack, RPathOK n adj p) :
    ∀ p ∈ (cyclesNeighbors directed rp nbs (stack, cycles)).1, RPathOK n adj p := by
  induction nbs generalizing stack cycles with
  | nil => exact hs
  | cons nb rest ih =>
    have hrest : ∀ v ∈ rest, v ∈ adj (rp.headD 0) := fun v hv => hnbs v (List.mem_cons_of_mem _ hv)
    have hedge : nb ∈ adj (rp.headD 0) := hnbs nb List.mem_cons_self
    have hhead : rp.headD 0 < n := by
      obtain ⟨x, t, rfl⟩ := List.exists_cons_of_ne_nil hrp.ne
      exact hrp.lt x List.mem_cons_self
    unfold cyclesNeighbors
    by_cases hback : (!directed && decide (rp.length > 1) && nb == rp.getD 1 0) = true
    · simp only [hback, ↓reduceIte]
      exact ih hrest stack cycles hs
    · simp only [hback, Bool.false_eq_true, ↓reduceIte]
      by_cases hin : rp.contains nb = true
      · simp only [hin, ↓reduceIte]
        exact ih hrest stack _ hs
      · simp only [hin, Bool.false_eq_true, ↓reduceIte]
        apply ih hrest _ cycles
        intro p hp
        rcases List.mem_cons.mp hp with h | h
        · subst h
          exact hrp.extend (hwf _ hhead nb hedge) hedge (by simpa using hin)
        · exact hs p h

theorem pow_step (D e : Nat) : D * (D + 2) ^ e < (D + 2) ^ (e + 1) := by
  rw [Nat.pow_succ, Nat.mul_comm ((D + 2) ^ e)]
  have hpos : 0 < (D + 2) ^ e := Nat.pow_pos (by omega)
  exact Nat.mul_lt_mul_of_pos_right (by omega) hpos

theorem cyclesLoop_terminates {n : Nat} {adj : Nat → List Nat} (hwf : ∀ u, u < n → ∀ v ∈ adj u, v < n)
    (D : Nat) (hD : ∀ u, u < n → (adj u).length ≤ D) (directed : Bool)
    (fuel : Nat) (stack cycles : List (List Nat))
    (hs : ∀ p ∈ stack, RPathOK n adj p) (hf : wt n (D + 2) stack < fuel) :
    cyclesLoop adj directed fuel stack cycles ≠ none := by
  induction fuel generalizing stack cycles with
  | zero => omega
  | succ fuel ih =>
    unfold cyclesLoop
    match stack, hs, hf with
    | [], _, _ => simp
    | rp :: rest, hs, hf =>
      simp only
      have hrp := hs rp List.mem_cons_self
      have hrest : ∀ p ∈ rest, RPathOK n adj p := fun p hp => hs p (List.mem_cons_of_mem _ hp)
      have hhead : rp.headD 0 < n := by
        obtain ⟨x, t, rfl⟩ := List.exists_cons_of_ne_nil hrp.ne
        exact hrp.lt x List.mem_cons_self
      have hinv := cyclesNeighbors_stack_inv hwf directed hrp (adj (rp.headD 0)) (fun v hv => hv) rest cycles hrest
      have hw := cyclesNeighbors_wt hwf (D + 2) directed hrp (adj (rp.headD 0)) (fun v hv => hv) rest cycles
      apply ih _ _ hinv
      rw [wt_cons] at hf
      have hk := hrp.length_le
      by_cases hlt : rp.length < n
      · simp only [hlt, ↓reduceIte] at hw
        have hdeg := hD _ hhead
        have h1 : (adj (rp.headD 0)).length * (D + 2) ^ (n - (rp.length + 1)) ≤ D * (D + 2) ^ (n - (rp.length + 1)) :=
          Nat.mul_le_mul_right _ hdeg
        have h2 := pow_step D (n - (rp.length + 1))
        have h3 : n - (rp.length + 1) + 1 = n - rp.length := by omega
        rw [h3] at h2
        omega
      · simp only [hlt, ↓reduceIte, Nat.zero_mul, Nat.add_zero] at hw
        have hpos : 0 < (D + 2) ^ (n - rp.length) := Nat.pow_pos (by omega)
        omega

end SkNet.Cycles

namespace SkNet.Cycles
open SkNet SkNet.Connectivity

theorem cyclesFromStarts_terminates {n : Nat} {adj : Nat → List Nat} (hwf : ∀ u, u < n → ∀ v ∈ adj u, v < n)
    (D : Nat) (hD : ∀ u, u < n → (adj u).length ≤ D) (directed : Bool)
    (starts : List Nat) (hst : ∀ s ∈ starts, s < n) (cycles : List (List Nat)) :
    cyclesFromStarts adj directed ((D + 2) ^ (n + 1)) starts cycles ≠ none := by
  induction starts generalizing cycles with
  | nil => simp [cyclesFromStarts]
  | cons s rest ih =>
    unfold cyclesFromStarts
    have hs : s < n := hst s List.mem_cons_self
    have hw : wt n (D + 2) [[s]] < (D + 2) ^ (n + 1) := by
      simp only [wt, List.map_cons, List.length_singleton, List.map_nil, List.sum_cons, List.sum_nil, Nat.add_zero]
      exact Nat.pow_lt_pow_right (by omega) (by omega)
    have := cyclesLoop_terminates hwf D hD directed _ [[s]] cycles
      (by intro p hp; simp only [List.mem_singleton] at hp; subst hp; exact RPathOK.single adj hs) hw
    cases hl : cyclesLoop adj directed ((D + 2) ^ (n + 1)) [[s]] cycles with
    | none => exact absurd hl this
    | some cycles' =>
      simp only
      exact ih (fun x hx => hst x (List.mem_cons_of_mem _ hx)) cycles'

theorem row_length_le_maxOf (m : Mat) (u : Nat) (hu : u < m.nRow) :
    (m.adj u).length ≤ maxOf ((List.range m.nRow).map fun i => (m.adj i).length) :=
  le_maxOf (List.mem_map.mpr ⟨u, List.mem_range.mpr hu, rfl⟩)

end SkNet.Cycles
