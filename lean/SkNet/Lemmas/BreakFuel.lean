/- The traversals of `break_cycles` end within the fuel `cyclesFuel`: same weight as for `get_cycles`
   (a stacked duplicate-free path of length k over n nodes weighs B^(n-k)). -/
import SkNet.Model.Cycles
import SkNet.Spec.Connectivity
import SkNet.Lemmas.CyclesFuel
import SkNet.Lemmas.BreakInv
import SkNet.Lemmas.BreakAcyclic
import SkNet.Lemmas.BreakDir

namespace SkNet.Cycles
open SkNet SkNet.Connectivity

/-- a stack entry for the termination argument: duplicate-free, made of nodes -/
def PathIn (n : Nat) (q : List Nat) : Prop := q.Nodup ∧ ∀ v ∈ q, v < n

theorem Rows.row_remove_length_le (a : Rows) (i j u : Nat) : ((a.remove i j).row u).length ≤ (a.row u).length := by
  rw [Rows.row_remove]
  split
  · exact List.length_filter_le _ _
  · exact Nat.le_refl _

theorem PathIn.length_le {n : Nat} {q : List Nat} (h : PathIn n q) : q.length ≤ n := by
  have := (nodup_sub_length (u := q) (l := List.range n) h.1 (fun a ha => List.mem_range.mpr (h.2 a ha))).1
  simpa using this

/-- one pop of the undirected traversal: the stack gains at most one entry per neighbour, each one longer -/
theorem breakNeighborsUnd_wt {n : Nat} (B : Nat) (cur : Nat) {rp : List Nat} (hrp : PathIn n rp)
    (nbs : List Nat) (hnbs : ∀ v ∈ nbs, v < n) (a : Rows) (stack : List (List Nat))
    (hst : ∀ q ∈ stack, PathIn n q) :
    (∀ q ∈ (breakNeighborsUnd cur rp nbs (a, stack)).2, PathIn n q) ∧
    wt n B (breakNeighborsUnd cur rp nbs (a, stack)).2 ≤
      wt n B stack + (if rp.length < n then nbs.length else 0) * B ^ (n - (rp.length + 1)) := by
  induction nbs generalizing a stack with
  | nil => exact ⟨hst, by simp [breakNeighborsUnd]⟩
  | cons nb rest ih =>
    have hrest : ∀ v ∈ rest, v < n := fun v hv => hnbs v (List.mem_cons_of_mem _ hv)
    have hmono : (if rp.length < n then rest.length else 0) * B ^ (n - (rp.length + 1)) ≤
        (if rp.length < n then (nb :: rest).length else 0) * B ^ (n - (rp.length + 1)) := by
      apply Nat.mul_le_mul_right
      split <;> simp
    unfold breakNeighborsUnd
    split
    · obtain ⟨h1, h2⟩ := ih hrest a stack hst
      exact ⟨h1, Nat.le_trans h2 (Nat.add_le_add_left hmono _)⟩
    · split
      · obtain ⟨h1, h2⟩ := ih hrest _ stack hst
        exact ⟨h1, Nat.le_trans h2 (Nat.add_le_add_left hmono _)⟩
      · rename_i _ hin
        have hnew : PathIn n (nb :: rp) :=
          ⟨List.nodup_cons.mpr ⟨by simpa using hin, hrp.1⟩, fun v hv => by
            rcases List.mem_cons.mp hv with rfl | hv
            · exact hnbs _ List.mem_cons_self
            · exact hrp.2 v hv⟩
        have hlen := hnew.length_le
        simp only [List.length_cons] at hlen
        have hlt : rp.length < n := by omega
        obtain ⟨h1, h2⟩ := ih hrest a ((nb :: rp) :: stack) (by
          intro q hq
          rcases List.mem_cons.mp hq with rfl | hq
          · exact hnew
          · exact hst q hq)
        refine ⟨h1, ?_⟩
        rw [wt_cons] at h2
        simp only [List.length_cons, hlt, ↓reduceIte] at h2 ⊢
        rw [Nat.add_mul]
        omega

theorem breakLoopUnd_terminates {n : Nat} (D : Nat) (fuel : Nat) (a : Rows) (stack : List (List Nat))
    (hwf : ∀ u v, v ∈ a.row u → v < n) (hD : ∀ u, (a.row u).length ≤ D)
    (hst : ∀ q ∈ stack, PathIn n q ∧ q ≠ []) (hf : wt n (D + 2) stack < fuel) :
    breakLoopUnd fuel a stack ≠ none := by
  induction fuel generalizing a stack with
  | zero => omega
  | succ fuel ih =>
    unfold breakLoopUnd
    match stack, hst, hf with
    | [], _, _ => simp
    | rp :: rest, hst, hf =>
      simp only
      have hrest : ∀ q ∈ rest, PathIn n q ∧ q ≠ [] := fun q hq => hst q (List.mem_cons_of_mem _ hq)
      rw [wt_cons] at hf
      have hpos : 0 < (D + 2) ^ (n - rp.length) := Nat.pow_pos (by omega)
      split
      · exact ih a rest hwf hD hrest (by omega)
      · obtain ⟨hrp, hne⟩ := hst rp List.mem_cons_self
        obtain ⟨h1, h2⟩ := breakNeighborsUnd_wt (D + 2) (rp.headD 0) hrp (a.row (rp.headD 0))
          (fun v hv => hwf _ v hv) a rest (fun q hq => (hrest q hq).1)
        obtain ⟨e1, _, _, _⟩ := breakNeighborsUnd_effect (rp.headD 0) rp (a.row (rp.headD 0)) a rest
        apply ih
        · exact fun u v hv => hwf u v (e1.2 u v hv)
        · intro u
          -- rows only lose entries
          have : ∀ (nbs : List Nat) (a0 : Rows) (st : List (List Nat)),
              (breakNeighborsUnd (rp.headD 0) rp nbs (a0, st)).1.length = a0.length ∧
              ∀ u, ((breakNeighborsUnd (rp.headD 0) rp nbs (a0, st)).1.row u).length ≤ (a0.row u).length := by
            intro nbs
            induction nbs with
            | nil => intro a0 st; simp [breakNeighborsUnd]
            | cons nb nbs ihn =>
              intro a0 st
              unfold breakNeighborsUnd
              split
              · exact ihn a0 st
              · split
                · obtain ⟨l1, l2⟩ := ihn ((a0.remove (rp.headD 0) nb).remove nb (rp.headD 0)) st
                  refine ⟨by rw [l1]; simp [Rows.remove], fun u => Nat.le_trans (l2 u) ?_⟩
                  exact Nat.le_trans (Rows.row_remove_length_le _ _ _ _) (Rows.row_remove_length_le _ _ _ _)
                · exact ihn a0 _
          exact Nat.le_trans ((this _ a rest).2 u) (hD u)
        · intro q hq
          refine ⟨h1 q hq, ?_⟩
          -- entries are old ones or pushes
          have : ∀ (nbs : List Nat) (a0 : Rows) (st : List (List Nat)), (∀ q ∈ st, q ≠ []) →
              ∀ q ∈ (breakNeighborsUnd (rp.headD 0) rp nbs (a0, st)).2, q ≠ [] := by
            intro nbs
            induction nbs with
            | nil => intro a0 st hs q hq; exact hs q hq
            | cons nb nbs ihn =>
              intro a0 st hs
              unfold breakNeighborsUnd
              split
              · exact ihn a0 st hs
              · split
                · exact ihn _ st hs
                · apply ihn
                  intro q hq
                  rcases List.mem_cons.mp hq with rfl | hq
                  · simp
                  · exact hs q hq
          exact this _ a rest (fun q hq => (hrest q hq).2) q hq
        · have hk := hrp.length_le
          by_cases hlt : rp.length < n
          · simp only [hlt, ↓reduceIte] at h2
            have hdeg := hD (rp.headD 0)
            have h3 : (a.row (rp.headD 0)).length * (D + 2) ^ (n - (rp.length + 1)) ≤ D * (D + 2) ^ (n - (rp.length + 1)) :=
              Nat.mul_le_mul_right _ hdeg
            have h4 := pow_step D (n - (rp.length + 1))
            have h5 : n - (rp.length + 1) + 1 = n - rp.length := by omega
            rw [h5] at h4
            omega
          · simp only [hlt, ↓reduceIte, Nat.zero_mul, Nat.add_zero] at h2
            omega

end SkNet.Cycles

namespace SkNet.Cycles
open SkNet SkNet.Connectivity

/-- rows only lose entries -/
def RowsLe (a' a : Rows) : Prop := ∀ u, (a'.row u).length ≤ (a.row u).length

theorem RowsLe.refl (a : Rows) : RowsLe a a := fun _ => Nat.le_refl _
theorem RowsLe.trans {a b c : Rows} (h1 : RowsLe a b) (h2 : RowsLe b c) : RowsLe a c :=
  fun u => Nat.le_trans (h1 u) (h2 u)
theorem RowsLe.remove (a : Rows) (i j : Nat) : RowsLe (a.remove i j) a := fun u => Rows.row_remove_length_le a i j u

theorem breakNeighborsUnd_rowsLe (cur : Nat) (rp : List Nat) (nbs : List Nat) (a : Rows) (stack : List (List Nat)) :
    RowsLe (breakNeighborsUnd cur rp nbs (a, stack)).1 a := by
  induction nbs generalizing a stack with
  | nil => exact RowsLe.refl a
  | cons nb rest ih =>
    unfold breakNeighborsUnd
    split
    · exact ih a stack
    · split
      · exact (ih _ stack).trans ((RowsLe.remove _ nb cur).trans (RowsLe.remove a cur nb))
      · exact ih a _

theorem breakLoopUnd_rowsLe (fuel : Nat) (a : Rows) (stack : List (List Nat)) (r : Rows)
    (h : breakLoopUnd fuel a stack = some r) : RowsLe r a := by
  induction fuel generalizing a stack with
  | zero => simp [breakLoopUnd] at h
  | succ fuel ih =>
    unfold breakLoopUnd at h
    split at h
    · cases h; exact RowsLe.refl _
    · split at h
      · exact ih _ _ h
      · simp only at h
        exact (ih _ _ h).trans (breakNeighborsUnd_rowsLe _ _ _ _ _)

theorem breakStarts_terminates {n : Nat} (D : Nat) (starts : List Nat) (hst : ∀ s ∈ starts, s < n) (a : Rows)
    (hwf : ∀ u v, v ∈ a.row u → v < n) (hD : ∀ u, (a.row u).length ≤ D) :
    breakStarts ((D + 2) ^ (n + 1)) starts a ≠ none := by
  induction starts generalizing a with
  | nil => simp [breakStarts]
  | cons s rest ih =>
    unfold breakStarts
    have hs : s < n := hst s List.mem_cons_self
    have hw : wt n (D + 2) [[s]] < (D + 2) ^ (n + 1) := by
      simp only [wt, List.map_cons, List.length_singleton, List.map_nil, List.sum_cons, List.sum_nil, Nat.add_zero]
      exact Nat.pow_lt_pow_right (by omega) (by omega)
    have := breakLoopUnd_terminates D _ a [[s]] hwf hD
      (by intro q hq; simp only [List.mem_singleton] at hq; subst hq; exact ⟨⟨by simp, by simp [hs]⟩, by simp⟩) hw
    cases hl : breakLoopUnd ((D + 2) ^ (n + 1)) a [[s]] with
    | none => exact absurd hl this
    | some a' =>
      simp only
      have hsub := breakLoopUnd_sub _ _ _ _ hl
      have hle := breakLoopUnd_rowsLe _ _ _ _ hl
      exact ih (fun x hx => hst x (List.mem_cons_of_mem _ hx)) a'
        (fun u v hv => hwf u v (hsub.2 u v hv)) (fun u => Nat.le_trans (hle u) (hD u))

end SkNet.Cycles

namespace SkNet.Cycles
open SkNet SkNet.Connectivity

/-! ### the directed branch -/

theorem breakNeighborsDir_wt {n : Nat} (B : Nat) (cur : Nat) {rp : List Nat} (hrp : PathIn n rp)
    (nbs : List Nat) (hnbs : ∀ v ∈ nbs, v < n) (a : Rows) (stack : List (List Nat))
    (hst : ∀ q ∈ stack, PathIn n q) :
    (∀ q ∈ (breakNeighborsDir cur rp nbs (a, stack)).2, PathIn n q) ∧
    wt n B (breakNeighborsDir cur rp nbs (a, stack)).2 ≤
      wt n B stack + (if rp.length < n then nbs.length else 0) * B ^ (n - (rp.length + 1)) := by
  induction nbs generalizing a stack with
  | nil => exact ⟨hst, by simp [breakNeighborsDir]⟩
  | cons nb rest ih =>
    have hrest : ∀ v ∈ rest, v < n := fun v hv => hnbs v (List.mem_cons_of_mem _ hv)
    have hmono : (if rp.length < n then rest.length else 0) * B ^ (n - (rp.length + 1)) ≤
        (if rp.length < n then (nb :: rest).length else 0) * B ^ (n - (rp.length + 1)) := by
      apply Nat.mul_le_mul_right
      split <;> simp
    unfold breakNeighborsDir
    split
    · obtain ⟨h1, h2⟩ := ih hrest _ stack hst
      exact ⟨h1, Nat.le_trans h2 (Nat.add_le_add_left hmono _)⟩
    · rename_i hin
      have hnew : PathIn n (nb :: rp) :=
        ⟨List.nodup_cons.mpr ⟨by simpa using hin, hrp.1⟩, fun v hv => by
          rcases List.mem_cons.mp hv with rfl | hv
          · exact hnbs _ List.mem_cons_self
          · exact hrp.2 v hv⟩
      have hlen := hnew.length_le
      simp only [List.length_cons] at hlen
      have hlt : rp.length < n := by omega
      obtain ⟨h1, h2⟩ := ih hrest a ((nb :: rp) :: stack) (by
        intro q hq
        rcases List.mem_cons.mp hq with rfl | hq
        · exact hnew
        · exact hst q hq)
      refine ⟨h1, ?_⟩
      rw [wt_cons] at h2
      simp only [List.length_cons, hlt, ↓reduceIte] at h2 ⊢
      rw [Nat.add_mul]
      omega

theorem breakNeighborsDir_rowsLe (cur : Nat) (rp : List Nat) (nbs : List Nat) (a : Rows) (stack : List (List Nat)) :
    RowsLe (breakNeighborsDir cur rp nbs (a, stack)).1 a := by
  induction nbs generalizing a stack with
  | nil => exact RowsLe.refl a
  | cons nb rest ih =>
    unfold breakNeighborsDir
    split
    · exact (ih _ stack).trans (RowsLe.remove a cur nb)
    · exact ih a _

theorem breakLoopDir_rowsLe (setOrder : List Nat → List Nat) (cycleNodes : List Nat) (fuel : Nat) (a : Rows)
    (stack : List (List Nat)) (r : Rows) (h : breakLoopDir setOrder cycleNodes fuel a stack = some r) :
    RowsLe r a := by
  induction fuel generalizing a stack with
  | zero => simp [breakLoopDir] at h
  | succ fuel ih =>
    unfold breakLoopDir at h
    split at h
    · cases h; exact RowsLe.refl _
    · split at h
      · exact ih _ _ h
      · simp only at h
        exact (ih _ _ h).trans (breakNeighborsDir_rowsLe _ _ _ _ _)

theorem breakLoopDir_terminates {n : Nat} (setOrder : List Nat → List Nat) (cycleNodes : List Nat)
    (hset1 : ∀ l x, x ∈ setOrder l → x ∈ l) (hset3 : ∀ l, (setOrder l).length ≤ l.length)
    (D : Nat) (fuel : Nat) (a : Rows) (stack : List (List Nat))
    (hwf : ∀ u v, v ∈ a.row u → v < n) (hD : ∀ u, (a.row u).length ≤ D)
    (hst : ∀ q ∈ stack, PathIn n q ∧ q ≠ []) (hf : wt n (D + 2) stack < fuel) :
    breakLoopDir setOrder cycleNodes fuel a stack ≠ none := by
  induction fuel generalizing a stack with
  | zero => omega
  | succ fuel ih =>
    unfold breakLoopDir
    match stack, hst, hf with
    | [], _, _ => simp
    | rp :: rest, hst, hf =>
      simp only
      have hrest : ∀ q ∈ rest, PathIn n q ∧ q ≠ [] := fun q hq => hst q (List.mem_cons_of_mem _ hq)
      rw [wt_cons] at hf
      have hpos : 0 < (D + 2) ^ (n - rp.length) := Nat.pow_pos (by omega)
      split
      · exact ih a rest hwf hD hrest (by omega)
      · obtain ⟨hrp, hne⟩ := hst rp List.mem_cons_self
        have hnbs : ∀ v ∈ setOrder ((a.row (rp.headD 0)).filter cycleNodes.contains), v < n := by
          intro v hv
          exact hwf _ v (List.mem_filter.mp (hset1 _ _ hv)).1
        have hnlen : (setOrder ((a.row (rp.headD 0)).filter cycleNodes.contains)).length ≤ D :=
          Nat.le_trans (hset3 _) (Nat.le_trans (List.length_filter_le _ _) (hD _))
        obtain ⟨h1, h2⟩ := breakNeighborsDir_wt (D + 2) (rp.headD 0) hrp _ hnbs a rest (fun q hq => (hrest q hq).1)
        obtain ⟨e1, _, _, _, e5⟩ := breakNeighborsDir_effect (rp.headD 0) rp
          (setOrder ((a.row (rp.headD 0)).filter cycleNodes.contains)) a rest
        apply ih
        · exact fun u v hv => hwf u v (e1.2 u v hv)
        · exact fun u => Nat.le_trans (breakNeighborsDir_rowsLe _ _ _ _ _ u) (hD u)
        · intro q hq
          refine ⟨h1 q hq, ?_⟩
          rcases e5 q hq with h' | h'
          · exact (hrest q h').2
          · exact h'
        · have hk := hrp.length_le
          by_cases hlt : rp.length < n
          · simp only [hlt, ↓reduceIte] at h2
            have h3 : (setOrder ((a.row (rp.headD 0)).filter cycleNodes.contains)).length *
                (D + 2) ^ (n - (rp.length + 1)) ≤ D * (D + 2) ^ (n - (rp.length + 1)) :=
              Nat.mul_le_mul_right _ hnlen
            have h4 := pow_step D (n - (rp.length + 1))
            have h5 : n - (rp.length + 1) + 1 = n - rp.length := by omega
            rw [h5] at h4
            omega
          · simp only [hlt, ↓reduceIte, Nat.zero_mul, Nat.add_zero] at h2
            omega

end SkNet.Cycles

namespace SkNet.Cycles
open SkNet SkNet.Connectivity

theorem wt_singletons (n B : Nat) (l : List Nat) :
    wt n B ((l.map fun s => [s]).reverse) = l.length * B ^ (n - 1) := by
  unfold wt
  rw [List.map_reverse, List.sum_reverse]
  induction l with
  | nil => simp
  | cons a l ih =>
    simp only [List.map_cons, List.sum_cons, List.length_cons]
    rw [ih, Nat.add_mul]
    simp only [List.length_nil, Nat.zero_add, Nat.one_mul]
    omega

theorem breakLabels_terminates {n : Nat} (setOrder : List Nat → List Nat)
    (hset1 : ∀ l x, x ∈ setOrder l → x ∈ l) (hset3 : ∀ l, (setOrder l).length ≤ l.length)
    (ccLabels : List Nat) (hlen : ccLabels.length = n) (distances : List Int)
    (D : Nat) (hDn : n ≤ D) (labels : List Nat) (a : Rows)
    (hwf : ∀ u v, v ∈ a.row u → v < n) (hD : ∀ u, (a.row u).length ≤ D) :
    breakLabels setOrder ccLabels distances ((D + 2) ^ (n + 1)) labels a ≠ none := by
  induction labels generalizing a with
  | nil => simp [breakLabels]
  | cons L rest ih =>
    unfold breakLabels
    simp only
    -- the stack of sub-roots
    generalize hsr : setOrder ((argwhereEq ccLabels L).filter fun v => distances.getD v (-1) ==
      ((argwhereEq ccLabels L).map fun v => distances.getD v (-1)).foldl min
        (((argwhereEq ccLabels L).map fun v => distances.getD v (-1)).headD 0)) = subroots
    have hsub_mem : ∀ s ∈ subroots, s < n := by
      intro s hs
      rw [← hsr] at hs
      have := (List.mem_filter.mp (hset1 _ _ hs)).1
      rw [← hlen]; exact (mem_argwhereEq.mp this).1
    have hsub_len : subroots.length ≤ n := by
      rw [← hsr]
      refine Nat.le_trans (hset3 _) (Nat.le_trans (List.length_filter_le _ _) ?_)
      rw [argwhereEq_length, ← hlen]
      exact List.count_le_length
    have hw : wt n (D + 2) ((subroots.map fun s => [s]).reverse) < (D + 2) ^ (n + 1) := by
      rw [wt_singletons]
      have h1 : subroots.length * (D + 2) ^ (n - 1) ≤ D * (D + 2) ^ (n - 1) :=
        Nat.mul_le_mul_right _ (Nat.le_trans hsub_len hDn)
      have h2 := pow_step D (n - 1)
      have h3 : (D + 2) ^ (n - 1 + 1) ≤ (D + 2) ^ (n + 1) := Nat.pow_le_pow_right (by omega) (by omega)
      omega
    have hstk : ∀ q ∈ (subroots.map fun s => [s]).reverse, PathIn n q ∧ q ≠ [] := by
      intro q hq
      obtain ⟨s, hs, rfl⟩ := List.mem_map.mp (List.mem_reverse.mp hq)
      exact ⟨⟨by simp, by simp [hsub_mem s hs]⟩, by simp⟩
    have := breakLoopDir_terminates (n := n) setOrder (argwhereEq ccLabels L) hset1 hset3 D _ a _ hwf hD hstk hw
    cases hl : breakLoopDir setOrder (argwhereEq ccLabels L) ((D + 2) ^ (n + 1)) a
        ((subroots.map fun s => [s]).reverse) with
    | none => exact absurd hl this
    | some a' =>
      simp only
      have hsub := breakLoopDir_sub _ _ _ _ _ _ hl
      have hle := breakLoopDir_rowsLe _ _ _ _ _ _ hl
      exact ih a' (fun u v hv => hwf u v (hsub.2 u v hv)) (fun u => Nat.le_trans (hle u) (hD u))

end SkNet.Cycles
